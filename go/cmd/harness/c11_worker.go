package main

// C11: isolated worker processes.  The harness re-executes itself as `harness C11-worker`; the child
// lowers its own RLIMIT_AS, reads one case per line (`<decoder> <hex>`), runs the decoder and the
// accessor sweep under recover and a watchdog, and answers one JSON line per case.  A decoder that
// asks for more memory than the limit kills the child (Go cannot recover from that); the parent sees
// the pipe close, classifies the first unanswered case from the child's stderr and starts a new child.

import (
	"bufio"
	"bytes"
	"encoding/hex"
	"encoding/json"
	"fmt"
	"io"
	"os"
	"os/exec"
	"regexp"
	"runtime/debug"
	"runtime/metrics"
	"runtime/pprof"
	"strconv"
	"strings"
	"sync"
	"sync/atomic"
	"syscall"
	"time"
)

const (
	c11WorkerMem     = 3 << 29 // RLIMIT_AS of a worker: 1.5 GiB (the Go runtime alone needs most of 1 GiB of address space)
	c11CallTimeout   = 6 * time.Second
	c11RunawayInUse  = 192 << 20 // heap in use at an out-of-memory death below which it was one hostile request
	c11RunawayLevels = 3         // heap doublings observed during the case from which on the growth was gradual
	c11MaxInputBytes = 1 << 20
)

// c11Outcome is the result of one case.
type c11Outcome struct {
	D      string      `json:"d"`            // decode phase: ok | err | panic | timeout | oom | runaway | fatal
	DSite  string      `json:"ds,omitempty"` // panic: top frame inside the repository
	DMsg   string      `json:"dm,omitempty"` // panic/fatal message
	A      string      `json:"a,omitempty"`  // accessor phase: ok | panic | timeout | "" (nothing decoded)
	ASite  string      `json:"as,omitempty"`
	AMsg   string      `json:"am,omitempty"`
	Canon  string      `json:"c,omitempty"`
	N      int         `json:"n,omitempty"` // values decoded without error
	T      int64       `json:"t,omitempty"` // wall time of the case in the worker, microseconds
	Solo   bool        `json:"solo,omitempty"`
	Exit   bool        `json:"x,omitempty"`    // the worker exits after this answer (a goroutine of the case is still running)
	SCanon string      `json:"sc,omitempty"`   // canonical value computed by the accessor sweep
	More   [][2]string `json:"more,omitempty"` // further accessor panics of the same sweep (site, message)
}

func init() { checks["C11-worker"] = c11WorkerMain }

func c11RunCase(dec *c11Decoder, in []byte) (out c11Outcome, poisoned bool) {
	var v c11Val
	var err error
	o := guardTimeout(c11CallTimeout, func() { v, err = dec.decode(in) })
	switch {
	case o.timedOut:
		if c11MemoryBound() {
			return c11Outcome{D: "oom", DMsg: "no answer within the watchdog while holding at least 128 MiB"}, true
		}
		return c11Outcome{D: "timeout"}, true
	case o.panicked:
		return c11Outcome{D: "panic", DSite: c11Site(o.stack), DMsg: o.panicVal}, false
	case err != nil:
		return c11Outcome{D: "err", DMsg: firstLine(err.Error())}, false
	}
	out = c11Outcome{D: "ok", Canon: v.canon, N: v.nvals}
	if v.sweep == nil {
		return out, false
	}
	c11Caught = nil
	c11SweepCanon = ""
	o = guardTimeout(c11CallTimeout, v.sweep)
	switch {
	case o.timedOut:
		if c11MemoryBound() {
			out.A = "oom"
			return out, true
		}
		out.A = "timeout"
		return out, true
	case o.panicked:
		site := c11Site(o.stack)
		if strings.Contains(o.panicVal, "fmt swallowed") {
			site = "fmt-swallowed:" + strings.SplitN(o.panicVal, ":", 2)[0]
		}
		c11Caught = append(c11Caught, c11CaughtPanic{site, o.panicVal})
	}
	out.A = "ok"
	out.SCanon = c11SweepCanon
	seen := map[string]bool{}
	for _, cp := range c11Caught {
		k := cp.site + "|" + c11PanicClass(cp.msg)
		if seen[k] {
			continue
		}
		seen[k] = true
		out.A = "panic"
		if out.ASite == "" {
			out.ASite, out.AMsg = cp.site, cp.msg
		} else {
			out.More = append(out.More, [2]string{cp.site, cp.msg})
		}
	}
	return out, false
}

var c11HeapSample = []metrics.Sample{{Name: "/memory/classes/heap/objects:bytes"}, {Name: "/memory/classes/heap/unused:bytes"}}

func c11HeapBytes() uint64 {
	metrics.Read(c11HeapSample)
	return c11HeapSample[0].Value.Uint64() + c11HeapSample[1].Value.Uint64()
}

// c11CaseNo counts the cases of this worker (1-based); the heap sampler tags its lines with it.
var c11CaseNo atomic.Int64

// c11PeakLevel is the highest heap level (1 = 32 MiB, 2 = 64 MiB, 3 = 128 MiB, ...) the sampler saw during
// the current case.
var c11PeakLevel atomic.Int64

// c11MemoryBound: the case held at least 128 MiB.  A watchdog expiry of such a case is counted with the
// memory-bound inputs (`oom`, not judged): clearing and page-faulting hundreds of megabytes takes
// seconds on a loaded machine, which is not a hang of the decoder.
func c11MemoryBound() bool { return c11PeakLevel.Load() >= 3 }

// c11HeapSampler writes "C11-HEAP <case> <level>" to stderr whenever the heap in use crosses a new
// power of two (from 32 MiB) during a case.  One hostile length field jumps over all levels at once
// (one or two lines); a loop that allocates without bound climbs them one by one.  The parent counts
// the lines of the case a worker died on.  Starvation of this goroutine only loses lines.
func c11HeapSampler() {
	sample := []metrics.Sample{{Name: "/memory/classes/heap/objects:bytes"}}
	var lastCase int64
	lastLevel := 0
	for {
		time.Sleep(2 * time.Millisecond)
		metrics.Read(sample)
		mb := sample[0].Value.Uint64() >> 20
		level := 0
		for m := mb >> 5; m > 0; m >>= 1 {
			level++
		}
		cs := c11CaseNo.Load()
		if cs != lastCase {
			lastCase, lastLevel = cs, 0
			c11PeakLevel.Store(0)
		}
		if level > lastLevel {
			lastLevel = level
			c11PeakLevel.Store(int64(level))
			fmt.Fprintf(os.Stderr, "C11-HEAP %d %d\n", cs, level)
		}
	}
}

// c11Site is the panic site: the top frame inside the repository, and (when different) the library
// entry point the harness called.
func c11Site(stack string) string {
	top, entry := "", ""
	for _, l := range strings.Split(stack, "\n") {
		if strings.HasPrefix(l, "main.") {
			if top != "" {
				break
			}
			continue
		}
		if strings.HasPrefix(l, "github.com/biogo/hts/") && !strings.Contains(l, "verif") {
			fn := l
			if j := strings.LastIndex(fn, "("); j > 0 {
				fn = fn[:j]
			}
			fn = strings.TrimPrefix(fn, "github.com/biogo/hts/")
			if top == "" {
				top = fn
			}
			entry = fn
		}
	}
	if top == "" {
		return "unknown"
	}
	if entry != top {
		return top + "<-" + entry
	}
	return top
}

func c11WorkerMain(c *ctx) {
	lim := syscall.Rlimit{Cur: c11WorkerMem, Max: c11WorkerMem}
	_ = syscall.Setrlimit(syscall.RLIMIT_AS, &lim)
	debug.SetMemoryLimit(c11WorkerMem / 2)
	debug.SetTraceback("single")
	if pf := os.Getenv("C11_PROF"); pf != "" {
		f, _ := os.Create(pf)
		pprof.StartCPUProfile(f)
		defer pprof.StopCPUProfile()
	}
	in := bufio.NewReaderSize(os.Stdin, 1<<20)
	out := bufio.NewWriter(os.Stdout)
	enc := json.NewEncoder(out)
	go c11HeapSampler()
	for {
		line, err := in.ReadString('\n')
		if len(line) > 0 {
			line = strings.TrimSpace(line)
			sp := strings.IndexByte(line, ' ')
			if sp < 0 {
				fmt.Fprintln(os.Stderr, "worker: bad line")
				os.Exit(4)
			}
			dec := c11Decoders[line[:sp]]
			if dec == nil {
				fmt.Fprintln(os.Stderr, "worker: unknown decoder", line[:sp])
				os.Exit(4)
			}
			var data []byte
			if line[sp+1:] != "-" {
				data, err = hex.DecodeString(line[sp+1:])
				if err != nil {
					fmt.Fprintln(os.Stderr, "worker: bad hex")
					os.Exit(4)
				}
			}
			t0 := time.Now()
			c11CaseNo.Add(1)
			res, poisoned := c11RunCase(dec, data)
			res.T = time.Since(t0).Microseconds()
			res.Exit = poisoned
			if res.T > 5000 && c11HeapBytes() > 96<<20 {
				// a large allocation was left behind: do not let it distort the next cases
				debug.FreeOSMemory()
			}
			enc.Encode(res)
			out.Flush()
			if poisoned {
				// a goroutine is still spinning or parked: say where, and do not let it eat the machine
				pprof.Lookup("goroutine").WriteTo(os.Stderr, 2)
				os.Exit(3)
			}
		}
		if err != nil {
			break
		}
	}
	out.Flush()
	pprof.StopCPUProfile()
	os.Exit(0)
}

// ---------------------------------------------------------------------------
// parent side

type c11Case struct {
	Decoder string `json:"decoder"`
	Hex     string `json:"hex"`
	Mut     string `json:"mut,omitempty"` // how the input was derived (histogram only)
	Raw     string `json:"raw,omitempty"` // the bytes before wrapping (bam.parseAux: the aux block)
}

func (k c11Case) bytes() []byte {
	if k.Hex == "-" || k.Hex == "" {
		return nil
	}
	b, _ := hex.DecodeString(k.Hex)
	return b
}

type c11Pool struct {
	exe      string
	n        int
	restarts int
	mu       sync.Mutex
}

var c11OOMRe = regexp.MustCompile(`cannot allocate (\d+)-byte block \((\d+) in use\)`)

// classifyDeath turns the stderr of a dead worker into an outcome for the case it was running.
func c11ClassifyDeath(stderr string, caseNo int) c11Outcome {
	levels := strings.Count(stderr, fmt.Sprintf("C11-HEAP %d ", caseNo))
	switch {
	case strings.Contains(stderr, "out of memory") || strings.Contains(stderr, "cannot allocate memory") ||
		strings.Contains(stderr, "failed to allocate"):
		if m := c11OOMRe.FindStringSubmatch(stderr); m != nil {
			inUse, _ := strconv.ParseInt(m[2], 10, 64)
			// one hostile length field (or two) is refused after one or two jumps of the heap; memory that
			// climbed through many doublings before the refusal is a loop that allocates without bound
			if inUse >= c11RunawayInUse && levels >= c11RunawayLevels {
				return c11Outcome{D: "runaway", DSite: c11FatalFrame(stderr), DMsg: "out of memory after growing to " + m[2] + " bytes in use (request " + m[1] + ")"}
			}
			return c11Outcome{D: "oom", DMsg: "request of " + m[1] + " bytes"}
		}
		return c11Outcome{D: "oom", DMsg: firstLine(stderr)}
	case strings.Contains(stderr, "stack exceeds") || strings.Contains(stderr, "stack overflow"):
		return c11Outcome{D: "fatal", DSite: c11FatalFrame(stderr), DMsg: "stack overflow"}
	default:
		return c11Outcome{D: "fatal", DSite: c11FatalFrame(stderr), DMsg: firstLine(stderr)}
	}
}

// c11HangSite finds, in a dump of all goroutines, the decoder goroutine (the one started by
// guardTimeout) and returns its top frame inside the repository.
func c11HangSite(dump string) string {
	for _, g := range strings.Split(dump, "\n\n") {
		if strings.Contains(g, "main.guardTimeout.func1") && strings.Contains(g, "github.com/biogo/hts/") {
			return c11Site(g[strings.IndexByte(g, '\n')+1:])
		}
	}
	return ""
}

func firstLine(s string) string {
	s = strings.TrimSpace(s)
	if i := strings.IndexByte(s, '\n'); i >= 0 {
		s = s[:i]
	}
	if len(s) > 200 {
		s = s[:200]
	}
	return s
}

func c11FatalFrame(stderr string) string {
	return topRepoFrame(stderr)
}

// runBatch runs the cases on one fresh worker, restarting it when it dies, and returns one outcome per case.
func (p *c11Pool) runBatch(cases []c11Case) []c11Outcome {
	outs := make([]c11Outcome, len(cases))
	next := 0
	for next < len(cases) {
		done, death := p.runOnce(cases[next:], outs[next:])
		next += done
		if next < len(cases) && death != nil {
			// outs[next] is the case the worker died on, unless it already answered it (poisoned exit)
			if !death.answered {
				outs[next] = death.out
				next++
			}
			p.mu.Lock()
			p.restarts++
			p.mu.Unlock()
		}
	}
	// outcomes that depend on the state of the worker (memory left by earlier cases, CPU starvation)
	// are decided by re-running the case alone in a fresh worker
	if len(cases) > 1 {
		for i := range cases {
			switch {
			case outs[i].D == "timeout" || outs[i].A == "timeout" || outs[i].D == "runaway" || outs[i].D == "fatal":
				solo := p.runBatch(cases[i : i+1])
				solo[0].Solo = true
				outs[i] = solo[0]
			}
		}
	}
	return outs
}

type c11Death struct {
	out      c11Outcome
	answered bool
}

func (p *c11Pool) runOnce(cases []c11Case, outs []c11Outcome) (int, *c11Death) {
	cmd := exec.Command(p.exe, "C11-worker")
	stdin, err := cmd.StdinPipe()
	if err != nil {
		panic(err)
	}
	stdout, err := cmd.StdoutPipe()
	if err != nil {
		panic(err)
	}
	var errb bytes.Buffer
	cmd.Stderr = &errb
	if err := cmd.Start(); err != nil {
		panic(err)
	}
	go func() {
		w := bufio.NewWriterSize(stdin, 1<<16)
		for _, k := range cases {
			hx := k.Hex
			if hx == "" {
				hx = "-"
			}
			if _, err := fmt.Fprintf(w, "%s %s\n", k.Decoder, hx); err != nil {
				break
			}
		}
		w.Flush()
		stdin.Close()
	}()
	rd := bufio.NewReaderSize(stdout, 1<<20)
	done := 0
	timedOut := false
	for done < len(cases) {
		type rl struct {
			line []byte
			err  error
		}
		ch := make(chan rl, 1)
		go func() {
			l, err := rd.ReadBytes('\n')
			ch <- rl{l, err}
		}()
		var r rl
		select {
		case r = <-ch:
		case <-time.After(3*c11CallTimeout + 5*time.Second):
			// the worker itself is stuck (should not happen: its own watchdog fires first)
			cmd.Process.Kill()
			timedOut = true
			r = <-ch
		}
		if r.err != nil && len(r.line) == 0 {
			break
		}
		var o c11Outcome
		if err := json.Unmarshal(r.line, &o); err != nil {
			break
		}
		outs[done] = o
		done++
		if o.Exit || o.D == "timeout" || o.A == "timeout" {
			// the worker exits after answering
			io.Copy(io.Discard, rd)
			cmd.Wait()
			if site := c11HangSite(errb.String()); site != "" {
				if o.D == "timeout" {
					outs[done-1].DSite = site
				} else {
					outs[done-1].ASite = site
				}
			}
			return done, &c11Death{answered: true}
		}
	}
	io.Copy(io.Discard, rd)
	err = cmd.Wait()
	if done == len(cases) {
		return done, nil
	}
	if timedOut {
		return done, &c11Death{out: c11Outcome{D: "timeout", DMsg: "worker killed by the parent watchdog"}}
	}
	return done, &c11Death{out: c11ClassifyDeath(errb.String(), done+1)}
}

// runAll distributes the cases over p.n workers (deterministic result order).
func (p *c11Pool) runAll(cases []c11Case) []c11Outcome {
	outs := make([]c11Outcome, len(cases))
	const batch = 2000
	type job struct{ lo, hi int }
	jobs := make(chan job, len(cases)/batch+1)
	for lo := 0; lo < len(cases); lo += batch {
		hi := lo + batch
		if hi > len(cases) {
			hi = len(cases)
		}
		jobs <- job{lo, hi}
	}
	close(jobs)
	var wg sync.WaitGroup
	for w := 0; w < p.n; w++ {
		wg.Add(1)
		go func() {
			defer wg.Done()
			for j := range jobs {
				t0 := time.Now()
				r0 := p.restarts
				copy(outs[j.lo:j.hi], p.runBatch(cases[j.lo:j.hi]))
				if os.Getenv("C11_DEBUG") != "" {
					fmt.Fprintf(os.Stderr, "c11: batch %d..%d (%s) %v restarts+%d\n", j.lo, j.hi, cases[j.lo].Decoder, time.Since(t0).Round(time.Millisecond), p.restarts-r0)
				}
			}
		}()
	}
	wg.Wait()
	return outs
}
