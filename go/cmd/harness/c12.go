package main

// C12 — whole blocks in write order; Flush+Wait durability (fault-free runs).
// The writer-run machinery (recording/delaying/faulting underlying writer, API event trace, dead-lock
// detection by goroutine dump, BGZF framing parser, chunking simulator) is shared with C09 (c09.go).

import (
	"bytes"
	"compress/flate"
	"compress/gzip"
	"encoding/binary"
	"encoding/json"
	"errors"
	"fmt"
	"hash/crc32"
	"io"
	"os"
	"os/exec"
	"runtime"
	"strings"
	"sync"
	"sync/atomic"
	"time"

	"github.com/biogo/hts/bam"
	"github.com/biogo/hts/bgzf"
	"github.com/biogo/hts/sam"
)

func init() { checks["C12"] = checkC12 }

const wBlockSize = 0xff00 // bgzf.BlockSize

var wMagic = []byte("\x1f\x8b\x08\x04\x00\x00\x00\x00\x00\xff\x06\x00\x42\x43\x02\x00\x1b\x00\x03\x00\x00\x00\x00\x00\x00\x00\x00\x00")

// ---------------------------------------------------------------------------
// inputs

type wOp struct {
	K string `json:"k"`           // w | f | wt | c   (bgzf)   /   rec (bam record write) | c (bam)
	N int    `json:"n,omitempty"` // bytes of a write / sequence length of a bam record
}

type wInput struct {
	WC         int    `json:"wc"`
	Ops        []wOp  `json:"ops"`
	Procs      int    `json:"gomaxprocs"`
	DelaySeed  uint64 `json:"delay_seed"`
	MaxDelayUs int    `json:"max_delay_us"`        // per underlying Write call: random delay in [0, max]
	APIDelayUs int    `json:"api_delay_us"`        // random delay before each API call
	FaultAt    int    `json:"fault_at"`            // index of the first failing underlying Write (-1: none); all later calls fail too
	Partial    bool   `json:"partial"`             // the failing call accepts part of the data before reporting the error
	Transient  bool   `json:"transient,omitempty"` // only the call FaultAt fails; the underlying writer would accept later calls (a correct writer makes none)
	Bam        bool   `json:"bam"`
	DataSeed   uint64 `json:"data_seed"`
	ExtraLen   int    `json:"extra_len,omitempty"` // bytes of user Extra in the writer's gzip header: large values make writeBlock fail with ErrBlockOverflow
	BadName    bool   `json:"bad_name,omitempty"`  // a header Name outside Latin-1: gzip refuses every block
}

func (in wInput) shape() string {
	var b strings.Builder
	for i, o := range in.Ops {
		if i > 0 {
			b.WriteByte(',')
		}
		b.WriteString(o.K)
		if o.K == "w" || o.K == "rec" {
			fmt.Fprintf(&b, "%d", o.N)
		}
	}
	return b.String()
}

// wData is the deterministic data stream: 8-byte counters (compressible, every block distinct).
func wData(seed uint64, n int) []byte {
	b := make([]byte, n+8)
	for i := 0; i < n; i += 8 {
		binary.LittleEndian.PutUint64(b[i:], seed+uint64(i/8)*0x9e3779b97f4a7c15>>20)
	}
	return b[:n]
}

// ---------------------------------------------------------------------------
// independent simulation of Write's block splitting: which chunks are submitted, by which call

type wChunk struct{ off, n int }

type wSim struct {
	next   int // bytes in the active block
	off    int // start of the active block in the data stream
	chunks []wChunk
}

func (s *wSim) submit() {
	s.chunks = append(s.chunks, wChunk{s.off, s.next})
	s.off += s.next
	s.next = 0
}

// write returns the number of blocks submitted during the call.
func (s *wSim) write(n int) int {
	k := 0
	for n > 0 {
		m := 0
		if s.next == 0 || s.next+n <= wBlockSize {
			m = n
			if m > wBlockSize-s.next {
				m = wBlockSize - s.next
			}
			n -= m
			s.next += m
		}
		if s.next == wBlockSize || m == 0 {
			s.submit()
			k++
		}
	}
	return k
}

func (s *wSim) flush() bool {
	if s.next == 0 {
		return false
	}
	s.submit()
	return true
}

// ---------------------------------------------------------------------------
// BGZF framing parser (own, from the SAM specification §4.1 / RFC 1952)

var errNotWhole = errors.New("not a whole number of BGZF members")

// wParseMembers splits p into whole BGZF members and returns the payload of each.
func wParseMembers(p []byte) ([][]byte, error) {
	var out [][]byte
	for len(p) > 0 {
		if len(p) < 18 {
			return out, errNotWhole
		}
		if p[0] != 0x1f || p[1] != 0x8b || p[2] != 8 || p[3]&4 == 0 {
			return out, fmt.Errorf("bad gzip header % x", p[:4])
		}
		xlen := int(binary.LittleEndian.Uint16(p[10:]))
		if len(p) < 12+xlen {
			return out, errNotWhole
		}
		bsize := -1
		for x := p[12 : 12+xlen]; len(x) >= 4; {
			l := int(binary.LittleEndian.Uint16(x[2:]))
			if len(x) < 4+l {
				break
			}
			if x[0] == 'B' && x[1] == 'C' && l == 2 {
				bsize = int(binary.LittleEndian.Uint16(x[4:]))
			}
			x = x[4+l:]
		}
		if bsize < 0 {
			return out, errors.New("no BC subfield")
		}
		if p[3] != 4 {
			return out, errors.New("FLG != 4")
		}
		if len(p) < bsize+1 || bsize+1 < 12+xlen+8 {
			return out, errNotWhole
		}
		m := p[:bsize+1]
		fr := flate.NewReader(bytes.NewReader(m[12+xlen : len(m)-8]))
		data, err := io.ReadAll(fr)
		if err != nil {
			return out, fmt.Errorf("inflate: %v", err)
		}
		if crc32.ChecksumIEEE(data) != binary.LittleEndian.Uint32(m[len(m)-8:]) ||
			uint32(len(data)) != binary.LittleEndian.Uint32(m[len(m)-4:]) {
			return out, errors.New("CRC32/ISIZE mismatch")
		}
		out = append(out, data)
		p = p[bsize+1:]
	}
	return out, nil
}

// ---------------------------------------------------------------------------
// recording underlying writer

type uwCall struct {
	idx     int
	p       []byte // bytes offered
	n       int    // bytes accepted
	failed  bool
	offered int // bytes handed to API Write calls started so far, when the call returned
}

type recWriter struct {
	mu        sync.Mutex
	events    []string // raw event log; U-events are "U#<call index>" and labelled later
	calls     []*uwCall
	offered   int
	delays    *Rand
	maxDelay  int
	faultAt   int
	partial   bool
	transient bool
	inCall    int32
}

var errInjected = errors.New("verif: injected write fault")

func (w *recWriter) Write(p []byte) (int, error) {
	atomic.AddInt32(&w.inCall, 1)
	defer atomic.AddInt32(&w.inCall, -1)
	w.mu.Lock()
	idx := len(w.calls)
	c := &uwCall{idx: idx, p: append([]byte(nil), p...)}
	w.calls = append(w.calls, c)
	var d int
	if w.maxDelay > 0 {
		d = w.delays.intn(w.maxDelay + 1)
	}
	w.mu.Unlock()
	if d > 0 {
		time.Sleep(time.Duration(d) * time.Microsecond)
	} else {
		runtime.Gosched()
	}
	w.mu.Lock()
	defer w.mu.Unlock()
	c.offered = w.offered
	if w.faultAt >= 0 && (idx == w.faultAt || (idx > w.faultAt && !w.transient)) {
		c.failed = true
		if w.partial && len(p) > 1 {
			c.n = len(p) / 2
		}
		w.events = append(w.events, fmt.Sprintf("U#%d", idx))
		return c.n, errInjected
	}
	c.n = len(p)
	w.events = append(w.events, fmt.Sprintf("U#%d", idx))
	return len(p), nil
}

func (w *recWriter) event(e string) {
	w.mu.Lock()
	w.events = append(w.events, e)
	w.mu.Unlock()
}

// snapshot: number of underlying calls completed so far (those whose event is logged)
func (w *recWriter) completed() int {
	w.mu.Lock()
	defer w.mu.Unlock()
	n := 0
	for _, e := range w.events {
		if strings.HasPrefix(e, "U#") {
			n++
		}
	}
	return n
}

// ---------------------------------------------------------------------------
// dead-lock detection

type hangInfo struct {
	Op       string `json:"op"`
	Deadlock bool   `json:"deadlock"`
	APIFrame string `json:"api_frame"`
	Dump     string `json:"-"`
}

func allStacks() string {
	buf := make([]byte, 1<<20)
	for {
		n := runtime.Stack(buf, true)
		if n < len(buf) {
			return string(buf[:n])
		}
		buf = make([]byte, 2*len(buf))
	}
}

// libGoroutines returns the dump sections of goroutines that have a frame in the given library package
// (e.g. "github.com/biogo/hts/bgzf."), excluding the one that is executing the harness' API call when
// skipAPI is set.
func libGoroutines(dump, pkg string, skipAPI bool) []string {
	var out []string
	for _, sec := range strings.Split(dump, "\n\n") {
		if !strings.Contains(sec, pkg) {
			continue
		}
		if skipAPI && strings.Contains(sec, "main.apiCall") {
			continue
		}
		out = append(out, sec)
	}
	return out
}

func goroutineState(sec string) string {
	i := strings.Index(sec, "[")
	j := strings.Index(sec, "]")
	if i < 0 || j < i {
		return "?"
	}
	st := sec[i+1 : j]
	if k := strings.Index(st, ","); k >= 0 {
		st = st[:k]
	}
	return st
}

func blockedState(st string) bool {
	switch st {
	case "chan receive", "chan send", "select", "semacquire", "sync.WaitGroup.Wait", "sync.Cond.Wait",
		"chan receive (nil chan)", "chan send (nil chan)", "select (no cases)":
		return true
	}
	return false
}

// quiescentDump: every goroutine with library or wrapper frames is parked on a channel / WaitGroup.
func quiescentDump(dump string) bool {
	any := false
	for _, sec := range strings.Split(dump, "\n\n") {
		if !strings.Contains(sec, "github.com/biogo/hts/") && !strings.Contains(sec, "main.(*recWriter)") &&
			!strings.Contains(sec, "main.(*faultSource)") {
			continue
		}
		if strings.Contains(sec, "main.allStacks") {
			continue
		}
		any = true
		if !blockedState(goroutineState(sec)) {
			return false
		}
	}
	return any
}

func apiFrame(dump string) string {
	for _, sec := range strings.Split(dump, "\n\n") {
		if !strings.Contains(sec, "main.apiCall") {
			continue
		}
		st := goroutineState(sec)
		for _, l := range strings.Split(sec, "\n") {
			if strings.HasPrefix(l, "github.com/biogo/hts/") {
				fn := l
				if j := strings.LastIndex(fn, "("); j > 0 {
					fn = fn[:j]
				}
				return strings.TrimPrefix(fn, "github.com/biogo/hts/") + " [" + st + "]"
			}
		}
	}
	return "?"
}

// apiCall runs f (one API call of the library) under a watchdog. A call that does not return is
// classified by goroutine dumps: dead-lock = two consecutive dumps, 250 ms apart, in which every goroutine
// with library frames is parked and no underlying call is in progress.
func apiCall(limit time.Duration, busy func() bool, f func()) (o callOutcome, h *hangInfo) {
	ch := make(chan callOutcome, 1)
	go func() { ch <- guard(f) }()
	deadline := time.After(limit)
	tick := time.NewTicker(250 * time.Millisecond)
	defer tick.Stop()
	quiet := 0
	n := 0
	for {
		select {
		case o = <-ch:
			return o, nil
		case <-tick.C:
			// the call may have completed at the same instant
			select {
			case o = <-ch:
				return o, nil
			default:
			}
			n++
			if n < 2 {
				continue
			}
			dump := allStacks()
			if (busy == nil || !busy()) && quiescentDump(dump) && apiFrame(dump) != "?" {
				quiet++
			} else {
				quiet = 0
			}
			if quiet >= 2 {
				return callOutcome{timedOut: true}, &hangInfo{Deadlock: true, APIFrame: apiFrame(dump), Dump: dump}
			}
		case <-deadline:
			select {
			case o = <-ch:
				return o, nil
			default:
			}
			dump := allStacks()
			return callOutcome{timedOut: true}, &hangInfo{Deadlock: false, APIFrame: apiFrame(dump), Dump: dump}
		}
	}
}

// ---------------------------------------------------------------------------
// one run of a writer script

type wRun struct {
	in       wInput
	rw       *recWriter
	data     []byte   // the data stream handed to Write calls (bgzf) / the reference uncompressed stream (bam)
	results  []string // per op: ok | err | closed | hang | panic
	script   []string // model script tokens (from the harness's own block-splitting simulation wSim)
	concrete []string // the concrete script by payload sizes, for the Lean abstraction c12.abstract
	chunks   []wChunk
	hang     *hangInfo
	panicked string
	// durability points: decoded bytes that must be delivered, checked when the op returned
	fails []wFail
	// bam only
	headerLen    int
	newWriterErr string
	realChunks   int // chunks of the script up to its first Close (later Writes are refused with ErrClosed)
	beforeLib    int
	afterLib     []string
}

type wFail struct{ sig, what string }

func (r *wRun) fail(sig, format string, a ...interface{}) {
	r.fails = append(r.fails, wFail{sig, fmt.Sprintf(format, a...)})
}

func errRes(err error) string {
	if err == nil {
		return "ok"
	}
	if err == bgzf.ErrClosed {
		return "closed"
	}
	return "err"
}

// decodedLen parses the delivered bytes (accepted bytes of the first ncalls completed underlying calls):
// returns the decoded payload length and whether each successful call carried whole members.
func (r *wRun) delivered(ncalls int) (decoded []byte, whole bool, why string) {
	whole = true
	r.rw.mu.Lock()
	calls := append([]*uwCall(nil), r.rw.calls...)
	r.rw.mu.Unlock()
	seen := 0
	for _, c := range calls {
		if seen >= ncalls {
			break
		}
		seen++
		if c.n == 0 {
			continue
		}
		ms, err := wParseMembers(c.p[:c.n])
		for _, m := range ms {
			decoded = append(decoded, m...)
		}
		if err != nil {
			if !c.failed {
				whole = false
				why = fmt.Sprintf("underlying Write #%d (%d bytes): %v", c.idx, c.n, err)
			}
			break
		}
	}
	return
}

const wAPILimit = 20 * time.Second

var wHangs int32 // hung library goroutine groups abandoned so far in this process

func wRunScript(in wInput) *wRun {
	r := &wRun{in: in}
	if in.Bam {
		return wRunBam(in)
	}
	total := 0
	for _, o := range in.Ops {
		if o.K == "w" {
			total += o.N
		}
	}
	r.data = wData(in.DataSeed, total)
	r.rw = &recWriter{delays: &Rand{in.DelaySeed}, maxDelay: in.MaxDelayUs, faultAt: in.FaultAt, partial: in.Partial, transient: in.Transient}
	apiDelays := &Rand{in.DelaySeed ^ 0xabcdef}
	old := runtime.GOMAXPROCS(in.Procs)
	defer runtime.GOMAXPROCS(old)
	r.beforeLib = len(libGoroutines(allStacks(), "github.com/biogo/hts/bgzf.", false))

	var bg *bgzf.Writer
	o := guard(func() { bg = bgzf.NewWriter(r.rw, in.WC) })
	if o.panicked || bg == nil {
		r.panicked = "NewWriter: " + o.panicVal
		return r
	}
	if in.ExtraLen > 0 {
		bg.Extra = make([]byte, in.ExtraLen)
	}
	if in.BadName {
		bg.Name = "\u0100"
	}
	busy := func() bool { return atomic.LoadInt32(&r.rw.inCall) > 0 }
	sim := &wSim{}
	pos := 0
	written := 0     // bytes of Write calls that returned
	flushedNil := -1 // bytes written before the last Flush that returned nil, if the previous op was that Flush
	closedOK := false
	for i, op := range in.Ops {
		if in.APIDelayUs > 0 {
			if d := apiDelays.intn(in.APIDelayUs + 1); d > 0 {
				time.Sleep(time.Duration(d) * time.Microsecond)
			}
		}
		var err error
		var tok string
		var f func()
		switch op.K {
		case "w":
			b := r.data[pos : pos+op.N]
			pos += op.N
			if closedOK {
				tok = "w0" // refused with ErrClosed: no block
			} else {
				tok = fmt.Sprintf("w%d", sim.write(op.N))
			}
			r.concrete = append(r.concrete, fmt.Sprintf("w%d", op.N))
			r.rw.mu.Lock()
			r.rw.offered += op.N
			r.rw.mu.Unlock()
			f = func() { _, err = bg.Write(b) }
		case "f":
			if !closedOK && sim.flush() {
				tok = "f1"
			} else {
				tok = "f0"
			}
			r.concrete = append(r.concrete, "f")
			f = func() { err = bg.Flush() }
		case "wt":
			tok = "wt"
			f = func() { err = bg.Wait() }
		case "c":
			if !closedOK {
				sim.submit()
				r.realChunks = len(sim.chunks)
			}
			closedOK = true
			tok = "c"
			f = func() { err = bg.Close() }
		default:
			panic("bad op " + op.K)
		}
		if op.K == "wt" || op.K == "c" {
			r.concrete = append(r.concrete, op.K)
		}
		r.script = append(r.script, tok)
		r.rw.event("C" + tok)
		oc, h := apiCall(wAPILimit, busy, f)
		if h != nil {
			h.Op = op.K
			r.hang = h
			r.results = append(r.results, "hang")
			atomic.AddInt32(&wHangs, 1)
			break
		}
		if oc.panicked {
			r.panicked = fmt.Sprintf("op %d (%s): %s at %s", i, op.K, oc.panicVal, topRepoFrame(oc.stack))
			r.results = append(r.results, "panic")
			break
		}
		res := errRes(err)
		ncalls := r.rw.completed()
		r.rw.event("R" + res)
		r.results = append(r.results, res)
		// durability clauses, judged on the delivered bytes at the moment the call returned
		switch op.K {
		case "w":
			if err == nil {
				written += op.N
			}
			flushedNil = -1
		case "f":
			flushedNil = -1
			if err == nil {
				flushedNil = written
			}
		case "wt":
			if err == nil && flushedNil >= 0 {
				dec, _, _ := r.delivered(ncalls)
				if len(dec) < flushedNil {
					r.fail("writer.flushwait.nil.not-durable", "Flush then Wait returned nil after %d bytes were written, but only %d decoded bytes had been delivered (op %d)", flushedNil, len(dec), i)
				}
			}
			flushedNil = -1
		case "c":
			flushedNil = -1
			if err == nil {
				dec, _, _ := r.delivered(ncalls)
				if !bytes.Equal(dec, r.data[:written]) {
					r.fail("writer.close.nil.not-durable", "Close returned nil; %d bytes written, %d decoded bytes delivered (equal prefix: %v)", written, len(dec), bytes.HasPrefix(r.data, dec))
				}
				if !r.endsWithEOF(ncalls) {
					r.fail("writer.close.nil.no-eof-marker", "Close returned nil but the delivered bytes do not end with the EOF marker block")
				}
			}
		}
	}
	r.chunks = sim.chunks
	if !closedOK {
		r.realChunks = len(sim.chunks)
	}
	if r.hang == nil && closedOK {
		// goroutines of the library must be gone after Close (allow them a moment to unwind)
		for try := 0; try < 50; try++ {
			r.afterLib = libGoroutines(allStacks(), "github.com/biogo/hts/bgzf.", false)
			if len(r.afterLib) <= r.beforeLib {
				break
			}
			time.Sleep(2 * time.Millisecond)
		}
	}
	return r
}

func (r *wRun) endsWithEOF(ncalls int) bool {
	r.rw.mu.Lock()
	defer r.rw.mu.Unlock()
	var all []byte
	for i, c := range r.rw.calls {
		if i >= ncalls {
			break
		}
		all = append(all, c.p[:c.n]...)
	}
	return bytes.HasSuffix(all, wMagic)
}

// compressFails predicts, with compress/gzip itself, whether compressor.writeBlock refuses this block under the
// run's header: gzip refuses the header (Name outside Latin-1), or the member is longer than 64 KiB.
func (r *wRun) compressFails(p []byte) bool {
	if r.in.BadName {
		return true
	}
	if r.in.ExtraLen == 0 {
		return false
	}
	var buf bytes.Buffer
	gz, _ := gzip.NewWriterLevel(&buf, gzip.DefaultCompression)
	gz.Header = gzip.Header{Extra: append([]byte("BC\x02\x00\x00\x00"), make([]byte, r.in.ExtraLen)...), OS: 0xff}
	if _, err := gz.Write(p); err != nil {
		return true
	}
	if err := gz.Close(); err != nil {
		return true
	}
	return buf.Len()-1 >= 0x10000
}

// cfaults: the ids of the script's blocks whose compression fails.
func (r *wRun) cfaults() []int {
	if r.in.Bam || (r.in.ExtraLen == 0 && !r.in.BadName) {
		return nil
	}
	var out []int
	for i, ch := range r.chunks {
		if i >= r.realChunks {
			break
		}
		if r.compressFails(r.data[ch.off : ch.off+ch.n]) {
			out = append(out, i)
		}
	}
	return out
}

// labelled event trace for the model: U#i -> U<blk>:<ok>
func (r *wRun) trace() (events []string, out []int, eof bool, anyFail bool) {
	r.rw.mu.Lock()
	defer r.rw.mu.Unlock()
	used := make([]bool, len(r.chunks))
	for _, e := range r.rw.events {
		if !strings.HasPrefix(e, "U#") {
			events = append(events, e)
			continue
		}
		var idx int
		fmt.Sscanf(e, "U#%d", &idx)
		c := r.rw.calls[idx]
		ok := 1
		if c.failed {
			ok = 0
			anyFail = true
		}
		if bytes.Equal(c.p, wMagic) {
			events = append(events, fmt.Sprintf("Ue:%d", ok))
			if ok == 1 {
				eof = true
			}
			continue
		}
		label := "?"
		if ms, err := wParseMembers(c.p); err == nil && len(ms) == 1 {
			for i, ch := range r.chunks {
				if !used[i] && ch.n == len(ms[0]) && ch.off+ch.n <= len(r.data) && bytes.Equal(r.data[ch.off:ch.off+ch.n], ms[0]) {
					used[i] = true
					label = fmt.Sprint(i)
					if ok == 1 {
						out = append(out, i)
					}
					break
				}
			}
		}
		if label == "?" {
			label = "99999"
		}
		events = append(events, fmt.Sprintf("U%s:%d", label, ok))
	}
	return
}

// prefixOracle: after every underlying Write that returned, the delivered bytes are whole members that
// decode to a prefix of the data handed to the writer so far.
func (r *wRun) prefixOracle() {
	r.rw.mu.Lock()
	calls := append([]*uwCall(nil), r.rw.calls...)
	nev := 0
	for _, e := range r.rw.events {
		if strings.HasPrefix(e, "U#") {
			nev++
		}
	}
	r.rw.mu.Unlock()
	var decoded []byte
	for i, c := range calls {
		if i >= nev {
			break // call still in progress when the run was abandoned
		}
		if c.failed {
			if c.n == 0 {
				continue
			}
			// an error after partial data: whatever was accepted cannot be whole; nothing may follow it
			for _, c2 := range calls[i+1:] {
				if c2.n > 0 {
					r.fail("writer.write-after-failed-write", "underlying Write #%d delivered %d bytes after Write #%d had failed after partial data", c2.idx, c2.n, c.idx)
					break
				}
			}
			break
		}
		ms, err := wParseMembers(c.p[:c.n])
		if err != nil {
			r.fail("writer.delivered.not-whole-blocks", "after underlying Write #%d returned: %v", c.idx, err)
			return
		}
		for _, m := range ms {
			decoded = append(decoded, m...)
		}
		if len(decoded) > c.offered || !bytes.HasPrefix(r.data, decoded) {
			r.fail("writer.delivered.not-a-prefix", "after underlying Write #%d returned: %d decoded bytes, %d bytes handed to the writer so far, prefix of the written data: %v",
				c.idx, len(decoded), c.offered, bytes.HasPrefix(r.data, decoded))
			return
		}
	}
	// no delivery at all after a failed call
	failedSeen := -1
	for _, c := range calls {
		if failedSeen >= 0 && !c.failed && c.n > 0 {
			r.fail("writer.write-after-failed-write", "underlying Write #%d succeeded after Write #%d had failed", c.idx, failedSeen)
			break
		}
		if c.failed && failedSeen < 0 {
			failedSeen = c.idx
		}
	}
}

// ---------------------------------------------------------------------------
// BAM: bam.NewWriter writes the header and must have it durable when it returns

func wBamHeader() *sam.Header {
	ref, _ := sam.NewReference("chr1", "", "", 1000000, nil, nil)
	h, _ := sam.NewHeader(nil, []*sam.Reference{ref})
	return h
}

func wBamRecord(h *sam.Header, i, n int) *sam.Record {
	seq := make([]byte, n)
	for j := range seq {
		seq[j] = "ACGT"[(i+j)&3]
	}
	qual := make([]byte, n)
	for j := range qual {
		qual[j] = byte(30 + (i+j)%10)
	}
	r, err := sam.NewRecord(fmt.Sprintf("r%d", i), h.Refs()[0], nil, i*10, -1, 0, 30,
		[]sam.CigarOp{sam.NewCigarOp(sam.CigarMatch, n)}, seq, qual, nil)
	if err != nil {
		panic(err)
	}
	return r
}

// wBamReference produces the uncompressed BAM stream of the script by a fault-free sequential run, and the
// header length.
func wBamReference(in wInput) (data []byte, headerLen int, recEnds []int, err error) {
	defer func() {
		if v := recover(); v != nil {
			err = fmt.Errorf("reference run: %v", v)
		}
	}()
	var buf bytes.Buffer
	h := wBamHeader()
	var hb bytes.Buffer
	h.EncodeBinary(&hb)
	headerLen = hb.Len()
	bw, err := bam.NewWriter(&buf, h, 1)
	if err != nil {
		panic(err)
	}
	cuts := []int{}
	for i, op := range in.Ops {
		if op.K == "rec" {
			if err := bw.Write(wBamRecord(h, i, op.N)); err != nil {
				panic(err)
			}
			cuts = append(cuts, 0)
		}
	}
	bw.Close()
	ms, err := wParseMembers(buf.Bytes())
	if err != nil {
		panic(err)
	}
	for _, m := range ms {
		data = append(data, m...)
	}
	// record ends, from the block_size prefixes
	p := headerLen
	for range cuts {
		l := int(binary.LittleEndian.Uint32(data[p:]))
		p += 4 + l
		recEnds = append(recEnds, p)
	}
	return
}

func wRunBam(in wInput) *wRun {
	r := &wRun{in: in}
	var recEnds []int
	var rerr error
	r.data, r.headerLen, recEnds, rerr = wBamReference(in)
	r.rw = &recWriter{delays: &Rand{in.DelaySeed}, maxDelay: in.MaxDelayUs, faultAt: in.FaultAt, partial: in.Partial, transient: in.Transient}
	if rerr != nil {
		// the fault-free sequential run (wc=1, in-memory writer) of this script does not decode: blocks lost or reordered
		r.fail("writer.sequential-run.corrupt", "bam script, wc=1, no faults, no delays: the output does not decode into the records written: %v", rerr)
		return r
	}
	old := runtime.GOMAXPROCS(in.Procs)
	defer runtime.GOMAXPROCS(old)
	r.beforeLib = len(libGoroutines(allStacks(), "github.com/biogo/hts/bgzf.", false))
	busy := func() bool { return atomic.LoadInt32(&r.rw.inCall) > 0 }
	h := wBamHeader()
	sim := &wSim{}
	var bw *bam.Writer
	var err error
	// the model script of NewWriter: Write(header), Flush, Wait
	r.rw.mu.Lock()
	r.rw.offered = r.headerLen
	r.rw.mu.Unlock()
	r.concrete = append(r.concrete, fmt.Sprintf("w%d", r.headerLen), "f", "wt")
	r.script = append(r.script, fmt.Sprintf("w%d", sim.write(r.headerLen)))
	if sim.flush() {
		r.script = append(r.script, "f1")
	} else {
		r.script = append(r.script, "f0")
	}
	r.script = append(r.script, "wt")
	oc, hg := apiCall(wAPILimit, busy, func() { bw, err = bam.NewWriter(r.rw, h, in.WC) })
	if hg != nil {
		hg.Op = "bam.NewWriter"
		r.hang = hg
		r.results = append(r.results, "hang")
		atomic.AddInt32(&wHangs, 1)
		r.chunks = sim.chunks
		return r
	}
	if oc.panicked {
		r.panicked = "bam.NewWriter: " + oc.panicVal
		r.chunks = sim.chunks
		return r
	}
	r.results = append(r.results, errRes(err))
	if err != nil {
		r.newWriterErr = err.Error()
		r.chunks = sim.chunks
		return r
	}
	dec, _, _ := r.delivered(r.rw.completed())
	if !bytes.Equal(dec, r.data[:r.headerLen]) {
		r.fail("bam.newwriter.header-not-durable", "bam.NewWriter returned nil; header is %d bytes, %d decoded bytes delivered", r.headerLen, len(dec))
	}
	nrec := 0
	closed := false
	for i, op := range in.Ops {
		var f func()
		switch op.K {
		case "rec":
			rec := wBamRecord(h, i, op.N)
			end := recEnds[nrec]
			start := r.headerLen
			if nrec > 0 {
				start = recEnds[nrec-1]
			}
			nrec++
			r.rw.mu.Lock()
			r.rw.offered = end
			r.rw.mu.Unlock()
			r.concrete = append(r.concrete, fmt.Sprintf("w%d", end-start))
			r.script = append(r.script, fmt.Sprintf("w%d", sim.write(end-start)))
			f = func() { err = bw.Write(rec) }
		case "c":
			if !closed {
				sim.submit()
			}
			closed = true
			r.concrete = append(r.concrete, "c")
			r.script = append(r.script, "c")
			f = func() { err = bw.Close() }
		default:
			panic("bad bam op " + op.K)
		}
		oc, hg := apiCall(wAPILimit, busy, f)
		if hg != nil {
			hg.Op = "bam." + op.K
			r.hang = hg
			r.results = append(r.results, "hang")
			atomic.AddInt32(&wHangs, 1)
			break
		}
		if oc.panicked {
			r.panicked = fmt.Sprintf("bam op %d (%s): %s at %s", i, op.K, oc.panicVal, topRepoFrame(oc.stack))
			break
		}
		r.results = append(r.results, errRes(err))
		if op.K == "c" && err == nil {
			ncalls := r.rw.completed()
			dec, _, _ := r.delivered(ncalls)
			if !bytes.Equal(dec, r.data) {
				r.fail("writer.close.nil.not-durable", "bam Close returned nil; %d bytes of BAM data, %d decoded bytes delivered", len(r.data), len(dec))
			}
			if !r.endsWithEOF(ncalls) {
				r.fail("writer.close.nil.no-eof-marker", "bam Close returned nil but the delivered bytes do not end with the EOF marker block")
			}
		}
	}
	r.chunks = sim.chunks
	if r.hang == nil && closed {
		for try := 0; try < 50; try++ {
			r.afterLib = libGoroutines(allStacks(), "github.com/biogo/hts/bgzf.", false)
			if len(r.afterLib) <= r.beforeLib {
				break
			}
			time.Sleep(2 * time.Millisecond)
		}
	}
	return r
}

// ---------------------------------------------------------------------------
// judging one run (shared by C12 and C09)

// wJudge applies the oracles that hold for every run and queues the trace-inclusion line.
func wJudge(c *ctx, r *wRun, d *Driver, impl *[]string, ins *[]wInput) {
	res := c.res
	in := r.in
	if r.panicked != "" {
		res.fail("writer.panic", r.panicked, in)
		return
	}
	if r.hang != nil {
		kind := "no-fault"
		if in.ExtraLen > 0 || in.BadName {
			kind = "after-compress-failure"
		}
		if in.FaultAt >= 0 {
			kind = "after-write-fault"
		}
		cls := "hang"
		if !r.hang.Deadlock {
			cls = "timeout"
		}
		op := map[string]string{"w": "write", "f": "flush", "wt": "wait", "c": "close", "bam.c": "bam-close", "bam.rec": "bam-write", "bam.NewWriter": "bam-newwriter"}[r.hang.Op]
		if op == "" {
			op = r.hang.Op
		}
		what := fmt.Sprintf("%s did not return (dead-lock by goroutine dump: %v); API goroutine parked in %s", op, r.hang.Deadlock, r.hang.APIFrame)
		// is this the dead state of the unrepaired protocol model?
		if !in.Bam {
			ev, _, _, _ := r.trace()
			dd := c.drv()
			dd.add("c12.tracec %d 0 %s %s %s %s", wcNat(in.WC), faultArg(in), intsOr(r.cfaults()), joinOr(r.script), joinOr(ev))
			if out, err := dd.run(); err == nil && len(out) == 1 {
				what += "; replay on the LTS of the unchanged protocol: " + out[0]
			}
		}
		res.fail(fmt.Sprintf("writer.%s.%s.%s", cls, op, kind), what, in)
	}
	r.prefixOracle()
	for _, f := range r.fails {
		res.fail(f.sig, f.what, in)
	}
	if r.hang == nil && len(r.afterLib) > r.beforeLib {
		res.fail("writer.leak.after-close", fmt.Sprintf("%d goroutine(s) with bgzf frames remain after Close (before the run: %d); first: %s",
			len(r.afterLib), r.beforeLib, firstLines(r.afterLib[len(r.afterLib)-1], 6)), in)
	}
	if r.hang != nil || r.newWriterErr != "" && len(r.script) == 0 {
		return
	}
	// the harness's script abstraction (wSim) against the Lean one (Hts.Model.WriterCompose.absScript)
	if len(r.concrete) == len(r.script) && len(r.concrete) > 0 {
		d.add("c12.abstract %s", joinOr(r.concrete))
		*impl = append(*impl, joinOr(r.script))
		*ins = append(*ins, in)
	}
	// trace inclusion
	ev, out, eof, anyFail := r.trace()
	cmd := "c12.trace"
	if in.Bam {
		cmd = "c12.traceu"
	}
	script := r.script
	done := len(r.results) == len(in.Ops)
	if in.Bam {
		done = r.newWriterErr != "" || len(r.results) == len(in.Ops)+1
		if r.newWriterErr != "" {
			script = script[:3]
		}
	}
	if cfs := r.cfaults(); !in.Bam && (in.ExtraLen > 0 || in.BadName) {
		d.add("c12.tracec %d 1 %s %s %s %s", wcNat(in.WC), faultArg(in), intsOr(cfs), joinOr(script), joinOr(ev))
		// The model answers err=1 when an error CAN be latched in a state compatible with the observed trace.
		// A block whose compression fails latches the error only when the emitting goroutine gets to it, i.e.
		// after every earlier block has been delivered (an observable event) or has itself failed: a run that
		// ends before that (a script without Close or Wait) has not latched anything yet.
		reached := false
		for _, cf := range cfs {
			before := 0
			for _, o := range out {
				if o < cf {
					before++
				}
			}
			for _, c2 := range cfs {
				if c2 < cf {
					before++
				}
			}
			if before >= cf {
				reached = true
			}
		}
		*impl = append(*impl, fmt.Sprintf("path out=%s eof=%s done=%s stuck=0 err=%s", intsOr(out), b01(eof), b01(done), b01(anyFail || reached)))
		*ins = append(*ins, in)
		return
	}
	d.add("%s %d 1 %s %s %s", cmd, wcNat(in.WC), faultArg(in), joinOr(script), joinOr(ev))
	*impl = append(*impl, fmt.Sprintf("path out=%s eof=%s done=%s stuck=0 err=%s", intsOr(out), b01(eof), b01(done), b01(anyFail)))
	*ins = append(*ins, in)
}

func wcNat(wc int) int {
	if wc < 0 {
		return 0
	}
	return wc
}

func faultArg(in wInput) string {
	if in.FaultAt < 0 {
		return "-"
	}
	return fmt.Sprint(in.FaultAt)
}

func joinOr(xs []string) string {
	if len(xs) == 0 {
		return "-"
	}
	return strings.Join(xs, ",")
}

func intsOr(xs []int) string {
	if len(xs) == 0 {
		return "-"
	}
	s := make([]string, len(xs))
	for i, x := range xs {
		s[i] = fmt.Sprint(x)
	}
	return strings.Join(s, ",")
}

func b01(b bool) string {
	if b {
		return "1"
	}
	return "0"
}

func firstLines(s string, n int) string {
	l := strings.Split(s, "\n")
	if len(l) > n {
		l = l[:n]
	}
	return strings.Join(l, " | ")
}

// ---------------------------------------------------------------------------
// isolation: a panic in a goroutine started by the library (not recoverable by the caller) kills the process,
// so the whole check runs in a child process that notes the case it is working on; if the child dies the
// parent reports that case as the failing input.

var caseFile = os.Getenv("VERIF_A10_CASE")

func noteCase(v interface{}) {
	if caseFile == "" {
		return
	}
	if b, err := json.Marshal(v); err == nil {
		os.WriteFile(caseFile, b, 0o644)
	}
}

// runInChild returns false in the child (which then does the work); in the parent it runs the child and
// fills c.res from the child's result or, if the child crashed, with the crash as a failure.
func runInChild(c *ctx, prop string) bool {
	if os.Getenv("VERIF_A10_CHILD") != "" {
		return false
	}
	dir, err := os.MkdirTemp("", "verif-a10-")
	if err != nil {
		return false
	}
	defer os.RemoveAll(dir)
	out := dir + "/result.json"
	cf := dir + "/case.json"
	args := []string{prop, "-tier", c.tier, "-seed", fmt.Sprint(c.seed), "-driver", c.driver, "-out", out}
	if c.replay != "" {
		args = append(args, "-replay", c.replay)
	}
	cmd := exec.Command(os.Args[0], args...)
	cmd.Env = append(os.Environ(), "VERIF_A10_CHILD=1", "VERIF_A10_CASE="+cf)
	var stderr bytes.Buffer
	cmd.Stderr = &stderr
	cmd.Stdout = &stderr
	runErr := cmd.Run()
	if b, err := os.ReadFile(out); err == nil && runErr == nil {
		var r Result
		dec := json.NewDecoder(bytes.NewReader(b))
		dec.UseNumber() // 64-bit seeds inside failure inputs must survive the round trip
		if dec.Decode(&r) == nil {
			r.distinct = map[string]bool{}
			*c.res = r
			return true
		}
	}
	// the child died: the case it was working on is the failing input
	var input json.RawMessage
	if b, err := os.ReadFile(cf); err == nil {
		input = b
	}
	msg := stderr.String()
	if len(msg) > 3000 {
		msg = msg[:3000]
	}
	sig := "crash:" + topRepoFrame(msg)
	if strings.Contains(msg, "all goroutines are asleep") {
		sig = "crash:deadlock"
	}
	c.res.fail(sig, fmt.Sprintf("the harness process died while running this case (%v): %s", runErr, msg), input)
	c.res.eval("crash", true)
	return true
}

// ---------------------------------------------------------------------------
// generators

func wGenSize(rnd *Rand) int {
	switch rnd.intn(12) {
	case 0:
		return 0
	case 1:
		return 1
	case 2, 3, 4:
		return rnd.rng(1, 300)
	case 5:
		return wBlockSize - 1
	case 6:
		return wBlockSize
	case 7:
		return wBlockSize + 1
	case 8:
		return 2*wBlockSize + rnd.rng(-1, 1)
	case 9:
		return rnd.rng(1, 3*wBlockSize)
	case 10:
		return rnd.rng(wBlockSize-300, wBlockSize+300)
	}
	return rnd.rng(1000, 20000)
}

// wGenOps: script shapes — many small writes, block-boundary writes, Flush/Wait interleavings, with or
// without Close, operations after Close.
func wGenOps(rnd *Rand, maxBlocks int) []wOp {
	var ops []wOp
	shape := rnd.intn(6)
	n := rnd.rng(1, 14)
	budget := maxBlocks * wBlockSize
	add := func(k string, sz int) {
		if k == "w" {
			if sz > budget {
				sz = budget
			}
			budget -= sz
		}
		ops = append(ops, wOp{K: k, N: sz})
	}
	for i := 0; i < n; i++ {
		switch shape {
		case 0: // small writes each flushed: many small blocks in flight
			add("w", rnd.rng(1, 200))
			add("f", 0)
			if rnd.coin(1, 4) {
				add("wt", 0)
			}
		case 1: // boundary sizes
			add("w", wGenSize(rnd))
			if rnd.coin(1, 3) {
				add("f", 0)
			}
			if rnd.coin(1, 4) {
				add("wt", 0)
			}
		case 2: // flush+wait after every write
			add("w", wGenSize(rnd))
			add("f", 0)
			add("wt", 0)
		case 3: // big writes, no flush
			add("w", rnd.rng(wBlockSize, 3*wBlockSize))
		default: // anything
			switch rnd.intn(7) {
			case 0, 1, 2:
				add("w", wGenSize(rnd))
			case 3, 4:
				add("f", 0)
			case 5:
				add("wt", 0)
			case 6:
				if rnd.coin(1, 3) {
					add("c", 0)
				} else {
					add("f", 0)
					add("wt", 0)
				}
			}
		}
	}
	if rnd.coin(5, 6) {
		add("c", 0)
		if rnd.coin(1, 5) {
			// operations on a closed writer
			for j := rnd.rng(1, 3); j > 0; j-- {
				switch rnd.intn(4) {
				case 0:
					add("w", rnd.rng(0, 100))
				case 1:
					add("f", 0)
				case 2:
					add("wt", 0)
				case 3:
					add("c", 0)
				}
			}
		}
	} else if rnd.coin(1, 2) {
		add("f", 0)
		add("wt", 0)
	}
	return ops
}

func wGenInput(rnd *Rand, bamToo bool) wInput {
	in := wInput{
		WC:        rnd.pick([]int{0, 1, 1, 2, 2, 3, 4, 5}),
		Procs:     rnd.pick([]int{1, 2, 16}),
		DelaySeed: rnd.u64(),
		DataSeed:  rnd.u64() >> 8,
		FaultAt:   -1,
	}
	switch rnd.intn(4) {
	case 0:
		in.MaxDelayUs = 0
	case 1:
		in.MaxDelayUs = 50
	case 2:
		in.MaxDelayUs = 500
	case 3:
		in.MaxDelayUs = 2000
	}
	if rnd.coin(1, 3) {
		in.APIDelayUs = rnd.pick([]int{20, 200, 1000})
	}
	if bamToo && rnd.coin(1, 6) {
		in.Bam = true
		n := rnd.rng(0, 12)
		for i := 0; i < n; i++ {
			sz := rnd.rng(1, 400)
			if rnd.coin(1, 5) {
				sz = rnd.rng(20000, 70000)
			}
			in.Ops = append(in.Ops, wOp{K: "rec", N: sz})
		}
		if rnd.coin(7, 8) {
			in.Ops = append(in.Ops, wOp{K: "c"})
		}
		return in
	}
	in.Ops = wGenOps(rnd, 8)
	return in
}

func wHist(res *Result, in wInput, r *wRun) {
	res.hist(fmt.Sprintf("wc=%d", in.WC))
	res.hist(fmt.Sprintf("gomaxprocs=%d", in.Procs))
	res.hist(fmt.Sprintf("uw-delay<=%dus", in.MaxDelayUs))
	if in.Bam {
		res.hist("kind=bam")
	} else {
		res.hist("kind=bgzf")
	}
	nb := len(r.chunks)
	switch {
	case nb <= 1:
		res.hist("blocks<=1")
	case nb <= 4:
		res.hist("blocks=2..4")
	case nb <= 10:
		res.hist("blocks=5..10")
	default:
		res.hist("blocks>10")
	}
	for _, o := range in.Ops {
		res.hist("op=" + o.K)
		if o.K == "w" {
			switch {
			case o.N == 0:
				res.hist("write=0")
			case o.N < wBlockSize-1:
				res.hist("write<block")
			case o.N <= wBlockSize+1:
				res.hist("write=block±1")
			default:
				res.hist("write>block")
			}
		}
	}
	for _, x := range r.results {
		res.hist("result=" + x)
	}
	// completion order: was some block's underlying Write issued while a later block was already compressed?
	// (not observable from outside; the proxy is the number of blocks in flight: submitted - delivered at call time)
}

func checkC12(c *ctx) {
	res := c.res
	res.Rule = "one case = one writer script (bgzf: Write sizes biased to 0, 1, small, BlockSize-1/BlockSize/BlockSize+1, 2*BlockSize±1, Flush/Wait interleavings, with and without Close, calls after Close; bam: NewWriter + record writes + Close) x wc in 0..5 x GOMAXPROCS in {1,2,16} x random per-call delay of the underlying writer (0..2ms) x random delays between API calls; one case in eight has ONE underlying Write fail (with or without partial data) while later calls would be accepted. Non-trivial = at least 2 blocks delivered and at least one Flush, Wait or Close; distinct by (wc, script shape, gomaxprocs, delay class). Oracle on the implementation: after every underlying Write that returned, the delivered bytes are whole BGZF members (own framing parser, CRC32/ISIZE verified) decoding to a prefix of the data handed to the writer so far; Flush+Wait==nil => everything written before the Flush is delivered; Close==nil => everything plus the EOF marker; bam.NewWriter==nil => the header is delivered. Correspondence: the observed trace of API call/return and underlying Write events must be a path of the Lean LTS (c12.trace)."
	if runInChild(c, "C12") {
		return
	}
	d := c.drv()
	var impl []string
	var ins []wInput
	if c.replay != "" {
		var in wInput
		if err := loadReplay(c.replay, &in); err != nil {
			res.note("replay: %v", err)
			return
		}
		noteCase(in)
		r := wRunScript(in)
		wJudge(c, r, d, &impl, &ins)
		res.eval(in.shape(), true)
		wCompare(c, d, impl, ins)
		return
	}
	n := 700
	if c.thorough() {
		n = 6000
	}
	start := time.Now()
	for i := 0; i < n; i++ {
		if !c.thorough() && time.Since(start) > 45*time.Second {
			res.note("time budget reached after %d cases", i)
			break
		}
		in := wGenInput(c.rnd, true)
		if c.rnd.coin(1, 8) {
			// one underlying Write fails and the underlying writer would accept later ones: whatever the writer
			// still delivers must keep the delivered bytes a prefix of whole blocks (it must deliver nothing)
			in = wGenFaultInput(c.rnd)
			in.ExtraLen, in.BadName, in.Transient = 0, false, true
			if in.FaultAt < 0 {
				in.FaultAt = 0
			}
		}
		noteCase(in)
		r := wRunScript(in)
		wJudge(c, r, d, &impl, &ins)
		wHist(res, in, r)
		sync := false
		for _, o := range in.Ops {
			if o.K == "f" || o.K == "wt" || o.K == "c" {
				sync = true
			}
		}
		nontrivial := len(r.chunks) >= 2 && (sync || in.Bam)
		res.eval(fmt.Sprintf("%d|%s|%d|%d|%v", in.WC, in.shape(), in.Procs, in.MaxDelayUs, in.Bam), nontrivial)
		if i < 4 {
			ev, _, _, _ := r.trace()
			res.sample(map[string]interface{}{"input": in, "script": joinOr(r.script), "trace": joinOr(ev), "results": r.results})
		}
		if atomic.LoadInt32(&wHangs) >= 12 {
			res.note("stopping after %d hung writers (their goroutines are abandoned)", wHangs)
			break
		}
	}
	wCompare(c, d, impl, ins)
	res.TracesValidated = len(impl)
}

// wCompare runs the driver and reports disagreements with the failing input attached.
func wCompare(c *ctx, d *Driver, impl []string, ins []wInput) {
	model, err := d.run()
	if err != nil {
		c.res.disagree("c12.trace", "(driver failure)", "", err.Error())
		return
	}
	c.res.ModelOps += len(model)
	for i := range impl {
		if i < len(model) && impl[i] != model[i] {
			c.res.disagree("c12.trace", d.lines[i], impl[i], model[i])
			c.res.note("trace not accepted by the LTS: input %+v", ins[i])
		}
	}
}
