package main

// C11, extension round 4: the byte-level CRAM readers one at a time — definition.readFrom,
// Container.readFrom, Block.readFrom, Block.Value (with Slice.readFrom and expandBlockdata) — each
// driven on arbitrary bytes through the public API (NewReader / Reader.Next / Container.Next /
// Block.Value; the unexported fields are read with reflect) inside the C11 workers, and compared with
// the explicit-indexing Lean model Hts.Model.CramDec on outcome class AND every decoded field
// (driver commands c11.cramdef / c11.cramcont / c11.cramblock / c11.cramvalue).
//
//   cram.definition   in = the stream NewReader sees
//   cram.Container    in = the stream after a valid 26-byte definition
//   cram.Block        in = the block data of a container whose (valid) header announces len(in) bytes
//   cram.Block.Value  in = method, content type, data: the block {method, typ, 0, len(data), len(data), data}
//                     is read back through Container.Next and Value is called on it

import (
	"bytes"
	"compress/bzip2"
	"compress/gzip"
	"encoding/binary"
	"encoding/hex"
	"errors"
	"fmt"
	"io"
	"reflect"
	"strings"

	"github.com/biogo/hts/cram"
	"github.com/biogo/hts/sam"
	"github.com/ulikunitz/xz/lzma"
)

var c11CramDef = []byte("CRAM\x03\x00verif-c11-seed-file-")

func c11Ints(v reflect.Value) string {
	if v.Len() == 0 {
		return "-"
	}
	var sb strings.Builder
	for i := 0; i < v.Len(); i++ {
		if i > 0 {
			sb.WriteByte(',')
		}
		fmt.Fprint(&sb, v.Index(i).Int())
	}
	return sb.String()
}

func c11ByteArray(v reflect.Value) string {
	b := make([]byte, v.Len())
	for i := range b {
		b[i] = byte(v.Index(i).Uint())
	}
	return hexs(b)
}

// c11CramBlockOf reads `block` back as the only block data of a container.
func c11CramBlockOf(block []byte) (*cram.Block, *bytes.Reader, error) {
	in := append([]byte{}, c11CramDef...)
	in = append(in, c11CramContainer{length: int32(len(block)), nBlocks: 1, landmarksN: -2}.encode()...)
	in = append(in, block...)
	br := bytes.NewReader(in)
	cr, err := cram.NewReader(br)
	if err != nil {
		panic("harness: the wrapping definition was rejected: " + err.Error())
	}
	if !cr.Next() {
		panic(fmt.Sprint("harness: the wrapping container header was rejected: ", cr.Err()))
	}
	c := cr.Container()
	if !c.Next() {
		return nil, br, errors.New("block rejected")
	}
	return c.Block(), br, nil
}

func c11CramBlockCanon(b *cram.Block) (method, typ uint64, s string) {
	v := reflect.ValueOf(b).Elem()
	method, typ = v.FieldByName("method").Uint(), v.FieldByName("typ").Uint()
	return method, typ, fmt.Sprintf("%d %d %d %d %d %s %d", method, typ, v.FieldByName("contentID").Int(),
		v.FieldByName("compressedSize").Int(), v.FieldByName("rawSize").Int(), hexs(v.FieldByName("blockData").Bytes()),
		v.FieldByName("crc32").Uint())
}

func init() {
	c11Register("cram.definition", func(in []byte) (c11Val, error) {
		br := bytes.NewReader(in)
		cr, err := cram.NewReader(br)
		if err != nil {
			return c11Val{}, err
		}
		d := reflect.ValueOf(cr).Elem().FieldByName("d")
		return c11Val{nvals: 1, canon: fmt.Sprintf("%s %s %s %d", c11ByteArray(d.FieldByName("Magic")),
			c11ByteArray(d.FieldByName("Version")), c11ByteArray(d.FieldByName("ID")), br.Len())}, nil
	})
	c11Register("cram.Container", func(in []byte) (c11Val, error) {
		br := bytes.NewReader(append(append([]byte{}, c11CramDef...), in...))
		cr, err := cram.NewReader(br)
		if err != nil {
			panic("harness: the wrapping definition was rejected: " + err.Error())
		}
		if !cr.Next() {
			return c11Val{}, errors.New("container rejected")
		}
		v := reflect.ValueOf(cr.Container()).Elem()
		f := func(n string) int64 { return v.FieldByName(n).Int() }
		return c11Val{nvals: 1, canon: fmt.Sprintf("%d %d %d %d %d %d %d %d %s %d %d", f("blockLen"), f("refID"), f("start"),
			f("span"), f("nRec"), f("recCount"), f("bases"), f("blocks"), c11Ints(v.FieldByName("landmarks")),
			v.FieldByName("crc32").Uint(), br.Len())}, nil
	})
	c11Register("cram.Block", func(in []byte) (c11Val, error) {
		b, br, err := c11CramBlockOf(in)
		if err != nil {
			return c11Val{}, err
		}
		_, _, s := c11CramBlockCanon(b)
		return c11Val{nvals: 1, canon: fmt.Sprintf("%s %d", s, br.Len())}, nil
	})
	c11Register("cram.Block.Value", func(in []byte) (c11Val, error) { return c11CramValueCase(in, false) })
	// the same with a DECLARED raw size that is free (method, type, rawSize int32 LE, data): a compressed block's
	// declared raw size is never compared with what the data expands to, so Value must not rely on it
	c11Register("cram.Block.Value/rawsize", func(in []byte) (c11Val, error) { return c11CramValueCase(in, true) })
}

func c11CramValueCase(in []byte, withRaw bool) (c11Val, error) {
	{
		if len(in) < 2 || (withRaw && len(in) < 6) {
			return c11Val{}, errors.New("harness: no method and type")
		}
		blk := c11CramBlock{method: in[0], typ: in[1], compSize: -2, rawSize: -2, data: in[2:]}
		if withRaw {
			blk.rawSize = int32(binary.LittleEndian.Uint32(in[2:6]))
			blk.data = in[6:]
			if blk.method == 0 {
				blk.rawSize = -2 // Block.readFrom insists on rawSize == compressedSize for raw blocks
			}
		}
		b, _, err := c11CramBlockOf(blk.encode())
		if err != nil {
			panic("harness: the wrapping block was rejected")
		}
		x, err := b.Value()
		if err != nil {
			return c11Val{}, err
		}
		canon := ""
		switch x := x.(type) {
		case *sam.Header:
			canon = "header"
		case *cram.Slice:
			v := reflect.ValueOf(x).Elem()
			f := func(n string) int64 { return v.FieldByName(n).Int() }
			// `complete` is not observable (Value drops the error of Slice.readFrom): it is the last field
			// of the model's rendering and is cut off there
			canon = fmt.Sprintf("slice %d %d %d %d %d %d %s %d %s %s", f("refID"), f("start"), f("span"), f("nRec"), f("recCount"),
				f("blocks"), c11Ints(v.FieldByName("blockIDs")), f("embeddedRefID"), c11ByteArray(v.FieldByName("md5sum")),
				hexs(v.FieldByName("tags").Bytes()))
		case *cram.Block:
			v := reflect.ValueOf(x).Elem()
			canon = fmt.Sprintf("block %d %s", v.FieldByName("method").Uint(), hexs(v.FieldByName("blockData").Bytes()))
		default:
			canon = fmt.Sprintf("unexpected %T", x)
		}
		v := c11Val{nvals: 1, canon: canon}
		v.sweep = func() {
			if h, ok := x.(*sam.Header); ok {
				c11SweepHeader(h)
			}
			_, _ = b.Value()
		}
		return v, nil
	}
}

// c11CramExpand is what the standard decompressors answer for the data of a block (the parameter
// `Expanders` of the model): "e" = an error, "n/a" = not asked for ("-" is the empty string).
func c11CramExpand(method byte, data []byte) string {
	var r io.Reader
	switch method {
	case 1:
		gz, err := gzip.NewReader(bytes.NewReader(data))
		if err != nil {
			return "e"
		}
		r = gz
	case 2:
		r = bzip2.NewReader(bytes.NewReader(data))
	case 3:
		lz, err := lzma.NewReader(bytes.NewReader(data))
		if err != nil {
			return "e"
		}
		r = lz
	default:
		return "n/a"
	}
	var out []byte
	var err error
	o := guard(func() { out, err = io.ReadAll(io.LimitReader(r, 1<<22)) })
	if o.panicked || err != nil {
		return "e"
	}
	return hexs(out)
}

// c11CramHeaderOracle: the verdict of sam.Header.UnmarshalText on the text the CRAM specification
// places in a file header block with this (expanded) content: int32 length, then the text.  The model
// computes the text on its own; if it hands another text to UnmarshalText, the driver answers
// `oracle-miss`.
func c11CramHeaderOracle(content []byte) string {
	if len(content) < 4 {
		return "-"
	}
	n := uint64(binary.LittleEndian.Uint32(content))
	if n > uint64(len(content)-4) {
		return "-"
	}
	text := content[4 : 4+n]
	var err error
	o := guard(func() { err = new(sam.Header).UnmarshalText(text) })
	v := "o"
	if o.panicked || err != nil {
		v = "e"
	}
	return hexs(text) + "=" + v
}

// c11CramUnitCases generates the inputs of the four unit decoders: valid encodings built from the
// field-level description of the seed file, single field edits (CRC32 recomputed, so the decoder
// reaches the field), a count that disagrees with the array, truncation at every byte, a bit flip at
// every byte, an inserted byte, and random combinations.
func c11CramUnitCases(r *Rand, nRandom int, emit func(dec, mut string, b []byte)) {
	ints := []int32{-1, 0, 1, 2, 3, 5, 127, 128, 300, 0x3fff, 0x4000, 1 << 21, 1 << 28, 0x7fffffff, -0x80000000, -2}
	rawEdits := func(dec string, b []byte, every int) {
		for n := 0; n <= len(b); n++ {
			emit(dec, "truncate", b[:n])
		}
		for i := 0; i < len(b); i += every {
			for _, m := range []byte{0x01, 0x80, 0xf0} {
				x := clone(b)
				x[i] ^= m
				emit(dec, "bitflip", x)
			}
			x := append(append(clone(b[:i]), 0xff), b[i:]...)
			emit(dec, "insert", x)
			emit(dec, "delete", append(clone(b[:i]), b[i+1:]...))
		}
	}
	// --- definition
	def := append(clone(c11CramDef), 1, 2, 3)
	emit("cram.definition", "seed", def)
	emit("cram.definition", "seed", c11CramDef)
	rawEdits("cram.definition", def, 1)
	// --- container headers
	seed := c11CramSeed()
	long := c11CramContainer{length: 7, refID: -2, start: 1 << 30, span: -1, nRec: 1 << 21, recCount: 1 << 60, bases: -1, nBlocks: 300, landmarksN: -2}
	for i := 0; i < 200; i++ {
		long.landmarks = append(long.landmarks, int32(i*i*i*37-5))
	}
	conts := append([]c11CramContainer{}, seed...)
	conts = append(conts, long, c11CramContainer{length: -2, landmarksN: -2})
	for ci, c := range conts {
		c.blocks = nil
		if c.length == -2 {
			c.length = int32(10 * ci)
		}
		tail := []byte{9, 8, 7}
		emit("cram.Container", "seed", append(c.encode(), tail...))
		emit("cram.Container", "seed", c.encode())
		for _, v := range ints {
			for k := 0; k < 9; k++ {
				e := c
				e.landmarks = append([]int32{}, c.landmarks...)
				mut := "lenfield"
				switch k {
				case 0:
					e.length = v
				case 1:
					e.refID = v
				case 2:
					e.start = v
				case 3:
					e.span = v
				case 4:
					e.nRec = v
				case 5:
					e.nBlocks = v
				case 6:
					e.landmarksN = v
					if v == -2 {
						continue
					}
				case 7:
					e.recCount, mut = int64(v)<<24, "intfield"
				case 8:
					e.bases, mut = int64(v)*0x100000001, "intfield"
				}
				emit("cram.Container", mut, append(e.encode(), tail...))
			}
		}
		bad := c
		bad.badCRC = true
		emit("cram.Container", "badcrc", bad.encode())
		every := 1
		if len(c.landmarks) > 50 {
			every = 7
		}
		rawEdits("cram.Container", append(c.encode(), tail...), every)
	}
	// --- blocks
	var blocks []c11CramBlock
	for _, c := range seed {
		blocks = append(blocks, c.blocks...)
	}
	blocks = append(blocks, c11CramBlock{method: 4, typ: 4, contentID: -7, compSize: -2, rawSize: 1 << 20, data: []byte{1, 2, 3}},
		c11CramBlock{method: 0, typ: 5, compSize: -2, rawSize: -2})
	for _, b := range blocks {
		tail := []byte{5, 5}
		emit("cram.Block", "seed", append(b.encode(), tail...))
		emit("cram.Block", "seed", b.encode())
		for _, v := range ints {
			for k := 0; k < 6; k++ {
				e := b
				mut := "lenfield"
				switch k {
				case 0:
					e.contentID = v
				case 1:
					e.compSize = v
				case 2:
					e.rawSize = v
				case 3:
					e.compSize, e.rawSize = v, v
				case 4:
					e.method, mut = byte(v), "typefield"
				case 5:
					e.typ, mut = byte(v), "typefield"
				}
				if (k == 1 || k == 2 || k == 3) && v == -2 {
					continue
				}
				emit("cram.Block", mut, append(e.encode(), tail...))
			}
		}
		bad := b
		bad.badCRC = true
		emit("cram.Block", "badcrc", bad.encode())
		every := 1
		if len(b.data) > 60 {
			every = 5
		}
		rawEdits("cram.Block", append(b.encode(), tail...), every)
	}
	// --- Block.Value
	val := func(mut string, method, typ byte, data []byte) {
		emit("cram.Block.Value", mut, append([]byte{method, typ}, data...))
	}
	for _, b := range blocks {
		val("seed", b.method, b.typ, b.data)
		for _, m := range []byte{0, 1, 2, 3, 4, 5, 0x80, 0x81, 255} {
			val("typefield", m, b.typ, b.data)
		}
		for _, t := range []byte{0, 1, 2, 3, 4, 5, 6, 255} {
			val("typefield", b.method, t, b.data)
			if b.plain != nil {
				val("typefield", 0, t, b.plain)
			}
		}
		if b.typ == 0 {
			p := b.content()
			for n := 0; n <= len(p); n += 1 + n/8 {
				val("truncate", 0, 0, p[:n])
				val("truncate", 1, 0, c11Gzip(p[:n]))
			}
			for _, v := range []int32{-1, -2, -3, -4, -5, -8, 0, 1, int32(len(p)) - 5, int32(len(p)) - 4, int32(len(p)) - 3, int32(len(p)), 0x7fffffff, -0x80000000, 1 << 16} {
				e := b
				e.data = clone(b.data)
				if b.plain != nil {
					e.plain = clone(b.plain)
				}
				e.setLText(v)
				val("ltext", e.method, 0, e.data)
			}
		}
		if b.typ == 0 {
			// declared raw size and inner text length both larger than the real content (two fields that agree
			// with each other and not with the data)
			p := clone(b.content())
			for _, raw := range []int32{int32(len(p)) + 1, int32(len(p)) + 600, 70000, 1 << 20} {
				for _, v := range []int32{int32(len(p)) - 3, int32(len(p)), 513, 65536, raw - 4, raw - 5} {
					if len(p) < 4 {
						continue
					}
					q := clone(p)
					binary.LittleEndian.PutUint32(q, uint32(v))
					in := []byte{1, 0, 0, 0, 0, 0}
					binary.LittleEndian.PutUint32(in[2:], uint32(raw))
					emit("cram.Block.Value/rawsize", "rawsize+ltext", append(in, c11Gzip(q)...))
				}
			}
		}
		if b.typ == 2 {
			for n := 0; n <= len(b.data); n++ {
				val("truncate", 0, 2, b.data[:n])
			}
			for i := range b.data {
				for _, m := range []byte{0x80, 0xf0, 0xff, 0x07} {
					x := clone(b.data)
					x[i] ^= m
					val("bitflip", 0, 2, x)
				}
			}
			val("compressed-slice", 1, 2, c11Gzip(b.data))
		}
	}
	val("seed", 2, 4, []byte("BZh9\x17rE8P\x90\x00\x00\x00\x00")) // bzip2 of the empty string
	{
		var buf bytes.Buffer
		if w, err := lzma.NewWriter(&buf); err == nil {
			w.Write([]byte("lzma content"))
			w.Close()
			val("seed", 3, 4, buf.Bytes())
			val("truncate", 3, 4, buf.Bytes()[:buf.Len()/2])
		}
	}
	// --- random combinations
	encs := map[string][][]byte{}
	for _, c := range conts {
		c.blocks = nil
		if c.length == -2 {
			c.length = 3
		}
		encs["cram.Container"] = append(encs["cram.Container"], c.encode())
	}
	for _, b := range blocks {
		encs["cram.Block"] = append(encs["cram.Block"], b.encode())
		encs["cram.Block.Value"] = append(encs["cram.Block.Value"], append([]byte{b.method, b.typ}, b.data...))
	}
	encs["cram.definition"] = [][]byte{def}
	decs := []string{"cram.Container", "cram.Block", "cram.Block.Value", "cram.Container", "cram.Block", "cram.definition"}
	for i := 0; i < nRandom; i++ {
		dec := decs[r.intn(len(decs))]
		pool := encs[dec]
		b := clone(pool[r.intn(len(pool))])
		if len(b) > 400 {
			b = b[:400]
		}
		for k := 1 + r.intn(3); k > 0 && len(b) > 0; k-- {
			j := r.intn(len(b))
			if j > 24 && r.intn(3) > 0 {
				j = r.intn(24)
			}
			switch r.intn(6) {
			case 0:
				b[j] ^= 1 << uint(r.intn(8))
			case 1:
				b[j] = []byte{0, 1, 0x7f, 0x80, 0xbf, 0xc0, 0xdf, 0xe0, 0xef, 0xf0, 0xf7, 0xf8, 0xfe, 0xff}[r.intn(14)]
			case 2:
				b = b[:j]
			case 3:
				b = append(append(clone(b[:j]), byte(r.intn(256))), b[j:]...)
			case 4:
				b = append(clone(b[:j]), b[j+1:]...)
			case 5:
				o := pool[r.intn(len(pool))]
				if len(o) > 0 {
					b = append(clone(b[:j]), o[r.intn(len(o)):]...)
				}
			}
		}
		emit(dec, "random", b)
	}
}

// c11CramModelLine queues the model command for one case of the four unit decoders and returns the
// implementation's line.
func c11CramModelLine(d *Driver, k c11Case, o c11Outcome) (string, bool) {
	in := k.bytes()
	if len(in) > 6000 {
		return "", false
	}
	switch k.Decoder {
	case "cram.definition":
		d.add("c11.cramdef %s", hexs(in))
	case "cram.Container":
		d.add("c11.cramcont %s", hexs(in))
	case "cram.Block":
		d.add("c11.cramblock %s", hexs(in))
	case "cram.Block.Value", "cram.Block.Value/rawsize":
		if k.Decoder == "cram.Block.Value/rawsize" {
			if len(in) < 6 {
				return "", false
			}
			in = append([]byte{in[0], in[1]}, in[6:]...) // the model (as the code) ignores the declared raw size
		}
		if len(in) < 2 {
			return "", false
		}
		exp := c11CramExpand(in[0], in[2:])
		oracle := "-"
		if in[1] == 0 {
			content := in[2:]
			if exp != "n/a" {
				content = nil
				if exp != "e" {
					content, _ = hex.DecodeString(exp)
				}
			}
			oracle = c11CramHeaderOracle(content)
		}
		if exp == "n/a" {
			exp = "e" // the model does not ask for it
		}
		d.add("c11.cramvalue %d %d %s %s %s", in[0], in[1], hexs(in[2:]), exp, oracle)
	default:
		return "", false
	}
	return c11ImplLine(o, o.Canon), true
}
