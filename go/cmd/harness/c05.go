package main

// C05 — BAM encoding round trip.
//
// Oracle (does not use the Lean model):
//   (1) the bytes under the BGZF layer (decompressed here with compress/gzip) must be the header followed by, for
//       every record, the bytes produced by c05SpecEncode — an encoder written in this file from SAMv1 §4.2 that
//       works on the semantic form of the record (letters, (len,op) pairs, typed aux values) — ignoring only the
//       two bin bytes;
//   (2) reading the file back with every Omit mode and rd 0..3 must give an equal header and, in order, records
//       equal in every field to the ones written (qualities absent -> 0xff run; omitted parts empty), then io.EOF.
//       Records are compared only AFTER the whole file has been read and all records retained.
// Correspondence (model vs implementation): encodeRecord bytes, Spec.layout(view r) bytes, decode of the written
// record per Omit mode, the accessor view (Expand / CigarOp.Len,Type / Aux.Value), writer rejections, and the decode
// of malformed record streams.

import (
	"bytes"
	"compress/gzip"
	"encoding/binary"
	"fmt"
	"hash/fnv"
	"io"
	"math"
	"strings"
	"time"

	"github.com/biogo/hts/bam"
	"github.com/biogo/hts/bgzf"
	"github.com/biogo/hts/sam"
)

func init() { checks["C05"] = checkC05 }

// ---------------------------------------------------------------------------------------------
// semantic form of a record (what the generator produces and the independent encoder consumes)

type c05Aux struct {
	Tag  [2]byte
	Typ  byte    // A c C s S i I f Z H B
	Sub  byte    // element type of a B array
	Ints []int64 // numeric value(s); floats as IEEE-754 bit patterns
	Text []byte  // payload of Z; for H the byte array the value denotes (in the file: its hex digits)
}

type c05Sem struct {
	Name                  []byte
	Ref, MateRef          int // -1 = none
	Pos, MatePos, TempLen int
	MapQ                  byte
	Flags                 uint16
	Cigar                 [][2]int // (length, op)
	Codes                 []byte   // one code 0..15 per base
	Letters               []byte   // the letters handed to sam.NewSeq (random case, junk letters for code 15)
	PadJunk               byte     // != 0: the Seq is built directly with this value in the unused low nibble
	QualAbsent            bool
	Qual                  []byte
	Aux                   []c05Aux
}

type c05File struct {
	Seed     uint64
	Profile  int
	NRefs    int
	HdrKind  int
	hd       c05HD
	hdrVals  [][2]string
	WC       int
	Recs     []*c05Sem
	hdr      *sam.Header
	hdrText  []byte
	hdrBin   []byte
	recs     []*sam.Record
	expected []c05Want
}

// c05Want is a deep copy of what was handed to the writer (so that a writer that modifies its argument shows).
type c05Want struct {
	Name                  string
	Ref, MateRef          int
	Pos, MatePos, TempLen int
	MapQ                  byte
	Flags                 uint16
	Cigar                 []uint32
	SeqLen                int
	Seq                   []byte
	QualNil               bool
	Qual                  []byte
	Aux                   [][]byte
}

type c05Input struct {
	Kind    string `json:"kind"` // file | malformed | reject
	Seed    uint64 `json:"case_seed"`
	Profile int    `json:"profile"`
	Note    string `json:"note,omitempty"`
	Record  string `json:"record,omitempty"` // driver form of the record concerned, when small
}

const c05SpecLetters = "=ACMGRSVTWYHKDBN"

// ---------------------------------------------------------------------------------------------
// independent encoder, written from SAMv1 §4.2 (alignment section) and §4.2.4 (auxiliary data)

func c05PutLE(b []byte, v uint64, w int) []byte {
	for i := 0; i < w; i++ {
		b = append(b, byte(v/pow256(i)%256))
	}
	return b
}

func pow256(i int) uint64 {
	p := uint64(1)
	for ; i > 0; i-- {
		p *= 256
	}
	return p
}

func c05ElemWidth(t byte) int {
	switch t {
	case 'c', 'C', 'A':
		return 1
	case 's', 'S':
		return 2
	case 'i', 'I', 'f':
		return 4
	}
	return 0
}

func c05SpecAux(b []byte, a c05Aux) []byte {
	b = append(b, a.Tag[0], a.Tag[1], a.Typ)
	switch a.Typ {
	case 'A', 'c', 'C', 's', 'S', 'i', 'I', 'f':
		b = c05PutLE(b, uint64(a.Ints[0]), c05ElemWidth(a.Typ)) // two's complement: low bytes of the value
	case 'Z':
		b = append(b, a.Text...)
		b = append(b, 0)
	case 'H':
		// §4.2.4: "H  Hex-formatted byte array: hex digits, NUL-terminated"; a.Text is the byte array the value denotes
		for _, x := range a.Text {
			b = append(b, "0123456789ABCDEF"[x/16], "0123456789ABCDEF"[x%16])
		}
		b = append(b, 0)
	case 'B':
		b = append(b, a.Sub)
		b = c05PutLE(b, uint64(len(a.Ints)), 4)
		for _, v := range a.Ints {
			b = c05PutLE(b, uint64(v), c05ElemWidth(a.Sub))
		}
	}
	return b
}

// c05SpecEncode returns block_size + record with bin = 0.
func c05SpecEncode(s *c05Sem) []byte {
	var b []byte
	b = c05PutLE(b, uint64(int64(s.Ref)), 4)
	b = c05PutLE(b, uint64(int64(s.Pos)), 4)
	b = c05PutLE(b, uint64(len(s.Name)+1), 1)
	b = c05PutLE(b, uint64(s.MapQ), 1)
	b = c05PutLE(b, 0, 2) // bin: not compared
	b = c05PutLE(b, uint64(len(s.Cigar)), 2)
	b = c05PutLE(b, uint64(s.Flags), 2)
	b = c05PutLE(b, uint64(len(s.Codes)), 4)
	b = c05PutLE(b, uint64(int64(s.MateRef)), 4)
	b = c05PutLE(b, uint64(int64(s.MatePos)), 4)
	b = c05PutLE(b, uint64(int64(s.TempLen)), 4)
	b = append(b, s.Name...)
	b = append(b, 0)
	for _, c := range s.Cigar {
		b = c05PutLE(b, uint64(c[0])*16+uint64(c[1]), 4)
	}
	for i := 0; i < len(s.Codes); i += 2 {
		v := s.Codes[i] * 16
		if i+1 < len(s.Codes) {
			v += s.Codes[i+1]
		} else {
			v += s.PadJunk & 0xf // the unused nibble: the specification does not say; the library writes what it is given
		}
		b = append(b, v)
	}
	if s.QualAbsent {
		for range s.Codes {
			b = append(b, 0xff)
		}
	} else {
		b = append(b, s.Qual...)
	}
	for _, a := range s.Aux {
		b = c05SpecAux(b, a)
	}
	return append(c05PutLE(nil, uint64(len(b)), 4), b...)
}

// ---------------------------------------------------------------------------------------------
// building the library's record from the semantic form, through the library's constructors

func c05AuxValue(a c05Aux) interface{} {
	switch a.Typ {
	case 'A':
		return sam.ASCII(byte(a.Ints[0]))
	case 'c':
		return int8(a.Ints[0])
	case 'C':
		return uint8(a.Ints[0])
	case 's':
		return int16(a.Ints[0])
	case 'S':
		return uint16(a.Ints[0])
	case 'i':
		return int32(a.Ints[0])
	case 'I':
		return uint32(a.Ints[0])
	case 'f':
		return math.Float32frombits(uint32(a.Ints[0]))
	case 'Z':
		if len(a.Text)%2 == 0 {
			return sam.Text(a.Text)
		}
		return string(a.Text)
	case 'H':
		return sam.Hex(a.Text)
	case 'B':
		switch a.Sub {
		case 'c':
			v := make([]int8, len(a.Ints))
			for i, x := range a.Ints {
				v[i] = int8(x)
			}
			return v
		case 'C':
			v := make([]uint8, len(a.Ints))
			for i, x := range a.Ints {
				v[i] = uint8(x)
			}
			return v
		case 's':
			v := make([]int16, len(a.Ints))
			for i, x := range a.Ints {
				v[i] = int16(x)
			}
			return v
		case 'S':
			v := make([]uint16, len(a.Ints))
			for i, x := range a.Ints {
				v[i] = uint16(x)
			}
			return v
		case 'i':
			v := make([]int32, len(a.Ints))
			for i, x := range a.Ints {
				v[i] = int32(x)
			}
			return v
		case 'I':
			v := make([]uint32, len(a.Ints))
			for i, x := range a.Ints {
				v[i] = uint32(x)
			}
			return v
		case 'f':
			v := make([]float32, len(a.Ints))
			for i, x := range a.Ints {
				v[i] = math.Float32frombits(uint32(x))
			}
			return v
		}
	}
	return nil
}

func (s *c05Sem) build(h *sam.Header) (*sam.Record, error) {
	r := &sam.Record{Name: string(s.Name), Pos: s.Pos, MapQ: s.MapQ, Flags: sam.Flags(s.Flags), MatePos: s.MatePos, TempLen: s.TempLen}
	if s.Ref >= 0 {
		r.Ref = h.Refs()[s.Ref]
	}
	if s.MateRef >= 0 {
		r.MateRef = h.Refs()[s.MateRef]
	}
	for _, c := range s.Cigar {
		r.Cigar = append(r.Cigar, sam.NewCigarOp(sam.CigarOpType(c[1]), c[0]))
	}
	if s.PadJunk != 0 && len(s.Codes)%2 == 1 {
		ds := make([]sam.Doublet, (len(s.Codes)+1)/2)
		for i, c := range s.Codes {
			if i%2 == 0 {
				ds[i/2] = sam.Doublet(c << 4)
			} else {
				ds[i/2] |= sam.Doublet(c)
			}
		}
		ds[len(ds)-1] |= sam.Doublet(s.PadJunk & 0xf)
		r.Seq = sam.Seq{Length: len(s.Codes), Seq: ds}
	} else {
		r.Seq = sam.NewSeq(s.Letters)
	}
	if !s.QualAbsent {
		r.Qual = append([]byte{}, s.Qual...)
	}
	for _, a := range s.Aux {
		x, err := sam.NewAux(sam.Tag(a.Tag), c05AuxValue(a))
		if err != nil {
			return nil, err
		}
		r.AuxFields = append(r.AuxFields, x)
	}
	return r, nil
}

func c05Copy(r *sam.Record) c05Want {
	w := c05Want{Name: r.Name, Ref: r.Ref.ID(), MateRef: r.MateRef.ID(), Pos: r.Pos, MatePos: r.MatePos, TempLen: r.TempLen,
		MapQ: r.MapQ, Flags: uint16(r.Flags), SeqLen: r.Seq.Length, QualNil: r.Qual == nil}
	for _, c := range r.Cigar {
		w.Cigar = append(w.Cigar, uint32(c))
	}
	for _, d := range r.Seq.Seq {
		w.Seq = append(w.Seq, byte(d))
	}
	w.Qual = append([]byte{}, r.Qual...)
	for _, a := range r.AuxFields {
		w.Aux = append(w.Aux, append([]byte{}, a...))
	}
	return w
}

// ---------------------------------------------------------------------------------------------
// driver form and canonical serialisation (must match Hts.Drv.C05.ser)

func c05CigarHex(cs []uint32) string {
	b := make([]byte, 0, 4*len(cs))
	for _, c := range cs {
		b = binary.LittleEndian.AppendUint32(b, c)
	}
	return hexs(b)
}

func (w *c05Want) args() string {
	q := "*"
	if !w.QualNil {
		q = hexs(w.Qual)
	}
	ax := "."
	if len(w.Aux) > 0 {
		parts := make([]string, len(w.Aux))
		for i, a := range w.Aux {
			parts[i] = hexs(a)
		}
		ax = strings.Join(parts, ",")
	}
	return fmt.Sprintf("%s %d %d %d %s %d %d %d %d %d %s %s %s", hexs([]byte(w.Name)), w.Ref, w.Pos, w.MapQ, c05CigarHex(w.Cigar),
		w.Flags, w.MateRef, w.MatePos, w.TempLen, w.SeqLen, hexs(w.Seq), q, ax)
}

func c05Ser(r *sam.Record) []byte {
	var b []byte
	str := func(x []byte) {
		b = binary.LittleEndian.AppendUint32(b, uint32(len(x)))
		b = append(b, x...)
	}
	i64 := func(v int) { b = binary.LittleEndian.AppendUint64(b, uint64(int64(v))) }
	str([]byte(r.Name))
	i64(r.Ref.ID())
	i64(r.Pos)
	b = append(b, r.MapQ)
	b = binary.LittleEndian.AppendUint32(b, uint32(len(r.Cigar)))
	for _, c := range r.Cigar {
		b = binary.LittleEndian.AppendUint32(b, uint32(c))
	}
	b = binary.LittleEndian.AppendUint16(b, uint16(r.Flags))
	i64(r.MateRef.ID())
	i64(r.MatePos)
	i64(r.TempLen)
	b = binary.LittleEndian.AppendUint64(b, uint64(r.Seq.Length))
	sq := make([]byte, len(r.Seq.Seq))
	for i, d := range r.Seq.Seq {
		sq[i] = byte(d)
	}
	str(sq)
	str(r.Qual)
	b = binary.LittleEndian.AppendUint32(b, uint32(len(r.AuxFields)))
	for _, a := range r.AuxFields {
		str(a)
	}
	return b
}

func c05Fnv(b []byte) uint64 {
	h := fnv.New64a()
	h.Write(b)
	return h.Sum64()
}

func c05Digest(b []byte) string { return fmt.Sprintf("%d %d", len(b), c05Fnv(b)) }

// ---------------------------------------------------------------------------------------------
// generators

func c05GenName(rnd *Rand) []byte {
	var n int
	switch rnd.intn(10) {
	case 0:
		n = 1
	case 1:
		n = 254
	case 2:
		n = rnd.rng(250, 254)
	default:
		n = rnd.rng(1, 40)
	}
	b := make([]byte, n)
	arbitrary := rnd.coin(1, 6)
	for i := range b {
		if arbitrary {
			b[i] = byte(rnd.rng(1, 255)) // any byte but NUL
		} else {
			b[i] = byte(rnd.rng(33, 126))
		}
	}
	return b
}

func c05GenPos(rnd *Rand) int {
	switch rnd.intn(12) {
	case 0:
		return 0
	case 1:
		return math.MaxInt32
	case 2:
		return 1<<29 - rnd.rng(0, 2)
	case 3:
		return rnd.intn(1 << 31)
	case 4:
		return (1 << uint(rnd.rng(13, 30))) - rnd.rng(0, 2)
	default:
		return rnd.intn(1 << 20)
	}
}

var c05CigarLens = []int{0, 1, 2, 15, 16, 100, 255, 256, 65535, 65536, 1<<28 - 2, 1<<28 - 1}

func c05GenCigar(rnd *Rand, n int) [][2]int {
	cg := make([][2]int, n)
	for i := range cg {
		var l int
		switch {
		case rnd.coin(1, 40):
			l = 1<<28 - 1 - rnd.intn(3)
		case rnd.coin(1, 10):
			l = c05CigarLens[rnd.intn(len(c05CigarLens))]
		case rnd.coin(1, 10):
			l = rnd.intn(1 << 28)
		default:
			l = rnd.rng(1, 200)
		}
		cg[i] = [2]int{l, rnd.intn(10)} // M I D N S H P = X B
	}
	return cg
}

func c05GenNCigar(rnd *Rand, big bool) int {
	if big {
		return []int{1023, 1024, 1025, 16384, 65534, 65535}[rnd.intn(6)]
	}
	switch rnd.intn(10) {
	case 0:
		return 0
	case 1:
		return 1
	case 2:
		return rnd.rng(20, 300)
	default:
		return rnd.rng(1, 8)
	}
}

func c05SetSeq(rnd *Rand, s *c05Sem, n int) {
	s.Codes = make([]byte, n)
	s.Letters = make([]byte, n)
	for i := range s.Codes {
		c := byte(rnd.intn(16))
		s.Codes[i] = c
		l := c05SpecLetters[c]
		switch {
		case c == 15 && rnd.coin(1, 3):
			l = "nN.*-xXzZ?@ "[rnd.intn(12)] // any other character is stored as N
		case rnd.coin(1, 4) && l != '=':
			l |= 0x20 // lower case
		}
		s.Letters[i] = l
	}
	s.PadJunk = 0
	if n%2 == 1 && rnd.coin(1, 8) {
		s.PadJunk = byte(rnd.rng(1, 15))
	}
	s.QualAbsent = rnd.coin(1, 4)
	s.Qual = nil
	if !s.QualAbsent {
		s.Qual = make([]byte, n)
		any := rnd.coin(1, 5)
		for i := range s.Qual {
			if any {
				s.Qual[i] = byte(rnd.intn(256))
			} else {
				s.Qual[i] = byte(rnd.intn(94))
			}
		}
	}
}

func c05IntFor(rnd *Rand, t byte) int64 {
	var lo, hi int64
	switch t {
	case 'A':
		return int64(rnd.rng(33, 126))
	case 'c':
		lo, hi = math.MinInt8, math.MaxInt8
	case 'C':
		lo, hi = 0, math.MaxUint8
	case 's':
		lo, hi = math.MinInt16, math.MaxInt16
	case 'S':
		lo, hi = 0, math.MaxUint16
	case 'i':
		lo, hi = math.MinInt32, math.MaxInt32
	case 'I':
		lo, hi = 0, math.MaxUint32
	case 'f':
		switch rnd.intn(8) {
		case 0:
			return 0x7fc00000 // NaN
		case 1:
			return 0x7f800000 // +Inf
		case 2:
			return 0xff800000 // -Inf
		case 3:
			return 0x80000000 // -0
		case 4:
			return 0x00000001 // denormal
		default:
			return int64(math.Float32bits(float32(rnd.intn(2000000)-1000000) / 64))
		}
	}
	switch rnd.intn(6) {
	case 0:
		return lo
	case 1:
		return hi
	case 2:
		return 0
	case 3:
		if lo < 0 {
			return -1
		}
		return hi - 1
	default:
		return lo + int64(rnd.u64()%uint64(hi-lo+1))
	}
}

const c05AuxTypes = "AcCsSiIfZHB"
const c05ArrTypes = "cCsSiIf"

func c05GenText(rnd *Rand, n int, hexDigits bool) []byte {
	b := make([]byte, n)
	for i := range b {
		switch {
		case hexDigits:
			b[i] = "0123456789ABCDEF"[rnd.intn(16)]
		case rnd.coin(1, 20):
			b[i] = byte(rnd.rng(1, 255))
		default:
			b[i] = byte(rnd.rng(32, 126))
		}
	}
	return b
}

func c05GenAux(rnd *Rand, t byte, bigOK bool) c05Aux {
	a := c05Aux{Typ: t}
	a.Tag[0] = "XYZABCNMRGxy"[rnd.intn(12)]
	a.Tag[1] = "ABCDMHIQ0123456789ab"[rnd.intn(20)]
	switch t {
	case 'Z', 'H':
		n := rnd.pick([]int{0, 0, 1, 2, 3, 10, 50})
		if bigOK && rnd.coin(1, 3) {
			n = rnd.rng(200, 5000)
		}
		if t == 'H' {
			// the value of an H field is a byte array: any bytes, zero bytes included
			a.Text = rnd.bytes(n)
			if n > 0 && rnd.coin(1, 3) {
				a.Text[rnd.intn(n)] = 0
			}
		} else {
			a.Text = c05GenText(rnd, n, false)
		}
	case 'B':
		a.Sub = c05ArrTypes[rnd.intn(len(c05ArrTypes))]
		n := rnd.pick([]int{0, 0, 1, 2, 3, 7, 8, 9, 40})
		if bigOK && rnd.coin(1, 3) {
			n = rnd.rng(200, 3000)
		}
		a.Ints = make([]int64, n)
		for i := range a.Ints {
			a.Ints[i] = c05IntFor(rnd, a.Sub)
		}
	default:
		a.Ints = []int64{c05IntFor(rnd, t)}
	}
	return a
}

// c05SizeOf is the total encoded size of the record after the block_size field.
func c05SizeOf(s *c05Sem) int { return len(c05SpecEncode(s)) - 4 }

// c05GenRec: kind 0 = small ordinary, 1 = every aux type, 2 = sized to a target (boundary of the 4 KiB buffer or of a
// BGZF block), 3 = many CIGAR operations, 4 = minimal/unmapped/unplaced.
func c05GenRec(rnd *Rand, nrefs int, kind int, target int) *c05Sem {
	s := &c05Sem{Name: c05GenName(rnd), Ref: -1, MateRef: -1, Pos: -1, MatePos: -1}
	s.MapQ = byte(rnd.pick([]int{0, 1, 30, 60, 254, 255, rnd.intn(256)}))
	s.Flags = uint16(rnd.intn(1 << 16))
	switch rnd.intn(6) {
	case 0:
		s.Flags |= 4 | 8 // both unmapped flags
	case 1:
		s.Flags = s.Flags&^8 | 4
	case 2:
		s.Flags &^= 4 | 8
	case 3:
		s.Flags &= 0xfff
	}
	if nrefs > 0 && rnd.coin(5, 6) {
		s.Ref = rnd.intn(nrefs)
		s.Pos = c05GenPos(rnd)
		if rnd.coin(1, 12) {
			s.Pos = -1 // unplaced on a reference
		}
	}
	if nrefs > 0 && rnd.coin(4, 6) {
		switch {
		case s.Ref >= 0 && rnd.coin(1, 2):
			s.MateRef = s.Ref
		default:
			s.MateRef = rnd.intn(nrefs) // mate on another reference (or the same by chance)
		}
		s.MatePos = c05GenPos(rnd)
	}
	s.TempLen = rnd.pick([]int{0, 1, -1, 300, -300, math.MaxInt32, math.MinInt32, rnd.intn(1<<31) - 1<<30})
	if kind == 4 {
		s.Flags |= 4
		if rnd.coin(1, 2) {
			s.Ref, s.Pos, s.MateRef, s.MatePos = -1, -1, -1, -1
		}
		c05SetSeq(rnd, s, rnd.pick([]int{0, 0, 1, 2}))
		return s
	}
	s.Cigar = c05GenCigar(rnd, c05GenNCigar(rnd, kind == 3))
	if kind != 3 && nrefs > 0 && rnd.coin(1, 8) {
		// a MAPPED record whose CIGAR consumes no reference (only I, S, H, P), placed on a bin boundary: Record.Bin
		// counts it as one base long, so the bin is that of [pos, pos+1) and not of the tile before
		s.Flags &^= 4
		if s.Ref < 0 {
			s.Ref = rnd.intn(nrefs)
		}
		shift := uint(rnd.pick([]int{14, 14, 14, 17, 20, 23, 26}))
		s.Pos = rnd.rng(1, (1<<29-1)>>shift)<<shift - rnd.pick([]int{0, 0, 0, 1})
		n := rnd.rng(1, 4)
		s.Cigar = make([][2]int, n)
		for i := range s.Cigar {
			s.Cigar[i] = [2]int{rnd.rng(1, 50), rnd.pick([]int{1, 4, 5, 6})}
		}
	}
	c05SetSeq(rnd, s, rnd.pick([]int{0, 1, 2, 3, 4, 5, 31, 32, 33, 100, 101, rnd.rng(0, 300)}))
	if rnd.coin(1, 12) {
		// power-of-two and slab-sized sequence lengths (and their neighbours), half of them without qualities:
		// the writer emits a run of 0xff for absent qualities, the reader turns it back into nil
		n := rnd.pick([]int{255, 256, 257, 511, 512, 1023, 1024, 1025, 2047, 2048, 2049, 3072, 4096, 8192})
		c05SetSeq(rnd, s, n)
		if rnd.coin(1, 2) {
			s.QualAbsent, s.Qual = true, nil
		}
	}
	switch kind {
	case 1:
		for _, t := range []byte(c05AuxTypes) {
			s.Aux = append(s.Aux, c05GenAux(rnd, t, false))
		}
		for _, t := range []byte(c05ArrTypes) { // an array of every element type, and an empty one of a random type
			a := c05GenAux(rnd, 'B', false)
			for a.Sub != t {
				a = c05GenAux(rnd, 'B', false)
			}
			s.Aux = append(s.Aux, a)
		}
		e := c05GenAux(rnd, 'B', false)
		e.Ints = nil
		s.Aux = append(s.Aux, e)
		rndShuffle(rnd, s.Aux)
	default:
		for n := rnd.pick([]int{0, 0, 1, 2, 3, 6}); n > 0; n-- {
			s.Aux = append(s.Aux, c05GenAux(rnd, c05AuxTypes[rnd.intn(len(c05AuxTypes))], kind == 2 && rnd.coin(1, 3)))
		}
	}
	if kind == 2 {
		// reach the target size exactly by choosing the sequence length (and, when qualities cost too much, a Z aux)
		s.Codes, s.Letters, s.Qual = nil, nil, nil
		base := c05SizeOf(s)
		for base > target && len(s.Aux) > 0 {
			s.Aux = s.Aux[:len(s.Aux)-1]
			base = c05SizeOf(s)
		}
		for base > target && len(s.Cigar) > 0 {
			s.Cigar = s.Cigar[:len(s.Cigar)/2]
			base = c05SizeOf(s)
		}
		if base > target {
			s.Name = s.Name[:1]
			base = c05SizeOf(s)
		}
		need := target - base
		if need > 0 {
			// n bases cost ceil(n/2) + n bytes
			n := need * 2 / 3
			c05SetSeq(rnd, s, n)
			rest := target - c05SizeOf(s)
			for rest < 0 {
				n--
				c05SetSeq(rnd, s, n)
				rest = target - c05SizeOf(s)
			}
			if rest > 0 {
				if rest >= 4 {
					s.Aux = append(s.Aux, c05Aux{Tag: [2]byte{'P', 'D'}, Typ: 'Z', Text: c05GenText(rnd, rest-4, false)})
				} else {
					// 1..3 bytes short: lengthen the name if possible, else drop a base pair and pad with Z
					if len(s.Name)+rest <= 254 {
						s.Name = append(s.Name, bytes.Repeat([]byte{'n'}, rest)...)
					}
				}
			}
		}
	}
	return s
}

func rndShuffle(rnd *Rand, a []c05Aux) {
	for i := len(a) - 1; i > 0; i-- {
		j := rnd.intn(i + 1)
		a[i], a[j] = a[j], a[i]
	}
}

// c05HD is what the generator intends the @HD line to say (SAMv1 §1.3): SO 0..3 = unknown, unsorted, queryname,
// coordinate; GO 0 = no GO field, 1..3 = none, query, reference.
type c05HD struct {
	Has     bool
	Version string
	SO, GO  int
}

var c05SONames = []string{"unknown", "unsorted", "queryname", "coordinate"}
var c05GONames = []string{"", "none", "query", "reference"}

// line is the @HD line an encoder written from the specification produces for the intent.
func (hd c05HD) line() string {
	l := fmt.Sprintf("@HD\tVN:%s\tSO:%s", hd.Version, c05SONames[hd.SO])
	if hd.GO > 0 {
		l += "\tGO:" + c05GONames[hd.GO]
	}
	return l
}

func c05GenHeader(rnd *Rand, nrefs, kind int) (*sam.Header, error) {
	h, _, err := c05GenHeaderHD(rnd, nrefs, kind)
	return h, err
}

func c05GenHeaderHD(rnd *Rand, nrefs, kind int) (*sam.Header, c05HD, error) {
	var refs []*sam.Reference
	var text strings.Builder
	// every sort order and every group order (absent, none, query, reference), in text-built and in API-built headers
	hd := c05HD{Version: []string{"1.6", "1.0", "1.5"}[rnd.intn(3)], SO: rnd.intn(4), GO: rnd.intn(4)}
	hd.Has = kind >= 1 || rnd.coin(2, 3)
	if kind >= 1 {
		fmt.Fprintf(&text, "%s\n", hd.line())
	}
	for i := 0; i < nrefs; i++ {
		name := fmt.Sprintf("chr%d", i+1)
		if rnd.coin(1, 5) {
			name = fmt.Sprintf("scaffold_%d|%s", i, string(c05GenText(rnd, rnd.rng(1, 30), true)))
		}
		ln := rnd.pick([]int{1, 1000, 1 << 29, math.MaxInt32, rnd.rng(1, 1<<28)})
		switch {
		case kind == 3:
			// reference lines with tags the library keeps as "other tags" (defect #17 concerns these)
			fmt.Fprintf(&text, "@SQ\tSN:%s\tLN:%d", name, ln)
			if rnd.coin(1, 2) {
				fmt.Fprintf(&text, "\tAS:asm%d", i)
			}
			fmt.Fprintf(&text, "\t%s:%s\n", []string{"XX", "TP", "AN", "DS"}[rnd.intn(4)], []string{"foo", "circular", "alt1,alt2", "a description"}[rnd.intn(4)])
		case kind == 2:
			fmt.Fprintf(&text, "@SQ\tSN:%s\tLN:%d\tAS:asm\tSP:species %d\n", name, ln, i)
		default:
			r, err := sam.NewReference(name, "", "", ln, nil, nil)
			if err != nil {
				return nil, hd, err
			}
			refs = append(refs, r)
		}
	}
	if kind >= 1 {
		if rnd.coin(1, 2) {
			fmt.Fprintf(&text, "@RG\tID:rg1\tSM:sample\tPL:ILLUMINA\n")
		}
		if rnd.coin(1, 2) {
			fmt.Fprintf(&text, "@PG\tID:prog\tPN:harness\tVN:1\n")
		}
		if rnd.coin(1, 2) {
			fmt.Fprintf(&text, "@CO\ta comment %d\n", rnd.intn(100))
		}
		if rnd.coin(1, 10) {
			// header text larger than one BGZF block
			for i := 0; i < 2000; i++ {
				fmt.Fprintf(&text, "@CO\tfiller comment line number %d to make the header text span BGZF blocks\n", i)
			}
		}
	}
	var tb []byte
	if text.Len() > 0 {
		tb = []byte(text.String())
	}
	h, err := sam.NewHeader(tb, refs)
	if err != nil {
		return nil, hd, err
	}
	if kind == 0 && hd.Has {
		// API-built: the exported fields set directly
		h.Version = hd.Version
		h.SortOrder = sam.SortOrder(hd.SO)
		h.GroupOrder = sam.GroupOrder(hd.GO)
	}
	return h, hd, nil
}

// c05HeaderValues lists the values a header exposes through its exported fields and accessors (never through
// MarshalText/String), as (field, value) pairs in a fixed order.
func c05HeaderValues(h *sam.Header) [][2]string {
	var v [][2]string
	add := func(k string, x interface{}) { v = append(v, [2]string{k, fmt.Sprint(x)}) }
	add("Version", h.Version)
	add("SortOrder", int(h.SortOrder))
	add("GroupOrder", int(h.GroupOrder))
	add("Refs.count", len(h.Refs()))
	for i, r := range h.Refs() {
		p := fmt.Sprintf("Ref[%d].", i)
		add(p+"ID", r.ID())
		add(p+"Name", r.Name())
		add(p+"Len", r.Len())
		add(p+"AssemblyID", r.AssemblyID())
		add(p+"Species", r.Species())
		add(p+"MD5", hexs(r.MD5()))
		add(p+"URI", r.URI())
		var tags []string
		r.Tags(func(t sam.Tag, val string) { tags = append(tags, t.String()+"="+val) })
		add(p+"Tags", strings.Join(tags, "|"))
	}
	add("RGs.count", len(h.RGs()))
	for i, g := range h.RGs() {
		p := fmt.Sprintf("RG[%d].", i)
		add(p+"ID", g.ID())
		add(p+"Name", g.Name())
		add(p+"Library", g.Library())
		add(p+"PlatformUnit", g.PlatformUnit())
		add(p+"Time", g.Time().UTC().UnixNano())
		var tags []string
		g.Tags(func(t sam.Tag, val string) { tags = append(tags, t.String()+"="+val) })
		add(p+"Tags", strings.Join(tags, "|"))
	}
	add("Progs.count", len(h.Progs()))
	for i, g := range h.Progs() {
		p := fmt.Sprintf("Prog[%d].", i)
		add(p+"ID", g.ID())
		add(p+"UID", g.UID())
		add(p+"Name", g.Name())
		add(p+"Command", g.Command())
		add(p+"Previous", g.Previous())
		add(p+"Version", g.Version())
		var tags []string
		g.Tags(func(t sam.Tag, val string) { tags = append(tags, t.String()+"="+val) })
		add(p+"Tags", strings.Join(tags, "|"))
	}
	add("Comments.count", len(h.Comments))
	for i, c := range h.Comments {
		add(fmt.Sprintf("Comment[%d]", i), c)
	}
	return v
}

// c05HeaderDiff returns the name (index stripped) of the first exposed value that differs, and a description.
func c05HeaderDiff(a, b [][2]string) (string, string) {
	for i := range a {
		if i >= len(b) || a[i] != b[i] {
			other := "(missing)"
			if i < len(b) {
				other = b[i][0] + "=" + b[i][1]
			}
			name := a[i][0]
			if k := strings.Index(name, "["); k >= 0 {
				if j := strings.Index(name, "]"); j > k {
					name = name[:k] + name[j+1:]
				}
			}
			return name, fmt.Sprintf("written %s=%s, read %s", a[i][0], a[i][1], other)
		}
	}
	if len(b) > len(a) {
		return "extra", "the header read exposes more values: " + b[len(a)][0]
	}
	return "", ""
}

// profiles: 0 small mixed file, 1 every aux type, 2 records around the 4 KiB buffer boundary, 3 records around/above a
// BGZF block, 4 many CIGAR operations, 5 many small records (aliasing of the shared buffer)
func c05GenFile(seed uint64, profile int) (*c05File, error) {
	rnd := &Rand{seed}
	f := &c05File{Seed: seed, Profile: profile}
	f.NRefs = rnd.pick([]int{0, 1, 2, 3, 5, 40})
	if profile != 0 && f.NRefs == 0 {
		f.NRefs = 2
	}
	f.HdrKind = rnd.pick([]int{0, 0, 1, 1, 2, 3})
	f.WC = rnd.intn(4)
	h, hd, err := c05GenHeaderHD(rnd, f.NRefs, f.HdrKind)
	f.hd = hd
	if err != nil {
		return nil, fmt.Errorf("header: %v", err)
	}
	f.hdr = h
	add := func(kind, target int) { f.Recs = append(f.Recs, c05GenRec(rnd, f.NRefs, kind, target)) }
	switch profile {
	case 0:
		for n := rnd.rng(0, 12); n > 0; n-- {
			add(rnd.pick([]int{0, 0, 0, 1, 4}), 0)
		}
	case 1:
		for n := rnd.rng(1, 4); n > 0; n-- {
			add(1, 0)
		}
	case 2:
		for n := rnd.rng(2, 6); n > 0; n-- {
			if rnd.coin(1, 3) {
				add(0, 0)
			} else {
				add(2, rnd.pick([]int{4094, 4095, 4096, 4097, 4098, 4092, 4100, 8192}))
			}
		}
	case 3:
		add(0, 0)
		add(2, rnd.pick([]int{65279, 65280, 65281, 65276, 65536, 70000, 65280*2 + 1, 200000}))
		add(0, 0)
		if rnd.coin(1, 2) {
			add(2, rnd.pick([]int{65280 - 4, 65280 - 3, 65535, 131072}))
			add(4, 0)
		}
	case 4:
		add(0, 0)
		add(3, 0)
		add(0, 0)
	case 5:
		for n := rnd.rng(30, 120); n > 0; n-- {
			add(rnd.pick([]int{0, 0, 4, 1}), 0)
		}
	}
	return f, nil
}

// ---------------------------------------------------------------------------------------------
// running one file

func c05Inflate(b []byte) ([]byte, error) {
	zr, err := gzip.NewReader(bytes.NewReader(b))
	if err != nil {
		return nil, err
	}
	return io.ReadAll(zr)
}

// c05SkipHeader parses the BAM header section (SAMv1 §4.2) and returns the offset of the first alignment and the
// reference dictionary found.
func c05SkipHeader(raw []byte) (off int, names []string, lens []int, text []byte, err error) {
	bad := fmt.Errorf("header section malformed")
	if len(raw) < 12 || string(raw[:4]) != "BAM\x01" {
		return 0, nil, nil, nil, bad
	}
	lt := int(int32(binary.LittleEndian.Uint32(raw[4:])))
	if lt < 0 || 8+lt+4 > len(raw) {
		return 0, nil, nil, nil, bad
	}
	text = raw[8 : 8+lt]
	off = 8 + lt
	n := int(int32(binary.LittleEndian.Uint32(raw[off:])))
	off += 4
	for i := 0; i < n; i++ {
		if off+4 > len(raw) {
			return 0, nil, nil, nil, bad
		}
		ln := int(int32(binary.LittleEndian.Uint32(raw[off:])))
		off += 4
		if ln < 1 || off+ln+4 > len(raw) || raw[off+ln-1] != 0 {
			return 0, nil, nil, nil, bad
		}
		names = append(names, string(raw[off:off+ln-1]))
		off += ln
		lens = append(lens, int(int32(binary.LittleEndian.Uint32(raw[off:]))))
		off += 4
	}
	return off, names, lens, text, nil
}

func c05Region(off int, s *c05Sem) string {
	switch p := off - 4; {
	case off < 4:
		return "block_size"
	case p < 32:
		return []string{"refID", "pos", "l_read_name.mapq.bin", "n_cigar.flag", "l_seq", "next_refID", "next_pos", "tlen"}[p/4]
	case p < 32+len(s.Name)+1:
		return "read_name"
	case p < 32+len(s.Name)+1+4*len(s.Cigar):
		return "cigar"
	case p < 32+len(s.Name)+1+4*len(s.Cigar)+(len(s.Codes)+1)/2:
		return "seq"
	case p < 32+len(s.Name)+1+4*len(s.Cigar)+(len(s.Codes)+1)/2+len(s.Codes):
		return "qual"
	}
	// which aux field of the specification's encoding holds the byte
	q := off - 4 - (32 + len(s.Name) + 1 + 4*len(s.Cigar) + (len(s.Codes)+1)/2 + len(s.Codes))
	for _, a := range s.Aux {
		n := len(c05SpecAux(nil, a))
		if q < n {
			return "aux." + string(rune(a.Typ))
		}
		q -= n
	}
	return "aux"
}

func c05SizeClass(size int) string {
	switch {
	case size <= 4096:
		return "shared"
	case size <= 65280:
		return "private"
	}
	return "multiblock"
}

type c05ReadOut struct {
	hdr  *sam.Header
	recs []*sam.Record
	err  error // the error that ended the loop (io.EOF when clean)
	o    callOutcome
}

func c05ReadAll(data []byte, rd, omit int, limit int) c05ReadOut {
	var out c05ReadOut
	out.o = guardTimeout(60*time.Second, func() {
		br, err := bam.NewReader(bytes.NewReader(data), rd)
		if err != nil {
			out.err = fmt.Errorf("NewReader: %w", err)
			return
		}
		defer br.Close()
		br.Omit(omit)
		out.hdr = br.Header()
		for {
			r, err := br.Read()
			if err != nil {
				out.err = err
				return
			}
			out.recs = append(out.recs, r)
			if len(out.recs) > limit {
				out.err = fmt.Errorf("more than %d records returned", limit)
				return
			}
		}
	})
	return out
}

// c05Compare returns the name of the first field of got that differs from what was written ("" when equal).
func c05Compare(w *c05Want, got *sam.Record, omit int, h *sam.Header) string {
	if got.Name != w.Name {
		return "name"
	}
	chk := func(id int, ref *sam.Reference) bool {
		if id < 0 {
			return ref == nil
		}
		return ref != nil && id < len(h.Refs()) && ref == h.Refs()[id] && ref.ID() == id
	}
	if !chk(w.Ref, got.Ref) {
		return "ref"
	}
	if !chk(w.MateRef, got.MateRef) {
		return "materef"
	}
	if got.Pos != w.Pos {
		return "pos"
	}
	if got.MatePos != w.MatePos {
		return "matepos"
	}
	if got.TempLen != w.TempLen {
		return "templen"
	}
	if got.MapQ != w.MapQ {
		return "mapq"
	}
	if uint16(got.Flags) != w.Flags {
		return "flags"
	}
	if len(got.Cigar) != len(w.Cigar) {
		return "cigar.count"
	}
	for i, c := range got.Cigar {
		if uint32(c) != w.Cigar[i] {
			return "cigar"
		}
	}
	if omit >= bam.AllVariableLengthData {
		if got.Seq.Length != 0 || len(got.Seq.Seq) != 0 || len(got.Qual) != 0 || len(got.AuxFields) != 0 {
			return "omitted-part-present"
		}
		return ""
	}
	if got.Seq.Length != w.SeqLen {
		return "seq.length"
	}
	if len(got.Seq.Seq) != len(w.Seq) {
		return "seq.bytes"
	}
	for i, d := range got.Seq.Seq {
		if byte(d) != w.Seq[i] {
			return "seq"
		}
	}
	if w.QualNil {
		if len(got.Qual) != w.SeqLen {
			return "qual.length"
		}
		for _, q := range got.Qual {
			if q != 0xff {
				return "qual.absent"
			}
		}
	} else if !bytes.Equal(got.Qual, w.Qual) {
		return "qual"
	}
	if omit >= bam.AuxTags {
		if len(got.AuxFields) != 0 {
			return "omitted-part-present"
		}
		return ""
	}
	if len(got.AuxFields) != len(w.Aux) {
		return "aux.count"
	}
	for i, a := range got.AuxFields {
		if !bytes.Equal(a, w.Aux[i]) {
			return "aux." + string(rune(w.Aux[i][2]))
		}
	}
	return ""
}

func c05ViewLine(r *sam.Record) (args string, impl string) {
	var cg []string
	cs := make([]uint32, len(r.Cigar))
	for i, c := range r.Cigar {
		cs[i] = uint32(c)
		cg = append(cg, fmt.Sprintf("%d:%d", c.Len(), int(c.Type())))
	}
	sq := make([]byte, len(r.Seq.Seq))
	for i, d := range r.Seq.Seq {
		sq[i] = byte(d)
	}
	ax := "."
	var av []string
	if len(r.AuxFields) > 0 {
		parts := make([]string, len(r.AuxFields))
		for i, a := range r.AuxFields {
			parts[i] = hexs(a)
			av = append(av, fmt.Sprintf("%d.%d:%s", a[0], a[1], c05ShowValue(a)))
		}
		ax = strings.Join(parts, ",")
	}
	args = fmt.Sprintf("%d %s %s %s", r.Seq.Length, hexs(sq), c05CigarHex(cs), ax)
	impl = fmt.Sprintf("%s [%s] [%s]", hexs(r.Seq.Expand()), strings.Join(cg, ","), strings.Join(av, ";"))
	return
}

func c05ShowValue(a sam.Aux) string {
	join := func(n int, f func(i int) int64) string {
		p := make([]string, n)
		for i := range p {
			p[i] = fmt.Sprint(f(i))
		}
		return strings.Join(p, ",")
	}
	switch v := a.Value().(type) {
	case uint8:
		if a.Type() == 'A' {
			return fmt.Sprintf("A:%d", v)
		}
		return fmt.Sprintf("C:%d", v)
	case int8:
		return fmt.Sprintf("c:%d", v)
	case int16:
		return fmt.Sprintf("s:%d", v)
	case uint16:
		return fmt.Sprintf("S:%d", v)
	case int32:
		return fmt.Sprintf("i:%d", v)
	case uint32:
		return fmt.Sprintf("I:%d", v)
	case float32:
		return fmt.Sprintf("f:%d", math.Float32bits(v))
	case string:
		return "Z:" + hexs([]byte(v))
	case []byte:
		if a.Type() == 'H' {
			return "H:" + hexs([]byte(fmt.Sprintf("%X", v))) // the digit text the value is written as
		}
		return fmt.Sprintf("B:C:%d:%s", len(v), join(len(v), func(i int) int64 { return int64(v[i]) }))
	case []int8:
		return fmt.Sprintf("B:c:%d:%s", len(v), join(len(v), func(i int) int64 { return int64(v[i]) }))
	case []int16:
		return fmt.Sprintf("B:s:%d:%s", len(v), join(len(v), func(i int) int64 { return int64(v[i]) }))
	case []uint16:
		return fmt.Sprintf("B:S:%d:%s", len(v), join(len(v), func(i int) int64 { return int64(v[i]) }))
	case []int32:
		return fmt.Sprintf("B:i:%d:%s", len(v), join(len(v), func(i int) int64 { return int64(v[i]) }))
	case []uint32:
		return fmt.Sprintf("B:I:%d:%s", len(v), join(len(v), func(i int) int64 { return int64(v[i]) }))
	case []float32:
		return fmt.Sprintf("B:f:%d:%s", len(v), join(len(v), func(i int) int64 { return int64(math.Float32bits(v[i])) }))
	}
	return "?"
}

func c05RunFile(c *ctx, f *c05File, d *Driver, impl *[]string) {
	r := c.res
	in := c05Input{Kind: "file", Seed: f.Seed, Profile: f.Profile}
	h := f.hdr
	var err error
	f.hdrText, _ = h.MarshalText()
	f.hdrBin, _ = h.MarshalBinary()
	f.hdrVals = c05HeaderValues(h)
	if f.hd.Has {
		r.hist("header.SO=" + c05SONames[f.hd.SO])
		r.hist("header.GO=" + []string{"absent", "none", "query", "reference"}[f.hd.GO])
	} else {
		r.hist("header.no-@HD")
	}
	r.hist(fmt.Sprintf("file.profile%d", f.Profile))
	r.hist(fmt.Sprintf("file.hdrkind%d", f.HdrKind))
	r.hist(fmt.Sprintf("file.nrefs=%d", f.NRefs))
	r.hist(fmt.Sprintf("file.wc=%d", f.WC))
	for i, s := range f.Recs {
		rec, err := s.build(h)
		if err != nil {
			r.note("generator: record %d of case %d does not build: %v", i, f.Seed, err)
			return
		}
		f.recs = append(f.recs, rec)
		f.expected = append(f.expected, c05Copy(rec))
	}
	// ---- write
	var buf bytes.Buffer
	var werr error
	failedAt := -1
	o := guardTimeout(60*time.Second, func() {
		var bw *bam.Writer
		bw, werr = bam.NewWriter(&buf, h, f.WC)
		if werr != nil {
			return
		}
		for i, rec := range f.recs {
			if werr = bw.Write(rec); werr != nil {
				failedAt = i
				return
			}
		}
		werr = bw.Close()
	})
	switch {
	case o.timedOut:
		r.fail("c05.write.hang", "bam.Writer did not return within 60 s", in)
		return
	case o.panicked:
		r.fail("c05.write.panic:"+topRepoFrame(o.stack), o.panicVal, in)
		return
	case werr != nil:
		in.Note = fmt.Sprintf("record %d", failedAt)
		r.fail("c05.write.error", "writing a representable record failed: "+werr.Error(), in)
		return
	}
	for i, rec := range f.recs { // the writer must not change what it was given
		w2 := c05Copy(rec)
		if w2.args() != f.expected[i].args() {
			r.fail("c05.write.modifies-argument", fmt.Sprintf("record %d differs after Write", i), in)
		}
	}
	data := buf.Bytes()
	// ---- (1) bytes under the BGZF layer
	raw, err := c05Inflate(data)
	if err != nil {
		r.fail("c05.bytes.gzip", "compress/gzip cannot read the writer's output: "+err.Error(), in)
		return
	}
	off, names, lens, text, err := c05SkipHeader(raw)
	if err != nil {
		r.fail("c05.bytes.header", err.Error(), in)
		return
	}
	if f.hd.Has {
		// the @HD line in the file against the line the specification prescribes for the intended values
		first := string(text)
		if k := strings.IndexByte(first, '\n'); k >= 0 {
			first = first[:k]
		}
		if first != f.hd.line() {
			r.fail("c05.bytes.header.hd-line", fmt.Sprintf("@HD line in the file is %q, the specification gives %q", first, f.hd.line()), in)
		}
	} else if bytes.HasPrefix(text, []byte("@HD")) {
		r.fail("c05.bytes.header.hd-line", "an @HD line was written for a header without a version", in)
	}
	if !bytes.Equal(text, f.hdrText) || len(names) != len(h.Refs()) {
		r.fail("c05.bytes.header", "header text or reference count in the file differ from the header given", in)
	} else {
		for i, ref := range h.Refs() {
			if names[i] != ref.Name() || lens[i] != ref.Len() {
				r.fail("c05.bytes.header", fmt.Sprintf("reference %d is %q/%d in the file", i, names[i], lens[i]), in)
				break
			}
		}
	}
	sizes := make([]int, len(f.Recs))
	for i, s := range f.Recs {
		want := c05SpecEncode(s)
		sizes[i] = len(want) - 4
		cls := c05SizeClass(sizes[i])
		r.hist("record." + cls)
		switch sizes[i] {
		case 4095, 4096, 4097:
			r.hist(fmt.Sprintf("record.size=%d", sizes[i]))
		}
		c05HistRec(r, s)
		in.Note = fmt.Sprintf("record %d of %d (size %d)", i, len(f.Recs), sizes[i])
		in.Record = ""
		if sizes[i] < 600 {
			in.Record = f.expected[i].args()
		}
		// the record as the writer delimited it (its own block_size), so that one wrong record does not shift the rest
		gotLen := len(want)
		if off+4 <= len(raw) {
			if bs := int(int32(binary.LittleEndian.Uint32(raw[off:]))); bs >= 32 && off+4+bs <= len(raw) {
				gotLen = 4 + bs
			}
		}
		if off+gotLen > len(raw) || gotLen < 36 {
			r.fail("c05.bytes.short", "the file ends before this record", in)
			return
		}
		got := raw[off : off+gotLen]
		off += gotLen
		bin := binary.LittleEndian.Uint16(got[14:16])
		// the fields first (the first differing one names the signature), the block size last
		diff := -1
		for k := 4; k < len(want) && k < len(got); k++ {
			if k == 14 || k == 15 {
				continue
			}
			if got[k] != want[k] {
				diff = k
				break
			}
		}
		if diff < 0 && len(got) != len(want) {
			diff = len(got)
			if len(want) < diff {
				diff = len(want)
			}
		}
		if diff < 0 && !bytes.Equal(got[:4], want[:4]) {
			diff = 0
		}
		if diff >= 0 {
			g, w := "(end)", "(end)"
			if diff < len(got) {
				g = fmt.Sprintf("%#02x", got[diff])
			}
			if diff < len(want) {
				w = fmt.Sprintf("%#02x", want[diff])
			}
			r.fail("c05.bytes.spec."+c05Region(diff, s), fmt.Sprintf("byte %d of the record is %s, the specification encoder gives %s (record of %d bytes, specification %d)", diff, g, w, len(got), len(want)), in)
		}
		nontrivial := len(s.Codes) > 0 || len(s.Aux) > 0 || len(s.Cigar) > 0
		r.eval(fmt.Sprintf("rec:%x", c05Fnv(want)), nontrivial)
		// model: encodeRecord and Spec.layout(view r)
		a := f.expected[i].args()
		d.add("c05.enc %s", a)
		*impl = append(*impl, "ok "+c05Digest(got))
		if s.PadJunk == 0 || len(s.Codes)%2 == 0 { // Spec.layout writes 0 into an unused nibble
			d.add("c05.spec %d %s", bin, a)
			*impl = append(*impl, c05Digest(got))
		}
		if sizes[i] < 3000 && (s.PadJunk == 0 || len(s.Codes)%2 == 0) {
			// sam.NewSeq (contract) against the model's `contract`
			sq := make([]byte, len(f.recs[i].Seq.Seq))
			for k, dd := range f.recs[i].Seq.Seq {
				sq[k] = byte(dd)
			}
			d.add("c05.contract %s", hexs(s.Letters))
			*impl = append(*impl, hexs(sq))
		}
		if sizes[i] < 3000 {
			va, vi := "", ""
			ov := guard(func() { va, vi = c05ViewLine(f.recs[i]) })
			if ov.panicked {
				r.fail("c05.accessor.panic:"+topRepoFrame(ov.stack), ov.panicVal, in)
			} else {
				d.add("c05.view %s", va)
				*impl = append(*impl, vi)
			}
		}
	}
	if off != len(raw) {
		in.Note = ""
		r.fail("c05.bytes.trailing", fmt.Sprintf("%d bytes after the last record", len(raw)-off), in)
	}
	// ---- (3) the reader alone: a file made of the specification encoder's bytes (bin = 0), not of the writer's
	{
		var sb bytes.Buffer
		bg := bgzf.NewWriter(&sb, 1)
		bg.Write(f.hdrBin)
		for _, s := range f.Recs {
			bg.Write(c05SpecEncode(s))
		}
		bg.Close()
		out := c05ReadAll(sb.Bytes(), 1, 0, len(f.recs)+5)
		in.Note = "file built by the specification encoder"
		in.Record = ""
		switch {
		case out.o.timedOut:
			r.fail("c05.readspec.hang", "bam.Reader did not finish within 60 s", in)
		case out.o.panicked:
			r.fail("c05.readspec.panic:"+topRepoFrame(out.o.stack), out.o.panicVal, in)
		case out.err != io.EOF || len(out.recs) != len(f.recs):
			r.fail("c05.readspec.end", fmt.Sprintf("%d of %d records, then %v", len(out.recs), len(f.recs), out.err), in)
		default:
			for i := range out.recs {
				if fld := c05Compare(&f.expected[i], out.recs[i], 0, out.hdr); fld != "" {
					in.Note = fmt.Sprintf("file built by the specification encoder, record %d (size %d)", i, sizes[i])
					r.fail("c05.readspec."+fld, "the reader does not return the record the specification's bytes stand for", in)
				}
			}
		}
		r.hist("read.spec-encoded-file")
	}
	// ---- (2) read back: every Omit mode, rd 0..3; comparison after everything has been read
	rds := []int{0, 1, 2, 3}
	if len(data) > 1<<20 && !c.thorough() {
		rds = []int{c.rnd.intn(2), 2 + c.rnd.intn(2)}
	}
	for omit := 0; omit <= 2; omit++ {
		for k, rd := range rds {
			out := c05ReadAll(data, rd, omit, len(f.recs)+5)
			r.hist(fmt.Sprintf("read.rd=%d.omit=%d", rd, omit))
			in.Note = fmt.Sprintf("rd=%d omit=%d", rd, omit)
			in.Record = ""
			if out.o.timedOut {
				r.fail(fmt.Sprintf("c05.read.hang.omit%d", omit), "bam.Reader did not finish within 60 s", in)
				continue
			}
			if out.o.panicked {
				r.fail("c05.read.panic:"+topRepoFrame(out.o.stack), out.o.panicVal, in)
				continue
			}
			if out.hdr == nil {
				r.fail("c05.read.header", fmt.Sprint(out.err), in)
				continue
			}
			if k == 0 && omit == 0 {
				if fld, what := c05HeaderDiff(f.hdrVals, c05HeaderValues(out.hdr)); fld != "" {
					r.fail("c05.header.value."+fld, "header read back is not equal to the header written: "+what, in)
				}
				if f.hd.Has && (out.hdr.Version != f.hd.Version || int(out.hdr.SortOrder) != f.hd.SO || int(out.hdr.GroupOrder) != f.hd.GO) {
					r.fail("c05.header.value.hd-intent", fmt.Sprintf("header read back has VN=%q SO=%d GO=%d, generated %q %d %d",
						out.hdr.Version, int(out.hdr.SortOrder), int(out.hdr.GroupOrder), f.hd.Version, f.hd.SO, f.hd.GO), in)
				}
				t2, _ := out.hdr.MarshalText()
				b2, _ := out.hdr.MarshalBinary()
				if !bytes.Equal(t2, f.hdrText) {
					r.fail("c05.header.text", fmt.Sprintf("header read back differs: wrote %q, read %q", c05Clip(f.hdrText), c05Clip(t2)), in)
				} else if !bytes.Equal(b2, f.hdrBin) {
					r.fail("c05.header.binary", "MarshalBinary of the header read back differs", in)
				}
			}
			if out.err != io.EOF {
				r.fail(fmt.Sprintf("c05.read.end.omit%d", omit), fmt.Sprintf("after %d of %d records: %v", len(out.recs), len(f.recs), out.err), in)
			}
			if len(out.recs) != len(f.recs) {
				r.fail(fmt.Sprintf("c05.read.count.omit%d", omit), fmt.Sprintf("%d records read, %d written", len(out.recs), len(f.recs)), in)
			}
			for i := range out.recs {
				if i >= len(f.recs) {
					break
				}
				if fld := c05Compare(&f.expected[i], out.recs[i], omit, out.hdr); fld != "" {
					in.Note = fmt.Sprintf("rd=%d omit=%d record %d of %d (size %d)", rd, omit, i, len(f.recs), sizes[i])
					if sizes[i] < 600 {
						in.Record = f.expected[i].args()
					}
					r.fail(fmt.Sprintf("c05.roundtrip.%s.omit%d.%s", fld, omit, c05SizeClass(sizes[i])), "field differs after write+read", in)
				}
				if k == 0 {
					d.add("c05.rt %d %d %s", omit, len(h.Refs()), f.expected[i].args())
					*impl = append(*impl, fmt.Sprintf("1 %d eof", c05Fnv(c05Ser(out.recs[i]))))
				}
			}
		}
	}
}

func c05Clip(b []byte) string {
	if len(b) > 300 {
		return string(b[:300]) + "..."
	}
	return string(b)
}

func c05HistRec(r *Result, s *c05Sem) {
	switch n := len(s.Codes); {
	case n == 0:
		r.hist("seq.len=0")
	case n%2 == 1:
		r.hist("seq.odd")
	default:
		r.hist("seq.even")
	}
	if s.PadJunk != 0 {
		r.hist("seq.pad-nibble-nonzero")
	}
	if s.QualAbsent {
		r.hist("qual.absent")
	} else {
		r.hist("qual.present")
	}
	switch n := len(s.Cigar); {
	case n == 0:
		r.hist("cigar.ops=0")
	case n < 1000:
		r.hist("cigar.ops<1000")
	case n < 65535:
		r.hist("cigar.ops>=1000")
	default:
		r.hist("cigar.ops=65535")
	}
	for _, c := range s.Cigar {
		if c[0] >= 1<<28-3 {
			r.hist("cigar.len~2^28")
			break
		}
	}
	if s.Flags&4 == 0 && len(s.Cigar) > 0 && s.Ref >= 0 {
		noRef := true
		for _, c := range s.Cigar {
			if c[1] != 1 && c[1] != 4 && c[1] != 5 && c[1] != 6 {
				noRef = false
			}
		}
		if noRef {
			r.hist("cigar.mapped-consumes-no-reference")
			if s.Pos > 0 && s.Pos%16384 == 0 {
				r.hist("cigar.mapped-consumes-no-reference@16KiB-boundary")
			}
		}
	}
	for _, a := range s.Aux {
		k := "aux." + string(rune(a.Typ))
		if a.Typ == 'B' {
			k += string(rune(a.Sub))
			if len(a.Ints) == 0 {
				r.hist("aux.B.empty")
			}
		}
		if (a.Typ == 'Z' || a.Typ == 'H') && len(a.Text) == 0 {
			r.hist(k + ".empty")
		}
		r.hist(k)
	}
	switch len(s.Name) {
	case 1:
		r.hist("name.len=1")
	case 254:
		r.hist("name.len=254")
	}
	switch {
	case s.Ref < 0:
		r.hist("ref.none")
	case s.Pos < 0:
		r.hist("ref.unplaced")
	}
	switch {
	case s.MateRef >= 0 && s.MateRef != s.Ref:
		r.hist("mate.other-ref")
	case s.MateRef >= 0:
		r.hist("mate.same-ref")
	}
	if s.Flags&4 != 0 {
		r.hist("flag.unmapped")
	}
}

// ---------------------------------------------------------------------------------------------
// writer rejections (model vs implementation only)

func c05Rejects(c *ctx, d *Driver, impl *[]string) {
	h, _ := c05GenHeader(c.rnd, 2, 0)
	mk := func() *sam.Record {
		s := c05GenRec(c.rnd, 2, 0, 0)
		s.Flags &^= 4
		if len(s.Cigar) == 0 {
			s.Cigar = [][2]int{{5, 0}}
		}
		rec, _ := s.build(h)
		return rec
	}
	var cases []*sam.Record
	a := mk()
	a.Name = ""
	cases = append(cases, a)
	a = mk()
	a.Name = strings.Repeat("n", 255)
	cases = append(cases, a)
	a = mk()
	a.Qual = make([]byte, a.Seq.Length+1)
	cases = append(cases, a)
	a = mk()
	a.Qual = []byte{}
	a.Seq = sam.NewSeq([]byte("ACG"))
	cases = append(cases, a)
	a = mk()
	a.AuxFields = append(a.AuxFields, sam.Aux{'X', 'Y'})
	cases = append(cases, a)
	for t := 10; t < 16; t++ { // CIGAR operation codes the library has no consume entry for (defect #8 for 11..15)
		a = mk()
		a.Cigar = append(a.Cigar, sam.CigarOp(uint32(7<<4|t)))
		cases = append(cases, a)
		b := mk()
		b.Cigar = append(b.Cigar, sam.CigarOp(uint32(7<<4|t)))
		b.Flags |= sam.Unmapped
		cases = append(cases, b)
	}
	// records outside WF that the writer nevertheless accepts: the model must say what the code does with them
	a = mk()
	a.Name = "a\x00b" // NUL inside the name
	cases = append(cases, a)
	a = mk()
	a.Seq = sam.Seq{Length: 7, Seq: []sam.Doublet{0x12}} // Length larger than the doublets
	a.Qual = nil
	cases = append(cases, a)
	a = mk()
	a.Seq = sam.Seq{Length: 1, Seq: []sam.Doublet{0x12, 0x48, 0x88}} // Length smaller than the doublets
	a.Qual = []byte{30}
	cases = append(cases, a)
	a = mk()
	a.Cigar = nil
	for i := 0; i < 65536+3; i++ { // more operations than n_cigar_op can count
		a.Cigar = append(a.Cigar, sam.NewCigarOp(sam.CigarMatch, 1))
	}
	cases = append(cases, a)
	a = mk()
	a.AuxFields = append(a.AuxFields, sam.Aux{'X', 'Y', 'Z', 'a', 0, 'b'}) // NUL inside a Z payload
	cases = append(cases, a)
	a = mk()
	a.AuxFields = append(a.AuxFields, sam.Aux{'X', 'Y', 'i', 1, 2, 3, 4, 5}) // payload longer than the type says
	cases = append(cases, a)
	a = mk()
	a.Pos, a.TempLen = 1<<40+5, -(1<<35 + 9) // beyond int32: truncated by the writer
	cases = append(cases, a)
	for _, rec := range cases {
		w := c05Copy(rec)
		var buf bytes.Buffer
		var werr error
		o := guardTimeout(20*time.Second, func() {
			bw, err := bam.NewWriter(&buf, h, 1)
			if err != nil {
				werr = err
				return
			}
			werr = bw.Write(rec)
			bw.Close()
		})
		res := "ok"
		switch {
		case o.timedOut:
			res = "hang"
		case o.panicked:
			switch fr := topRepoFrame(o.stack); {
			case strings.Contains(fr, "Consumes"):
				res = "panic:consume" // not an outcome of the model any more: Consumes is total
			case strings.Contains(fr, "Aux") || strings.Contains(fr, "buildAux"):
				res = "panic:auxtype"
			default:
				res = "panic:" + fr
			}
		case werr != nil:
			switch {
			case strings.Contains(werr.Error(), "name absent or too long"):
				res = "err:namelen"
			case strings.Contains(werr.Error(), "quality length mismatch"):
				res = "err:quallen"
			default:
				res = "err:" + werr.Error()
			}
		}
		c.res.hist("reject." + res)
		d.add("c05.enc %s", w.args())
		if res == "ok" {
			// accepted after all: compare the bytes
			raw, _ := c05Inflate(buf.Bytes())
			off, _, _, _, err := c05SkipHeader(raw)
			if err == nil {
				res = "ok " + c05Digest(raw[off:])
			}
			// and what the reader makes of it
			out := c05ReadAll(buf.Bytes(), 1, 0, 10)
			var all []byte
			for _, x := range out.recs {
				all = append(all, c05Ser(x)...)
			}
			end := "hang"
			switch {
			case out.o.panicked:
				end = "panic:" + topRepoFrame(out.o.stack)
			case !out.o.timedOut:
				end = c05ErrName(out.err)
			}
			c.res.hist("reject.read." + end)
			*impl = append(*impl, res)
			d.add("c05.rt 0 %d %s", len(h.Refs()), w.args())
			res = fmt.Sprintf("%d %d %s", len(out.recs), c05Fnv(all), end)
		}
		*impl = append(*impl, res)
		c.res.eval("reject:"+w.args(), true)
	}
}

// ---------------------------------------------------------------------------------------------
// malformed record streams (model vs implementation only; the property does not speak about them)

func c05ErrName(err error) string {
	if err == io.EOF {
		return "eof"
	}
	if err == io.ErrUnexpectedEOF {
		return "err:unexpectedEOF"
	}
	m := err.Error()
	for _, p := range [][2]string{
		{"invalid block size", "err:blocksize"}, {"invalid read name length", "err:readnamelen"},
		{"invalid sequence length", "err:seqlen"}, {"mate reference id out of range", "err:materefrange"},
		{"reference id out of range", "err:refrange"}, {"no zero", "err:auxnozero"}, {"zero in tag", "err:auxzerointag"},
		{"odd number of digits", "err:auxhexodd"}, {"invalid hex data", "err:auxhexdigit"},
		{"truncated aux array header", "err:auxarrayhdr"}, {"truncated aux data", "err:auxtruncated"},
		{"unrecognised array element type", "err:auxarrayelem"},
		{"invalid array length", "err:auxarraylen"}, {"unrecognised optional field type", "err:auxtype"},
		{"unexpected EOF", "err:unexpectedEOF"},
	} {
		if strings.Contains(m, p[0]) {
			return p[1]
		}
	}
	return "err:other:" + m
}

func c05Mutate(rnd *Rand, recs [][]byte, nrefs int) ([]byte, string) {
	// recs: valid encoded records (block_size + body) of small records
	k := rnd.intn(len(recs))
	b := append([]byte{}, recs[k]...)
	body := b[4:]
	lname := int(body[8])
	ncig := int(binary.LittleEndian.Uint16(body[12:]))
	lseq := int(int32(binary.LittleEndian.Uint32(body[16:])))
	auxOff := 32 + lname + 4*ncig + (lseq+1)/2 + lseq
	setSize := func() { binary.LittleEndian.PutUint32(b, uint32(len(b)-4)) }
	kind := ""
	switch m := rnd.intn(21); m {
	case 0:
		kind = "truncate-stream"
	case 1:
		kind = "short-body"
		b = b[:4+rnd.intn(len(body))]
		setSize()
	case 2:
		kind = "l_read_name=0"
		body[8] = 0
	case 3:
		kind = "l_seq-negative"
		binary.LittleEndian.PutUint32(body[16:], uint32(0x80000000|rnd.intn(1<<20)))
	case 4:
		kind = "l_seq-large"
		binary.LittleEndian.PutUint32(body[16:], uint32(lseq+rnd.rng(1, 4000)))
	case 5:
		kind = "n_cigar-large"
		binary.LittleEndian.PutUint16(body[12:], uint16(ncig+rnd.rng(1, 3000)))
	case 6:
		kind = "refID-out-of-range"
		binary.LittleEndian.PutUint32(body[0:], uint32(int32(rnd.pick([]int{nrefs, nrefs + 1, -2, math.MinInt32, math.MaxInt32}))))
		if rnd.coin(1, 2) {
			copy(body[20:24], body[0:4])
		}
	case 7:
		kind = "next_refID-out-of-range"
		binary.LittleEndian.PutUint32(body[20:], uint32(int32(rnd.pick([]int{nrefs, nrefs + 1, -2, math.MinInt32, math.MaxInt32}))))
	case 8:
		kind = "aux-unknown-type"
		b = append(b, 'X', 'Q', byte(rnd.pick([]int{'a', 'z', 0, 'd', 'b', 0xff})), 1, 2, 3, 4)
		setSize()
	case 9:
		kind = "aux-Z-no-NUL"
		b = append(b, 'X', 'Q', byte(rnd.pick([]int{'Z', 'H'})))
		b = append(b, c05GenText(rnd, rnd.rng(0, 6), false)...)
		setSize()
	case 10:
		kind = "aux-fixed-cut-short"
		t := "AcCsSiIf"[rnd.intn(8)]
		b = append(b, 'X', 'Q', t)
		b = append(b, make([]byte, rnd.intn(c05ElemWidth(t)))...)
		setSize()
	case 11:
		kind = "aux-B-count-too-large"
		b = append(b, 'X', 'Q', 'B', c05ArrTypes[rnd.intn(7)])
		b = binary.LittleEndian.AppendUint32(b, uint32(rnd.pick([]int{5, 1000, 1 << 31, math.MaxUint32})))
		b = append(b, 1, 2, 3, 4)
		setSize()
	case 12:
		kind = "aux-B-header-cut-short"
		b = append(b, 'X', 'Q', 'B')
		b = append(b, []byte{'c', 0, 0, 0}[:rnd.intn(5)]...)
		setSize()
	case 13:
		kind = "aux-B-bad-subtype"
		sub := byte(rnd.pick([]int{'Z', 'H', 'B', 'x', 0, 'A'}))
		n := rnd.pick([]int{0, 1, 3, 7, 8, 9, 12, 100}) // 8 with jumps[sub] = -1 used to give an entry of size 0 and an endless loop
		b = append(b, 'X', 'Q', 'B', sub)
		b = binary.LittleEndian.AppendUint32(b, uint32(n))
		b = append(b, make([]byte, rnd.intn(12))...)
		setSize()
	case 14:
		kind = "aux-trailing-bytes"
		b = append(b, make([]byte, rnd.rng(1, 2))...)
		setSize()
	case 15:
		kind = "flip-fixed"
		body[rnd.intn(32)] ^= byte(1 << uint(rnd.intn(8)))
	case 16:
		kind = "flip-aux"
		if auxOff < len(body) {
			body[auxOff+rnd.intn(len(body)-auxOff)] ^= byte(1 << uint(rnd.intn(8)))
		} else {
			body[rnd.intn(len(body))] ^= 0x10
		}
	case 18:
		kind = "aux-H-odd-digits"
		b = append(b, 'X', 'Q', 'H')
		b = append(b, []byte("1AE")[:rnd.pick([]int{1, 3})]...)
		b = append(b, 0)
		setSize()
	case 19:
		kind = "aux-H-not-a-digit"
		b = append(b, 'X', 'Q', 'H', '1', byte(rnd.pick([]int{'G', 'g', ' ', '/', ':', '@', '`', 0xff})), 0)
		setSize()
	case 20:
		kind = "aux-H-lower-case-digits"
		b = append(b, 'X', 'Q', 'H')
		b = append(b, []byte("1ae3ff0a")[:rnd.pick([]int{0, 2, 4, 8})]...)
		b = append(b, 0)
		setSize()
	case 17:
		kind = "block_size"
		binary.LittleEndian.PutUint32(b, uint32(int32(rnd.pick([]int{0, -1, math.MinInt32, len(body) - 1, len(body) + 1, len(body) + 100000}))))
	}
	var s []byte
	for i, x := range recs {
		if i == k {
			s = append(s, b...)
		} else {
			s = append(s, x...)
		}
	}
	if kind == "truncate-stream" {
		s = s[:rnd.intn(len(s)+1)]
	}
	return s, kind
}

func c05Malformed(c *ctx, n int) {
	r := c.res
	rnd := c.rnd.fork()
	h, _ := c05GenHeader(rnd, 3, 0)
	hb, _ := h.MarshalBinary()
	type mcase struct {
		stream []byte
		kind   string
		omit   int
		seed   uint64
	}
	var cases []mcase
	d := c.drv()
	for i := 0; i < n; i++ {
		seed := rnd.u64()
		cr := &Rand{seed}
		var recs [][]byte
		for k := cr.rng(1, 3); k > 0; k-- {
			s := c05GenRec(cr, 3, cr.pick([]int{0, 0, 1, 4}), 0)
			for len(s.Cigar) > 20 {
				s.Cigar = s.Cigar[:5]
			}
			rec, err := s.build(h)
			if err != nil {
				continue
			}
			var one []byte
			ow := guard(func() {
				var buf bytes.Buffer
				bw, _ := bam.NewWriter(&buf, h, 1)
				bw.Write(rec)
				bw.Close()
				raw, _ := c05Inflate(buf.Bytes())
				one = raw[len(hb):]
			})
			if ow.panicked || len(one) < 36 {
				continue
			}
			recs = append(recs, one)
		}
		if len(recs) == 0 {
			continue
		}
		s, kind := c05Mutate(cr, recs, 3)
		if len(s) > 20000 {
			continue
		}
		mc := mcase{s, kind, cr.intn(3), seed}
		cases = append(cases, mc)
		d.add("c05.dec %d %d %s", mc.omit, 3, hexs(s))
	}
	model, err := d.run()
	if err != nil {
		r.disagree("C05.malformed", "(driver failure)", "", err.Error())
		return
	}
	r.ModelOps += len(model)
	for i, mc := range cases {
		r.hist("malformed." + mc.kind)
		r.eval(fmt.Sprintf("mal:%x", c05Fnv(mc.stream)), true)
		var buf bytes.Buffer
		bg := bgzf.NewWriter(&buf, 1)
		bg.Write(hb)
		bg.Write(mc.stream)
		bg.Close()
		out := c05ReadAll(buf.Bytes(), 1, mc.omit, 10)
		var got string
		var all []byte
		for _, rec := range out.recs {
			all = append(all, c05Ser(rec)...)
		}
		switch {
		case out.o.timedOut:
			got = "hang"
		case out.o.panicked:
			fr := topRepoFrame(out.o.stack)
			if strings.Contains(fr, "parseAux") {
				got = "panic:parseAux"
			} else {
				got = "panic:" + fr
			}
		default:
			got = c05ErrName(out.err)
		}
		got = fmt.Sprintf("%d %d %s", len(out.recs), c05Fnv(all), got)
		want := model[i]
		r.hist("malformed.end." + got[strings.LastIndex(got, " ")+1:])
		if got != want {
			r.disagree("C05.malformed", fmt.Sprintf("c05.dec %d 3 %s (%s, case seed %d)", mc.omit, hexs(mc.stream), mc.kind, mc.seed), got, want)
		}
	}
}

// ---------------------------------------------------------------------------------------------

func checkC05(c *ctx) {
	r := c.res
	r.Rule = "files: a generated header (0..40 references; API-built, text-built with @HD/@RG/@PG/@CO, with AS/SP, with unknown @SQ tags) and " +
		"0..120 generated records per file over six profiles (small mixed; every aux type incl. every B element type and empty arrays; " +
		"sizes 4092..4100 and 8192 around the reader's 4 KiB buffer; sizes around and above one BGZF block; 1023..65535 CIGAR operations; " +
		"many small records), written with wc 0..3 and read with rd 0..3 x Omit 0..2. Boundary-biased: names of 1/254 bytes, odd/even/zero-length " +
		"sequences over all 16 codes, absent qualities, CIGAR lengths up to 2^28-1, extreme integers, NaN/Inf floats, unplaced/unmapped records, mates on other references. " +
		"One evaluation = one record of one file (all 12 read configurations) or one malformed stream or one writer rejection; non-trivial = the record has a sequence, " +
		"a CIGAR or aux fields (or the stream is malformed); distinct = distinct encoded bytes."
	if c.replay != "" {
		var in c05Input
		if err := loadReplay(c.replay, &in); err != nil {
			r.note("replay: %v", err)
			return
		}
		if in.Kind == "file" {
			f, err := c05GenFile(in.Seed, in.Profile)
			if err != nil {
				r.note("replay: %v", err)
				return
			}
			d := c.drv()
			var impl []string
			c05RunFile(c, f, d, &impl)
			d.compare(r, "C05", impl)
		}
		return
	}
	nFiles := 220
	nMal := 1500
	if c.thorough() {
		nFiles = 4000
		nMal = 60000
	}
	profiles := []int{0, 0, 0, 1, 1, 2, 2, 3, 5, 0, 1, 2}
	d := c.drv()
	var impl []string
	flush := func() {
		d.compare(r, "C05", impl)
		d = c.drv()
		impl = nil
	}
	bytesQueued := 0
	for i := 0; i < nFiles; i++ {
		p := profiles[i%len(profiles)]
		if i%13 == 12 {
			p = 4
		}
		seed := c.rnd.u64()
		f, err := c05GenFile(seed, p)
		if err != nil {
			r.note("generator: %v", err)
			continue
		}
		before := len(d.lines)
		c05RunFile(c, f, d, &impl)
		for _, l := range d.lines[before:] {
			bytesQueued += len(l)
		}
		if i < 3 && len(f.expected) > 0 && len(f.expected[0].args()) < 700 {
			r.sample(map[string]interface{}{"case_seed": seed, "profile": p, "nrefs": f.NRefs, "wc": f.WC, "records": len(f.Recs), "first_record": f.expected[0].args()})
		}
		if bytesQueued > 64<<20 {
			flush()
			bytesQueued = 0
		}
	}
	c05Rejects(c, d, &impl)
	flush()
	c05Malformed(c, nMal)
}
