package main

func c11Model(c *ctx, pool *c11Pool, cases []c11Case, outs []c11Outcome) {}
