package main

// C11 tie (b): correspondence of the modelled decoders and accessors.  The outcomes the workers
// produced for the search are compared with the Lean models (compiled driver) on outcome class and
// canonical value.  Cases whose implementation outcome is oom/timeout/... are not compared.

import (
	"bytes"
	"fmt"
	"math"
	"strconv"
	"strings"
)

// c11AuxOracle lists what the real strconv answers for the pieces of an aux text that sam.ParseAux
// may hand to it (std-lib results are parameters of the model).  ok=false: too many pieces.
func c11AuxOracle(text []byte) (string, bool) {
	if len(text) < 5 {
		return "-", true
	}
	txt := text[5:]
	var ents []string
	seen := map[string]bool{}
	add := func(kind string, key []byte, val string) {
		e := kind + ":" + hexs(key)
		if !seen[e] {
			seen[e] = true
			ents = append(ents, e+"="+val)
		}
	}
	intv := func(v int64, err error) string {
		if err != nil {
			return "e"
		}
		return strconv.FormatInt(v, 10)
	}
	uintv := func(v uint64, err error) string {
		if err != nil {
			return "e"
		}
		return strconv.FormatUint(v, 10)
	}
	floatv := func(s string) string {
		f, err := strconv.ParseFloat(s, 32)
		if err != nil {
			return "e"
		}
		return strconv.FormatUint(uint64(math.Float32bits(float32(f))), 10)
	}
	switch text[3] {
	case 'i':
		v, err := strconv.Atoi(string(txt))
		add("a", txt, intv(int64(v), err))
	case 'f':
		add("f", txt, floatv(string(txt)))
	case 'B':
		if len(txt) >= 2 {
			nf := bytes.Split(txt[2:], []byte{','})
			if len(nf) > 300 {
				return "", false
			}
			for _, n := range nf {
				s := string(n)
				switch txt[0] {
				case 'c':
					add("i8", n, intv(strconv.ParseInt(s, 0, 8)))
				case 'C':
					add("u8", n, uintv(strconv.ParseUint(s, 0, 8)))
				case 's':
					add("i16", n, intv(strconv.ParseInt(s, 0, 16)))
				case 'S':
					add("u16", n, uintv(strconv.ParseUint(s, 0, 16)))
				case 'i':
					add("i32", n, intv(strconv.ParseInt(s, 0, 32)))
				case 'I':
					add("u32", n, uintv(strconv.ParseUint(s, 0, 32)))
				case 'f':
					add("f", n, floatv(s))
				}
			}
		}
	}
	if len(ents) == 0 {
		return "-", true
	}
	return strings.Join(ents, ";"), true
}

func c11ImplLine(o c11Outcome, canon string) string {
	switch o.D {
	case "ok":
		return strings.TrimSpace("ok " + canon)
	case "err":
		return "err"
	case "panic":
		return "panic"
	}
	return o.D
}

func c11Model(c *ctx, pool *c11Pool, cases []c11Case, outs []c11Outcome) {
	res := c.res
	d := c.drv()
	var impl []string
	for i, k := range cases {
		o := outs[i]
		switch o.D {
		case "ok", "err", "panic":
		default:
			if strings.HasPrefix(k.Decoder, "cram.") && k.Decoder != "cram.Reader" {
				res.hist("model:not-compared:" + k.Decoder + ":" + o.D)
			}
			if strings.HasPrefix(k.Decoder, "sam.Parse") || k.Decoder == "bam.parseAux" || k.Decoder == "bam.ReadIndex" || k.Decoder == "tabix.ReadFrom" || strings.HasSuffix(k.Decoder, "/raw") {
				res.hist("model:not-compared:" + o.D)
			}
			continue
		}
		if o.A == "timeout" || o.A == "oom" {
			continue
		}
		switch k.Decoder {
		case "sam.ParseCigar":
			d.add("c11.cigar %s", k.Hex)
			impl = append(impl, c11ImplLine(o, o.Canon))
			res.hist("model:sam.ParseCigar:" + o.D)
		case "sam.ParseAux":
			oracle, ok := c11AuxOracle(k.bytes())
			if !ok {
				res.hist("model:not-compared:oracle-too-large")
				continue
			}
			hx := k.Hex
			if hx == "" {
				hx = "-"
			}
			d.add("c11.aux %s %s", hx, oracle)
			impl = append(impl, c11ImplLine(o, o.Canon))
			res.hist("model:sam.ParseAux:" + o.D)
		case "bam.parseAux":
			if k.Raw == "" {
				continue
			}
			d.add("c11.bamaux %s", k.Raw)
			line := "panic"
			switch o.D {
			case "err":
				// the stream itself did not open: cannot happen for these inputs
				line = "stream-err"
			case "ok":
				// canon = "<aux lists of the records, ';'-separated> <class of the error that ended reading>"
				sp := strings.LastIndexByte(o.Canon, ' ')
				recs, tail := o.Canon[:sp], o.Canon[sp+1:]
				switch {
				case recs == "" && tail == "err":
					line = "err"
				case recs != "" && !strings.Contains(recs, ";"):
					line = "ok " + recs
				default:
					line = "unexpected:" + o.Canon
				}
			}
			impl = append(impl, line)
			res.hist("model:bam.parseAux:" + strings.SplitN(line, " ", 2)[0])
		case "bam.ReadIndex":
			if len(k.Hex) > 8000 {
				continue
			}
			d.add("c11.bai %s", hexs(k.bytes()))
			impl = append(impl, c11ImplLine(o, o.Canon))
			res.hist("model:bam.ReadIndex:" + o.D)
		case "tabix.ReadFrom":
			if len(k.Hex) > 8000 {
				continue
			}
			d.add("c11.tbi %s", hexs(k.bytes()))
			impl = append(impl, c11ImplLine(o, o.Canon))
			res.hist("model:tabix.ReadFrom:" + o.D)
		case "cram.definition", "cram.Container", "cram.Block", "cram.Block.Value", "cram.Block.Value/rawsize":
			if line, ok := c11CramModelLine(d, k, o); ok {
				impl = append(impl, line)
				res.hist("model:" + k.Decoder + ":" + o.D)
			}
		case "sam.Aux/raw":
			d.add("c11.auxsweep %s", hexs(k.bytes()))
			line := "ok"
			if o.A == "panic" {
				line = "panic"
			}
			impl = append(impl, line)
			res.hist("model:sam.Aux/raw:" + line)
		case "sam.Cigar/raw":
			if o.D != "ok" {
				continue
			}
			ops := o.Canon
			d.add("c11.cigarsweep 10 100 %s", ops)
			line := o.SCanon
			if o.A == "panic" {
				line = "panic"
			}
			impl = append(impl, line)
			res.hist("model:sam.Cigar/raw:" + strings.SplitN(fmt.Sprint(line), " ", 2)[0])
		}
	}
	d.compare(res, "c11.model", impl)
}
