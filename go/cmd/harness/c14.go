package main

// C14 — cache implementations honour the Cache contract, sequentially and concurrently.
//
// Streams
//   seq     exhaustive sequential histories over 3 bases x capacities 1..3 (fresh block per Put, blocks never
//           mutated), every kind; after every operation Len, Cap and Peek of all bases are observed.
//   reader  random long histories in "reader style": the client owns a pool of blocks, Puts owned blocks,
//           owns what Get/eviction hands back and overwrites (VerifSetBase) blocks it owns.
//   edge    capacities < 1 via Resize (outside the property's quantifier; correspondence only).
//   conc    2..4 goroutines on one cache, invocation/response stamps, linearization searched by the driver.
// Oracle (does not use the Lean model): a monitor fed only with the observed results (which blocks were
// retained / handed back / have disappeared) checks the clauses of the property directly.

import (
	"bytes"
	"encoding/json"
	"fmt"
	"os"
	"os/exec"
	"sort"
	"strconv"
	"strings"
	"sync"
	"sync/atomic"
	"time"

	"github.com/biogo/hts/bgzf"
	"github.com/biogo/hts/bgzf/cache"
)

func init() { checks["C14"] = checkC14 }

type c14Input struct {
	Mode string     `json:"mode"` // seq | reader | edge | conc | conc-recorded
	Kind string     `json:"kind"` // L F R SL SF SR
	Cap  int        `json:"cap"`
	Ops  []string   `json:"ops,omitempty"`
	Pre  []string   `json:"pre,omitempty"`  // conc: sequential set-up
	Thr  [][]string `json:"thr,omitempty"`  // conc: per-goroutine operations
	Line string     `json:"line,omitempty"` // conc-recorded: the recorded history as sent to the driver
}

var c14KindName = map[string]string{"L": "LRU", "F": "FIFO", "R": "Random", "SL": "Stats(LRU)", "SF": "Stats(FIFO)", "SR": "Stats(Random)"}

const c14CallTimeout = 1500 * time.Millisecond

func c14New(kind string, n int) (bgzf.Cache, cache.Cache, *cache.StatsRecorder) {
	var in cache.Cache
	switch strings.TrimPrefix(kind, "S") {
	case "L":
		in = cache.NewLRU(n)
	case "F":
		in = cache.NewFIFO(n)
	case "R":
		in = cache.NewRandom(n)
	}
	if strings.HasPrefix(kind, "S") {
		s := &cache.StatsRecorder{Cache: in}
		return s, in, s
	}
	return in, in, nil
}

// c14Env is the per-goroutine part of a run: its own Result (merged at the end), the operations already seen
// to hang on this tree, and a persistent watchdog worker (a fresh goroutine and timer per history is too slow
// for millions of histories; after a time-out the worker is abandoned).
type c14Env struct {
	c     *ctx
	res   *Result
	hangs map[string]bool // kind+op -> true; histories containing such an operation are skipped afterwards
	w     *c14Worker
	timer *time.Timer
	batch c14Batch
	pool  c14Pool
}

type c14Worker struct {
	req  chan func()
	done chan callOutcome
}

func newC14Env(c *ctx, res *Result) *c14Env {
	e := &c14Env{c: c, res: res, hangs: map[string]bool{}}
	e.batch.e = e
	return e
}

func (e *c14Env) guard(d time.Duration, prog *int32, f func()) callOutcome {
	if e.w == nil {
		w := &c14Worker{req: make(chan func()), done: make(chan callOutcome, 1)}
		go func() {
			for f := range w.req {
				w.done <- guard(f)
			}
		}()
		e.w = w
	}
	if e.timer == nil {
		e.timer = time.NewTimer(d)
	} else {
		e.timer.Reset(d)
	}
	e.w.req <- f
	// a hang = no progress of the operation index over two consecutive watchdog periods (a loaded machine can
	// stall a whole process for a while; a dead-locked call never moves again)
	last, strikes := atomic.LoadInt32(prog), 0
	for {
		select {
		case o := <-e.w.done:
			if !e.timer.Stop() {
				select {
				case <-e.timer.C:
				default:
				}
			}
			return o
		case <-e.timer.C:
			cur := atomic.LoadInt32(prog)
			if cur != last {
				last, strikes = cur, 0
			} else {
				strikes++
			}
			if strikes >= 2 {
				e.w = nil
				return callOutcome{timedOut: true}
			}
			e.timer.Reset(d)
		}
	}
}

func (e *c14Env) close() {
	if e.w != nil {
		close(e.w.req)
		e.w = nil
	}
}

// mergeInto adds this environment's counts, failures and disagreements to dst.
func (e *c14Env) mergeInto(dst *Result) {
	src := e.res
	if src == dst {
		return
	}
	dst.Evaluations += src.Evaluations
	dst.Distinct += src.Distinct
	dst.ModelOps += src.ModelOps
	dst.TracesValidated += src.TracesValidated
	for k, v := range src.Histogram {
		dst.Histogram[k] += v
	}
	for _, f := range src.Failures {
		dst.fail(f.Signature, f.What, f.Input)
	}
	dst.NFailures += src.NFailures - len(src.Failures)
	for _, d := range src.Disagreements {
		dst.disagree(d.Stream, d.Op, d.Impl, d.Model)
	}
	dst.NDisagreements += src.NDisagreements - len(src.Disagreements)
	for _, x := range src.Samples {
		dst.sample(x)
	}
	dst.Notes = append(dst.Notes, src.Notes...)
}

type c14Held struct {
	id   int
	base int64
	used bool
	seq  int
}

// c14Run is one cache plus the harness-side bookkeeping.
type c14Run struct {
	kind   string
	c      bgzf.Cache
	in     cache.Cache
	rec    *cache.StatsRecorder
	blocks []bgzf.Block
	idOf   map[bgzf.Block]int
	bases  map[int64]bool
	owned  map[int]bool
	// monitor (oracle state; fed with observed results only)
	capNow int
	held   []c14Held
	seq    int
	// outputs
	dtoks []string // driver tokens
	impl  []string // implementation results
	fails []Failure
	prog  int32 // index of the operation in progress (read by the watchdog)
	stop  bool
	loose bool
	pool  *c14Pool
	// what the recorder should have counted, from the observed results
	nGets, nMiss, nPuts, nRet, nEv int
}

// c14Pool recycles verif blocks between histories: a bgzf block carries a 64 KiB array, and allocating a fresh
// one for each of millions of Puts costs more than everything else together.  A block is only handed out again
// after the history (and the cache) that used it is finished.  The used flag cannot be changed after
// construction, hence two free lists.
type c14Pool struct {
	free [2][]bgzf.Block
	out  [2][]bgzf.Block
}

func (p *c14Pool) get(base int64, used bool) bgzf.Block {
	u := b2i(used)
	var b bgzf.Block
	if n := len(p.free[u]); n > 0 {
		b = p.free[u][n-1]
		p.free[u] = p.free[u][:n-1]
		bgzf.VerifSetBase(b, base)
	} else {
		b = bgzf.NewVerifBlock(base, used, base+100)
	}
	p.out[u] = append(p.out[u], b)
	return b
}

func (p *c14Pool) releaseAll() {
	for u := 0; u < 2; u++ {
		p.free[u] = append(p.free[u], p.out[u]...)
		p.out[u] = p.out[u][:0]
	}
}

func newC14Run(e *c14Env, kind string, n int) *c14Run {
	r := &c14Run{kind: kind, idOf: map[bgzf.Block]int{}, bases: map[int64]bool{}, owned: map[int]bool{}, capNow: n}
	e.pool.releaseAll()
	r.pool = &e.pool
	r.c, r.in, r.rec = c14New(kind, n)
	return r
}

func (r *c14Run) base(b bgzf.Block) int64 { return b.Base() }

func (r *c14Run) emit(tok, res string) {
	r.dtoks = append(r.dtoks, tok)
	r.impl = append(r.impl, res)
}

// c14Loose are the clauses that need no bookkeeping of which block is held under which key.  Once a block is indexed
// while its owner may overwrite it (FIFO.Get kept it; or the history overwrites indexed blocks on purpose) the same
// block can be indexed under two keys and only these are judged; the correspondence with the model goes on in full.
var c14Loose = map[string]bool{"len-gt-cap": true, "len-vs-peek": true, "get.wrong-base": true, "cap": true,
	"peek-vs-get": true, "peek-miss-next": true, "stats": true, "put.refused-other": true, "free.slots": true}

func (r *c14Run) failf(sig, format string, a ...interface{}) {
	if r.loose && !c14Loose[sig] {
		return
	}
	r.fails = append(r.fails, Failure{Signature: "c14." + c14KindName[r.kind] + "." + sig, What: fmt.Sprintf(format, a...)})
}

func (r *c14Run) newBlock(id int, base int64, used bool) {
	for len(r.blocks) <= id {
		r.blocks = append(r.blocks, nil)
	}
	b := r.pool.get(base, used)
	r.blocks[id] = b
	r.idOf[b] = id
	r.bases[base] = true
	r.owned[id] = true
	r.emit(fmt.Sprintf("b%d,%d,%d,%d", id, base, b2i(used), base+100), ".")
}

func b2i(b bool) int {
	if b {
		return 1
	}
	return 0
}

func (r *c14Run) sortedBases() []int64 {
	var bs []int64
	for b := range r.bases {
		bs = append(bs, b)
	}
	sort.Slice(bs, func(i, j int) bool { return bs[i] < bs[j] })
	return bs
}

func (r *c14Run) heldIdx(id int) int {
	for i, h := range r.held {
		if h.id == id {
			return i
		}
	}
	return -1
}

func (r *c14Run) heldByBase(base int64) int {
	for i, h := range r.held {
		if h.base == base {
			return i
		}
	}
	return -1
}

func (r *c14Run) dropHeld(i int) { r.held = append(r.held[:i:i], r.held[i+1:]...) }

// victimsAfter compares the monitor's held set with what Peek still reports and returns the ids that
// have left the cache (removing them from the monitor).
func (r *c14Run) victimsAfter() []int {
	var gone []int
	var keep []c14Held
	for _, h := range r.held {
		if ok, _ := r.c.Peek(h.base); ok {
			keep = append(keep, h)
		} else {
			gone = append(gone, h.id)
		}
	}
	r.held = keep
	return gone
}

func joinInts(xs []int) string {
	s := ""
	for _, x := range xs {
		s += "," + strconv.Itoa(x)
	}
	return s
}

// checkDropPolicy: the blocks that left are the ones the policy evicts next: unused ones first, then (LRU, FIFO)
// the oldest retained.
func (r *c14Run) checkDropPolicy(op string, before []c14Held, gone []int, want int) {
	if len(gone) != want {
		r.failf(op+".count", "%s removed %d blocks, expected %d", op, len(gone), want)
	}
	isGone := map[int]bool{}
	for _, g := range gone {
		isGone[g] = true
	}
	allGoneUnused, allUnusedGone := true, true
	maxGoneUsed, minKeptUsed := -1, 1<<30
	for _, h := range before {
		if isGone[h.id] {
			if h.used {
				allGoneUnused = false
				if h.seq > maxGoneUsed {
					maxGoneUsed = h.seq
				}
			}
		} else {
			if !h.used {
				allUnusedGone = false
			} else if h.seq < minKeptUsed {
				minKeptUsed = h.seq
			}
		}
	}
	if !allGoneUnused && !allUnusedGone {
		r.failf(op+".policy.unused-first", "%s removed a used block while an unused block stayed", op)
	}
	if r.kind != "R" && r.kind != "SR" && maxGoneUsed > minKeptUsed {
		r.failf(op+".policy.order", "%s removed a used block that was inserted after one that stayed", op)
	}
}

// invariants observed after every operation
func (r *c14Run) observe(full bool) {
	ln, cp := r.in.Len(), r.in.Cap()
	if cp != r.capNow {
		r.failf("cap", "Cap() = %d, stated capacity %d", cp, r.capNow)
	}
	if r.capNow >= 1 && ln > cp {
		r.failf("len-gt-cap", "Len() = %d > Cap() = %d", ln, cp)
	}
	n := 0
	for _, b := range r.sortedBases() {
		ok, nx := r.c.Peek(b)
		if ok {
			n++
		}
		if full {
			r.emit(fmt.Sprintf("k%d", b), fmt.Sprintf("%d,%d", b2i(ok), nx))
		}
	}
	if n != ln {
		r.failf("len-vs-peek", "Len() = %d but Peek is true for %d bases", ln, n)
	}
	if ln != len(r.held) {
		r.failf("len-vs-held", "Len() = %d but %d blocks were retained and not handed back", ln, len(r.held))
	}
	if full {
		r.emit("l", strconv.Itoa(ln))
		r.emit("c", strconv.Itoa(cp))
		r.stats()
	}
}

// stats reads the recorder's counters, compares them with what was observed, and queues the model line.
func (r *c14Run) stats() {
	if r.rec == nil {
		return
	}
	s := r.rec.Stats()
	r.emit("s", fmt.Sprintf("%d,%d,%d,%d,%d", s.Gets, s.Misses, s.Puts, s.Retains, s.Evictions))
	if s.Gets != r.nGets || s.Misses != r.nMiss || s.Puts != r.nPuts || s.Retains != r.nRet || s.Evictions != r.nEv {
		r.failf("stats", "Stats() = %+v after %d Gets (%d nil), %d Puts (%d retained, %d with a block handed back)", s, r.nGets, r.nMiss, r.nPuts, r.nRet, r.nEv)
	}
}

// op executes one harness operation:
//
//	P<base>,<used>  Put a fresh block        n<id>,<base>,<used>  allocate   w<id>,<base>  overwrite an owned block
//	p<id> Put   g<base> Get   k<base> Peek   l c s   r<n> d<n> f<n>
func (r *c14Run) op(tok string, readerStyle bool) {
	a := strings.Split(tok[1:], ",")
	num := func(i int) int {
		v, _ := strconv.Atoi(a[i])
		return v
	}
	lstyle := r.kind != "R" && r.kind != "SR"
	switch tok[0] {
	case 'n':
		r.newBlock(num(0), int64(num(1)), num(2) != 0)
	case 'w':
		id := num(0)
		b := r.blocks[id]
		bgzf.VerifSetBase(b, int64(num(1)))
		r.bases[int64(num(1))] = true
		r.emit(fmt.Sprintf("b%d,%d,%d,%d", id, b.Base(), b2i(b.Used()), b.NextBase()), ".")
	case 'W':
		// overwrite the base of ANY block made so far, indexed by a cache or not (not reader style: the property
		// promises nothing about the bases Get returns then, but Len <= Cap, Peek/Len/Get consistency and the
		// eviction order must survive)
		if len(r.blocks) == 0 {
			break
		}
		id := num(0) % len(r.blocks)
		b := r.blocks[id]
		r.loose = true
		bgzf.VerifSetBase(b, int64(num(1)))
		r.bases[int64(num(1))] = true
		r.emit(fmt.Sprintf("b%d,%d,%d,%d", id, b.Base(), b2i(b.Used()), b.NextBase()), ".")
	case 'P', 'p', 'q':
		var id int
		switch tok[0] {
		case 'P':
			id = len(r.blocks)
			r.newBlock(id, int64(num(0)), num(1) != 0)
		case 'p':
			id = num(0)
		case 'q':
			// reader style: q<sel>,<base>,<mode>: mode 0 (or nothing owned) = a new block; otherwise an owned
			// block chosen by sel, with mode 1 first recycled for another member (base overwritten)
			var ids []int
			for i := range r.owned {
				ids = append(ids, i)
			}
			sort.Ints(ids)
			sel, base, mode := num(0), int64(num(1)), num(2)
			if len(ids) == 0 || mode == 0 {
				id = len(r.blocks)
				r.newBlock(id, base, (sel/7)%4 != 0)
			} else {
				id = ids[sel%len(ids)]
				if mode == 1 {
					b := r.blocks[id]
					bgzf.VerifSetBase(b, base)
					r.bases[base] = true
					r.emit(fmt.Sprintf("b%d,%d,%d,%d", id, b.Base(), b2i(b.Used()), b.NextBase()), ".")
				}
			}
		}
		b := r.blocks[id]
		lenBefore := r.in.Len()
		dup, _ := r.c.Peek(b.Base())
		ev, kept := r.c.Put(b)
		r.nPuts++
		if kept {
			r.nRet++
			if ev != nil {
				r.nEv++
			}
		}
		res := ""
		switch {
		case !kept && ev == b:
			res = "r"
		case !kept:
			res = "r?"
			r.failf("put.refused-other", "Put returned (%v,false) with a block other than the one put", ev != nil)
		case ev == nil:
			res = "k-"
		default:
			res = fmt.Sprintf("k%d", r.idOf[ev])
		}
		hint := ""
		if kept && ev != nil {
			hint = "," + strconv.Itoa(r.idOf[ev])
		}
		r.emit(fmt.Sprintf("p%d%s", id, hint), res)
		// oracle
		if lenBefore >= r.capNow && r.capNow >= 1 && !b.Used() && kept {
			r.failf("put.full-accepts-unused", "full cache retained an unused block")
		}
		if dup && kept {
			r.failf("put.dup-retained", "Put retained a second block for a base already held")
		}
		if kept {
			delete(r.owned, id)
			if ev != nil {
				vid := r.idOf[ev]
				r.owned[vid] = true
				// a block can be indexed under two keys (FIFO hands it out and keeps it): the entry that left
				i := -1
				for j, h := range r.held {
					if h.id == vid {
						if still, _ := r.c.Peek(h.base); !still {
							i = j
							break
						}
					}
				}
				if i < 0 {
					i = r.heldIdx(vid)
				}
				if i < 0 {
					r.failf("put.evicted-unknown", "Put handed back block %d which the cache was not holding", vid)
				} else {
					v := r.held[i]
					anyUnused := false
					minSeq := 1 << 30
					for _, h := range r.held {
						if !h.used {
							anyUnused = true
						}
						if h.seq < minSeq {
							minSeq = h.seq
						}
					}
					if lenBefore < r.capNow {
						r.failf("put.evict-not-full", "Put evicted a block although the cache was not full")
					}
					if anyUnused && v.used {
						r.failf("put.policy.unused-first", "a used block was evicted while an unused block was held")
					}
					if lstyle && !anyUnused && v.seq != minSeq {
						r.failf("put.policy.order", "evicted block %d is not the oldest retained block", vid)
					}
					r.dropHeld(i)
				}
			} else if lenBefore >= r.capNow && r.capNow >= 1 {
				r.failf("put.full-no-eviction", "full cache retained a block without evicting")
			}
			r.seq++
			r.held = append(r.held, c14Held{id, b.Base(), b.Used(), r.seq})
		}
	case 'g':
		k := int64(num(0))
		r.bases[k] = true
		pk, pnx := r.c.Peek(k)
		b := r.c.Get(k)
		r.nGets++
		if b == nil {
			r.nMiss++
		}
		if b == nil {
			r.emit(tok, "-")
		} else {
			r.emit(tok, strconv.Itoa(r.idOf[b]))
		}
		if pk != (b != nil) {
			r.failf("peek-vs-get", "Peek(%d) = %v but Get returned %v", k, pk, b != nil)
		}
		if b != nil {
			if pk && pnx != b.NextBase() {
				r.failf("peek-next", "Peek(%d) next = %d, block's NextBase = %d", k, pnx, b.NextBase())
			}
			if b.Base() != k && readerStyle {
				r.failf("get.wrong-base", "Get(%d) returned a block with base %d", k, b.Base())
			}
			id := r.idOf[b]
			still, _ := r.c.Peek(k)
			if i := r.heldByBase(k); i >= 0 && !still {
				r.dropHeld(i)
			}
			if readerStyle {
				r.owned[id] = true
				if still {
					// The contract says the returned block is removed (the caller now owns it); this cache kept it
					// indexed.  The history goes on as the reader would (offer it back, recycle it when refused …):
					// only so can a wrong base or Len() > Cap() be seen.
					r.loose = true
				}
			}
		}
	case 'k':
		k := int64(num(0))
		r.bases[k] = true
		ok, nx := r.c.Peek(k)
		r.emit(tok, fmt.Sprintf("%d,%d", b2i(ok), nx))
		if i := r.heldByBase(k); ok != (i >= 0) {
			r.failf("peek-vs-held", "Peek(%d) = %v but the block was %sretained", k, ok, map[bool]string{true: "", false: "not "}[i >= 0])
		} else if ok && nx != r.blocks[r.held[i].id].NextBase() {
			r.failf("peek-next", "Peek(%d) next = %d, held block's NextBase = %d", k, nx, r.blocks[r.held[i].id].NextBase())
		}
		if !ok && nx != -1 {
			r.failf("peek-miss-next", "Peek miss returned next = %d", nx)
		}
	case 'l':
		r.emit("l", strconv.Itoa(r.in.Len()))
	case 'c':
		r.emit("c", strconv.Itoa(r.in.Cap()))
	case 's':
		r.stats()
	case 'd', 'r', 'f':
		n := num(0)
		before := append([]c14Held{}, r.held...)
		lenBefore := r.in.Len()
		var ok bool
		name := map[byte]string{'d': "drop", 'r': "resize", 'f': "free"}[tok[0]]
		switch tok[0] {
		case 'd':
			r.in.Drop(n)
		case 'r':
			r.in.Resize(n)
			r.capNow = n
		case 'f':
			ok = cache.Free(n, r.in)
		}
		gone := r.victimsAfter()
		v := ""
		if !lstyle {
			v = joinInts(gone)
		}
		res := "."
		if tok[0] == 'f' {
			res = map[bool]string{true: "t", false: "f"}[ok]
		}
		r.emit(fmt.Sprintf("%c%d%s", tok[0], n, v), res)
		// post-conditions
		want := 0
		switch tok[0] {
		case 'd':
			want = imin(imax(n, 0), lenBefore)
		case 'r':
			want = imax(lenBefore-imax(n, 0), 0)
		case 'f':
			free := r.capNow - lenBefore
			if n > free {
				want = imin(n-free, lenBefore)
			}
			if ok != (n <= r.capNow) && r.capNow >= 1 {
				r.failf("free.result", "Free(%d) = %v with capacity %d", n, ok, r.capNow)
			}
			if ok && r.in.Cap()-r.in.Len() < n {
				r.failf("free.slots", "Free(%d) reported success but only %d slots are free", n, r.in.Cap()-r.in.Len())
			}
		}
		if r.capNow >= 1 || tok[0] != 'r' {
			r.checkDropPolicy(name, before, gone, want)
		}
		if r.in.Len() != lenBefore-len(gone) {
			r.failf(name+".len", "Len() = %d after %s, %d before, %d blocks gone", r.in.Len(), name, lenBefore, len(gone))
		}
	}
}

func imin(a, b int) int {
	if a < b {
		return a
	}
	return b
}
func imax(a, b int) int {
	if a > b {
		return a
	}
	return b
}

// c14Seq runs one sequential history under a watchdog.  It returns the run (nil after a hang).
func c14Seq(e *c14Env, in c14Input, observeFull bool) *c14Run {
	res := e.res
	for _, t := range in.Ops {
		if e.hangs[in.Kind+string(t[0])] {
			res.hist("skipped: contains an operation already seen to hang")
			return nil
		}
	}
	r := newC14Run(e, in.Kind, in.Cap)
	readerStyle := in.Mode == "reader"
	r.loose = in.Mode == "abuse"
	o := e.guard(c14CallTimeout, &r.prog, func() {
		for i, t := range in.Ops {
			atomic.StoreInt32(&r.prog, int32(i))
			r.op(t, readerStyle)
			if r.stop {
				break
			}
			if in.Mode != "edge" || r.capNow >= 1 {
				r.observe(observeFull)
			}
		}
		atomic.StoreInt32(&r.prog, int32(len(in.Ops)))
	})
	kn := c14KindName[in.Kind]
	if o.timedOut {
		e.pool.out = [2][]bgzf.Block{} // still referenced by the abandoned goroutine
		i := imin(int(atomic.LoadInt32(&r.prog)), len(in.Ops)-1)
		t := in.Ops[i]
		name := map[byte]string{'d': "drop", 'r': "resize", 'f': "free", 'p': "put", 'P': "put", 'g': "get", 'k': "peek"}[t[0]]
		if name == "" {
			name = string(t[0])
		}
		e.hangs[in.Kind+string(t[0])] = true
		in.Ops = in.Ops[:i+1]
		res.fail("c14."+kn+"."+name+".hang", fmt.Sprintf("operation %d (%s) of the history did not return within %v", i, t, 2*c14CallTimeout), in)
		return nil
	}
	if o.panicked {
		i := int(atomic.LoadInt32(&r.prog))
		if in.Mode == "edge" {
			// capacity < 1: the model predicts the nil dereference; compared, not judged
			_ = i
			r.emit(fmt.Sprintf("p%d", len(r.blocks)-1), "P")
			return r
		}
		in.Ops = in.Ops[:imin(i+1, len(in.Ops))]
		res.fail("c14."+kn+".panic:"+topRepoFrame(o.stack), o.panicVal, in)
		return nil
	}
	if len(r.fails) > 0 {
		// report the history up to the operation at which it was stopped or first judged
		if i := int(atomic.LoadInt32(&r.prog)); r.stop && i+1 < len(in.Ops) {
			in.Ops = in.Ops[:i+1]
		}
	}
	for _, f := range r.fails {
		res.fail(f.Signature, f.What, in)
	}
	return r
}

// ---------------------------------------------------------------------------------------------------------
// concurrent histories

type c14COp struct {
	thr      int
	inv, res int64
	tok, obs string
}

func c14Conc(e *c14Env, in c14Input) (line string, ok bool) {
	res := e.res
	r := newC14Run(e, in.Kind, in.Cap)
	kn := c14KindName[in.Kind]
	var pre []string
	// blocks: every P token gets a fresh block, allocated up front (blocks are never mutated)
	type cop struct {
		tok string
		id  int
	}
	plan := make([][]cop, len(in.Thr))
	o := guardTimeout(c14CallTimeout, func() {
		for _, t := range in.Pre {
			r.op(t, false)
		}
	})
	if o.timedOut || o.panicked {
		e.pool.out = [2][]bgzf.Block{}
		return "", false
	}
	for i, ops := range in.Thr {
		for _, t := range ops {
			co := cop{tok: t}
			if t[0] == 'P' {
				a := strings.Split(t[1:], ",")
				b, _ := strconv.Atoi(a[0])
				u, _ := strconv.Atoi(a[1])
				co.id = len(r.blocks)
				r.newBlock(co.id, int64(b), u != 0)
			}
			plan[i] = append(plan[i], co)
		}
	}
	pre = append(pre, r.dtoks...)
	var clock int64
	var mu sync.Mutex
	var all []c14COp
	start := make(chan struct{})
	var wg sync.WaitGroup
	arrived := make([]int32, 16)
	need := make([]int32, 16)
	for _, ops := range plan {
		for round := range ops {
			need[round]++
		}
	}
	var putKept, gotBack int64
	seen := sync.Map{}
	dupGet := int32(0)
	for i := range plan {
		wg.Add(1)
		go func(i int) {
			defer wg.Done()
			var mine []c14COp
			<-start
			for round, co := range plan[i] {
				// spin barrier per round so that the goroutines' operations really overlap
				atomic.AddInt32(&arrived[round], 1)
				for spin := 0; atomic.LoadInt32(&arrived[round]) < need[round] && spin < 60000; spin++ {
				}
				a := strings.Split(co.tok[1:], ",")
				n, _ := strconv.Atoi(a[0])
				var tok, obs string
				inv := atomic.AddInt64(&clock, 1)
				switch co.tok[0] {
				case 'P':
					b := r.blocks[co.id]
					ev, kept := r.c.Put(b)
					tok = fmt.Sprintf("p%d", co.id)
					switch {
					case !kept:
						obs = "r"
					case ev == nil:
						obs = "k-"
						atomic.AddInt64(&putKept, 1)
					default:
						obs = fmt.Sprintf("k%d", r.idOf[ev])
						atomic.AddInt64(&putKept, 1)
						atomic.AddInt64(&gotBack, 1)
						if _, dup := seen.LoadOrStore(r.idOf[ev], true); dup {
							atomic.StoreInt32(&dupGet, 1)
						}
					}
				case 'g':
					b := r.c.Get(int64(n))
					tok = co.tok
					if b == nil {
						obs = "-"
					} else {
						obs = strconv.Itoa(r.idOf[b])
						atomic.AddInt64(&gotBack, 1)
						if !(strings.HasSuffix(in.Kind, "F") && b.Used()) {
							if _, dup := seen.LoadOrStore(r.idOf[b], true); dup {
								atomic.StoreInt32(&dupGet, 1)
							}
						}
					}
				case 'k':
					e, nx := r.c.Peek(int64(n))
					tok, obs = co.tok, fmt.Sprintf("%d,%d", b2i(e), nx)
				case 'l':
					tok, obs = "l", strconv.Itoa(r.in.Len())
				case 'c':
					tok, obs = "c", strconv.Itoa(r.in.Cap())
				case 's':
					s := r.rec.Stats()
					tok, obs = "s", fmt.Sprintf("%d,%d,%d,%d,%d", s.Gets, s.Misses, s.Puts, s.Retains, s.Evictions)
				case 'd':
					r.in.Drop(n)
					tok, obs = co.tok, "."
				case 'r':
					r.in.Resize(n)
					tok, obs = co.tok, "."
				case 'f':
					tok, obs = co.tok, map[bool]string{true: "t", false: "f"}[cache.Free(n, r.in)]
				}
				rs := atomic.AddInt64(&clock, 1)
				mine = append(mine, c14COp{i, inv, rs, tok, obs})
			}
			mu.Lock()
			all = append(all, mine...)
			mu.Unlock()
		}(i)
	}
	o = guardTimeout(c14CallTimeout, func() { close(start); wg.Wait() })
	if o.timedOut {
		e.pool.out = [2][]bgzf.Block{}
		for _, ops := range in.Thr {
			for _, t := range ops {
				if t[0] == 'd' || t[0] == 'r' || t[0] == 'f' {
					e.hangs[in.Kind+string(t[0])] = true
				}
			}
		}
		res.fail("c14."+kn+".concurrent.hang", fmt.Sprintf("%d goroutines did not finish within %v", len(in.Thr), c14CallTimeout), in)
		return "", false
	}
	if o.panicked {
		res.fail("c14."+kn+".concurrent.panic:"+topRepoFrame(o.stack), o.panicVal, in)
		return "", false
	}
	sort.Slice(all, func(i, j int) bool { return all[i].inv < all[j].inv })
	overlap := false
	for i := range all {
		for j := range all {
			if all[i].thr != all[j].thr && all[i].inv < all[j].res && all[j].inv < all[i].res {
				overlap = true
			}
		}
	}
	if overlap {
		res.hist("conc: history with overlapping operations")
	} else {
		res.hist("conc: history without overlap (sequential by chance)")
	}
	// model-independent consequence of atomicity: no block is handed out twice
	if dupGet != 0 {
		res.fail("c14."+kn+".concurrent.block-handed-out-twice", "two operations received the same block", in)
	}
	var sb strings.Builder
	fmt.Fprintf(&sb, "c14.lin %s %d %s |", in.Kind, in.Cap, strings.Join(pre, " "))
	for _, o := range all {
		fmt.Fprintf(&sb, " %d:%d:%d:%s=%s", o.thr, o.inv, o.res, o.tok, o.obs)
	}
	return sb.String(), true
}

// ---------------------------------------------------------------------------------------------------------

func c14Alphabet(reduced bool, recorder bool) []string {
	var a []string
	for _, b := range []int{0, 100, 200} {
		a = append(a, fmt.Sprintf("P%d,1", b), fmt.Sprintf("P%d,0", b), fmt.Sprintf("g%d", b))
	}
	if recorder {
		return a
	}
	// W0,300: the block made first is given another base, whether a cache indexes it or not
	if reduced {
		return append(a, "d1")
	}
	return append(a, "d1", "d2", "r1", "r2", "r3", "f1", "f2", "W0,300")
}

// runs a batch of histories: implementation in-process, model lines in driver processes
type c14Batch struct {
	e     *c14Env
	lines []string
	impl  []string
}

func (b *c14Batch) add(in c14Input, r *c14Run) {
	b.lines = append(b.lines, "c14.hist "+in.Kind+" "+strconv.Itoa(in.Cap)+" "+strings.Join(r.dtoks, " "))
	b.impl = append(b.impl, strings.Join(r.impl, " "))
}

// flush runs W driver processes over the queued lines and compares.
func (b *c14Batch) flush(stream string, W int) {
	res := b.e.res
	if len(b.lines) == 0 {
		return
	}
	chunk := (len(b.lines) + W - 1) / W
	outs := make([][]string, W)
	errs := make([]error, W)
	var wg sync.WaitGroup
	for w := 0; w < W; w++ {
		lo, hi := w*chunk, imin((w+1)*chunk, len(b.lines))
		if lo >= hi {
			continue
		}
		wg.Add(1)
		go func(w, lo, hi int) {
			defer wg.Done()
			d := b.e.c.drv()
			d.lines = b.lines[lo:hi]
			outs[w], errs[w] = d.run()
		}(w, lo, hi)
	}
	wg.Wait()
	for w := 0; w < W; w++ {
		lo := w * chunk
		if errs[w] != nil {
			res.disagree(stream, "(driver failure)", "", errs[w].Error())
			continue
		}
		for i, m := range outs[w] {
			res.ModelOps += strings.Count(m, " ") + 1
			if m != b.impl[lo+i] {
				// locate the first differing operation
				mi, ii := strings.Fields(m), strings.Fields(b.impl[lo+i])
				toks := strings.Fields(b.lines[lo+i])[3:]
				k := 0
				for k < len(mi) && k < len(ii) && mi[k] == ii[k] {
					k++
				}
				op, iv, mv := "(length)", fmt.Sprint(len(ii)), fmt.Sprint(len(mi))
				if k < len(mi) && k < len(ii) && k < len(toks) {
					op, iv, mv = fmt.Sprintf("op %d %s of %s", k, toks[k], b.lines[lo+i]), ii[k], mi[k]
				}
				res.disagree(stream, op, iv, mv)
			}
		}
	}
	b.lines, b.impl = nil, nil
}

func c14Nontrivial(ops []string) bool {
	// a history is non-trivial when it contains a Put and at least one later Get/Drop/Resize/Free or a second Put
	puts, later := 0, false
	for _, t := range ops {
		switch t[0] {
		case 'P', 'p', 'q':
			if puts > 0 {
				later = true
			}
			puts++
		case 'g', 'd', 'r', 'f':
			if puts > 0 {
				later = true
			}
		}
	}
	return later
}

// c14Enum runs ALL histories of length d over alpha for one (kind, capacity).
func c14Enum(e *c14Env, in c14Input, alpha []string, d int, tag string) {
	res := e.res
	ops := make([]string, d)
	n := 0
	var rec func(i int)
	rec = func(i int) {
		if i == d {
			in.Ops = append([]string{}, ops...)
			r := c14Seq(e, in, true)
			n++
			// all enumerated histories are distinct by construction: a short key suffices
			res.eval(tag+strconv.Itoa(n), c14Nontrivial(in.Ops))
			if r != nil {
				e.batch.add(in, r)
			}
			if len(e.batch.lines) >= 100000 {
				e.batch.flush("C14.seq", 2)
			}
			return
		}
		for _, t := range alpha {
			ops[i] = t
			rec(i + 1)
		}
	}
	rec(0)
}

func checkC14(c *ctx) {
	res := c.res
	res.Rule = "seq: ALL histories of the stated length (quick: 4 over the full alphabet, 5 over Put/Get/Drop(1); thorough: 5 and 6) over " +
		"{Put(fresh block, base in {0,100,200}, used/unused), Get(base), Drop(1,2), Resize(1,2,3), Free(1,2)} " +
		"x capacity 1..3 x {LRU,FIFO,Random} (StatsRecorder variants: Put/Get alphabet, Stats compared), Len/Cap/Peek(all bases) observed after every operation; " +
		"reader: random histories of 30-120 operations in reader style (owned blocks are Put, handed-back blocks are overwritten with VerifSetBase and re-used; cap+1..cap+3 bases, capacity 1..4); " +
		"abuse: the same generator with 1/8 of the calls replaced by overwriting the base of an arbitrary block, indexed or not (Len<=Cap, Peek/Len/Get consistency and eviction order judged; returned bases not judged); edge: capacity <= 0 through Resize (correspondence only); conc: 2..4 goroutines x 2-4 operations on one cache (spin barrier per round), linearization searched by the Lean driver. " +
		"A history is non-trivial when it contains a Put followed by another Put or by Get/Drop/Resize/Free; distinct = distinct (kind,capacity,operation list)."
	main := newC14Env(c, res)
	defer main.close()
	if os.Getenv("C14_CHILD") == "conc-replay" {
		var in c14Input
		if js, err := os.ReadFile(os.Getenv("C14_PROGRESS")); err == nil && json.Unmarshal(js, &in) == nil {
			// a schedule cannot be replayed exactly: run the same plan many times
			var lines []string
			var ins []c14Input
			for i := 0; i < 3000; i++ {
				if line, ok := c14Conc(main, in); ok {
					lines = append(lines, line)
					ins = append(ins, in)
				} else {
					break
				}
			}
			c14Lin(main, lines, ins)
		}
		return
	}
	if os.Getenv("C14_CHILD") == "conc" {
		for _, k := range strings.Split(os.Getenv("C14_HANGS"), ",") {
			if k != "" {
				main.hangs[k] = true
			}
		}
		c.rnd = newRand(c.seed ^ 0x5eed_c04c)
		c14ConcStream(c, main)
		return
	}
	if c.replay != "" {
		var in c14Input
		if err := loadReplay(c.replay, &in); err != nil {
			res.note("replay: %v", err)
			return
		}
		c14Replay(main, in)
		return
	}
	kinds := []string{"L", "F", "R"}
	t0 := time.Now()
	lap := func(what string) {
		res.note("%s: %.1fs", what, time.Since(t0).Seconds())
		t0 = time.Now()
	}

	// ---- liveness probe first: Drop / Resize / Free must return (DESIGN section 6 #5)
	for _, k := range kinds {
		for _, ops := range [][]string{{"d1"}, {"P0,1", "d1"}, {"P0,1", "P100,1", "r1"}, {"P0,1", "f2"}, {"r3", "P0,1"}} {
			in := c14Input{Mode: "seq", Kind: k, Cap: 2, Ops: ops}
			if r := c14Seq(main, in, true); r != nil {
				main.batch.add(in, r)
			}
			res.eval(fmt.Sprint("probe", k, ops), true)
			res.hist("probe: Drop/Resize/Free liveness")
		}
	}
	main.batch.flush("C14.probe", 1)
	lap("liveness probe")

	// ---- exhaustive sequential histories, one goroutine per (kind, capacity)
	depth, rdepth := 4, 5
	if c.thorough() {
		depth, rdepth = 5, 6
	}
	var envs []*c14Env
	var wg sync.WaitGroup
	sem := make(chan struct{}, 10)
	job := func(in c14Input, alpha []string, d int, tag string) {
		e := newC14Env(c, newResult(res.Property, res.Tier, res.Seed))
		for k, v := range main.hangs {
			e.hangs[k] = v
		}
		envs = append(envs, e)
		wg.Add(1)
		go func() {
			defer wg.Done()
			sem <- struct{}{}
			defer func() { <-sem }()
			c14Enum(e, in, alpha, d, tag)
			e.batch.flush("C14.seq", 2)
			e.close()
		}()
	}
	for _, k := range kinds {
		for cp := 1; cp <= 3; cp++ {
			job(c14Input{Mode: "seq", Kind: k, Cap: cp}, c14Alphabet(false, false), depth, fmt.Sprintf("%s%d/full/", k, cp))
			res.hist(fmt.Sprintf("seq: (kind,capacity) pairs enumerated exhaustively to length %d, full alphabet", depth))
			job(c14Input{Mode: "seq", Kind: k, Cap: cp}, c14Alphabet(true, false), rdepth, fmt.Sprintf("%s%d/red/", k, cp))
			res.hist(fmt.Sprintf("seq: (kind,capacity) pairs enumerated exhaustively to length %d, Put/Get/Drop(1)", rdepth))
		}
	}
	for _, k := range []string{"SL", "SF", "SR"} {
		for cp := 1; cp <= 2; cp++ {
			job(c14Input{Mode: "seq", Kind: k, Cap: cp}, c14Alphabet(false, true), depth, fmt.Sprintf("%s%d/rec/", k, cp))
			res.hist(fmt.Sprintf("seq: (recorder kind,capacity) pairs enumerated exhaustively to length %d, Put/Get", depth))
		}
	}
	wg.Wait()
	for _, e := range envs {
		e.mergeInto(res)
	}
	res.Exhaustive = true
	lap("exhaustive sequential histories")

	// ---- edge: capacity <= 0 (outside the quantifier of the property; model vs implementation only)
	for _, k := range kinds {
		for _, n := range []int{0, -1} {
			for _, u := range []int{0, 1} {
				in := c14Input{Mode: "edge", Kind: k, Cap: 2, Ops: []string{"P0,1", fmt.Sprintf("r%d", n), "l", "c", fmt.Sprintf("P100,%d", u), "l", "c", "P200,1", "l"}}
				if r := c14Seq(main, in, false); r != nil {
					main.batch.add(in, r)
				}
				res.eval(fmt.Sprint("edge", k, n, u), true)
				res.hist("edge: Resize to capacity < 1, then Put")
			}
		}
	}
	main.batch.flush("C14.edge", 1)

	// ---- reader-style random histories
	nReader := 20000
	if c.thorough() {
		nReader = 300000
	}
	// the witness of the recorded FIFO finding (Lean: fifo_get_returns_requested_base_witness) is replayed on the
	// implementation on every run; if it stops failing there, model and code have parted
	for _, k := range []string{"F", "SF"} {
		in := c14Input{Mode: "reader", Kind: k, Cap: 1, Ops: []string{"q7,0,0", "g0", "q0,0,2", "w0,100", "g0", "q7,200,0", "l"}}
		before := res.NFailures
		if r := c14Seq(main, in, false); r != nil {
			main.batch.add(in, r)
		}
		res.eval("witness"+k, true)
		res.hist("reader: witness of the FIFO finding")
		if res.NFailures == before && !main.hangs[k+"g"] {
			res.disagree("C14.witness", strings.Join(in.Ops, " "), "Get(0) after recycling no longer returns a block of another base",
				"theorem fifo_get_returns_requested_base_witness says it does")
		}
	}
	for i := 0; i < nReader; i++ {
		in := c14GenReader(c.rnd)
		r := c14Seq(main, in, false)
		res.eval(in.Kind+fmt.Sprint(in.Cap)+strings.Join(in.Ops, " "), c14Nontrivial(in.Ops))
		res.hist("reader: " + c14KindName[in.Kind])
		if i < 2 {
			res.sample(in)
		}
		if r != nil {
			main.batch.add(in, r)
			res.hist(fmt.Sprintf("reader: history length %d-%d", len(r.dtoks)/40*40, len(r.dtoks)/40*40+39))
		}
	}
	main.batch.flush("C14.reader", 8)
	lap("reader-style histories")

	// ---- large capacities (seed C14-7: Random's bounded victim search behaves as before up to 17 entries):
	// capacities 18, 32, 64, full most of the time, few unused blocks among many used ones
	nLarge := 360
	if c.thorough() {
		nLarge = 6000
	}
	for i := 0; i < nLarge; i++ {
		in := c14GenLarge(c.rnd)
		r := c14Seq(main, in, false)
		res.eval(in.Kind+fmt.Sprint(in.Cap)+strings.Join(in.Ops, " "), c14Nontrivial(in.Ops))
		res.hist(fmt.Sprintf("large capacity %d: %s", in.Cap, c14KindName[in.Kind]))
		if i < 1 {
			res.sample(in)
		}
		if r != nil {
			main.batch.add(in, r)
		}
	}
	main.batch.flush("C14.large", 8)
	lap("large-capacity histories")

	// ---- histories in which blocks are overwritten while a cache indexes them (not reader style)
	nAbuse := 8000
	if c.thorough() {
		nAbuse = 120000
	}
	for i := 0; i < nAbuse; i++ {
		in := c14GenReader(c.rnd)
		in.Mode = "abuse"
		for j := range in.Ops {
			if c.rnd.coin(1, 8) {
				in.Ops[j] = fmt.Sprintf("W%d,%d", c.rnd.intn(1000), 100*c.rnd.intn(in.Cap+3))
			}
		}
		r := c14Seq(main, in, false)
		res.eval(in.Kind+fmt.Sprint(in.Cap)+strings.Join(in.Ops, " "), c14Nontrivial(in.Ops))
		res.hist("overwrite-while-indexed: " + c14KindName[in.Kind])
		if i < 1 {
			res.sample(in)
		}
		if r != nil {
			main.batch.add(in, r)
		}
	}
	main.batch.flush("C14.abuse", 8)
	lap("overwrite-while-indexed histories")

	// ---- concurrent histories, in a child process: a data race inside a cache makes the Go runtime abort
	// ("fatal error: concurrent map read and map write"), which cannot be recovered in-process
	c14ConcInChild(c, main, nil)
	lap("concurrent histories")
}

// c14ConcStream runs the concurrent histories (in the child process).
func c14ConcStream(c *ctx, main *c14Env) {
	res := main.res
	progress := os.Getenv("C14_PROGRESS")
	nConc := 6000
	if c.thorough() {
		nConc = 200000
	}
	var lines []string
	var ins []c14Input
	for i := 0; i < nConc; i++ {
		in := c14GenConc(c.rnd)
		skip := false
		for _, ops := range in.Thr {
			for _, t := range ops {
				if main.hangs[in.Kind+string(t[0])] {
					skip = true
				}
			}
		}
		if skip {
			res.hist("skipped: contains an operation already seen to hang")
			continue
		}
		if progress != "" {
			js, _ := json.Marshal(in)
			os.WriteFile(progress, js, 0o644)
		}
		line, ok := c14Conc(main, in)
		res.eval(fmt.Sprint("conc", i), true)
		res.hist(fmt.Sprintf("conc: %s", c14KindName[in.Kind]))
		res.hist(fmt.Sprintf("conc: %d goroutines", len(in.Thr)))
		if i < 2 {
			res.sample(in)
		}
		if ok {
			lines = append(lines, line)
			ins = append(ins, in)
		}
	}
	c14Lin(main, lines, ins)
	c14Stress(c, main, progress)
}

// c14Stress hammers one cache from 8 goroutines without recording a history.  What it can show: the Go runtime's
// own detection of unsynchronised map access (fatal, reported by the parent), a call that never returns, a block
// handed to two owners, Len() > Cap().
func c14Stress(c *ctx, main *c14Env, progress string) {
	res := main.res
	per := 15000
	if c.thorough() {
		per = 1500000
	}
	for _, kind := range []string{"L", "F", "R", "SL", "SF", "SR"} {
		for _, cp := range []int{1, 3} {
			in := c14Input{Mode: "stress", Kind: kind, Cap: cp}
			if main.hangs[kind+"d"] || main.hangs[kind+"r"] {
				res.hist("skipped: contains an operation already seen to hang")
				continue
			}
			if progress != "" {
				js, _ := json.Marshal(in)
				os.WriteFile(progress, js, 0o644)
			}
			cch, inner, _ := c14New(kind, cp)
			const G = 8
			// every goroutine owns its blocks; a block changes owner only through the cache
			var twice, lenBad int32
			owner := make([]int32, G*4) // block -> 1 + goroutine holding it, 0 = in the cache
			blocks := make([]bgzf.Block, G*4)
			idOf := map[bgzf.Block]int{}
			for i := range blocks {
				blocks[i] = bgzf.NewVerifBlock(int64(100*(i%5)), i%3 != 0, int64(100*(i%5)+100))
				idOf[blocks[i]] = i
				owner[i] = int32(1 + i/4)
			}
			var wg sync.WaitGroup
			o := guardTimeout(20*c14CallTimeout, func() {
				for g := 0; g < G; g++ {
					wg.Add(1)
					go func(g int) {
						defer wg.Done()
						rnd := newRand(c.seed*131 + int64(g))
						mine := []int{4 * g, 4*g + 1, 4*g + 2, 4*g + 3}
						take := func(b bgzf.Block) {
							id := idOf[b]
							if !atomic.CompareAndSwapInt32(&owner[id], 0, int32(1+g)) {
								if !(strings.HasSuffix(kind, "F") && b.Used()) {
									atomic.StoreInt32(&twice, 1)
								}
								return
							}
							mine = append(mine, id)
						}
						for i := 0; i < per; i++ {
							switch x := rnd.intn(100); {
							case x < 30 && len(mine) > 0:
								j := rnd.intn(len(mine))
								id := mine[j]
								atomic.StoreInt32(&owner[id], 0)
								ev, kept := cch.Put(blocks[id])
								if kept {
									mine = append(mine[:j], mine[j+1:]...)
									if ev != nil {
										take(ev)
									}
								} else {
									atomic.StoreInt32(&owner[id], int32(1+g))
								}
							case x < 55:
								if b := cch.Get(int64(100 * rnd.intn(5))); b != nil {
									take(b)
								}
							case x < 85:
								cch.Peek(int64(100 * rnd.intn(5)))
							case x < 92:
								if l, cp := inner.Len(), inner.Cap(); l > cp+G {
									// Len and Cap are two calls: allow for Resize in between
									atomic.StoreInt32(&lenBad, 1)
								}
							case x < 96:
								inner.Drop(1) // dropped blocks are garbage: their owner entry stays 0
							default:
								inner.Resize(1 + rnd.intn(3))
							}
						}
					}(g)
				}
				wg.Wait()
			})
			res.eval(fmt.Sprint("stress", kind, cp), true)
			res.hist("stress: 8 goroutines on one " + c14KindName[kind])
			kn := c14KindName[kind]
			switch {
			case o.timedOut:
				res.fail("c14."+kn+".concurrent.hang", fmt.Sprintf("8 goroutines x %d operations did not finish within %v", per, 20*c14CallTimeout), in)
				return
			case o.panicked:
				res.fail("c14."+kn+".concurrent.panic:"+topRepoFrame(o.stack), o.panicVal, in)
			}
			if twice != 0 && !strings.HasSuffix(kind, "F") {
				res.fail("c14."+kn+".concurrent.block-handed-out-twice", "a block was handed to a second owner while the first still held it", in)
			}
			if lenBad != 0 {
				res.fail("c14."+kn+".concurrent.len-gt-cap", "Len() exceeded Cap() by more than the number of goroutines", in)
			}
		}
	}
}

func c14ConcInChild(c *ctx, main *c14Env, replay *c14Input) {
	res := main.res
	out, err1 := os.CreateTemp("", "c14-conc-*.json")
	prog, err2 := os.CreateTemp("", "c14-prog-*.json")
	if err1 != nil || err2 != nil {
		res.note("concurrent stream: cannot create temporary files; running in-process")
		c14ConcStream(c, main)
		return
	}
	out.Close()
	prog.Close()
	defer os.Remove(out.Name())
	defer os.Remove(prog.Name())
	var hangs []string
	for k := range main.hangs {
		hangs = append(hangs, k)
	}
	cmd := exec.Command(os.Args[0], "C14", "-tier", c.tier, "-seed", fmt.Sprint(c.seed), "-driver", c.driver, "-out", out.Name())
	mode := "conc"
	if replay != nil {
		mode = "conc-replay"
		js, _ := json.Marshal(replay)
		os.WriteFile(prog.Name(), js, 0o644)
	}
	cmd.Env = append(os.Environ(), "C14_CHILD="+mode, "C14_PROGRESS="+prog.Name(), "C14_HANGS="+strings.Join(hangs, ","))
	var stderr bytes.Buffer
	cmd.Stderr = &stderr
	done := make(chan error, 1)
	if err := cmd.Start(); err != nil {
		res.note("concurrent stream: cannot start child: %v; running in-process", err)
		c14ConcStream(c, main)
		return
	}
	go func() { done <- cmd.Wait() }()
	limit := 10 * time.Minute
	if c.thorough() {
		limit = 2 * time.Hour
	}
	var err error
	select {
	case err = <-done:
	case <-time.After(limit):
		cmd.Process.Kill()
		err = fmt.Errorf("child exceeded %v", limit)
	}
	if err == nil {
		var child Result
		js, rerr := os.ReadFile(out.Name())
		if rerr == nil {
			rerr = json.Unmarshal(js, &child)
		}
		if rerr != nil {
			res.disagree("C14.lin", "(child result unreadable)", "", rerr.Error())
			return
		}
		(&c14Env{res: &child}).mergeInto(res)
		return
	}
	// the child died: the runtime's message is the failure, the history in progress is the input
	var in c14Input
	if js, rerr := os.ReadFile(prog.Name()); rerr == nil {
		json.Unmarshal(js, &in)
	}
	msg, frame := err.Error(), "unknown"
	lines := strings.Split(stderr.String(), "\n")
	for i, l := range lines {
		if strings.HasPrefix(l, "fatal error: ") || strings.HasPrefix(l, "panic: ") {
			msg = l
			for _, m := range lines[i:] {
				if strings.HasPrefix(m, "github.com/biogo/hts/") {
					frame = strings.TrimPrefix(m, "github.com/biogo/hts/")
					if j := strings.LastIndex(frame, "("); j > 0 {
						frame = frame[:j]
					}
					break
				}
			}
			break
		}
	}
	res.eval("conc-crash", true)
	res.fail("c14."+c14KindName[in.Kind]+".concurrent.crash:"+frame, "the process running the concurrent histories died: "+msg, in)
}

// c14Lin sends recorded concurrent histories to the driver; a history without a linearization is a failure
// of the property on that recorded history.
func c14Lin(e *c14Env, lines []string, ins []c14Input) {
	res := e.res
	const W = 8
	chunk := (len(lines) + W - 1) / W
	outs := make([][]string, W)
	errs := make([]error, W)
	var wg sync.WaitGroup
	for w := 0; w < W; w++ {
		lo, hi := w*chunk, imin((w+1)*chunk, len(lines))
		if lo >= hi {
			continue
		}
		wg.Add(1)
		go func(w, lo, hi int) {
			defer wg.Done()
			d := e.c.drv()
			d.lines = lines[lo:hi]
			outs[w], errs[w] = d.run()
		}(w, lo, hi)
	}
	wg.Wait()
	for w := 0; w < W; w++ {
		if errs[w] != nil {
			res.disagree("C14.lin", "(driver failure)", "", errs[w].Error())
			continue
		}
		for i, m := range outs[w] {
			res.ModelOps++
			res.TracesValidated++
			j := w*chunk + i
			if m != "linearizable" {
				in := ins[j]
				in.Mode = "conc-recorded"
				in.Line = lines[j]
				res.fail("c14."+c14KindName[in.Kind]+".concurrent.not-linearizable",
					"no sequential order of the recorded operations, consistent with their invocation/response order, produces the observed results ("+m+")", in)
			}
		}
	}
}

func c14GenReader(rnd *Rand) c14Input {
	kinds := []string{"L", "F", "R", "SL", "SF", "SR", "L", "F", "R"}
	in := c14Input{Mode: "reader", Kind: kinds[rnd.intn(len(kinds))], Cap: rnd.rng(1, 4)}
	nb := rnd.rng(in.Cap+1, in.Cap+3)
	base := func() int { return 100 * rnd.intn(nb) }
	// simulate ownership optimistically: the runner tracks the real owner set; here ids are chosen at run time
	// by a deterministic policy encoded in the tokens, so generation needs the same bookkeeping.  Keep it simple:
	// generation is interleaved with a shadow cache-free bookkeeping of which ids exist; Put uses "p?" resolved
	// by the runner (see c14ResolveReader).
	n := rnd.rng(30, 120)
	for i := 0; i < n; i++ {
		switch x := rnd.intn(100); {
		case x < 38:
			in.Ops = append(in.Ops, fmt.Sprintf("q%d,%d,%d", rnd.intn(1000), base(), rnd.intn(4)))
		case x < 68:
			in.Ops = append(in.Ops, fmt.Sprintf("g%d", base()))
		case x < 80:
			in.Ops = append(in.Ops, fmt.Sprintf("k%d", base()))
		case x < 84:
			in.Ops = append(in.Ops, "l")
		case x < 88 && !strings.HasPrefix(in.Kind, "S"):
			in.Ops = append(in.Ops, fmt.Sprintf("d%d", rnd.rng(0, 2)))
		case x < 92 && !strings.HasPrefix(in.Kind, "S"):
			in.Ops = append(in.Ops, fmt.Sprintf("r%d", rnd.rng(1, 4)))
		case x < 95 && !strings.HasPrefix(in.Kind, "S"):
			in.Ops = append(in.Ops, fmt.Sprintf("f%d", rnd.rng(1, 3)))
		case strings.HasPrefix(in.Kind, "S"):
			in.Ops = append(in.Ops, "s")
		default:
			in.Ops = append(in.Ops, "c")
		}
	}
	return in
}

// c14GenLarge: reader-style histories on caches of capacity 18, 32 or 64 that are kept full of used blocks with a
// few unused ones among them, so that most Puts of a used block have to choose a victim while an unused block is held.
func c14GenLarge(rnd *Rand) c14Input {
	kinds := []string{"R", "SR", "R", "L", "F", "SL", "R", "SF"}
	caps := []int{18, 32, 64}
	in := c14Input{Mode: "reader", Kind: kinds[rnd.intn(len(kinds))], Cap: caps[rnd.intn(len(caps))]}
	nb := in.Cap + rnd.rng(4, 12)
	base := func() int { return 100 * rnd.intn(nb) }
	sel := func(used bool) int {
		s := rnd.intn(7) + 28*rnd.intn(30)
		if used {
			s += 7 * rnd.rng(1, 3)
		}
		return s
	}
	// fill: one used block per base, a few unused ones
	order := make([]int, nb)
	for i := range order {
		order[i] = i
	}
	for i := nb - 1; i > 0; i-- {
		j := rnd.intn(i + 1)
		order[i], order[j] = order[j], order[i]
	}
	for _, k := range order {
		in.Ops = append(in.Ops, fmt.Sprintf("q%d,%d,0", sel(!rnd.coin(1, 10)), 100*k))
	}
	n := rnd.rng(in.Cap, 3*in.Cap)
	for i := 0; i < n; i++ {
		switch x := rnd.intn(100); {
		case x < 60:
			mode := 0
			if rnd.coin(1, 2) {
				mode = rnd.rng(1, 2)
			}
			in.Ops = append(in.Ops, fmt.Sprintf("q%d,%d,%d", sel(!rnd.coin(1, 12)), base(), mode))
		case x < 80:
			in.Ops = append(in.Ops, fmt.Sprintf("g%d", base()))
		case x < 86:
			in.Ops = append(in.Ops, fmt.Sprintf("k%d", base()))
		case x < 89:
			in.Ops = append(in.Ops, "l")
		case x < 92 && !strings.HasPrefix(in.Kind, "S"):
			in.Ops = append(in.Ops, fmt.Sprintf("d%d", rnd.rng(1, 3)))
		case x < 94 && !strings.HasPrefix(in.Kind, "S"):
			in.Ops = append(in.Ops, fmt.Sprintf("r%d", caps[rnd.intn(len(caps))]))
		case x < 96 && !strings.HasPrefix(in.Kind, "S"):
			in.Ops = append(in.Ops, fmt.Sprintf("f%d", rnd.rng(1, 3)))
		case strings.HasPrefix(in.Kind, "S"):
			in.Ops = append(in.Ops, "s")
		default:
			in.Ops = append(in.Ops, "c")
		}
	}
	return in
}

func c14GenConc(rnd *Rand) c14Input {
	kinds := []string{"L", "F", "R", "SL", "SF", "SR", "L", "F", "R"}
	in := c14Input{Mode: "conc", Kind: kinds[rnd.intn(len(kinds))], Cap: rnd.rng(1, 3)}
	rec := strings.HasPrefix(in.Kind, "S")
	base := func() int { return 100 * rnd.intn(3) }
	for i, n := 0, rnd.intn(3); i < n; i++ {
		in.Pre = append(in.Pre, fmt.Sprintf("P%d,%d", base(), rnd.intn(2)))
	}
	nt := rnd.rng(2, 4)
	per := 14 / nt
	if per > 4 {
		per = 4
	}
	for t := 0; t < nt; t++ {
		var ops []string
		for i, n := 0, rnd.rng(2, per); i < n; i++ {
			switch x := rnd.intn(100); {
			case x < 35:
				ops = append(ops, fmt.Sprintf("P%d,%d", base(), b2i(rnd.intn(4) != 0)))
			case x < 65:
				ops = append(ops, fmt.Sprintf("g%d", base()))
			case x < 77:
				ops = append(ops, fmt.Sprintf("k%d", base()))
			case x < 84 && !rec:
				ops = append(ops, "l")
			case x < 90 && !rec:
				ops = append(ops, fmt.Sprintf("d%d", rnd.rng(1, 2)))
			case x < 95 && !rec:
				ops = append(ops, fmt.Sprintf("r%d", rnd.rng(1, 3)))
			case rec:
				ops = append(ops, "s")
			default:
				ops = append(ops, "c")
			}
		}
		in.Thr = append(in.Thr, ops)
	}
	return in
}

func c14Replay(e *c14Env, in c14Input) {
	res := e.res
	res.eval("replay", true)
	switch in.Mode {
	case "conc-recorded":
		c14Lin(e, []string{in.Line}, []c14Input{in})
	case "conc":
		c14ConcInChild(e.c, e, &in)
	default:
		c14Seq(e, in, in.Mode == "seq")
	}
}
