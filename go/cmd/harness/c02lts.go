package main

// Trace capture for the read-ahead protocol (C02, rd > 1): the underlying ReadSeeker logs every call, the
// harness logs a marker before and after every API call; the log is turned into member-load events and,
// together with the protocol script of the history (nextBlock calls, Seeks, Close), replayed by the Lean
// driver against the executable transition system Hts.Model.ReadAhead (`c02.lts`).  A trace that is not a
// path of the model is a disagreement.

import (
	"errors"
	"fmt"
	"io"
	"strings"
	"sync"

	"github.com/biogo/hts/bgzf"
)

type ltsLogEntry struct {
	kind byte // 'M' marker, 'S' seek, 'R' read
	a    int64
	n    int
}

type ltsLog struct {
	mu      sync.Mutex
	entries []ltsLogEntry
}

func (l *ltsLog) add(e ltsLogEntry) {
	l.mu.Lock()
	l.entries = append(l.entries, e)
	l.mu.Unlock()
}

// tracedReader is an io.ReadSeeker with ReadByte (so that the library reads it directly, without bufio, and
// never beyond the member it is loading).
type tracedReader struct {
	data []byte
	pos  int64
	log  *ltsLog
}

func (t *tracedReader) Read(p []byte) (int, error) {
	t.log.add(ltsLogEntry{'R', t.pos, len(p)})
	if t.pos >= int64(len(t.data)) {
		return 0, io.EOF
	}
	n := copy(p, t.data[t.pos:])
	t.pos += int64(n)
	return n, nil
}

func (t *tracedReader) ReadByte() (byte, error) {
	t.log.add(ltsLogEntry{'R', t.pos, 1})
	if t.pos >= int64(len(t.data)) {
		return 0, io.EOF
	}
	b := t.data[t.pos]
	t.pos++
	return b, nil
}

func (t *tracedReader) Seek(off int64, whence int) (int64, error) {
	if whence != io.SeekStart {
		return 0, errors.New("tracedReader: unsupported whence")
	}
	t.log.add(ltsLogEntry{'S', off, 0})
	if off < 0 {
		return 0, errors.New("tracedReader: negative position")
	}
	t.pos = off
	return off, nil
}

// ltsTrace accompanies one run of a history.
type ltsTrace struct {
	f      *c02File
	log    *ltsLog
	rd     int
	script []string
	curIdx int
	sticky bool
	nmark  int
	broken string
}

func (x *ltsTrace) idx(file int64) int {
	for i, b := range x.f.base {
		if b == file {
			return i
		}
	}
	if file == x.f.length {
		return len(x.f.base)
	}
	return -1
}

func (x *ltsTrace) mark() {
	x.script = append(x.script, fmt.Sprintf("m%d", x.nmark))
	x.log.add(ltsLogEntry{'M', int64(x.nmark), 0})
	x.nmark++
}

// after derives the protocol operations of the API call that has just returned.
func (x *ltsTrace) after(op c02Op, n int, e error, lc bgzf.Chunk, blocked bool) {
	switch op.Kind {
	case "s":
		x.script = append(x.script, fmt.Sprintf("s%d", op.File))
		if e == nil {
			x.curIdx = x.idx(op.File)
			x.sticky = false
		} else {
			x.sticky = true
		}
	case "r", "b":
		if x.sticky {
			return
		}
		newIdx := len(x.f.base)
		if e == nil || n > 0 {
			newIdx = x.idx(lc.End.File)
		}
		if newIdx < x.curIdx {
			x.broken = fmt.Sprintf("current block moved backwards without a Seek (%d -> %d)", x.curIdx, newIdx)
			return
		}
		for i := x.curIdx; i < newIdx; i++ {
			x.script = append(x.script, "n")
		}
		x.curIdx = newIdx
		if e == io.EOF && !(blocked && n > 0) {
			x.sticky = true
		}
	}
}

// events turns the raw log into markers and member loads.
func (x *ltsTrace) events() ([]string, error) {
	var out []string
	pending := int64(-2)
	first := true
	for _, en := range x.log.entries {
		switch en.kind {
		case 'M':
			out = append(out, fmt.Sprintf("M%d", en.a))
		case 'S':
			if en.a < 0 {
				out = append(out, "Lx:1:0")
				pending = -2
			} else {
				pending = en.a
			}
		case 'R':
			if en.n == 0 {
				continue
			}
			if x.idx(en.a) < 0 {
				continue // inside a member: continuation of the current load
			}
			sk, ok := 0, 1
			if pending == en.a {
				sk = 1
			}
			if en.a == x.f.length {
				ok = 0
			}
			pending = -2
			if first {
				first = false
				if en.a != 0 || sk != 0 {
					return nil, fmt.Errorf("first load is not the one of NewReader: L%d:%d", en.a, sk)
				}
				continue
			}
			out = append(out, fmt.Sprintf("L%d:%d:%d", en.a, sk, ok))
		}
	}
	return out, nil
}

type c02LtsCase struct {
	line   string
	in     c02Input
	nev    int
	nloads int
}

var c02LtsCases []c02LtsCase

func (x *ltsTrace) finish(in c02Input) {
	if x.broken != "" {
		c02LtsCases = append(c02LtsCases, c02LtsCase{line: "broken: " + x.broken, in: in})
		return
	}
	evs, err := x.events()
	if err != nil {
		c02LtsCases = append(c02LtsCases, c02LtsCase{line: "broken: " + err.Error(), in: in})
		return
	}
	cs := make([]string, len(x.f.csize))
	for i, c := range x.f.csize {
		cs[i] = fmt.Sprint(c)
	}
	nl := 0
	for _, e := range evs {
		if e[0] == 'L' {
			nl++
		}
	}
	ev := "-"
	if len(evs) > 0 {
		ev = strings.Join(evs, ",")
	}
	c02LtsCases = append(c02LtsCases, c02LtsCase{
		line: fmt.Sprintf("c02.lts %d 0 %s %s %s", x.rd, strings.Join(cs, ","), strings.Join(x.script, ","), ev),
		in:   in, nev: len(evs), nloads: nl})
}
