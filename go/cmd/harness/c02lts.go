package main

// Trace capture for the read-ahead protocol (C02, rd > 1): the underlying ReadSeeker logs every call, the
// harness logs a marker before and after every API call; the log is turned into member-load events and,
// together with the protocol script of the history (nextBlock calls, Seeks, Close), replayed by the Lean
// driver against the executable transition system Hts.Model.ReadAhead (`c02.lts`).  A trace that is not a
// path of the model is a disagreement.

import (
	"errors"
	"fmt"
	"io"
	"strings"
	"sync"

	"github.com/biogo/hts/bgzf"
)

type ltsLogEntry struct {
	kind byte // 'M' marker, 'S' seek, 'R' read
	a    int64
	n    int
	bad  bool // the call failed (injected fault, or an invalid position)
	eof0 bool // the call returned 0, io.EOF because the source is truncated here (not the real end)
}

type ltsLog struct {
	mu      sync.Mutex
	entries []ltsLogEntry
}

func (l *ltsLog) add(e ltsLogEntry) {
	l.mu.Lock()
	l.entries = append(l.entries, e)
	l.mu.Unlock()
}

// tracedReader is an io.ReadSeeker with ReadByte (so that the library reads it directly, without bufio, and
// never beyond the member it is loading).
type tracedReader struct {
	data []byte
	pos  int64
	log  *ltsLog
	// fault injection: once armed, the underlying calls number failFrom .. failFrom+failLen-1 fail
	armed             bool
	calls             int
	failFrom, failLen int
	partial           bool  // a failing Read first delivers half of what was asked for, together with the error
	truncAt           int64 // once armed: the source ends here (reads at or beyond report io.EOF); < 0: not truncated
	noTrunc           bool  // truncAt is unset (zero value guard)
}

func (t *tracedReader) limit() int64 {
	if t.armed && !t.noTrunc && t.truncAt >= 0 && t.truncAt < int64(len(t.data)) {
		return t.truncAt
	}
	return int64(len(t.data))
}

var errC02Injected = errors.New("injected fault of the underlying reader")

// faulty says whether the call now being made is to fail (called with the log lock not held).
func (t *tracedReader) faulty() bool {
	if !t.armed || t.failLen == 0 {
		return false
	}
	k := t.calls
	t.calls++
	return k >= t.failFrom && k < t.failFrom+t.failLen
}

func (t *tracedReader) Read(p []byte) (int, error) {
	lim := t.limit()
	if t.faulty() {
		t.log.add(ltsLogEntry{'R', t.pos, len(p), true, false})
		k := 0
		if t.partial && len(p) > 1 && t.pos < lim {
			k = len(p) / 2
			if int64(k) > lim-t.pos {
				k = int(lim - t.pos)
			}
			copy(p, t.data[t.pos:t.pos+int64(k)])
			t.pos += int64(k)
		}
		return k, errC02Injected
	}
	if t.pos >= lim {
		cut := lim < int64(len(t.data))
		t.log.add(ltsLogEntry{'R', t.pos, len(p), cut, cut})
		return 0, io.EOF
	}
	t.log.add(ltsLogEntry{'R', t.pos, len(p), false, false})
	n := copy(p, t.data[t.pos:lim])
	t.pos += int64(n)
	return n, nil
}

func (t *tracedReader) ReadByte() (byte, error) {
	lim := t.limit()
	if t.faulty() {
		t.log.add(ltsLogEntry{'R', t.pos, 1, true, false})
		return 0, errC02Injected
	}
	if t.pos >= lim {
		cut := lim < int64(len(t.data))
		t.log.add(ltsLogEntry{'R', t.pos, 1, cut, cut})
		return 0, io.EOF
	}
	t.log.add(ltsLogEntry{'R', t.pos, 1, false, false})
	b := t.data[t.pos]
	t.pos++
	return b, nil
}

func (t *tracedReader) Seek(off int64, whence int) (int64, error) {
	if whence != io.SeekStart {
		return 0, errors.New("tracedReader: unsupported whence")
	}
	if off < 0 {
		t.log.add(ltsLogEntry{'S', off, 0, true, false})
		return 0, errors.New("tracedReader: negative position")
	}
	if t.faulty() {
		t.log.add(ltsLogEntry{'S', off, 0, true, false})
		return 0, errC02Injected
	}
	t.log.add(ltsLogEntry{'S', off, 0, false, false})
	t.pos = off
	return off, nil
}

// ltsTrace accompanies one run of a history.
type ltsTrace struct {
	f      *c02File
	log    *ltsLog
	rd     int
	script []string
	curIdx int
	sticky bool
	nmark  int
	broken string
	faults bool // fault run: the number of nextBlock calls of a Read is not derived (script op N)
}

func (x *ltsTrace) idx(file int64) int {
	for i, b := range x.f.base {
		if b == file {
			return i
		}
	}
	if file == x.f.length {
		return len(x.f.base)
	}
	return -1
}

func (x *ltsTrace) mark() {
	x.script = append(x.script, fmt.Sprintf("m%d", x.nmark))
	x.log.add(ltsLogEntry{'M', int64(x.nmark), 0, false, false})
	x.nmark++
}

// after derives the protocol operations of the API call that has just returned.
func (x *ltsTrace) after(op c02Op, n int, e error, lc bgzf.Chunk, blocked bool) {
	switch op.Kind {
	case "s":
		x.script = append(x.script, fmt.Sprintf("s%d", op.File))
		if e == nil {
			x.curIdx = x.idx(op.File)
			x.sticky = false
		} else {
			x.sticky = true
		}
	case "r", "b":
		if x.faults {
			x.script = append(x.script, "N")
			return
		}
		if x.sticky {
			return
		}
		newIdx := len(x.f.base)
		if e == nil || n > 0 {
			newIdx = x.idx(lc.End.File)
			if n > 0 && lc.End.Block == 0 && newIdx >= 1 && newIdx <= len(x.f.blen) && x.f.blen[newIdx-1] > 0xffff {
				// the position behind the last byte of a 65536-byte block is reported as (NextBase, 0);
				// the current block is still that block: no nextBlock call has been made
				newIdx--
			}
		}
		if newIdx < x.curIdx {
			x.broken = fmt.Sprintf("current block moved backwards without a Seek (%d -> %d)", x.curIdx, newIdx)
			return
		}
		for i := x.curIdx; i < newIdx; i++ {
			x.script = append(x.script, "n")
		}
		x.curIdx = newIdx
		if e == io.EOF && !(blocked && n > 0) {
			x.sticky = true
		}
	}
}

// events turns the raw log into markers and member loads.  A load is a Seek (if any) followed by the reads of
// one member; it is reported where it starts; it is a failed one if any of its calls failed or it starts at
// the end of the file.
func (x *ltsTrace) events() ([]string, error) {
	type ld struct {
		off    int64
		sk, ok int
		x      bool
	}
	var out []interface{}
	var cur *ld
	pendingSeek := false
	first := true
	for _, en := range x.log.entries {
		switch en.kind {
		case 'M':
			out = append(out, fmt.Sprintf("M%d", en.a))
		case 'S':
			cur = &ld{off: en.a, sk: 1, ok: 1}
			pendingSeek = true
			if en.a < 0 {
				cur.x = true
			}
			if en.bad {
				cur.ok = 0
				pendingSeek = false
			} else if en.a == x.f.length {
				cur.ok = 0
			}
			out = append(out, cur)
			first = false
		case 'R':
			if en.n == 0 {
				continue
			}
			if pendingSeek && cur != nil && cur.off == en.a {
				pendingSeek = false // the first read of the load that began with the Seek
			} else if x.idx(en.a) >= 0 {
				pendingSeek = false
				cur = &ld{off: en.a, sk: 0, ok: 1}
				if en.a == x.f.length {
					cur.ok = 0
				}
				if first {
					first = false
					if en.a != 0 {
						return nil, fmt.Errorf("first load is not the one of NewReader: L%d", en.a)
					}
					cur.x = true
					cur.off = -2 // dropped below
				}
				out = append(out, cur)
			}
			if en.bad && cur != nil {
				cur.ok = 0
			}
		}
	}
	var evs []string
	for _, o := range out {
		switch v := o.(type) {
		case string:
			evs = append(evs, v)
		case *ld:
			if v.off == -2 {
				continue
			}
			if v.x {
				evs = append(evs, "Lx:1:0")
			} else {
				evs = append(evs, fmt.Sprintf("L%d:%d:%d", v.off, v.sk, v.ok))
			}
		}
	}
	return evs, nil
}

type c02LtsCase struct {
	faults bool
	line   string
	in     c02Input
	nev    int
	nloads int
}

var c02LtsCases []c02LtsCase

func (x *ltsTrace) finish(in c02Input) {
	if x.broken != "" {
		c02LtsCases = append(c02LtsCases, c02LtsCase{line: "broken: " + x.broken, in: in})
		return
	}
	evs, err := x.events()
	if err != nil {
		c02LtsCases = append(c02LtsCases, c02LtsCase{line: "broken: " + err.Error(), in: in})
		return
	}
	cs := make([]string, len(x.f.csize))
	for i, c := range x.f.csize {
		cs[i] = fmt.Sprint(c)
	}
	nl := 0
	for _, e := range evs {
		if e[0] == 'L' {
			nl++
		}
	}
	ev := "-"
	if len(evs) > 0 {
		ev = strings.Join(evs, ",")
	}
	c02LtsCases = append(c02LtsCases, c02LtsCase{
		line: fmt.Sprintf("c02.lts %d %d %s %s %s", x.rd, map[bool]int{false: 0, true: 1}[x.faults], strings.Join(cs, ","), strings.Join(x.script, ","), ev),
		in:   in, nev: len(evs), nloads: nl, faults: x.faults})
}

// runC02Fault runs a history over an underlying reader that fails a window of its calls (after NewReader
// has returned), with read-ahead.  Judged here: no call hangs, nothing panics; the observed trace must be a
// path of the protocol model with faults (c02.lts … 1 …).  What the calls return under faults is C09's subject.
func runC02Fault(c *ctx, f *c02File, ops []c02Op, rd int, procs int) {
	r := c.res
	failFrom := c.rnd.intn(70)
	failLen := c.rnd.pick([]int{1, 1, 2, 5, 100000})
	in := c02Input{File: c02File{Blocks: f.Blocks}, Ops: ops, Rd: rd, Procs: procs, FailFrom: failFrom, FailLen: failLen, Fault: true}
	if hm := fmt.Sprintf("fault.rd%d", rd); c02Hangs[hm] >= c02MaxHangs {
		r.hist("skipped-after-" + fmt.Sprint(c02MaxHangs) + "-hangs." + hm)
		return
	}
	lg := &ltsLog{}
	src := &tracedReader{data: f.raw, log: lg, failFrom: failFrom, failLen: failLen}
	lts := &ltsTrace{f: f, log: lg, rd: rd, faults: true}
	var bg *bgzf.Reader
	var err error
	o := guardTimeout(c02OpTimeout, func() { bg, err = bgzf.NewReader(src, rd) })
	if o.timedOut || o.panicked || err != nil {
		return // judged by the fault-free runs
	}
	lts.mark()
	src.armed = true // the marker orders this write before every later call of the consumer; the worker
	// may have a load in flight, which then simply precedes the window
	maxN := 0
	for _, op := range ops {
		if op.N > maxN {
			maxN = op.N
		}
	}
	buf := make([]byte, maxN+1)
	r.hist(fmt.Sprintf("fault.run.rd%d", rd))
	for k, op := range ops {
		if op.Kind == "B" {
			bg.Blocked = op.On
			continue
		}
		lts.mark()
		var e error
		o := guardTimeout(c02OpTimeout, func() {
			switch op.Kind {
			case "r":
				_, e = bg.Read(buf[:op.N])
			case "b":
				_, e = bg.ReadByte()
			case "s":
				e = bg.Seek(bgzf.Offset{File: op.File, Block: uint16(op.Block)})
			}
		})
		if o.timedOut {
			r.fail(fmt.Sprintf("c02.fault.hang.%s.rd%d", op.Kind, rd), fmt.Sprintf("op %d (%s) did not return after an injected fault", k, op.model()), in)
			c02Hangs[fmt.Sprintf("fault.rd%d", rd)]++
			return
		}
		if o.panicked {
			r.fail("panic:"+topRepoFrame(o.stack), fmt.Sprintf("op %d (%s) after an injected fault: %s", k, op.model(), o.panicVal), in)
			return
		}
		if e != nil && e != io.EOF {
			r.hist("fault.api-error")
		}
		lts.after(op, 0, e, bgzf.Chunk{}, false)
		lts.mark()
	}
	lts.mark()
	lts.script = append(lts.script, "c")
	o = guardTimeout(c02OpTimeout, func() { bg.Close() })
	if o.timedOut {
		r.fail(fmt.Sprintf("c02.fault.hang.Close.rd%d", rd), "Close did not return after an injected fault", in)
		c02Hangs[fmt.Sprintf("fault.rd%d", rd)]++
		return
	}
	if o.panicked {
		r.fail("panic:"+topRepoFrame(o.stack), "Close after an injected fault: "+o.panicVal, in)
		return
	}
	lts.finish(in)
}

// outcomes classifies every load attempt after NewReader's, in program order (meaningful for rd = 1):
// 'o' no fault, 'x' the load failed (an error, an error after partial data, a truncation inside the member),
// 'e' the truncated source reported a clean end of input at the member start.
func (x *ltsTrace) outcomes() (string, error) {
	var out []byte
	cur := -1
	var curOff int64
	pendingSeek := false
	nread := 0
	dropFirst := false
	for _, en := range x.log.entries {
		switch en.kind {
		case 'S':
			out = append(out, 'o')
			cur, curOff, pendingSeek, nread = len(out)-1, en.a, true, 0
			if en.bad {
				out[cur] = 'x'
				pendingSeek = false
			}
		case 'R':
			if en.n == 0 {
				continue
			}
			if pendingSeek && curOff == en.a {
				pendingSeek = false
			} else if x.idx(en.a) >= 0 {
				if len(out) == 0 {
					if en.a != 0 {
						return "", fmt.Errorf("first load is not the one of NewReader: %d", en.a)
					}
					dropFirst = true
				}
				out = append(out, 'o')
				cur, curOff, pendingSeek, nread = len(out)-1, en.a, false, 0
			}
			if cur < 0 {
				return "", fmt.Errorf("read at %d outside any load", en.a)
			}
			switch {
			case en.eof0 && nread == 0 && en.a == curOff:
				out[cur] = 'e'
			case (en.eof0 || en.bad) && out[cur] == 'o':
				out[cur] = 'x'
			}
			nread++
		}
	}
	if dropFirst {
		out = out[1:]
	}
	return string(out), nil
}
