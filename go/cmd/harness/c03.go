package main

// C03 — block caches are transparent.
//
// A case = a small BGZF file (members with 0..9 byte payloads, empty members, with or without the EOF marker), a
// history over {Seek(member i, k <= len_i), Read(n), ReadByte, Blocked on/off, SetCache(kind, capacity) at arbitrary
// points, SetCache(nil)} and a number of decompressors rd.
//
// Oracle (no Lean model involved): the history is run on the implementation without a cache (rd = 1) and with the
// caches; every call must return the same bytes, the same error class and the same LastChunk, and must return at
// all.  All implementation runs happen in child processes: a cached reader can spin or dead-lock, and a panic in a
// read-ahead goroutine cannot be recovered; the parent kills and restarts a child that stops answering.
//
// Correspondence: for rd = 1 the cached run is compared with the Lean model of the cached reader, per call: bytes,
// error class, LastChunk and the sequence of Get/Put calls the reader made on the cache with their results (the real
// cache is wrapped in a pass-through logger; for Random the logged victims are given to the model, which validates
// them).  The code variant the model mirrors (repairs C03-1 / C03-2 present or not) is detected from the
// implementation's behaviour on the two witness histories, so that a disagreement always means "the model no
// longer describes this tree", while the defects themselves are reported by the oracle.

import (
	"bufio"
	"bytes"
	"compress/gzip"
	"encoding/hex"
	"encoding/json"
	"fmt"
	"io"
	"os"
	"os/exec"
	"strconv"
	"strings"
	"sync"
	"syscall"
	"time"

	"github.com/biogo/hts/bgzf"
	"github.com/biogo/hts/bgzf/cache"
)

func init() { checks["C03"] = checkC03 }

type c03Case struct {
	Payloads []string `json:"payloads"` // hex, "-" = empty member (the 28 byte EOF-marker member)
	Marker   bool     `json:"marker"`   // file ends with the EOF marker
	Ops      []string `json:"ops"`      // s<member>,<k>  r<n>  b  B0 B1  c<kind>,<cap>  c-
	Rd       int      `json:"rd"`
	Tag      string   `json:"tag,omitempty"`
}

// c03Request is what the parent sends: the case and the file it built for it (building needs a bgzf.Writer per
// member, > 1 MB each; the parent memoises members, a child may be restarted at any time).
type c03Request struct {
	Case  c03Case `json:"case"`
	File  string  `json:"file"`
	Bases []int64 `json:"bases"`
	Sizes []int64 `json:"sizes"`
}

// c03Answer is what a child reports for one case.
type c03Answer struct {
	Bases    []int64  `json:"bases"`
	Sizes    []int64  `json:"sizes"`
	Uncached []string `json:"uncached"` // per op: hex/err/bf,bb,ef,eb
	Cached   []string `json:"cached"`
	Calls    []string `json:"calls"` // per op: cache calls made by the reader (rd = 1 only)
	Hints    []string `json:"hints"` // per SetCache op: ",k1,k2…" victim keys of that cache
	Stats    []string `json:"stats"` // per op "S" answers are inlined in Cached; unused
	Panic    string   `json:"panic,omitempty"`
	PanicAt  string   `json:"panic_at,omitempty"`
	Err      string   `json:"err,omitempty"`
}

var c03Members = map[string][]byte{}
var c03MembersMu sync.Mutex

var c03Marker = []byte{0x1f, 0x8b, 0x08, 0x04, 0, 0, 0, 0, 0, 0xff, 0x06, 0, 0x42, 0x43, 0x02, 0, 0x1b, 0, 0x03, 0, 0, 0, 0, 0, 0, 0, 0, 0}

// c03Build makes the file and returns member bases, sizes and payloads (split and inflated independently of the
// bgzf reader).
func c03Build(cs c03Case) (file []byte, bases, sizes []int64, payloads [][]byte, err error) {
	var buf bytes.Buffer
	for _, p := range cs.Payloads {
		if p == "-" {
			buf.Write(c03Marker)
			continue
		}
		// one member per payload, written by a fresh Writer: deterministic, so memoised (a Writer allocates > 1 MB)
		c03MembersMu.Lock()
		mb, ok := c03Members[p]
		c03MembersMu.Unlock()
		var e error
		_ = e
		if !ok && strings.HasPrefix(p, "R") {
			// "R<hex byte>x<count>": a member framed by hand (gzip + BC extra field), because bgzf.Writer cannot
			// produce a payload above 0xff00 bytes and the format allows up to 65536
			f := strings.Split(p[1:], "x")
			bv, e1 := strconv.ParseUint(f[0], 16, 8)
			cnt, e2 := strconv.Atoi(f[len(f)-1])
			if len(f) != 2 || e1 != nil || e2 != nil {
				return nil, nil, nil, nil, fmt.Errorf("bad run-length payload %q", p)
			}
			mb, e = c03HandMember(bytes.Repeat([]byte{byte(bv)}, cnt))
			if e != nil {
				return nil, nil, nil, nil, e
			}
			c03MembersMu.Lock()
			c03Members[p] = mb
			c03MembersMu.Unlock()
			ok = true
		}
		if !ok {
			b, e := hex.DecodeString(p)
			if e != nil {
				return nil, nil, nil, nil, e
			}
			var one bytes.Buffer
			w := bgzf.NewWriter(&one, 1)
			w.Write(b)
			if e := w.Flush(); e != nil {
				return nil, nil, nil, nil, e
			}
			if e := w.Wait(); e != nil {
				return nil, nil, nil, nil, e
			}
			mb = append([]byte{}, one.Bytes()...)
			w.Close() // releases the compressor goroutine; what it appends to `one` is not used
			c03MembersMu.Lock()
			c03Members[p] = mb
			c03MembersMu.Unlock()
		}
		buf.Write(mb)
	}
	if cs.Marker {
		buf.Write(c03Marker)
	}
	file = buf.Bytes()
	for off := 0; off < len(file); {
		if off+18 > len(file) || file[off] != 0x1f || file[off+1] != 0x8b {
			return nil, nil, nil, nil, fmt.Errorf("not a member at %d", off)
		}
		xlen := int(file[off+10]) | int(file[off+11])<<8
		size := -1
		for x := off + 12; x+4 <= off+12+xlen; {
			l := int(file[x+2]) | int(file[x+3])<<8
			if file[x] == 'B' && file[x+1] == 'C' && l == 2 {
				size = (int(file[x+4]) | int(file[x+5])<<8) + 1
			}
			x += 4 + l
		}
		if size < 0 || off+size > len(file) {
			return nil, nil, nil, nil, fmt.Errorf("bad member at %d", off)
		}
		zr, e := gzip.NewReader(bytes.NewReader(file[off : off+size]))
		if e != nil {
			return nil, nil, nil, nil, e
		}
		p, e := io.ReadAll(zr)
		if e != nil {
			return nil, nil, nil, nil, e
		}
		bases = append(bases, int64(off))
		sizes = append(sizes, int64(size))
		payloads = append(payloads, p)
		off += size
	}
	return
}

// c03Obj is one cache object created by a history (it can be attached again later).
type c03Obj struct {
	raw bgzf.Cache
	log *c03Log
	rec *cache.StatsRecorder
}

// c03Log is a pass-through cache that records the calls the reader makes.
type c03Log struct {
	in    bgzf.Cache
	mu    sync.Mutex
	calls []string
	hints []string
}

func (l *c03Log) Get(base int64) bgzf.Block {
	b := l.in.Get(base)
	l.mu.Lock()
	l.calls = append(l.calls, fmt.Sprintf("G%d=%d", base, b2i(b != nil)))
	l.mu.Unlock()
	return b
}

func (l *c03Log) Put(b bgzf.Block) (bgzf.Block, bool) {
	base := b.Base()
	ev, kept := l.in.Put(b)
	l.mu.Lock()
	switch {
	case !kept:
		l.calls = append(l.calls, fmt.Sprintf("P%d=r", base))
	case ev == nil:
		l.calls = append(l.calls, fmt.Sprintf("P%d=k", base))
	default:
		l.calls = append(l.calls, fmt.Sprintf("P%d=e%d", base, ev.Base()))
		l.hints = append(l.hints, strconv.FormatInt(ev.Base(), 10))
	}
	l.mu.Unlock()
	return ev, kept
}

func (l *c03Log) Peek(base int64) (bool, int64) { return l.in.Peek(base) }

func (l *c03Log) take() string {
	l.mu.Lock()
	s := strings.Join(l.calls, ";")
	l.calls = l.calls[:0]
	l.mu.Unlock()
	return s
}

func c03ErrClass(err error) string {
	switch err {
	case nil:
		return "ok"
	case io.EOF:
		return "eof"
	}
	return "err"
}

// c03RunImpl runs the history on the implementation.  cached=false ignores the SetCache operations.
func c03RunImpl(file []byte, bases []int64, cs c03Case, rd int, cached, logging bool) (outs, calls, hints []string, err error) {
	r, err := bgzf.NewReader(bytes.NewReader(file), rd)
	if err != nil {
		return nil, nil, nil, err
	}
	mark := func(string) {}
	if cached && os.Getenv("C03_CHILD") == "1" {
		// where a call that never returns is stuck, for the parent (stderr is only read after a time-out)
		mark = func(s string) { os.Stderr.WriteString("@" + s + "\n") }
	}
	defer func() {
		// Close can block when the read-ahead machinery is stuck; it is part of the watched call
		mark("Close")
		r.Close()
	}()
	var cur *c03Log
	var curRec *cache.StatsRecorder
	var logs []*c03Log
	hintAt := map[int]*c03Log{}
	var objs []c03Obj
	chunk := func() string {
		c := r.LastChunk()
		return fmt.Sprintf("%d,%d,%d,%d", c.Begin.File, c.Begin.Block, c.End.File, c.End.Block)
	}
	for i, op := range cs.Ops {
		out := ""
		switch op[0] {
		case 's':
			mark("Seek")
		case 'r', 'b':
			mark("Read")
		}
		switch op[0] {
		case 's':
			a := strings.Split(op[1:], ",")
			m, _ := strconv.Atoi(a[0])
			k, _ := strconv.Atoi(a[1])
			e := r.Seek(bgzf.Offset{File: bases[m], Block: uint16(k)})
			out = "-/" + c03ErrClass(e) + "/" + chunk()
		case 'r':
			n, _ := strconv.Atoi(op[1:])
			p := make([]byte, n)
			got, e := r.Read(p)
			out = hexs(p[:got]) + "/" + c03ErrClass(e) + "/" + chunk()
		case 'b':
			c, e := r.ReadByte()
			if e == nil {
				out = hexs([]byte{c})
			} else {
				out = "-"
			}
			out += "/" + c03ErrClass(e) + "/" + chunk()
		case 'B':
			r.Blocked = op[1] == '1'
			out = "-/ok/" + chunk()
		case 'S':
			if cached && curRec != nil {
				s := curRec.Stats()
				outs = append(outs, fmt.Sprintf("%d,%d,%d,%d,%d", s.Gets, s.Misses, s.Puts, s.Retains, s.Evictions))
			} else {
				outs = append(outs, "-")
			}
			calls = append(calls, "")
			continue
		case 'z':
			// let the read-ahead goroutine run until it has nothing left to do
			time.Sleep(3 * time.Millisecond)
			out = "-/ok/" + chunk()
		case 'c':
			if cached {
				cur, curRec = nil, nil
				if op == "c-" {
					r.SetCache(nil)
				} else if op[1] == '=' {
					// attach again the k-th cache object created in this history, with whatever it holds
					k, _ := strconv.Atoi(op[2:])
					if k < len(objs) {
						cur, curRec = objs[k].log, objs[k].rec
						if cur != nil {
							r.SetCache(cur)
						} else {
							r.SetCache(objs[k].raw)
						}
					}
				} else {
					a := strings.Split(op[1:], ",")
					n, _ := strconv.Atoi(a[1])
					c, _, rec := c14New(a[0], n)
					curRec = rec
					if logging {
						cur = &c03Log{in: c}
						logs = append(logs, cur)
						hintAt[i] = cur
						r.SetCache(cur)
					} else {
						r.SetCache(c)
					}
					objs = append(objs, c03Obj{c, cur, rec})
				}
			}
			out = "-/ok/" + chunk()
		}
		outs = append(outs, out)
		if cur != nil {
			calls = append(calls, cur.take())
		} else {
			calls = append(calls, "")
		}
	}
	for i := range cs.Ops {
		if l := hintAt[i]; l != nil && len(l.hints) > 0 && cs.Ops[i][1] != '=' && strings.HasSuffix(strings.Split(cs.Ops[i][1:], ",")[0], "R") {
			hints = append(hints, ","+strings.Join(l.hints, ","))
		} else {
			hints = append(hints, "")
		}
	}
	return outs, calls, hints, nil
}

// ------------------------------------------------------------------------------------------------------------
// child side

func c03Child() {
	in := bufio.NewReaderSize(os.Stdin, 1<<20)
	out := bufio.NewWriter(os.Stdout)
	for {
		line, err := in.ReadBytes('\n')
		if len(line) == 0 && err != nil {
			return
		}
		var rq c03Request
		var ans c03Answer
		if e := json.Unmarshal(line, &rq); e != nil {
			ans.Err = e.Error()
		} else {
			cs := rq.Case
			file, e := hex.DecodeString(rq.File)
			bases := rq.Bases
			ans.Bases, ans.Sizes = rq.Bases, rq.Sizes
			if e != nil {
				ans.Err = e.Error()
			} else {
				o := guard(func() {
					ans.Uncached, _, _, e = c03RunImpl(file, bases, cs, 1, false, false)
				})
				if o.panicked {
					ans.Panic, ans.PanicAt = "uncached: "+o.panicVal, topRepoFrame(o.stack)
				} else if e != nil {
					ans.Err = e.Error()
				} else {
					o := guard(func() {
						ans.Cached, ans.Calls, ans.Hints, e = c03RunImpl(file, bases, cs, cs.Rd, true, cs.Rd == 1)
					})
					if o.panicked {
						ans.Panic, ans.PanicAt = o.panicVal, topRepoFrame(o.stack)
					} else if e != nil {
						ans.Err = e.Error()
					}
				}
			}
		}
		js, _ := json.Marshal(ans)
		out.Write(js)
		out.WriteByte('\n')
		out.Flush()
		if err != nil {
			return
		}
	}
}

// ------------------------------------------------------------------------------------------------------------
// parent side: a pool of children

type c03Proc struct {
	cmd    *exec.Cmd
	in     io.WriteCloser
	out    *bufio.Reader
	stderr *bytes.Buffer
}

func c03Start() (*c03Proc, error) {
	cmd := exec.Command(os.Args[0], "C03")
	cmd.Env = append(os.Environ(), "C03_CHILD=1")
	in, err := cmd.StdinPipe()
	if err != nil {
		return nil, err
	}
	outp, err := cmd.StdoutPipe()
	if err != nil {
		return nil, err
	}
	p := &c03Proc{cmd: cmd, in: in, out: bufio.NewReaderSize(outp, 1<<20), stderr: &bytes.Buffer{}}
	cmd.Stderr = p.stderr
	if err := cmd.Start(); err != nil {
		return nil, err
	}
	return p, nil
}

func (p *c03Proc) kill() {
	p.in.Close()
	p.cmd.Process.Kill()
	p.cmd.Wait()
}

const c03Timeout = 3 * time.Second

// ask runs one case in the child.  status: "ok", "hang" (no answer within the time limit; child killed),
// "crash" (child died; msg = the runtime's message, frame = first repository frame).
func (p *c03Proc) ask(cs c03Case) (ans c03Answer, status, msg, frame string) {
	return p.askT(cs, c03Timeout)
}

func (p *c03Proc) askT(cs c03Case, limit time.Duration) (ans c03Answer, status, msg, frame string) {
	file, bases, sizes, _, berr := c03Build(cs)
	if berr != nil {
		ans.Err = berr.Error()
		return ans, "ok", "", ""
	}
	js, _ := json.Marshal(c03Request{Case: cs, File: hex.EncodeToString(file), Bases: bases, Sizes: sizes})
	type res struct {
		line []byte
		err  error
	}
	ch := make(chan res, 1)
	go func() {
		if _, err := p.in.Write(append(js, '\n')); err != nil {
			ch <- res{nil, err}
			return
		}
		l, err := p.out.ReadBytes('\n')
		ch <- res{l, err}
	}()
	select {
	case r := <-ch:
		if len(r.line) > 0 && json.Unmarshal(r.line, &ans) == nil {
			return ans, "ok", "", ""
		}
		p.in.Close()
		p.cmd.Wait()
		msg, frame = "child died", "unknown"
		lines := strings.Split(p.stderr.String(), "\n")
		for i, l := range lines {
			if strings.HasPrefix(l, "fatal error: ") || strings.HasPrefix(l, "panic: ") {
				msg = l
				for _, m := range lines[i:] {
					if strings.HasPrefix(m, "github.com/biogo/hts/") {
						frame = strings.TrimPrefix(m, "github.com/biogo/hts/")
						if j := strings.LastIndex(frame, "("); j > 0 {
							frame = frame[:j]
						}
						break
					}
				}
				break
			}
		}
		return ans, "crash", msg, frame
	case <-time.After(limit):
		// where are the goroutines?  SIGQUIT makes the Go runtime dump them
		p.cmd.Process.Signal(syscall.SIGQUIT)
		exited := make(chan struct{})
		go func() { p.cmd.Wait(); close(exited) }()
		select {
		case <-exited:
		case <-time.After(2 * time.Second):
			p.cmd.Process.Kill()
			<-exited
		}
		p.in.Close()
		dump := p.stderr.String()
		frame = "unknown"
		for _, f := range []string{"bgzf.(*Reader).nextBlock", "bgzf.(*Reader).Seek", "bgzf.(*Reader).Close", "bgzf.(*decompressor).nextBlockAt", "bgzf.(*Reader).cacheSwap"} {
			if strings.Contains(dump, "github.com/biogo/hts/"+f+"(") {
				frame = f
				break
			}
		}
		if frame == "unknown" {
			// no goroutine dump (slow machine): the call in progress says where it is stuck.  Read and ReadByte
			// can only wait inside nextBlock.
			last := ""
			for _, l := range strings.Split(dump, "\n") {
				if strings.HasPrefix(l, "@") {
					last = l[1:]
				}
			}
			switch last {
			case "Read":
				frame = "bgzf.(*Reader).nextBlock"
			case "Seek":
				frame = "bgzf.(*Reader).Seek"
			case "Close":
				frame = "bgzf.(*Reader).Close"
			}
		}
		return ans, "hang", "no answer within " + limit.String(), frame
	}
}

// ------------------------------------------------------------------------------------------------------------
// generation

var c03Kinds = []string{"L", "F", "R", "SL", "SF", "SR"}

func c03GenFile(rnd *Rand) (payloads []string, lens []int) {
	n := rnd.rng(2, 6)
	for i := 0; i < n; i++ {
		if rnd.coin(1, 8) {
			payloads = append(payloads, "-")
			lens = append(lens, 0)
			continue
		}
		l := rnd.rng(1, 9)
		b := make([]byte, l)
		for j := range b {
			b[j] = byte(0x41 + i) // member i is filled with the letter 'A'+i: wrong data is visible at a glance
		}
		if rnd.coin(1, 3) {
			b[rnd.intn(l)] = byte(0x61 + i)
		}
		payloads = append(payloads, hex.EncodeToString(b))
		lens = append(lens, l)
	}
	return
}

func c03GenOps(rnd *Rand, lens []int, kind string, cp int, nops int, setAt int) []string {
	var ops []string
	total := 0
	for _, l := range lens {
		total += l
	}
	var recent []int // members touched recently (revisit bias)
	made := 0        // cache objects created so far
	cur := 0
	for i := 0; i < nops; i++ {
		if i == setAt {
			ops = append(ops, fmt.Sprintf("c%s,%d", kind, cp))
			made++
			continue
		}
		switch x := rnd.intn(100); {
		case x < 42:
			var m int
			if len(recent) > 0 && rnd.coin(3, 4) {
				// revisit a member touched at most capacity+1 seeks ago
				w := cp + 1
				if w > len(recent) {
					w = len(recent)
				}
				m = recent[len(recent)-1-rnd.intn(w)]
			} else {
				m = rnd.intn(len(lens))
			}
			k := 0
			switch rnd.intn(4) {
			case 0:
				k = lens[m] // the end of the member
			case 1:
				k = rnd.intn(lens[m] + 1)
			}
			ops = append(ops, fmt.Sprintf("s%d,%d", m, k))
			recent = append(recent, m)
			cur = m
		case x < 80:
			n := 0
			switch rnd.intn(5) {
			case 0:
				n = 1
			case 1:
				n = lens[cur%len(lens)] // exactly one member's worth
			case 2:
				n = rnd.rng(0, total+2)
			default:
				n = rnd.rng(1, 6)
			}
			ops = append(ops, fmt.Sprintf("r%d", n))
			recent = append(recent, (cur+1)%len(lens))
		case x < 90:
			ops = append(ops, "b")
		case x < 93:
			ops = append(ops, fmt.Sprintf("B%d", rnd.intn(2)))
		case x < 95 && i > setAt:
			ops = append(ops, fmt.Sprintf("c%s,%d", c03Kinds[rnd.intn(len(c03Kinds))], rnd.rng(1, 4)))
			made++
		case x < 97 && i > setAt:
			ops = append(ops, "c-")
		case x < 99 && i > setAt:
			// attach again a cache object used earlier in this history (still holding its blocks)
			ops = append(ops, fmt.Sprintf("c=%d", rnd.intn(made)))
		case x < 100 && i > setAt:
			ops = append(ops, "z") // give the read-ahead goroutine time to run dry
		default:
			ops = append(ops, "r2")
		}
	}
	return ops
}

// c03HandMember frames one BGZF member around payload without bgzf.Writer.
func c03HandMember(payload []byte) ([]byte, error) {
	var buf bytes.Buffer
	zw, err := gzip.NewWriterLevel(&buf, gzip.BestSpeed)
	if err != nil {
		return nil, err
	}
	zw.Header.Extra = []byte{'B', 'C', 2, 0, 0, 0}
	zw.Header.OS = 0xff
	if _, err := zw.Write(payload); err != nil {
		return nil, err
	}
	if err := zw.Close(); err != nil {
		return nil, err
	}
	b := buf.Bytes()
	if len(b) > 65536 || len(b) < 18 || b[12] != 'B' || b[13] != 'C' {
		return nil, fmt.Errorf("hand-framed member: unexpected layout (%d bytes)", len(b))
	}
	b[16], b[17] = byte(len(b)-1), byte((len(b)-1)>>8)
	return append([]byte{}, b...), nil
}

// c03GenExtreme (seed C03-6): a member with the largest legal payload (65536 bytes: the in-block offset, a uint16,
// wraps to 0 at its end), or one just below it, between two small members; the big member is read exactly to its
// end, left (so that it is cached), and entered again by reading across the boundary from the member before it.
func c03GenExtreme(rnd *Rand) c03Case {
	big := []int{65536, 65536, 65536, 65535, 65280}[rnd.intn(5)]
	cs := c03Case{Payloads: []string{"4141414141", fmt.Sprintf("R42x%d", big), "434343434343"}, Marker: rnd.coin(1, 2),
		Rd: rnd.rng(1, 3)}
	kind := c03Kinds[rnd.intn(len(c03Kinds))]
	ops := []string{fmt.Sprintf("c%s,%d", kind, rnd.rng(2, 4))}
	k := rnd.rng(1, 9)
	ops = append(ops, fmt.Sprintf("s1,%d", big-k))
	switch rnd.intn(3) {
	case 0:
		ops = append(ops, fmt.Sprintf("r%d", k)) // exactly to the last byte
	case 1:
		for i := 0; i < k; i++ {
			ops = append(ops, "b")
		}
	default:
		ops = append(ops, fmt.Sprintf("r%d", k-1), "b")
	}
	if rnd.coin(1, 3) {
		ops = append(ops, "z")
	}
	ops = append(ops, fmt.Sprintf("s0,%d", rnd.intn(5)))
	if rnd.coin(1, 3) {
		ops = append(ops, "b")
	}
	ops = append(ops, fmt.Sprintf("r%d", rnd.rng(6, 12))) // across the boundary into the big member
	if rnd.coin(1, 2) {
		ops = append(ops, fmt.Sprintf("s1,%d", big-2), "r5", "s0,4", "r3")
	}
	if strings.HasPrefix(kind, "S") {
		ops = append(ops, "S")
	}
	cs.Ops = ops
	return cs
}

// c03GenHandover (seed C03-7): with read-ahead, Seek to a member the worker has ready at the head of the queue (the
// block is handed to the reader AND put into the cache: it is on loan), the cache is detached, a Seek that has to
// decompress follows (it must not recycle that block), the same cache object is attached again, Seek back.
func c03GenHandover(rnd *Rand) c03Case {
	n := rnd.rng(5, 7)
	cs := c03Case{Marker: rnd.coin(1, 2), Rd: rnd.rng(2, 4)}
	for i := 0; i < n; i++ {
		cs.Payloads = append(cs.Payloads, hex.EncodeToString(bytes.Repeat([]byte{byte(0x41 + i)}, rnd.rng(3, 9))))
	}
	kind := c03Kinds[rnd.intn(len(c03Kinds))]
	ops := []string{fmt.Sprintf("c%s,%d", kind, rnd.rng(2, 4))}
	if rnd.coin(2, 3) {
		ops = append(ops, "z") // let the worker fill the queue
	}
	tgt := rnd.rng(1, 2)
	if tgt == 2 && rnd.coin(1, 2) {
		ops = append(ops, "s1,0") // the member after it is then at the head of the queue
	}
	ops = append(ops, fmt.Sprintf("s%d,%d", tgt, rnd.intn(2)))
	if rnd.coin(1, 3) {
		ops = append(ops, "r1")
	}
	ops = append(ops, "c-")
	far := rnd.rng(tgt+2, n-1)
	ops = append(ops, fmt.Sprintf("s%d,0", far))
	if rnd.coin(1, 2) {
		ops = append(ops, "r2")
	}
	ops = append(ops, "c=0", fmt.Sprintf("s%d,0", tgt), fmt.Sprintf("r%d", rnd.rng(2, 6)))
	if strings.HasPrefix(kind, "S") {
		ops = append(ops, "S")
	}
	cs.Ops = ops
	return cs
}

// the two witness histories (three members AAAAAA BBBBBB CCCC, no marker)
func c03WitnessStale(kind string, cp int) c03Case {
	return c03Case{Payloads: []string{"414141414141", "424242424242", "43434343"}, Rd: 1, Tag: "witness-stale",
		Ops: []string{fmt.Sprintf("c%s,%d", kind, cp), "s1,0", "s2,4", "r1", "s0,0", "s2,0", "r3", "r3", "r3"}}
}

// Seek served from the cache with read-ahead running (no eviction involved; fails in most runs without repair C03-3)
func c03WitnessSeekHit(variant int) c03Case {
	cs := c03Case{Payloads: []string{"41414141", "42424242", "43434343", "44444444"}, Rd: 2, Tag: "witness-seekhit"}
	if variant == 0 {
		cs.Ops = []string{"cL,1", "s2,0", "s0,0", "r7"}
	} else {
		cs.Ops = []string{"cL,1", "s3,0", "r1", "s0,0", "r8"}
	}
	return cs
}

// c03ProbeFailReset tells whether a block whose load failed is reset (repair C09-2, decompressor.failAt).  Nothing a
// caller can see depends on it; the reader's Put calls do: the block that fails at the end of the file has been read
// from (used); it is re-loaded with b2 without being read, goes through the cache, becomes current again while the
// LRU(1) is full, and is then offered: a reset block is unused and refused ("P70=r"), an unreset one evicts ("P70=e0").
func c03ProbeFailReset() c03Case {
	return c03Case{Payloads: []string{"414141414141", "424242424242", "43434343"}, Rd: 1, Tag: "probe-failreset",
		Ops: []string{"r20", "s2,0", "cL,1", "s0,0", "r1", "s2,0", "s1,0"}}
}

func c03WitnessFifo(kind string, rd int) c03Case {
	return c03Case{Payloads: []string{"414141414141", "424242424242", "43434343"}, Rd: rd, Tag: "witness-fifo",
		Ops: []string{fmt.Sprintf("c%s,2", kind), "r2", "s1,0", "r2", "s0,0", "r6", "s2,0", "r4", "s0,1", "r5"}}
}

// ------------------------------------------------------------------------------------------------------------

type c03Ctx struct {
	c        *ctx
	res      *Result
	suspects []c03Case // cases whose child did not answer in time: re-run alone at the end
	mu       sync.Mutex
	lines    []string // model lines
	impl     []string
	hangs28  int
	cfg      string
}

// c03KindAt names the cache attached when call i is made: its kind, plus ".reattached" when that cache object
// had been replaced (by SetCache(nil) or another cache) and attached again earlier in the history.
func c03KindAt(ops []string, i int) string {
	var kinds []string
	var detached []bool
	cur, re := -1, false
	for j := 0; j <= i && j < len(ops); j++ {
		op := ops[j]
		if op[0] != 'c' {
			continue
		}
		if cur >= 0 {
			detached[cur] = true
		}
		switch {
		case op == "c-":
			cur, re = -1, false
		case op[1] == '=':
			k, _ := strconv.Atoi(op[2:])
			if k < len(kinds) {
				cur, re = k, detached[k]
			}
		default:
			kinds = append(kinds, c14KindName[strings.Split(op[1:], ",")[0]])
			detached = append(detached, false)
			cur, re = len(kinds)-1, false
		}
	}
	// a history that has installed caches of both families (FIFO keeps the used block it hands out, the others give it
	// away) can move one block between two tables: recorded finding c03.rd=1.*.cross-kind.* (bg.lent remembers one loan)
	fifoFam, otherFam := false, false
	for _, k := range kinds {
		if strings.Contains(k, "FIFO") {
			fifoFam = true
		} else {
			otherFam = true
		}
	}
	cross := ""
	if fifoFam && otherFam {
		cross = ".cross-kind"
	}
	if cur < 0 {
		return "none" + cross
	}
	if re {
		return kinds[cur] + ".reattached" + cross
	}
	return kinds[cur] + cross
}

// c03RaceShape classifies a history by what can remove a member from the cache between the moment the
// read-ahead worker Peeks it (and skips it) and the moment the consumer Gets it:
//
//	"setcache": the history replaces or detaches a cache after one was attached (SetCache while reading ahead);
//	"evicting": no such switch, but a cache with fewer slots than the file has members is attached (a Put can evict);
//	"reseek":   neither, but at least two Seeks follow the attachment: a Seek served from the cache redirects the
//	            worker while decompressors with blocks for the old position are still in flight; nothing is taken
//	            away from the cache, but the stale blocks can outnumber the cap(working) mismatches nextBlock
//	            tolerates (the second mechanism of the recorded finding; needs no eviction);
//	"stable":   none of these — every member fits, the cache is attached once and at most one Seek follows:
//	            neither mechanism of the recorded finding applies, a failure here is a different defect.
func c03RaceShape(cs c03Case) string {
	attached, switched, small := false, false, false
	seeks := 0
	members := len(cs.Payloads)
	if cs.Marker {
		members++
	}
	for _, op := range cs.Ops {
		if op != "" && op[0] == 's' && attached {
			seeks++
		}
		if op == "" || op[0] != 'c' {
			continue
		}
		if attached {
			switched = true
		}
		if op == "c-" {
			continue
		}
		attached = true
		if op[1] != '=' {
			if f := strings.Split(op[1:], ","); len(f) == 2 {
				if n, err := strconv.Atoi(f[1]); err == nil && n < members {
					small = true
				}
			}
		}
	}
	switch {
	case switched:
		return "setcache"
	case small:
		return "evicting"
	case seeks >= 2:
		return "reseek"
	}
	return "stable"
}

// judge compares cached with uncached (oracle) and queues the model line (rd = 1).
func (x *c03Ctx) judge(cs c03Case, ans c03Answer, status, msg, frame string, model bool) (failed bool) {
	res := x.res
	x.mu.Lock()
	defer x.mu.Unlock()
	kind := "none"
	for _, op := range cs.Ops {
		if op[0] == 'c' && op != "c-" {
			kind = c14KindName[strings.Split(op[1:], ",")[0]]
			break
		}
	}
	rdc := "rd=1"
	if cs.Rd > 1 {
		rdc = "rd>1"
	}
	anyDiff := false
	for i := range ans.Uncached {
		if cs.Ops[i] != "S" && (i >= len(ans.Cached) || ans.Cached[i] != ans.Uncached[i]) {
			anyDiff = true
		}
	}
	if strings.HasPrefix(cs.Tag, "witness:") && (status != "ok" || ans.Panic != "" || anyDiff) {
		res.fail(strings.TrimPrefix(cs.Tag, "witness:"),
			fmt.Sprintf("%s cache, rd=%d: %s %s%s (%s)", kind, cs.Rd, status, msg, ans.Panic, frame), cs)
		return true
	}
	if cs.Tag == "witness-seekhit" && (status != "ok" || ans.Panic != "" || anyDiff) {
		res.fail("c03.rd>1.seek-cache-hit.worker-not-redirected",
			fmt.Sprintf("%s cache, rd=%d: after a Seek that was served from the cache, reading on past the end of that block: %s %s%s (%s)", kind, cs.Rd, status, msg, ans.Panic, frame), cs)
		return true
	}
	// rd>1: the signature names what in the history can take a member away from under the read-ahead worker
	// (c03RaceShape) and what exactly went wrong, so that a recorded finding covers that race only.
	if cs.Rd > 1 {
		rdc += "." + c03RaceShape(cs)
	}
	switch status {
	case "hang":
		res.fail("c03."+rdc+".hang:"+frame, fmt.Sprintf("%s cache, rd=%d: %s", kind, cs.Rd, msg), cs)
		return true
	case "crash":
		what := "crash"
		if strings.Contains(msg, "bgzf: unexpected block") {
			what = "unexpected-block"
		} else if strings.Contains(msg, "all goroutines are asleep") {
			what = "hang" // the dead-lock, noticed by the runtime before the time limit
		}
		res.fail("c03."+rdc+"."+what+":"+frame, fmt.Sprintf("%s cache, rd=%d: %s", kind, cs.Rd, msg), cs)
		return true
	}
	if ans.Err != "" {
		res.note("case could not be run: %s", ans.Err)
		return false
	}
	if ans.Panic != "" {
		what := "panic"
		if strings.Contains(ans.Panic, "bgzf: unexpected block") {
			what = "unexpected-block"
		}
		res.fail("c03."+rdc+"."+what+":"+ans.PanicAt, fmt.Sprintf("%s cache, rd=%d: %s", kind, cs.Rd, ans.Panic), cs)
		return true
	}
	for i := range ans.Uncached {
		if i >= len(ans.Cached) || ans.Cached[i] != ans.Uncached[i] {
			// the cache attached at this call, and whether it had been detached and attached again before
			kind = c03KindAt(cs.Ops, i)
			got := "(missing)"
			if i < len(ans.Cached) {
				got = ans.Cached[i]
			}
			if cs.Ops[i] == "S" {
				continue
			}
			u, g := strings.Split(ans.Uncached[i], "/"), strings.Split(got, "/")
			cls := "bytes"
			if len(g) == 3 && len(u) == 3 {
				switch {
				case u[0] != g[0]:
					cls = "bytes"
				case u[1] != g[1]:
					cls = "error"
				default:
					cls = "lastchunk"
				}
			}
			short := cs
			short.Ops = cs.Ops[:i+1]
			res.fail(fmt.Sprintf("c03.%s.%s.differs.%s", rdc, kind, cls),
				fmt.Sprintf("%s cache, rd=%d, call %d (%s): uncached reader returned %s, cached reader %s", kind, cs.Rd, i, cs.Ops[i], ans.Uncached[i], got), short)
			failed = true
			break
		}
	}
	fifo := false
	for _, op := range cs.Ops {
		if strings.HasPrefix(op, "cF,") || strings.HasPrefix(op, "cSF,") {
			fifo = true
		}
	}
	if fifo && (x.cfg[0] == '0' || x.cfg[3] == '0') && model {
		// Without repair C03-2 a FIFO cache ends up indexing blocks the reader has overwritten; from then on the
		// implementation's remove() deletes table[current base] while the model deletes the node's key (documented
		// simplification of Hts.Model.Cache).  The oracle judges these histories; the model is not compared.
		res.hist("model not compared: FIFO on a tree without repair C03-2 or C03-5")
		model = false
	}
	if model && cs.Rd == 1 && len(ans.Cached) == len(cs.Ops) {
		var sb strings.Builder
		fmt.Fprintf(&sb, "c03.run %s", x.cfg)
		for i := range ans.Bases {
			p := cs.Payloads
			_ = p
			fmt.Fprintf(&sb, " %d,%d,%s", ans.Bases[i], ans.Sizes[i], x.payloadHex(cs, i))
		}
		sb.WriteString(" |")
		want := []string{"ok"}
		for i, op := range cs.Ops {
			switch {
			case op[0] == 's':
				a := strings.Split(op[1:], ",")
				m, _ := strconv.Atoi(a[0])
				fmt.Fprintf(&sb, " s%d,%s", ans.Bases[m], a[1])
			case op[0] == 'c' && op != "c-":
				fmt.Fprintf(&sb, " %s%s", op, ans.Hints[i])
			default:
				sb.WriteString(" " + op)
			}
			if op == "S" {
				want = append(want, ans.Cached[i])
			} else {
				want = append(want, ans.Cached[i]+"/"+ans.Calls[i])
			}
		}
		x.lines = append(x.lines, sb.String())
		x.impl = append(x.impl, strings.Join(want, " "))
	}
	return failed
}

func (x *c03Ctx) payloadHex(cs c03Case, i int) string {
	if i < len(cs.Payloads) {
		if cs.Payloads[i] == "-" {
			return "-"
		}
		if p := cs.Payloads[i]; strings.HasPrefix(p, "R") {
			if f := strings.Split(p[1:], "x"); len(f) == 2 {
				n, _ := strconv.Atoi(f[1])
				return strings.Repeat(f[0], n)
			}
		}
		return cs.Payloads[i]
	}
	return "-" // the trailing EOF marker
}

func (x *c03Ctx) flushModel(stream string) {
	res := x.res
	if len(x.lines) == 0 {
		return
	}
	const W = 6
	chunk := (len(x.lines) + W - 1) / W
	outs := make([][]string, W)
	errs := make([]error, W)
	var wg sync.WaitGroup
	for w := 0; w < W; w++ {
		lo, hi := w*chunk, imin((w+1)*chunk, len(x.lines))
		if lo >= hi {
			continue
		}
		wg.Add(1)
		go func(w, lo, hi int) {
			defer wg.Done()
			d := x.c.drv()
			d.lines = x.lines[lo:hi]
			outs[w], errs[w] = d.run()
		}(w, lo, hi)
	}
	wg.Wait()
	for w := 0; w < W; w++ {
		lo := w * chunk
		if errs[w] != nil {
			res.disagree(stream, "(driver failure)", "", errs[w].Error())
			continue
		}
		for i, m := range outs[w] {
			res.ModelOps += strings.Count(m, " ") + 1
			if m != x.impl[lo+i] {
				mi, ii := strings.Fields(m), strings.Fields(x.impl[lo+i])
				k := 0
				for k < len(mi) && k < len(ii) && mi[k] == ii[k] {
					k++
				}
				iv, mv := "(end)", "(end)"
				if k < len(ii) {
					iv = ii[k]
				}
				if k < len(mi) {
					mv = mi[k]
				}
				res.disagree(stream, fmt.Sprintf("answer %d of %s", k, x.lines[lo+i]), iv, mv)
			}
		}
	}
	x.lines, x.impl = nil, nil
}

func checkC03(c *ctx) {
	if os.Getenv("C03_CHILD") == "1" {
		c03Child()
		os.Exit(0)
	}
	res := c.res
	res.Rule = "files: 2-6 members with 1-9 byte payloads (member i filled with the letter 'A'+i), 1 in 8 members empty, with and without the EOF marker; " +
		"histories of 8-40 calls over Seek(member, k <= len; k = 0, k = len, inside), Read(0 .. total+2 bytes; 1; exactly one member), ReadByte, Blocked on/off, " +
		"SetCache(kind, capacity 1..4) at a random point (and again later, and SetCache(nil)); 3 in 4 seeks revisit a member touched at most capacity+1 seeks ago; " +
		"each history is run uncached (rd=1) and with the cache for rd=1 (compared with the Lean model call by call, including the reader's Get/Put calls on the cache) and rd=2,3. " +
		"A case is non-trivial when the cached run makes at least one cache hit or eviction; distinct = distinct (file, history, kind, capacity, rd)."
	x := &c03Ctx{c: c, res: res, cfg: "0000"}
	if c.replay != "" {
		var cs c03Case
		if err := loadReplay(c.replay, &cs); err != nil {
			res.note("replay: %v", err)
			return
		}
		p, err := c03Start()
		if err != nil {
			res.note("replay: %v", err)
			return
		}
		n := 1
		if cs.Rd > 1 {
			n = 300 // schedules differ from run to run
		}
		for i := 0; i < n; i++ {
			ans, st, msg, fr := p.ask(cs)
			res.eval("replay", true)
			if x.judge(cs, ans, st, msg, fr, false) {
				break
			}
			if st != "ok" {
				break
			}
		}
		p.kill()
		return
	}
	t0 := time.Now()
	lap := func(what string) {
		res.note("%s: %.1fs", what, time.Since(t0).Seconds())
		t0 = time.Now()
	}

	// ---- which code variant is this tree?  (the witnesses of the two defects, smallest inputs first)
	p0, err := c03Start()
	if err != nil {
		res.disagree("C03", "(cannot start child process)", err.Error(), "")
		return
	}
	clear, guardp := "1", "1"
	for _, k := range []string{"L", "R", "SL"} {
		cs := c03WitnessStale(k, 1)
		ans, st, msg, fr := p0.ask(cs)
		res.eval("witness-stale"+k, true)
		res.hist("witness: block recycled after a failed read keeps its data")
		if x.judge(cs, ans, st, msg, fr, false) {
			clear = "0"
		}
		if st != "ok" {
			p0, _ = c03Start()
		}
	}
	for _, k := range []string{"F", "SF"} {
		cs := c03WitnessFifo(k, 1)
		ans, st, msg, fr := p0.ask(cs)
		res.eval("witness-fifo"+k, true)
		res.hist("witness: FIFO keeps a used block indexed, reader recycles it")
		if x.judge(cs, ans, st, msg, fr, false) {
			guardp = "0"
		}
		if st != "ok" {
			p0, _ = c03Start()
		}
	}
	// Seek served from the cache with read-ahead running.  Without repair C03-3 this fails on every run; with it a
	// run can still fail now and then through the eviction race of the recorded finding (judged as such).
	for v := 0; v < 2; v++ {
		cs := c03WitnessSeekHit(v)
		type one struct {
			ans      c03Answer
			st, m, f string
		}
		var bad []one
		const reps = 40
		for rep := 0; rep < reps; rep++ {
			ans, st, msg, fr := p0.askT(cs, 1500*time.Millisecond)
			res.eval(fmt.Sprint("witness-seekhit", v, rep), true)
			res.hist("witness: Seek served from the cache with read-ahead running")
			differs := false
			for i := range ans.Uncached {
				if i >= len(ans.Cached) || ans.Cached[i] != ans.Uncached[i] {
					differs = true
				}
			}
			if st != "ok" || ans.Panic != "" || differs {
				bad = append(bad, one{ans, st, msg, fr})
			}
			if st != "ok" {
				p0, _ = c03Start()
			}
		}
		res.note("witness Seek-from-cache with read-ahead, variant %d: %d of %d runs failed", v, len(bad), reps)
		if len(bad) >= reps/2 {
			x.judge(cs, bad[0].ans, bad[0].st, bad[0].m, bad[0].f, false)
		} else {
			cs.Tag = ""
			for _, b := range bad {
				x.judge(cs, b.ans, b.st, b.m, b.f, false)
			}
		}
	}
	failReset := "0"
	{
		cs := c03ProbeFailReset()
		ans, st, msg, fr := p0.ask(cs)
		res.eval("probe-failreset", true)
		res.hist("probe: is a block reset after a failed load (variant detection only)")
		x.judge(cs, ans, st, msg, fr, false)
		if st != "ok" {
			p0, _ = c03Start()
		} else if n := len(ans.Calls); n > 0 && strings.Contains(ans.Calls[n-1], "P70=r") {
			failReset = "1"
		}
	}
	// A FIFO (which keeps the used block it hands out) is detached, the reader moves on, the same FIFO is attached again.
	lent := "1"
	for _, k := range []string{"F", "SF"} {
		cs := c03Case{Payloads: []string{"414141414141", "424242424242", "43434343"}, Rd: 1, Tag: "witness-reattach",
			Ops: []string{"c" + k + ",4", "r8", "s0,0", "c-", "s2,0", "c=0", "s0,0", "r2"}}
		ans, st, msg, fr := p0.ask(cs)
		res.eval("witness-reattach"+k, true)
		res.hist("witness: FIFO detached, reader moves on, same FIFO attached again")
		if x.judge(cs, ans, st, msg, fr, false) {
			lent = "0"
		}
		if st != "ok" {
			p0, _ = c03Start()
		}
	}
	// A block on loan from a FIFO is Put into an LRU after the FIFO has been detached; the LRU later hands it over as the
	// reader's own while the detached FIFO still indexes it; it is recycled; the FIFO, attached again, answers with
	// another member's data (recorded finding: theorem Hts.Props.C03.all_kinds_transparent_full_false).
	{
		cs := c03Case{Payloads: []string{"414141414141", "424242424242", "43434343"}, Rd: 1, Tag: "witness-cross-kind",
			Ops: []string{"cF,4", "r8", "s0,0", "cL,1", "s2,0", "r1", "c=0", "s1,0", "c=1", "s0,0", "c-", "s2,0", "c=0", "s0,0", "r2"}}
		ans, st, msg, fr := p0.ask(cs)
		res.eval("witness-cross-kind", true)
		res.hist("witness: a block moves between a FIFO and an LRU through SetCache")
		x.judge(cs, ans, st, msg, fr, false)
		if st != "ok" {
			p0, _ = c03Start()
		}
	}
	// Seek served from the cache while every decompressor holds a stale read-ahead block (the goroutine has run dry):
	// (a) reading on must find the next member; (b) a following Seek to the member at the head of `working` must return.
	for _, w := range []struct {
		sig string
		ops []string
	}{
		{"c03.rd>1.seek-cache-hit.stale-readahead-blocks", []string{"cL,4", "s5,0", "s0,0", "z", "s5,0", "r100"}},
		{"c03.rd>1.seek-cache-hit.control-not-drained", []string{"cL,4", "s5,0", "s0,0", "z", "s5,0", "s1,0", "r2"}},
	} {
		cs := c03Case{Payloads: []string{"4141", "4242", "4343", "4444", "4545", "4646", "4747"}, Marker: true, Rd: 2,
			Tag: "witness:" + w.sig, Ops: w.ops}
		bad := 0
		const reps = 20
		var first struct {
			ans      c03Answer
			st, m, f string
		}
		for rep := 0; rep < reps; rep++ {
			ans, st, msg, fr := p0.askT(cs, 1500*time.Millisecond)
			res.eval(fmt.Sprint(w.sig, rep), true)
			res.hist("witness: Seek from the cache with all decompressors holding stale read-ahead blocks")
			differs := false
			for i := range ans.Uncached {
				if i >= len(ans.Cached) || ans.Cached[i] != ans.Uncached[i] {
					differs = true
				}
			}
			if st != "ok" || ans.Panic != "" || differs {
				if bad == 0 {
					first.ans, first.st, first.m, first.f = ans, st, msg, fr
				}
				bad++
			}
			if st != "ok" {
				p0, _ = c03Start()
			}
		}
		res.note("witness %s: %d of %d runs failed", w.sig, bad, reps)
		if bad >= reps/2 {
			x.judge(cs, first.ans, first.st, first.m, first.f, false)
		} else if bad > 0 {
			cs.Tag = ""
			x.judge(cs, first.ans, first.st, first.m, first.f, false)
		}
	}
	p0.kill()
	x.cfg = guardp + clear + failReset + lent
	res.note("code variant detected from the witnesses: peekGuard=%s clearOnRebase=%s failReset=%s lentGuard=%s (model run with this variant)", guardp, clear, failReset, lent)
	lap("witnesses")

	// ---- random cases, W children
	nCases := 4000
	if c.thorough() {
		nCases = 60000
	}
	type job struct {
		cs    c03Case
		model bool
	}
	jobs := make(chan job, 64)
	var wg sync.WaitGroup
	const W = 6
	var skip28 int32
	for w := 0; w < W; w++ {
		wg.Add(1)
		go func() {
			defer wg.Done()
			p, err := c03Start()
			if err != nil {
				return
			}
			defer func() { p.kill() }()
			for j := range jobs {
				if j.cs.Rd > 1 {
					x.mu.Lock()
					s := x.hangs28 >= 30
					x.mu.Unlock()
					if s {
						x.mu.Lock()
						res.hist("skipped: rd>1 with a cache after 30 calls that did not return in time")
						skip28++
						x.mu.Unlock()
						continue
					}
				}
				tq := time.Now()
				limit := c03Timeout
				if j.cs.Rd > 1 {
					limit = c03Timeout / 2 // these are re-run alone with a longer limit before being judged
				}
				ans, st, msg, fr := p.askT(j.cs, limit)
				x.mu.Lock()
				res.hist("child answer: " + st)
				_ = tq
				x.mu.Unlock()
				if st == "hang" {
					// a loaded machine can stall a child for seconds: judged when it reproduces alone (below)
					x.mu.Lock()
					if len(x.suspects) < 24 {
						x.suspects = append(x.suspects, j.cs)
					}
					x.mu.Unlock()
				} else {
					x.judge(j.cs, ans, st, msg, fr, j.model)
				}
				if st != "ok" {
					if j.cs.Rd > 1 && st == "hang" {
						x.mu.Lock()
						x.hangs28++
						x.mu.Unlock()
					}
					p, err = c03Start()
					if err != nil {
						return
					}
				}
				x.mu.Lock()
				hits := 0
				for _, cl := range ans.Calls {
					hits += strings.Count(cl, "=1") + strings.Count(cl, "=e")
				}
				key, _ := json.Marshal(j.cs)
				res.eval(string(key), hits > 0 || j.cs.Rd > 1)
				x.mu.Unlock()
			}
		}()
	}
	for i := 0; i < nCases; i++ {
		payloads, lens := c03GenFile(c.rnd)
		kind := c03Kinds[c.rnd.intn(len(c03Kinds))]
		cp := c.rnd.rng(1, 4)
		nops := c.rnd.rng(8, 40)
		setAt := 0
		if c.rnd.coin(1, 2) {
			setAt = c.rnd.intn(nops / 2)
		}
		cs := c03Case{Payloads: payloads, Marker: c.rnd.coin(1, 2), Rd: 1}
		if cs.Marker {
			lens = append(lens, 0)
		}
		cs.Ops = c03GenOps(c.rnd, lens, kind, cp, nops, setAt)
		if strings.HasPrefix(kind, "S") {
			cs.Ops = append(cs.Ops, "S")
		}
		x.mu.Lock()
		res.hist("case: " + c14KindName[kind])
		res.hist(fmt.Sprintf("case: capacity %d", cp))
		res.hist(fmt.Sprintf("case: %d members%s", len(payloads), map[bool]string{true: " + marker", false: ""}[cs.Marker]))
		if setAt > 0 {
			res.hist("case: SetCache after the first call")
		} else {
			res.hist("case: SetCache before the first call")
		}
		if i < 3 {
			res.sample(cs)
		}
		x.mu.Unlock()
		jobs <- job{cs, true}
		// the same history with read-ahead
		for _, rd := range []int{2, 3} {
			if c.rnd.coin(1, 2) {
				cs2 := cs
				cs2.Rd = rd
				x.mu.Lock()
				res.hist(fmt.Sprintf("case: rd=%d with cache", rd))
				x.mu.Unlock()
				jobs <- job{cs2, false}
			}
		}
	}
	// ---- targeted families (oracle only: cached against uncached implementation)
	nExtreme, nHandover := 90, 240
	nExtremeModel := 0
	if c.thorough() {
		nExtreme, nHandover = 900, 3000
	}
	for i := 0; i < nExtreme; i++ {
		cs := c03GenExtreme(c.rnd)
		x.mu.Lock()
		res.hist("family: member with a 65536-byte (or nearly) payload, read to its end, cached, re-entered sequentially")
		x.mu.Unlock()
		// the first few rd = 1 ones also go through the Lean model (in-block offsets are uint16 there as well)
		toModel := cs.Rd == 1 && nExtremeModel < 6
		if toModel {
			nExtremeModel++
		}
		jobs <- job{cs, toModel}
	}
	for i := 0; i < nHandover; i++ {
		cs := c03GenHandover(c.rnd)
		x.mu.Lock()
		res.hist("family: read-ahead hands the Seek target over, detach, decompressing Seek, re-attach, Seek back")
		x.mu.Unlock()
		jobs <- job{cs, false}
	}
	close(jobs)
	wg.Wait()
	lap("random cases (implementation)")
	// ---- calls that did not return: each case again, alone, with a longer limit
	for _, cs := range x.suspects {
		tries := 1
		if cs.Rd > 1 {
			tries = 4
		}
		reproduced := false
		for t := 0; t < tries && !reproduced; t++ {
			p, err := c03Start()
			if err != nil {
				break
			}
			ans, st, msg, fr := p.askT(cs, 4*c03Timeout)
			if st != "ok" {
				x.judge(cs, ans, st, msg, fr, false)
				reproduced = true
			}
			p.kill()
		}
		if reproduced {
			res.hist("time-out: reproduced alone")
		} else {
			res.hist("time-out: not reproduced alone (attributed to machine load, not judged)")
		}
	}
	lap("re-run of timed-out cases")
	x.flushModel("C03.rd1")
	lap("model")
}
