package main

// C02 — virtual offsets address the flat stream.
//
// Files are assembled from members produced by the library's bgzf.Writer (Write+Flush per data block,
// the empty block and the EOF marker written by Close), so that empty blocks can stand in front, in the
// middle and at the end, with and without the marker.  Every history is run on the implementation for
// rd in {0,1,2,4} (raw bytes.Reader or a randomly delayed ReadSeeker, GOMAXPROCS 1/4/16) and
//   * judged by an oracle that only uses a flat copy of the data and the block table (no Lean model),
//   * compared per operation with the Lean model (c02.run) and the Lean flat specification (c02.flat).

import (
	"bytes"
	"compress/flate"
	"encoding/binary"
	"encoding/json"
	"errors"
	"fmt"
	"hash/crc32"
	"io"
	"runtime"
	"strconv"
	"strings"
	"time"

	"github.com/biogo/hts/bgzf"
)

func init() { checks["C02"] = checkC02 }

// ---------------------------------------------------------------------------
// file construction

type c02Block struct {
	Kind string `json:"kind"` // "data" | "empty" (the empty block Close writes) | "marker" (the EOF marker) | "hand"
	Len  int    `json:"len"`
	Seed int    `json:"seed"`
	// "hand": a member framed by the harness itself (what another BGZF writer may legally produce):
	// Stored > 0: the payload in that many stored deflate blocks, else deflated at flate.BestSpeed.
	Stored int `json:"stored,omitempty"`
}

// c02HandMember frames one BGZF member from the specification: 18-byte header with the BC sub-field, the
// deflate stream, CRC-32, ISIZE.  The total size may be anything up to 65536 (BSIZE 0xffff) and the payload
// anything up to 65536 bytes (ISIZE 0x10000), the limits of the format.
func c02HandMember(payload []byte, stored int) ([]byte, error) {
	var body bytes.Buffer
	if stored > 0 {
		rest := payload
		for i := 0; i < stored; i++ {
			n := (len(rest) + (stored - i) - 1) / (stored - i)
			if n > 65535 {
				return nil, fmt.Errorf("stored block of %d bytes", n)
			}
			final := byte(0)
			if i == stored-1 {
				final = 1
			}
			body.Write([]byte{final, byte(n), byte(n >> 8), byte(^n), byte(^n >> 8)})
			body.Write(rest[:n])
			rest = rest[n:]
		}
	} else {
		fw, err := flate.NewWriter(&body, flate.BestSpeed)
		if err != nil {
			return nil, err
		}
		if _, err = fw.Write(payload); err != nil {
			return nil, err
		}
		if err = fw.Close(); err != nil {
			return nil, err
		}
	}
	var tr [8]byte
	binary.LittleEndian.PutUint32(tr[:], crc32.ChecksumIEEE(payload))
	binary.LittleEndian.PutUint32(tr[4:], uint32(len(payload)))
	body.Write(tr[:])
	size := 18 + body.Len()
	if size > 65536 {
		return nil, fmt.Errorf("hand-framed member of %d bytes does not fit BSIZE", size)
	}
	hdr := []byte{0x1f, 0x8b, 8, 4, 0, 0, 0, 0, 0, 0xff, 6, 0, 'B', 'C', 2, 0, byte(size - 1), byte((size - 1) >> 8)}
	return append(hdr, body.Bytes()...), nil
}

// c02Extreme: the members at the limits of the format.  (payload, stored blocks): total size exactly 65536
// (BSIZE 0xffff) in two ways, 65535, payload exactly 65536 (the largest legal ISIZE) and 65535.
var c02Extreme = []c02Block{
	{Kind: "hand", Len: 65280, Stored: 46}, // 18 + 65280 + 46*5 + 8 = 65536
	{Kind: "hand", Len: 65505, Stored: 1},  // 18 + 65505 + 5 + 8 = 65536
	{Kind: "hand", Len: 65279, Stored: 46}, // 65535
	{Kind: "hand", Len: 65536},             // deflated, ISIZE 0x10000
	{Kind: "hand", Len: 65535},
}

// genC02ExtremeFile: a file around one or two members at the limits of the format.
func genC02ExtremeFile(rnd *Rand, allow64k bool) *c02File {
	f := &c02File{}
	small := func() c02Block {
		return c02Block{Kind: "data", Len: rnd.pick([]int{1, 2, 7, 100, 700}), Seed: rnd.intn(256)}
	}
	if rnd.coin(1, 2) {
		f.Blocks = append(f.Blocks, small())
	}
	if rnd.coin(1, 4) {
		f.Blocks = append(f.Blocks, c02Block{Kind: "empty"})
	}
	for i, n := 0, rnd.pick([]int{1, 1, 2}); i < n; i++ {
		b := c02Extreme[rnd.intn(len(c02Extreme))]
		if b.Len > 65535 && !allow64k {
			b = c02Extreme[0]
		}
		b.Seed = rnd.intn(256)
		f.Blocks = append(f.Blocks, b)
		if rnd.coin(1, 3) {
			f.Blocks = append(f.Blocks, c02Block{Kind: "empty"})
		}
	}
	f.Blocks = append(f.Blocks, small())
	if rnd.coin(1, 2) {
		f.Blocks = append(f.Blocks, c02Block{Kind: "marker"})
	}
	return f
}

type c02File struct {
	Blocks []c02Block `json:"blocks"`
	// derived
	raw    []byte
	flat   []byte
	base   []int64 // compressed start of each block
	csize  []int
	start  []int // logical start of each block
	blen   []int
	total  int
	length int64
}

func c02Payload(seed, n int) []byte {
	b := make([]byte, n)
	for j := range b {
		if seed >= 1000 {
			// incompressible: an integer hash of the position (a full block then compresses to a
			// member longer than BlockSize, up to MaxBlockSize)
			x := uint32(seed*31 + j)
			x ^= x >> 16
			x *= 0x45d9f3b
			x ^= x >> 16
			x *= 0x45d9f3b
			x ^= x >> 16
			b[j] = byte(x)
		} else {
			b[j] = byte((seed + j + (j/256)*13) % 256)
		}
	}
	return b
}

// splitMembers is the harness's own BGZF framing parser: gzip header, FEXTRA, the BC sub-field.
func splitMembers(raw []byte) ([][]byte, error) {
	var out [][]byte
	for len(raw) > 0 {
		if len(raw) < 18 || raw[0] != 0x1f || raw[1] != 0x8b || raw[3]&4 == 0 {
			return nil, errors.New("not a BGZF member")
		}
		xlen := int(binary.LittleEndian.Uint16(raw[10:12]))
		if len(raw) < 12+xlen {
			return nil, errors.New("short extra field")
		}
		extra := raw[12 : 12+xlen]
		size := -1
		for len(extra) >= 4 {
			sl := int(binary.LittleEndian.Uint16(extra[2:4]))
			if len(extra) < 4+sl {
				break
			}
			if extra[0] == 'B' && extra[1] == 'C' && sl == 2 {
				size = int(binary.LittleEndian.Uint16(extra[4:6])) + 1
			}
			extra = extra[4+sl:]
		}
		if size < 0 || size > len(raw) {
			return nil, errors.New("no BSIZE")
		}
		out = append(out, raw[:size])
		raw = raw[size:]
	}
	return out, nil
}

// build writes the data blocks with the library writer and assembles the members in the planned order.
func (f *c02File) build() error {
	var buf bytes.Buffer
	var werr error
	o := guardTimeout(20*time.Second, func() {
		w := bgzf.NewWriter(&buf, 1)
		for _, b := range f.Blocks {
			if b.Kind != "data" || b.Len == 0 {
				continue
			}
			if _, err := w.Write(c02Payload(b.Seed, b.Len)); err != nil {
				werr = err
				return
			}
			if err := w.Flush(); err != nil {
				werr = err
				return
			}
		}
		werr = w.Close()
	})
	if o.timedOut || o.panicked {
		return fmt.Errorf("writer: timeout=%v panic=%v", o.timedOut, o.panicVal)
	}
	if werr != nil {
		return werr
	}
	ms, err := splitMembers(buf.Bytes())
	if err != nil {
		return err
	}
	nd := 0
	for _, b := range f.Blocks {
		if b.Kind == "data" && b.Len > 0 {
			nd++
		}
	}
	if len(ms) != nd+2 {
		return fmt.Errorf("writer produced %d members for %d data blocks", len(ms), nd)
	}
	emptyM, markerM := ms[nd], ms[nd+1]
	f.raw, f.flat, f.base, f.csize, f.start, f.blen = nil, nil, nil, nil, nil, nil
	k := 0
	for _, b := range f.Blocks {
		var m []byte
		var payload []byte
		switch {
		case b.Kind == "data" && b.Len > 0:
			m = ms[k]
			k++
			payload = c02Payload(b.Seed, b.Len)
		case b.Kind == "hand":
			payload = c02Payload(b.Seed, b.Len)
			if m, err = c02HandMember(payload, b.Stored); err != nil {
				return err
			}
		case b.Kind == "marker":
			m = markerM
		default:
			m = emptyM
		}
		f.base = append(f.base, int64(len(f.raw)))
		f.csize = append(f.csize, len(m))
		f.start = append(f.start, len(f.flat))
		f.blen = append(f.blen, len(payload))
		f.raw = append(f.raw, m...)
		f.flat = append(f.flat, payload...)
	}
	f.total = len(f.flat)
	f.length = int64(len(f.raw))
	return nil
}

func (f *c02File) modelBlocks() string {
	var sb strings.Builder
	for i, b := range f.Blocks {
		if i > 0 {
			sb.WriteByte(',')
		}
		fmt.Fprintf(&sb, "%d:%d:%d", f.blen[i], f.csize[i], b.Seed)
	}
	return sb.String()
}

// has64k: some member holds the largest legal payload, 65536 bytes (outside the Lean model's WF: payload < 65536).
func (f *c02File) has64k() bool {
	for _, n := range f.blen {
		if n > 0xffff {
			return true
		}
	}
	return false
}

// endAfter is the exact End the property demands after a read that delivered the bytes up to logical position q
// (q > 0, no EOF involved): the block that holds byte q-1 and the offset behind that byte; behind the last byte of
// a 65536-byte block there is no such offset and the position is the start of the next member.
func (f *c02File) endAfter(q int) (bgzf.Offset, bool) {
	for i := range f.start {
		if f.blen[i] > 0 && f.start[i] < q && q <= f.start[i]+f.blen[i] {
			if k := q - f.start[i]; k <= 0xffff {
				return bgzf.Offset{File: f.base[i], Block: uint16(k)}, true
			}
			return bgzf.Offset{File: f.base[i] + int64(f.csize[i])}, true
		}
	}
	return bgzf.Offset{}, false
}

// translate is the oracle's reading of a virtual offset: block start + in-block offset, or the end of
// the file for (fileLen, 0).
func (f *c02File) translate(o bgzf.Offset) (int, bool) {
	for i, b := range f.base {
		if b == o.File {
			if int(o.Block) <= f.blen[i] {
				return f.start[i] + int(o.Block), true
			}
			return 0, false
		}
	}
	if o.File == f.length && o.Block == 0 {
		return f.total, true
	}
	return 0, false
}

// blockRem: bytes left in the block that holds logical position pos.
func (f *c02File) blockRem(pos int) int {
	for i := range f.start {
		if f.start[i] <= pos && pos < f.start[i]+f.blen[i] {
			return f.start[i] + f.blen[i] - pos
		}
	}
	return 0
}

// canonical offset of the byte at pos (the expected Begin of a read at pos)
func (f *c02File) offsetOf(pos int) (bgzf.Offset, bool) {
	for i := range f.start {
		if f.start[i] <= pos && pos < f.start[i]+f.blen[i] {
			return bgzf.Offset{File: f.base[i], Block: uint16(pos - f.start[i])}, true
		}
	}
	return bgzf.Offset{}, false
}

func genC02File(rnd *Rand) *c02File {
	for {
		n := rnd.rng(1, 8)
		f := &c02File{}
		big := 0
		for i := 0; i < n; i++ {
			var b c02Block
			b.Seed = rnd.intn(256)
			switch x := rnd.intn(20); {
			case x < 4:
				b.Kind = "empty"
			case x < 6:
				b.Kind = "marker"
			case x < 9:
				b.Kind, b.Len = "data", 1
			case x < 11:
				b.Kind, b.Len = "data", 2
			case x < 13 && big < 3:
				b.Kind, b.Len = "data", bgzf.BlockSize
				big++
				if rnd.coin(1, 2) {
					b.Seed += 1000 // incompressible content
				}
			case x < 14 && big < 3:
				b.Kind, b.Len = "data", bgzf.BlockSize-1
				big++
				if rnd.coin(1, 2) {
					b.Seed += 1000
				}
			case x < 17:
				b.Kind, b.Len = "data", rnd.rng(3, 40)
			default:
				b.Kind, b.Len = "data", rnd.rng(200, 3000)
			}
			f.Blocks = append(f.Blocks, b)
		}
		// with / without the EOF marker at the end
		switch rnd.intn(4) {
		case 0:
			f.Blocks = append(f.Blocks, c02Block{Kind: "marker"})
		case 1:
			f.Blocks = append(f.Blocks, c02Block{Kind: "empty"}, c02Block{Kind: "marker"})
		}
		if len(f.Blocks) > 8 {
			f.Blocks = f.Blocks[len(f.Blocks)-8:]
		}
		return f
	}
}

// ---------------------------------------------------------------------------
// histories

type c02Op struct {
	Kind  string `json:"k"` // r | b | s | B
	N     int    `json:"n,omitempty"`
	File  int64  `json:"f,omitempty"`
	Block int    `json:"o,omitempty"`
	On    bool   `json:"on,omitempty"`
	Class string `json:"c,omitempty"` // generator class, for the histogram
}

func (o c02Op) model() string {
	switch o.Kind {
	case "r":
		return "r" + strconv.Itoa(o.N)
	case "b":
		return "b"
	case "s":
		return fmt.Sprintf("s%d.%d", o.File, o.Block)
	default:
		if o.On {
			return "B1"
		}
		return "B0"
	}
}

func c02OpsModel(ops []c02Op) string {
	if len(ops) == 0 {
		return "-"
	}
	s := make([]string, len(ops))
	for i, o := range ops {
		s[i] = o.model()
	}
	return strings.Join(s, ",")
}

// flatTracker follows the logical position implied by a history using only the flat copy and the
// block table.  It is the property's own reading of the history (not the Lean model).
type flatTracker struct {
	f       *c02File
	pos     int
	blocked bool
}

// expect returns the bytes and EOF flag the property demands for a read of n bytes, and advances.
func (t *flatTracker) expect(n int) ([]byte, bool) {
	f := t.f
	if t.pos >= f.total {
		return nil, true
	}
	rem := f.total - t.pos
	if t.blocked {
		rem = f.blockRem(t.pos)
	}
	m := n
	if m > rem {
		m = rem
	}
	out := f.flat[t.pos : t.pos+m]
	t.pos += m
	return out, n > rem
}

func genC02History(rnd *Rand, f *c02File, maxOps int) []c02Op {
	nops := rnd.rng(1, maxOps)
	t := &flatTracker{f: f}
	var ops []c02Op
	lastEOF := false
	lastReadPos, lastReadN := -1, 0
	for len(ops) < nops {
		var op c02Op
		x := rnd.intn(100)
		if lastEOF && rnd.coin(1, 2) {
			x = 0 // seek after EOF
		}
		rem := f.blockRem(t.pos)
		atBlockEnd := false
		for i := range f.start {
			if f.blen[i] > 0 && t.pos == f.start[i]+f.blen[i] {
				atBlockEnd = true
			}
		}
		if atBlockEnd && rnd.coin(1, 6) && (len(ops) == 0 || ops[len(ops)-1].Kind != "B") {
			x = 95 // toggle Blocked at a block end
		}
		switch {
		case x < 30: // seek
			i := rnd.intn(len(f.Blocks))
			op = c02Op{Kind: "s", File: f.base[i]}
			switch y := rnd.intn(10); {
			case y < 3:
				op.Block, op.Class = f.blen[i], "seek.blockend"
			case y < 5:
				op.Block, op.Class = 0, "seek.blockstart"
			case y < 7: // into the block that holds the current position
				if o, ok := f.offsetOf(t.pos); ok {
					for j := range f.base {
						if f.base[j] == o.File {
							i = j
						}
					}
					op.File = f.base[i]
				}
				op.Block, op.Class = rnd.intn(f.blen[i]+1), "seek.current"
			case y < 8 && lastReadPos >= 0: // replay the last read from its Begin
				if o, ok := f.offsetOf(lastReadPos); ok {
					op.File, op.Block, op.Class = o.File, int(o.Block), "seek.replay"
					for j := range f.base {
						if f.base[j] == o.File {
							i = j
						}
					}
				} else {
					op.Block, op.Class = rnd.intn(f.blen[i]+1), "seek.random"
				}
			default:
				op.Block, op.Class = rnd.intn(f.blen[i]+1), "seek.random"
			}
			if op.Block > 0xffff { // Offset.Block is a uint16: the end of a 65536-byte block has no in-block offset
				op.Block, op.Class = 0xffff, op.Class+".max-in-block"
			}
			if lastEOF {
				op.Class += ".afterEOF"
			}
			if f.blen[i] == 0 {
				op.Class += ".emptyblock"
			}
			t.pos = f.start[i] + op.Block
			lastEOF = false
			if op.Class == "seek.replay" || strings.HasPrefix(op.Class, "seek.replay") {
				ops = append(ops, op)
				op = c02Op{Kind: "r", N: lastReadN, Class: "read.replay"}
				_, lastEOF = t.expect(op.N)
			}
		case x < 80: // read
			op = c02Op{Kind: "r"}
			switch y := rnd.intn(16); {
			case y == 0:
				op.N, op.Class = 0, "read.0"
			case y == 1:
				op.N, op.Class = 1, "read.1"
			case y < 5 && rem > 0:
				op.N, op.Class = rem, "read.toblockend"
			case y < 7 && rem > 0:
				op.N, op.Class = rem+1, "read.blockend+1"
			case y < 9 && rem > 1:
				op.N, op.Class = rem-1, "read.blockend-1"
			case y == 9:
				op.N, op.Class = 65537+rnd.intn(3000), "read.gt64k"
			case y == 10:
				op.N, op.Class = f.total-t.pos, "read.todataend"
			case y == 11:
				op.N, op.Class = f.total-t.pos+1, "read.dataend+1"
			case y == 12:
				i := rnd.intn(len(f.Blocks))
				op.N, op.Class = f.blen[i]+rnd.rng(-1, 1), "read.blocklen+-1"
				if op.N < 0 {
					op.N = 0
				}
			default:
				op.N, op.Class = rnd.rng(2, 50), "read.small"
			}
			lastReadPos, lastReadN = t.pos, op.N
			var bs []byte
			bs, lastEOF = t.expect(op.N)
			if len(bs) == 0 {
				lastReadPos = -1
			}
		case x < 92:
			op = c02Op{Kind: "b", Class: "readbyte"}
			lastReadPos = -1
			_, lastEOF = t.expect(1)
		default:
			op = c02Op{Kind: "B", On: !t.blocked, Class: "blocked.toggle"}
			if atBlockEnd {
				op.Class += ".atblockend"
			}
			t.blocked = op.On
		}
		ops = append(ops, op)
	}
	return ops
}

// ---------------------------------------------------------------------------
// implementation runner + oracle

// slowReadSeeker delays reads by small pseudo-random amounts and does not offer ReadByte, so the
// library wraps it in a bufio.Reader (the other code path of countReader.seek).
type slowReadSeeker struct {
	r   *bytes.Reader
	rnd *Rand
}

func (s *slowReadSeeker) Read(p []byte) (int, error) {
	if s.rnd.coin(1, 3) {
		time.Sleep(time.Duration(s.rnd.intn(200)) * time.Microsecond)
	} else if s.rnd.coin(1, 2) {
		runtime.Gosched()
	}
	if len(p) > 1 && s.rnd.coin(1, 4) {
		p = p[:1+s.rnd.intn(len(p)-1)] // short reads are legal for an io.Reader
	}
	return s.r.Read(p)
}
func (s *slowReadSeeker) Seek(off int64, whence int) (int64, error) { return s.r.Seek(off, whence) }

type c02Input struct {
	File  c02File `json:"file"`
	Ops   []c02Op `json:"ops"`
	Rd    int     `json:"rd"`
	Slow  bool    `json:"slow"`
	Procs int     `json:"gomaxprocs"`
	// fault runs (c02lts.go)
	Fault    bool `json:"fault,omitempty"`
	FailFrom int  `json:"fail_from,omitempty"`
	FailLen  int  `json:"fail_len,omitempty"`
}

func c02ErrClass(err error) string {
	switch err {
	case nil:
		return "ok"
	case io.EOF:
		return "eof"
	case io.ErrUnexpectedEOF:
		return "ueof"
	}
	return "err"
}

func c02Hash(b []byte) int {
	h := 7
	for _, x := range b {
		h = (h*31 + int(x)) % 65521
	}
	return h
}

const c02OpTimeout = 10 * time.Second

// runC02 runs one history on the implementation, judges every operation with the flat oracle and
// returns the per-operation result strings in the model's format.
// c02Hangs counts histories on which a call did not return. Every such history costs a full watchdog
// period and leaves goroutines behind, so after a few of them the remaining histories of the same
// read-ahead mode are skipped: the failing inputs are already recorded.
var c02Hangs = map[string]int{}

const c02MaxHangs = 5

func runC02(c *ctx, f *c02File, ops []c02Op, rd int, slow bool, procs int) []string {
	r := c.res
	if hm := fmt.Sprintf("rd%d", rd); c02Hangs[hm] >= c02MaxHangs {
		r.hist("skipped-after-" + fmt.Sprint(c02MaxHangs) + "-hangs." + hm)
		return nil
	}
	in := func() c02Input {
		return c02Input{File: c02File{Blocks: f.Blocks}, Ops: ops, Rd: rd, Slow: slow, Procs: procs}
	}
	mode := fmt.Sprintf("rd%d", rd)
	if rd > 1 || rd == 0 {
		mode = "rdN"
	}
	var src io.Reader = bytes.NewReader(f.raw)
	if slow {
		src = &slowReadSeeker{r: bytes.NewReader(f.raw), rnd: c.rnd.fork()}
	}
	// read-ahead runs over the raw reader are traced for the trace-inclusion check (c02lts.go)
	var lts *ltsTrace
	if erd := rd; !slow && c.replay == "" {
		if erd == 0 {
			erd = runtime.GOMAXPROCS(0)
		}
		if erd > 1 {
			lg := &ltsLog{}
			src = &tracedReader{data: f.raw, log: lg}
			lts = &ltsTrace{f: f, log: lg, rd: erd}
		}
	}
	var bg *bgzf.Reader
	var err error
	o := guardTimeout(c02OpTimeout, func() { bg, err = bgzf.NewReader(src, rd) })
	if o.timedOut {
		r.fail("c02.hang.NewReader."+mode, "NewReader did not return", in())
		return nil
	}
	if o.panicked {
		r.fail("panic:"+topRepoFrame(o.stack), o.panicVal, in())
		return nil
	}
	if err != nil {
		r.fail("c02.newreader.error", err.Error(), in())
		return nil
	}
	t := &flatTracker{f: f}
	var out []string
	maxN := 0
	for _, op := range ops {
		if op.N > maxN {
			maxN = op.N
		}
	}
	buf := make([]byte, 0, maxN+1)
	for k, op := range ops {
		var n int
		var got []byte
		var e error
		if lts != nil && op.Kind != "B" {
			lts.mark()
		}
		o := guardTimeout(c02OpTimeout, func() {
			switch op.Kind {
			case "r":
				p := buf[:op.N]
				for i := range p {
					p[i] = 0xee
				}
				n, e = bg.Read(p)
				if n >= 0 && n <= len(p) {
					got = append([]byte{}, p[:n]...)
				}
			case "b":
				var b byte
				b, e = bg.ReadByte()
				n, got = 1, []byte{b}
			case "s":
				e = bg.Seek(bgzf.Offset{File: op.File, Block: uint16(op.Block)})
			case "B":
				bg.Blocked = op.On
			}
		})
		what := fmt.Sprintf("op %d (%s)", k, op.model())
		if o.timedOut {
			r.fail("c02.hang."+op.Kind+"."+mode, what+" did not return within the watchdog time", in())
			c02Hangs[fmt.Sprintf("rd%d", rd)]++
			return out // the reader is stuck; its goroutines are abandoned
		}
		if o.panicked {
			r.fail("panic:"+topRepoFrame(o.stack), what+": "+o.panicVal, in())
			return out
		}
		lc := bg.LastChunk()
		bm := "u"
		if t.blocked {
			bm = "b"
		}
		if lts != nil && op.Kind != "B" {
			ngot := len(got)
			if op.Kind == "b" && e != nil {
				ngot = 0 // the byte returned with an error carries no data
			}
			lts.after(op, ngot, e, lc, t.blocked)
			lts.mark()
		}
		switch op.Kind {
		case "r", "b":
			pos := t.pos
			want := op.N
			if op.Kind == "b" {
				want = 1
			}
			exp, eof := t.expect(want)
			cmp := got
			if op.Kind == "b" && e != nil {
				cmp = nil // the byte returned with an error carries no data
			}
			if n < 0 || n > want {
				r.fail("c02.read.count."+bm, fmt.Sprintf("%s returned n=%d", what, n), in())
			} else if !bytes.Equal(cmp, exp) {
				r.fail("c02.read.bytes."+bm+"."+mode, fmt.Sprintf("%s at logical position %d returned %d bytes (hash %d), the flat copy holds %d bytes (hash %d)",
					what, pos, len(cmp), c02Hash(cmp), len(exp), c02Hash(exp)), in())
			}
			switch {
			case e != nil && e != io.EOF:
				r.fail("c02.read.error."+bm, what+": "+e.Error(), in())
			case eof && e == nil:
				r.fail("c02.read.eof-missing."+bm, what+" ended the data (or block) but returned a nil error", in())
			case !eof && e == io.EOF:
				r.fail("c02.read.eof-early."+bm, what+" returned io.EOF although the request could be satisfied", in())
			}
			if e == nil || len(exp) > 0 {
				if p, ok := f.translate(lc.Begin); !ok || p != pos {
					r.fail("c02.lastchunk.begin."+bm, fmt.Sprintf("%s: Begin %v translates to %d (valid=%v), position before the bytes is %d", what, lc.Begin, p, ok, pos), in())
				}
				if p, ok := f.translate(lc.End); !ok || p != pos+len(exp) {
					r.fail("c02.lastchunk.end."+bm, fmt.Sprintf("%s: End %v translates to %d (valid=%v), position after the bytes is %d", what, lc.End, p, ok, pos+len(exp)), in())
				}
				if want, ok := f.endAfter(pos + len(exp)); ok && e == nil && len(exp) > 0 && lc.End != want {
					r.fail("c02.lastchunk.end.exact."+bm, fmt.Sprintf("%s: End %v, the offset behind the last byte returned is %v", what, lc.End, want), in())
				}
				if _, ok := f.offsetOf(pos); ok && len(exp) > 0 {
					// Begin must be a seekable offset: a block start plus an offset inside that block
					found := false
					for i := range f.base {
						if f.base[i] == lc.Begin.File && int(lc.Begin.Block) <= f.blen[i] {
							found = true
						}
					}
					if !found {
						r.fail("c02.lastchunk.begin-not-seekable."+bm, what, in())
					}
				}
			}
		case "s":
			if e != nil {
				r.fail("c02.seek.error", what+": "+e.Error(), in())
			}
			for i := range f.base {
				if f.base[i] == op.File {
					t.pos = f.start[i] + op.Block
				}
			}
		case "B":
			t.blocked = op.On
		}
		out = append(out, fmt.Sprintf("%d:%s:%d.%d:%d.%d:%d:%d", len(got), c02ErrClass(e), lc.Begin.File, lc.Begin.Block, lc.End.File, lc.End.Block, bg.BlockLen(), c02Hash(got)))
	}
	var cerr error
	if lts != nil {
		lts.mark()
		lts.script = append(lts.script, "c")
	}
	o = guardTimeout(c02OpTimeout, func() { cerr = bg.Close() })
	if lts != nil && !o.timedOut && !o.panicked {
		lts.finish(in())
	}
	if o.timedOut {
		r.fail("c02.hang.Close."+mode, "Close did not return", in())
		c02Hangs[fmt.Sprintf("rd%d", rd)]++
	} else if o.panicked {
		r.fail("panic:"+topRepoFrame(o.stack), "Close: "+o.panicVal, in())
	} else if cerr != nil {
		r.fail("c02.close.error", cerr.Error(), in())
	}
	return out
}

// c02Compare diffs one implementation run against the model answer of the same history, per operation.
func c02Compare(r *Result, stream, line string, impl []string, model string, dropBlockLen bool) {
	ms := strings.Split(model, ";")
	for i := range impl {
		if i >= len(ms) {
			r.disagree(stream, line, fmt.Sprintf("%d ops", len(impl)), fmt.Sprintf("%d ops: %s", len(ms), model))
			return
		}
		a := impl[i]
		if dropBlockLen {
			p := strings.Split(a, ":")
			if len(p) == 6 {
				a = strings.Join(append(p[:4:4], p[5]), ":")
			}
		}
		if a != ms[i] {
			r.disagree(stream, fmt.Sprintf("%s @op %d", line, i), a, ms[i])
			return
		}
	}
}

func checkC02(c *ctx) {
	r := c.res
	r.Rule = "files: 1..8 members assembled from library-written members (data blocks of 1, 2, 3..40, 200..3000, BlockSize-1, BlockSize bytes; " +
		"empty blocks and EOF markers in front/middle/end; with and without final marker); histories of 1..40 operations biased to " +
		"seek to (i,len_i)/(i,0)/into the current block/replay of the last Begin/after EOF, reads of 0/1/to a block end/+-1/>64KiB/to the end of data(+1), ReadByte, " +
		"Blocked toggles (preferably at a block end); each history runs with rd 0,1,2,4, raw or randomly delayed+short-reading ReadSeeker, GOMAXPROCS 1/4/16. " +
		"A case (file, history, rd) is non-trivial when the history contains a seek and a read that touches or crosses a block end; distinct = distinct (file, history, rd)."
	if c.replay != "" {
		var in c02Input
		if err := loadReplay(c.replay, &in); err != nil {
			r.note("replay: %v", err)
			return
		}
		f := &in.File
		if err := f.build(); err != nil {
			r.note("replay: %v", err)
			return
		}
		if in.Procs > 0 {
			defer runtime.GOMAXPROCS(runtime.GOMAXPROCS(in.Procs))
		}
		for rep := 0; rep < 20 && r.NFailures == 0; rep++ {
			runC02(c, f, in.Ops, in.Rd, in.Slow, in.Procs)
			r.eval("replay", true)
		}
		return
	}
	nHist := 700
	if c.thorough() {
		nHist = 12000
	}
	defer runtime.GOMAXPROCS(runtime.GOMAXPROCS(0))
	d := c.drv()
	type run struct {
		line int
		rd   int
		impl []string
		flat bool
	}
	var runs []run
	procsList := []int{1, 4, 16}
	for h := 0; h < nHist; h++ {
		procs := procsList[h*len(procsList)/nHist]
		runtime.GOMAXPROCS(procs)
		f := genC02File(c.rnd)
		if h%10 == 9 {
			f = genC02ExtremeFile(c.rnd, true) // hand-framed members at the limits of the format, incl. payload 65536
		}
		if err := f.build(); err != nil {
			r.fail("c02.build", err.Error(), c02Input{File: c02File{Blocks: f.Blocks}})
			continue
		}
		ops := genC02History(c.rnd, f, 40)
		blocks, opsM := f.modelBlocks(), c02OpsModel(ops)
		li := d.add("c02.run %s %s", blocks, opsM)
		withFlat := !f.has64k()
		if withFlat {
			d.add("c02.flat %s %s", blocks, opsM)
		} else {
			// a member of 65536 payload bytes is outside the flat specification's and the theorems' domain (WF: payload
			// < 65536): compared with the executable reader model (run64, repaired txOffset) and judged by the oracle
			r.hist("flatspec-comparison.skipped.payload65536")
		}
		// classification
		hasSeek, touches := false, false
		t := &flatTracker{f: f}
		for _, op := range ops {
			r.hist("op." + op.Class)
			switch op.Kind {
			case "s":
				hasSeek = true
				for i := range f.base {
					if f.base[i] == op.File {
						t.pos = f.start[i] + op.Block
					}
				}
			case "B":
				t.blocked = op.On
			case "r", "b":
				n := op.N
				if op.Kind == "b" {
					n = 1
				}
				rem := f.blockRem(t.pos)
				if rem > 0 && n >= rem {
					touches = true
				}
				t.expect(n)
			}
		}
		r.hist(fmt.Sprintf("file.blocks.%d", len(f.Blocks)))
		for _, b := range f.Blocks {
			switch {
			case b.Kind == "hand":
				r.hist(fmt.Sprintf("block.hand.payload%d.stored%d", b.Len, b.Stored))
			case b.Kind != "data":
				r.hist("block." + b.Kind)
			case b.Len >= bgzf.BlockSize-1:
				r.hist("block.data.full")
			case b.Len <= 2:
				r.hist("block.data.1-2")
			default:
				r.hist("block.data.mid")
			}
		}
		if f.Blocks[len(f.Blocks)-1].Kind == "marker" {
			r.hist("file.with-marker")
		} else {
			r.hist("file.without-marker")
		}
		r.hist(fmt.Sprintf("gomaxprocs.%d", procs))
		for _, rd := range []int{0, 1, 2, 4} {
			slow := c.rnd.coin(1, 2)
			if slow {
				r.hist("reader.slow")
			} else {
				r.hist("reader.raw")
			}
			impl := runC02(c, f, ops, rd, slow, procs)
			runs = append(runs, run{li, rd, impl, withFlat})
			r.eval(fmt.Sprintf("%s|%s|%d", blocks, opsM, rd), hasSeek && touches)
		}
		if h%2 == 0 {
			runC02Fault(c, f, ops, 2+2*(h/2%2), procs)
		}
		if h < 3 {
			r.sample(c02Input{File: c02File{Blocks: f.Blocks}, Ops: ops, Rd: 2, Procs: procs})
		}
	}
	// trace inclusion: the observed member loads and API markers of every traced read-ahead run
	ltsAt := make([]int, len(c02LtsCases))
	for i, lc := range c02LtsCases {
		ltsAt[i] = -1
		if strings.HasPrefix(lc.line, "broken") {
			r.disagree("C02.lts", "(trace capture)", lc.line, "")
			continue
		}
		ltsAt[i] = d.add("%s", lc.line)
	}
	model, err := d.run()
	if err != nil {
		r.disagree("C02", "(driver failure)", "", err.Error())
		return
	}
	nev, nld := 0, 0
	for i, lc := range c02LtsCases {
		if ltsAt[i] < 0 {
			continue
		}
		ans := model[ltsAt[i]]
		r.ModelOps += lc.nev
		nev += lc.nev
		nld += lc.nloads
		if strings.HasPrefix(ans, "path ") && strings.Contains(ans, "done=1 stuck=0 panic=0") {
			r.TracesValidated++
			if lc.faults {
				r.hist(fmt.Sprintf("lts.trace.faults.rd%d", lc.in.Rd))
			} else {
				r.hist(fmt.Sprintf("lts.trace.rd%d", lc.in.Rd))
			}
			continue
		}
		line := lc.line
		if len(line) > 3000 {
			line = line[:3000] + "…"
		}
		js, _ := json.Marshal(lc.in)
		r.disagree(fmt.Sprintf("C02.lts.rd%d", lc.in.Rd), line, "observed trace of the implementation; input "+string(js), ans)
	}
	r.note("trace inclusion (Hts.Model.ReadAhead): %d read-ahead runs, %d events (%d member loads) replayed", len(c02LtsCases), nev, nld)
	for _, ru := range runs {
		r.ModelOps += len(ru.impl)
		c02Compare(r, fmt.Sprintf("C02.model.rd%d", ru.rd), d.lines[ru.line], ru.impl, model[ru.line], false)
		if ru.flat {
			r.ModelOps += len(ru.impl)
			c02Compare(r, fmt.Sprintf("C02.flatspec.rd%d", ru.rd), d.lines[ru.line+1], ru.impl, model[ru.line+1], true)
		}
	}
}
