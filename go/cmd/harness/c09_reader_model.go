package main

// C09, reader part, operational tie (audit H-4): histories of Read/ReadByte/Seek/Blocked on the synchronous
// reader (rd = 1) over a logging source that fails — a window of failing calls (error, or error after partial
// data), a failing Seek, or a truncation at a byte offset — compared per operation with the Lean model
// Hts.Model.Bgzf.FReader (`c09.hist`): bytes, error class, LastChunk, BlockLen, and the number of load attempts.
// The fault oracle handed to the model is what the source observed: one outcome per load attempt.

import (
	"bytes"
	"fmt"
	"io"
	"strings"

	"github.com/biogo/hts/bgzf"
)

type c09HistInput struct {
	File     c02File `json:"file"`
	Ops      []c02Op `json:"ops"`
	FailFrom int     `json:"fail_from"`
	FailLen  int     `json:"fail_len"`
	Partial  bool    `json:"partial"`
	TruncAt  int64   `json:"trunc_at"`
}

// c09HistRun runs one history, judges it, and queues the model line.
func c09HistRun(c *ctx, in c09HistInput, d *Driver, impl *[]string) {
	res := c.res
	f := &in.File
	if f.raw == nil {
		if err := f.build(); err != nil {
			res.note("c09.hist: %v", err)
			return
		}
	}
	ops := in.Ops
	input := c09Input{Kind: "reader-hist", Hist: &in}
	lg := &ltsLog{}
	src := &tracedReader{data: f.raw, log: lg, failFrom: in.FailFrom, failLen: in.FailLen, partial: in.Partial, truncAt: in.TruncAt}
	lts := &ltsTrace{f: f, log: lg, rd: 1}
	var bg *bgzf.Reader
	var err error
	o := guardTimeout(c02OpTimeout, func() { bg, err = bgzf.NewReader(src, 1) })
	if o.timedOut || o.panicked || err != nil {
		return
	}
	src.armed = true
	pos, known := 0, true
	blocked := false
	sawFault := false
	var lastErr error // the non-EOF error latched by the history so far
	var out []string
	bad := false
	buf := make([]byte, 70000)
	for k, op := range ops {
		var nn int
		var got []byte
		var e error
		o := guardTimeout(c02OpTimeout, func() {
			switch op.Kind {
			case "r":
				if op.N > len(buf) {
					buf = make([]byte, op.N)
				}
				nn, e = bg.Read(buf[:op.N])
				got = append([]byte{}, buf[:nn]...)
			case "b":
				var b byte
				b, e = bg.ReadByte()
				if e == nil {
					got = []byte{b}
				}
			case "s":
				e = bg.Seek(bgzf.Offset{File: op.File, Block: uint16(op.Block)})
			case "B":
				bg.Blocked = op.On
			}
		})
		if o.timedOut {
			res.fail("reader.hang.hist.rd1", fmt.Sprintf("op %d (%s) did not return", k, op.model()), input)
			bad = true
			break
		}
		if o.panicked {
			res.fail("reader.panic:"+topRepoFrame(o.stack), fmt.Sprintf("op %d (%s): %s", k, op.model(), o.panicVal), input)
			bad = true
			break
		}
		if e != nil && e != io.EOF {
			sawFault = true
			lastErr = e // latched until a Seek succeeds
		} else if op.Kind == "s" {
			lastErr = nil // Seek replaces bg.err by its own result: nil, or io.EOF at the end of a truncated source
		}
		// the property, judged on the implementation with the flat copy only
		switch op.Kind {
		case "r", "b":
			if known && len(got) > 0 && (pos+len(got) > f.total || !bytes.Equal(got, f.flat[pos:pos+len(got)])) {
				res.fail("reader.wrong-bytes", fmt.Sprintf("op %d (%s) returned %d bytes that differ from the data at logical offset %d", k, op.model(), len(got), pos), input)
				bad = true
			}
			pos += len(got)
			if e == io.EOF && known && !blocked && pos != f.total && in.TruncAt < 0 {
				res.fail("reader.clean-eof.before-true-end", fmt.Sprintf("op %d (%s) reported io.EOF at logical offset %d of %d", k, op.model(), pos, f.total), input)
				bad = true
			}
			if e != nil && !(blocked && e == io.EOF && len(got) > 0) {
				known = false // latched until a Seek succeeds
			}
		case "s":
			if e == nil {
				for j := range f.base {
					if f.base[j] == op.File {
						pos = f.start[j] + op.Block
					}
				}
				known = true
			} else {
				known = false
			}
		case "B":
			blocked = op.On
		}
		cls := c02ErrClass(e)
		if cls == "ueof" {
			cls = "err"
		}
		lc := bg.LastChunk()
		out = append(out, fmt.Sprintf("%d:%s:%d.%d:%d.%d:%d:%d", len(got), cls, lc.Begin.File, lc.Begin.Block, lc.End.File, lc.End.Block, bg.BlockLen(), c02Hash(got)))
	}
	var cerr error
	if o := guardTimeout(c02OpTimeout, func() { cerr = bg.Close() }); o.timedOut || o.panicked {
		res.fail("reader.hang.close.hist.rd1", "Close did not return", input)
		return
	}
	if cerr == io.EOF || (cerr == nil) != (lastErr == nil) {
		res.fail("reader.close.swallows-error", fmt.Sprintf("Close returned %v with %v latched by the last failing call", cerr, lastErr), input)
		bad = true
	}
	ccls := c02ErrClass(cerr)
	if ccls == "ueof" {
		ccls = "err"
	}
	if bad {
		return
	}
	orc, oerr := lts.outcomes()
	if oerr != nil {
		res.disagree("c09.hist", "(trace capture)", oerr.Error(), "")
		return
	}
	if strings.ContainsAny(orc, "xe") {
		res.hist("hist-fault=reached")
	}
	if sawFault {
		res.hist("hist-api-error-seen")
	}
	res.eval(fmt.Sprintf("h|%s|%s|%d|%d|%v|%d", f.modelBlocks(), c02OpsModel(ops), in.FailFrom, in.FailLen, in.Partial, in.TruncAt), strings.ContainsAny(orc, "xe"))
	d.add("c09.hist %s %sooo %s", f.modelBlocks(), orc, c02OpsModel(ops))
	*impl = append(*impl, strings.Join(out, ";")+fmt.Sprintf("|%d|%s", len(orc), ccls))
}

func checkC09ReaderModel(c *ctx, n int) {
	res := c.res
	d := c.drv()
	var impl []string
	for i := 0; i < n; i++ {
		f := genC13File(c.rnd)
		if err := f.build(); err != nil {
			continue
		}
		ops := genC02History(c.rnd, f, 30)
		in := c09HistInput{File: c02File{Blocks: f.Blocks}, Ops: ops, TruncAt: -1}
		switch c.rnd.intn(4) {
		case 0, 1:
			in.FailFrom, in.FailLen = c.rnd.intn(60), c.rnd.pick([]int{1, 1, 2, 5, 1 << 30})
			in.Partial = c.rnd.coin(1, 2)
			res.hist("hist-fault=call-window")
		case 2: // truncated source, biased to member starts, the end of the gzip header (+18) and the last byte
			j := c.rnd.intn(len(f.base))
			in.TruncAt = f.base[j] + int64(c.rnd.pick([]int{0, 0, 1, 10, 18, f.csize[j] / 2, f.csize[j] - 1}))
			res.hist("hist-fault=truncation")
		default:
			res.hist("hist-fault=none")
		}
		c09HistRun(c, in, d, &impl)
	}
	before := res.NDisagreements
	d.compare(res, "c09.hist", impl)
	if res.NDisagreements > before {
		res.note("reader histories: %d differ from the operational fault model (Hts.Model.Bgzf.FReader)", res.NDisagreements-before)
	}
	res.TracesValidated += len(impl)
	res.note("reader histories vs operational fault model: %d compared", len(impl))
}
