package main

import (
	"bytes"
	"fmt"
	"io"
	"math"
	"runtime"
	"sync"
	"sync/atomic"
	"testing/iotest"

	"github.com/biogo/hts/cram"
	"github.com/biogo/hts/cram/encoding/itf8"
	"github.com/biogo/hts/cram/encoding/ltf8"
)

// CRAM specification 2.3, by arithmetic (independent of the library and of the Lean model).
func c20SpecItf8(u uint32) []byte {
	x := uint64(u)
	switch {
	case x < 1<<7:
		return []byte{byte(x)}
	case x < 1<<14:
		return []byte{byte(0x80 + x/256), byte(x % 256)}
	case x < 1<<21:
		return []byte{byte(0xc0 + x/65536), byte(x / 256 % 256), byte(x % 256)}
	case x < 1<<28:
		return []byte{byte(0xe0 + x/(1<<24)), byte(x / 65536 % 256), byte(x / 256 % 256), byte(x % 256)}
	}
	return []byte{byte(0xf0 + x/(1<<28)), byte(x / (1 << 20) % 256), byte(x / (1 << 12) % 256), byte(x / 16 % 256), byte(x % 256)}
}

func c20SpecLtf8(u uint64) []byte {
	prefix := []uint64{0, 0x80, 0xc0, 0xe0, 0xf0, 0xf8, 0xfc, 0xfe, 0xff}
	n := 9
	for k := 1; k <= 8; k++ {
		if u>>(uint(7*k)) == 0 {
			n = k
			break
		}
	}
	out := make([]byte, n)
	for i := n - 1; i >= 1; i-- {
		out[i] = byte(u % 256)
		u /= 256
	}
	out[0] = byte(prefix[n-1] + u)
	if n == 9 {
		out[0] = 0xff
	}
	return out
}

// c20Stream exercises the cram stream reader on src: whole, through a one-byte reader, and is compared
// with the model. Returns the canonical outcome "v consumed" | "eof" | "ueof" | "err".
func c20Stream(c *ctx, codec string, src []byte, d *Driver, impl *[]string) string {
	r := c.res
	in := c20Input{Codec: codec, Kind: "stream", Bytes: hexs(src)}
	run := func(rd io.Reader, left func() int) string {
		var v int64
		var err error
		o := guard(func() {
			if codec == "itf8" {
				var x int32
				x, err = cram.VerifReadITF8(rd)
				v = int64(x)
			} else {
				v, err = cram.VerifReadLTF8(rd)
			}
		})
		switch {
		case o.panicked:
			return "panic:" + o.panicVal
		case err == io.EOF:
			return "eof"
		case err == io.ErrUnexpectedEOF:
			return "ueof"
		case err != nil:
			return "err"
		}
		return fmt.Sprintf("%d %d", v, len(src)-left())
	}
	br := bytes.NewReader(src)
	whole := run(br, br.Len)
	br2 := bytes.NewReader(src)
	one := run(iotest.OneByteReader(br2), br2.Len)
	if len(whole) >= 6 && whole[:6] == "panic:" {
		r.fail(codec+".stream.panic", whole, in)
	}
	if whole != one {
		r.fail(codec+".stream.shortreads", fmt.Sprintf("whole reader: %s, one-byte reader: %s", whole, one), in)
	}
	// oracle: announced width from the first byte, value by the specification's arithmetic
	if len(src) > 0 {
		max := 4
		if codec == "ltf8" {
			max = 8
		}
		ann := leadingOnes(src[0], max) + 1
		isErr := whole == "eof" || whole == "ueof" || whole == "err"
		if (len(src) < ann) != isErr {
			r.fail(fmt.Sprintf("%s.stream.failiff%d", codec, ann), fmt.Sprintf("%d of %d announced bytes available, outcome %s", len(src), ann, whole), in)
		}
		if len(src) >= ann && !isErr {
			var want string
			if codec == "itf8" {
				v, _, _ := itf8.Decode(append([]byte{}, src[:ann]...))
				want = fmt.Sprintf("%d %d", v, ann)
			} else {
				v, _, _ := ltf8.Decode(append([]byte{}, src[:ann]...))
				want = fmt.Sprintf("%d %d", v, ann)
			}
			if whole != want {
				r.fail(fmt.Sprintf("%s.stream.value%d", codec, ann), fmt.Sprintf("stream reader gives %s, Decode of the announced prefix %s", whole, want), in)
			}
		}
	} else if whole != "eof" {
		r.fail(codec+".stream.empty", "empty stream is not io.EOF: "+whole, in)
	}
	if d != nil {
		d.add("%s.stream %s", codec, hexs(src))
		*impl = append(*impl, whole)
	}
	r.hist(codec + ".stream")
	return whole
}

func init() { checks["C20"] = checkC20 }

type c20Input struct {
	Codec string `json:"codec"` // itf8 | ltf8
	Kind  string `json:"kind"`  // value | bytes
	Value int64  `json:"value"`
	Bytes string `json:"bytes,omitempty"`
}

// leadingOnes is the independent reading of "length announced by the first byte".
func leadingOnes(b byte, max int) int {
	n := 0
	for i := 7; i >= 0 && n < max; i-- {
		if b&(1<<uint(i)) == 0 {
			break
		}
		n++
	}
	return n
}

func itf8Value(c *ctx, v int32, d *Driver, impl *[]string) {
	r := c.res
	buf := []byte{0xaa, 0xaa, 0xaa, 0xaa, 0xaa, 0xaa, 0xaa, 0xaa}
	var n int
	o := guard(func() { n = itf8.Encode(buf, v) })
	in := c20Input{Codec: "itf8", Kind: "value", Value: int64(v)}
	if o.panicked {
		r.fail("itf8.encode.panic", o.panicVal, in)
		return
	}
	ln := itf8.Len(v)
	cls := fmt.Sprintf("itf8.len%d", ln)
	r.hist(cls)
	if n < 1 || n > 5 {
		r.fail("itf8.encode.count", fmt.Sprintf("Encode returned %d", n), in)
		return
	}
	enc := append([]byte{}, buf[:n]...)
	for _, x := range buf[n:] {
		if x != 0xaa {
			r.fail(cls+".encode.overrun", "Encode wrote beyond the returned count", in)
		}
	}
	if ln != n {
		r.fail(cls+".len", fmt.Sprintf("Len=%d but Encode wrote %d", ln, n), in)
	}
	if want := c20SpecItf8(uint32(v)); !bytes.Equal(want, enc) {
		r.fail(cls+".spec", fmt.Sprintf("Encode(%d) = %s, CRAM specification %s", v, hexs(enc), hexs(want)), in)
	}
	v2, n2, ok := itf8.Decode(enc)
	if !ok || v2 != v || n2 != n {
		r.fail(cls+".roundtrip", fmt.Sprintf("Decode(Encode(%d)) = (%d,%d,%v), encoded %s", v, v2, n2, ok, hexs(enc)), in)
	}
	v3, n3, ok3 := itf8.Decode(append(append([]byte{}, enc...), 0x55, 0xfe))
	if !ok3 || v3 != v2 || n3 != n2 {
		r.fail(cls+".trailing", "Decode depends on bytes after the encoding", in)
	}
	if sr := c20Stream(c, "itf8", append(append([]byte{}, enc...), 0x80, 0x01), d, impl); sr != fmt.Sprintf("%d %d", v, n) {
		r.fail(cls+".stream.roundtrip", fmt.Sprintf("stream reader on Encode(%d)++junk gives %s", v, sr), in)
	}
	for k := 1; k < n; k++ {
		c20Stream(c, "itf8", enc[:k], d, impl)
	}
	if d != nil {
		d.add("itf8.enc %d", v)
		*impl = append(*impl, fmt.Sprintf("%d %s", n, hexs(enc)))
		d.add("itf8.spec %d", v)
		*impl = append(*impl, hexs(enc))
		d.add("itf8.dec %s", hexs(enc))
		*impl = append(*impl, fmt.Sprintf("%d %d %v", v2, n2, ok))
	}
}

func ltf8Value(c *ctx, v int64, d *Driver, impl *[]string) {
	r := c.res
	buf := []byte{0xaa, 0xaa, 0xaa, 0xaa, 0xaa, 0xaa, 0xaa, 0xaa, 0xaa, 0xaa, 0xaa, 0xaa}
	var n int
	o := guard(func() { n = ltf8.Encode(buf, v) })
	in := c20Input{Codec: "ltf8", Kind: "value", Value: v}
	if o.panicked {
		r.fail("ltf8.encode.panic", o.panicVal, in)
		return
	}
	ln := ltf8.Len(v)
	cls := fmt.Sprintf("ltf8.len%d", ln)
	r.hist(cls)
	if n < 1 || n > 9 {
		r.fail("ltf8.encode.count", fmt.Sprintf("Encode returned %d", n), in)
		return
	}
	enc := append([]byte{}, buf[:n]...)
	for _, x := range buf[n:] {
		if x != 0xaa {
			r.fail(cls+".encode.overrun", "Encode wrote beyond the returned count", in)
		}
	}
	if ln != n {
		r.fail(cls+".len", fmt.Sprintf("Len=%d but Encode wrote %d", ln, n), in)
	}
	if want := c20SpecLtf8(uint64(v)); !bytes.Equal(want, enc) {
		r.fail(cls+".spec", fmt.Sprintf("Encode(%d) = %s, CRAM specification %s", v, hexs(enc), hexs(want)), in)
	}
	v2, n2, ok := ltf8.Decode(enc)
	if !ok || v2 != v || n2 != n {
		r.fail(cls+".roundtrip", fmt.Sprintf("Decode(Encode(%d)) = (%d,%d,%v), encoded %s", v, v2, n2, ok, hexs(enc)), in)
	}
	v3, n3, ok3 := ltf8.Decode(append(append([]byte{}, enc...), 0x55, 0xfe))
	if !ok3 || v3 != v2 || n3 != n2 {
		r.fail(cls+".trailing", "Decode depends on bytes after the encoding", in)
	}
	if sr := c20Stream(c, "ltf8", append(append([]byte{}, enc...), 0x80, 0x01), d, impl); sr != fmt.Sprintf("%d %d", v, n) {
		r.fail(cls+".stream.roundtrip", fmt.Sprintf("stream reader on Encode(%d)++junk gives %s", v, sr), in)
	}
	for k := 1; k < n; k++ {
		c20Stream(c, "ltf8", enc[:k], d, impl)
	}
	if d != nil {
		d.add("ltf8.enc %d", v)
		*impl = append(*impl, fmt.Sprintf("%d %s", n, hexs(enc)))
		d.add("ltf8.spec %d", v)
		*impl = append(*impl, hexs(enc))
		d.add("ltf8.dec %s", hexs(enc))
		*impl = append(*impl, fmt.Sprintf("%d %d %v", v2, n2, ok))
	}
}

func c20Bytes(c *ctx, codec string, b []byte, d *Driver, impl *[]string) {
	r := c.res
	in := c20Input{Codec: codec, Kind: "bytes", Bytes: hexs(b)}
	var v int64
	var n int
	var ok bool
	dec := func(x []byte) (int64, int, bool) {
		if codec == "itf8" {
			a, m, k := itf8.Decode(x)
			return int64(a), m, k
		}
		return ltf8.Decode(x)
	}
	o := guard(func() { v, n, ok = dec(b) })
	if o.panicked {
		r.fail(codec+".decode.panic", o.panicVal, in)
		return
	}
	{
		// the same bytes as a prefix of a larger buffer: bytes beyond len(b) must play no role
		big := make([]byte, len(b)+12)
		copy(big, b)
		for i := len(b); i < len(big); i++ {
			big[i] = 0xee
		}
		var v2 int64
		var n2 int
		var ok2 bool
		o2 := guard(func() { v2, n2, ok2 = dec(big[:len(b)]) })
		if o2.panicked || v2 != v || n2 != n || ok2 != ok {
			r.fail(codec+".decode.sparecap", fmt.Sprintf("Decode(b) = (%d,%d,%v) but (%d,%d,%v) when b is a prefix of a larger buffer", v, n, ok, v2, n2, ok2), in)
		}
	}
	c20Stream(c, codec, b, d, impl)
	max := 4
	if codec == "ltf8" {
		max = 8
	}
	if len(b) == 0 {
		r.hist(codec + ".bytes.empty")
		if v != 0 || n != 0 || ok {
			r.fail(codec+".decode.empty", "Decode of the empty string is not (0,0,false)", in)
		}
	} else {
		ann := leadingOnes(b[0], max) + 1
		if len(b) < ann {
			r.hist(codec + ".bytes.short")
		} else {
			r.hist(codec + ".bytes.complete")
		}
		if n != ann {
			r.fail(fmt.Sprintf("%s.decode.width%d", codec, ann), fmt.Sprintf("reported width %d, first byte announces %d", n, ann), in)
		}
		if ok != (len(b) >= ann) {
			r.fail(fmt.Sprintf("%s.decode.failiff%d", codec, ann), fmt.Sprintf("ok=%v with %d of %d bytes", ok, len(b), ann), in)
		}
		if ok && len(b) >= ann {
			// capacity-limited copy: a read beyond the announced length panics or changes the value
			exact := make([]byte, ann)
			copy(exact, b[:ann])
			var v2 int64
			var n2 int
			var ok2 bool
			o2 := guard(func() { v2, n2, ok2 = dec(exact[:ann:ann]) })
			if o2.panicked || v2 != v || n2 != n || ok2 != ok {
				r.fail(fmt.Sprintf("%s.decode.beyond%d", codec, ann), "Decode reads beyond the announced length", in)
			}
		}
	}
	if d != nil {
		d.add("%s.dec %s", codec, hexs(b))
		*impl = append(*impl, fmt.Sprintf("%d %d %v", v, n, ok))
	}
}

func checkC20(c *ctx) {
	r := c.res
	r.Rule = "values: every length-class boundary (2^7k and 2^(4+7k..)) +-2, extremes, and uniformly random values inside each encoded-length class; " +
		"byte strings: lengths 0..10 x first-byte classes (every prefix boundary) with random tails. " +
		"A case is non-trivial when the value is not 0 / the string is non-empty; distinct = distinct (codec,value) or (codec,bytes)."
	if c.replay != "" {
		var in c20Input
		if err := loadReplay(c.replay, &in); err != nil {
			r.note("replay: %v", err)
			return
		}
		c20One(c, in, nil, nil)
		return
	}
	d := c.drv()
	var impl []string
	// --- values
	var vals32 []int32
	var vals64 []int64
	for _, k := range []uint{7, 14, 21, 28, 31, 32} {
		for dlt := int64(-2); dlt <= 2; dlt++ {
			vals32 = append(vals32, int32(uint32((int64(1)<<k)+dlt)))
		}
	}
	vals32 = append(vals32, 0, 1, -1, math.MinInt32, math.MaxInt32, 0x12345678, -0x12345678)
	for _, k := range []uint{7, 14, 21, 28, 35, 42, 49, 56, 63} {
		for dlt := int64(-2); dlt <= 2; dlt++ {
			vals64 = append(vals64, int64((uint64(1)<<k)+uint64(dlt)))
		}
	}
	vals64 = append(vals64, 0, 1, -1, -2, math.MinInt64, math.MaxInt64, 0x123456789abcdef0, -0x123456789abcdef0)
	nRand := 4000
	if c.thorough() {
		nRand = 150000
	}
	lim32 := []uint{0, 7, 14, 21, 28, 32}
	for i := 0; i < nRand; i++ {
		k := c.rnd.intn(5)
		lo, hi := uint64(1)<<lim32[k], uint64(1)<<lim32[k+1]
		if k == 0 {
			lo = 0
		}
		vals32 = append(vals32, int32(uint32(lo+c.rnd.u64()%(hi-lo))))
	}
	lim64 := []uint{0, 7, 14, 21, 28, 35, 42, 49, 56, 64}
	for i := 0; i < nRand; i++ {
		k := c.rnd.intn(9)
		lo := uint64(1) << lim64[k]
		if k == 0 {
			lo = 0
		}
		var span uint64
		if lim64[k+1] == 64 {
			span = -lo
		} else {
			span = (uint64(1) << lim64[k+1]) - lo
		}
		vals64 = append(vals64, int64(lo+c.rnd.u64()%span))
	}
	for _, v := range vals32 {
		itf8Value(c, v, d, &impl)
		r.eval(fmt.Sprintf("i%d", v), v != 0)
	}
	for _, v := range vals64 {
		ltf8Value(c, v, d, &impl)
		r.eval(fmt.Sprintf("l%d", v), v != 0)
	}
	r.sample(c20Input{Codec: "itf8", Kind: "value", Value: int64(vals32[len(vals32)-1])})
	r.sample(c20Input{Codec: "ltf8", Kind: "value", Value: vals64[len(vals64)-1]})
	// --- byte strings
	firsts := []byte{0x00, 0x01, 0x7f, 0x80, 0xbf, 0xc0, 0xdf, 0xe0, 0xef, 0xf0, 0xf7, 0xf8, 0xfb, 0xfc, 0xfd, 0xfe, 0xff}
	reps := 3
	if c.thorough() {
		reps = 200
	}
	for _, codec := range []string{"itf8", "ltf8"} {
		c20Bytes(c, codec, nil, d, &impl)
		r.eval(codec+":", false)
		for _, f := range firsts {
			for ln := 1; ln <= 10; ln++ {
				for rep := 0; rep < reps; rep++ {
					b := c.rnd.bytes(ln)
					b[0] = f
					if rep == 0 {
						for i := 1; i < ln; i++ {
							b[i] = 0xff
						}
					}
					c20Bytes(c, codec, b, d, &impl)
					r.eval(codec+":"+hexs(b), true)
					if rep == 0 && ln == 3 && f == 0xe0 {
						r.sample(c20Input{Codec: codec, Kind: "bytes", Bytes: hexs(b)})
					}
				}
			}
		}
		for i := 0; i < nRand/4; i++ {
			b := c.rnd.bytes(c.rnd.rng(1, 10))
			c20Bytes(c, codec, b, d, &impl)
			r.eval(codec+":"+hexs(b), true)
		}
	}
	d.compare(r, "C20", impl)

	if c.thorough() {
		// exhaustive implementation self round trip over all 2^32 int32 values (oracle only)
		var bad int64
		var firstBad int64 = math.MinInt64
		var mu sync.Mutex
		var wg sync.WaitGroup
		nw := runtime.NumCPU()
		chunk := (uint64(1) << 32) / uint64(nw)
		for w := 0; w < nw; w++ {
			wg.Add(1)
			go func(w int) {
				defer wg.Done()
				buf := make([]byte, 8)
				lo := uint64(w) * chunk
				hi := lo + chunk
				if w == nw-1 {
					hi = 1 << 32
				}
				for u := lo; u < hi; u++ {
					v := int32(uint32(u))
					n := itf8.Encode(buf, v)
					v2, n2, ok := itf8.Decode(buf[:n])
					if !ok || v2 != v || n2 != n || n != itf8.Len(v) {
						if atomic.AddInt64(&bad, 1) == 1 {
							mu.Lock()
							firstBad = int64(v)
							mu.Unlock()
						}
					}
				}
			}(w)
		}
		wg.Wait()
		r.Evaluations += 1 << 32
		r.Distinct += 1<<32 - 1
		r.note("exhaustive implementation round trip over all 2^32 int32 values: %d failures", bad)
		if bad > 0 {
			// report the first failing value through the ordinary path for its signature
			itf8Value(c, int32(firstBad), nil, nil)
		}
	}
}

func c20One(c *ctx, in c20Input, d *Driver, impl *[]string) {
	switch {
	case in.Kind == "value" && in.Codec == "itf8":
		itf8Value(c, int32(in.Value), d, impl)
	case in.Kind == "value" && in.Codec == "ltf8":
		ltf8Value(c, in.Value, d, impl)
	case in.Kind == "stream":
		var b []byte
		if in.Bytes != "-" && in.Bytes != "" {
			fmt.Sscanf(in.Bytes, "%x", &b)
		}
		c20Stream(c, in.Codec, b, d, impl)
	case in.Kind == "bytes":
		var b []byte
		if in.Bytes != "-" && in.Bytes != "" {
			fmt.Sscanf(in.Bytes, "%x", &b)
		}
		c20Bytes(c, in.Codec, b, d, impl)
	}
	c.res.eval("replay", true)
}
