package main

// C11, parent side: valid encodings (seeds) with their field boundaries, written from the format
// specifications and (second family) by the library's own writers, and the structure-aware mutators:
// truncation at every field boundary, length-field edits to -1/0/1/huge, field splices, bit flips.

import (
	"bytes"
	"compress/gzip"
	"encoding/binary"
	"fmt"
	"go/ast"
	"go/parser"
	"go/token"
	"hash/crc32"
	"io"
	"math"
	"path/filepath"
	"strconv"
	"strings"
	"time"

	"github.com/biogo/hts/bam"
	"github.com/biogo/hts/bgzf"
	"github.com/biogo/hts/cram/encoding/itf8"
	"github.com/biogo/hts/cram/encoding/ltf8"
	"github.com/biogo/hts/csi"
	"github.com/biogo/hts/sam"
	"github.com/biogo/hts/tabix"
)

// ---------------------------------------------------------------------------
// field builder

type c11Field struct {
	off, n int
	kind   byte // 'L' length/count, 'I' other integer, 'B' bytes, 'T' type/tag byte
}

type c11Seed struct {
	name   string
	b      []byte
	fields []c11Field
	text   bool
}

type fb struct {
	b      []byte
	fields []c11Field
}

func (f *fb) mark(n int, kind byte) { f.fields = append(f.fields, c11Field{len(f.b) - n, n, kind}) }
func (f *fb) raw(kind byte, p ...byte) *fb {
	f.b = append(f.b, p...)
	f.mark(len(p), kind)
	return f
}
func (f *fb) str(s string) *fb { return f.raw('B', []byte(s)...) }
func (f *fb) u8(kind byte, v uint8) *fb {
	return f.raw(kind, v)
}
func (f *fb) u16(kind byte, v uint16) *fb { return f.raw(kind, byte(v), byte(v>>8)) }
func (f *fb) i32(kind byte, v int32) *fb {
	return f.raw(kind, byte(v), byte(v>>8), byte(v>>16), byte(v>>24))
}
func (f *fb) u32(kind byte, v uint32) *fb { return f.i32(kind, int32(v)) }
func (f *fb) u64(kind byte, v uint64) *fb {
	var p [8]byte
	binary.LittleEndian.PutUint64(p[:], v)
	return f.raw(kind, p[:]...)
}
func (f *fb) seed(name string) c11Seed {
	return c11Seed{name: name, b: append([]byte{}, f.b...), fields: append([]c11Field{}, f.fields...)}
}

// ---------------------------------------------------------------------------
// BGZF framing written from the specification (stored deflate blocks)

func c11BGZFBlock(p []byte) []byte {
	if len(p) > 0xff00 {
		panic("c11BGZFBlock: payload too large")
	}
	var b []byte
	b = append(b, 0x1f, 0x8b, 8, 4, 0, 0, 0, 0, 0, 0xff, 6, 0, 'B', 'C', 2, 0, 0, 0)
	// one stored block, final
	b = append(b, 1, byte(len(p)), byte(len(p)>>8), byte(^len(p)), byte(^len(p)>>8))
	b = append(b, p...)
	var t [8]byte
	binary.LittleEndian.PutUint32(t[:4], crc32.ChecksumIEEE(p))
	binary.LittleEndian.PutUint32(t[4:], uint32(len(p)))
	b = append(b, t[:]...)
	bsize := len(b) - 1
	b[16], b[17] = byte(bsize), byte(bsize>>8)
	return b
}

var c11BGZFEOF = c11BGZFBlock(nil)

// c11BGZF frames a payload as BGZF blocks of at most blk bytes followed by the EOF marker.
func c11BGZF(p []byte, blk int) []byte {
	var out []byte
	for len(p) > 0 {
		n := len(p)
		if n > blk {
			n = blk
		}
		out = append(out, c11BGZFBlock(p[:n])...)
		p = p[n:]
	}
	return append(out, c11BGZFEOF...)
}

// ---------------------------------------------------------------------------
// BAM from the specification

type c11Aux struct {
	tag string
	typ byte
	val []byte // encoded value (for B: subtype, count, elements)
}

func c11AuxAll() []c11Aux {
	le32 := func(v uint32) []byte { return []byte{byte(v), byte(v >> 8), byte(v >> 16), byte(v >> 24)} }
	bArr := func(sub byte, n int, esz int) []byte {
		b := append([]byte{sub}, le32(uint32(n))...)
		for i := 0; i < n*esz; i++ {
			b = append(b, byte(i+1))
		}
		return b
	}
	return []c11Aux{
		{"XA", 'A', []byte{'q'}},
		{"Xc", 'c', []byte{0xfe}},
		{"XC", 'C', []byte{200}},
		{"Xs", 's', []byte{0x34, 0xf2}},
		{"XS", 'S', []byte{0x34, 0xf2}},
		{"Xi", 'i', le32(0xfffffff0)},
		{"XI", 'I', le32(0xfffffff0)},
		{"Xf", 'f', le32(math.Float32bits(1.5))},
		{"XZ", 'Z', []byte("text value\x00")},
		{"XH", 'H', []byte("1AE301\x00")},
		{"Bc", 'B', bArr('c', 3, 1)},
		{"BC", 'B', bArr('C', 2, 1)},
		{"Bs", 'B', bArr('s', 2, 2)},
		{"BS", 'B', bArr('S', 1, 2)},
		{"Bi", 'B', bArr('i', 2, 4)},
		{"BI", 'B', bArr('I', 1, 4)},
		{"Bf", 'B', bArr('f', 2, 4)},
		{"B0", 'B', bArr('c', 0, 1)},
		{"RG", 'Z', []byte("g1\x00")},
		{"PG", 'Z', []byte("p1\x00")},
		{"NM", 'C', []byte{1}},
		// since /repo bfe0bfe the digits of an H value are decoded by bam.decodeHex: both cases, and no digits
		{"Xh", 'H', []byte("1ae3fF\x00")},
		{"X0", 'H', []byte("\x00")},
	}
}

func (f *fb) aux(a c11Aux) {
	f.raw('T', a.tag[0], a.tag[1])
	f.u8('T', a.typ)
	switch a.typ {
	case 'B':
		f.u8('T', a.val[0])
		f.raw('L', a.val[1:5]...)
		if len(a.val) > 5 {
			f.raw('B', a.val[5:]...)
		}
	default:
		f.raw('B', a.val...)
	}
}

type c11Rec struct {
	refID, pos    int32
	name          string
	mapq          byte
	bin           uint16
	flag          uint16
	cigar         []uint32
	seq           string // bases
	nextRef, npos int32
	tlen          int32
	aux           []c11Aux
}

var c11Nyb = map[byte]byte{'=': 0, 'A': 1, 'C': 2, 'M': 3, 'G': 4, 'R': 5, 'S': 6, 'V': 7, 'T': 8, 'W': 9, 'Y': 10, 'H': 11, 'K': 12, 'D': 13, 'B': 14, 'N': 15}

func (f *fb) bamRecord(r c11Rec) {
	start := len(f.b)
	f.i32('L', 0) // block_size, patched
	sizeField := len(f.fields) - 1
	f.i32('I', r.refID).i32('I', r.pos)
	f.u8('L', byte(len(r.name)+1)).u8('I', r.mapq).u16('I', r.bin)
	f.u16('L', uint16(len(r.cigar))).u16('I', r.flag)
	f.i32('L', int32(len(r.seq)))
	f.i32('I', r.nextRef).i32('I', r.npos).i32('I', r.tlen)
	f.str(r.name + "\x00")
	for _, c := range r.cigar {
		f.u32('I', c)
	}
	if len(r.seq) > 0 {
		sq := make([]byte, (len(r.seq)+1)/2)
		for i := 0; i < len(r.seq); i++ {
			v := c11Nyb[r.seq[i]]
			if i&1 == 0 {
				sq[i/2] = v << 4
			} else {
				sq[i/2] |= v
			}
		}
		f.raw('B', sq...)
		q := make([]byte, len(r.seq))
		for i := range q {
			q[i] = byte(20 + i%20)
		}
		f.raw('B', q...)
	}
	for _, a := range r.aux {
		f.aux(a)
	}
	n := len(f.b) - start - 4
	binary.LittleEndian.PutUint32(f.b[start:], uint32(n))
	_ = sizeField
}

func (f *fb) bamHeader(text string, refs [][2]interface{}) {
	f.str("BAM\x01")
	f.i32('L', int32(len(text)))
	if len(text) > 0 {
		f.str(text)
	}
	f.i32('L', int32(len(refs)))
	for _, r := range refs {
		name := r[0].(string)
		f.i32('L', int32(len(name)+1))
		f.str(name + "\x00")
		f.i32('I', int32(r[1].(int)))
	}
}

func cig(op, n uint32) uint32 { return n<<4 | op }

var c11Refs = [][2]interface{}{{"chr1", 1000000}, {"chr2", 5000}}

func c11BAMSeeds() []c11Seed {
	var seeds []c11Seed
	all := c11AuxAll()
	recs := []c11Rec{
		{refID: 0, pos: 99, name: "r1", mapq: 30, bin: 4681, flag: 0x63, cigar: []uint32{cig(4, 2), cig(0, 6), cig(1, 1), cig(2, 3), cig(0, 1)},
			seq: "ACGTNACGTA", nextRef: 0, npos: 300, tlen: 210, aux: all[:9]},
		{refID: 1, pos: 16380, name: "read/2", mapq: 0, bin: 585, flag: 0x93, cigar: []uint32{cig(0, 5), cig(3, 100), cig(0, 4), cig(5, 7)},
			seq: "GGGTTTAAA", nextRef: -1, npos: -1, tlen: 0, aux: all[9:]},
		{refID: -1, pos: -1, name: "u", mapq: 255, bin: 4680, flag: 0x4, seq: "", nextRef: -1, npos: -1},
		{refID: 0, pos: 0, name: "b", flag: 0, cigar: []uint32{cig(0, 3), cig(9, 2), cig(7, 2), cig(8, 1), cig(6, 1)}, seq: "ACGTAC", nextRef: 1, npos: 5, tlen: -4,
			aux: []c11Aux{all[0], all[10], all[8]}},
	}
	{
		var f fb
		f.bamHeader(c11HeaderText, c11Refs)
		for _, r := range recs {
			f.bamRecord(r)
		}
		seeds = append(seeds, f.seed("bam.full"))
	}
	{
		var f fb
		// (a binary reference that the text does not declare is rejected by DecodeBinary: "reference already used")
		f.bamHeader("@SQ\tSN:chr1\tLN:1000000\n", c11Refs[:1])
		f.bamRecord(recs[0])
		seeds = append(seeds, f.seed("bam.sqonly"))
	}
	{
		var f fb
		f.bamHeader("@HD\tVN:1.0\n", nil)
		f.bamRecord(recs[2])
		seeds = append(seeds, f.seed("bam.norefs"))
	}
	return seeds
}

// c11BAMWithAux builds a one-record BAM payload carrying the given aux block.  pad > 0 makes the
// record larger than the reader's 4 KiB buffer (the unshared path of bam.newBuffer).
func c11BAMWithAux(aux []byte, pad int) []byte {
	var f fb
	f.bamHeader("@SQ\tSN:chr1\tLN:1000000\n", c11Refs[:1])
	seq := strings.Repeat("A", pad)
	r := c11Rec{refID: 0, pos: 9, name: "r", mapq: 1, flag: 0, cigar: []uint32{cig(0, uint32(pad))}, seq: seq, nextRef: -1, npos: -1}
	if pad == 0 {
		r.cigar = nil
	}
	start := len(f.b)
	f.bamRecord(r)
	f.b = append(f.b, aux...)
	binary.LittleEndian.PutUint32(f.b[start:], uint32(len(f.b)-start-4))
	return f.b
}

func c11AuxSeeds() []c11Seed {
	var seeds []c11Seed
	all := c11AuxAll()
	{
		var f fb
		for _, a := range all {
			f.aux(a)
		}
		seeds = append(seeds, f.seed("aux.all"))
	}
	for _, a := range all {
		var f fb
		f.aux(a)
		seeds = append(seeds, f.seed("aux."+a.tag))
		var g fb
		g.aux(all[1])
		g.aux(a)
		g.aux(all[3])
		seeds = append(seeds, g.seed("aux.mid."+a.tag))
	}
	return seeds
}

// ---------------------------------------------------------------------------
// BAI / tabix / CSI from the specifications

type c11Bin struct {
	bin    uint32
	loff   uint64
	chunks [][2]uint64
}

type c11RefIdx struct {
	bins  []c11Bin
	intvs []uint64
}

var c11IdxRefs = []c11RefIdx{
	{bins: []c11Bin{
		{bin: 4681, loff: 0x10000, chunks: [][2]uint64{{0x10000, 0x20010}, {0x30000, 0x40000}}},
		{bin: 585, loff: 0x10000, chunks: [][2]uint64{{0x50000, 0x60000}}},
		{bin: 37450, chunks: [][2]uint64{{0x10000, 0x60000}, {12, 3}}},
	}, intvs: []uint64{0x10000, 0x30000, 0x50000}},
	{},
	{bins: []c11Bin{{bin: 0, loff: 0x70000, chunks: [][2]uint64{{0x70000, 0x80000}}}}, intvs: []uint64{0x70000}},
}

func (f *fb) baiRefs(refs []c11RefIdx) {
	for _, r := range refs {
		f.i32('L', int32(len(r.bins)))
		for _, b := range r.bins {
			f.u32('I', b.bin)
			f.i32('L', int32(len(b.chunks)))
			for _, c := range b.chunks {
				f.u64('I', c[0]).u64('I', c[1])
			}
		}
		f.i32('L', int32(len(r.intvs)))
		for _, o := range r.intvs {
			f.u64('I', o)
		}
	}
}

func c11IndexSeeds() (bai, tbi, csis []c11Seed) {
	{
		var f fb
		f.str("BAI\x01").i32('L', int32(len(c11IdxRefs)))
		f.baiRefs(c11IdxRefs)
		f.u64('I', 5)
		bai = append(bai, f.seed("bai.spec"))
		var g fb
		g.str("BAI\x01").i32('L', 1)
		g.baiRefs(c11IdxRefs[:1])
		bai = append(bai, g.seed("bai.spec.noUnmapped"))
	}
	{
		names := "chr1\x00chr2\x00chrM\x00"
		var f fb
		f.str("TBI\x01").i32('L', int32(len(c11IdxRefs)))
		f.i32('I', 2).i32('I', 1).i32('I', 2).i32('I', 0).i32('I', '#').i32('I', 0)
		f.i32('L', int32(len(names))).str(names)
		f.baiRefs(c11IdxRefs)
		f.u64('I', 5)
		tbi = append(tbi, f.seed("tbi.spec"))
	}
	for _, version := range []byte{1, 2} {
		var f fb
		f.str("CSI").u8('I', version).i32('I', 14).i32('I', 5)
		f.i32('L', 4).str("auxd")
		f.i32('L', int32(len(c11IdxRefs)))
		for _, r := range c11IdxRefs {
			f.i32('L', int32(len(r.bins)))
			for _, b := range r.bins {
				f.u32('I', b.bin).u64('I', b.loff)
				if version == 2 {
					f.u64('I', 3)
				}
				f.i32('L', int32(len(b.chunks)))
				for _, c := range b.chunks {
					f.u64('I', c[0]).u64('I', c[1])
				}
			}
		}
		f.u64('I', 7)
		csis = append(csis, f.seed(fmt.Sprintf("csi.spec.v%d", version)))
	}
	return
}

// ---------------------------------------------------------------------------
// seeds written by the library's own writers (generic 4-byte fields)

func c11GenericFields(b []byte) []c11Field {
	var fs []c11Field
	for off := 0; off+4 <= len(b); off += 4 {
		fs = append(fs, c11Field{off, 4, 'G'})
	}
	return fs
}

type c11LibRec struct {
	name          string
	id, beg, end_ int
}

func (r c11LibRec) RefID() int      { return r.id }
func (r c11LibRec) RefName() string { return r.name }
func (r c11LibRec) Start() int      { return r.beg }
func (r c11LibRec) End() int        { return r.end_ }

// c11LibrarySeeds runs the library's writers under a watchdog; what they produce becomes a seed.
func c11LibrarySeeds(res *Result) (bamPayload, bai, tbi, csis []c11Seed) {
	note := func(what string, o callOutcome, err error) bool {
		switch {
		case o.timedOut:
			res.note("library seed %s: writer timed out", what)
		case o.panicked:
			res.note("library seed %s: writer panicked: %s", what, o.panicVal)
		case err != nil:
			res.note("library seed %s: writer error: %v", what, err)
		default:
			return true
		}
		return false
	}
	// BAM with every aux type, then unwrapped to its payload
	{
		var payload []byte
		var err error
		o := guardTimeout(20*time.Second, func() {
			var h *sam.Header
			h, err = sam.NewHeader([]byte(c11HeaderText), nil)
			if err != nil {
				return
			}
			var buf bytes.Buffer
			var bw *bam.Writer
			bw, err = bam.NewWriter(&buf, h, 1)
			if err != nil {
				return
			}
			mk := func(tag string, v interface{}) sam.Aux {
				a, e := sam.NewAux(sam.NewTag(tag), v)
				if e != nil {
					panic(e)
				}
				return a
			}
			aux := []sam.Aux{mk("XA", sam.ASCII('q')), mk("Xc", int8(-3)), mk("XC", uint8(200)), mk("Xs", int16(-300)), mk("XS", uint16(60000)),
				mk("Xi", int32(-70000)), mk("XI", uint32(4000000000)), mk("Xf", float32(2.5)), mk("XZ", "some text"), mk("XH", sam.Hex{0x1a, 0xe3}),
				mk("Bc", []int8{-1, 2}), mk("BC", []uint8{1, 2, 3}), mk("Bs", []int16{-5, 6}), mk("BS", []uint16{7}), mk("Bi", []int32{-8, 9}),
				mk("BI", []uint32{10}), mk("Bf", []float32{1.5, -2.5}), mk("RG", "g1"), mk("PG", "p1")}
			refs := h.Refs()
			r1, e := sam.NewRecord("lib1", refs[0], refs[0], 99, 300, 210, 30,
				[]sam.CigarOp{sam.NewCigarOp(sam.CigarSoftClipped, 2), sam.NewCigarOp(sam.CigarMatch, 8)}, []byte("ACGTNACGTA"), []byte("IIIIIIIIII"), aux)
			if e != nil {
				err = e
				return
			}
			r1.Flags = sam.Paired | sam.ProperPair | sam.Read1
			r2, e := sam.NewRecord("lib2", nil, nil, -1, -1, 0, 0, nil, []byte("GGG"), nil, nil)
			if e != nil {
				err = e
				return
			}
			r2.Flags = sam.Unmapped
			if err = bw.Write(r1); err != nil {
				return
			}
			if err = bw.Write(r2); err != nil {
				return
			}
			if err = bw.Close(); err != nil {
				return
			}
			var gz *gzip.Reader
			_ = gz
			br, e := bgzf.NewReader(bytes.NewReader(buf.Bytes()), 1)
			if e != nil {
				err = e
				return
			}
			payload, err = io.ReadAll(br)
		})
		if note("bam.Writer", o, err) && len(payload) > 0 {
			bamPayload = append(bamPayload, c11Seed{name: "bam.lib", b: payload, fields: c11GenericFields(payload)})
		}
	}
	ch := func(a, b int64) bgzf.Chunk {
		return bgzf.Chunk{Begin: bgzf.Offset{File: a, Block: 1}, End: bgzf.Offset{File: b, Block: 2}}
	}
	{
		var out []byte
		var err error
		o := guardTimeout(10*time.Second, func() {
			var idx bam.Index
			h, e := sam.NewHeader([]byte(c11HeaderText), nil)
			if e != nil {
				err = e
				return
			}
			for i, p := range []int{10, 120, 500, 900} {
				r := &sam.Record{Name: "q", Ref: h.Refs()[0], Pos: p, MatePos: -1, Cigar: sam.Cigar{sam.NewCigarOp(sam.CigarMatch, 50)}}
				if err = idx.Add(r, ch(int64(100*i), int64(100*i+80))); err != nil {
					return
				}
			}
			r := &sam.Record{Name: "q", Ref: h.Refs()[1], Pos: 40, MatePos: -1, Cigar: sam.Cigar{sam.NewCigarOp(sam.CigarMatch, 50)}}
			if err = idx.Add(r, ch(1000, 1100)); err != nil {
				return
			}
			var buf bytes.Buffer
			err = bam.WriteIndex(&buf, &idx)
			out = buf.Bytes()
		})
		if note("bam.WriteIndex", o, err) {
			bai = append(bai, c11Seed{name: "bai.lib", b: out, fields: c11GenericFields(out)})
		}
	}
	{
		var out []byte
		var err error
		o := guardTimeout(10*time.Second, func() {
			idx := tabix.New()
			idx.NameColumn, idx.BeginColumn, idx.EndColumn, idx.MetaChar = 1, 2, 3, '#'
			for i, p := range []int{10, 120, 500} {
				if err = idx.Add(c11LibRec{name: "chr1", beg: p, end_: p + 50}, ch(int64(100*i), int64(100*i+80)), true, true); err != nil {
					return
				}
			}
			var buf bytes.Buffer
			err = tabix.WriteTo(&buf, idx)
			out = buf.Bytes()
		})
		if note("tabix.WriteTo", o, err) {
			tbi = append(tbi, c11Seed{name: "tbi.lib", b: out, fields: c11GenericFields(out)})
		}
	}
	{
		var out []byte
		var err error
		o := guardTimeout(10*time.Second, func() {
			idx := csi.New(0, 0)
			for i, p := range []int{10, 120, 500, 20000} {
				if err = idx.Add(c11LibRec{id: 0, beg: p, end_: p + 50}, ch(int64(100*i), int64(100*i+80)), true, true); err != nil {
					return
				}
			}
			var buf bytes.Buffer
			err = csi.WriteTo(&buf, idx)
			out = buf.Bytes()
		})
		if note("csi.WriteTo", o, err) {
			csis = append(csis, c11Seed{name: "csi.lib", b: out, fields: c11GenericFields(out)})
		}
	}
	return
}

// ---------------------------------------------------------------------------
// CRAM from the specification (CRC32s are computed after the fields are chosen, so a mutated
// field is actually reached by the decoder)

type c11CramBlock struct {
	method, typ       byte
	contentID         int32
	compSize, rawSize int32 // -2: derive from data
	data              []byte
	plain             []byte // method 1 (gzip): the uncompressed content, when the generator edits it
	badCRC            bool
}

// content is the uncompressed content of the block as the generator knows it.
func (blk *c11CramBlock) content() []byte {
	if blk.plain != nil {
		return blk.plain
	}
	return blk.data
}

// setLText overwrites the leading int32 (the header text length of a file header block); a gzip block
// is compressed again, and the CRC32s are computed at encoding time, so the decoder reaches the field.
func (blk *c11CramBlock) setLText(v int32) {
	p := blk.content()
	if len(p) < 4 {
		return
	}
	binary.LittleEndian.PutUint32(p, uint32(v))
	if blk.plain != nil {
		blk.data = c11Gzip(p)
	}
}

// c11ManyRefs is a header text with n @SQ lines and the matching reference list.
func c11ManyRefs(n int) (string, [][2]interface{}) {
	var sb strings.Builder
	sb.WriteString("@HD\tVN:1.6\tSO:unknown\n")
	refs := make([][2]interface{}, n)
	for i := range refs {
		name := fmt.Sprintf("r%d", i)
		refs[i] = [2]interface{}{name, i%7 + 1}
		fmt.Fprintf(&sb, "@SQ\tSN:%s\tLN:%d\n", name, i%7+1)
	}
	return sb.String(), refs
}

type c11CramContainer struct {
	length                   int32 // -2: derive
	refID, start, span, nRec int32
	recCount, bases          int64
	nBlocks                  int32
	landmarksN               int32 // -2: derive
	landmarks                []int32
	blocks                   []c11CramBlock
	badCRC                   bool
}

func c11Itf8(v int32) []byte {
	var b [5]byte
	n := itf8.Encode(b[:], v)
	return append([]byte{}, b[:n]...)
}

func c11Ltf8(v int64) []byte {
	var b [9]byte
	n := ltf8.Encode(b[:], v)
	return append([]byte{}, b[:n]...)
}

func (blk c11CramBlock) encode() []byte {
	cs, rs := blk.compSize, blk.rawSize
	if cs == -2 {
		cs = int32(len(blk.data))
	}
	if rs == -2 {
		rs = int32(len(blk.data))
	}
	b := []byte{blk.method, blk.typ}
	b = append(b, c11Itf8(blk.contentID)...)
	b = append(b, c11Itf8(cs)...)
	b = append(b, c11Itf8(rs)...)
	b = append(b, blk.data...)
	sum := crc32.ChecksumIEEE(b)
	if blk.badCRC {
		sum ^= 1
	}
	return binary.LittleEndian.AppendUint32(b, sum)
}

func (c c11CramContainer) encode() []byte {
	var body []byte
	for _, blk := range c.blocks {
		body = append(body, blk.encode()...)
	}
	ln := c.length
	if ln == -2 {
		ln = int32(len(body))
	}
	b := binary.LittleEndian.AppendUint32(nil, uint32(ln))
	b = append(b, c11Itf8(c.refID)...)
	b = append(b, c11Itf8(c.start)...)
	b = append(b, c11Itf8(c.span)...)
	b = append(b, c11Itf8(c.nRec)...)
	b = append(b, c11Ltf8(c.recCount)...)
	b = append(b, c11Ltf8(c.bases)...)
	b = append(b, c11Itf8(c.nBlocks)...)
	n := c.landmarksN
	if n == -2 {
		n = int32(len(c.landmarks))
	}
	b = append(b, c11Itf8(n)...)
	for _, l := range c.landmarks {
		b = append(b, c11Itf8(l)...)
	}
	sum := crc32.ChecksumIEEE(b)
	if c.badCRC {
		sum ^= 1
	}
	b = binary.LittleEndian.AppendUint32(b, sum)
	return append(b, body...)
}

var c11CramEOF = []byte{
	0x0f, 0x00, 0x00, 0x00, 0xff, 0xff, 0xff, 0xff, 0x0f, 0xe0, 0x45, 0x4f, 0x46, 0x00, 0x00, 0x00,
	0x00, 0x01, 0x00, 0x05, 0xbd, 0xd9, 0x4f, 0x00, 0x01, 0x00, 0x06, 0x06, 0x01, 0x00, 0x01, 0x00,
	0x01, 0x00, 0xee, 0x63, 0x01, 0x4b,
}

func c11CramFile(cs []c11CramContainer, eof bool) []byte {
	b := []byte("CRAM\x03\x00")
	b = append(b, []byte("verif-c11-seed-file-")...)
	for _, c := range cs {
		b = append(b, c.encode()...)
	}
	if eof {
		b = append(b, c11CramEOF...)
	}
	return b
}

func c11Gzip(p []byte) []byte {
	var buf bytes.Buffer
	w := gzip.NewWriter(&buf)
	w.Write(p)
	w.Close()
	return buf.Bytes()
}

func c11CramSeed() []c11CramContainer {
	text := []byte(c11HeaderText)
	hdr := binary.LittleEndian.AppendUint32(nil, uint32(len(text)))
	hdr = append(hdr, text...)
	gz := c11Gzip(hdr)
	// a slice header: refID start span nRec recCount nBlocks blockIDs[] embeddedRef md5 tags
	var sl []byte
	sl = append(sl, c11Itf8(0)...)
	sl = append(sl, c11Itf8(100)...)
	sl = append(sl, c11Itf8(50)...)
	sl = append(sl, c11Itf8(2)...)
	sl = append(sl, c11Ltf8(7)...)
	sl = append(sl, c11Itf8(2)...)
	sl = append(sl, c11Itf8(2)...)
	sl = append(sl, c11Itf8(5)...)
	sl = append(sl, c11Itf8(6)...)
	sl = append(sl, c11Itf8(-1)...)
	sl = append(sl, make([]byte, 16)...)
	sl = append(sl, 'X', 'Y')
	return []c11CramContainer{
		{length: -2, refID: 0, start: 0, span: 0, nRec: 0, nBlocks: 1, landmarksN: -2, landmarks: []int32{0},
			blocks: []c11CramBlock{{method: 0, typ: 0, compSize: -2, rawSize: -2, data: hdr}}},
		{length: -2, refID: 0, start: 100, span: 50, nRec: 2, recCount: 7, bases: 20, nBlocks: 4, landmarksN: -2, landmarks: []int32{10, 20},
			blocks: []c11CramBlock{
				{method: 0, typ: 1, compSize: -2, rawSize: -2, data: []byte{1, 2, 3, 4, 5, 6}},
				{method: 0, typ: 2, compSize: -2, rawSize: -2, data: sl},
				{method: 1, typ: 4, contentID: 5, compSize: -2, rawSize: 9, data: c11Gzip([]byte("external!"))},
				{method: 0, typ: 5, contentID: 6, compSize: -2, rawSize: -2, data: []byte("core")},
			}},
		{length: -2, refID: -1, nBlocks: 1, landmarksN: -2,
			blocks: []c11CramBlock{{method: 1, typ: 0, compSize: -2, rawSize: int32(len(hdr)), data: gz, plain: hdr}}},
	}
}

// ---------------------------------------------------------------------------
// text seeds

var c11SAMLines = []string{
	"r1\t99\tchr1\t100\t30\t2S6M1I3D1M\t=\t301\t210\tACGTNACGTA\tIIIIIIIIII\tXA:A:q\tXi:i:-70000\tXI:i:4000000000\tXf:f:2.5\tXZ:Z:some text\tXH:H:1AE3\tBc:B:c,-1,2\tBS:B:S,7,60000\tBf:B:f,1.5,-2.5\tRG:Z:g1\tPG:Z:p1",
	"r2\t147\tchr2\t16381\t0\t5M100N4M7H\tchr1\t5\t-4\tGGGTTTAAA\t*",
	"u\t4\t*\t0\t255\t*\t*\t0\t0\t*\t*",
	"b\t0\tchr1\t1\t9\t3M2B2=1X1P\tchr2\t6\t0\tACGTAC\t!!!!!!\tBC:B:C,1,2,3\tBi:B:i,-8,9\tBI:B:I,10\tBs:B:s,-5,6",
}

var c11AuxTexts = []string{
	"XA:A:q", "Xi:i:-70000", "Xi:i:200", "XI:i:4000000000", "Xf:f:2.5", "XZ:Z:some text", "XH:H:1AE3",
	"Bc:B:c,-1,2", "BC:B:C,1,2,3", "Bs:B:s,-5,6", "BS:B:S,7,60000", "Bi:B:i,-8,9", "BI:B:I,10", "Bf:B:f,1.5,-2.5",
	"Xs:i:-300", "XS:i:60000", "Xc:i:-3", "XC:i:16", "BC:B:C,0x10,0b11,0o7,1_0",
}

var c11CigarTexts = []string{"*", "2S6M1I3D1M", "5M100N4M7H", "3M2B2=1X1P", "10M", "300000000M", "1H2S3M4S5H", "0M", "12M"}

var c11HeaderTexts = []string{
	c11HeaderText,
	"@HD\tVN:1.6\tSO:queryname\tGO:query\tXX:yy\n@SQ\tSN:a\tLN:10\tAS:asm\tM5:0123456789abcdef0123456789abcdef\tSP:sp\tUR:http://x/y\tXX:zz\n@SQ\tSN:b\tLN:20\tUR:/local/path\n@RG\tID:g\tCN:c\tDS:d\tDT:2014-08-13T16:02:01Z\tFO:ACGT\tKS:AC\tLB:l\tPG:p\tPI:300\tPL:ILLUMINA\tPU:u\tSM:s\tXX:q\n@RG\tID:g2\tDT:2014-08-13\n@PG\tID:p\tPN:n\tCL:cmd -x\tPP:p0\tVN:1\tDS:z\n@CO\tfree text\twith tab\n",
	"@SQ\tSN:a\tLN:10\n@SQ\tSN:a\tLN:10\tAS:x\n",
	"@HD\tVN:1.0\r\n@CO\tc\r\n",
}

var c11FAITexts = []string{
	"a\t23\t8\t10\t11\nb\t10\t41\t8\t9\n",
	"chr1\t1000\t6\t60\t61\n",
}

var c11FastaTexts = []string{
	string(c11Fasta),
	">x\r\nACGT\r\nAC\r\n>y z\r\nGG\r\n",
}

func c11SAMFiles() []string {
	return []string{
		c11HeaderText + strings.Join(c11SAMLines, "\n") + "\n",
		strings.Join(c11SAMLines[:3], "\n") + "\n",
		c11HeaderText + c11SAMLines[0] + "\r\n" + c11SAMLines[2] + "\r\n",
	}
}

func c11TextSeed(name, s string) c11Seed { return c11Seed{name: name, b: []byte(s), text: true} }

// ---------------------------------------------------------------------------
// mutators

// integer edits: small, negative, boundary and huge values.  The huge ones make the decoders ask for
// gigabytes (outcome `oom`, a worker death each), so the quick tier uses two of them per length field.
var c11IntEdits32 = []uint32{0, 1, 2, 0xffffffff, 0xfffffffe, 0x80000000, 255, 256, 4096, 1 << 16, 0x7fffffff, 1 << 28, 0x7ffffff0, 0x1000000}

const c11NSmallEdits = 10 // c11IntEdits32[:10] cannot exhaust memory through a 32-bit count of small elements

var c11Thorough bool

func c11SetInt(b []byte, off, n int, v uint64) {
	for i := 0; i < n; i++ {
		b[off+i] = byte(v >> (8 * uint(i)))
	}
}

func c11GetInt(b []byte, off, n int) uint64 {
	var v uint64
	for i := 0; i < n; i++ {
		v |= uint64(b[off+i]) << (8 * uint(i))
	}
	return v
}

func clone(b []byte) []byte { return append([]byte{}, b...) }

// singles enumerates the systematic single mutations of a binary seed.
func (s *c11Seed) singles(emit func(mut string, b []byte)) {
	if s.text {
		s.textSingles(emit)
		return
	}
	emit("seed", clone(s.b))
	// truncation at every field boundary, and one byte either side
	seen := map[int]bool{}
	for _, f := range s.fields {
		for _, cut := range []int{f.off, f.off + 1, f.off + f.n - 1} {
			if cut >= 0 && cut < len(s.b) && !seen[cut] {
				seen[cut] = true
				emit("truncate", clone(s.b[:cut]))
			}
		}
	}
	for _, f := range s.fields {
		switch {
		case f.n == 1 || f.n == 2 || f.n == 4 || f.n == 8:
			if f.kind == 'B' {
				break
			}
			old := c11GetInt(s.b, f.off, f.n)
			vals := []uint64{old + 1, old - 1, old + 4, old * 2, old ^ 0x80}
			edits := c11IntEdits32
			switch {
			case c11Thorough:
			case f.kind == 'G':
				edits = []uint32{0, 1, 0xffffffff, 0x80000000}
			case f.kind == 'I':
				edits = c11IntEdits32[:c11NSmallEdits+1]
			default:
				edits = c11IntEdits32[:c11NSmallEdits+1]
			}
			for _, e := range edits {
				v := uint64(e)
				if f.n == 8 && e&0x80000000 != 0 {
					v |= 0xffffffff00000000
				}
				vals = append(vals, v)
			}
			if f.kind == 'T' {
				vals = vals[:0]
				for _, c := range []byte("AcCsSiIfZHBx\x00\xff") {
					vals = append(vals, uint64(c))
				}
			}
			kind := "intfield"
			if f.kind == 'L' || f.kind == 'G' {
				kind = "lenfield"
			} else if f.kind == 'T' {
				kind = "typefield"
			}
			for _, v := range vals {
				m := clone(s.b)
				c11SetInt(m, f.off, f.n, v)
				if !bytes.Equal(m, s.b) {
					emit(kind, m)
				}
			}
		}
		// delete the field, duplicate it, zero it
		emit("fielddelete", append(clone(s.b[:f.off]), s.b[f.off+f.n:]...))
		emit("fielddup", append(append(clone(s.b[:f.off+f.n]), s.b[f.off:f.off+f.n]...), s.b[f.off+f.n:]...))
		if f.kind == 'B' && f.n > 1 {
			emit("fieldshorten", append(clone(s.b[:f.off+f.n-1]), s.b[f.off+f.n:]...))
			m := clone(s.b)
			for i := 0; i < f.n; i++ {
				m[f.off+i] = 0
			}
			emit("fieldzero", m)
		}
	}
}

// random derives one random (possibly double) mutation.
func (s *c11Seed) random(r *Rand, others []c11Seed) (string, []byte) {
	if s.text {
		return s.textRandom(r, others)
	}
	m := clone(s.b)
	kinds := ""
	for k := r.rng(1, 3); k > 0; k-- {
		if len(m) == 0 {
			break
		}
		switch r.intn(7) {
		case 0: // bit flip
			i := r.intn(len(m))
			m[i] ^= 1 << uint(r.intn(8))
			kinds += "+bitflip"
		case 1: // byte set
			m[r.intn(len(m))] = []byte{0, 1, 0xff, 0x7f, 0x80, 'B', 'Z', 'i'}[r.intn(8)]
			kinds += "+byteset"
		case 2: // length-ish edit at a field
			if len(s.fields) == 0 {
				break
			}
			f := s.fields[r.intn(len(s.fields))]
			if f.off+f.n <= len(m) && f.n <= 8 {
				v := c11IntEdits32[r.intn(c11NSmallEdits)]
				if r.coin(1, 6) {
					v = c11IntEdits32[c11NSmallEdits+r.intn(len(c11IntEdits32)-c11NSmallEdits)]
				} else if r.coin(1, 3) {
					v = uint32(c11GetInt(m, f.off, f.n)) + uint32(r.rng(-2, 2))
				}
				c11SetInt(m, f.off, f.n, uint64(v))
				kinds += "+lenfield"
			}
		case 3: // truncate
			m = m[:r.intn(len(m)+1)]
			kinds += "+truncate"
		case 4: // splice a field of another seed over a field of this one
			if len(s.fields) == 0 || len(others) == 0 {
				break
			}
			o := others[r.intn(len(others))]
			if len(o.fields) == 0 {
				break
			}
			f := s.fields[r.intn(len(s.fields))]
			g := o.fields[r.intn(len(o.fields))]
			if f.off+f.n <= len(m) {
				m = append(append(clone(m[:f.off]), o.b[g.off:g.off+g.n]...), m[f.off+f.n:]...)
				kinds += "+splice"
			}
		case 5: // insert random bytes
			i := r.intn(len(m) + 1)
			m = append(append(clone(m[:i]), r.bytes(r.rng(1, 4))...), m[i:]...)
			kinds += "+insert"
		case 6: // small integer delta on an aligned word
			if len(m) >= 4 {
				i := r.intn(len(m) - 3)
				v := uint32(c11GetInt(m, i, 4)) + uint32(r.rng(-3, 3))
				c11SetInt(m, i, 4, uint64(v))
				kinds += "+delta"
			}
		}
	}
	if kinds == "" {
		kinds = "+none"
	}
	return "random" + kinds, m
}

var c11SpecialChars = []byte("\t\n\r:,*=@-+.0179xXABZcifHe \x00\xff")

var c11NumEdits = []string{"", "-1", "0", "1", "2147483647", "2147483648", "4294967296", "99999999999999999999", "-99999999999999999999", "0x10", "1e9", "+5", " 1", "1_0", "00", "NaN"}

// textSingles: truncation at every byte, deletion/duplication/emptying of every field at every
// separator level, special characters at every position (short texts) or field boundary (long).
func (s *c11Seed) textSingles(emit func(mut string, b []byte)) {
	b := s.b
	emit("seed", clone(b))
	step := 1
	if len(b) > 400 {
		step = len(b) / 400
	}
	for i := 0; i < len(b); i += step {
		emit("truncate", clone(b[:i]))
	}
	for _, sep := range []byte("\n\t:,") {
		parts := bytes.Split(b, []byte{sep})
		if len(parts) < 2 || len(parts) > 300 {
			continue
		}
		join := func(p [][]byte) []byte { return bytes.Join(p, []byte{sep}) }
		for i := range parts {
			del := append(append([][]byte{}, parts[:i]...), parts[i+1:]...)
			emit("fielddelete", join(del))
			dup := append(append(append([][]byte{}, parts[:i+1]...), parts[i]), parts[i+1:]...)
			emit("fielddup", join(dup))
			emp := append([][]byte{}, parts...)
			emp[i] = nil
			emit("fieldempty", join(emp))
			if len(parts[i]) > 0 {
				for _, k := range []int{1, 2, 3} {
					if k < len(parts[i])+1 {
						sh := append([][]byte{}, parts...)
						sh[i] = parts[i][:len(parts[i])-k]
						emit("fieldshorten", join(sh))
						sh2 := append([][]byte{}, parts...)
						sh2[i] = parts[i][:k-1]
						emit("fieldshorten", join(sh2))
					}
				}
			}
			if len(parts) <= 60 {
				for _, ne := range c11NumEdits {
					nu := append([][]byte{}, parts...)
					nu[i] = []byte(ne)
					emit("numfield", join(nu))
				}
			}
			if i+1 < len(parts) {
				sw := append([][]byte{}, parts...)
				sw[i], sw[i+1] = sw[i+1], sw[i]
				emit("fieldswap", join(sw))
			}
		}
	}
	if len(b) <= 120 {
		for i := 0; i <= len(b); i++ {
			for _, c := range c11SpecialChars {
				if i < len(b) && b[i] != c {
					m := clone(b)
					m[i] = c
					emit("charset", m)
				}
				emit("charinsert", append(append(clone(b[:i]), c), b[i:]...))
			}
			if i < len(b) {
				emit("chardelete", append(clone(b[:i]), b[i+1:]...))
			}
		}
	}
}

func (s *c11Seed) textRandom(r *Rand, others []c11Seed) (string, []byte) {
	m := clone(s.b)
	kinds := ""
	for k := r.rng(1, 3); k > 0; k-- {
		if len(m) == 0 {
			m = append(m, c11SpecialChars[r.intn(len(c11SpecialChars))])
			continue
		}
		switch r.intn(6) {
		case 0:
			m[r.intn(len(m))] = c11SpecialChars[r.intn(len(c11SpecialChars))]
			kinds += "+charset"
		case 1:
			i := r.intn(len(m) + 1)
			m = append(append(clone(m[:i]), c11SpecialChars[r.intn(len(c11SpecialChars))]), m[i:]...)
			kinds += "+charinsert"
		case 2:
			i := r.intn(len(m))
			m = append(clone(m[:i]), m[i+1:]...)
			kinds += "+chardelete"
		case 3:
			m = m[:r.intn(len(m)+1)]
			kinds += "+truncate"
		case 4: // replace one field at a random separator level by a numeric edit or by a field of another seed
			sep := []byte("\n\t:,")[r.intn(4)]
			parts := bytes.Split(m, []byte{sep})
			i := r.intn(len(parts))
			if r.coin(1, 2) || len(others) == 0 {
				parts[i] = []byte(c11NumEdits[r.intn(len(c11NumEdits))])
				kinds += "+numfield"
			} else {
				o := bytes.Split(others[r.intn(len(others))].b, []byte{sep})
				parts[i] = o[r.intn(len(o))]
				kinds += "+splice"
			}
			m = bytes.Join(parts, []byte{sep})
		case 5: // delete a field
			sep := []byte("\n\t:,")[r.intn(4)]
			parts := bytes.Split(m, []byte{sep})
			if len(parts) > 1 {
				i := r.intn(len(parts))
				parts = append(parts[:i], parts[i+1:]...)
				m = bytes.Join(parts, []byte{sep})
				kinds += "+fielddelete"
			}
		}
	}
	if kinds == "" {
		kinds = "+none"
	}
	return "random" + kinds, m
}

// ---------------------------------------------------------------------------
// the repository's crasher corpora: string literals of `var fuzzCrashers = []string{...}` in the test files

func c11Crashers(repo, rel string) ([][]byte, error) {
	fset := token.NewFileSet()
	f, err := parser.ParseFile(fset, filepath.Join(repo, rel), nil, 0)
	if err != nil {
		return nil, err
	}
	var out [][]byte
	var eval func(e ast.Expr) (string, bool)
	eval = func(e ast.Expr) (string, bool) {
		switch e := e.(type) {
		case *ast.BasicLit:
			if e.Kind != token.STRING {
				return "", false
			}
			s, err := strconv.Unquote(e.Value)
			return s, err == nil
		case *ast.BinaryExpr:
			if e.Op != token.ADD {
				return "", false
			}
			a, ok1 := eval(e.X)
			b, ok2 := eval(e.Y)
			return a + b, ok1 && ok2
		case *ast.ParenExpr:
			return eval(e.X)
		}
		return "", false
	}
	ast.Inspect(f, func(n ast.Node) bool {
		vs, ok := n.(*ast.ValueSpec)
		if !ok || len(vs.Names) != 1 || vs.Names[0].Name != "fuzzCrashers" || len(vs.Values) != 1 {
			return true
		}
		cl, ok := vs.Values[0].(*ast.CompositeLit)
		if !ok {
			return true
		}
		for _, e := range cl.Elts {
			if s, ok := eval(e); ok {
				out = append(out, []byte(s))
			}
		}
		return false
	})
	return out, nil
}
