package main

// C10 — truncated or corrupted streams are never read as different valid data.
//
// Exhaustive enumeration on the implementation of ALL truncation lengths and ALL single-byte
// substitutions (position, value) of small closed BGZF / BAM streams produced with the library
// writers, for rd in {1, 3}; every case is judged by the property oracle (which knows nothing of the
// Lean model) and compared with the verdict of the Lean byte-level reader model (Hts.Model.BgzfBytes)
// run over the same bytes with compress/flate as the shared DEFLATE table.

import (
	"bytes"
	"compress/flate"
	"compress/gzip"
	"encoding/binary"
	"encoding/hex"
	"fmt"
	"hash/crc32"
	"io"
	"runtime"
	"sort"
	"strings"
	"sync"
	"time"

	"github.com/biogo/hts/bam"
	"github.com/biogo/hts/bgzf"
	"github.com/biogo/hts/sam"
)

func init() { checks["C10"] = checkC10 }

type c10Input struct {
	Kind   string `json:"kind"`  // trunc | subst
	Layer  string `json:"layer"` // bgzf | bam
	Name   string `json:"name"`
	Stream string `json:"stream"` // the intact stream, hex
	Cut    int    `json:"cut,omitempty"`
	Pos    int    `json:"pos,omitempty"`
	Val    int    `json:"val,omitempty"`
	Role   string `json:"role,omitempty"`
	Rd     int    `json:"rd"`
	Chunk  int    `json:"chunk"`
}

const c10CallTimeout = 20 * time.Second

// ---------------------------------------------------------------------------------------------
// independent framing parser for the INTACT streams (RFC 1952 + SAM spec §4.1), used by the oracle
// for member boundaries, byte roles and the BAM record boundaries

type c10Member struct {
	start, size int
	hlen        int // header length
	xend        int // end of the Extra field (offset in the member)
	nend        int // end of the Name field incl. NUL (= xend if absent)
	payload     []byte
	marker      bool
}

const c10Magic = "\x1f\x8b\x08\x04\x00\x00\x00\x00\x00\xff\x06\x00\x42\x43\x02\x00\x1b\x00\x03\x00\x00\x00\x00\x00\x00\x00\x00\x00"

func c10ParseStrict(s []byte) ([]c10Member, error) {
	var ms []c10Member
	off := 0
	for off < len(s) {
		b := s[off:]
		if len(b) < 28 {
			return nil, fmt.Errorf("member at %d: %d bytes left", off, len(b))
		}
		// gzip header as bgzf.Writer lays it out: FEXTRA always, the BC subfield first in Extra, optionally
		// FNAME and FCOMMENT; nothing else
		if b[0] != 0x1f || b[1] != 0x8b || b[2] != 8 || b[3]&4 == 0 || b[3]&^(4|8|16) != 0 {
			return nil, fmt.Errorf("member at %d: not a gzip member with FEXTRA and at most FNAME, FCOMMENT", off)
		}
		xlen := int(binary.LittleEndian.Uint16(b[10:]))
		if xlen < 6 || 12+xlen > len(b) || b[12] != 'B' || b[13] != 'C' || binary.LittleEndian.Uint16(b[14:]) != 2 {
			return nil, fmt.Errorf("member at %d: extra field does not start with the BC subfield", off)
		}
		for q := 18; q < 12+xlen; { // the other subfields must be well-formed and must not be another BC
			if q+4 > 12+xlen {
				return nil, fmt.Errorf("member at %d: truncated extra subfield", off)
			}
			if b[q] == 'B' && b[q+1] == 'C' {
				return nil, fmt.Errorf("member at %d: second BC subfield", off)
			}
			q += 4 + int(binary.LittleEndian.Uint16(b[q+2:]))
			if q > 12+xlen {
				return nil, fmt.Errorf("member at %d: extra subfield overruns XLEN", off)
			}
		}
		xend := 12 + xlen
		hlen := xend
		nend := xend
		for _, bit := range []byte{8, 16} {
			if b[3]&bit != 0 {
				z := bytes.IndexByte(b[hlen:], 0)
				if z < 0 {
					return nil, fmt.Errorf("member at %d: unterminated name/comment", off)
				}
				hlen += z + 1
			}
			if bit == 8 {
				nend = hlen
			}
		}
		size := int(binary.LittleEndian.Uint16(b[16:])) + 1
		if size < hlen+10 || size > len(b) {
			return nil, fmt.Errorf("member at %d: BSIZE+1 = %d, header %d, %d bytes left", off, size, hlen, len(b))
		}
		// the block body: deflate data + trailer, optionally followed (compress/gzip reads multistream)
		// by further gzip members with a plain ten-byte header, each with its own trailer
		var payload []byte
		rest := b[hlen:size]
		for first := true; ; first = false {
			if !first {
				if len(rest) < 10 || rest[0] != 0x1f || rest[1] != 0x8b || rest[2] != 8 || rest[3] != 0 {
					return nil, fmt.Errorf("member at %d: bytes after the trailer are not a plain gzip header", off)
				}
				rest = rest[10:]
			}
			cr := &c10ByteCounter{b: rest}
			p, err := io.ReadAll(flate.NewReader(cr))
			if err != nil {
				return nil, fmt.Errorf("member at %d: inflate: %v", off, err)
			}
			if len(rest)-cr.n < 8 {
				return nil, fmt.Errorf("member at %d: deflate stream uses %d of %d bytes, no room for the trailer", off, cr.n, len(rest))
			}
			tr := rest[cr.n:]
			if binary.LittleEndian.Uint32(tr) != crc32.ChecksumIEEE(p) || binary.LittleEndian.Uint32(tr[4:]) != uint32(len(p)) {
				return nil, fmt.Errorf("member at %d: trailer mismatch", off)
			}
			payload = append(payload, p...)
			rest = tr[8:]
			if len(rest) == 0 {
				break
			}
		}
		ms = append(ms, c10Member{start: off, size: size, hlen: hlen, xend: xend, nend: nend, payload: payload, marker: string(b[:size]) == c10Magic})
		off += size
	}
	return ms, nil
}

// c10Role names the role of byte pos of an intact stream.
func c10Role(ms []c10Member, pos int) string {
	for _, m := range ms {
		if pos < m.start || pos >= m.start+m.size {
			continue
		}
		o := pos - m.start
		var r string
		switch {
		case o < 2:
			r = "gzip-magic"
		case o == 2:
			r = "cm"
		case o == 3:
			r = "flg"
		case o < 8:
			r = "mtime"
		case o == 8:
			r = "xfl"
		case o == 9:
			r = "os"
		case o < 12:
			r = "xlen"
		case o < 14:
			r = "subfield-id"
		case o < 16:
			r = "subfield-len"
		case o < 18:
			r = "bsize"
		case o < m.xend:
			r = "extra-user"
		case o < m.nend:
			r = "name"
		case o < m.hlen:
			r = "comment"
		case o < m.size-8:
			r = "deflate"
		case o < m.size-4:
			r = "crc"
		default:
			r = "isize"
		}
		if m.marker {
			r = "marker-" + r
		}
		return r
	}
	return "outside"
}

type c10Stream struct {
	name    string
	layer   string
	raw     []byte
	members []c10Member
	bounds  map[int]int // member boundary (stream offset) -> number of data bytes before it
	data    []byte
	// bam
	recEnds map[int]bool // data offsets that are record boundaries (end of header, end of each record)
	recs    []string     // header text, then every record as a SAM line (from the intact read)
}

func c10Describe(name, layer string, raw []byte) (*c10Stream, error) {
	ms, err := c10ParseStrict(raw)
	if err != nil {
		return nil, err
	}
	st := &c10Stream{name: name, layer: layer, raw: raw, members: ms, bounds: map[int]int{0: 0}}
	for _, m := range ms {
		st.data = append(st.data, m.payload...)
		st.bounds[m.start+m.size] = len(st.data)
	}
	if layer != "bam" {
		return st, nil
	}
	// BAM layout, SAM spec §4.2: magic l_text text n_ref {l_name name l_ref} {block_size block}
	d := st.data
	need := func(off, n int) error {
		if off+n > len(d) {
			return fmt.Errorf("BAM data ends at %d, need %d at %d", len(d), n, off)
		}
		return nil
	}
	if err := need(0, 12); err != nil || string(d[:4]) != "BAM\x01" {
		return nil, fmt.Errorf("not BAM data")
	}
	off := 8 + int(binary.LittleEndian.Uint32(d[4:]))
	if err := need(off, 4); err != nil {
		return nil, err
	}
	nref := int(binary.LittleEndian.Uint32(d[off:]))
	off += 4
	for i := 0; i < nref; i++ {
		if err := need(off, 4); err != nil {
			return nil, err
		}
		off += 4 + int(binary.LittleEndian.Uint32(d[off:])) + 4
	}
	st.recEnds = map[int]bool{off: true}
	for off < len(d) {
		if err := need(off, 4); err != nil {
			return nil, err
		}
		off += 4 + int(binary.LittleEndian.Uint32(d[off:]))
		if off > len(d) {
			return nil, fmt.Errorf("last BAM record is incomplete")
		}
		st.recEnds[off] = true
	}
	o := c10RunBam(raw, 1)
	if o.bad != "" || o.hdrErr || o.kind != "eof" {
		return nil, fmt.Errorf("intact BAM stream does not read back: %s hdrErr=%v %s", o.bad, o.hdrErr, o.kind)
	}
	st.recs = o.recs
	if len(st.recs)-1 != len(st.recEnds)-1 {
		return nil, fmt.Errorf("intact read returns %d records, layout has %d", len(st.recs)-1, len(st.recEnds)-1)
	}
	return st, nil
}

// ---------------------------------------------------------------------------------------------
// stream construction with the library writers

// c10WriteBgzf: parts are written one per Write; a nil part is a Flush.
func c10WriteBgzf(level int, parts [][]byte) ([]byte, error) {
	return c10WriteBgzfHdr(level, parts, nil)
}

// c10WriteBgzfHdr: as c10WriteBgzf, with the gzip header fields of the Writer set by setHdr.
func c10WriteBgzfHdr(level int, parts [][]byte, setHdr func(w *bgzf.Writer)) ([]byte, error) {
	var buf bytes.Buffer
	var err error
	o := guardTimeout(c10CallTimeout, func() {
		var w *bgzf.Writer
		w, err = bgzf.NewWriterLevel(&buf, level, 1)
		if err != nil {
			return
		}
		if setHdr != nil {
			setHdr(w)
		}
		for _, p := range parts {
			if p == nil {
				if err = w.Flush(); err != nil {
					return
				}
				if err = w.Wait(); err != nil {
					return
				}
				continue
			}
			if _, err = w.Write(p); err != nil {
				return
			}
		}
		err = w.Close()
	})
	if o.timedOut {
		return nil, fmt.Errorf("bgzf.Writer hangs")
	}
	if o.panicked {
		return nil, fmt.Errorf("bgzf.Writer panics: %s", o.panicVal)
	}
	return buf.Bytes(), err
}

func c10Text(r *Rand, n int) []byte {
	const al = "ACGTNacgtn \t\n0123456789"
	b := make([]byte, n)
	for i := range b {
		if i > 0 && r.coin(1, 3) {
			b[i] = b[i-1]
		} else {
			b[i] = al[r.intn(len(al))]
		}
	}
	return b
}

// c10WriteBam writes a header with nref references and nrec records through bam.Writer.
func c10WriteBam(r *Rand, nref, nrec, seqLen int) ([]byte, error) {
	var buf bytes.Buffer
	var err error
	o := guardTimeout(c10CallTimeout, func() {
		var refs []*sam.Reference
		for i := 0; i < nref; i++ {
			var ref *sam.Reference
			ref, err = sam.NewReference(fmt.Sprintf("c%d", i+1), "", "", 1000+i, nil, nil)
			if err != nil {
				return
			}
			refs = append(refs, ref)
		}
		var h *sam.Header
		h, err = sam.NewHeader(nil, refs)
		if err != nil {
			return
		}
		var w *bam.Writer
		w, err = bam.NewWriter(&buf, h, 1)
		if err != nil {
			return
		}
		for i := 0; i < nrec; i++ {
			n := seqLen + r.intn(3)
			seq := make([]byte, n)
			qual := make([]byte, n)
			for j := range seq {
				seq[j] = "ACGT"[r.intn(4)]
				qual[j] = byte(20 + r.intn(20))
			}
			var ref *sam.Reference
			pos := -1
			var cig sam.Cigar
			if nref > 0 && i != nrec-1 {
				ref = refs[i%nref]
				pos = 10 + 7*i
				cig = sam.Cigar{sam.NewCigarOp(sam.CigarMatch, n)}
			}
			var rec *sam.Record
			rec, err = sam.NewRecord(fmt.Sprintf("r%d", i), ref, nil, pos, -1, 0, byte(30+i), cig, seq, qual, nil)
			if err != nil {
				return
			}
			if ref == nil {
				rec.Flags |= sam.Unmapped
			}
			if err = w.Write(rec); err != nil {
				return
			}
		}
		err = w.Close()
	})
	if o.timedOut {
		return nil, fmt.Errorf("bam.Writer hangs")
	}
	if o.panicked {
		return nil, fmt.Errorf("bam.Writer panics: %s", o.panicVal)
	}
	return buf.Bytes(), err
}

// c10HandBlock frames one BGZF block by hand: the 18-byte BGZF header, then one gzip member body per
// payload (deflate data + CRC-32 + ISIZE; from the second on preceded by a plain ten-byte gzip header),
// BSIZE covering all of it.  bgzf.Writer never writes more than 0xff00 bytes into a block; a foreign
// writer may.
const c10HandLiteral = 8

func c10HandBlock(payloads [][]byte, level int) ([]byte, error) {
	var body bytes.Buffer
	for i, p := range payloads {
		if i > 0 {
			body.Write([]byte{0x1f, 0x8b, 8, 0, 0, 0, 0, 0, 0, 0xff})
		}
		// the first c10HandLiteral payload bytes go into a stored (non-final) deflate block, so that they
		// stand literally in the stream: altering one of them alters exactly that payload byte and
		// nothing else, and only the CRC-32 check can notice
		lit := c10HandLiteral
		if lit > len(p) {
			lit = len(p)
		}
		if lit > 0 {
			body.Write([]byte{0x00, byte(lit), byte(lit >> 8), ^byte(lit), ^byte(lit >> 8)})
			body.Write(p[:lit])
		}
		fw, err := flate.NewWriter(&body, level)
		if err != nil {
			return nil, err
		}
		if _, err = fw.Write(p[lit:]); err != nil {
			return nil, err
		}
		if err = fw.Close(); err != nil {
			return nil, err
		}
		var tr [8]byte
		binary.LittleEndian.PutUint32(tr[:], crc32.ChecksumIEEE(p))
		binary.LittleEndian.PutUint32(tr[4:], uint32(len(p)))
		body.Write(tr[:])
	}
	size := 18 + body.Len()
	if size > 65536 {
		return nil, fmt.Errorf("hand-framed block of %d bytes does not fit BSIZE", size)
	}
	hdr := []byte{0x1f, 0x8b, 8, 4, 0, 0, 0, 0, 0, 0xff, 6, 0, 'B', 'C', 2, 0, byte(size - 1), byte((size - 1) >> 8)}
	return append(hdr, body.Bytes()...), nil
}

// c10Pattern: n compressible but not constant bytes
func c10Pattern(r *Rand, n int) []byte {
	unit := c10Text(r, 61)
	b := make([]byte, n)
	for i := range b {
		b[i] = unit[i%len(unit)]
		if i%4093 == 0 {
			b[i] = byte('a' + i/4093%26)
		}
	}
	return b
}

// c10LongSeq: sequence length from which a record (with its 2000 aux fields) is longer than a block, the
// block boundary falling inside the aux data (4+32+name+1+4+n/2+n < 0xff00 < that + 8000).
const c10LongSeq = 40000

// c10WriteBamLens writes one record per entry of lens (its sequence length) through bam.Writer.
// The content is compressible, so the stream is small although the records are not.
func c10WriteBamLens(r *Rand, lens []int) ([]byte, error) {
	var buf bytes.Buffer
	var err error
	o := guardTimeout(c10CallTimeout, func() {
		var ref *sam.Reference
		ref, err = sam.NewReference("chr1", "", "", 1<<28, nil, nil)
		if err != nil {
			return
		}
		var h *sam.Header
		h, err = sam.NewHeader(nil, []*sam.Reference{ref})
		if err != nil {
			return
		}
		var w *bam.Writer
		w, err = bam.NewWriter(&buf, h, 1)
		if err != nil {
			return
		}
		unit := make([]byte, 37+r.intn(20))
		for j := range unit {
			unit[j] = "ACGT"[r.intn(4)]
		}
		for i, n := range lens {
			seq := make([]byte, n)
			qual := make([]byte, n)
			for j := range seq {
				seq[j] = unit[(j+i)%len(unit)]
				qual[j] = byte(20 + (j/64+i)%20)
			}
			// records longer than a block get many 4-byte aux fields (tag, 'c', value) and a name padded by
			// 0..3 characters: bam.Writer starts such a record in a fresh block, so the block boundary lies
			// 0xff00 bytes into it -- inside the aux data, at a field edge or 1, 2, 3 bytes past one
			var aux []sam.Aux
			name := fmt.Sprintf("long%03d", i)
			if n >= c10LongSeq {
				name += "pad"[:(i/4)%4]
				const a1, a2 = "ABCDEFGHIJKLMNOPQRSTUVWXYZabcdefghijklmnopqrstuvwxyz", "ABCDEFGHIJKLMNOPQRSTUVWXYZabcdefghijklmnopqrstuvwxyz0123456789"
				for k := 0; k < 2000; k++ {
					var a sam.Aux
					a, err = sam.NewAux(sam.NewTag(string([]byte{a1[k/len(a2)%len(a1)], a2[k%len(a2)]})), int8(k%100))
					if err != nil {
						return
					}
					aux = append(aux, a)
				}
			}
			var rec *sam.Record
			rec, err = sam.NewRecord(name, ref, nil, 1000*i, -1, 0, 30,
				sam.Cigar{sam.NewCigarOp(sam.CigarMatch, n)}, seq, qual, aux)
			if err != nil {
				return
			}
			if err = w.Write(rec); err != nil {
				return
			}
		}
		err = w.Close()
	})
	if o.timedOut {
		return nil, fmt.Errorf("bam.Writer hangs")
	}
	if o.panicked {
		return nil, fmt.Errorf("bam.Writer panics: %s", o.panicVal)
	}
	return buf.Bytes(), err
}

// c10Reblock re-writes the data of a stream through bgzf.Writer with block boundaries at the given
// data offsets (ascending).
func c10Reblock(data []byte, cuts []int, level int) ([]byte, error) {
	var parts [][]byte
	prev := 0
	for _, c := range cuts {
		if c <= prev || c >= len(data) {
			continue
		}
		parts = append(parts, data[prev:c], nil)
		prev = c
	}
	parts = append(parts, data[prev:])
	return c10WriteBgzf(level, parts)
}

// ---------------------------------------------------------------------------------------------
// implementation runners

type c10Obs struct {
	skip   bool   // not run (see c10RunCase)
	bad    string // "" | panic:<frame> | hang
	what   string
	kind   string
	data   []byte
	hasEOF string
	hdrErr bool
	recs   []string
}

func c10Kind(err error) string {
	switch err {
	case nil:
		return "nil"
	case io.EOF:
		return "eof"
	case io.ErrUnexpectedEOF:
		return "ueof"
	case gzip.ErrHeader:
		return "gzhdr"
	case gzip.ErrChecksum:
		return "gzsum"
	case bgzf.ErrNoBlockSize:
		return "nobs"
	case bgzf.ErrCorrupt:
		return "corrupt"
	case io.ErrShortBuffer:
		return "short"
	}
	if _, ok := err.(flate.CorruptInputError); ok {
		return "flate"
	}
	switch err.Error() {
	case "sam: magic number mismatch":
		return "bam1"
	case "sam: invalid text length":
		return "bam2"
	case "sam: invalid reference count field":
		return "bam3"
	case "sam: invalid name length":
		return "bam4"
	case "sam: truncated reference name":
		return "bam5"
	case "bam: invalid record: invalid block size":
		return "bam7"
	}
	return "other:" + strings.ReplaceAll(err.Error(), " ", "_")
}

func c10Hash(b []byte) uint64 {
	var h uint64
	for _, x := range b {
		h = (h*131 + uint64(x) + 1) % 4294967291
	}
	return h
}

// c10RunBgzf reads s through bgzf.Reader to the first error; chunk 1 uses ReadByte.
func c10RunBgzf(s []byte, rd, chunk int) (obs c10Obs) {
	o := guardTimeout(c10CallTimeout, func() {
		r, err := bgzf.NewReader(bytes.NewReader(s), rd)
		if err != nil {
			obs.kind = c10Kind(err)
			return
		}
		defer r.Close()
		p := make([]byte, chunk)
		for {
			if chunk == 1 {
				b, err := r.ReadByte()
				if err == nil {
					obs.data = append(obs.data, b)
				}
				if err != nil {
					obs.kind = c10Kind(err)
					return
				}
				continue
			}
			n, err := r.Read(p)
			obs.data = append(obs.data, p[:n]...)
			if err != nil {
				obs.kind = c10Kind(err)
				return
			}
			if len(obs.data) > 1<<24 {
				obs.kind = "other:runaway"
				return
			}
		}
	})
	if o.timedOut {
		return c10Obs{bad: "hang", what: "bgzf.Reader did not return"}
	}
	if o.panicked {
		return c10Obs{bad: "panic:" + topRepoFrame(o.stack), what: o.panicVal}
	}
	var he bool
	var herr error
	o = guard(func() { he, herr = bgzf.HasEOF(bytes.NewReader(s)) })
	switch {
	case o.panicked:
		return c10Obs{bad: "panic:" + topRepoFrame(o.stack), what: o.panicVal}
	case herr != nil:
		obs.hasEOF = "e"
		if he {
			obs.hasEOF = "t"
		}
	case he:
		obs.hasEOF = "t"
	default:
		obs.hasEOF = "f"
	}
	return obs
}

// c10RunBam reads s through bam.Reader to the first error.
func c10RunBam(s []byte, rd int) (obs c10Obs) {
	o := guardTimeout(c10CallTimeout, func() {
		r, err := bam.NewReader(bytes.NewReader(s), rd)
		if err != nil {
			obs.hdrErr = true
			obs.kind = c10Kind(err)
			return
		}
		defer r.Close()
		ht, err := r.Header().MarshalText()
		if err != nil {
			obs.kind = "other:header-marshal"
			return
		}
		obs.recs = append(obs.recs, string(ht))
		for {
			rec, err := r.Read()
			if err != nil {
				obs.kind = c10Kind(err)
				return
			}
			line, err := rec.MarshalSAM(sam.FlagDecimal)
			if err != nil {
				obs.kind = "other:record-marshal"
				return
			}
			obs.recs = append(obs.recs, string(line))
			if len(obs.recs) > 1<<20 {
				obs.kind = "other:runaway"
				return
			}
		}
	})
	if o.timedOut {
		return c10Obs{bad: "hang", what: "bam.Reader did not return"}
	}
	if o.panicked {
		return c10Obs{bad: "panic:" + topRepoFrame(o.stack), what: o.panicVal}
	}
	return obs
}

func c10Run(layer string, s []byte, rd, chunk int) c10Obs {
	if layer == "bam" {
		return c10RunBam(s, rd)
	}
	return c10RunBgzf(s, rd, chunk)
}

// c10RunCase runs one case for the i-th rd of c10Rds.  bam.NewReader does not close the bgzf.Reader it
// created when the BAM header cannot be read, and the caller cannot: with rd > 1 the read-ahead
// goroutine and its 64 KiB buffers stay behind for ever.  An enumeration of 10^5 such cases would
// exhaust memory, so the BAM layer is run with rd > 1 only when bam.NewReader succeeded with rd = 1
// (the bgzf layer of the same streams is enumerated with every rd).
//
// Before the BAM decoders see a case, the same bytes are read through bgzf.Reader alone: if that
// already yields bytes that are not a prefix of the original data (possible only if the BGZF layer lets
// corrupted data through) the case fails there and the BAM layer is not run on it — sam.DecodeBinary and
// newBuffer allocate whatever length the data announces (up to 2 GiB per call).
func c10RunCase(st *c10Stream, s []byte, rd, chunk, i int, first *c10Obs) c10Obs {
	layer := st.layer
	if i > 0 && (layer == "bam" && first.hdrErr || first.bad != "") {
		// also: a panic with rd = 1 is recovered here, the same panic in the read-ahead goroutine of
		// rd > 1 would take the harness down; the case has already failed with rd = 1
		return c10Obs{skip: true}
	}
	if layer == "bam" && i == 0 {
		pre := c10RunBgzf(s, 1, 4096)
		if pre.bad == "" && !bytes.HasPrefix(st.data, pre.data) {
			o := c10Obs{bad: "corrupt-data-reaches-bam-decoder", what: fmt.Sprintf("bgzf.Reader returns %d bytes that are not a prefix of the original data (then %s)", len(pre.data), pre.kind)}
			*first = o
			return o
		}
	}
	o := c10Run(layer, s, rd, chunk)
	if i == 0 {
		*first = o
	}
	return o
}

// verdict text in the model driver's format
func (o c10Obs) verdict(layer string) string {
	if o.bad != "" {
		return o.bad
	}
	if layer == "bam" {
		if o.hdrErr {
			return "H" + o.kind
		}
		return fmt.Sprintf("R%d/%s", len(o.recs)-1, o.kind)
	}
	return fmt.Sprintf("%s/%d/%d/%s", o.kind, len(o.data), c10Hash(o.data), o.hasEOF)
}

// ---------------------------------------------------------------------------------------------
// property oracle (independent of the model)

func c10IsPrefix(a, b []string) bool {
	if len(a) > len(b) {
		return false
	}
	for i := range a {
		if a[i] != b[i] {
			return false
		}
	}
	return true
}

// c10JudgeTrunc returns ("", "") if the property holds for reading raw[:k], else (signature, what).
func c10JudgeTrunc(st *c10Stream, k, rd int, o c10Obs) (string, string) {
	if o.bad != "" {
		return fmt.Sprintf("trunc.%s.%s", st.layer, o.bad), o.what
	}
	dlen, atBound := st.bounds[k]
	if st.layer == "bgzf" {
		if !bytes.HasPrefix(st.data, o.data) {
			return "trunc.bgzf.not-a-prefix", fmt.Sprintf("cut %d: %d bytes returned that are not a prefix of the data", k, len(o.data))
		}
		if o.hasEOF == "t" {
			return "trunc.bgzf.haseof-true", fmt.Sprintf("cut %d of %d: HasEOF reports true on a truncated stream", k, len(st.raw))
		}
		if o.kind == "eof" && !atBound {
			return "trunc.bgzf.clean-eof-inside-member", fmt.Sprintf("cut %d is %s: %d data bytes, then a clean io.EOF",
				k, c10Where(st, k), len(o.data))
		}
		return "", ""
	}
	if o.hdrErr {
		return "", ""
	}
	if !c10IsPrefix(o.recs, st.recs) {
		// which one differs?  A record that has the original's name but fewer/other fields was assembled
		// from a part of its bytes.
		for i := 1; i < len(o.recs) && i < len(st.recs); i++ {
			if o.recs[i] == st.recs[i] {
				continue
			}
			got, want := strings.Split(o.recs[i], "\t"), strings.Split(st.recs[i], "\t")
			if got[0] == want[0] {
				return "trunc.bam.record-cut-short", fmt.Sprintf("cut %d is %s: record %d (%s) is returned with %d SAM fields, the original has %d; %d records returned, then %s",
					k, c10Where(st, k), i-1, got[0], len(got), len(want), len(o.recs)-1, o.kind)
			}
			break
		}
		return "trunc.bam.not-a-prefix", fmt.Sprintf("cut %d: header/records returned are not a prefix of the original ones", k)
	}
	if o.kind == "eof" {
		if !atBound {
			return "trunc.bam.clean-eof-inside-member", fmt.Sprintf("cut %d is %s: %d records, then a clean io.EOF", k, c10Where(st, k), len(o.recs)-1)
		}
		if !st.recEnds[dlen] {
			sig := "trunc.bam.clean-eof-inside-record"
			if n := c10RecordAt(st, dlen); n > 4096 {
				// bam.Reader reads records that do not fit its 4 KiB inline buffer on a path of its own
				sig += ".record>4KiB"
			}
			return sig, fmt.Sprintf("cut %d is a block boundary with %d data bytes before it, which is inside a record (or the header): %d records, then a clean io.EOF",
				k, dlen, len(o.recs)-1)
		}
	}
	return "", ""
}

// c10RecordAt: block_size of the record that data offset d lies inside (0 if d is in the header).
func c10RecordAt(st *c10Stream, d int) int {
	prev, next := -1, -1
	for e := range st.recEnds {
		if e <= d && e > prev {
			prev = e
		}
		if e > d && (next < 0 || e < next) {
			next = e
		}
	}
	if prev < 0 || next < 0 {
		return 0
	}
	return next - prev - 4
}

func c10PayloadSizes(st *c10Stream) string {
	var p []string
	for _, m := range st.members {
		p = append(p, fmt.Sprint(len(m.payload)))
	}
	return strings.Join(p, "+")
}

func c10Where(st *c10Stream, k int) string {
	for i, m := range st.members {
		if k > m.start && k < m.start+m.size {
			return fmt.Sprintf("%d bytes into member %d (of %d bytes)", k-m.start, i, m.size)
		}
	}
	return "a member boundary"
}

// c10JudgeSubst: reading raw with raw[pos] = val either fails or returns exactly the original.
func c10JudgeSubst(st *c10Stream, pos, val, rd int, role string, o c10Obs) (string, string) {
	if o.bad != "" {
		return fmt.Sprintf("subst.%s.%s", st.layer, o.bad), o.what
	}
	if o.kind != "eof" || o.hdrErr {
		return "", ""
	}
	if st.layer == "bgzf" {
		if bytes.Equal(o.data, st.data) {
			return "", ""
		}
		cls := "clean-eof-wrong-data"
		if bytes.HasPrefix(st.data, o.data) {
			cls = "clean-eof-data-lost"
		}
		return fmt.Sprintf("subst.bgzf.%s.%s", cls, role), fmt.Sprintf("byte %d (%s) %#02x -> %#02x: %d of %d data bytes, then a clean io.EOF",
			pos, role, st.raw[pos], val, len(o.data), len(st.data))
	}
	if len(o.recs) == len(st.recs) && c10IsPrefix(o.recs, st.recs) {
		return "", ""
	}
	cls := "clean-eof-wrong-records"
	if c10IsPrefix(o.recs, st.recs) {
		cls = "clean-eof-records-lost"
	}
	return fmt.Sprintf("subst.bam.%s.%s", cls, role), fmt.Sprintf("byte %d (%s) %#02x -> %#02x: %d of %d records, then a clean io.EOF",
		pos, role, st.raw[pos], val, len(o.recs)-1, len(st.recs)-1)
}

// ---------------------------------------------------------------------------------------------
// the DEFLATE table handed to the model: compress/gzip frames, compress/flate inflates

type c10ByteCounter struct {
	b []byte
	n int
}

func (c *c10ByteCounter) Read(p []byte) (int, error) {
	if c.n >= len(c.b) {
		return 0, io.EOF
	}
	n := copy(p, c.b[c.n:])
	c.n += n
	return n, nil
}

func (c *c10ByteCounter) ReadByte() (byte, error) {
	if c.n >= len(c.b) {
		return 0, io.EOF
	}
	x := c.b[c.n]
	c.n++
	return x, nil
}

type c10Inflated struct {
	ok       bool
	used     int
	payload  []byte
	code     int
	produced int // bytes delivered before the failure
}

type c10Walker struct {
	gz   gzip.Reader
	fr   io.ReadCloser
	memo map[string]c10Inflated
}

func newC10Walker() *c10Walker { return &c10Walker{memo: map[string]c10Inflated{}} }

// header parses a gzip header with compress/gzip itself: (extra, bytes consumed, ok)
func (w *c10Walker) header(b []byte) ([]byte, int, bool) {
	cr := &c10ByteCounter{b: b}
	if err := w.gz.Reset(cr); err != nil {
		return nil, 0, false
	}
	return w.gz.Header.Extra, cr.n, true
}

func (w *c10Walker) inflate(b []byte) c10Inflated {
	if r, ok := w.memo[string(b)]; ok {
		return r
	}
	cr := &c10ByteCounter{b: b}
	if w.fr == nil {
		w.fr = flate.NewReader(cr)
	} else {
		w.fr.(flate.Resetter).Reset(cr, nil)
	}
	payload, err := io.ReadAll(io.LimitReader(w.fr, 1<<22))
	var r c10Inflated
	switch {
	case err == nil:
		r = c10Inflated{ok: true, used: cr.n, payload: payload}
	case err == io.ErrUnexpectedEOF:
		r = c10Inflated{code: 2, produced: len(payload)}
	default:
		if _, ok := err.(flate.CorruptInputError); ok {
			r = c10Inflated{code: 1, produced: len(payload)}
		} else {
			r = c10Inflated{code: 3, produced: len(payload)}
		}
	}
	if len(w.memo) > 200000 {
		w.memo = map[string]c10Inflated{}
	}
	w.memo[string(b)] = r
	return r
}

type c10Entry struct {
	start, n int
	res      c10Inflated
}

func c10Bsize(extra []byte) int {
	i := bytes.Index(extra, []byte("BC\x02\x00"))
	if i < 0 || i+5 >= len(extra) {
		return -1
	}
	return (int(extra[i+4]) | int(extra[i+5])<<8) + 1
}

// walk lists the byte strings a BGZF reader hands to the inflater when reading s.
func (w *c10Walker) walk(s []byte) []c10Entry {
	var out []c10Entry
	off := 0
	for i := 0; off < len(s) && i < 4096; i++ {
		extra, hlen, ok := w.header(s[off:])
		if !ok {
			break
		}
		bs := c10Bsize(extra)
		if bs < 0 {
			break
		}
		need := bs - hlen
		if need <= 0 || off+hlen+need > len(s) {
			break
		}
		w.body(s, off+hlen, need, &out, 0)
		off += bs
	}
	return out
}

func (w *c10Walker) body(s []byte, start, n int, out *[]c10Entry, depth int) {
	b := s[start : start+n]
	e := w.inflate(b)
	*out = append(*out, c10Entry{start, n, e})
	if !e.ok || depth > 16 {
		return
	}
	tl := b[e.used:]
	if len(tl) <= 8 {
		return
	}
	if binary.LittleEndian.Uint32(tl) != crc32.ChecksumIEEE(e.payload) || binary.LittleEndian.Uint32(tl[4:]) != uint32(len(e.payload)) {
		return
	}
	more := tl[8:]
	_, hl, ok := w.header(more)
	if !ok {
		return
	}
	w.body(s, start+e.used+8+hl, len(more)-hl, out, depth+1)
}

func (e c10Entry) text(tag string) string {
	if e.res.ok {
		return fmt.Sprintf("%s:%d:%d:o:%d:%s", tag, e.start, e.n, e.res.used, hexs(e.res.payload))
	}
	return fmt.Sprintf("%s:%d:%d:f:%d:%d", tag, e.start, e.n, e.res.code, e.res.produced)
}

func c10Table(parts []string) string {
	if len(parts) == 0 {
		return "-"
	}
	return strings.Join(parts, ",")
}

// ---------------------------------------------------------------------------------------------
// enumeration

var c10Rds = []int{1, 3}

func c10Chunk(i int) int { return []int{1, 3, 64, 4096}[i%4] }

// c10Enumerate runs all truncations and the given substitutions of one stream on the implementation
// (in parallel), judges every case, and compares with the model.
func c10Enumerate(c *ctx, st *c10Stream, valsAt func(pos int, role string) []int) {
	r := c.res
	hexRaw := hexs(st.raw)

	// --- truncations: one model line, verdicts for k = 0..len
	w := newC10Walker()
	var tparts []string
	for _, e := range w.walk(st.raw) {
		tparts = append(tparts, e.text("*"))
	}
	d := c.drv()
	d.add("c10.trunc %s %s %s", st.layer, hexRaw, c10Table(tparts))

	n := len(st.raw)
	truncObs := map[int][]c10Obs{}
	for _, rd := range c10Rds {
		truncObs[rd] = make([]c10Obs, n+1)
	}
	// --- substitutions: one model line per position
	type posResult struct {
		pos   int
		role  string
		vals  []int
		line  string
		obs   map[int][]c10Obs // rd -> per value (index = position in vals)
		table int
	}
	results := make([]*posResult, n)
	var wg sync.WaitGroup
	workers := runtime.GOMAXPROCS(0)
	if workers > 6 {
		workers = 6
	}
	jobs := make(chan int, 64)
	for i := 0; i < workers; i++ {
		wg.Add(1)
		go func() {
			defer wg.Done()
			wk := newC10Walker()
			for j := range jobs {
				if j <= n {
					// truncation at j
					var first c10Obs
					for i, rd := range c10Rds {
						truncObs[rd][j] = c10RunCase(st, st.raw[:j], rd, c10Chunk(j), i, &first)
					}
					continue
				}
				pos := j - (n + 1)
				role := c10Role(st.members, pos)
				vals := valsAt(pos, role)
				if len(vals) == 0 {
					continue
				}
				pr := &posResult{pos: pos, role: role, vals: vals, obs: map[int][]c10Obs{}}
				mut := append([]byte{}, st.raw...)
				seen := map[[2]int]bool{}
				var parts []string
				for _, v := range vals {
					mut[pos] = byte(v)
					for _, e := range wk.walk(mut) {
						if pos < e.start || pos >= e.start+e.n {
							key := [2]int{e.start, e.n}
							if !seen[key] {
								seen[key] = true
								parts = append(parts, e.text("*"))
							}
						} else {
							parts = append(parts, e.text(fmt.Sprint(v)))
						}
					}
					var first c10Obs
					for i, rd := range c10Rds {
						pr.obs[rd] = append(pr.obs[rd], c10RunCase(st, mut, rd, c10Chunk(pos+v), i, &first))
					}
				}
				pr.table = len(parts)
				vs := make([]string, len(vals))
				for i, v := range vals {
					vs[i] = fmt.Sprint(v)
				}
				pr.line = fmt.Sprintf("c10.subst %s %s %d %s %s", st.layer, hexRaw, pos, strings.Join(vs, "."), c10Table(parts))
				results[pos] = pr
			}
		}()
	}
	for j := 0; j <= n; j++ {
		jobs <- j
	}
	for pos := 0; pos < n; pos++ {
		jobs <- n + 1 + pos
	}
	close(jobs)
	wg.Wait()

	// --- judge truncations
	for k := 0; k <= n; k++ {
		for _, rd := range c10Rds {
			o := truncObs[rd][k]
			if o.skip {
				r.hist("skipped.rd>1-after-NewReader-error-or-panic-with-rd=1")
				continue
			}
			in := c10Input{Kind: "trunc", Layer: st.layer, Name: st.name, Stream: hexRaw, Cut: k, Rd: rd, Chunk: c10Chunk(k)}
			if k == n {
				// the intact stream.  A conformant one (every block holds at most 64 KiB) must read back
				// completely (sanity of the harness).  One with an oversize block (hand-framed, "edge-…") must
				// fail or read back completely: a clean end with other data is "read as different valid data".
				full := o.kind == "eof" && !o.hdrErr && (st.layer == "bam" && len(o.recs) == len(st.recs) || st.layer == "bgzf" && bytes.Equal(o.data, st.data) && o.hasEOF == "t")
				conformant := true
				for _, m := range st.members {
					if len(m.payload) > bgzf.MaxBlockSize {
						conformant = false
					}
				}
				if !conformant {
					r.eval(fmt.Sprintf("%s/intact/%d", st.name, rd), true)
					r.hist(fmt.Sprintf("intact.oversize-block.%s", map[bool]string{true: "clean-eof", false: "error"}[o.kind == "eof"]))
				}
				switch {
				case full:
				case o.bad != "":
					r.fail(fmt.Sprintf("intact.%s.%s", st.layer, o.bad), o.what, in)
				case o.kind == "eof" && !o.hdrErr && st.layer == "bgzf":
					cls := "clean-eof-wrong-data"
					if bytes.HasPrefix(st.data, o.data) {
						cls = "clean-eof-data-lost"
					}
					r.fail("intact.bgzf."+cls, fmt.Sprintf("%s rd=%d: the intact stream (block payloads %s) reads as %d of %d data bytes, then a clean io.EOF",
						st.name, rd, c10PayloadSizes(st), len(o.data), len(st.data)), in)
				case conformant:
					r.fail("intact."+st.layer+".does-not-read-back", "the intact stream does not read back: "+o.verdict(st.layer), in)
				}
				continue
			}
			r.eval(fmt.Sprintf("%s/t/%d/%d", st.name, k, rd), true)
			_, atBound := st.bounds[k]
			cls := "data-prefix+error"
			if o.kind == "eof" && !o.hdrErr {
				cls = "data-prefix+clean-eof"
			}
			where := "inside-member"
			if atBound {
				where = "member-boundary"
			}
			r.hist(fmt.Sprintf("trunc.%s.%s.%s", st.layer, where, cls))
			if sig, what := c10JudgeTrunc(st, k, rd, o); sig != "" {
				r.fail(sig, fmt.Sprintf("%s rd=%d: %s", st.name, rd, what), in)
			}
		}
	}
	// --- judge substitutions
	for _, pr := range results {
		if pr == nil {
			continue
		}
		d.add("%s", pr.line)
		for _, rd := range c10Rds {
			for i, v := range pr.vals {
				o := pr.obs[rd][i]
				if o.skip {
					r.hist("skipped.rd>1-after-NewReader-error-or-panic-with-rd=1")
					continue
				}
				in := c10Input{Kind: "subst", Layer: st.layer, Name: st.name, Stream: hexRaw, Pos: pr.pos, Val: v, Role: pr.role, Rd: rd, Chunk: c10Chunk(pr.pos + v)}
				if v == int(st.raw[pr.pos]) {
					continue
				}
				r.eval(fmt.Sprintf("%s/s/%d/%d/%d", st.name, pr.pos, v, rd), true)
				cls := "error"
				if o.kind == "eof" && !o.hdrErr {
					cls = "original-data"
				}
				if o.bad != "" {
					cls = o.bad
				}
				r.hist(fmt.Sprintf("subst.%s.%s.%s", st.layer, pr.role, cls))
				if cls == "error" {
					r.hist("subst.error-kind." + strings.SplitN(o.kind, ":", 2)[0])
				}
				if sig, what := c10JudgeSubst(st, pr.pos, v, rd, pr.role, o); sig != "" {
					r.fail(sig, fmt.Sprintf("%s rd=%d: %s", st.name, rd, what), in)
				}
			}
		}
	}

	// --- correspondence with the model
	tm := time.Now()
	model, err := d.run()
	if err != nil {
		r.disagree(st.name, "(driver failure)", "", err.Error())
		return
	}
	r.note("%s (%s): model driver %.1fs for %d lines", st.name, st.layer, time.Since(tm).Seconds(), len(model))
	tv := strings.Split(model[0], ";")
	if len(tv) != n+1 {
		r.disagree(st.name, "c10.trunc", fmt.Sprintf("%d cuts", n+1), fmt.Sprintf("%d verdicts: %.200s", len(tv), model[0]))
	} else {
		for k := 0; k <= n; k++ {
			for _, rd := range c10Rds {
				if truncObs[rd][k].skip {
					continue
				}
				r.ModelOps++
				if iv := truncObs[rd][k].verdict(st.layer); iv != tv[k] {
					r.disagree(st.name, fmt.Sprintf("c10.trunc %s cut=%d rd=%d stream=%s", st.layer, k, rd, hexRaw), iv, tv[k])
				}
			}
		}
	}
	li := 1
	for _, pr := range results {
		if pr == nil {
			continue
		}
		mv := strings.Split(model[li], ";")
		li++
		if len(mv) != len(pr.vals) {
			r.disagree(st.name, fmt.Sprintf("c10.subst pos=%d", pr.pos), fmt.Sprintf("%d values", len(pr.vals)), fmt.Sprintf("%d verdicts: %.200s", len(mv), strings.Join(mv, ";")))
			continue
		}
		for _, rd := range c10Rds {
			for i, v := range pr.vals {
				if pr.obs[rd][i].skip {
					continue
				}
				r.ModelOps++
				if iv := pr.obs[rd][i].verdict(st.layer); iv != mv[i] {
					r.disagree(st.name, fmt.Sprintf("c10.subst %s pos=%d(%s) val=%d rd=%d stream=%s", st.layer, pr.pos, pr.role, v, rd, hexRaw), iv, mv[i])
				}
			}
		}
	}
}

// ---------------------------------------------------------------------------------------------

func c10AllValues(int, string) []int {
	vs := make([]int, 256)
	for i := range vs {
		vs[i] = i
	}
	return vs
}

// c10Streams builds one round of streams; scale multiplies the payload sizes, tag is appended to the names.
func c10Streams(c *ctx, scale int, tag string) []*c10Stream {
	r := c.res
	rnd := c.rnd
	var out []*c10Stream
	add := func(name, layer string, raw []byte, err error) *c10Stream {
		name += tag
		if err != nil {
			r.note("stream %s not built: %v", name, err)
			r.fail("c10.writer."+name, "the library writer failed while building the stream: "+err.Error(), c10Input{Kind: "build", Name: name})
			return nil
		}
		st, err := c10Describe(name, layer, raw)
		if err != nil {
			r.note("stream %s not usable: %v", name, err)
			r.fail("c10.intact."+name, "the intact stream is not a conformant closed BGZF/BAM stream: "+err.Error(), c10Input{Kind: "build", Name: name, Stream: hexs(raw)})
			return nil
		}
		out = append(out, st)
		r.hist(fmt.Sprintf("stream.%s.members=%d", layer, len(st.members)))
		r.sample(map[string]interface{}{"stream": name, "layer": layer, "bytes": len(raw), "members": len(st.members), "data_bytes": len(st.data), "hex": hexs(raw)})
		return st
	}
	// S1: one data block + marker
	raw, err := c10WriteBgzf(gzip.DefaultCompression, [][]byte{c10Text(rnd, 40*scale)})
	add("one-block", "bgzf", raw, err)
	// S2: two data blocks, the empty block Close writes, marker
	raw, err = c10WriteBgzf(gzip.DefaultCompression, [][]byte{c10Text(rnd, 30*scale), nil, c10Text(rnd, 22*scale), nil})
	add("multi-block-empty", "bgzf", raw, err)
	// S3: stored (level 0) blocks: the payload bytes are literally in the stream
	raw, err = c10WriteBgzf(gzip.NoCompression, [][]byte{rnd.bytes(20 * scale), nil, rnd.bytes(11 * scale)})
	add("stored", "bgzf", raw, err)
	// S4: the Writer's gzip header fields set: user Extra subfield after BC, Name, Comment, MTIME, OS
	raw, err = c10WriteBgzfHdr(gzip.DefaultCompression, [][]byte{c10Text(rnd, 12*scale), nil, c10Text(rnd, 9*scale)}, func(w *bgzf.Writer) {
		w.Extra = []byte{'X', 'Y', 3, 0, 7, 8, 9}
		w.Name = "n.gz"
		w.Comment = "c\u00e9"
		w.ModTime = time.Unix(1234567, 0)
		w.OS = 3
	})
	add("named-header", "bgzf", raw, err)
	// B1: BAM as bam.Writer lays it out: header block, record block, marker
	raw, err = c10WriteBam(rnd, 1, 3, 4*scale)
	b1 := add("bam-writer", "bam", raw, err)
	// B2: the same BAM data with block boundaries inside the header, inside a length prefix,
	// right after a length prefix, inside a record body and at a record end
	if b1 != nil {
		var ends []int
		for e := range b1.recEnds {
			ends = append(ends, e)
		}
		sort.Ints(ends)
		cuts := []int{ends[0] / 2, ends[0] + 2}
		if len(ends) > 2 {
			cuts = append(cuts, ends[1]+4, ends[2]-5)
		}
		if len(ends) > 3 {
			cuts = append(cuts, ends[2])
		}
		sort.Ints(cuts)
		raw, err = c10Reblock(b1.data, cuts, gzip.DefaultCompression)
		add("bam-reblocked", "bam", raw, err)
	}
	return out
}

// c10EdgeStreams: hand-framed streams around the block capacity (bgzf.Writer never writes them): a block
// holding 65535, 65536, 65537, 65538 bytes, followed by a small block and the marker; and blocks made of
// two gzip members (compress/gzip reads the buffered member in multistream mode) holding 65536+1,
// 65537+0 and 65535+1 bytes.  Every truncation, and sampled substitutions of the header and trailer
// bytes of the big block.
func c10EdgeStreams(c *ctx) []*c10Stream {
	r := c.res
	var out []*c10Stream
	type spec struct {
		name  string
		parts []int
	}
	specs := []spec{{"edge-65535", []int{65535}}, {"edge-65536", []int{65536}}, {"edge-65537", []int{65537}}, {"edge-65538", []int{65538}},
		{"edge-2gz-65536+1", []int{65536, 1}}, {"edge-2gz-65537+0", []int{65537, 0}}, {"edge-2gz-65535+1", []int{65535, 1}}}
	for _, sp := range specs {
		var ps [][]byte
		for _, n := range sp.parts {
			ps = append(ps, c10Pattern(c.rnd, n))
		}
		big, err := c10HandBlock(ps, gzip.DefaultCompression)
		var raw []byte
		if err == nil {
			var small []byte
			small, err = c10HandBlock([][]byte{[]byte("tail")}, gzip.DefaultCompression)
			raw = append(append(append(raw, big...), small...), c10Magic...)
		}
		if err != nil {
			r.note("stream %s not built: %v", sp.name, err)
			continue
		}
		st, err := c10Describe(sp.name, "bgzf", raw)
		if err != nil {
			r.note("stream %s not usable: %v", sp.name, err)
			r.fail("c10.intact."+sp.name, "the hand-framed stream does not parse: "+err.Error(), c10Input{Kind: "build", Name: sp.name})
			continue
		}
		out = append(out, st)
		r.hist(fmt.Sprintf("stream.edge.payload=%s", c10PayloadSizes(st)))
		r.sample(map[string]interface{}{"stream": sp.name, "layer": "bgzf", "bytes": len(raw), "members": len(st.members), "block_payloads": c10PayloadSizes(st)})
	}
	return out
}

func checkC10(c *ctx) {
	r := c.res
	r.Exhaustive = true
	r.Rule = "streams: closed BGZF/BAM streams written by bgzf.Writer / bam.Writer (one block; two blocks + empty block; stored blocks; a stream whose members carry user Extra, Name and Comment; BAM as written; the same BAM data re-blocked so that block boundaries fall inside the header, inside and right after a record length prefix, inside a record and at a record end); hand-framed streams around the block capacity (one block of 65535/65536/65537/65538 payload bytes, and blocks of two gzip members holding 65536+1, 65537+0, 65535+1 bytes: every truncation, sampled substitutions of the big block's header/trailer bytes, and the intact stream, which must fail or read back completely); two BAM streams with records of 5-26 KiB and > 64 KiB (larger than bam.Reader's 4 KiB inline buffer, crossing block boundaries), as bam.Writer lays them out and with every block filled completely: cuts at and around every member boundary, oracle only. " +
		"Cases: EVERY truncation length 0..len-1 and EVERY (position, value != original) single-byte substitution (thorough: larger streams, all values on header/trailer bytes, 24 sampled values on deflate bytes), each for rd in {1,3}, read with Read chunk sizes 1 (ReadByte), 3, 64, 4096. " +
		"Every case is non-trivial (the input differs from the intact stream); distinct = distinct (stream, cut | position, value, rd). " +
		"Oracle (implementation only): output must be a prefix of the original data/records; clean io.EOF only at a member boundary (BAM: that is also a record boundary); HasEOF false on every truncation; substitution: error, or exactly the original output. " +
		"Correspondence: error kind, data length + hash (BAM: record count) and HasEOF equal the Lean model's on every case."

	if c.replay != "" {
		c10Replay(c)
		return
	}
	// every case allocates a few hundred KiB of reader buffers; with a small live heap the collector
	// would run every few cases.  A ballast keeps the GC period long.
	ballast := make([]byte, 512<<20)
	defer runtime.KeepAlive(ballast)
	streams := c10Streams(c, 1, "")
	if c.thorough() {
		// the quick streams with every value everywhere, then four rounds of larger ones
		for i, scale := range []int{3, 8, 16, 30} {
			streams = append(streams, c10Streams(c, scale, fmt.Sprintf("#%d", i+1))...)
		}
	}
	vrnd := c.rnd.fork()
	// sampled: the original value, boundary values, bit flips, 0x11 (BSIZE = 17), and random others
	sampled := func(st *c10Stream, nOther int) func(pos int, role string) []int {
		return func(pos int, role string) []int {
			n := nOther
			if !strings.HasSuffix(role, "deflate") {
				n = 3 * nOther
			}
			o := int(st.raw[pos])
			seen := map[int]bool{o: true}
			vs := []int{o}
			for _, v := range []int{0, 255, 0x11, o ^ 1, o ^ 0x80, (o + 1) & 255, (o + 255) & 255} {
				if !seen[v] {
					seen[v] = true
					vs = append(vs, v)
				}
			}
			for len(vs) < n+8 {
				v := vrnd.intn(256)
				if !seen[v] {
					seen[v] = true
					vs = append(vs, v)
				}
			}
			sort.Ints(vs)
			return vs
		}
	}
	for _, st := range streams {
		// quick: every value at every position of the small streams; the re-blocked BAM stream (7 members)
		// gets every truncation and sampled values.  thorough: the same streams with every value at every
		// position of all of them, then four rounds of larger streams ("#n"): every value on header/trailer
		// bytes, 32 sampled values on deflate bytes.
		vals := c10AllValues
		switch {
		case strings.Contains(st.name, "#"):
			smp := sampled(st, 24)
			vals = func(pos int, role string) []int {
				if !strings.HasSuffix(role, "deflate") {
					return c10AllValues(pos, role)
				}
				return smp(pos, role)
			}
		case st.name == "bam-reblocked" && !c.thorough():
			vals = sampled(st, 4)
		}
		t0 := time.Now()
		c10Enumerate(c, st, vals)
		r.note("%s (%s): %d bytes, %d members, %d data bytes: enumerated in %.1fs", st.name, st.layer, len(st.raw), len(st.members), len(st.data), time.Since(t0).Seconds())
		if st.layer == "bam" && (c.thorough() || strings.HasPrefix(st.name, "bam-reblocked")) {
			// the same bytes through bgzf.Reader alone
			t0 = time.Now()
			bg := *st
			bg.layer, bg.name = "bgzf", st.name+"/bgzf"
			c10Enumerate(c, &bg, vals)
			r.note("%s (bgzf): enumerated in %.1fs", bg.name, time.Since(t0).Seconds())
		}
	}
	for _, st := range c10EdgeStreams(c) {
		smp := sampled(st, 2)
		first := st.members[0]
		vals := func(pos int, role string) []int {
			if pos >= first.start+first.size {
				return nil
			}
			if strings.HasSuffix(role, "deflate") {
				// the stored block at the start of the deflate data: its 5 header bytes and the 8 payload
				// bytes that stand literally in the stream (an altered literal still inflates, to the same
				// number of bytes: the trailer check is the only thing between it and the caller)
				if o := pos - first.start - first.hlen; o < 5+c10HandLiteral {
					b := int(st.raw[pos])
					return []int{b, b ^ 2, b ^ 0x80, (b + 1) & 255}
				}
				return nil
			}
			return smp(pos, role)
		}
		t0 := time.Now()
		c10Enumerate(c, st, vals)
		r.note("%s (bgzf, hand-framed): %d bytes, block payloads %s: enumerated in %.1fs", st.name, len(st.raw), c10PayloadSizes(st), time.Since(t0).Seconds())
	}
	c10LongRecordBam(c)
	if c.thorough() {
		c10BigBam(c)
	}
}

// c10BoundaryCuts: truncations of a (large) BAM stream at and around every member boundary, rd 1 and 3.
// Oracle only (no model line: it would carry every block's payload).
func c10BoundaryCuts(c *ctx, st *c10Stream) int {
	r := c.res
	hexRaw := hexs(st.raw)
	var cuts []int
	for b := range st.bounds {
		for _, dlt := range []int{-1, 0, 1, 17, 18, 19, 28} {
			if k := b + dlt; k >= 0 && k < len(st.raw) {
				cuts = append(cuts, k)
			}
		}
	}
	sort.Ints(cuts)
	for _, k := range cuts {
		var first c10Obs
		for i, rd := range c10Rds {
			o := c10RunCase(st, st.raw[:k], rd, 4096, i, &first)
			if o.skip {
				continue
			}
			r.eval(fmt.Sprintf("%s/t/%d/%d", st.name, k, rd), true)
			dlen, atBound := st.bounds[k]
			cls := "inside-member"
			if atBound {
				cls = "member-boundary.inside-header"
				if st.recEnds[dlen] {
					cls = "member-boundary.record-boundary"
				} else if n := c10RecordAt(st, dlen); n > 4096 {
					cls = "member-boundary.inside-record>4KiB"
				} else if n > 0 {
					cls = "member-boundary.inside-record<=4KiB"
				}
			}
			r.hist("trunc." + st.name + "." + cls)
			if sig, what := c10JudgeTrunc(st, k, rd, o); sig != "" {
				r.fail(sig, fmt.Sprintf("%s rd=%d: %s", st.name, rd, what), c10Input{Kind: "trunc", Layer: "bam", Name: st.name, Stream: hexRaw, Cut: k, Rd: rd, Chunk: 4096})
			}
		}
	}
	return len(cuts)
}

// c10LongRecordBam: BAM streams whose records do not fit bam.Reader's 4 KiB inline buffer and cross BGZF
// block boundaries.  (a) as bam.Writer lays them out: bgzf.Writer keeps a record inside one block whenever
// it fits, so only records larger than a block (> 0xff00 bytes) cross a boundary; (b) the same data with
// every block filled completely (one bgzf.Writer.Write of all of it, the htslib layout), where records of
// 5-30 KiB straddle the boundaries.  Cuts at and around every member boundary.
func c10LongRecordBam(c *ctx) {
	r := c.res
	rnd := c.rnd.fork()
	var lens []int
	for i := 0; i < 16; i++ {
		n := 100 + rnd.intn(100)
		switch {
		case i%4 == 3:
			n = c10LongSeq // record larger than a block, the boundary inside its aux data (name padding i/4)
		case i%2 == 1:
			n = 3500 + rnd.intn(14000) // record of 5-26 KiB
		}
		lens = append(lens, n)
	}
	t0 := time.Now()
	raw, err := c10WriteBamLens(rnd, lens)
	var sts []*c10Stream
	if err == nil {
		var st *c10Stream
		st, err = c10Describe("bam-long-records", "bam", raw)
		if err == nil {
			sts = append(sts, st)
			var full []byte
			full, err = c10Reblock(st.data, nil, gzip.DefaultCompression)
			if err == nil {
				var st2 *c10Stream
				st2, err = c10Describe("bam-long-records-full-blocks", "bam", full)
				if err == nil {
					sts = append(sts, st2)
				}
			}
		}
	}
	if err != nil {
		r.note("long-record BAM not built: %v", err)
		r.fail("c10.writer.bam-long-records", "long-record BAM stream not built or not readable: "+err.Error(), c10Input{Kind: "build", Name: "bam-long-records"})
	}
	total := 0
	for _, st := range sts {
		n := c10BoundaryCuts(c, st)
		inside := 0
		for b, d := range st.bounds {
			if b < len(st.raw) && !st.recEnds[d] && c10RecordAt(st, d) > 4096 {
				inside++
			}
		}
		r.note("%s (bam, oracle only): %d bytes, %d members, %d records (block payloads %s), %d member boundaries inside a record > 4 KiB, %d cuts",
			st.name, len(st.raw), len(st.members), len(st.recs)-1, c10PayloadSizes(st), inside, n)
		total += inside
	}
	if err == nil && total == 0 {
		// cannot happen: a record larger than a block crosses a boundary of the bam.Writer layout
		r.fail("c10.generator.no-boundary-inside-large-record", "no member boundary of the long-record streams falls inside a record > 4 KiB", c10Input{Kind: "build", Name: "bam-long-records"})
	}
	r.note("long-record BAM streams: %.1fs", time.Since(t0).Seconds())
}

// c10BigBam: a BAM file with full-size (64 KiB) blocks as bam.Writer produces them, records spanning
// block boundaries: truncations at and around every member boundary, and substitutions of every
// header/trailer byte of every member by sampled values.  Oracle only (no model lines: a line would
// carry the whole stream).
func c10BigBam(c *ctx) {
	r := c.res
	raw, err := c10WriteBam(c.rnd, 2, 4000, 60)
	if err != nil {
		r.note("big BAM not built: %v", err)
		return
	}
	st, err := c10Describe("bam-big", "bam", raw)
	if err != nil {
		r.note("big BAM not usable: %v", err)
		return
	}
	hexRaw := hexs(raw)
	ncuts := c10BoundaryCuts(c, st)
	nsub := 0
	mut := append([]byte{}, raw...)
	for _, m := range st.members {
		for off := 0; off < m.size; off++ {
			if off >= m.hlen && off < m.size-8 {
				continue
			}
			pos := m.start + off
			role := c10Role(st.members, pos)
			o0 := int(raw[pos])
			vs := map[int]bool{0: true, 255: true, 0x11: true, o0 ^ 1: true, o0 ^ 0x80: true, (o0 + 1) & 255: true}
			for len(vs) < 12 {
				vs[c.rnd.intn(256)] = true
			}
			delete(vs, o0)
			var vals []int
			for v := range vs {
				vals = append(vals, v)
			}
			sort.Ints(vals)
			for _, v := range vals {
				mut[pos] = byte(v)
				var first c10Obs
				for i, rd := range c10Rds {
					o := c10RunCase(st, mut, rd, 4096, i, &first)
					if o.skip {
						continue
					}
					nsub++
					r.eval(fmt.Sprintf("bam-big/s/%d/%d/%d", pos, v, rd), true)
					r.hist("subst.bam-big." + role)
					if sig, what := c10JudgeSubst(st, pos, v, rd, role, o); sig != "" {
						r.fail(sig, fmt.Sprintf("bam-big rd=%d: %s", rd, what), c10Input{Kind: "subst", Layer: "bam", Name: "bam-big", Stream: hexRaw, Pos: pos, Val: v, Role: role, Rd: rd})
					}
				}
			}
			mut[pos] = raw[pos]
		}
	}
	r.note("bam-big: %d bytes, %d members, %d records: %d cuts at and around member boundaries, %d substitutions of header/trailer bytes (oracle only)",
		len(raw), len(st.members), len(st.recs)-1, ncuts, nsub)
}

func c10Replay(c *ctx) {
	r := c.res
	var in c10Input
	if err := loadReplay(c.replay, &in); err != nil {
		r.note("replay: %v", err)
		return
	}
	raw, err := hex.DecodeString(strings.TrimPrefix(in.Stream, "-"))
	if err != nil || len(raw) == 0 {
		r.note("replay: no stream in the replay file (kind %s, name %s)", in.Kind, in.Name)
		return
	}
	st, err := c10Describe(in.Name, in.Layer, raw)
	if err != nil {
		r.fail("c10.intact."+in.Name, err.Error(), in)
		return
	}
	if in.Chunk == 0 {
		in.Chunk = 64
	}
	switch in.Kind {
	case "trunc":
		o := c10Run(st.layer, raw[:in.Cut], in.Rd, in.Chunk)
		r.eval("replay", true)
		if sig, what := c10JudgeTrunc(st, in.Cut, in.Rd, o); sig != "" {
			r.fail(sig, what, in)
		}
		r.sample(map[string]interface{}{"replayed": in, "observed": o.verdict(st.layer)})
	case "subst":
		mut := append([]byte{}, raw...)
		mut[in.Pos] = byte(in.Val)
		o := c10Run(st.layer, mut, in.Rd, in.Chunk)
		r.eval("replay", true)
		if sig, what := c10JudgeSubst(st, in.Pos, in.Val, in.Rd, c10Role(st.members, in.Pos), o); sig != "" {
			r.fail(sig, what, in)
		}
		r.sample(map[string]interface{}{"replayed": in, "observed": o.verdict(st.layer)})
	}
}
