package main

// C04 — index queries are complete (BAI, CSI, tabix).
//
// One *case* = an index kind + configuration, a sequence of records with the file chunks they occupy,
// a grid of queries and a merge strategy.  The implementation is driven through its public API
// (bam.Index, csi.Index, tabix.Index); the Lean model gets the same case as one text line per aspect.
//
//   oracle (independent of the model): brute-force overlap filter over the records that were added,
//   judged on the implementation's Chunks answers before/after write∘read and after MergeChunks;
//   Add on sorted in-range input must return nil and must not panic.
//   correspondence: Add result codes, written bytes (canonical form), Chunks answers.

import (
	"bytes"
	"errors"
	"fmt"
	"math"
	"os"
	"runtime"
	"sort"
	"strings"
	"sync"
	"time"

	"github.com/biogo/hts/bam"
	"github.com/biogo/hts/bgzf"
	"github.com/biogo/hts/bgzf/index"
	"github.com/biogo/hts/csi"
	"github.com/biogo/hts/sam"
	"github.com/biogo/hts/tabix"
)

func init() { checks["C04"] = checkC04 }

// ---------------------------------------------------------------------------
// case description (also the replay format)

type c04Rec struct {
	Rid     int   `json:"rid"`   // reference id (bai/csi) or index into Names (tbx); -1 = no reference (bai)
	Start   int   `json:"start"` // 0-based
	End     int   `json:"end"`   // exclusive
	Placed  bool  `json:"placed"`
	Mapped  bool  `json:"mapped"`
	MateUnm bool  `json:"mate_unmapped,omitempty"` // bai only: MateUnmapped flag
	CB      int64 `json:"cb"`                      // chunk begin, virtual offset File<<16|Block
	CE      int64 `json:"ce"`                      // chunk end
}

type c04Query struct {
	Rid int `json:"rid"`
	Beg int `json:"beg"`
	End int `json:"end"`
}

type c04Case struct {
	Kind     string `json:"kind"` // bai | csi | tbx
	MinShift int    `json:"min_shift,omitempty"`
	Depth    int    `json:"depth,omitempty"`
	Version  int    `json:"version,omitempty"`
	Aux      string `json:"aux,omitempty"` // hex
	// tabix header
	Format    int      `json:"format,omitempty"`
	ZeroBased bool     `json:"zero_based,omitempty"`
	NameCol   int32    `json:"name_col,omitempty"`
	BegCol    int32    `json:"beg_col,omitempty"`
	EndCol    int32    `json:"end_col,omitempty"`
	Meta      int32    `json:"meta,omitempty"`
	Skip      int32    `json:"skip,omitempty"`
	Names     []string `json:"names,omitempty"`

	Recs     []c04Rec   `json:"recs"`
	Queries  []c04Query `json:"queries"`
	Strategy string     `json:"strategy"` // identity | adjacent | squash | compress:<n>
	// QStrategy is the bam.Index.MergeStrategy field at query time (bai only; "" = nil = Adjacent)
	QStrategy string `json:"query_strategy,omitempty"`
	// Split > 0: after that many records the index is written once (WriteIndex/WriteTo sorts it in place
	// and marks it sorted) before the remaining records are added: a "second use" history
	Split int `json:"split,omitempty"`
	Sorted   bool       `json:"sorted"`   // generated as SortedInput (oracle for Add applies)
}

func (cs *c04Case) limitExp() uint {
	if cs.Kind == "csi" {
		ms, d := cs.MinShift, cs.Depth
		if ms == 0 {
			ms = csi.DefaultShift
		}
		if d == 0 {
			d = csi.DefaultDepth
		}
		return uint(ms + 3*d)
	}
	return 29
}

// maxPos is the largest position accepted by the implementation's validity test.
func (cs *c04Case) maxPos() int { return (1 << cs.limitExp()) - 2 }

func vo(o bgzf.Offset) int64 { return o.File<<16 | int64(o.Block) }
func mkOff(v int64) bgzf.Offset {
	return bgzf.Offset{File: int64(uint64(v) >> 16), Block: uint16(v)}
}
func mkChunk(b, e int64) bgzf.Chunk { return bgzf.Chunk{Begin: mkOff(b), End: mkOff(e)} }

func c04Strategy(s string) index.MergeStrategy {
	switch {
	case s == "identity":
		return index.Identity
	case s == "adjacent":
		return index.Adjacent
	case s == "squash":
		return index.Squash
	case strings.HasPrefix(s, "compress:"):
		var n int64
		fmt.Sscanf(s[len("compress:"):], "%d", &n)
		return index.CompressorStrategy(n)
	}
	return nil
}

// ---------------------------------------------------------------------------
// implementation adapters

type c04Impl interface {
	add(r c04Rec) error
	chunks(q c04Query) ([]bgzf.Chunk, error)
	merge(s index.MergeStrategy)
	write() ([]byte, error)
	reread(b []byte) (c04Impl, error) // (nil, nil) when the library returns a nil index without error
	numRefs() int
	refStats(id int) (index.ReferenceStats, bool)
	unmapped() (uint64, bool)
}

// --- BAI through bam.Index and sam.Record

type baiImpl struct {
	qs   index.MergeStrategy
	idx  *bam.Index
	refs []*sam.Reference
	free *sam.Reference // not owned by a header: id -1
}

func newBaiRefs() ([]*sam.Reference, *sam.Reference) {
	var refs []*sam.Reference
	for i := 0; i < 10; i++ {
		r, err := sam.NewReference(fmt.Sprintf("ref%d", i), "", "", 1<<30, nil, nil)
		if err != nil {
			panic(err)
		}
		refs = append(refs, r)
	}
	if _, err := sam.NewHeader(nil, refs); err != nil {
		panic(err)
	}
	free, _ := sam.NewReference("free", "", "", 1<<30, nil, nil)
	return refs, free
}

func newBai() *baiImpl {
	refs, free := newBaiRefs()
	return &baiImpl{idx: &bam.Index{}, refs: refs, free: free}
}

func (b *baiImpl) ref(id int) *sam.Reference {
	if id >= 0 && id < len(b.refs) {
		return b.refs[id]
	}
	if id < 0 {
		return b.free
	}
	return nil
}

// samRecord builds a record with Start()=r.Start and End()=r.End (mapped: one or more M operations;
// unmapped: End is Pos+1 by definition, the generator respects that).
func (b *baiImpl) samRecord(r c04Rec) *sam.Record {
	rec := &sam.Record{Name: "r", Pos: r.Start, MatePos: -1}
	if r.Rid >= 0 {
		rec.Ref = b.ref(r.Rid)
	}
	if !r.Mapped {
		rec.Flags |= sam.Unmapped
	}
	if r.MateUnm {
		rec.Flags |= sam.MateUnmapped
	}
	if r.Mapped && r.End == r.Start {
		// a mapped read whose CIGAR consumes no reference: End() = Pos
		rec.Cigar = []sam.CigarOp{sam.NewCigarOp(sam.CigarInsertion, 5)}
	}
	if r.Mapped {
		n := r.End - r.Start
		for n > 0 {
			k := n
			if k > 1<<28-1 {
				k = 1<<28 - 1
			}
			rec.Cigar = append(rec.Cigar, sam.NewCigarOp(sam.CigarMatch, k))
			n -= k
		}
	}
	return rec
}

func (b *baiImpl) add(r c04Rec) error {
	return b.idx.Add(b.samRecord(r), mkChunk(r.CB, r.CE))
}
func (b *baiImpl) chunks(q c04Query) ([]bgzf.Chunk, error) {
	ref := b.ref(q.Rid)
	if ref == nil {
		// beyond the header: a reference of another header with that id
		var refs []*sam.Reference
		for i := 0; i <= q.Rid; i++ {
			r, _ := sam.NewReference(fmt.Sprintf("x%d", i), "", "", 1<<30, nil, nil)
			refs = append(refs, r)
		}
		sam.NewHeader(nil, refs)
		ref = refs[q.Rid]
	}
	return b.idx.Chunks(ref, q.Beg, q.End)
}
func (b *baiImpl) merge(s index.MergeStrategy) { b.idx.MergeChunks(s) }
func (b *baiImpl) write() ([]byte, error) {
	var buf bytes.Buffer
	err := bam.WriteIndex(&buf, b.idx)
	return buf.Bytes(), err
}
func (b *baiImpl) reread(bs []byte) (c04Impl, error) {
	idx, err := bam.ReadIndex(bytes.NewReader(bs))
	if err != nil || idx == nil {
		return nil, err
	}
	idx.MergeStrategy = b.qs
	return &baiImpl{qs: b.qs, idx: idx, refs: b.refs, free: b.free}, nil
}
func (b *baiImpl) numRefs() int { return b.idx.NumRefs() }
func (b *baiImpl) refStats(id int) (index.ReferenceStats, bool) {
	return b.idx.ReferenceStats(id)
}
func (b *baiImpl) unmapped() (uint64, bool) { return b.idx.Unmapped() }

// --- CSI

type csiRec struct{ id, start, end int }

func (r csiRec) RefID() int { return r.id }
func (r csiRec) Start() int { return r.start }
func (r csiRec) End() int   { return r.end }

type csiImpl struct{ idx *csi.Index }

func newCsi(cs *c04Case) *csiImpl {
	idx := csi.New(cs.MinShift, cs.Depth)
	idx.Version = byte(cs.Version)
	if cs.Aux != "" && cs.Aux != "-" {
		var b []byte
		fmt.Sscanf(cs.Aux, "%x", &b)
		idx.Auxilliary = b
	}
	return &csiImpl{idx}
}
func (c *csiImpl) add(r c04Rec) error {
	return c.idx.Add(csiRec{r.Rid, r.Start, r.End}, mkChunk(r.CB, r.CE), r.Mapped, r.Placed)
}
func (c *csiImpl) chunks(q c04Query) ([]bgzf.Chunk, error) {
	return c.idx.Chunks(q.Rid, q.Beg, q.End), nil
}
func (c *csiImpl) merge(s index.MergeStrategy) { c.idx.MergeChunks(s) }
func (c *csiImpl) write() ([]byte, error) {
	var buf bytes.Buffer
	err := csi.WriteTo(&buf, c.idx)
	return buf.Bytes(), err
}
func (c *csiImpl) reread(bs []byte) (c04Impl, error) {
	idx, err := csi.ReadFrom(bytes.NewReader(bs))
	if err != nil || idx == nil {
		return nil, err
	}
	return &csiImpl{idx}, nil
}
func (c *csiImpl) numRefs() int                                 { return c.idx.NumRefs() }
func (c *csiImpl) refStats(id int) (index.ReferenceStats, bool) { return c.idx.ReferenceStats(id) }
func (c *csiImpl) unmapped() (uint64, bool)                     { return c.idx.Unmapped() }

// --- tabix

type tbxRec struct {
	name       string
	start, end int
}

func (r tbxRec) RefName() string { return r.name }
func (r tbxRec) Start() int      { return r.start }
func (r tbxRec) End() int        { return r.end }

type tbxImpl struct {
	idx   *tabix.Index
	names []string
}

func newTbx(cs *c04Case) *tbxImpl {
	idx := tabix.New()
	idx.Format = byte(cs.Format)
	idx.ZeroBased = cs.ZeroBased
	idx.NameColumn, idx.BeginColumn, idx.EndColumn = cs.NameCol, cs.BegCol, cs.EndCol
	idx.MetaChar = rune(cs.Meta)
	idx.Skip = cs.Skip
	return &tbxImpl{idx, cs.Names}
}
func (t *tbxImpl) name(i int) string {
	if i >= 0 && i < len(t.names) {
		return t.names[i]
	}
	return fmt.Sprintf("?%d", i)
}
func (t *tbxImpl) add(r c04Rec) error {
	return t.idx.Add(tbxRec{t.name(r.Rid), r.Start, r.End}, mkChunk(r.CB, r.CE), r.Placed, r.Mapped)
}
func (t *tbxImpl) chunks(q c04Query) ([]bgzf.Chunk, error) {
	return t.idx.Chunks(t.name(q.Rid), q.Beg, q.End)
}
func (t *tbxImpl) merge(s index.MergeStrategy) { t.idx.MergeChunks(s) }
func (t *tbxImpl) write() ([]byte, error) {
	var buf bytes.Buffer
	err := tabix.WriteTo(&buf, t.idx)
	return buf.Bytes(), err
}
func (t *tbxImpl) reread(bs []byte) (c04Impl, error) {
	idx, err := tabix.ReadFrom(bytes.NewReader(bs))
	if err != nil || idx == nil {
		return nil, err
	}
	return &tbxImpl{idx, t.names}, nil
}
func (t *tbxImpl) numRefs() int                                 { return t.idx.NumRefs() }
func (t *tbxImpl) refStats(id int) (index.ReferenceStats, bool) { return t.idx.ReferenceStats(id) }
func (t *tbxImpl) unmapped() (uint64, bool)                     { return t.idx.Unmapped() }

func newImpl(cs *c04Case) c04Impl {
	switch cs.Kind {
	case "bai":
		b := newBai()
		if cs.QStrategy != "" {
			b.qs = c04Strategy(cs.QStrategy)
			b.idx.MergeStrategy = b.qs
		}
		return b
	case "csi":
		return newCsi(cs)
	}
	return newTbx(cs)
}

// ---------------------------------------------------------------------------
// text forms shared with the model driver

func fnv64(b []byte) uint64 {
	h := uint64(0xcbf29ce484222325)
	for _, x := range b {
		h ^= uint64(x)
		h *= 0x100000001b3
	}
	return h
}

// bytesDigest is the canonical comparison form of a serialised index: length, FNV-1a 64 and, when
// short, the bytes themselves (so that a disagreement is readable).
func bytesDigest(b []byte) string {
	s := fmt.Sprintf("%d:%016x", len(b), fnv64(b))
	if len(b) <= 600 {
		s += ":" + hexs(b)
	}
	return s
}

func (cs *c04Case) cfgText() string {
	switch cs.Kind {
	case "csi":
		a := cs.Aux
		if a == "" {
			a = "-"
		}
		ms, d := cs.MinShift, cs.Depth
		if ms == 0 {
			ms = csi.DefaultShift
		}
		if d == 0 {
			d = csi.DefaultDepth
		}
		return fmt.Sprintf("%d,%d,%d,%s", ms, d, cs.Version, a)
	case "tbx":
		z := 0
		if cs.ZeroBased {
			z = 1
		}
		var ns []string
		for _, n := range cs.Names {
			ns = append(ns, hexs([]byte(n)))
		}
		return fmt.Sprintf("%d,%d,%d,%d,%d,%d,%d,%s", cs.Format, z, cs.NameCol, cs.BegCol, cs.EndCol, cs.Meta, cs.Skip, strings.Join(ns, "/"))
	}
	if cs.QStrategy != "" {
		return cs.QStrategy
	}
	return "-"
}

func (cs *c04Case) recsText() string {
	if len(cs.Recs) == 0 {
		return "-"
	}
	var sb strings.Builder
	for i, r := range cs.Recs {
		if i > 0 {
			sb.WriteByte(';')
		}
		f := 0
		if r.Placed {
			f |= 1
		}
		if r.Mapped {
			f |= 2
		}
		if r.MateUnm {
			f |= 4
		}
		fmt.Fprintf(&sb, "%d,%d,%d,%d,%d,%d", r.Rid, r.Start, r.End, f, r.CB, r.CE)
		if cs.Split > 0 && i+1 == cs.Split && i+1 < len(cs.Recs) {
			sb.WriteString(";S")
		}
	}
	return sb.String()
}

func (cs *c04Case) queriesText() string {
	if len(cs.Queries) == 0 {
		return "-"
	}
	var sb strings.Builder
	for i, q := range cs.Queries {
		if i > 0 {
			sb.WriteByte(';')
		}
		fmt.Fprintf(&sb, "%d,%d,%d", q.Rid, q.Beg, q.End)
	}
	return sb.String()
}

func addCode(err error) byte {
	if err == nil {
		return 'o'
	}
	m := err.Error()
	switch {
	case strings.Contains(m, "outside indexable range"):
		return 'r'
	case strings.Contains(m, "reference ID sort order"):
		return 'f'
	case strings.Contains(m, "position sort order"):
		return 'p'
	case strings.Contains(m, "without a reference ID"):
		return 'n'
	}
	return 'e'
}

func answerText(cs []bgzf.Chunk, err error, panicked bool) string {
	if panicked {
		return "panic"
	}
	if err != nil {
		switch err {
		case index.ErrNoReference:
			return "err:noref"
		case index.ErrInvalid:
			return "err:invalid"
		}
		return "err:other"
	}
	var sb strings.Builder
	sb.WriteString("ok:")
	for i, c := range cs {
		if i > 0 {
			sb.WriteByte(',')
		}
		fmt.Fprintf(&sb, "%d-%d", vo(c.Begin), vo(c.End))
	}
	return sb.String()
}

func statsText(im c04Impl) string {
	var sb strings.Builder
	n := im.numRefs()
	fmt.Fprintf(&sb, "n=%d", n)
	for id := 0; id < n; id++ {
		st, ok := im.refStats(id)
		if !ok {
			sb.WriteString(";-")
			continue
		}
		fmt.Fprintf(&sb, ";%d-%d,%d,%d", vo(st.Chunk.Begin), vo(st.Chunk.End), st.Mapped, st.Unmapped)
	}
	if u, ok := im.unmapped(); ok {
		fmt.Fprintf(&sb, ";u=%d", u)
	} else {
		sb.WriteString(";u=-")
	}
	return sb.String()
}

// ---------------------------------------------------------------------------
// brute-force oracle

// validPos is the documented indexable range of the index kind (what "positions in range" means).
func (cs *c04Case) validPos(p int) bool { return -1 <= p && p <= cs.maxPos() }

// overlapping returns the indexes (into cs.Recs) of the accepted placed records that overlap q.
func (cs *c04Case) overlapping(q c04Query, accepted []bool) []int {
	var out []int
	for i, r := range cs.Recs {
		if !accepted[i] || !r.Placed || r.Rid != q.Rid {
			continue
		}
		if r.Start < r.End && r.Start < q.End && q.Beg < r.End {
			out = append(out, i)
		}
	}
	return out
}

func covered(cs []bgzf.Chunk, r c04Rec) bool {
	for _, c := range cs {
		if vo(c.Begin) <= r.CB && r.CE <= vo(c.End) {
			return true
		}
	}
	return false
}

// recClass describes the record for the failure signature (stable classes, not per-input strings).
func (cs *c04Case) recClass(r c04Rec) string {
	sh := uint(14)
	if cs.Kind == "csi" {
		sh = uint(cs.MinShift)
		if sh == 0 {
			sh = 14
		}
	}
	var parts []string
	if cs.Kind == "bai" && !r.Mapped && r.MateUnm {
		parts = append(parts, "bothunmapped")
	}
	if r.Start>>sh != (r.End-1)>>sh {
		parts = append(parts, "straddle")
	} else {
		parts = append(parts, "single")
	}
	return strings.Join(parts, "+")
}

func ansClass(cs []bgzf.Chunk, err error) string {
	switch {
	case err == index.ErrNoReference:
		return "noref"
	case err == index.ErrInvalid:
		return "invalid"
	case err != nil:
		return "error"
	case len(cs) == 0:
		return "empty"
	}
	return "chunks"
}

// judge applies the completeness clause to one answer of the implementation.
func (cs *c04Case) judge(r *Result, phase string, q c04Query, accepted []bool, ans []bgzf.Chunk, err error) {
	if q.Beg >= q.End || (q.Beg < 0 && cs.Kind != "csi") {
		return // not a query interval (a negative begin is cut at 0 by csi since repair C04-6)
	}
	want := cs.overlapping(q, accepted)
	if len(want) == 0 {
		r.hist("q." + phase + ".nooverlap." + ansClass(ans, err))
		return
	}
	r.hist("q." + phase + ".overlap." + ansClass(ans, err))
	for _, i := range want {
		rec := cs.Recs[i]
		if err == nil && covered(ans, rec) {
			continue
		}
		sig := fmt.Sprintf("%s.miss.%s.%s.%s", cs.Kind, phase, ansClass(ans, err), cs.recClass(rec))
		what := fmt.Sprintf("query (%d,[%d,%d)) answered %s but record #%d [%d,%d) chunk %d-%d overlaps it",
			q.Rid, q.Beg, q.End, answerText(ans, err, false), i, rec.Start, rec.End, rec.CB, rec.CE)
		one := *cs
		one.Queries = []c04Query{q}
		if r.Tier == "shrink" || r.Tier == "x" || sigCount(r, sig) >= 3 {
			r.fail(sig, what, &one)
		} else {
			r.fail(sig, what, c04Shrink(&one, phase, sig))
		}
		return
	}
}

// ---------------------------------------------------------------------------
// running a case

type c04Run struct {
	im       c04Impl
	codes    []byte
	accepted []bool
	panicked bool
}

// build adds all records; the oracle for Add is applied when judgeAdd is set.
func (cs *c04Case) build(r *Result, judgeAdd bool) *c04Run {
	run := &c04Run{im: newImpl(cs), accepted: make([]bool, len(cs.Recs))}
	for i, rec := range cs.Recs {
		var err error
		o := guard(func() { err = run.im.add(rec) })
		if o.panicked {
			run.codes = append(run.codes, 'X')
			run.panicked = true
			if judgeAdd {
				one := *cs
				one.Recs = cs.Recs[:i+1]
				one.Queries = nil
				r.fail("panic:"+topRepoFrame(o.stack), fmt.Sprintf("%s Add of record #%d [%d,%d) panics: %s", cs.Kind, i, rec.Start, rec.End, o.panicVal), one)
			}
			return run
		}
		run.codes = append(run.codes, addCode(err))
		run.accepted[i] = err == nil
		if cs.Split > 0 && i+1 == cs.Split && i+1 < len(cs.Recs) {
			guard(func() { run.im.write() }) // sorts in place and marks the index sorted
		}
		if err != nil && judgeAdd && cs.Sorted {
			one := *cs
			one.Recs = cs.Recs[:i+1]
			one.Queries = nil
			r.fail(fmt.Sprintf("%s.add.sorted-input-rejected.%c", cs.Kind, addCode(err)),
				fmt.Sprintf("Add of record #%d of a sorted in-range sequence returned %v", i, err), one)
		}
	}
	return run
}

func (cs *c04Case) ask(im c04Impl, q c04Query) ([]bgzf.Chunk, error, bool) {
	var ans []bgzf.Chunk
	var err error
	if cs.Kind == "csi" && (q.End <= 0 || q.Beg < 0 || q.End > c04CsiLimit(cs)+2) {
		if ok, _ := c04CsiAnyQuerySafe(); !ok {
			return nil, errors.New("not called: csi.reg2bins does not return for such queries"), false
		}
	}
	o := guard(func() { ans, err = im.chunks(q) })
	return ans, err, o.panicked
}

// answers queries all of cs.Queries; phase names the state of the index for the oracle.
func (cs *c04Case) answers(r *Result, im c04Impl, phase string, accepted []bool, judge bool) string {
	var parts []string
	for _, q := range cs.Queries {
		ans, err, p := cs.ask(im, q)
		parts = append(parts, answerText(ans, err, p))
		if !judge {
			continue
		}
		if p {
			if q.Beg < q.End && (q.Beg >= 0 || cs.Kind == "csi") {
				one := *cs
				one.Queries = []c04Query{q}
				r.fail(fmt.Sprintf("%s.chunks.panic.%s", cs.Kind, phase), fmt.Sprintf("Chunks(%d,%d,%d) panics", q.Rid, q.Beg, q.End), one)
			}
			continue
		}
		cs.judge(r, phase, q, accepted, ans, err)
	}
	if len(parts) == 0 {
		return "-"
	}
	return strings.Join(parts, ";")
}

// c04Shrink drops records and queries that are not needed for the failure to persist (greedy, bounded).
func c04Shrink(cs *c04Case, phase, sig string) *c04Case {
	fails := func(t *c04Case) bool {
		quiet := newResult("C04", "shrink", 0)
		c04Oracle(quiet, t, phase)
		for _, f := range quiet.Failures {
			if f.Signature == sig {
				return true
			}
		}
		return false
	}
	cur := *cs
	if !fails(&cur) {
		return cs
	}
	for round := 0; round < 3; round++ {
		changed := false
		for i := 0; i < len(cur.Recs) && len(cur.Recs) > 1; i++ {
			t := cur
			t.Recs = append(append([]c04Rec{}, cur.Recs[:i]...), cur.Recs[i+1:]...)
			if i < t.Split {
				t.Split--
			}
			if fails(&t) {
				cur = t
				i--
				changed = true
			}
		}
		if !changed {
			break
		}
	}
	return &cur
}

// c04Oracle runs only the property oracle of one phase (used by the shrinker and by replays).
func c04Oracle(r *Result, cs *c04Case, phase string) {
	run := cs.build(r, true)
	if run.panicked {
		return
	}
	switch {
	case phase == "" || phase == "pre":
		cs.answers(r, run.im, "pre", run.accepted, true)
		if phase == "pre" {
			return
		}
		fallthrough
	case phase == "rt":
		bs, err := run.im.write()
		if err != nil {
			return
		}
		var im2 c04Impl
		o := guard(func() { im2, err = run.im.reread(bs) })
		if o.panicked || err != nil || im2 == nil {
			return
		}
		cs.answers(r, im2, "rt", run.accepted, true)
		if phase == "rt" {
			return
		}
		fallthrough
	default:
		run2 := cs.build(newResult("C04", "x", 0), false)
		if run2.panicked {
			return
		}
		o := guard(func() { run2.im.merge(c04Strategy(cs.Strategy)) })
		if o.panicked {
			r.fail(cs.Kind+".mergechunks.panic", "MergeChunks panics: "+o.panicVal, cs)
			return
		}
		cs.answers(r, run2.im, "merged", run2.accepted, true)
	}
}

// runCase: oracle + correspondence lines of one case.
func (cs *c04Case) runCase(c *ctx, d *Driver, impl *[]string) {
	r := c.res
	c04Current = cs
	cfg, recs, qs := cs.cfgText(), cs.recsText(), cs.queriesText()
	run := cs.build(r, true)
	r.hist(fmt.Sprintf("case.%s.recs%s", cs.Kind, sizeClass(len(cs.Recs))))
	for _, code := range run.codes {
		r.hist(fmt.Sprintf("add.%s.%c", cs.Kind, code))
	}
	if cs.Split > 0 {
		r.hist("case." + cs.Kind + ".second-use")
	}
	if cs.QStrategy != "" {
		r.hist("bai.query-strategy." + strings.SplitN(cs.QStrategy, ":", 2)[0] + "+merge." + strings.SplitN(cs.Strategy, ":", 2)[0])
	}
	for _, rec := range cs.Recs {
		if rec.Placed && rec.End == rec.Start {
			r.hist("rec." + cs.Kind + ".empty-interval")
		}
	}
	if run.panicked {
		// the state after a panic is not defined; compare the result codes only
		d.add("c04.codes %s %s %s", cs.Kind, cfg, recs)
		*impl = append(*impl, string(run.codes))
		return
	}
	// phase pre
	pre := cs.answers(r, run.im, "pre", run.accepted, true)
	d.add("c04.q %s %s %s pre %s %s", cs.Kind, cfg, recs, cs.Strategy, qs)
	*impl = append(*impl, pre)
	// canonical form = written bytes
	bs, werr := run.im.write()
	d.add("c04.add %s %s %s", cs.Kind, cfg, recs)
	if werr != nil {
		*impl = append(*impl, string(run.codes)+" write-error")
		r.fail(cs.Kind+".write.error", "writing the index failed: "+werr.Error(), cs)
		return
	}
	*impl = append(*impl, string(run.codes)+" "+bytesDigest(bs))
	// phase rt: write∘read
	var im2 c04Impl
	var rerr error
	o := guard(func() { im2, rerr = run.im.reread(bs) })
	switch {
	case o.panicked:
		r.fail(cs.Kind+".reread.panic", "reading back the written index panics: "+o.panicVal, cs)
	case rerr != nil:
		r.fail(cs.Kind+".reread.error", "the written index is rejected by the reader: "+rerr.Error(), cs)
	case im2 == nil:
		r.hist("rt." + cs.Kind + ".nil-index")
		c04NilIndex(r, cs, run)
	default:
		rt := cs.answers(r, im2, "rt", run.accepted, true)
		d.add("c04.q %s %s %s rt %s %s", cs.Kind, cfg, recs, cs.Strategy, qs)
		*impl = append(*impl, rt)
		if rt != pre {
			r.fail(cs.Kind+".rt.answers-differ", "Chunks answers differ after write∘read", cs)
		}
	}
	// phase merged: MergeChunks(s) on a freshly built index
	run2 := cs.build(newResult("C04", "x", 0), false)
	if !run2.panicked {
		o := guard(func() { run2.im.merge(c04Strategy(cs.Strategy)) })
		if o.panicked {
			r.fail(cs.Kind+".mergechunks.panic", "MergeChunks panics: "+o.panicVal, cs)
		} else {
			mg := cs.answers(r, run2.im, "merged", run2.accepted, true)
			d.add("c04.q %s %s %s merged %s %s", cs.Kind, cfg, recs, cs.Strategy, qs)
			*impl = append(*impl, mg)
			r.hist("merge." + strings.SplitN(cs.Strategy, ":", 2)[0])
		}
	}
}

// c04NilIndex: the reader returned (nil, nil).  The property demands an index that answers like the
// original; a nil index answers nothing.  It is a violation as soon as the original had anything to say.
func c04NilIndex(r *Result, cs *c04Case, run *c04Run) {
	r.fail(cs.Kind+".reread.nil-index", "the written index reads back as a nil index with a nil error", cs)
}

func sigCount(r *Result, sig string) int {
	n := 0
	for _, f := range r.Failures {
		if f.Signature == sig {
			n++
		}
	}
	return n
}

func sizeClass(n int) string {
	switch {
	case n == 0:
		return "0"
	case n <= 2:
		return "1-2"
	case n <= 8:
		return "3-8"
	case n <= 20:
		return "9-20"
	}
	return ">20"
}

// ---------------------------------------------------------------------------
// generators

type c04Gen struct {
	rnd *Rand
}

// pos draws a position in [0, max] biased to the edges of every bin level of the geometry
// (minShift, depth): k·2^(minShift+3l) + {-2..2}, with the region chosen small (a few finest bins),
// medium or up to the limit.
func (g *c04Gen) pos(ms, depth int, max int, region int) int {
	rnd := g.rnd
	l := rnd.intn(depth + 1)
	if rnd.coin(1, 2) {
		l = 0
	}
	unit := 1 << uint(ms+3*l)
	var span int // number of units available
	switch region {
	case 0: // first few finest bins
		span = (8 << uint(ms)) / unit
	case 1:
		span = (600 << uint(ms)) / unit
	default:
		span = max / unit
	}
	if span < 1 {
		span = 1
	}
	if span > max/unit+1 {
		span = max/unit + 1
	}
	k := rnd.intn(span + 1)
	p := k * unit
	switch rnd.intn(10) {
	case 0, 1:
		p -= 1
	case 2:
		p -= 2
	case 3, 4:
		p += 1
	case 5:
		p += 2
	case 6:
		p += rnd.intn(unit)
	}
	if region == 2 && rnd.coin(1, 4) {
		p = max - rnd.intn(3)
	}
	if p < 0 {
		p = 0
	}
	if p > max {
		p = max
	}
	return p
}

// length draws a record length biased to the tile/bin edges relative to start.
func (g *c04Gen) length(ms, depth int, start int) int {
	rnd := g.rnd
	unit := 1 << uint(ms)
	toEdge := unit - start%unit // distance to the next finest edge
	switch rnd.intn(12) {
	case 0:
		return 1
	case 1:
		return 2
	case 2:
		return toEdge // ends exactly at the edge (last base in this tile)
	case 3:
		return toEdge + 1 // one base into the next tile
	case 4:
		if toEdge > 1 {
			return toEdge - 1
		}
		return 1
	case 5:
		return unit
	case 6:
		return unit + 1
	case 7:
		return toEdge + unit*rnd.rng(1, 4) + rnd.rng(-1, 1)
	case 8:
		l := rnd.intn(depth + 1)
		return (1 << uint(ms+3*l)) + rnd.rng(-1, 1)
	case 9:
		return rnd.rng(1, 200)
	case 10:
		return rnd.rng(1, 3*unit)
	}
	return rnd.rng(1, 64) * unit / 8
}

// layout assigns monotone chunks: begin_k < end_k <= begin_{k+1} in virtual-offset order.
func (g *c04Gen) layout(recs []c04Rec) {
	rnd := g.rnd
	var file, block int64
	switch rnd.intn(4) {
	case 0: // the very first record of a tabix-indexed text file sits at offset 0
	case 1:
		block = int64(rnd.rng(1, 400))
	default:
		file, block = int64(rnd.rng(0, 3))*int64(rnd.rng(1, 30000)), int64(rnd.rng(0, 65535))
	}
	adv := func() {
		// move forward by 1.. bytes within the block, or into a later block
		switch rnd.intn(5) {
		case 0:
			file += int64(rnd.rng(1, 70000))
			block = int64(rnd.rng(0, 300))
		case 1:
			file += int64(rnd.rng(1, 20))
			block = 0
		default:
			block += int64(rnd.rng(1, 900))
			if block > 65535 {
				file += int64(rnd.rng(1, 30000))
				block -= 65535
			}
		}
	}
	for i := range recs {
		recs[i].CB = file<<16 | block
		adv()
		recs[i].CE = file<<16 | block
		if rnd.coin(1, 5) {
			adv() // a gap (another record type, a header line, a filtered record)
		}
	}
}

func (g *c04Gen) strategy() string {
	switch g.rnd.intn(6) {
	case 0:
		return "identity"
	case 1, 2:
		return "adjacent"
	case 3:
		return "squash"
	}
	return fmt.Sprintf("compress:%d", g.rnd.pick([]int{-1, 0, 1, 20, 65536, 1 << 30}))
}

// sortedCase generates a SortedInput case.
func (g *c04Gen) sortedCase(kind string, thorough bool) *c04Case {
	rnd := g.rnd
	cs := &c04Case{Kind: kind, Sorted: true, Strategy: g.strategy()}
	ms, depth := 14, 5
	switch kind {
	case "csi":
		geoms := [][2]int{{14, 5}, {14, 5}, {0, 0}, {14, 6}, {12, 3}, {4, 2}, {1, 1}, {3, 4}, {16, 4}, {2, 8}, {10, 1}, {5, 7}, {2, 10}, {14, 10}}
		gm := geoms[rnd.intn(len(geoms))]
		cs.MinShift, cs.Depth = gm[0], gm[1]
		ms, depth = gm[0], gm[1]
		if ms == 0 {
			ms, depth = 14, 5
		}
		cs.Version = 2
		if rnd.coin(1, 3) {
			cs.Version = 1
		}
		if rnd.coin(1, 2) {
			cs.Aux = hexs(rnd.bytes(rnd.rng(1, 40)))
		}
	case "tbx":
		cs.Format = rnd.pick([]int{0, 1, 2, 0xff})
		cs.ZeroBased = rnd.coin(1, 2)
		cs.NameCol, cs.BegCol, cs.EndCol = int32(rnd.rng(0, 9)), int32(rnd.rng(0, 9)), int32(rnd.rng(0, 9))
		cs.Meta = int32(rnd.pick([]int{'#', '@', 0, 0x263a}))
		cs.Skip = int32(rnd.pick([]int{0, 1, 7, 1 << 20}))
		pool := []string{"chr1", "chr2", "chrX", "1", "contig_000017", "MT", "*", "a b", ""} // incl. the empty name (a lone NUL in the name block)
		for i := len(pool) - 1; i > 0; i-- {
			j := rnd.intn(i + 1)
			pool[i], pool[j] = pool[j], pool[i]
		}
		cs.Names = pool[:rnd.rng(2, 6)]
	}
	max := (1 << uint(ms+3*depth)) - 2
	region := 0
	switch x := rnd.intn(20); {
	case x < 12:
		region = 0
	case x < 19:
		region = 1
	default:
		region = 2
	}
	if ms+3*depth > 29 && region == 2 && kind == "csi" {
		region = 1
	}
	nRefs := rnd.rng(1, 4)
	rid := 0
	if kind != "tbx" && rnd.coin(1, 4) {
		rid = rnd.rng(1, 3) // the first references have no records
	}
	for ref := 0; ref < nRefs; ref++ {
		if kind == "bai" && rid > 9 {
			// the BAM harness header has ten references (normalise caps ids at 9): a further
			// reference would be folded onto id 9 and make the "sorted" input unsorted
			break
		}
		n := rnd.rng(0, 7)
		if rnd.coin(1, 6) {
			n = rnd.rng(8, 25)
		}
		if ref == 0 && n == 0 {
			n = 1
		}
		var starts []int
		for i := 0; i < n; i++ {
			if i > 0 && rnd.coin(1, 6) {
				starts = append(starts, starts[rnd.intn(len(starts))]) // same start again
			} else {
				starts = append(starts, g.pos(ms, depth, max-1, region))
			}
		}
		sort.Ints(starts)
		for _, s := range starts {
			ln := g.length(ms, depth, s)
			e := s + ln
			if e > max {
				e = max
			}
			if e <= s {
				e = s + 1
			}
			if rnd.coin(1, 15) {
				e = s // empty reference interval (BAM: CIGAR without reference-consuming operation)
			}
			rec := c04Rec{Rid: rid, Start: s, End: e, Placed: true, Mapped: true}
			if rnd.coin(1, 7) { // placed but unmapped: occupies one base
				rec.Mapped = false
				if kind == "bai" {
					rec.End = s + 1
					if rnd.coin(1, 5) {
						rec.MateUnm = true
					}
				}
			}
			if kind == "bai" && rec.Mapped && rnd.coin(1, 10) {
				rec.MateUnm = true
			}
			cs.Recs = append(cs.Recs, rec)
			if rnd.coin(1, 12) { // an unplaced record in between
				cs.Recs = append(cs.Recs, g.unplaced(cs))
			}
		}
		if kind == "tbx" {
			rid++
			if rid >= len(cs.Names) {
				break
			}
		} else {
			rid += 1
			if rnd.coin(1, 4) {
				rid += rnd.rng(1, 2) // skipped ids
			}
		}
	}
	for k := rnd.pick([]int{0, 0, 1, 3}); k > 0; k-- {
		cs.Recs = append(cs.Recs, g.unplaced(cs))
	}
	g.layout(cs.Recs)
	cs.normalise()
	if kind == "bai" && rnd.coin(1, 2) {
		cs.QStrategy = g.strategy() // every pair (MergeChunks strategy, query-time MergeStrategy) is drawn
	}
	if len(cs.Recs) > 1 && rnd.coin(1, 5) {
		cs.Split = rnd.rng(1, len(cs.Recs)-1)
	}
	g.queries(cs, ms, depth, max, region, thorough)
	return cs
}

// normalise makes the description consistent with what the implementation derives itself:
// a sam.Record is placed iff it has a reference and Pos != -1, and End() of an unmapped record or of
// one without CIGAR is Pos+1.
func (cs *c04Case) normalise() {
	if cs.Kind != "bai" {
		return
	}
	for i := range cs.Recs {
		r := &cs.Recs[i]
		if r.Rid > 9 {
			r.Rid = 9
		}
		if r.Rid < 0 {
			r.Rid = -1
		}
		r.Placed = r.Rid >= 0 && r.Start != -1
		if !r.Mapped || r.End < r.Start {
			r.End = r.Start + 1
		}
	}
}

func (g *c04Gen) unplaced(cs *c04Case) c04Rec {
	rec := c04Rec{Rid: -1, Start: -1, End: 0, Placed: false, Mapped: false}
	switch cs.Kind {
	case "csi":
		rec.Rid = g.rnd.rng(-1, 2)
	case "tbx":
		// an unplaced line still carries a name column; most often one that is already known
		rec.Rid = g.rnd.intn(len(cs.Names))
	}
	return rec
}

func (g *c04Gen) queries(cs *c04Case, ms, depth, max, region int, thorough bool) {
	rnd := g.rnd
	unit := 1 << uint(ms)
	rids := map[int]bool{}
	maxRid := 0
	for _, r := range cs.Recs {
		if r.Placed {
			rids[r.Rid] = true
			if r.Rid > maxRid {
				maxRid = r.Rid
			}
		}
	}
	add := func(rid, b, e int) {
		if b < 0 {
			b = 0
		}
		if e > max+2 {
			e = max + 2
		}
		if depth >= 9 && (e-b)>>uint(ms) > 4096 {
			// reg2bins lists every finest bin under the query: 8^10 of them for a whole depth-10 reference
			e = b + 4096<<uint(ms)
		}
		if e < 1 {
			// end <= 0 is not a query interval, and csi.reg2bins(0,0) does not terminate
			// (uint32(-1) as the upper loop bound): never generated.
			e = 1
		}
		cs.Queries = append(cs.Queries, c04Query{rid, b, e})
	}
	// around records
	nAround := 10
	if thorough {
		nAround = 30
	}
	for k := 0; k < nAround && len(cs.Recs) > 0; k++ {
		r := cs.Recs[rnd.intn(len(cs.Recs))]
		if !r.Placed {
			continue
		}
		switch rnd.intn(10) {
		case 0:
			add(r.Rid, r.Start, r.Start+1)
		case 1:
			add(r.Rid, r.End-1, r.End)
		case 2:
			add(r.Rid, r.End, r.End+1) // just behind: need not return it
		case 3:
			add(r.Rid, r.Start-1, r.Start) // just before
		case 4:
			add(r.Rid, r.End-1, r.End+unit)
		case 5:
			t := (r.End - 1) / unit * unit
			add(r.Rid, t, t+1) // first base of the last tile of the record
		case 6:
			t := (r.End - 1) / unit * unit
			add(r.Rid, t+unit-1, t+unit) // last base of the last tile
		case 7:
			m := r.Start + (r.End-r.Start)/2
			add(r.Rid, m, m+1)
		case 8:
			add(r.Rid, r.Start-rnd.intn(2*unit), r.End+rnd.intn(2*unit))
		case 9:
			add(r.Rid+1, r.Start, r.End) // the next reference (may be one without records)
		}
	}
	nGrid := 8
	if thorough {
		nGrid = 25
	}
	for k := 0; k < nGrid; k++ {
		rid := rnd.rng(0, maxRid)
		if rnd.coin(1, 8) {
			rid = rnd.rng(-1, maxRid+2)
		}
		b := g.pos(ms, depth, max, region)
		var e int
		switch rnd.intn(4) {
		case 0:
			e = b + 1
		case 1:
			e = b + g.length(ms, depth, b)
		case 2:
			e = g.pos(ms, depth, max, region)
			if e <= b {
				b, e = e, b+1
			}
		default:
			e = b + rnd.rng(1, 3*unit)
		}
		add(rid, b, e)
	}
	if rnd.coin(1, 6) {
		add(rnd.rng(0, maxRid), 0, max+1) // everything
	}
	if rnd.coin(1, 10) { // not a query interval: only for the correspondence
		cs.Queries = append(cs.Queries, c04Query{rnd.rng(0, maxRid), 100, 100})
	}
	// queries of any extent (repairs C04-5, C04-6): an end up to the largest int ("to the end of the reference"),
	// empty and reversed queries, for CSI also a negative begin.  CSI calls that did not return before the
	// repair are made only when the probe child (c04CsiAnyQuerySafe) has shown that they return.
	lim := 1 << 29
	if cs.Kind == "csi" {
		lim = 1 << uint(ms+3*depth)
	}
	raw := func(rid, b, e int) {
		hi, lo := e, b
		if hi > lim {
			hi = lim
		}
		if lo < 0 {
			lo = 0
		}
		if hi > lo && (hi-lo)>>uint(ms) > 40000 {
			b = hi - 4096<<uint(ms) // keep the finest level of the bin list short
		}
		cs.Queries = append(cs.Queries, c04Query{rid, b, e})
	}
	nAny := 3
	if thorough {
		nAny = 8
	}
	for k := 0; k < nAny && len(cs.Recs) > 0; k++ {
		r := cs.Recs[rnd.intn(len(cs.Recs))]
		if !r.Placed {
			continue
		}
		huge := []int{math.MaxInt64, math.MaxInt64 - 1, 1 << 62, 1 << 46, 1<<46 + 4681<<14, 1 << 40, lim + 1, lim + 2}[rnd.intn(8)]
		switch rnd.intn(6) {
		case 0:
			raw(r.Rid, r.Start, huge)
		case 1:
			raw(r.Rid, r.End-1, huge)
		case 2:
			raw(r.Rid, 0, huge)
		case 3:
			if cs.Kind == "csi" {
				raw(r.Rid, -rnd.rng(1, 20000), r.Start+1)
			} else {
				raw(r.Rid, r.Start, huge)
			}
		case 4: // empty and reversed: nothing overlaps; every call returns
			raw(r.Rid, []int{0, 5, r.Start, r.End}[rnd.intn(4)], []int{0, 5, r.Start}[rnd.intn(3)])
			if q := &cs.Queries[len(cs.Queries)-1]; q.End > q.Beg {
				q.Beg, q.End = q.End, q.Beg
			}
		case 5:
			if cs.Kind == "csi" {
				raw(r.Rid, -rnd.rng(1, 9), huge)
			} else {
				raw(r.Rid, 0, 0)
			}
		}
	}
}

// c04CsiAnyQuerySafe: do csi.reg2bins calls with an end <= 0 or beyond the range return (in a child
// process, see c16Probe)?  When they do not, such CSI queries are reported once and not made in-process.
var c04CsiSafe struct {
	once sync.Once
	ok   bool
	bad  string
}

// c04CsiLimit is the end of the indexable range of a csi case (csi.New's defaults for 0)
func c04CsiLimit(cs *c04Case) int {
	ms, d := cs.MinShift, cs.Depth
	if ms == 0 {
		ms = 14
	}
	if d == 0 {
		d = 5
	}
	if ms+3*d >= 62 {
		return 1 << 62
	}
	return 1 << uint(ms+3*d)
}

func c04CsiAnyQuerySafe() (bool, string) {
	c04CsiSafe.once.Do(func() {
		qs := []c16Query{{0, 0, 14, 5}, {-5, 0, 14, 5}, {7, 3, 2, 3}, {0, math.MaxInt64, 14, 5}, {0, 1 << 46, 14, 5}, {-3, math.MaxInt64, 2, 3}}
		ans := c16Probe(qs)
		c04CsiSafe.ok = true
		for _, q := range qs {
			if a := ans[q.key()]; a == "diverges" || a == "" || a == "panic" {
				c04CsiSafe.ok = false
				c04CsiSafe.bad = fmt.Sprintf("csi reg2bins(%d,%d,%d,%d): %s", q.Beg, q.End, q.MinShift, q.Depth, a)
				return
			}
		}
	})
	return c04CsiSafe.ok, c04CsiSafe.bad
}

// unsortedCase: input outside SortedInput (out of order, out of range, decreasing ids); only the
// correspondence (result codes and resulting state) is checked, and that nothing panics.
func (g *c04Gen) unsortedCase(kind string) *c04Case {
	cs := g.sortedCase(kind, false)
	cs.Sorted = false
	rnd := g.rnd
	if len(cs.Recs) == 0 {
		return cs
	}
	max := cs.maxPos()
	for k := rnd.rng(1, 3); k > 0; k-- {
		i := rnd.intn(len(cs.Recs))
		r := &cs.Recs[i]
		switch rnd.intn(7) {
		case 6: // a placed record without a reference id
			if kind == "csi" && r.Placed {
				r.Rid = -1
			}
		case 0: // swap with a neighbour
			j := rnd.intn(len(cs.Recs))
			a, b := cs.Recs[i], cs.Recs[j]
			a.CB, a.CE, b.CB, b.CE = b.CB, b.CE, a.CB, a.CE
			cs.Recs[i], cs.Recs[j] = b, a
		case 1:
			r.End = max + rnd.rng(1, 3)
			if kind == "bai" {
				// End is derived from the CIGAR: keep it consistent
				r.Mapped = true
			}
		case 2:
			if kind != "bai" {
				r.Start = -rnd.rng(1, 3)
			} else {
				r.Start = max + 1
				r.End = max + 2
			}
		case 3:
			if r.Placed && kind != "tbx" && r.Rid > 0 {
				r.Rid -= 1
			}
		case 4:
			if kind != "bai" {
				r.End = r.Start // empty interval
			}
		case 5:
			if kind == "csi" && r.Placed {
				r.Start, r.End = -1, rnd.rng(0, 3)
			}
		}
	}
	cs.normalise()
	return cs
}

// ---------------------------------------------------------------------------

// ---------------------------------------------------------------------------
// real chunk layouts: the records are written with bam.Writer, read back with bam.Reader, and the
// LastChunk values of the reader are what the index is built from.  End-to-end oracle: iterating
// bam.Iterator over the chunks returned for a query yields every overlapping record.

func (g *c04Gen) realBamCase(c *ctx, d *Driver, impl *[]string) {
	r := c.res
	cs := g.sortedCase("bai", false)
	// unplaced records go to the end (coordinate-sorted BAM)
	var placed, unplaced []c04Rec
	for _, rec := range cs.Recs {
		if rec.Placed {
			placed = append(placed, rec)
		} else {
			unplaced = append(unplaced, rec)
		}
	}
	cs.Recs = append(placed, unplaced...)
	bi := newBai()
	var refs []*sam.Reference
	for i := 0; i < 10; i++ {
		ref, _ := sam.NewReference(fmt.Sprintf("ref%d", i), "", "", 1<<30, nil, nil)
		refs = append(refs, ref)
	}
	hdr, err := sam.NewHeader(nil, refs)
	if err != nil {
		r.note("real bam: %v", err)
		return
	}
	bi.refs = refs
	var buf bytes.Buffer
	var werr error
	o := guardTimeout(20*time.Second, func() {
		bw, err := bam.NewWriter(&buf, hdr, 1)
		if err != nil {
			werr = err
			return
		}
		for i, rec := range cs.Recs {
			sr := bi.samRecord(rec)
			sr.Name = fmt.Sprintf("r%d", i)
			n := g.rnd.pick([]int{0, 10, 100, 100, 3000, 30000})
			seq := make([]byte, n)
			for k := range seq {
				seq[k] = "ACGT"[g.rnd.intn(4)]
			}
			sr.Seq = sam.NewSeq(seq)
			if err := bw.Write(sr); err != nil {
				werr = err
				return
			}
		}
		werr = bw.Close()
	})
	if o.timedOut || o.panicked || werr != nil {
		r.note("real bam: writing failed (%v %v %v); case skipped", o.timedOut, o.panicVal, werr)
		return
	}
	data := buf.Bytes()
	br, err := bam.NewReader(bytes.NewReader(data), 1)
	if err != nil {
		r.note("real bam: %v", err)
		return
	}
	blocks := map[int64]bool{}
	for i := range cs.Recs {
		if _, err := br.Read(); err != nil {
			r.note("real bam: read back record %d: %v", i, err)
			return
		}
		ch := br.LastChunk()
		cs.Recs[i].CB, cs.Recs[i].CE = vo(ch.Begin), vo(ch.End)
		blocks[ch.Begin.File] = true
		if (i > 0 && !(cs.Recs[i-1].CE <= cs.Recs[i].CB)) || !(cs.Recs[i].CB < cs.Recs[i].CE) {
			r.fail("bai.real.chunks-not-monotone", fmt.Sprintf("LastChunk of record %d is not behind that of record %d", i, i-1), cs)
			return
		}
	}
	br.Close()
	switch n := len(blocks); {
	case n <= 1:
		r.hist("real.blocks1")
	case n <= 3:
		r.hist("real.blocks2-3")
	default:
		r.hist("real.blocks>3")
	}
	// the ordinary machinery (oracle + model) on the real layout
	cs.runCase(c, d, impl)
	c04Count(r, cs)
	// end to end through bam.Iterator
	run := cs.build(newResult("C04", "x", 0), false)
	if run.panicked {
		return
	}
	br2, err := bam.NewReader(bytes.NewReader(data), 1)
	if err != nil {
		return
	}
	defer br2.Close()
	for _, q := range cs.Queries {
		if q.Beg < 0 || q.Beg >= q.End {
			continue
		}
		want := cs.overlapping(q, run.accepted)
		if len(want) == 0 {
			continue
		}
		chunks, err, p := cs.ask(run.im, q)
		if p || err != nil {
			continue // already judged by the oracle above
		}
		got := map[string]bool{}
		var iterr error
		o := guardTimeout(20*time.Second, func() {
			it, err := bam.NewIterator(br2, chunks)
			if err != nil {
				iterr = err
				return
			}
			for it.Next() {
				got[it.Record().Name] = true
			}
			iterr = it.Close()
		})
		r.hist("real.e2e.query")
		if o.timedOut || o.panicked || iterr != nil {
			one := *cs
			one.Queries = []c04Query{q}
			r.fail("bai.e2e.iterator-error", fmt.Sprintf("iterating the chunks of query (%d,[%d,%d)) failed: %v %v %v", q.Rid, q.Beg, q.End, o.timedOut, o.panicVal, iterr), &one)
			continue
		}
		for _, i := range want {
			if !got[fmt.Sprintf("r%d", i)] {
				one := *cs
				one.Queries = []c04Query{q}
				r.fail("bai.e2e.iterator-miss", fmt.Sprintf("bam.Iterator over the chunks of query (%d,[%d,%d)) does not yield record #%d [%d,%d)", q.Rid, q.Beg, q.End, i, cs.Recs[i].Start, cs.Recs[i].End), &one)
				break
			}
		}
	}
}

// c04MemGuard aborts the process when the heap grows beyond 3 GiB (an unbounded loop in the
// implementation must not take the machine down); the result written names the running case.
var c04Current *c04Case

func c04MemGuard(r *Result) {
	out := ""
	for i, a := range os.Args {
		if a == "-out" && i+1 < len(os.Args) {
			out = os.Args[i+1]
		}
	}
	go func() {
		var ms runtime.MemStats
		for {
			time.Sleep(100 * time.Millisecond)
			runtime.ReadMemStats(&ms)
			if ms.HeapAlloc > 3<<30 {
				r.Failures = append([]Failure{{"memory-blowup", "heap exceeded 3 GiB while running this case", c04Current}}, r.Failures...)
				r.NFailures++
				r.write(out)
				os.Exit(3)
			}
		}
	}()
}

func checkC04(c *ctx) {
	r := c.res
	c04MemGuard(r)
	if ok, bad := c04CsiAnyQuerySafe(); !ok {
		r.fail("csi.chunks.query-does-not-return", "csi.Index.Chunks cannot answer an empty, negative or very large query: "+bad+" (child process killed at its deadline or memory limit)", bad)
	}
	r.Rule = "cases: kind in {bai (bam.Index over sam.Records), csi (12 geometries incl. defaults, v1/v2, aux), tbx (shuffled name pool, header fields)} x " +
		"sorted record sequences over 1-4 references (skipped ids, same starts, placed-unmapped, mate-unmapped, empty reference intervals = CIGAR 5I, unplaced records in between/at the end) with starts at k*2^(minShift+3l)+{-2..2} " +
		"in a small (8 finest bins) / medium (600) / full-range region and lengths to the next tile edge -1/0/+1, one tile +-1, one bin of a random level +-1; synthetic monotone chunk layouts (incl. first chunk at offset 0, gaps); " +
		"queries: single bases at record start/end/last tile, one base before/behind, covering, neighbouring reference, plus a boundary-biased grid, plus queries of any extent (end up to MaxInt64, empty, reversed, negative begin for csi); strategies identity/adjacent/squash/compress(n). " +
		"Every case is judged before write∘read, after it, and after MergeChunks. Real layouts: bai cases are also written with bam.Writer (sequence lengths 0..30000 so that records cross BGZF blocks), read back, indexed with the reader's LastChunk values, judged the same way and end to end with bam.Iterator over the returned chunks. " +
		"A separate unsorted/out-of-range stream is compared with the model only. " +
		"An evaluation is one (case, phase, query) judged by the brute-force oracle; non-trivial = at least one added record overlaps the query; distinct = distinct (kind, records, query, phase)."
	if c.replay != "" {
		var in c04Case
		if err := loadReplay(c.replay, &in); err != nil {
			r.note("replay: %v", err)
			return
		}
		c04Oracle(r, &in, "")
		r.eval("replay", true)
		return
	}
	g := &c04Gen{rnd: c.rnd}
	d := c.drv()
	var impl []string
	nCases := 90
	if c.thorough() {
		nCases = 900 // ~10x quick, with ~2.5x the queries per case: 15-25 min
	}
	kinds := []string{"bai", "csi", "tbx"}
	// fixed corpus first: the shapes of the defects found by earlier runs
	for _, cs := range c04Corpus() {
		cs.runCase(c, d, &impl)
		c04Count(r, cs)
		r.hist("corpus")
	}
	for i := 0; i < nCases; i++ {
		for _, k := range kinds {
			cs := g.sortedCase(k, c.thorough())
			cs.runCase(c, d, &impl)
			c04Count(r, cs)
			if i == 1 {
				r.sample(cs)
			}
		}
	}
	nReal := 12
	if c.thorough() {
		nReal = 120
	}
	for i := 0; i < nReal; i++ {
		g.realBamCase(c, d, &impl)
	}
	// geometries beyond Go's 64-bit position arithmetic (minShift+3*depth >= 64): every Add is rejected
	for _, gm := range [][2]int{{14, 17}, {40, 10}, {1, 21}} {
		cs := &c04Case{Kind: "csi", MinShift: gm[0], Depth: gm[1], Version: 2, Strategy: "adjacent"}
		cs.Recs = []c04Rec{
			{Rid: 0, Start: 100, End: 200, Placed: true, Mapped: true, CB: 100, CE: 150},
			{Rid: -1, Start: -1, End: 0, CB: 150, CE: 200},
			{Rid: 0, Start: 0, End: 1, Placed: true, Mapped: true, CB: 200, CE: 250},
		}
		run := cs.build(newResult("C04", "x", 0), false)
		r.hist("geometry>=64")
		for _, code := range run.codes {
			r.hist(fmt.Sprintf("geometry>=64.add.%c", code))
			if code != 'r' {
				r.note("csi.New(%d,%d): Add returned code %c, expected the range error", gm[0], gm[1], code)
			}
		}
		d.add("c04.codes %s %s %s", cs.Kind, cs.cfgText(), cs.recsText())
		impl = append(impl, string(run.codes))
	}
	for i := 0; i < nCases/3; i++ {
		for _, k := range kinds {
			cs := g.unsortedCase(k)
			run := cs.build(r, true)
			r.hist("unsorted." + k)
			for _, code := range run.codes {
				r.hist(fmt.Sprintf("unsorted.add.%s.%c", k, code))
			}
			d.add("c04.codes %s %s %s", cs.Kind, cs.cfgText(), cs.recsText())
			impl = append(impl, string(run.codes))
			if !run.panicked {
				bs, err := run.im.write()
				if err == nil {
					d.add("c04.add %s %s %s", cs.Kind, cs.cfgText(), cs.recsText())
					impl = append(impl, string(run.codes)+" "+bytesDigest(bs))
				}
			}
		}
	}
	d.compare(r, "C04", impl)
}

// c04Count records evaluations: one per (phase, query) that is a query interval.
func c04Count(r *Result, cs *c04Case) {
	acc := make([]bool, len(cs.Recs))
	for i, rec := range cs.Recs {
		acc[i] = cs.validPos(rec.Start) && cs.validPos(rec.End)
	}
	key := cs.Kind + "|" + cs.cfgText() + "|" + cs.recsText()
	for _, q := range cs.Queries {
		if q.Beg < 0 || q.Beg >= q.End {
			continue
		}
		nt := len(cs.overlapping(q, acc)) > 0
		for _, ph := range []string{"pre", "rt", "merged"} {
			r.eval(fmt.Sprintf("%016x|%d,%d,%d|%s", fnv64([]byte(key)), q.Rid, q.Beg, q.End, ph), nt)
		}
	}
}

// c04Corpus: minimal shapes of the defects reproduced on the unchanged tree (DESIGN §6 #2, #3, #4, #30).
func c04Corpus() []*c04Case {
	ch := func(i int) (int64, int64) { return int64(100 + 50*i), int64(150 + 50*i) }
	mk := func(kind string, recs [][3]int, qs []c04Query) *c04Case {
		cs := &c04Case{Kind: kind, Sorted: true, Strategy: "adjacent", Queries: qs, Version: 2}
		if kind == "tbx" {
			cs.Names = []string{"chr1", "chr2"}
		}
		for i, x := range recs {
			b, e := ch(i)
			cs.Recs = append(cs.Recs, c04Rec{Rid: x[0], Start: x[1], End: x[2], Placed: true, Mapped: true, CB: b, CE: e})
		}
		return cs
	}
	nested := mk("bai", [][3]int{{0, 100, 40000}, {0, 20000, 20100}, {0, 30000, 70000}}, []c04Query{{0, 20050, 35000}, {0, 30000, 30001}})
	nested.Strategy, nested.QStrategy = "squash", "squash" // seeded C04-7: nested chunk lists at query time
	nested2 := mk("bai", [][3]int{{0, 100, 40000}, {0, 20000, 20100}, {0, 30000, 70000}}, []c04Query{{0, 20050, 35000}})
	nested2.Strategy, nested2.QStrategy = "compress:1073741824", "squash"
	gap := mk("bai", [][3]int{{0, 2*16384 + 10, 4*16384 - 10}, {0, 5*16384 + 10, 7*16384 - 10}}, []c04Query{{0, 4 * 16384, 4*16384 + 100}, {0, 5*16384 + 20, 5*16384 + 30}})
	gap.Split = 1 // fixes/C15-3: Add after WriteIndex into an existing bin, leaving an empty tile
	gapT := mk("tbx", [][3]int{{0, 2*16384 + 10, 4*16384 - 10}, {0, 5*16384 + 10, 7*16384 - 10}}, []c04Query{{0, 4 * 16384, 4*16384 + 100}})
	gapT.Split = 1
	return []*c04Case{
		nested, nested2, gap, gapT,
		// #4: second record ends in the tile after the last recorded one and starts before it
		mk("bai", [][3]int{{0, 100, 200}, {0, 16000, 16500}}, []c04Query{{0, 16400, 16450}, {0, 100, 150}}),
		// #4: last tile of a spanning record never recorded
		mk("bai", [][3]int{{0, 100, 40000}}, []c04Query{{0, 39000, 39500}, {0, 32768, 32769}}),
		mk("tbx", [][3]int{{0, 100, 200}, {0, 16000, 16500}, {1, 5, 9}}, []c04Query{{0, 16400, 16450}, {1, 0, 10}}),
		// #2: straddling record under CSI
		mk("csi", [][3]int{{0, 16000, 16500}}, []c04Query{{0, 16400, 16450}, {0, 16000, 16001}}),
	}
}
