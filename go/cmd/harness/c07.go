package main

// C07 — header serialisation round trips and identity invariants under edits.
//
// A case is a HISTORY: a list of operations over a small world of headers and of reference / read-group /
// program objects (a "pool" of Go pointers the history can come back to: stale pointers of removed or
// replaced items included).  The implementation runs the history on the real sam package; after every
// operation the ORACLE judges the implementation directly (ids = indices, names unique, name tables probed
// through the public API, text and binary round trips, merge links) and an OBSERVATION string is taken
// (marshalled text and binary of every live header, (ID,Name) lists of every header and of the pools).
// The Lean model runs the same history (driver command c07.run) and must produce the same observations.

import (
	"bytes"
	"encoding/hex"
	"fmt"
	"net/url"
	"sort"
	"strings"
	"time"

	"github.com/biogo/hts/sam"
)

func init() { checks["C07"] = checkC07 }

type c07Ref struct {
	Name  string      `json:"n"`
	Len   int         `json:"l"`
	MD5   string      `json:"m5,omitempty"` // 32 hex digits or ""
	AS    string      `json:"as,omitempty"`
	SP    string      `json:"sp,omitempty"`
	UR    string      `json:"ur,omitempty"` // "" = no URI
	Other [][2]string `json:"o,omitempty"`
}

type c07RG struct {
	Name  string      `json:"n"`
	F     [10]string  `json:"f"`            // CN DS FO KS LB PG PL PU SM + DT at index 9 (canonical text or "")
	PI    int         `json:"pi,omitempty"` // insert size
	Nano  int         `json:"ns,omitempty"` // sub-second part added on the implementation side only
	Other [][2]string `json:"o,omitempty"`
}

type c07PG struct {
	UID   string      `json:"n"`
	F     [4]string   `json:"f"` // PN CL PP VN
	Other [][2]string `json:"o,omitempty"`
}

type c07Op struct {
	K   string  `json:"k"`
	H   int     `json:"h,omitempty"`
	P   int     `json:"p,omitempty"`
	Hs  []int   `json:"hs,omitempty"`
	S   string  `json:"s,omitempty"`
	V   string  `json:"v,omitempty"`
	I   int     `json:"i,omitempty"`
	J   int     `json:"j,omitempty"`
	Ref *c07Ref `json:"ref,omitempty"`
	RG  *c07RG  `json:"rg,omitempty"`
	PG  *c07PG  `json:"pg,omitempty"`
}

type c07Input struct {
	Ops []c07Op `json:"ops"`
}

const c07DateLayout = "2006-01-02T15:04:05-0700"

// ---------------------------------------------------------------------------------------------
// encoding of a history for the model driver

func c07Others(o [][2]string) string {
	if len(o) == 0 {
		return "-"
	}
	p := make([]string, len(o))
	for i, kv := range o {
		p[i] = hexs([]byte(kv[0])) + ":" + hexs([]byte(kv[1]))
	}
	return strings.Join(p, "+")
}

func c07Ints(xs []int) string {
	if len(xs) == 0 {
		return "-"
	}
	p := make([]string, len(xs))
	for i, x := range xs {
		p[i] = fmt.Sprint(x)
	}
	return strings.Join(p, ".")
}

func hx(s string) string { return hexs([]byte(s)) }

func (o c07Op) enc() string {
	switch o.K {
	case "h0":
		return "h0"
	case "hd":
		return fmt.Sprintf("hd,%s,%s", hx(o.S), c07Ints(o.Hs))
	case "pa", "de":
		return fmt.Sprintf("%s,%s", o.K, hx(o.S))
	case "um", "co":
		return fmt.Sprintf("%s,%d,%s", o.K, o.H, hx(o.S))
	case "sh":
		return fmt.Sprintf("sh,%d,%s,%d,%d", o.H, hx(o.S), o.I, o.J)
	case "hs":
		return fmt.Sprintf("hs,%d,%s,%s", o.H, hx(o.S), hx(o.V))
	case "nr":
		r := o.Ref
		return fmt.Sprintf("nr,%s,%d,%s,%s,%s,%s,%s", hx(r.Name), r.Len, hexOrDash(r.MD5), hx(r.AS), hx(r.SP), hx(r.UR), c07Others(r.Other))
	case "ng":
		g := o.RG
		f := make([]string, len(g.F))
		for i, s := range g.F {
			f[i] = hx(s)
		}
		return fmt.Sprintf("ng,%s,%s,%d,%s", hx(g.Name), strings.Join(f, ","), g.PI, c07Others(g.Other))
	case "np":
		p := o.PG
		f := make([]string, len(p.F))
		for i, s := range p.F {
			f[i] = hx(s)
		}
		return fmt.Sprintf("np,%s,%s,%s", hx(p.UID), strings.Join(f, ","), c07Others(p.Other))
	case "ar", "rr", "ag", "rg", "ap", "rp":
		return fmt.Sprintf("%s,%d,%d", o.K, o.H, o.P)
	case "sr", "sg", "sp":
		return fmt.Sprintf("%s,%d,%s", o.K, o.P, hx(o.S))
	case "xr": // Reference.Set(SN, S): "*" means the empty name, otherwise SetName (fix C07-12)
		n := o.S
		if n == "*" {
			n = ""
		}
		return fmt.Sprintf("sr,%d,%s", o.P, hx(n))
	case "xg": // ReadGroup.Set(ID, S) = SetName
		return fmt.Sprintf("sg,%d,%s", o.P, hx(o.S))
	case "gr", "gg", "gp":
		return fmt.Sprintf("%s,%d,%d", o.K, o.H, o.I)
	case "cr", "cg", "cp":
		return fmt.Sprintf("%s,%d", o.K, o.P)
	case "cl":
		return fmt.Sprintf("cl,%d", o.H)
	case "mg":
		return fmt.Sprintf("mg,%s", c07Ints(o.Hs))
	}
	return "bad"
}

func hexOrDash(h string) string {
	if h == "" {
		return "-"
	}
	return h
}

func c07Enc(ops []c07Op) string {
	p := make([]string, len(ops))
	for i, o := range ops {
		p[i] = o.enc()
	}
	return strings.Join(p, ";")
}

// ---------------------------------------------------------------------------------------------
// implementation world

type c07World struct {
	hs   []*sam.Header
	refs []*sam.Reference
	rgs  []*sam.ReadGroup
	pgs  []*sam.Program
}

func (w *c07World) hdr(i int) *sam.Header {
	if i < 0 || i >= len(w.hs) {
		return nil
	}
	return w.hs[i]
}
func (w *c07World) ref(i int) *sam.Reference {
	if i < 0 || i >= len(w.refs) {
		return nil
	}
	return w.refs[i]
}
func (w *c07World) rg(i int) *sam.ReadGroup {
	if i < 0 || i >= len(w.rgs) {
		return nil
	}
	return w.rgs[i]
}
func (w *c07World) pg(i int) *sam.Program {
	if i < 0 || i >= len(w.pgs) {
		return nil
	}
	return w.pgs[i]
}

func c07MkRef(s *c07Ref) *sam.Reference {
	var md5 []byte
	if s.MD5 != "" {
		md5, _ = hex.DecodeString(s.MD5)
	}
	var u *url.URL
	if s.UR != "" {
		var err error
		u, err = url.Parse(s.UR)
		if err != nil {
			panic("c07: generator produced an unparsable URI " + s.UR)
		}
	}
	r, err := sam.NewReference(s.Name, s.AS, s.SP, s.Len, md5, u)
	if err != nil {
		panic("c07: generator produced an invalid reference: " + err.Error())
	}
	for _, kv := range s.Other {
		r.Set(sam.NewTag(kv[0]), kv[1])
	}
	return r
}

func c07MkRG(s *c07RG) *sam.ReadGroup {
	var t time.Time
	if s.F[9] != "" {
		var err error
		t, err = time.Parse(c07DateLayout, s.F[9])
		if err != nil {
			panic("c07: generator produced a bad date " + s.F[9])
		}
		t = t.Add(time.Duration(s.Nano))
	}
	// NewReadGroup(name, center, desc, lib, prog, plat, unit, sample, flow, key, date, size)
	g, err := sam.NewReadGroup(s.Name, s.F[0], s.F[1], s.F[4], s.F[5], s.F[6], s.F[7], s.F[8], s.F[2], s.F[3], t, s.PI)
	if err != nil {
		panic("c07: generator produced an invalid read group")
	}
	for _, kv := range s.Other {
		g.Set(sam.NewTag(kv[0]), kv[1])
	}
	return g
}

func c07MkPG(s *c07PG) *sam.Program {
	// NewProgram(uid, name, command, prev, v)
	p := sam.NewProgram(s.UID, s.F[0], s.F[1], s.F[2], s.F[3])
	for _, kv := range s.Other {
		p.Set(sam.NewTag(kv[0]), kv[1])
	}
	return p
}

type c07Step struct {
	res    string // ok | err | panic | skip
	o      callOutcome
	links  [][]*sam.Reference
	merged *sam.Header
	srcs   []*sam.Header
	preLen map[string]int // um/hd: name -> length of the references present (or given) before the call
	target *sam.Header    // um/hd: the header parsed into
}

// apply runs one operation on the implementation.  Every operation allocates a fixed number of handles
// (whatever its outcome), so that handles in the model and here stay aligned.
func (w *c07World) apply(op c07Op) (st c07Step) {
	var err error
	skip := false
	st.o = guard(func() {
		switch op.K {
		case "h0":
			h, e := sam.NewHeader(nil, nil)
			err = e
			w.hs = append(w.hs, h)
		case "hd":
			var rs []*sam.Reference
			for _, p := range op.Hs {
				r := w.ref(p)
				if r == nil {
					skip = true
				}
				rs = append(rs, r)
			}
			if skip {
				w.hs = append(w.hs, nil)
				return
			}
			w.hs = append(w.hs, nil)
			st.preLen = map[string]int{}
			for _, r := range rs {
				st.preLen[r.Name()] = r.Len()
			}
			h, e := sam.NewHeader([]byte(op.S), rs)
			err = e
			if e == nil {
				w.hs[len(w.hs)-1] = h
				st.target = h
			}
		case "pa":
			h, _ := sam.NewHeader(nil, nil)
			w.hs = append(w.hs, h)
			err = h.UnmarshalText([]byte(op.S))
		case "de":
			h, _ := sam.NewHeader(nil, nil)
			w.hs = append(w.hs, h)
			err = h.UnmarshalBinary([]byte(op.S))
		case "um":
			h := w.hdr(op.H)
			if h == nil {
				skip = true
				return
			}
			st.preLen, st.target = map[string]int{}, h
			for _, r := range h.Refs() {
				st.preLen[r.Name()] = r.Len()
			}
			err = h.UnmarshalText([]byte(op.S))
		case "co":
			h := w.hdr(op.H)
			if h == nil {
				skip = true
				return
			}
			h.Comments = append(h.Comments, op.S)
		case "sh":
			h := w.hdr(op.H)
			if h == nil {
				skip = true
				return
			}
			h.Version = op.S
			h.SortOrder = sam.SortOrder(op.I)
			h.GroupOrder = sam.GroupOrder(op.J)
		case "hs":
			h := w.hdr(op.H)
			if h == nil || len(op.S) != 2 {
				skip = true
				return
			}
			err = h.Set(sam.NewTag(op.S), op.V)
		case "nr":
			w.refs = append(w.refs, c07MkRef(op.Ref))
		case "ng":
			w.rgs = append(w.rgs, c07MkRG(op.RG))
		case "np":
			w.pgs = append(w.pgs, c07MkPG(op.PG))
		case "ar", "rr":
			h, r := w.hdr(op.H), w.ref(op.P)
			if h == nil || r == nil {
				skip = true
				return
			}
			if op.K == "ar" {
				err = h.AddReference(r)
			} else {
				err = h.RemoveReference(r)
			}
		case "ag", "rg":
			h, g := w.hdr(op.H), w.rg(op.P)
			if h == nil || g == nil {
				skip = true
				return
			}
			if op.K == "ag" {
				err = h.AddReadGroup(g)
			} else {
				err = h.RemoveReadGroup(g)
			}
		case "ap", "rp":
			h, p := w.hdr(op.H), w.pg(op.P)
			if h == nil || p == nil {
				skip = true
				return
			}
			if op.K == "ap" {
				err = h.AddProgram(p)
			} else {
				err = h.RemoveProgram(p)
			}
		case "sr", "xr":
			r := w.ref(op.P)
			if r == nil {
				skip = true
				return
			}
			if op.K == "xr" {
				err = r.Set(sam.NewTag("SN"), op.S)
			} else {
				err = r.SetName(op.S)
			}
		case "sg", "xg":
			g := w.rg(op.P)
			if g == nil {
				skip = true
				return
			}
			if op.K == "xg" {
				err = g.Set(sam.NewTag("ID"), op.S)
			} else {
				err = g.SetName(op.S)
			}
		case "sp":
			p := w.pg(op.P)
			if p == nil {
				skip = true
				return
			}
			err = p.SetUID(op.S)
		case "gr":
			w.refs = append(w.refs, nil)
			if h := w.hdr(op.H); h != nil && op.I >= 0 && op.I < len(h.Refs()) {
				w.refs[len(w.refs)-1] = h.Refs()[op.I]
			} else {
				skip = true
			}
		case "gg":
			w.rgs = append(w.rgs, nil)
			if h := w.hdr(op.H); h != nil && op.I >= 0 && op.I < len(h.RGs()) {
				w.rgs[len(w.rgs)-1] = h.RGs()[op.I]
			} else {
				skip = true
			}
		case "gp":
			w.pgs = append(w.pgs, nil)
			if h := w.hdr(op.H); h != nil && op.I >= 0 && op.I < len(h.Progs()) {
				w.pgs[len(w.pgs)-1] = h.Progs()[op.I]
			} else {
				skip = true
			}
		case "cr":
			w.refs = append(w.refs, nil)
			if r := w.ref(op.P); r != nil {
				w.refs[len(w.refs)-1] = r.Clone()
			} else {
				skip = true
			}
		case "cg":
			w.rgs = append(w.rgs, nil)
			if g := w.rg(op.P); g != nil {
				w.rgs[len(w.rgs)-1] = g.Clone()
			} else {
				skip = true
			}
		case "cp":
			w.pgs = append(w.pgs, nil)
			if p := w.pg(op.P); p != nil {
				w.pgs[len(w.pgs)-1] = p.Clone()
			} else {
				skip = true
			}
		case "cl":
			w.hs = append(w.hs, nil)
			if h := w.hdr(op.H); h != nil {
				w.hs[len(w.hs)-1] = h.Clone()
			} else {
				skip = true
			}
		case "mg":
			w.hs = append(w.hs, nil)
			var src []*sam.Header
			for _, i := range op.Hs {
				h := w.hdr(i)
				if h == nil {
					skip = true
					return
				}
				src = append(src, h)
			}
			if len(src) < 2 {
				skip = true
				return
			}
			h, links, e := sam.MergeHeaders(src)
			err = e
			if e == nil {
				w.hs[len(w.hs)-1] = h
				st.links, st.merged, st.srcs = links, h, src
			}
		default:
			skip = true
		}
	})
	switch {
	case st.o.panicked:
		st.res = "panic"
	case skip:
		st.res = "skip"
	case err != nil:
		st.res = "err"
	default:
		st.res = "ok"
	}
	return st
}

// ---------------------------------------------------------------------------------------------
// observation (compared with the model)

// fnv64 (FNV-1a 64) is defined in c04.go.

func c07Marshal(h *sam.Header) (text, bin []byte, panicked bool) {
	o := guard(func() {
		text, _ = h.MarshalText()
		bin, _ = h.MarshalBinary()
	})
	return text, bin, o.panicked
}

// obs renders the observation after an operation; verbose keeps text/binary as hex, otherwise their hashes.
func (w *c07World) obs(st c07Step, verbose bool) string {
	var b strings.Builder
	b.WriteString(st.res)
	bytesOut := func(x []byte) string {
		if verbose {
			return hexs(x)
		}
		return fmt.Sprintf("%016x", fnv64(x))
	}
	for k, h := range w.hs {
		if h == nil {
			fmt.Fprintf(&b, "|H%d=dead", k)
			continue
		}
		t, bin, p := c07Marshal(h)
		if p {
			fmt.Fprintf(&b, "|H%d=panic", k)
			continue
		}
		fmt.Fprintf(&b, "|H%d=T:%s,B:%s,R:", k, bytesOut(t), bytesOut(bin))
		for _, r := range h.Refs() {
			fmt.Fprintf(&b, "%d.%s/", r.ID(), hx(r.Name()))
		}
		b.WriteString(",G:")
		for _, r := range h.RGs() {
			fmt.Fprintf(&b, "%d.%s/", r.ID(), hx(r.Name()))
		}
		b.WriteString(",P:")
		for _, r := range h.Progs() {
			fmt.Fprintf(&b, "%d.%s/", r.ID(), hx(r.UID()))
		}
	}
	b.WriteString("|RP:")
	for _, r := range w.refs {
		if r == nil {
			b.WriteString("nil/")
			continue
		}
		fmt.Fprintf(&b, "%d.%s/", r.ID(), hx(r.Name()))
	}
	b.WriteString("|GP:")
	for _, r := range w.rgs {
		if r == nil {
			b.WriteString("nil/")
			continue
		}
		fmt.Fprintf(&b, "%d.%s/", r.ID(), hx(r.Name()))
	}
	b.WriteString("|PP:")
	for _, r := range w.pgs {
		if r == nil {
			b.WriteString("nil/")
			continue
		}
		fmt.Fprintf(&b, "%d.%s/", r.ID(), hx(r.UID()))
	}
	if st.merged != nil {
		b.WriteString("|L:")
		for i, l := range st.links {
			for j, r := range l {
				owned := 0
				if r != nil && r.ID() >= 0 && r.ID() < len(st.merged.Refs()) && st.merged.Refs()[r.ID()] == r {
					owned = 1
				}
				fmt.Fprintf(&b, "%d.%d.%d.%s.%d/", i, j, r.ID(), hx(r.Name()), owned)
			}
		}
	}
	return b.String()
}

// ---------------------------------------------------------------------------------------------
// oracle (implementation judged directly, no model involved)

type c07Fail struct{ sig, what string }

// soft failures are recorded classes that do not end the history (the header stays usable)
func (f *c07Fail) soft() bool { return strings.HasPrefix(f.sig, "c07.rt.text.unrepresentable") }

var c07RefNames = []string{"chr1", "chr2", "a", "b", "X", "MT"}
var c07RGNames = []string{"g1", "g2", "g3", "lib", "x", "rg é"}
var c07PGNames = []string{"bwa", "sam", "p1", "p2", "gatk", "x"}

func c07CleanStr(s string) bool { return !strings.ContainsAny(s, "\t\n\r") }

// headerClean says whether every tag and value held by the header is free of tab / newline / carriage
// return (the precondition of the text round trip; comments may hold tabs).
func c07HeaderClean(h *sam.Header) bool {
	ok := true
	chk := func(t sam.Tag, v string) {
		if !c07CleanStr(v) || !c07CleanStr(t.String()) {
			ok = false
		}
	}
	h.Tags(chk)
	for _, r := range h.Refs() {
		r.Tags(chk)
	}
	for _, r := range h.RGs() {
		r.Tags(chk)
	}
	for _, r := range h.Progs() {
		r.Tags(chk)
	}
	for _, c := range h.Comments {
		if strings.ContainsAny(c, "\n\r") {
			ok = false
		}
	}
	return ok
}

// values lists everything a header exposes through its getters, one line per item.
func c07Values(h *sam.Header) []string {
	var out []string
	line := func(kind string, id int, tags func(func(sam.Tag, string))) {
		var b strings.Builder
		fmt.Fprintf(&b, "%s#%d", kind, id)
		tags(func(t sam.Tag, v string) { fmt.Fprintf(&b, " %s=%q", t, v) })
		out = append(out, b.String())
	}
	if h.Version != "" {
		// the enum VALUES, not their String(): GroupNone and GroupUnspecified both print "none"
		out = append(out, fmt.Sprintf("VN %q", h.Version), fmt.Sprintf("SO %d", int(h.SortOrder)), fmt.Sprintf("GO %d", int(h.GroupOrder)))
		var b strings.Builder
		h.Tags(func(t sam.Tag, v string) {
			if s := t.String(); s != "VN" && s != "SO" && s != "GO" {
				fmt.Fprintf(&b, " %s=%q", t, v)
			}
		})
		out = append(out, "HDother"+b.String())
	}
	for _, r := range h.Refs() {
		line("SQ", r.ID(), r.Tags)
	}
	for _, r := range h.RGs() {
		line("RG", r.ID(), r.Tags)
	}
	for _, r := range h.Progs() {
		line("PG", r.ID(), r.Tags)
	}
	for _, c := range h.Comments {
		out = append(out, fmt.Sprintf("CO %q", c))
	}
	return out
}

// c07ValueDiff: the first exposed value that differs, and its class (vn, so, go, hdother, sq, rg, pg, co, count)
func c07ValueDiff(a, b []string) (class, x, y string) {
	for i := 0; i < len(a) || i < len(b); i++ {
		if i >= len(a) || i >= len(b) {
			return "count", fmt.Sprint(len(a), " values"), fmt.Sprint(len(b), " values")
		}
		if a[i] != b[i] {
			k := strings.ToLower(a[i])
			if j := strings.IndexAny(k, " #"); j > 0 {
				k = k[:j]
			}
			return k, a[i], b[i]
		}
	}
	return "none", "", ""
}

func c07FirstDiffLine(a, b []byte) (string, string) {
	la, lb := strings.Split(string(a), "\n"), strings.Split(string(b), "\n")
	for i := 0; i < len(la) || i < len(lb); i++ {
		x, y := "", ""
		if i < len(la) {
			x = la[i]
		}
		if i < len(lb) {
			y = lb[i]
		}
		if x != y {
			return x, y
		}
	}
	return "", ""
}

// classify a text difference: which record type, and for @SQ whether only the UR field differs.
func c07DiffClass(x, y string) string {
	typ := "eof"
	if len(x) >= 3 {
		typ = strings.ToLower(x[1:3])
	}
	if typ == "sq" {
		fx, fy := strings.Split(x, "\t"), strings.Split(y, "\t")
		if len(fx) == len(fy) {
			only := true
			for i := range fx {
				if fx[i] != fy[i] && !(strings.HasPrefix(fx[i], "UR:") && strings.HasPrefix(fy[i], "UR:")) {
					only = false
				}
			}
			if only {
				return "sq.ur-rewritten"
			}
		} else if len(fy) < len(fx) {
			return "sq.fields-lost"
		}
	}
	return typ
}

func (w *c07World) checkHeader(k int, h *sam.Header) (fs []*c07Fail) {
	tag := fmt.Sprintf("header %d: ", k)
	if f := w.checkIdx(tag, h); f != nil {
		fs = append(fs, f)
	}
	if f := c07RoundTrips(tag, h); f != nil {
		fs = append(fs, f)
	}
	return fs
}

// checkIdx: ids = indices, names unique, then the name-table probes.
func (w *c07World) checkIdx(tag string, h *sam.Header) *c07Fail {
	// ids = indices, names unique
	names := map[string]int{}
	for i, r := range h.Refs() {
		if r == nil || r.ID() != i {
			return &c07Fail{"c07.idx.ref", tag + fmt.Sprintf("reference at index %d has ID %d", i, r.ID())}
		}
		if j, dup := names[r.Name()]; dup {
			return &c07Fail{"c07.dupname.ref", tag + fmt.Sprintf("references %d and %d are both named %q", j, i, r.Name())}
		}
		names[r.Name()] = i
	}
	gnames := map[string]int{}
	for i, r := range h.RGs() {
		if r == nil || r.ID() != i {
			return &c07Fail{"c07.idx.rg", tag + fmt.Sprintf("read group at index %d has ID %d", i, r.ID())}
		}
		if j, dup := gnames[r.Name()]; dup {
			return &c07Fail{"c07.dupname.rg", tag + fmt.Sprintf("read groups %d and %d are both named %q", j, i, r.Name())}
		}
		gnames[r.Name()] = i
	}
	pnames := map[string]int{}
	for i, r := range h.Progs() {
		if r == nil || r.ID() != i {
			return &c07Fail{"c07.idx.pg", tag + fmt.Sprintf("program at index %d has ID %d", i, r.ID())}
		}
		if j, dup := pnames[r.UID()]; dup {
			return &c07Fail{"c07.dupname.pg", tag + fmt.Sprintf("programs %d and %d both have uid %q", j, i, r.UID())}
		}
		pnames[r.UID()] = i
	}
	return w.probeTables(tag, h, names, gnames, pnames)
}

// probeTables checks the three name tables through the public API only.
//   - every listed name is known, at its index: adding a bare item of that name to a CLONE must not grow the
//     list (references: returns nil; read groups/programs: duplicate error), and renaming the listed item to
//     its own name must succeed;
//   - no other name is known: adding an item with an unused name to a clone appends it with the next id;
//   - every listed item is owned by this header: renaming it to a fresh name is seen by this header's table
//     (then it is renamed back).
func (w *c07World) probeTables(tag string, h *sam.Header, names, gnames, pnames map[string]int) *c07Fail {
	var f *c07Fail
	o := guard(func() {
		// references
		for i, r := range h.Refs() {
			c := h.Clone()
			n := len(c.Refs())
			b, _ := sam.NewReference(r.Name(), "", "", r.Len(), nil, nil)
			if b == nil { // empty name: cannot build a probe through the constructor
				continue
			}
			err := c.AddReference(b)
			if err != nil || len(c.Refs()) != n {
				f = &c07Fail{"c07.table.ref", tag + fmt.Sprintf("name table does not map %q to index %d: adding a bare reference of that name and length to a clone gave err=%v and %d -> %d references", r.Name(), i, err, n, len(c.Refs()))}
				return
			}
			if err := r.SetName(r.Name()); err != nil {
				f = &c07Fail{"c07.table.ref", tag + fmt.Sprintf("renaming reference %d (%q) to its own name: %v", i, r.Name(), err)}
				return
			}
		}
		for _, nm := range append([]string{"fresh-name"}, c07RefNames...) {
			if _, used := names[nm]; used {
				continue
			}
			c := h.Clone()
			n := len(c.Refs())
			b, _ := sam.NewReference(nm, "", "", 7, nil, nil)
			err := c.AddReference(b)
			if err != nil || len(c.Refs()) != n+1 || b.ID() != n {
				f = &c07Fail{"c07.table.ref.stale", tag + fmt.Sprintf("unused name %q is known to the name table: adding it to a clone gave err=%v, %d -> %d references, id %d", nm, err, n, len(c.Refs()), b.ID())}
				return
			}
		}
		for i, r := range h.Refs() {
			old := r.Name()
			if err := r.SetName("fresh-name"); err != nil {
				f = &c07Fail{"c07.owner.ref", tag + fmt.Sprintf("renaming reference %d to an unused name: %v", i, err)}
				return
			}
			c := h.Clone()
			n := len(c.Refs())
			b, _ := sam.NewReference("fresh-name", "", "", r.Len(), nil, nil)
			err := c.AddReference(b)
			bad := err != nil || len(c.Refs()) != n
			if e2 := r.SetName(old); e2 != nil && !bad {
				f = &c07Fail{"c07.owner.ref", tag + fmt.Sprintf("renaming reference %d back to %q: %v", i, old, e2)}
				return
			}
			if bad {
				f = &c07Fail{"c07.owner.ref", tag + fmt.Sprintf("listed reference %d (%q) is not owned by this header: after SetName the header's name table does not know the new name (err=%v, %d -> %d)", i, old, err, n, len(c.Refs()))}
				return
			}
		}
		// read groups
		for i, r := range h.RGs() {
			c := h.Clone()
			n := len(c.RGs())
			b, _ := sam.NewReadGroup(r.Name(), "", "", "", "", "", "", "", "", "", time.Time{}, 0)
			err := c.AddReadGroup(b)
			if err == nil || len(c.RGs()) != n {
				f = &c07Fail{"c07.table.rg", tag + fmt.Sprintf("name table does not know read group %q (index %d): adding one of that name to a clone gave err=%v, %d -> %d", r.Name(), i, err, n, len(c.RGs()))}
				return
			}
			if err := r.SetName(r.Name()); err != nil {
				f = &c07Fail{"c07.table.rg", tag + fmt.Sprintf("renaming read group %d (%q) to its own name: %v", i, r.Name(), err)}
				return
			}
		}
		for _, nm := range append([]string{"fresh-name"}, c07RGNames...) {
			if _, used := gnames[nm]; used {
				continue
			}
			c := h.Clone()
			n := len(c.RGs())
			b, _ := sam.NewReadGroup(nm, "", "", "", "", "", "", "", "", "", time.Time{}, 0)
			err := c.AddReadGroup(b)
			if err != nil || len(c.RGs()) != n+1 || b.ID() != n {
				f = &c07Fail{"c07.table.rg.stale", tag + fmt.Sprintf("unused read group name %q is known to the name table: err=%v, %d -> %d, id %d", nm, err, n, len(c.RGs()), b.ID())}
				return
			}
		}
		for i, r := range h.RGs() {
			old := r.Name()
			if err := r.SetName("fresh-name"); err != nil {
				f = &c07Fail{"c07.owner.rg", tag + fmt.Sprintf("renaming read group %d to an unused name: %v", i, err)}
				return
			}
			c := h.Clone()
			n := len(c.RGs())
			b, _ := sam.NewReadGroup("fresh-name", "", "", "", "", "", "", "", "", "", time.Time{}, 0)
			err := c.AddReadGroup(b)
			bad := err == nil || len(c.RGs()) != n
			if e2 := r.SetName(old); e2 != nil && !bad {
				f = &c07Fail{"c07.owner.rg", tag + fmt.Sprintf("renaming read group %d back to %q: %v", i, old, e2)}
				return
			}
			if bad {
				f = &c07Fail{"c07.owner.rg", tag + fmt.Sprintf("listed read group %d (%q) is not owned by this header (err=%v, %d -> %d)", i, old, err, n, len(c.RGs()))}
				return
			}
		}
		// programs
		for i, r := range h.Progs() {
			c := h.Clone()
			n := len(c.Progs())
			err := c.AddProgram(sam.NewProgram(r.UID(), "", "", "", ""))
			if err == nil || len(c.Progs()) != n {
				f = &c07Fail{"c07.table.pg", tag + fmt.Sprintf("name table does not know program %q (index %d): err=%v, %d -> %d", r.UID(), i, err, n, len(c.Progs()))}
				return
			}
			if err := r.SetUID(r.UID()); err != nil {
				f = &c07Fail{"c07.table.pg", tag + fmt.Sprintf("renaming program %d (%q) to its own uid: %v", i, r.UID(), err)}
				return
			}
		}
		for _, nm := range append([]string{"fresh-name"}, c07PGNames...) {
			if _, used := pnames[nm]; used {
				continue
			}
			c := h.Clone()
			n := len(c.Progs())
			b := sam.NewProgram(nm, "", "", "", "")
			err := c.AddProgram(b)
			if err != nil || len(c.Progs()) != n+1 || b.ID() != n {
				f = &c07Fail{"c07.table.pg.stale", tag + fmt.Sprintf("unused program uid %q is known to the name table: err=%v, %d -> %d, id %d", nm, err, n, len(c.Progs()), b.ID())}
				return
			}
		}
		for i, r := range h.Progs() {
			old := r.UID()
			if err := r.SetUID("fresh-name"); err != nil {
				f = &c07Fail{"c07.owner.pg", tag + fmt.Sprintf("renaming program %d to an unused uid: %v", i, err)}
				return
			}
			c := h.Clone()
			n := len(c.Progs())
			err := c.AddProgram(sam.NewProgram("fresh-name", "", "", "", ""))
			bad := err == nil || len(c.Progs()) != n
			if e2 := r.SetUID(old); e2 != nil && !bad {
				f = &c07Fail{"c07.owner.pg", tag + fmt.Sprintf("renaming program %d back to %q: %v", i, old, e2)}
				return
			}
			if bad {
				f = &c07Fail{"c07.owner.pg", tag + fmt.Sprintf("listed program %d (%q) is not owned by this header (err=%v, %d -> %d)", i, old, err, n, len(c.Progs()))}
				return
			}
		}
	})
	if o.panicked {
		return &c07Fail{"c07.table.panic:" + topRepoFrame(o.stack), tag + "probing the name tables through the API panicked: " + o.panicVal}
	}
	return f
}

// c07Unrepresentable: a header that holds a TAB / LF / CR in a tag or value (through SetName, NewReference, a
// comment, or a line ending in "\r\r\n") has no faithful text form.  The text round trip is still evaluated; when
// it is not stable the failure is recorded under its own signature (a listed finding) and the history goes on.
func c07Unrepresentable(tag string, h *sam.Header) *c07Fail {
	cls := "cr"
	chk := func(t sam.Tag, v string) {
		if strings.ContainsAny(v, "\t\n") || strings.ContainsAny(t.String(), "\t\n\r") || strings.Contains(strings.TrimRight(v, "\r"), "\r") {
			cls = "tab"
		}
	}
	h.Tags(chk)
	for _, r := range h.Refs() {
		r.Tags(chk)
	}
	for _, r := range h.RGs() {
		r.Tags(chk)
	}
	for _, r := range h.Progs() {
		r.Tags(chk)
	}
	for _, c := range h.Comments {
		if strings.Contains(c, "\n") || strings.Contains(strings.TrimRight(c, "\r"), "\r") {
			cls = "tab"
		}
	}
	t1, _, p := c07Marshal(h)
	if p {
		return &c07Fail{sig: "c07.marshal.panic", what: tag + "MarshalText/MarshalBinary panicked"}
	}
	var t2 []byte
	var err error
	o := guard(func() {
		h2 := &sam.Header{}
		if err = h2.UnmarshalText(t1); err == nil {
			t2, _ = h2.MarshalText()
		}
	})
	if o.panicked {
		return &c07Fail{sig: "c07.rt.text.panic:" + topRepoFrame(o.stack), what: tag + "parsing the header's own text panicked: " + o.panicVal}
	}
	if err == nil && bytes.Equal(t1, t2) {
		return nil
	}
	x, y := c07FirstDiffLine(t1, t2)
	return &c07Fail{sig: "c07.rt.text.unrepresentable." + cls,
		what: tag + fmt.Sprintf("a value holding TAB/LF/CR has no faithful text form: %q -> %q (err=%v)", x, y, err)}
}

// c07RoundTrips: marshal ∘ parse ∘ marshal = marshal for text and binary, and equal exposed values.
func c07RoundTrips(tag string, h *sam.Header) *c07Fail {
	if !c07HeaderClean(h) {
		return c07Unrepresentable(tag, h)
	}
	if h.Version == "" {
		hasHD := h.SortOrder != sam.UnknownOrder || h.GroupOrder != sam.GroupUnspecified
		h.Tags(func(t sam.Tag, v string) {
			if s := t.String(); s != "VN" && s != "SO" && s != "GO" {
				hasHD = true
			}
		})
		if hasHD {
			return nil // the format has nowhere to store @HD fields without a version (excluded by the property)
		}
	}
	t1, b1, p := c07Marshal(h)
	if p {
		return &c07Fail{"c07.marshal.panic", tag + "MarshalText/MarshalBinary panicked"}
	}
	v1 := c07Values(h)
	// text
	var t2 []byte
	var v2 []string
	var err error
	o := guard(func() {
		h2 := &sam.Header{}
		err = h2.UnmarshalText(t1)
		if err == nil {
			t2, _ = h2.MarshalText()
			v2 = c07Values(h2)
		}
	})
	if o.panicked {
		return &c07Fail{"c07.rt.text.panic:" + topRepoFrame(o.stack), tag + fmt.Sprintf("parsing the header's own text panicked: %s; text %q", o.panicVal, t1)}
	}
	if err != nil {
		return &c07Fail{"c07.rt.text.rejected", tag + fmt.Sprintf("the header's own text is rejected: %v; text %q", err, t1)}
	}
	if !bytes.Equal(t1, t2) {
		x, y := c07FirstDiffLine(t1, t2)
		return &c07Fail{"c07.rt.text." + c07DiffClass(x, y), tag + fmt.Sprintf("text changes on re-parse: %q -> %q", x, y)}
	}
	if strings.Join(v1, "\n") != strings.Join(v2, "\n") {
		k, x, y := c07ValueDiff(v1, v2)
		return &c07Fail{"c07.rt.text.value." + k, tag + fmt.Sprintf("text round trip exposes a different value: %s -> %s (text %q)", x, y, t1)}
	}
	// binary
	var b3, t3 []byte
	var v3 []string
	o = guard(func() {
		h3 := &sam.Header{}
		err = h3.UnmarshalBinary(b1)
		if err == nil {
			b3, _ = h3.MarshalBinary()
			t3, _ = h3.MarshalText()
			v3 = c07Values(h3)
		}
	})
	if o.panicked {
		return &c07Fail{"c07.rt.bin.panic:" + topRepoFrame(o.stack), tag + fmt.Sprintf("decoding the header's own binary form panicked: %s; text %q", o.panicVal, t1)}
	}
	if err != nil {
		return &c07Fail{"c07.rt.bin.rejected", tag + fmt.Sprintf("the header's own binary form is rejected: %v; text %q", err, t1)}
	}
	if !bytes.Equal(b1, b3) {
		x, y := c07FirstDiffLine(t1, t3)
		return &c07Fail{"c07.rt.bin." + c07DiffClass(x, y), tag + fmt.Sprintf("binary form changes on re-decoding: text line %q -> %q", x, y)}
	}
	if strings.Join(v1, "\n") != strings.Join(v3, "\n") {
		k, x, y := c07ValueDiff(v1, v3)
		return &c07Fail{"c07.rt.bin.value." + k, tag + fmt.Sprintf("binary round trip exposes a different value: %s -> %s (text %q)", x, y, t1)}
	}
	return nil
}

// checkStep judges the state after one operation.
func (w *c07World) checkStep(op c07Op, st c07Step) (fs []*c07Fail) {
	if st.o.panicked {
		// no operation may panic: the line parsers return an error for every malformed line
		return []*c07Fail{{"c07.panic:" + topRepoFrame(st.o.stack), fmt.Sprintf("operation %s panicked: %s", op.K, st.o.panicVal)}}
	}
	if f := w.checkLinks(st); f != nil {
		fs = append(fs, f)
	}
	// parsing (additional) lines never changes the length of a reference that was there before
	if st.res == "ok" && st.target != nil {
		now := map[string]int{}
		for _, r := range st.target.Refs() {
			now[r.Name()] = r.Len()
		}
		for n, l := range st.preLen {
			if l2, ok := now[n]; ok && l2 != l {
				fs = append(fs, &c07Fail{"c07.parse.len-changed", fmt.Sprintf("reference %q had length %d before the lines were parsed and has %d now; no error was returned", n, l, l2)})
				break
			}
		}
	}
	if f := w.checkReuse(op, st); f != nil {
		fs = append(fs, f)
	}
	for k, h := range w.hs {
		if h == nil {
			continue
		}
		fs = append(fs, w.checkHeader(k, h)...)
		if len(fs) > 0 {
			break
		}
	}
	return fs
}

func (w *c07World) checkLinks(st c07Step) *c07Fail {
	// merge links
	if st.merged != nil {
		h := st.merged
		if len(st.links) != len(st.srcs) {
			return &c07Fail{"c07.link.count", "MergeHeaders returned a link table of the wrong length"}
		}
		for i, src := range st.srcs {
			if len(st.links[i]) != len(src.Refs()) {
				return &c07Fail{"c07.link.count", fmt.Sprintf("links[%d] has %d entries for %d source references", i, len(st.links[i]), len(src.Refs()))}
			}
			for j, sr := range src.Refs() {
				l := st.links[i][j]
				if l == nil || l.Name() != sr.Name() || l.Len() != sr.Len() {
					return &c07Fail{"c07.link.value", fmt.Sprintf("source %d reference %d (%s,%d) is linked to (%s,%d)", i, j, sr.Name(), sr.Len(), l.Name(), l.Len())}
				}
				if l.ID() < 0 || l.ID() >= len(h.Refs()) || h.Refs()[l.ID()] != l {
					cls := "later"
					if i == 0 {
						cls = "first"
					}
					return &c07Fail{"c07.link.owned." + cls, fmt.Sprintf("source %d reference %d (%s) is linked to a reference with id %d that the merged header does not list at that id", i, j, sr.Name(), l.ID())}
				}
			}
		}
	}
	return nil
}

// a removed item is available to be added to another header
func (w *c07World) checkReuse(op c07Op, st c07Step) *c07Fail {
	if st.res == "ok" {
		var err error
		o := guard(func() {
			f, _ := sam.NewHeader(nil, nil)
			switch op.K {
			case "rr":
				r := w.ref(op.P)
				if err = f.AddReference(r); err == nil {
					err = f.RemoveReference(r)
				}
			case "rg":
				g := w.rg(op.P)
				if err = f.AddReadGroup(g); err == nil {
					// (RemoveReadGroup is itself under test: release through a second fresh header is not possible,
					// so the probe header keeps one reference to make the removal's bound check pass)
					x, _ := sam.NewReference("x", "", "", 1, nil, nil)
					f.AddReference(x)
					err = f.RemoveReadGroup(g)
				}
			case "rp":
				p := w.pg(op.P)
				if err = f.AddProgram(p); err == nil {
					err = f.RemoveProgram(p)
				}
			}
		})
		if o.panicked {
			return &c07Fail{"c07.reuse.panic:" + topRepoFrame(o.stack), "adding a removed item to a fresh header panicked: " + o.panicVal}
		}
		if err != nil {
			return &c07Fail{"c07.reuse." + op.K, fmt.Sprintf("an item removed by %s cannot be added to a fresh header: %v", op.K, err)}
		}
	}
	return nil
}

// ---------------------------------------------------------------------------------------------
// running a history

type c07Run struct {
	obs     []string   // compact observation per op
	fails   []*c07Fail // hard failures of the step that ended the history
	softs   []*c07Fail // soft failures, one per signature
	failAt  int
	nExec   int
	classes map[string]int
}

func c07Exec(ops []c07Op, oracle bool, verboseAt int) (run c07Run, verbose string) {
	w := &c07World{}
	run.failAt = -1
	run.classes = map[string]int{}
	softSeen := map[string]bool{}
	for i, op := range ops {
		st := w.apply(op)
		run.classes[op.K+"."+st.res]++
		if st.res != "skip" {
			run.nExec++
		}
		run.obs = append(run.obs, w.obs(st, false))
		if i == verboseAt {
			verbose = w.obs(st, true)
		}
		if oracle {
			if fs := w.checkStep(op, st); len(fs) > 0 {
				var hard []*c07Fail
				for _, f := range fs {
					f.sig += "@" + op.K
					if !f.soft() {
						hard = append(hard, f)
					} else if !softSeen[f.sig[:strings.Index(f.sig, "@")]] {
						softSeen[f.sig[:strings.Index(f.sig, "@")]] = true
						run.softs = append(run.softs, f)
					}
				}
				if len(hard) > 0 {
					run.fails, run.failAt = hard, i
					return
				}
			}
		}
		if st.res == "panic" {
			return // state after a panic is unspecified: the history ends here
		}
	}
	return
}

func (r *c07Run) has(sig string) *c07Fail {
	for _, f := range append(append([]*c07Fail(nil), r.fails...), r.softs...) {
		if f.sig == sig {
			return f
		}
	}
	return nil
}

// shrink: delete operations while the same failure signature is reproduced.
func c07Shrink(ops []c07Op, sig string) []c07Op {
	try := func(cand []c07Op) bool {
		r, _ := c07Exec(cand, true, -1)
		return r.has(sig) != nil
	}
	// cut after the failing op
	if r, _ := c07Exec(ops, true, -1); r.fails != nil && r.failAt+1 < len(ops) {
		ops = ops[:r.failAt+1]
	}
	for changed := true; changed; {
		changed = false
		for k := len(ops) - 1; k >= 0; k-- {
			cand, ok := c07Delete(ops, k)
			if ok && try(cand) {
				ops = cand
				changed = true
			}
		}
	}
	return ops
}

// namespace of the handle an op allocates: 'h', 'r', 'g', 'p' or 0
func c07Alloc(k string) byte {
	switch k {
	case "h0", "hd", "pa", "de", "cl", "mg":
		return 'h'
	case "nr", "gr", "cr":
		return 'r'
	case "ng", "gg", "cg":
		return 'g'
	case "np", "gp", "cp":
		return 'p'
	}
	return 0
}

// uses lists pointers to the handles (namespace, *int) an op refers to
func c07Uses(o *c07Op) (ns []byte, ps []*int) {
	add := func(n byte, p *int) { ns = append(ns, n); ps = append(ps, p) }
	switch o.K {
	case "hd":
		for i := range o.Hs {
			add('r', &o.Hs[i])
		}
	case "um", "co", "sh", "hs", "cl":
		add('h', &o.H)
	case "ar", "rr":
		add('h', &o.H)
		add('r', &o.P)
	case "ag", "rg":
		add('h', &o.H)
		add('g', &o.P)
	case "ap", "rp":
		add('h', &o.H)
		add('p', &o.P)
	case "sr", "cr", "xr":
		add('r', &o.P)
	case "sg", "cg", "xg":
		add('g', &o.P)
	case "sp", "cp":
		add('p', &o.P)
	case "gr", "gg", "gp":
		add('h', &o.H)
	case "mg":
		for i := range o.Hs {
			add('h', &o.Hs[i])
		}
	}
	return
}

func c07Delete(ops []c07Op, k int) ([]c07Op, bool) {
	out := make([]c07Op, 0, len(ops)-1)
	for i, o := range ops {
		if i == k {
			continue
		}
		o.Hs = append([]int(nil), o.Hs...)
		out = append(out, o)
	}
	ns := c07Alloc(ops[k].K)
	if ns == 0 {
		return out, true
	}
	// handle allocated by op k = number of earlier allocations in the same namespace
	x := 0
	for i := 0; i < k; i++ {
		if c07Alloc(ops[i].K) == ns {
			x++
		}
	}
	for i := k; i < len(out); i++ {
		n, p := c07Uses(&out[i])
		for j := range p {
			if n[j] != ns {
				continue
			}
			if *p[j] == x {
				return nil, false
			}
			if *p[j] > x {
				*p[j]--
			}
		}
	}
	return out, true
}

// ---------------------------------------------------------------------------------------------
// generators

var c07Words = []string{"", "x", "hs37", "Homo sapiens", "a:b", "@c", "é", "v 1.0", "ILLUMINA", "lane-1"}
var c07URIs = []string{"http://h.org/p/a.fa", "ftp://h.org/a.fa", "file:///data/a.fa", "/data/a.fa", "a.fa", "https://h.org/a.fa"}
var c07OtherTags = []string{"XX", "XY", "ab", "zz", "x1"}
var c07Versions = []string{"1.6", "1.0", "1.5", ""}

type c07Gen struct {
	r        *Rand
	w        *c07World
	ops      []c07Op
	run      c07Run
	canonURI bool // only URIs that the parser leaves alone (http/ftp/file)
}

func (g *c07Gen) word() string {
	if g.r.coin(1, 150) {
		return "t\tab"
	}
	if g.r.coin(1, 25) {
		// values ending in (or consisting of) blanks: legal, and significant on re-parse
		return []string{"v1 ", " ", "a b ", " lead", "cmd -x  "}[g.r.intn(5)]
	}
	return c07Words[g.r.intn(len(c07Words))]
}
func (g *c07Gen) optWord() string {
	if g.r.coin(1, 2) {
		return ""
	}
	return g.word()
}

func (g *c07Gen) others() [][2]string {
	var o [][2]string
	if !g.r.coin(1, 3) {
		return nil
	}
	perm := []int{0, 1, 2, 3, 4}
	for i := range perm {
		j := i + g.r.intn(len(perm)-i)
		perm[i], perm[j] = perm[j], perm[i]
	}
	for _, k := range perm[:g.r.rng(1, 3)] {
		v := g.word()
		if v == "" {
			v = "v"
		}
		o = append(o, [2]string{c07OtherTags[k], v})
	}
	return o
}

func (g *c07Gen) uri() string {
	if g.canonURI {
		return c07URIs[g.r.intn(3)]
	}
	return c07URIs[g.r.intn(len(c07URIs))]
}

func (g *c07Gen) refSpec() *c07Ref {
	s := &c07Ref{Name: c07RefNames[g.r.intn(len(c07RefNames))], Len: g.r.pick([]int{1, 10, 10, 10, 20, 1000, 1<<31 - 1})}
	if g.r.coin(1, 200) {
		s.Name = "na\tme"
	}
	if g.r.coin(1, 4) {
		s.MD5 = hex.EncodeToString(g.r.bytes(16))
		if g.r.coin(1, 4) {
			s.MD5 = "00000000000000000000000000000000"[:30] + "0a"
		}
	}
	if g.r.coin(1, 4) {
		s.AS = g.word()
	}
	if g.r.coin(1, 4) {
		s.SP = g.word()
	}
	if g.r.coin(1, 4) {
		s.UR = g.uri()
	}
	s.Other = g.others()
	return s
}

func (g *c07Gen) date() string {
	y, mo, d := g.r.rng(1970, 2100), g.r.rng(1, 12), g.r.rng(1, 28)
	hh, mi, ss := g.r.rng(0, 23), g.r.rng(0, 59), g.r.rng(0, 59)
	zh, zm := g.r.rng(0, 14), g.r.pick([]int{0, 0, 30, 45})
	sign := "+"
	if g.r.coin(1, 2) {
		sign = "-"
		zh = g.r.rng(0, 12)
	}
	if zh == 0 && zm == 0 {
		sign = "+"
	}
	return fmt.Sprintf("%04d-%02d-%02dT%02d:%02d:%02d%s%02d%02d", y, mo, d, hh, mi, ss, sign, zh, zm)
}

func (g *c07Gen) rgSpec() *c07RG {
	s := &c07RG{Name: c07RGNames[g.r.intn(len(c07RGNames))]}
	for i := 0; i < 9; i++ {
		if g.r.coin(1, 4) {
			s.F[i] = g.word()
		}
	}
	if g.r.coin(1, 3) {
		s.F[9] = g.date()
		if g.r.coin(1, 3) {
			s.Nano = g.r.rng(1, 999999999)
		}
	}
	if g.r.coin(1, 4) {
		s.PI = g.r.pick([]int{1, -5, 300, 1<<31 - 1, -(1 << 31)})
	}
	s.Other = g.others()
	return s
}

func (g *c07Gen) pgSpec() *c07PG {
	s := &c07PG{UID: c07PGNames[g.r.intn(len(c07PGNames))]}
	for i := 0; i < 4; i++ {
		if g.r.coin(1, 3) {
			s.F[i] = g.word()
		}
	}
	s.Other = g.others()
	return s
}

// text renders header lines through an independent formatter (not the library's), optionally malformed.
func (g *c07Gen) refLine(s *c07Ref) string {
	f := []string{"@SQ", "SN:" + s.Name, fmt.Sprintf("LN:%d", s.Len)}
	if s.MD5 != "" {
		f = append(f, "M5:"+s.MD5)
	}
	if s.AS != "" {
		f = append(f, "AS:"+s.AS)
	}
	if s.SP != "" {
		f = append(f, "SP:"+s.SP)
	}
	if s.UR != "" {
		f = append(f, "UR:"+s.UR)
	}
	for _, kv := range s.Other {
		f = append(f, kv[0]+":"+kv[1])
	}
	if g.r.coin(1, 5) { // field order is free in the format
		i, j := g.r.rng(1, len(f)-1), g.r.rng(1, len(f)-1)
		f[i], f[j] = f[j], f[i]
	}
	return strings.Join(f, "\t")
}

var c07RGTags = []string{"CN", "DS", "FO", "KS", "LB", "PG", "PL", "PU", "SM", "DT"}
var c07PGTags = []string{"PN", "CL", "PP", "VN"}

// date forms the parser accepts besides the canonical one
func (g *c07Gen) looseDate() string {
	d := g.date() // 2006-01-02T15:04:05-0700
	switch g.r.intn(9) {
	case 0:
		return d[:10]
	case 1:
		return strings.ReplaceAll(d[:10], "-", "")
	case 2:
		return d[:19] + "Z"
	case 3:
		return d[:19]
	case 4:
		return d[:19] + ".250" + d[19:]
	case 5:
		return strings.ReplaceAll(d[:10], "-", "") + "T" + strings.ReplaceAll(d[11:19], ":", "") + d[19:]
	case 6:
		return d[:19] + ".5Z"
	case 7:
		return d[:19] + "-0000" // a zero offset is printed as +0000
	}
	return d
}

// knownRefLine: an @SQ line for a name the header already has — same length with more fields, another length,
// no LN at all, only SN.
func (g *c07Gen) knownRefLine(r *sam.Reference) string {
	switch g.r.intn(5) {
	case 0:
		return fmt.Sprintf("@SQ\tSN:%s\tLN:%d\tAS:%s", r.Name(), r.Len(), "hs37")
	case 1:
		return fmt.Sprintf("@SQ\tSN:%s\tLN:%d", r.Name(), r.Len()%1000+1)
	case 2:
		return fmt.Sprintf("@SQ\tSN:%s\tAS:x", r.Name())
	case 3:
		return fmt.Sprintf("@SQ\tSN:%s\tSP:x\tXX:y", r.Name())
	}
	return fmt.Sprintf("@SQ\tSN:%s\tLN:%d", r.Name(), r.Len())
}

func (g *c07Gen) rgLine(s *c07RG) string {
	f := []string{"@RG", "ID:" + s.Name}
	for i, t := range c07RGTags {
		if s.F[i] != "" {
			v := s.F[i]
			if t == "DT" && g.r.coin(1, 2) {
				v = g.looseDate()
			}
			f = append(f, t+":"+v)
		}
	}
	if s.PI != 0 {
		f = append(f, fmt.Sprintf("PI:%d", s.PI))
	}
	for _, kv := range s.Other {
		f = append(f, kv[0]+":"+kv[1])
	}
	return strings.Join(f, "\t")
}

func (g *c07Gen) pgLine(s *c07PG) string {
	f := []string{"@PG", "ID:" + s.UID}
	for i, t := range c07PGTags {
		if s.F[i] != "" {
			f = append(f, t+":"+s.F[i])
		}
	}
	for _, kv := range s.Other {
		f = append(f, kv[0]+":"+kv[1])
	}
	return strings.Join(f, "\t")
}

var c07BadLines = []string{
	"@SQ\tSN:a\tAS:x", "@SQ\tSN:chr1\tSP:x", "@SQ\tSN:b\tLN:7", "@SQ\tSN:a\tLN:10\tAS:x\r\r",
	"@HD\tV", "@SQ\tSN:a\tL", "@RG\tID", "@PG\tI", "@SQ\tSN:a", "@SQ\tLN:10", "@SQ\tSN:a\tLN:ten", "@SQ\tSN:a\tLN:0",
	"@SQ\tSN:a\tLN:2147483648", "@SQ\tSN:a\tLN:10\tLN:10", "@SQ\tSN:q\tLN:10\tM5:00", "@SQ\tSN:q\tLN:10\tM5:zz000000000000000000000000000000",
	"@SQ\tSN:q\tLN:10\tM5:000000000000000000000000000000000000", "@SQ\tSN:q\tLN:10\tUR::foo", "@RG\tCN:x", "@RG\tID:q\tDT:yesterday",
	"@RG\tID:q\tDT:2014-13-45", "@RG\tID:q\tPI:big", "@RG\tID:q\tPI:99999999999", "@RG\tID:q\tCN:a\tCN:b", "@PG\tPN:x", "@PG\tID:q\tXX:1\tXX:2",
	"@XX\tab:c", "HD\tVN:1", "@H", "@CO", "@CO\t", "@HD\tSO:coordinate", "@HD\tVN:1.6\tVN:1.6", "@HD\tVN:1.6\tSO:coordinate\tSO:unsorted",
	"@HD\tVN:1.6\tGO:query\tGO:none", "@HD\tVN:1.6\tSO:sorted\tGO:bad", "@SQ\tSN:a\tLN:+10", "@SQ\tSN:a\tLN:010", "@SQ\tSN:\tLN:5",
}

func (g *c07Gen) hdLine() string {
	f := []string{"@HD", "VN:" + c07Versions[g.r.intn(3)]}
	if g.r.coin(2, 3) {
		f = append(f, "SO:"+[]string{"unknown", "unsorted", "queryname", "coordinate"}[g.r.intn(4)])
	}
	if g.r.coin(1, 2) {
		f = append(f, "GO:"+[]string{"none", "query", "reference"}[g.r.intn(3)])
	}
	if g.r.coin(1, 3) {
		f = append(f, "SS:coordinate:queryname")
	}
	return strings.Join(f, "\t")
}

func (g *c07Gen) text(withHD bool, malformed bool) string {
	var lines []string
	if withHD {
		lines = append(lines, g.hdLine())
	}
	for n := g.r.intn(4); n > 0; n-- {
		lines = append(lines, g.refLine(g.refSpec()))
	}
	for n := g.r.intn(3); n > 0; n-- {
		lines = append(lines, g.rgLine(g.rgSpec()))
	}
	for n := g.r.intn(3); n > 0; n-- {
		lines = append(lines, g.pgLine(g.pgSpec()))
	}
	for n := g.r.intn(3); n > 0; n-- {
		lines = append(lines, "@CO\t"+[]string{"a comment", "two\tfields", "", "tab at end\t", "\tleading", "x\ty\tz", "blank at end ", " "}[g.r.intn(8)])
	}
	if malformed {
		k := g.r.intn(len(lines) + 1)
		lines = append(lines[:k], append([]string{c07BadLines[g.r.intn(len(c07BadLines))]}, lines[k:]...)...)
	}
	sep := "\n"
	if g.r.coin(1, 10) {
		sep = "\r\n"
	}
	t := strings.Join(lines, sep)
	if len(lines) > 0 && !g.r.coin(1, 8) {
		t += sep
	}
	if g.r.coin(1, 12) {
		t = "\n" + t
	}
	return t
}

func (g *c07Gen) emit(op c07Op) c07Step {
	g.ops = append(g.ops, op)
	st := g.w.apply(op)
	g.run.classes[op.K+"."+st.res]++
	if st.res != "skip" {
		g.run.nExec++
	}
	return st
}

func (g *c07Gen) liveHeaders() []int {
	var l []int
	for i, h := range g.w.hs {
		if h != nil {
			l = append(l, i)
		}
	}
	return l
}

// binary produces a BAM header block: the library's own encoding of a live header, sometimes altered.
func (g *c07Gen) binary(h *sam.Header) string {
	_, b, p := c07Marshal(h)
	if p || len(b) < 12 {
		return "BAM\x01\x00\x00\x00\x00\x00\x00\x00\x00"
	}
	lText := int(int32(uint32(b[4]) | uint32(b[5])<<8 | uint32(b[6])<<16 | uint32(b[7])<<24))
	rest := b[8+lText:]
	switch g.r.intn(10) {
	case 0: // no text at all: reference dictionary only
		return string(append([]byte{'B', 'A', 'M', 1, 0, 0, 0, 0}, rest...))
	case 1: // truncated
		return string(b[:g.r.intn(len(b))])
	case 2:
		c := append([]byte(nil), b...)
		c[3] = 2
		return string(c)
	case 3: // a reference length changed in the dictionary
		c := append([]byte(nil), b...)
		if len(rest) > 4 {
			c[len(c)-4] ^= 1
		}
		return string(c)
	case 4: // negative reference count
		c := append([]byte(nil), b[:8+lText]...)
		return string(append(c, 0xff, 0xff, 0xff, 0xff))
	case 5: // name without terminating NUL
		c := append([]byte(nil), b...)
		if len(rest) > 8 {
			c[len(c)-5] = 'q'
		}
		return string(c)
	}
	return string(b)
}

func c07Generate(r *Rand, maxOps int, canonURI bool) *c07Gen {
	g := &c07Gen{r: r, w: &c07World{}, canonURI: canonURI}
	g.run.classes = map[string]int{}
	// initial header
	switch r.intn(4) {
	case 0, 1:
		g.emit(c07Op{K: "h0"})
	case 2:
		g.emit(c07Op{K: "pa", S: g.text(r.coin(3, 4), false)})
	case 3:
		n := r.intn(3)
		var ps []int
		for i := 0; i < n; i++ {
			g.emit(c07Op{K: "nr", Ref: g.refSpec()})
			ps = append(ps, len(g.w.refs)-1)
		}
		txt := ""
		if r.coin(1, 2) {
			txt = g.text(r.coin(1, 2), false)
		}
		g.emit(c07Op{K: "hd", S: txt, Hs: ps})
	}
	if r.coin(1, 2) {
		live := g.liveHeaders()
		if len(live) > 0 {
			v := c07Versions[r.intn(len(c07Versions))]
			so, gro := 0, 0
			if v != "" || r.coin(1, 10) {
				so, gro = r.intn(4), r.intn(4)
			}
			g.emit(c07Op{K: "sh", H: live[0], S: v, I: so, J: gro})
		}
	}
	for len(g.ops) < maxOps {
		live := g.liveHeaders()
		if len(live) == 0 {
			g.emit(c07Op{K: "h0"})
			continue
		}
		h := live[r.intn(len(live))]
		H := g.w.hs[h]
		pickObj := func(n int) int { return r.intn(n) }
		switch k := r.intn(100); {
		case k < 14: // new reference and add it
			g.emit(c07Op{K: "nr", Ref: g.refSpec()})
			if !r.coin(1, 6) {
				g.emit(c07Op{K: "ar", H: h, P: len(g.w.refs) - 1})
			}
		case k < 20:
			if len(g.w.refs) > 0 {
				g.emit(c07Op{K: "ar", H: h, P: pickObj(len(g.w.refs))})
			}
		case k < 28: // remove a reference: usually one the header lists
			if n := len(H.Refs()); n > 0 && !r.coin(1, 5) {
				g.emit(c07Op{K: "gr", H: h, I: r.intn(n)})
				g.emit(c07Op{K: "rr", H: h, P: len(g.w.refs) - 1})
			} else if len(g.w.refs) > 0 {
				g.emit(c07Op{K: "rr", H: h, P: pickObj(len(g.w.refs))})
			}
		case k < 35: // rename
			nm := c07RefNames[r.intn(len(c07RefNames))]
			if r.coin(1, 30) {
				nm = ""
			}
			kind := "sr"
			if r.coin(1, 3) { // the same rename through Reference.Set(SN, …)
				kind = "xr"
				if nm == "" {
					nm = "*"
				}
			}
			if n := len(H.Refs()); n > 0 && r.coin(1, 2) {
				g.emit(c07Op{K: "gr", H: h, I: r.intn(n)})
				g.emit(c07Op{K: kind, P: len(g.w.refs) - 1, S: nm})
			} else if len(g.w.refs) > 0 {
				g.emit(c07Op{K: kind, P: pickObj(len(g.w.refs)), S: nm})
			}
		case k < 42:
			g.emit(c07Op{K: "ng", RG: g.rgSpec()})
			if !r.coin(1, 6) {
				g.emit(c07Op{K: "ag", H: h, P: len(g.w.rgs) - 1})
			}
		case k < 45:
			if len(g.w.rgs) > 0 {
				g.emit(c07Op{K: "ag", H: h, P: pickObj(len(g.w.rgs))})
			}
		case k < 50:
			if n := len(H.RGs()); n > 0 && !r.coin(1, 5) {
				g.emit(c07Op{K: "gg", H: h, I: r.intn(n)})
				g.emit(c07Op{K: "rg", H: h, P: len(g.w.rgs) - 1})
			} else if len(g.w.rgs) > 0 {
				g.emit(c07Op{K: "rg", H: h, P: pickObj(len(g.w.rgs))})
			}
		case k < 54:
			nm := c07RGNames[r.intn(len(c07RGNames))]
			kind := "sg"
			if r.coin(1, 3) {
				kind = "xg"
			}
			if n := len(H.RGs()); n > 0 && r.coin(1, 2) {
				g.emit(c07Op{K: "gg", H: h, I: r.intn(n)})
				g.emit(c07Op{K: kind, P: len(g.w.rgs) - 1, S: nm})
			} else if len(g.w.rgs) > 0 {
				g.emit(c07Op{K: kind, P: pickObj(len(g.w.rgs)), S: nm})
			}
		case k < 60:
			g.emit(c07Op{K: "np", PG: g.pgSpec()})
			if !r.coin(1, 6) {
				g.emit(c07Op{K: "ap", H: h, P: len(g.w.pgs) - 1})
			}
		case k < 62:
			if len(g.w.pgs) > 0 {
				g.emit(c07Op{K: "ap", H: h, P: pickObj(len(g.w.pgs))})
			}
		case k < 67:
			if n := len(H.Progs()); n > 0 && !r.coin(1, 5) {
				g.emit(c07Op{K: "gp", H: h, I: r.intn(n)})
				g.emit(c07Op{K: "rp", H: h, P: len(g.w.pgs) - 1})
			} else if len(g.w.pgs) > 0 {
				g.emit(c07Op{K: "rp", H: h, P: pickObj(len(g.w.pgs))})
			}
		case k < 70:
			nm := c07PGNames[r.intn(len(c07PGNames))]
			if n := len(H.Progs()); n > 0 && r.coin(1, 2) {
				g.emit(c07Op{K: "gp", H: h, I: r.intn(n)})
				g.emit(c07Op{K: "sp", P: len(g.w.pgs) - 1, S: nm})
			} else if len(g.w.pgs) > 0 {
				g.emit(c07Op{K: "sp", P: pickObj(len(g.w.pgs)), S: nm})
			}
		case k < 75:
			if len(g.w.hs) < 6 {
				g.emit(c07Op{K: "cl", H: h})
			}
		case k < 82:
			if len(g.w.hs) < 6 {
				n := 2 + r.intn(2)
				var hs []int
				for i := 0; i < n; i++ {
					hs = append(hs, live[r.intn(len(live))])
				}
				g.emit(c07Op{K: "mg", Hs: hs})
			}
		case k < 88: // additional lines; often about a reference the header already has
			txt := g.text(H.Version == "" && r.coin(1, 2), r.coin(1, 4))
			if n := len(H.Refs()); n > 0 && r.coin(1, 3) {
				if txt != "" && !strings.HasSuffix(txt, "\n") {
					txt += "\n"
				}
				txt += g.knownRefLine(H.Refs()[r.intn(n)]) + "\n" // last, so that an error does not hide the other lines
			}
			g.emit(c07Op{K: "um", H: h, S: txt})
		case k < 90:
			if len(g.w.hs) < 6 {
				g.emit(c07Op{K: "pa", S: g.text(r.coin(3, 4), r.coin(1, 5))})
			}
		case k < 92:
			if len(g.w.hs) < 6 {
				g.emit(c07Op{K: "de", S: g.binary(H)})
			}
		case k < 94:
			if len(g.w.hs) < 6 && len(g.w.refs) > 0 {
				var ps []int
				for n := r.intn(3); n > 0; n-- {
					ps = append(ps, pickObj(len(g.w.refs)))
				}
				g.emit(c07Op{K: "hd", S: "", Hs: ps})
			}
		case k < 96:
			g.emit(c07Op{K: "co", H: h, S: []string{"free text", "with\ttab", "", "é", "blank at end ", " "}[r.intn(6)]})
		case k < 98:
			tag := []string{"SS", "XX", "ab", "SO", "GO", "VN"}[r.intn(6)]
			val := []string{"", "v", "coordinate", "query", "1.6", "a:b"}[r.intn(6)]
			if r.coin(1, 2) { // the Version / SortOrder / GroupOrder fields, every enum value
				v := c07Versions[r.intn(len(c07Versions))]
				so, gro := 0, 0
				if v != "" || r.coin(1, 10) {
					so, gro = r.intn(4), r.intn(4)
				}
				g.emit(c07Op{K: "sh", H: h, S: v, I: so, J: gro})
			} else if H.Version != "" || r.coin(1, 8) {
				g.emit(c07Op{K: "hs", H: h, S: tag, V: val})
			}
		default:
			switch r.intn(3) {
			case 0:
				if len(g.w.refs) > 0 {
					g.emit(c07Op{K: "cr", P: pickObj(len(g.w.refs))})
				}
			case 1:
				if len(g.w.rgs) > 0 {
					g.emit(c07Op{K: "cg", P: pickObj(len(g.w.rgs))})
				}
			case 2:
				if len(g.w.pgs) > 0 {
					g.emit(c07Op{K: "cp", P: pickObj(len(g.w.pgs))})
				}
			}
		}
		if n := len(g.ops); n > 0 && g.ops[n-1].K != "" {
			// a panic ends the history
			if g.run.classes[g.ops[n-1].K+".panic"] > 0 {
				break
			}
		}
	}
	return g
}

// ---------------------------------------------------------------------------------------------

func c07Key(ops []c07Op) string { return fmt.Sprintf("%016x", fnv64([]byte(c07Enc(ops)))) }

func c07Nontrivial(ops []c07Op, cls map[string]int) bool {
	edits := 0
	for k, n := range cls {
		if strings.HasSuffix(k, ".ok") {
			switch k[:2] {
			case "rr", "rg", "rp", "sr", "sg", "sp", "xr", "xg", "cl", "mg", "um":
				edits += n
			}
		}
	}
	return len(ops) >= 5 && edits >= 1
}

// one history: oracle on the implementation, then queue the model line.
func c07One(c *ctx, ops []c07Op, d *Driver, impl *[]string, hists *[][]c07Op) {
	r := c.res
	var run c07Run
	o := guardTimeout(20*time.Second, func() { run, _ = c07Exec(ops, true, -1) })
	if o.timedOut {
		r.fail("c07.hang", "history did not finish", c07Input{Ops: ops})
		return
	}
	if o.panicked {
		r.fail("c07.harness.panic", o.panicVal+"\n"+o.stack, c07Input{Ops: ops})
		return
	}
	for k, n := range run.classes {
		r.Histogram["op."+k] += n
	}
	r.eval(c07Key(ops), c07Nontrivial(ops, run.classes))
	r.hist(fmt.Sprintf("history.len%02d-%02d", len(ops)/10*10, len(ops)/10*10+9))
	for _, f := range append(append([]*c07Fail(nil), run.fails...), run.softs...) {
		small := ops
		if c.replay == "" {
			small = c07Shrink(ops, f.sig)
		}
		rr, _ := c07Exec(small, true, -1)
		what := f.what
		if f2 := rr.has(f.sig); f2 != nil {
			what = f2.what
		}
		r.fail(f.sig, fmt.Sprintf("after %d operations (shrunk from %d): %s", len(small), len(ops), what), c07Input{Ops: small})
		r.hist("oracle.fail." + f.sig)
	}
	if run.fails != nil {
		// the model is compared on the part of the history before the failure
		ops = ops[:run.failAt]
		run.obs = run.obs[:run.failAt]
	}
	if d != nil && len(ops) > 0 {
		d.add("c07.run %s", c07Enc(ops))
		toks := make([]string, len(run.obs))
		for i, s := range run.obs {
			toks[i] = fmt.Sprintf("%016x", fnv64([]byte(s)))
		}
		*impl = append(*impl, strings.Join(toks, "."))
		*hists = append(*hists, ops)
	}
}

// c07Compare runs the model over all queued histories; on a difference it re-runs that history verbosely
// on both sides and reports the first differing observation.
func c07Compare(c *ctx, d *Driver, impl []string, hists [][]c07Op) {
	r := c.res
	model, err := d.run()
	if err != nil {
		r.disagree("C07", "(driver failure)", "", err.Error())
		return
	}
	r.ModelOps += len(model)
	reported := 0
	for i := range impl {
		if i >= len(model) || impl[i] == model[i] {
			continue
		}
		a, b := strings.Split(impl[i], "."), strings.Split(model[i], ".")
		k := 0
		for k < len(a) && k < len(b) && a[k] == b[k] {
			k++
		}
		r.NDisagreements++
		if reported >= 6 {
			continue
		}
		reported++
		_, vi := c07Exec(hists[i], false, k)
		vd := &Driver{path: d.path}
		vd.add("c07.runv %d %s", k, c07Enc(hists[i]))
		vm, err := vd.run()
		ms := "(driver failure)"
		if err == nil && len(vm) == 1 {
			ms = vm[0]
		}
		// shrink the report to the differing parts
		pi, pm := strings.Split(vi, "|"), strings.Split(ms, "|")
		var di, dm []string
		for j := 0; j < len(pi) || j < len(pm); j++ {
			x, y := "", ""
			if j < len(pi) {
				x = pi[j]
			}
			if j < len(pm) {
				y = pm[j]
			}
			if x != y {
				di, dm = append(di, x), append(dm, y)
			}
		}
		sort.Strings(nil)
		r.Disagreements = append(r.Disagreements, Disagreement{"C07", fmt.Sprintf("op %d (%s) of c07.run %s", k, c07OpAt(hists[i], k), c07Enc(hists[i])), strings.Join(di, "|"), strings.Join(dm, "|")})
	}
}

func c07OpAt(ops []c07Op, k int) string {
	if k < len(ops) {
		return ops[k].enc()
	}
	return "end"
}

// corpus: the minimal histories of the defects this check found on the unchanged tree (run first).
func c07Corpus() [][]c07Op {
	ref := func(n string, l int) *c07Ref { return &c07Ref{Name: n, Len: l} }
	return [][]c07Op{
		// remove a; the entry of b is stale
		{{K: "h0"}, {K: "nr", Ref: ref("a", 10)}, {K: "nr", Ref: ref("b", 20)}, {K: "ar", H: 0, P: 0}, {K: "ar", H: 0, P: 1}, {K: "rr", H: 0, P: 0}, {K: "nr", Ref: ref("b", 20)}, {K: "ar", H: 0, P: 2}},
		// merge of two identical headers with UR
		{{K: "pa", S: "@HD\tVN:1.6\n@SQ\tSN:a\tLN:10\tUR:http://x/y\n@SQ\tSN:b\tLN:20\n"}, {K: "pa", S: "@HD\tVN:1.6\n@SQ\tSN:a\tLN:10\tUR:http://x/y\n@SQ\tSN:b\tLN:20\n"}, {K: "mg", Hs: []int{0, 1}}},
		// comment with a tab
		{{K: "h0"}, {K: "sh", H: 0, S: "1.6"}, {K: "co", H: 0, S: "a\tb"}},
		// @SQ extra tag through BAM
		{{K: "pa", S: "@HD\tVN:1.6\tSO:coordinate\n@SQ\tSN:a\tLN:10\tXX:foo\n"}},
		// links of the first source after a replacement
		{{K: "pa", S: "@SQ\tSN:a\tLN:10\tUR:http://x/y\n"}, {K: "pa", S: "@SQ\tSN:b\tLN:10\n@SQ\tSN:a\tLN:10\tUR:http://x/y\n"}, {K: "mg", Hs: []int{0, 1}}},
		// removed item re-added; read group removal with no references
		{{K: "h0"}, {K: "nr", Ref: ref("a", 10)}, {K: "ar", H: 0, P: 0}, {K: "rr", H: 0, P: 0}, {K: "ar", H: 0, P: 0}},
		{{K: "h0"}, {K: "ng", RG: &c07RG{Name: "g1"}}, {K: "ag", H: 0, P: 0}, {K: "rg", H: 0, P: 0}},
		// NewHeader with references, then the same name again
		{{K: "nr", Ref: ref("a", 10)}, {K: "hd", Hs: []int{0}}, {K: "nr", Ref: ref("a", 11)}, {K: "ar", H: 0, P: 1}},
		// @SQ line without LN for a known name (audit M-1); another length for a known name
		{{K: "h0"}, {K: "um", H: 0, S: "@SQ\tSN:a\tLN:10\n"}, {K: "um", H: 0, S: "@SQ\tSN:a\tAS:x\n"}},
		{{K: "h0"}, {K: "um", H: 0, S: "@SQ\tSN:a\tLN:10\n"}, {K: "um", H: 0, S: "@SQ\tSN:a\tLN:20\n"}},
		{{K: "nr", Ref: ref("a", 10)}, {K: "hd", S: "@SQ\tSN:a\tLN:20\n", Hs: []int{0}}},
		// rename through Set(SN) onto a name that is taken (audit M-2)
		{{K: "pa", S: "@SQ\tSN:a\tLN:10\n@SQ\tSN:b\tLN:10\n"}, {K: "gr", H: 0, I: 1}, {K: "xr", P: 0, S: "a"}},
		{{K: "pa", S: "@RG\tID:g1\n@RG\tID:g2\n"}, {K: "gg", H: 0, I: 1}, {K: "xg", P: 0, S: "g1"}},
		// a value ending in CR; a name with a TAB: no faithful text form (listed finding)
		{{K: "pa", S: "@SQ\tSN:a\tLN:10\tAS:x\r\r\n"}},
		{{K: "h0"}, {K: "nr", Ref: ref("na\tme", 10)}, {K: "ar", H: 0, P: 0}},
		// every group order (GroupNone is written "GO:none" and must read back as GroupNone, not GroupUnspecified) and sort order
		{{K: "h0"}, {K: "sh", H: 0, S: "1.6", I: 3, J: 1}},
		{{K: "h0"}, {K: "sh", H: 0, S: "1.6", I: 1, J: 2}, {K: "cl", H: 0}},
		{{K: "h0"}, {K: "sh", H: 0, S: "1.6", I: 2, J: 3}},
		{{K: "h0"}, {K: "sh", H: 0, S: "1.6", I: 0, J: 0}},
		// scheme-less URI
		{{K: "h0"}, {K: "nr", Ref: &c07Ref{Name: "a", Len: 10, UR: "/data/a.fa"}}, {K: "ar", H: 0, P: 0}},
	}
}

func checkC07(c *ctx) {
	r := c.res
	time.Local = time.UTC // date-only and zone-less times are read in the local zone: pin it
	r.Rule = "a case is a history of up to 30 operations (new/add/remove/rename/clone of references, read groups and programs drawn from pools of 6 names each, " +
		"Header.Clone, MergeHeaders of 2-3 live headers, UnmarshalText of generated well-formed and malformed lines, NewHeader(text, refs), DecodeBinary of own or altered encodings, " +
		"Version/SO/GO/extra tags/comments) over at most 6 headers; after EVERY operation the oracle checks every live header and the model is compared on text, binary, (ID,Name) lists of headers and pools, merge links, error class. " +
		"Non-trivial = at least 5 operations with at least one successful remove/rename/clone/merge/unmarshal; distinct = distinct histories."
	if c.replay != "" {
		var in c07Input
		if err := loadReplay(c.replay, &in); err != nil {
			r.note("replay: %v", err)
			return
		}
		c07One(c, in.Ops, nil, nil, nil)
		return
	}
	d := c.drv()
	var impl []string
	var hists [][]c07Op
	for _, ops := range c07Corpus() {
		c07One(c, ops, d, &impl, &hists)
		r.hist("corpus")
	}
	n := 1500
	if c.thorough() {
		n = 40000
	}
	for i := 0; i < n; i++ {
		maxOps := c.rnd.pick([]int{6, 12, 20, 30, 30})
		g := c07Generate(c.rnd.fork(), maxOps, i%4 != 0)
		c07One(c, g.ops, d, &impl, &hists)
		if i < 4 {
			r.sample(c07Enc(g.ops))
		}
	}
	c07Compare(c, d, impl, hists)
}
