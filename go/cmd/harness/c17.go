package main

import (
	"fmt"
	"math"
	"math/big"
	"sort"
	"strings"

	"github.com/biogo/hts/bgzf"
	"github.com/biogo/hts/bgzf/index"
)

func init() { checks["C17"] = checkC17 }

type c17Input struct {
	Strategy string `json:"strategy"` // identity | adjacent | squash | compressor
	Near     int64  `json:"near"`
	Chunks   string `json:"chunks"`
}

func c17Show(cs []bgzf.Chunk) string {
	if len(cs) == 0 {
		return "-"
	}
	parts := make([]string, len(cs))
	for i, c := range cs {
		parts[i] = fmt.Sprintf("%d:%d-%d:%d", c.Begin.File, c.Begin.Block, c.End.File, c.End.Block)
	}
	return strings.Join(parts, ",")
}

func c17Parse(s string) []bgzf.Chunk {
	if s == "-" || s == "" {
		return nil
	}
	var out []bgzf.Chunk
	for _, p := range strings.Split(s, ",") {
		var c bgzf.Chunk
		var bb, eb int
		// file offsets in generated cases are non-negative
		fmt.Sscanf(p, "%d:%d-%d:%d", &c.Begin.File, &bb, &c.End.File, &eb)
		c.Begin.Block, c.End.Block = uint16(bb), uint16(eb)
		out = append(out, c)
	}
	return out
}

func c17V(o bgzf.Offset) int64 { return o.File*65536 + int64(o.Block) }

func c17Strategy(name string, near int64) index.MergeStrategy {
	switch name {
	case "identity":
		return index.Identity
	case "adjacent":
		return index.Adjacent
	case "squash":
		return index.Squash
	}
	return index.CompressorStrategy(near)
}

func c17Covered(cs []bgzf.Chunk, p int64) bool {
	for _, c := range cs {
		if c17V(c.Begin) <= p && p < c17V(c.End) {
			return true
		}
	}
	return false
}

// c17One runs one (strategy, list) case: oracle on the implementation, and queues the model line.
func c17One(c *ctx, in c17Input, d *Driver, impl *[]string) {
	r := c.res
	orig := c17Parse(in.Chunks)
	work := append([]bgzf.Chunk(nil), orig...)
	var out []bgzf.Chunk
	s := c17Strategy(in.Strategy, in.Near)
	o := guardTimeout(5e9, func() { out = s(work) })
	sig := "c17." + in.Strategy
	if o.panicked {
		r.fail(sig+".panic", o.panicVal, in)
		return
	}
	if o.timedOut {
		r.fail(sig+".hang", "strategy did not return", in)
		return
	}
	out = append([]bgzf.Chunk(nil), out...)
	// sorted by begin
	for i := 1; i < len(out); i++ {
		if c17V(out[i-1].Begin) > c17V(out[i].Begin) {
			r.fail(sig+".unsorted", "result not sorted by begin: "+c17Show(out), in)
			break
		}
	}
	// coverage at every boundary position of input and output, and their neighbours
	var ps []int64
	for _, l := range [][]bgzf.Chunk{orig, out} {
		for _, ch := range l {
			for _, v := range []int64{c17V(ch.Begin), c17V(ch.End)} {
				ps = append(ps, v-1, v, v+1)
			}
		}
	}
	for _, p := range ps {
		ci, co := c17Covered(orig, p), c17Covered(out, p)
		if ci && !co {
			r.fail(sig+".lost", fmt.Sprintf("position %d covered by the input but not by %s", p, c17Show(out)), in)
			break
		}
		if in.Strategy == "adjacent" || in.Strategy == "identity" {
			if co && !ci {
				r.fail(sig+".extra", fmt.Sprintf("position %d covered by %s but not by the input", p, c17Show(out)), in)
				break
			}
		}
	}
	switch in.Strategy {
	case "adjacent":
		for i := 1; i < len(out); i++ {
			if c17V(out[i-1].End) >= c17V(out[i].Begin) {
				r.fail(sig+".notseparated", "neighbours touch or overlap: "+c17Show(out), in)
				break
			}
		}
	case "compressor":
		for i := 1; i < len(out); i++ {
			// exact (no int64 wrap-around): End.File + near >= Begin.File
			sum := new(big.Int).Add(big.NewInt(out[i-1].End.File), big.NewInt(in.Near))
			if sum.Cmp(big.NewInt(out[i].Begin.File)) >= 0 {
				r.fail(sig+".gap", "neighbours closer than the threshold: "+c17Show(out), in)
				break
			}
		}
	case "squash":
		if len(orig) == 0 {
			if len(out) != 0 {
				r.fail(sig+".empty", "squash of nothing is "+c17Show(out), in)
			}
		} else {
			maxE := orig[0].End
			for _, ch := range orig {
				if c17V(ch.End) > c17V(maxE) {
					maxE = ch.End
				}
			}
			if len(out) != 1 || out[0].Begin != orig[0].Begin || c17V(out[0].End) != c17V(maxE) {
				r.fail(sig+".enclosing", "not the single enclosing chunk: "+c17Show(out), in)
			}
		}
	}
	// idempotence
	again := append([]bgzf.Chunk(nil), out...)
	var out2 []bgzf.Chunk
	o2 := guardTimeout(5e9, func() { out2 = s(again) })
	if o2.panicked || o2.timedOut {
		r.fail(sig+".idem.panic", "second application failed", in)
	} else if c17Show(out2) != c17Show(out) {
		r.fail(sig+".idempotent", fmt.Sprintf("applied twice: %s then %s", c17Show(out), c17Show(out2)), in)
	}
	if d != nil {
		if in.Strategy == "compressor" {
			d.add("c17.compressor %d %s", in.Near, in.Chunks)
		} else {
			d.add("c17.%s %s", in.Strategy, in.Chunks)
		}
		*impl = append(*impl, c17Show(out))
	}
}

func checkC17(c *ctx) {
	r := c.res
	r.Rule = "all lists of length 0..L (quick 4, thorough 5) of chunks over a 4-offset alphabet {0:0, 0:65535, 1:0, 3:1} (all 16 begin/end pairs: nested, touching, duplicate, zero-length, inverted) that are sorted by begin, " +
		"x {identity, adjacent, squash, compressor(near in -1,0,1,2,MaxInt64,MinInt64)}; plus random sorted lists of length up to 40 over wider offsets (compressor thresholds there include values within 60 of MaxInt64 and MinInt64; the gap oracle uses exact integer arithmetic). Non-trivial = at least two chunks; distinct = distinct (strategy, near, list)."
	if c.replay != "" {
		var in c17Input
		if err := loadReplay(c.replay, &in); err != nil {
			r.note("replay: %v", err)
			return
		}
		c17One(c, in, nil, nil)
		r.eval("replay", true)
		return
	}
	d := c.drv()
	var impl []string
	type strat struct {
		name string
		near int64
	}
	strats := []strat{{"identity", 0}, {"adjacent", 0}, {"squash", 0}, {"compressor", -1}, {"compressor", 0}, {"compressor", 1}, {"compressor", 2}, {"compressor", math.MaxInt64}, {"compressor", math.MinInt64}}
	offs := []bgzf.Offset{{File: 0, Block: 0}, {File: 0, Block: 65535}, {File: 1, Block: 0}, {File: 3, Block: 1}}
	var alphabet []bgzf.Chunk
	for _, b := range offs {
		for _, e := range offs {
			alphabet = append(alphabet, bgzf.Chunk{Begin: b, End: e})
		}
	}
	maxLen := 4
	if c.thorough() {
		maxLen = 5
	}
	run := func(list []bgzf.Chunk) {
		txt := c17Show(list)
		for _, s := range strats {
			in := c17Input{Strategy: s.name, Near: s.near, Chunks: txt}
			c17One(c, in, d, &impl)
			r.eval(fmt.Sprintf("%s/%d/%s", s.name, s.near, txt), len(list) >= 2)
			r.hist(fmt.Sprintf("%s.len%d", s.name, minInt(len(list), 6)))
		}
	}
	var rec func(prefix []bgzf.Chunk)
	rec = func(prefix []bgzf.Chunk) {
		run(prefix)
		if len(prefix) == maxLen {
			return
		}
		for _, ch := range alphabet {
			if len(prefix) > 0 && c17V(prefix[len(prefix)-1].Begin) > c17V(ch.Begin) {
				continue
			}
			rec(append(append([]bgzf.Chunk(nil), prefix...), ch))
		}
	}
	rec(nil)
	r.Exhaustive = false
	// random long lists
	nRand := 2000
	if c.thorough() {
		nRand = 60000
	}
	for i := 0; i < nRand; i++ {
		n := c.rnd.rng(2, 40)
		list := make([]bgzf.Chunk, n)
		for j := range list {
			b := bgzf.Offset{File: int64(c.rnd.intn(60)), Block: uint16(c.rnd.pick([]int{0, 1, 2, 65534, 65535, c.rnd.intn(65536)}))}
			var e bgzf.Offset
			switch c.rnd.intn(6) {
			case 0:
				e = b // zero length
			case 1:
				e = bgzf.Offset{File: b.File, Block: uint16(c.rnd.intn(65536))} // same block, maybe inverted
			default:
				e = bgzf.Offset{File: b.File + int64(c.rnd.intn(8)), Block: uint16(c.rnd.pick([]int{0, 1, 65535, c.rnd.intn(65536)}))}
			}
			list[j] = bgzf.Chunk{Begin: b, End: e}
		}
		sort.SliceStable(list, func(a, b int) bool { return c17V(list[a].Begin) < c17V(list[b].Begin) })
		txt := c17Show(list)
		s := strats[c.rnd.intn(len(strats))]
		if s.name == "compressor" {
			s.near = []int64{-3, -1, 0, 1, 2, 5, 100, math.MaxInt64, math.MaxInt64 - 1, math.MaxInt64 - 59, math.MinInt64, math.MinInt64 + 3}[c.rnd.intn(12)]
		}
		in := c17Input{Strategy: s.name, Near: s.near, Chunks: txt}
		c17One(c, in, d, &impl)
		r.eval(fmt.Sprintf("%s/%d/%s", s.name, s.near, txt), true)
		r.hist(s.name + ".random")
		if i < 3 {
			r.sample(in)
		}
	}
	r.sample(c17Input{Strategy: "adjacent", Chunks: "0:0-1:0,0:65535-0:65535,1:0-3:1"})
	d.compare(r, "C17", impl)
}

func minInt(a, b int) int {
	if a < b {
		return a
	}
	return b
}
