package main

import (
	"bufio"
	"bytes"
	"encoding/hex"
	"encoding/json"
	"fmt"
	"os"
	"os/exec"
	"runtime/debug"
	"sort"
	"strings"
	"time"
)

// Failure is a property violation observed on the implementation itself
// (judged by an oracle that does not depend on the Lean model).
type Failure struct {
	Signature string      `json:"signature"` // stable class of the failure, matched against known-findings.txt
	What      string      `json:"what"`
	Input     interface{} `json:"input"`
}

// Disagreement is a difference between the implementation and the model on the same operation.
type Disagreement struct {
	Stream string `json:"stream"`
	Op     string `json:"op"`
	Impl   string `json:"impl"`
	Model  string `json:"model"`
}

// Result is what one harness run reports to bin/check.
type Result struct {
	Property        string         `json:"property"`
	Tier            string         `json:"tier"`
	Seed            int64          `json:"seed"`
	Evaluations     int            `json:"evaluations"`
	Distinct        int            `json:"distinct_nontrivial"`
	Rule            string         `json:"rule"`
	Samples         []interface{}  `json:"samples"`
	Histogram       map[string]int `json:"histogram"`
	ModelOps        int            `json:"model_ops"`
	Disagreements   []Disagreement `json:"disagreements"`
	NDisagreements  int            `json:"n_disagreements"`
	Failures        []Failure      `json:"failures"`
	NFailures       int            `json:"n_failures"`
	TracesValidated int            `json:"traces_validated_against_impl"`
	Exhaustive      bool           `json:"exhaustive"`
	Notes           []string       `json:"notes"`
	distinct        map[string]bool
}

func newResult(prop, tier string, seed int64) *Result {
	return &Result{Property: prop, Tier: tier, Seed: seed, Histogram: map[string]int{}, distinct: map[string]bool{},
		Samples: []interface{}{}, Disagreements: []Disagreement{}, Failures: []Failure{}, Notes: []string{}}
}

func (r *Result) hist(k string) { r.Histogram[k]++ }

// eval counts one evaluated case; key identifies it for distinctness, nontrivial says whether
// it counts as non-trivial under the property's stated rule.
func (r *Result) eval(key string, nontrivial bool) {
	r.Evaluations++
	if nontrivial && !r.distinct[key] {
		if len(r.distinct) < 2000000 {
			r.distinct[key] = true
		}
		r.Distinct++
	}
}

func (r *Result) sample(s interface{}) {
	if len(r.Samples) < 12 {
		r.Samples = append(r.Samples, s)
	}
}

func (r *Result) fail(sig, what string, input interface{}) {
	r.NFailures++
	// keep at most 3 per signature (the smallest inputs seen, by encoded size), 60 in total
	size := func(x interface{}) int { b, _ := json.Marshal(x); return len(b) }
	n, worst, worstSize := 0, -1, -1
	for i, f := range r.Failures {
		if f.Signature == sig {
			n++
			if s := size(f.Input); s > worstSize {
				worst, worstSize = i, s
			}
		}
	}
	switch {
	case n < 3 && len(r.Failures) < 60:
		r.Failures = append(r.Failures, Failure{sig, what, input})
	case n >= 3 && size(input) < worstSize:
		r.Failures[worst] = Failure{sig, what, input}
	}
}

func (r *Result) disagree(stream, op, impl, model string) {
	r.NDisagreements++
	if len(r.Disagreements) < 25 {
		r.Disagreements = append(r.Disagreements, Disagreement{stream, op, impl, model})
	}
}

func (r *Result) note(format string, a ...interface{}) {
	r.Notes = append(r.Notes, fmt.Sprintf(format, a...))
}

func (r *Result) write(path string) {
	js, err := json.MarshalIndent(r, "", " ")
	if err != nil {
		panic(err)
	}
	if path == "" || path == "-" {
		os.Stdout.Write(js)
		return
	}
	if err := os.WriteFile(path, js, 0o644); err != nil {
		panic(err)
	}
}

// ---------------------------------------------------------------------------
// PRNG: every random choice derives from one splitmix64 state.

type Rand struct{ s uint64 }

func newRand(seed int64) *Rand { return &Rand{uint64(seed)*0x9e3779b97f4a7c15 + 0x1234567} }

func (r *Rand) u64() uint64 {
	r.s += 0x9e3779b97f4a7c15
	z := r.s
	z = (z ^ (z >> 30)) * 0xbf58476d1ce4e5b9
	z = (z ^ (z >> 27)) * 0x94d049bb133111eb
	return z ^ (z >> 31)
}
func (r *Rand) intn(n int) int {
	if n <= 0 {
		return 0
	}
	return int(r.u64() % uint64(n))
}
func (r *Rand) rng(lo, hi int) int     { return lo + r.intn(hi-lo+1) } // inclusive
func (r *Rand) coin(num, den int) bool { return r.intn(den) < num }
func (r *Rand) pick(xs []int) int      { return xs[r.intn(len(xs))] }
func (r *Rand) bytes(n int) []byte {
	b := make([]byte, n)
	for i := range b {
		b[i] = byte(r.u64())
	}
	return b
}
func (r *Rand) fork() *Rand { return &Rand{r.u64()} }

// ---------------------------------------------------------------------------
// model driver (batch): write all operation lines, read all result lines.

type Driver struct {
	path  string
	lines []string
}

func (d *Driver) add(format string, a ...interface{}) int {
	d.lines = append(d.lines, fmt.Sprintf(format, a...))
	return len(d.lines) - 1
}

// run executes the driver over all queued lines and returns one output line per input line.
func (d *Driver) run() ([]string, error) {
	if len(d.lines) == 0 {
		return nil, nil
	}
	cmd := exec.Command(d.path)
	var in bytes.Buffer
	for _, l := range d.lines {
		in.WriteString(l)
		in.WriteByte('\n')
	}
	cmd.Stdin = &in
	var out bytes.Buffer
	cmd.Stdout = &out
	var errb bytes.Buffer
	cmd.Stderr = &errb
	if err := cmd.Run(); err != nil {
		return nil, fmt.Errorf("driver: %v: %s", err, errb.String())
	}
	var res []string
	sc := bufio.NewScanner(&out)
	sc.Buffer(make([]byte, 1<<20), 1<<28)
	for sc.Scan() {
		res = append(res, sc.Text())
	}
	if len(res) != len(d.lines) {
		return res, fmt.Errorf("driver: %d lines in, %d lines out", len(d.lines), len(res))
	}
	return res, nil
}

// compare diffs implementation lines against model lines for the queued operations.
func (d *Driver) compare(r *Result, stream string, impl []string) {
	model, err := d.run()
	if err != nil {
		r.disagree(stream, "(driver failure)", "", err.Error())
		return
	}
	r.ModelOps += len(model)
	for i := range impl {
		if i >= len(model) {
			break
		}
		if impl[i] != model[i] {
			r.disagree(stream, d.lines[i], impl[i], model[i])
		}
	}
}

// ---------------------------------------------------------------------------
// guarded calls

type callOutcome struct {
	panicked bool
	panicVal string
	stack    string
	timedOut bool
}

// guard runs f with recover; panics become values.
func guard(f func()) (o callOutcome) {
	defer func() {
		if v := recover(); v != nil {
			o.panicked = true
			o.panicVal = fmt.Sprint(v)
			o.stack = string(debug.Stack())
		}
	}()
	f()
	return
}

// guardTimeout runs f in a goroutine under a watchdog. On time-out the goroutine is abandoned.
func guardTimeout(d time.Duration, f func()) callOutcome {
	ch := make(chan callOutcome, 1)
	go func() { ch <- guard(f) }()
	select {
	case o := <-ch:
		return o
	case <-time.After(d):
		return callOutcome{timedOut: true}
	}
}

// topRepoFrame extracts the first stack frame inside github.com/biogo/hts from a panic stack:
// the signature of a panic finding.
func topRepoFrame(stack string) string {
	lines := strings.Split(stack, "\n")
	for i, l := range lines {
		if strings.HasPrefix(l, "github.com/biogo/hts/") && !strings.Contains(l, "verif") {
			fn := l
			if j := strings.LastIndex(fn, "("); j > 0 {
				fn = fn[:j]
			}
			fn = strings.TrimPrefix(fn, "github.com/biogo/hts/")
			_ = i
			return fn
		}
	}
	return "unknown"
}

func hexs(b []byte) string {
	if len(b) == 0 {
		return "-"
	}
	return hex.EncodeToString(b)
}

func sortedKeys(m map[string]int) []string {
	ks := make([]string, 0, len(m))
	for k := range m {
		ks = append(ks, k)
	}
	sort.Strings(ks)
	return ks
}

func errClass(err error) string {
	if err == nil {
		return "ok"
	}
	return "err"
}
