package main

// C09 — I/O faults never hang and are never swallowed.
// Writer part: the writer-run machinery of c12.go with a fault injected at underlying Write #k.
// Reader part: c09_reader.go.

import (
	"fmt"
	"sync/atomic"
	"time"
)

func init() { checks["C09"] = checkC09 }

type c09Input struct {
	Kind   string        `json:"kind"` // writer | reader
	Writer *wInput       `json:"writer,omitempty"`
	Reader *rInput       `json:"reader,omitempty"`
	Hist   *c09HistInput `json:"hist,omitempty"` // reader history vs the operational fault model (c09_reader_model.go)
}

// wErrorOracle: after a failed underlying write, Close reports an error; once an API call has reported the
// error every later call reports one too.
func wErrorOracle(r *wRun) {
	if r.in.Bam || r.hang != nil || r.panicked != "" {
		if r.in.Bam && r.hang == nil && r.panicked == "" {
			wBamErrorOracle(r)
		}
		return
	}
	r.rw.mu.Lock()
	events := append([]string(nil), r.rw.events...)
	calls := r.rw.calls
	failedSeen := false
	known := false
	opi := -1
	var bad []wFail
	for _, e := range events {
		switch e[0] {
		case 'U':
			var idx int
			fmt.Sscanf(e, "U#%d", &idx)
			if calls[idx].failed {
				failedSeen = true
			}
		case 'C':
			opi++
		case 'R':
			res := e[1:]
			op := r.in.Ops[opi].K
			if res == "ok" {
				if op == "c" && failedSeen {
					bad = append(bad, wFail{"writer.close.nil.after-write-fault", fmt.Sprintf("Close (op %d) returned nil although an underlying Write had failed", opi)})
				}
				if known {
					name := map[string]string{"w": "write", "f": "flush", "wt": "wait", "c": "close"}[op]
					bad = append(bad, wFail{"writer." + name + ".nil.after-error-reported", fmt.Sprintf("op %d (%s) returned nil after an earlier call had reported the write error", opi, op)})
				}
			}
			if res == "err" {
				known = true
			}
		}
	}
	r.rw.mu.Unlock()
	// compression failure: the first Close of the script must report it
	if cfs := r.cfaults(); len(cfs) > 0 {
		for i, op := range r.in.Ops {
			if op.K == "c" {
				if i < len(r.results) && r.results[i] == "ok" {
					bad = append(bad, wFail{"writer.close.nil.after-compress-failure", fmt.Sprintf("Close (op %d) returned nil although writeBlock must have refused block %d", i, cfs[0])})
				}
				break
			}
		}
	}
	r.fails = append(r.fails, bad...)
}

func wBamErrorOracle(r *wRun) {
	anyFailed := false
	r.rw.mu.Lock()
	for _, c := range r.rw.calls {
		if c.failed {
			anyFailed = true
		}
	}
	r.rw.mu.Unlock()
	if !anyFailed {
		return
	}
	// results[0] is NewWriter; the last op, if it is Close, must report an error
	if r.newWriterErr != "" {
		return
	}
	n := len(r.results)
	if n >= 2 && len(r.in.Ops) == n-1 && r.in.Ops[n-2].K == "c" && r.results[n-1] == "ok" {
		r.fail("writer.close.nil.after-write-fault", "bam Close returned nil although an underlying Write had failed")
	}
}

// wGenFaultInput: a writer script with a fault at an underlying Write index inside (or just past) the run.
func wGenFaultInput(rnd *Rand) wInput {
	in := wGenInput(rnd, true)
	// estimate the number of underlying writes: one per chunk, plus the EOF marker
	sim := &wSim{}
	n := 0
	if in.Bam {
		n = 2 + len(in.Ops)/3
	} else {
		for _, o := range in.Ops {
			switch o.K {
			case "w":
				sim.write(o.N)
			case "f":
				sim.flush()
			case "c":
				sim.submit()
			}
		}
		n = len(sim.chunks) + 1
	}
	switch rnd.intn(6) {
	case 0:
		in.FaultAt = 0
	case 1:
		in.FaultAt = n - 1 // the EOF marker (or the last block)
	case 2:
		in.FaultAt = n - 2
	default:
		in.FaultAt = rnd.intn(n + 1)
	}
	if in.FaultAt < 0 {
		in.FaultAt = 0
	}
	in.Partial = rnd.coin(1, 2)
	in.Transient = rnd.coin(1, 3)
	if !in.Bam && rnd.coin(1, 5) {
		// compression failures instead of (or, rarely, together with) an I/O fault: a gzip header so large that
		// blocks overflow 64 KiB (all of them, or only the bigger ones), or a header gzip refuses
		switch rnd.intn(4) {
		case 0:
			in.ExtraLen = 65529
		case 1:
			in.ExtraLen = 65400
		case 2:
			in.ExtraLen = rnd.pick([]int{40000, 60000})
		case 3:
			in.BadName = true
		}
		if rnd.coin(5, 6) {
			in.FaultAt = -1
			in.Partial = false
			in.Transient = false
		}
	}
	return in
}

const c09MaxHangs = 10

func checkC09(c *ctx) {
	res := c.res
	res.Rule = "writer cases: the C12 script generator (bgzf scripts with Write/Flush/Wait/Close incl. calls after Close, and bam.NewWriter+records+Close) x wc 0..5 x GOMAXPROCS {1,2,16} x random delays, with a persistent fault from underlying Write #k on (k uniform over the run plus first/last/EOF-marker bias; error with or without partial data), and in 1 case of 5 a compression failure instead (gzip Extra of 40000..65529 bytes so that some or all blocks overflow 64 KiB, or a Name gzip refuses; predicted per block with compress/gzip). reader cases: a valid BGZF file (1..6 members incl. empty and full-size members) read by a random history of Read/ReadByte/Seek/Close with rd in {1,2,4}, no cache, over a source that fails from Read #k, byte offset p (member start, header end at +18, last byte ... biased) or Seek #k on: kind err = every later Read fails (error, or error after partial data); kind eof = the file is truncated there (reads below the cut succeed, also after a Seek; reads at or beyond it report io.EOF). Non-trivial = the fault was actually reached by the run; distinct by the whole input. Oracle on the implementation: every call returns (watchdog + goroutine dump: dead-lock vs slowness), no goroutine with bgzf frames after Close, Close != nil after a failed write and every call != nil once the error was reported, no underlying write after a failed one, Flush+Wait == nil still implies durability; reader: bytes returned equal the flat data at their position, no clean end before the true end. Correspondence: writer traces must be paths of the Lean LTS of the repaired protocol (c12.trace with the fault oracle); reader outcomes vs the sequential fault model (c09.read)."
	if runInChild(c, "C09") {
		return
	}
	d := c.drv()
	var impl []string
	var ins []wInput
	if c.replay != "" {
		var in c09Input
		if err := loadReplay(c.replay, &in); err != nil {
			res.note("replay: %v", err)
			return
		}
		noteCase(in)
		switch {
		case in.Writer != nil:
			r := wRunScript(*in.Writer)
			wErrorOracle(r)
			c09JudgeWriter(c, r, d, &impl, &ins)
			res.eval(in.Writer.shape(), true)
			wCompare(c, d, impl, ins)
		case in.Reader != nil:
			rd := c.drv()
			var rimpl []string
			rRunAndJudge(c, *in.Reader, rd, &rimpl)
			rd.compare(res, "c09.read", rimpl)
			res.eval("replay", true)
		case in.Hist != nil:
			rd := c.drv()
			var rimpl []string
			c09HistRun(c, *in.Hist, rd, &rimpl)
			rd.compare(res, "c09.hist", rimpl)
			res.eval("replay", true)
		}
		return
	}
	nW, nR := 220, 1500
	budgetW, budgetR := 35*time.Second, 20*time.Second
	if c.thorough() {
		nW, nR = 5000, 40000
		budgetW, budgetR = 10*time.Minute, 8*time.Minute
	}
	start := time.Now()
	// corpus first: the smallest scripts that strand a compressor (three one-byte blocks, fault at Write #k)
	var grid []wInput
	for wc := 0; wc <= 3; wc++ {
		for k := 0; k <= 4; k++ {
			for shape := 0; shape < 3; shape++ {
				in := wInput{WC: wc, Procs: 2, FaultAt: k, MaxDelayUs: 200, DelaySeed: uint64(wc*17 + k), DataSeed: 7}
				switch shape {
				case 0:
					in.Ops = []wOp{{K: "w", N: 1}, {K: "f"}, {K: "w", N: 1}, {K: "f"}, {K: "w", N: 1}, {K: "f"}, {K: "c"}}
				case 1:
					in.Ops = []wOp{{K: "w", N: 1}, {K: "f"}, {K: "w", N: 1}, {K: "f"}, {K: "w", N: 1}, {K: "f"}, {K: "wt"}, {K: "c"}}
				case 2:
					in.Ops = []wOp{{K: "w", N: 3 * wBlockSize}, {K: "c"}}
				}
				grid = append(grid, in)
			}
		}
	}
	for i := 0; i < nW+len(grid); i++ {
		if time.Since(start) > budgetW {
			res.note("writer: time budget reached after %d cases", i)
			break
		}
		var in wInput
		if i < len(grid) {
			in = grid[i]
			res.hist("writer-case=grid")
		} else {
			in = wGenFaultInput(c.rnd)
			res.hist("writer-case=random")
		}
		noteCase(c09Input{Kind: "writer", Writer: &in})
		r := wRunScript(in)
		wErrorOracle(r)
		c09JudgeWriter(c, r, d, &impl, &ins)
		wHist(res, in, r)
		reached := false
		r.rw.mu.Lock()
		for _, cl := range r.rw.calls {
			if cl.failed {
				reached = true
			}
		}
		r.rw.mu.Unlock()
		if in.ExtraLen > 0 || in.BadName {
			cfs := r.cfaults()
			if len(cfs) > 0 {
				reached = true
				res.hist("writer-compress-failure=some-block")
				if len(cfs) == r.realChunks {
					res.hist("writer-compress-failure=every-block")
				}
			} else {
				res.hist("writer-compress-failure=none")
			}
		}
		if reached {
			res.hist("writer-fault=reached")
			if in.Partial {
				res.hist("writer-fault=partial-data")
			}
		} else {
			res.hist("writer-fault=not-reached")
		}
		res.eval(fmt.Sprintf("w|%d|%s|%d|%d|%v|%d|%v|%d|%v", in.WC, in.shape(), in.Procs, in.MaxDelayUs, in.Bam, in.FaultAt, in.Partial, in.ExtraLen, in.BadName), reached)
		if i%40 == 0 {
			ev, _, _, _ := r.trace()
			res.sample(map[string]interface{}{"input": c09Input{Kind: "writer", Writer: &in}, "script": joinOr(r.script), "trace": joinOr(ev), "results": r.results})
		}
		if atomic.LoadInt32(&wHangs) >= c09MaxHangs {
			res.note("writer: stopping the fault scenarios after %d hung writers (their parked goroutines are abandoned, bounded)", atomic.LoadInt32(&wHangs))
			break
		}
	}
	wCompare(c, d, impl, ins)
	res.TracesValidated = len(impl)

	checkC09Reader(c, nR, budgetR)
}

// c09JudgeWriter wraps wJudge so that failures carry a c09Input (replayable by this check).
func c09JudgeWriter(c *ctx, r *wRun, d *Driver, impl *[]string, ins *[]wInput) {
	before := len(c.res.Failures)
	nb := c.res.NFailures
	wJudge(c, r, d, impl, ins)
	_ = nb
	for i := before; i < len(c.res.Failures); i++ {
		if in, ok := c.res.Failures[i].Input.(wInput); ok {
			cp := in
			c.res.Failures[i].Input = c09Input{Kind: "writer", Writer: &cp}
		}
	}
	// failures that replaced an older entry (fail keeps the smallest three per signature)
	for i := range c.res.Failures {
		if in, ok := c.res.Failures[i].Input.(wInput); ok {
			cp := in
			c.res.Failures[i].Input = c09Input{Kind: "writer", Writer: &cp}
		}
	}
}
