package main

// C01 — BGZF write -> read round trip.  Also holds the BGZF infrastructure shared with C08:
// script/payload generators, the guarded implementation runner and the independent
// RFC 1952 / BGZF framing parser (which does not use the library under test).

import (
	"bytes"
	"compress/flate"
	"encoding/binary"
	"fmt"
	"hash/crc32"
	"io"
	"runtime"
	"strconv"
	"strings"
	"time"

	"github.com/biogo/hts/bgzf"
)

func init() { checks["C01"] = checkC01 }

const (
	bgzfBS    = 0xff00  // expected BlockSize (the tie theorem pins the source constant; the harness uses bgzf.BlockSize below)
	bgzfMaxBS = 0x10000 // expected MaxBlockSize
)

// ---------------------------------------------------------------------------
// inputs

type bgzfHeader struct {
	Name    []int  `json:"name,omitempty"`    // runes of the Go string
	Comment []int  `json:"comment,omitempty"` // runes of the Go string
	Extra   string `json:"extra,omitempty"`   // hex
	MTime   int64  `json:"mtime"`             // seconds; 0 = zero time.Time
	OS      int    `json:"os"`
	SetOS   bool   `json:"set_os"` // false: leave the writer's default (0xff)
}

type bgzfInput struct {
	Level    int        `json:"level"`
	WC       int        `json:"wc"`
	AltWC    []int      `json:"alt_wc,omitempty"` // C08: further wc values whose output must be byte-identical
	RD       int        `json:"rd"`
	Ops      []string   `json:"ops"`  // w<len> | f | t | c
	Data     string     `json:"data"` // rand | text | zero | mixed
	DataSeed uint64     `json:"data_seed"`
	Delay    bool       `json:"delay"` // randomly yielding underlying writer
	ReadOps  []string   `json:"read_ops,omitempty"`
	Header   bgzfHeader `json:"header"`
	Procs    int        `json:"gomaxprocs,omitempty"`
}

func runesToString(rs []int) string {
	var sb strings.Builder
	for _, r := range rs {
		sb.WriteRune(rune(r))
	}
	return sb.String()
}

func runesArg(rs []int) string {
	if len(rs) == 0 {
		return "-"
	}
	s := make([]string, len(rs))
	for i, r := range rs {
		s[i] = strconv.Itoa(r)
	}
	return strings.Join(s, ",")
}

func (h bgzfHeader) extraBytes() []byte {
	if h.Extra == "" || h.Extra == "-" {
		return nil
	}
	var b []byte
	fmt.Sscanf(h.Extra, "%x", &b)
	return b
}

// driver arguments "<name> <comment> <extra> <mtime> <os>"
func (h bgzfHeader) drvArgs() string {
	os := 0xff
	if h.SetOS {
		os = h.OS
	}
	mt := h.MTime
	if mt < 0 {
		mt = 0
	}
	return fmt.Sprintf("%s %s %s %d %d", runesArg(h.Name), runesArg(h.Comment), hexs(h.extraBytes()), mt, os)
}

func (h bgzfHeader) isDefault() bool {
	return len(h.Name) == 0 && len(h.Comment) == 0 && len(h.extraBytes()) == 0 && h.MTime == 0 && !h.SetOS
}

// scriptData generates the flat payload of a script deterministically from (kind, seed, n).
func scriptData(kind string, seed uint64, n int) []byte {
	r := &Rand{seed}
	b := make([]byte, n)
	switch kind {
	case "zero":
	case "text":
		words := []string{"chr1\t", "ACGTACGTTTGA", "\t255\t", "100M", "IIIIIIIIIIHH", "\n", "NM:i:0", "read_"}
		i := 0
		for i < n {
			w := words[r.intn(len(words))]
			i += copy(b[i:], w)
		}
	case "mixed":
		i := 0
		for i < n {
			run := 1 + r.intn(5000)
			if i+run > n {
				run = n - i
			}
			if r.coin(1, 2) {
				for j := 0; j < run; j++ {
					b[i+j] = byte(r.u64())
				}
			} else {
				c := byte(r.u64())
				for j := 0; j < run; j++ {
					b[i+j] = c
				}
			}
			i += run
		}
	default: // rand: incompressible
		for i := 0; i+8 <= n; i += 8 {
			binary.LittleEndian.PutUint64(b[i:], r.u64())
		}
		for i := n &^ 7; i < n; i++ {
			b[i] = byte(r.u64())
		}
	}
	return b
}

func parseWOps(ops []string) (kinds []byte, lens []int, total int, err error) {
	for _, o := range ops {
		switch {
		case o == "f" || o == "t" || o == "c":
			kinds = append(kinds, o[0])
			lens = append(lens, 0)
		case strings.HasPrefix(o, "w"):
			n, e := strconv.Atoi(o[1:])
			if e != nil || n < 0 {
				return nil, nil, 0, fmt.Errorf("bad op %q", o)
			}
			kinds = append(kinds, 'w')
			lens = append(lens, n)
			total += n
		default:
			return nil, nil, 0, fmt.Errorf("bad op %q", o)
		}
	}
	return
}

// acceptedLen = bytes of the writes before the first close (what a correct writer must store).
func acceptedLen(kinds []byte, lens []int) int {
	n := 0
	for i, k := range kinds {
		if k == 'c' {
			break
		}
		if k == 'w' {
			n += lens[i]
		}
	}
	return n
}

// genNext mirrors nothing but the generator's wish to know roughly where `next` is, so that the
// following write can be aimed at a block boundary (bias only; correctness never depends on it).
func genNext(next, n int) int {
	for n > 0 {
		if next == 0 || next+n <= bgzfBS {
			c := n
			if c > bgzfBS-next {
				c = bgzfBS - next
			}
			next += c
			n -= c
			if next == bgzfBS {
				next = 0
			}
		} else {
			next = 0
		}
	}
	return next
}

// genWriteScript: boundary-biased write script that ends with Close (sometimes followed by more ops).
func genWriteScript(r *Rand, maxOps int, big bool) []string {
	var ops []string
	next := 0
	nops := 1 + r.intn(maxOps)
	bs := bgzfBS
	for i := 0; i < nops; i++ {
		switch r.intn(12) {
		case 0:
			ops = append(ops, "f")
			next = 0
			continue
		case 1:
			ops = append(ops, "t")
			continue
		case 2:
			ops = append(ops, "f", "t")
			next = 0
			continue
		}
		var n int
		switch r.intn(10) {
		case 0:
			n = 0
		case 1:
			n = 1
		case 2:
			n = r.pick([]int{bs - 1, bs, bs + 1})
		case 3:
			if big {
				n = r.pick([]int{2*bs - 1, 2 * bs, 2*bs + 1})
			} else {
				n = r.pick([]int{bs - 2, bs + 2, 2})
			}
		case 4, 5: // aim `next` at the block boundary: fill the active block to BlockSize-1 / BlockSize / BlockSize+1
			n = bs - next + r.pick([]int{-1, 0, 1})
			if n < 0 {
				n = 0
			}
		case 6: // one byte short of / exactly / beyond the room left, after a partial block
			n = bs - next + r.pick([]int{-2, 2, bs - 1, bs, bs + 1})
			if n < 0 || (!big && n > bs+2) {
				n = 3
			}
		case 7:
			n = 1 + r.intn(300)
		case 8:
			n = 1 + r.intn(bs)
		default:
			n = 2 + r.intn(40)
		}
		ops = append(ops, fmt.Sprintf("w%d", n))
		next = genNext(next, n)
	}
	ops = append(ops, "c")
	if r.coin(1, 8) { // calls after Close
		ops = append(ops, r.pickS([]string{"w5", "f", "t", "c", "w0"}))
		if r.coin(1, 2) {
			ops = append(ops, "c")
		}
	}
	return ops
}

func (r *Rand) pickS(xs []string) string { return xs[r.intn(len(xs))] }

// ---------------------------------------------------------------------------
// implementation runner

type yieldWriter struct {
	buf bytes.Buffer
	r   *Rand
	on  bool
}

func (w *yieldWriter) Write(p []byte) (int, error) {
	if w.on {
		switch w.r.intn(4) {
		case 0:
			runtime.Gosched()
		case 1:
			time.Sleep(time.Duration(w.r.intn(200)) * time.Microsecond)
		}
	}
	return w.buf.Write(p)
}

type writeRun struct {
	out      []byte
	results  []string // per op: ok<n> | closed | err:<msg>
	closeErr error    // result of the first Close
	closed   bool
	nexts    []int // Writer.Next() observed before each op (-1: Next returned an error)
	lastNext int   // scripts without Close: Writer.Next() after the last op (bytes held in the active block)
	hang     string // op index description when the watchdog fired
	panicked *callOutcome
}

func bgzfWatchdog(c *ctx) time.Duration {
	if c.thorough() {
		return 60 * time.Second
	}
	return 30 * time.Second
}

// runWriter executes the write script on the real bgzf.Writer with an underlying writer that never fails.
func runWriter(c *ctx, in bgzfInput, wc int, data []byte) writeRun {
	var wr writeRun
	kinds, lens, _, err := parseWOps(in.Ops)
	if err != nil {
		wr.hang = "bad script: " + err.Error()
		return wr
	}
	uw := &yieldWriter{r: &Rand{in.DataSeed ^ uint64(wc)*7919}, on: in.Delay}
	var w *bgzf.Writer
	o := guardTimeout(bgzfWatchdog(c), func() {
		var e error
		w, e = bgzf.NewWriterLevel(uw, in.Level, wc)
		if e != nil {
			panic("NewWriterLevel: " + e.Error())
		}
		h := in.Header
		w.Name = runesToString(h.Name)
		w.Comment = runesToString(h.Comment)
		if ex := h.extraBytes(); ex != nil {
			w.Extra = ex
		}
		if h.MTime != 0 {
			w.ModTime = time.Unix(h.MTime, 0)
		}
		if h.SetOS {
			w.OS = byte(h.OS)
		}
	})
	if o.panicked || o.timedOut {
		wr.panicked = &o
		return wr
	}
	pos := 0
	for i, k := range kinds {
		var res string
		o := guardTimeout(bgzfWatchdog(c), func() {
			if nx, e := w.Next(); e == nil {
				wr.nexts = append(wr.nexts, nx)
			} else {
				wr.nexts = append(wr.nexts, -1)
			}
			switch k {
			case 'w':
				var p []byte
				if pos+lens[i] <= len(data) {
					p = data[pos : pos+lens[i]]
				} else { // writes after Close: any bytes
					p = make([]byte, lens[i])
				}
				// io.Writer: Write must not retain p. The caller's buffer is a private copy that is
				// overwritten as soon as Write returns (the io.CopyBuffer / bam.Writer usage pattern).
				q := append([]byte(nil), p...)
				n, e := w.Write(q)
				for j := range q {
					q[j] ^= 0xa5
				}
				if !wr.closed {
					pos += lens[i]
				}
				res = classifyW(n, e)
			case 'f':
				res = classifyW(0, w.Flush())
			case 't':
				res = classifyW(0, w.Wait())
			case 'c':
				e := w.Close()
				if !wr.closed {
					wr.closed = true
					wr.closeErr = e
				}
				res = classifyW(0, e)
			}
		})
		if o.timedOut {
			wr.hang = fmt.Sprintf("op %d (%s)", i, in.Ops[i])
			return wr
		}
		if o.panicked {
			wr.panicked = &o
			return wr
		}
		wr.results = append(wr.results, res)
	}
	if !wr.closed {
		// a script without Close: let the writer come to rest (Wait), look at what has been delivered, then close
		// the writer only to release its goroutines (that output is discarded)
		var snap []byte
		o := guardTimeout(bgzfWatchdog(c), func() {
			if e := w.Wait(); e != nil {
				panic("Wait at the end of an unclosed script: " + e.Error())
			}
			snap = append([]byte{}, uw.buf.Bytes()...)
			wr.lastNext, _ = w.Next()
			w.Close()
		})
		if o.timedOut {
			wr.hang = "Wait/Close at the end of an unclosed script"
			return wr
		}
		if o.panicked {
			wr.panicked = &o
			return wr
		}
		wr.out = snap
		return wr
	}
	wr.out = uw.buf.Bytes()
	return wr
}

func classifyW(n int, e error) string {
	switch e {
	case nil:
		return fmt.Sprintf("ok%d", n)
	case bgzf.ErrClosed:
		return "closed"
	case bgzf.ErrBlockOverflow:
		return "overflow"
	}
	return "err:" + e.Error()
}

// ---------------------------------------------------------------------------
// independent RFC 1952 / BGZF framing parser (compress/flate for DEFLATE, hash/crc32; no library code)

type gzMember struct {
	Off, Size  int
	Flg        byte
	MTime      uint32
	XFL, OS    byte
	Extra      []byte
	Name       []byte
	Comment    []byte
	HdrLen     int
	Subfields  bool // the extra field is a well-formed sub-field sequence
	BSize      int  // value of the first BC sub-field of length 2, -1 if none
	NBC        int  // number of BC sub-fields of length 2
	Payload    []byte
	DeflateLen int
	CRC, ISize uint32
}

type countByteReader struct {
	b []byte
	i int
}

func (r *countByteReader) Read(p []byte) (int, error) {
	if r.i >= len(r.b) {
		return 0, io.EOF
	}
	n := copy(p, r.b[r.i:])
	r.i += n
	return n, nil
}
func (r *countByteReader) ReadByte() (byte, error) {
	if r.i >= len(r.b) {
		return 0, io.EOF
	}
	c := r.b[r.i]
	r.i++
	return c, nil
}

// parseGzMember parses one gzip member at b[off:] strictly by RFC 1952; the member's end is found by
// decoding the DEFLATE stream (not by BSIZE).  err is a short class name.
func parseGzMember(b []byte, off int) (m gzMember, err error) {
	s := b[off:]
	m.Off = off
	m.BSize = -1
	if len(s) < 10 {
		return m, fmt.Errorf("short-header")
	}
	if s[0] != 0x1f || s[1] != 0x8b {
		return m, fmt.Errorf("bad-magic")
	}
	if s[2] != 8 {
		return m, fmt.Errorf("bad-cm")
	}
	m.Flg = s[3]
	if m.Flg&0xe0 != 0 {
		return m, fmt.Errorf("reserved-flg")
	}
	m.MTime = binary.LittleEndian.Uint32(s[4:8])
	m.XFL, m.OS = s[8], s[9]
	p := 10
	if m.Flg&4 != 0 {
		if len(s) < p+2 {
			return m, fmt.Errorf("short-xlen")
		}
		xlen := int(s[p]) | int(s[p+1])<<8
		p += 2
		if len(s) < p+xlen {
			return m, fmt.Errorf("short-extra")
		}
		m.Extra = s[p : p+xlen]
		p += xlen
		// sub-field walk
		m.Subfields = true
		for q := 0; q < len(m.Extra); {
			if q+4 > len(m.Extra) {
				m.Subfields = false
				break
			}
			sl := int(m.Extra[q+2]) | int(m.Extra[q+3])<<8
			if q+4+sl > len(m.Extra) {
				m.Subfields = false
				break
			}
			if m.Extra[q] == 'B' && m.Extra[q+1] == 'C' && sl == 2 {
				if m.NBC == 0 {
					m.BSize = int(m.Extra[q+4]) | int(m.Extra[q+5])<<8
				}
				m.NBC++
			}
			q += 4 + sl
		}
	}
	cstr := func() ([]byte, error) {
		i := bytes.IndexByte(s[p:], 0)
		if i < 0 {
			return nil, fmt.Errorf("unterminated-string")
		}
		v := s[p : p+i]
		p += i + 1
		return v, nil
	}
	if m.Flg&8 != 0 {
		if m.Name, err = cstr(); err != nil {
			return m, err
		}
	}
	if m.Flg&16 != 0 {
		if m.Comment, err = cstr(); err != nil {
			return m, err
		}
	}
	if m.Flg&2 != 0 {
		if len(s) < p+2 {
			return m, fmt.Errorf("short-hcrc")
		}
		if uint16(crc32.ChecksumIEEE(s[:p])) != binary.LittleEndian.Uint16(s[p:]) {
			return m, fmt.Errorf("bad-hcrc")
		}
		p += 2
	}
	m.HdrLen = p
	cr := &countByteReader{b: s[p:]}
	fr := flate.NewReader(cr)
	var data bytes.Buffer
	if _, e := io.Copy(&data, io.LimitReader(fr, 1<<24)); e != nil {
		return m, fmt.Errorf("bad-deflate")
	}
	m.Payload = data.Bytes()
	m.DeflateLen = cr.i
	p += cr.i
	if len(s) < p+8 {
		return m, fmt.Errorf("short-trailer")
	}
	m.CRC = binary.LittleEndian.Uint32(s[p:])
	m.ISize = binary.LittleEndian.Uint32(s[p+4:])
	m.Size = p + 8
	if m.CRC != crc32.ChecksumIEEE(m.Payload) {
		return m, fmt.Errorf("bad-crc")
	}
	if m.ISize != uint32(len(m.Payload)) {
		return m, fmt.Errorf("bad-isize")
	}
	return m, nil
}

// bgzfConformance returns the class of the first BGZF constraint the member violates, or "".
func bgzfConformance(m gzMember) string {
	switch {
	case m.Flg&4 == 0:
		return "no-fextra"
	case !m.Subfields:
		return "extra-not-subfields"
	case m.BSize < 0:
		return "no-bc-subfield"
	case m.BSize != m.Size-1:
		return "bsize"
	case m.Size > bgzfMaxBS:
		return "size>64K"
	case len(m.Payload) > bgzfBS:
		return "payload>65280"
	}
	return ""
}

// parseGzStream parses the whole stream; on error the members parsed so far are returned too.
func parseGzStream(b []byte) (ms []gzMember, err error, errOff int) {
	off := 0
	for off < len(b) {
		m, e := parseGzMember(b, off)
		if e != nil {
			return ms, e, off
		}
		ms = append(ms, m)
		off += m.Size
	}
	return ms, nil, 0
}

func isMarker(b []byte) bool {
	const magic = "\x1f\x8b\x08\x04\x00\x00\x00\x00\x00\xff\x06\x00\x42\x43\x02\x00\x1b\x00\x03\x00\x00\x00\x00\x00\x00\x00\x00\x00"
	return string(b) == magic
}

func endsWithMarker(b []byte) bool { return len(b) >= 28 && isMarker(b[len(b)-28:]) }

func intsJoin(xs []int) string {
	if len(xs) == 0 {
		return "-"
	}
	s := make([]string, len(xs))
	for i, x := range xs {
		s[i] = strconv.Itoa(x)
	}
	return strings.Join(s, ",")
}

// ---------------------------------------------------------------------------
// reader side

// genReadScript builds a boundary-biased read script for a file with the given block lengths.
func genReadScript(r *Rand, blockLens []int, total int) []string {
	var ops []string
	remain := total
	nz := []int{}
	for _, l := range blockLens {
		if l > 0 {
			nz = append(nz, l)
		}
	}
	style := r.intn(6)
	for len(ops) < 60 {
		var n int
		byteOp := false
		switch style {
		case 0: // whole file in one read (+ slack)
			n = total + r.pick([]int{0, 1, 100})
		case 1: // block-sized reads
			if len(nz) > 0 {
				n = r.pick(nz) + r.pick([]int{-1, 0, 1})
			} else {
				n = 1
			}
		case 2: // > 64 KiB
			n = 65536 + r.intn(70000)
		default:
			switch r.intn(10) {
			case 0:
				n = 0
			case 1:
				n = 1
			case 2, 3:
				byteOp = true
			case 4:
				if len(nz) > 0 {
					n = r.pick(nz) + r.pick([]int{-1, 0, 1})
				}
			case 5:
				n = remain + r.pick([]int{-1, 0, 1})
			case 6:
				n = 65536 + r.intn(70000)
			case 7:
				n = bgzfBS + r.pick([]int{-1, 0, 1})
			default:
				n = 1 + r.intn(3000)
			}
		}
		if n < 0 {
			n = 0
		}
		if byteOp {
			k := 1 + r.intn(3)
			for j := 0; j < k; j++ {
				ops = append(ops, "b")
				if remain > 0 {
					remain--
				}
			}
		} else {
			ops = append(ops, fmt.Sprintf("r%d", n))
			if n >= remain {
				remain = 0
			} else {
				remain -= n
			}
		}
		if remain == 0 && r.coin(1, 2) {
			break
		}
	}
	// drain, then look at the end twice more
	for remain > 0 {
		n := 100000
		ops = append(ops, fmt.Sprintf("r%d", n))
		if n >= remain {
			remain = 0
		} else {
			remain -= n
		}
	}
	ops = append(ops, r.pickS([]string{"r1", "b", "r0", "r70000"}), r.pickS([]string{"r1", "b", "r0"}))
	return ops
}

type readRun struct {
	newErr  error
	results []string // per op  n:first:eof
	got     []byte
	sawEOF  bool
	errs    []string // non-EOF errors
	short   []string // short read without EOF
	hang    string
	panick  *callOutcome
}

// runReader reads `file` back with the real bgzf.Reader following the read script.
func runReader(c *ctx, file []byte, rd int, ops []string) readRun {
	var rr readRun
	var rdr *bgzf.Reader
	o := guardTimeout(bgzfWatchdog(c), func() {
		rdr, rr.newErr = bgzf.NewReader(bytes.NewReader(file), rd)
	})
	if o.timedOut {
		rr.hang = "NewReader"
		return rr
	}
	if o.panicked {
		rr.panick = &o
		return rr
	}
	if rr.newErr != nil {
		return rr
	}
	defer func() {
		o := guardTimeout(bgzfWatchdog(c), func() { rdr.Close() })
		if o.timedOut && rr.hang == "" {
			rr.hang = "Reader.Close"
		}
	}()
	pos := 0
	for i, op := range ops {
		var n int
		var err error
		var buf []byte
		o := guardTimeout(bgzfWatchdog(c), func() {
			if op == "b" {
				var b byte
				b, err = rdr.ReadByte()
				if err == nil {
					buf = []byte{b}
					n = 1
				}
			} else {
				want, _ := strconv.Atoi(op[1:])
				buf = make([]byte, want)
				n, err = rdr.Read(buf)
				buf = buf[:n]
			}
		})
		if o.timedOut {
			rr.hang = fmt.Sprintf("read op %d (%s)", i, op)
			return rr
		}
		if o.panicked {
			rr.panick = &o
			return rr
		}
		first := "-"
		if n > 0 {
			first = strconv.Itoa(pos)
		}
		e := "0"
		switch {
		case err == io.EOF:
			e = "1"
			rr.sawEOF = true
		case err != nil:
			e = "err"
			rr.errs = append(rr.errs, fmt.Sprintf("op %d %s: %v", i, op, err))
		default:
			if op != "b" {
				want, _ := strconv.Atoi(op[1:])
				if n < want {
					rr.short = append(rr.short, fmt.Sprintf("op %d %s returned %d bytes and a nil error", i, op, n))
				}
			}
		}
		rr.results = append(rr.results, fmt.Sprintf("%d:%s:%s", n, first, e))
		rr.got = append(rr.got, buf[:n]...)
		pos += n
	}
	return rr
}


// ---------------------------------------------------------------------------
// tie of Member.readStream (the reader half of the round-trip theorem) to bgzf.Reader on produced bytes

// readBlocksBlocked reads `file` with the real reader in Blocked mode: every Read ends at the end of the
// current block, so the lengths of the non-empty blocks the READER finds are observable.
func readBlocksBlocked(c *ctx, file []byte, rd int) (lens []int, data []byte, errc string, o callOutcome) {
	o = guardTimeout(bgzfWatchdog(c), func() {
		rdr, err := bgzf.NewReader(bytes.NewReader(file), rd)
		if err != nil {
			errc = "newreader:" + err.Error()
			return
		}
		defer rdr.Close()
		rdr.Blocked = true
		buf := make([]byte, 1<<17)
		for {
			n, err := rdr.Read(buf)
			if n > 0 {
				lens = append(lens, n)
				data = append(data, buf[:n]...)
			}
			if err != nil && err != io.EOF {
				errc = "read:" + err.Error()
				return
			}
			if n == 0 && err == io.EOF {
				return
			}
			if n == 0 && err == nil {
				errc = "read: 0, nil"
				return
			}
		}
	})
	return
}

func dataHash01(b []byte) uint64 { // = Hts.Drv.C10.dataHash
	var h uint64
	for _, x := range b {
		h = (h*131 + uint64(x) + 1) % 4294967291
	}
	return h
}

// readStreamTie queues `c01.readstream` for the produced bytes: the model's member walk (gzip header incl.
// Name/Comment/Extra, expectedMemberSize, BSIZE-delimited buffer, inflate, CRC/ISIZE) must find the same
// non-empty blocks and data as the library reader, or both must refuse the stream. `ms` = the members found by
// the harness's independent parser (they supply the inflate table); prop = "c01" | "c08" for signatures.
func readStreamTie(c *ctx, prop string, in bgzfInput, out []byte, ms []gzMember, rd int, d *Driver, impl *[]string) {
	r := c.res
	lens, data, errc, o := readBlocksBlocked(c, out, rd)
	if o.timedOut {
		r.fail(prop+".hang.reader", "Blocked-mode read of the writer's output did not return", in)
		return
	}
	if o.panicked {
		r.fail(prop+".panic:"+topRepoFrame(o.stack), o.panicVal, in)
		return
	}
	var tbl []string
	nblocks := 0
	for _, m := range ms {
		// the buffer readMember hands to inflate: DEFLATE stream + 8-byte trailer
		tbl = append(tbl, fmt.Sprintf("%d:%d:%d:%s", m.Off+m.HdrLen, m.Size-m.HdrLen, m.DeflateLen, hexs(m.Payload)))
		nblocks++
	}
	tb := "-"
	if len(tbl) > 0 {
		tb = strings.Join(tbl, ",")
	}
	d.add("c01.readstream %s %s", hexs(out), tb)
	if errc != "" {
		r.hist("readstream.reader-refuses")
		*impl = append(*impl, "none")
		return
	}
	r.hist("readstream.ok")
	*impl = append(*impl, fmt.Sprintf("%s|%d|%d", intsJoin(lens), nblocks, dataHash01(data)))
}

// ---------------------------------------------------------------------------
// one C01 case

func lenClass(n int) string {
	bs := bgzfBS
	switch {
	case n == 0:
		return "0"
	case n == 1:
		return "1"
	case n == bs-1:
		return "BS-1"
	case n == bs:
		return "BS"
	case n == bs+1:
		return "BS+1"
	case n == 2*bs-1 || n == 2*bs || n == 2*bs+1:
		return "2BS+-1"
	case n < 512:
		return "small"
	case n < bs:
		return "<BS"
	case n < 2*bs:
		return "BS..2BS"
	}
	return ">2BS"
}

func firstDiff(a, b []byte) int {
	n := len(a)
	if len(b) < n {
		n = len(b)
	}
	for i := 0; i < n; i++ {
		if a[i] != b[i] {
			return i
		}
	}
	if len(a) != len(b) {
		return n
	}
	return -1
}

func c01One(c *ctx, inp *bgzfInput, d *Driver, impl *[]string) {
	r := c.res
	in := *inp
	defer func() { inp.ReadOps = in.ReadOps }()
	if in.Procs > 0 {
		defer runtime.GOMAXPROCS(runtime.GOMAXPROCS(in.Procs))
	}
	kinds, lens, total, err := parseWOps(in.Ops)
	if err != nil {
		r.note("bad input: %v", err)
		return
	}
	data := scriptData(in.Data, in.DataSeed, total)
	want := data[:acceptedLen(kinds, lens)]

	wr := runWriter(c, in, in.WC, data)
	if wr.hang != "" {
		r.fail("c01.hang.writer", "writer call did not return: "+wr.hang, in)
		return
	}
	if wr.panicked != nil {
		if wr.panicked.timedOut {
			r.fail("c01.hang.writer", "NewWriterLevel did not return", in)
		} else {
			r.fail("c01.panic:"+topRepoFrame(wr.panicked.stack), wr.panicked.panicVal, in)
		}
		return
	}
	// oracle on the write results (underlying writer never fails, default header: nothing may fail)
	closedSeen := false
	for i, k := range kinds {
		exp := "ok0"
		if k == 'w' {
			exp = fmt.Sprintf("ok%d", lens[i])
		}
		if closedSeen && (k == 'w' || k == 'f') {
			exp = "closed"
		}
		if k == 'c' {
			closedSeen = true
		}
		if wr.results[i] != exp {
			r.fail("c01.write.result", fmt.Sprintf("op %d (%s) returned %s, expected %s", i, in.Ops[i], wr.results[i], exp), in)
			return
		}
	}
	// independent framing parse
	ms, perr, poff := parseGzStream(wr.out)
	if perr != nil {
		sig := "c01.output.unparsable." + perr.Error()
		if poff+12 <= len(wr.out) && bytes.Contains(wr.out[poff+4:poff+12], []byte("BC\x02\x00")) {
			sig += ".bc-in-fixed-header"
		}
		r.fail(sig, fmt.Sprintf("independent gzip parser: %v at offset %d of %d", perr, poff, len(wr.out)), in)
		return
	}
	var plens []int
	var flat []byte
	for _, m := range ms {
		plens = append(plens, len(m.Payload))
		flat = append(flat, m.Payload...)
	}
	if !bytes.Equal(flat, want) {
		r.fail("c01.output.data", fmt.Sprintf("members decode to %d bytes, %d were written; first difference at %d", len(flat), len(want), firstDiff(flat, want)), in)
		return
	}
	// correspondence 1: block structure = model's (data blocks, then the marker as an empty block)
	if d != nil {
		d.add("c01.write %s", strings.Join(in.Ops, ","))
		dataLens := plens
		if len(ms) > 0 && isMarker(wr.out[ms[len(ms)-1].Off:]) {
			dataLens = plens[:len(plens)-1]
		}
		*impl = append(*impl, fmt.Sprintf("%s|%s|0", strings.Join(wr.results, ","), intsJoin(dataLens)))
	}
	// members at the 64 KiB limit (BSIZE 0xfffd..0xffff) get their own failure class and always the byte-level tie
	limitSig := ""
	nearLimit := false
	for _, m := range ms {
		if m.Size == bgzfMaxBS {
			limitSig = ".member-64KiB"
		}
		if m.Size >= bgzfMaxBS-2 {
			nearLimit = true
		}
	}
	// read back
	readOps := in.ReadOps
	if readOps == nil {
		readOps = genReadScript(c.rnd.fork(), plens, len(want))
		in.ReadOps = readOps
	}
	rr := runReader(c, wr.out, in.RD, readOps)
	switch {
	case rr.hang != "":
		r.fail("c01.hang.reader", "reader call did not return: "+rr.hang, in)
		return
	case rr.panick != nil:
		r.fail("c01.panic:"+topRepoFrame(rr.panick.stack), rr.panick.panicVal, in)
		return
	case rr.newErr != nil:
		sig := "c01.roundtrip.newreader"
		if len(wr.out) >= 12 && bytes.Contains(wr.out[4:12], []byte("BC\x02\x00")) {
			sig += ".bc-in-fixed-header"
		}
		r.fail(sig+limitSig, "NewReader on the writer's output: "+rr.newErr.Error(), in)
		return
	case len(rr.errs) > 0:
		r.fail("c01.roundtrip.readerr"+limitSig, rr.errs[0], in)
		return
	case !bytes.Equal(rr.got, want):
		r.fail("c01.roundtrip.bytes"+limitSig, fmt.Sprintf("read back %d bytes, wrote %d; first difference at %d", len(rr.got), len(want), firstDiff(rr.got, want)), in)
		return
	case !rr.sawEOF:
		r.fail("c01.roundtrip.noeof", "all data delivered but io.EOF never returned", in)
		return
	case len(rr.short) > 0:
		r.fail("c01.roundtrip.shortread", rr.short[0], in)
		return
	}
	// correspondence 2: every (n, position, EOF) equals the sequential reader model on the same block structure
	if d != nil {
		d.add("c01.read %s %s", intsJoin(plens), strings.Join(readOps, ","))
		*impl = append(*impl, strings.Join(rr.results, ","))
		// correspondence 3: the model's member walk over the produced BYTES (Member.readStream) = the library reader
		if len(wr.out)+len(want) <= 24000 || nearLimit || c.rnd.coin(1, 10) {
			readStreamTie(c, "c01", in, wr.out, ms, in.RD, d, impl)
		}
	}
}

func checkC01(c *ctx) {
	r := c.res
	r.Rule = "write scripts of 1..9 ops (Write/Flush/Wait, then Close, 1/8 with calls after Close); payload lengths from {0,1,BS-1,BS,BS+1,2BS-1..2BS+1, " +
		"BS-next-1..BS-next+1 (active block driven to the boundary), small, uniform}; data rand|text|zero|mixed; level -1..9; wc 0..5; rd 0..4; " +
		"read scripts: Read sizes {0,1,block length+-1,remaining+-1,BS+-1,>64KiB,random}, ReadByte runs, read on after EOF. " +
		"1/5 of the random scripts also set gzip header fields (as in C08, restricted to what gzip.Reader accepts); " +
		"12 scripts (300 thorough) put a full incompressible block (any data at level 0) under a user Extra tuned so that the member is exactly 65534/65535/65536 bytes (BSIZE up to 0xffff), levels -1..9, rd 1 and > 1. " +
		"A case is non-trivial when at least one byte is written; distinct = distinct (ops, level, wc, rd, data kind, header, read ops)."
	if bgzf.BlockSize != bgzfBS || bgzf.MaxBlockSize != bgzfMaxBS {
		r.disagree("C01.const", "BlockSize/MaxBlockSize", fmt.Sprintf("%d/%d", bgzf.BlockSize, bgzf.MaxBlockSize), fmt.Sprintf("%d/%d", bgzfBS, bgzfMaxBS))
	}
	if c.replay != "" {
		var in bgzfInput
		if err := loadReplay(c.replay, &in); err != nil {
			r.note("replay: %v", err)
			return
		}
		c01One(c, &in, nil, nil)
		r.eval("replay", true)
		return
	}
	d := c.drv()
	var impl []string
	n := 400
	if c.thorough() {
		n = 20000
	}
	// fixed boundary grid first: single writes and pairs around the block size
	var fixed [][]string
	bs := bgzfBS
	for _, a := range []int{0, 1, bs - 1, bs, bs + 1, 2*bs - 1, 2 * bs, 2*bs + 1} {
		fixed = append(fixed, []string{fmt.Sprintf("w%d", a), "c"})
	}
	for _, a := range []int{1, bs - 1} {
		for _, b := range []int{bs - a - 1, bs - a, bs - a + 1, bs, bs + 1} {
			fixed = append(fixed, []string{fmt.Sprintf("w%d", a), fmt.Sprintf("w%d", b), "c"})
			fixed = append(fixed, []string{fmt.Sprintf("w%d", a), fmt.Sprintf("w%d", b), "f", "t", "w1", "c"})
		}
	}
	fixed = append(fixed, []string{"c"}, []string{"f", "t", "c"}, []string{"w0", "c"}, []string{"w1", "f", "f", "w0", "f", "c", "c"})
	// members aimed at the 64 KiB limit: a full incompressible block (or any full block at level 0) plus a user Extra
	// (and sometimes Name/Comment) tuned so that the member is exactly 65534, 65535 or 65536 bytes (BSIZE 0xffff, the
	// largest legal value), written at several levels and read back with rd 1 and > 1.  (65537 = ErrBlockOverflow is C08's.)
	nTuned := 12
	if c.thorough() {
		nTuned = 300
	}
	for i := 0; i < nTuned; i++ {
		rnd := c.rnd.fork()
		in := bgzfInput{
			Level:    []int{-1, 0, 1, 9, 5, 0, 2, 6, 3, 4, 7, 8}[i%12],
			WC:       rnd.intn(6),
			RD:       []int{1, 2, 4, 1, 3, 0}[i%6],
			Data:     "rand",
			DataSeed: rnd.u64(),
			Delay:    rnd.coin(1, 4),
		}
		if in.Level == 0 && rnd.coin(1, 2) {
			in.Data = rnd.pickS([]string{"text", "zero", "mixed"})
		}
		in.Ops = [][]string{{"w65280", "c"}, {"w1", "w65279", "c"}, {"w65280", "f", "t", "w65280", "c"}, {"w7", "f", "w65280", "w3", "c"}}[rnd.intn(4)]
		kinds, lens, total, _ := parseWOps(in.Ops)
		_ = kinds
		data := scriptData(in.Data, in.DataSeed, total)
		// the first full block of the script
		off := 0
		if lens[0] == 7 {
			off = 7
		}
		fl := len(flateOf(in.Level, data[off:off+bgzfBS]))
		if rnd.coin(1, 3) {
			in.Header.Name = genRunes(rnd, 1+rnd.intn(30), true)
		}
		if rnd.coin(1, 4) {
			in.Header.Comment = genRunes(rnd, 1+rnd.intn(30), false)
		}
		target := []int{bgzfMaxBS, bgzfMaxBS - 1, bgzfMaxBS, bgzfMaxBS - 2}[i%4]
		xl := target - in.Header.expectedHeaderLen() - fl - 8
		if xl < 4 {
			r.note("tuned case skipped: no room for a user Extra (level %d, deflate %d)", in.Level, fl)
			continue
		}
		in.Header.Extra = hexs(genSubfields(rnd, xl))
		r.hist(fmt.Sprintf("tuned.member.%d", target))
		r.hist(fmt.Sprintf("level.%d", in.Level))
		r.hist(fmt.Sprintf("rd.%d", in.RD))
		c01One(c, &in, d, &impl)
		r.eval(fmt.Sprintf("tuned/%v/%d/%d/%d/%s/%d", in.Ops, in.Level, in.WC, in.RD, in.Data, target), true)
		if i == 0 {
			sm := in
			sm.Header.Extra = sm.Header.Extra[:16] + "..."
			if len(sm.ReadOps) > 12 {
				sm.ReadOps = append(append([]string{}, sm.ReadOps[:12]...), "...")
			}
			r.sample(sm)
		}
	}
	for i := 0; i < n+len(fixed); i++ {
		rnd := c.rnd.fork()
		in := bgzfInput{
			Level:    rnd.rng(-1, 9),
			WC:       rnd.intn(6),
			RD:       rnd.intn(5),
			Data:     rnd.pickS([]string{"rand", "rand", "text", "text", "zero", "mixed"}),
			DataSeed: rnd.u64(),
			Delay:    rnd.coin(1, 4),
		}
		if i < len(fixed) {
			in.Ops = fixed[i]
		} else {
			in.Ops = genWriteScript(rnd, 8, rnd.coin(1, 3))
			if rnd.coin(1, 5) {
				// header settings (small: acceptable to gzip.Writer and gzip.Reader, and leaving room for a full block)
				for {
					var hc string
					in.Header, hc = genHeader(rnd, false)
					if in.Header.expectedHeaderLen() <= 150 { // a full incompressible block must still fit into 64 KiB
						r.hist("header.set")
						_ = hc
						break
					}
				}
			}
		}
		if c.thorough() && rnd.coin(1, 3) {
			in.Procs = rnd.pick([]int{1, 2, 16})
		}
		_, lens, total, _ := parseWOps(in.Ops)
		for j, o := range in.Ops {
			if o[0] == 'w' {
				r.hist("write.len." + lenClass(lens[j]))
			} else {
				r.hist("op." + o)
			}
		}
		r.hist(fmt.Sprintf("level.%d", in.Level))
		r.hist(fmt.Sprintf("wc.%d", in.WC))
		r.hist(fmt.Sprintf("rd.%d", in.RD))
		r.hist("data." + in.Data)
		c01One(c, &in, d, &impl)
		for _, o := range in.ReadOps {
			if o == "b" {
				r.hist("read.byte")
			} else {
				k, _ := strconv.Atoi(o[1:])
				switch {
				case k == 0:
					r.hist("read.len.0")
				case k == 1:
					r.hist("read.len.1")
				case k > 65536:
					r.hist("read.len.>64K")
				case k >= bs-1 && k <= bs+1:
					r.hist("read.len.BS+-1")
				default:
					r.hist("read.len.other")
				}
			}
		}
		key := fmt.Sprintf("%v/%d/%d/%d/%s/%+v/%v", in.Ops, in.Level, in.WC, in.RD, in.Data, in.Header, in.ReadOps)
		r.eval(key, total > 0)
		if i == len(fixed) || i == len(fixed)+1 || i == 20 {
			s := in
			if len(s.ReadOps) > 12 {
				s.ReadOps = append(append([]string{}, s.ReadOps[:12]...), "...")
			}
			r.sample(s)
		}
	}
	d.compare(r, "C01", impl)
}
