package main

// C15 — index serialisation round trip keeps bytes, answers and statistics (BAI, CSI v1/v2, tabix).
//
// Cases come from the C04 generator (plus zero-reference / unplaced-only / empty cases).  For every case:
//   oracle: W1 = write(idx); idx2 = read(W1) must succeed and be an index; write(idx2) == W1;
//           every Chunks answer and every accessor value (NumRefs, ReferenceStats, Unmapped) of idx2
//           equals that of idx; the accessor values of idx equal the true counts of the records added.
//   "previously read" indexes: structure-preserving re-encodings of W1 by the harness's own
//           encoder (bins/chunks/tiles in another order, pseudo-bin first or dropped, trailer dropped)
//           are read, written (Wv), read and written again: Wv must be stable and the answers equal.
//   correspondence: digest of the re-written bytes, statistics text and answers, model vs implementation.

import (
	"bytes"
	"context"
	"encoding/binary"
	"fmt"
	"io"
	"os"
	"os/exec"
	"sort"
	"strings"
	"syscall"
	"testing/iotest"
	"time"

	"github.com/biogo/hts/bam"
	"github.com/biogo/hts/csi"
	"github.com/biogo/hts/tabix"
)

func init() { checks["C15"] = checkC15 }

type c15Input struct {
	Case    *c04Case `json:"case,omitempty"`
	Kind    string   `json:"kind,omitempty"`
	Bytes   string   `json:"bytes,omitempty"` // hex of a foreign encoding
	Variant string   `json:"variant,omitempty"`
}

// trueStats is the statistics text computed from the records themselves.
func (cs *c04Case) trueStats(accepted []bool, anyValid bool) string {
	type st struct {
		have     bool
		b, e     int64
		map_, un uint64
	}
	var refs []st
	ridOf := map[int]int{} // tbx: pool index -> reference id in order of first placed appearance
	var unplaced uint64
	for i, r := range cs.Recs {
		if !accepted[i] {
			continue
		}
		if !r.Placed {
			unplaced++
			continue
		}
		id := r.Rid
		if cs.Kind == "tbx" {
			if v, ok := ridOf[r.Rid]; ok {
				id = v
			} else {
				id = len(ridOf)
				ridOf[r.Rid] = id
			}
		}
		for len(refs) <= id {
			refs = append(refs, st{})
		}
		s := &refs[id]
		if !s.have {
			s.have, s.b = true, r.CB
		}
		s.e = r.CE
		if r.Mapped {
			s.map_++
		} else {
			s.un++
		}
	}
	var sb strings.Builder
	fmt.Fprintf(&sb, "n=%d", len(refs))
	for _, s := range refs {
		if !s.have {
			sb.WriteString(";-")
			continue
		}
		fmt.Fprintf(&sb, ";%d-%d,%d,%d", s.b, s.e, s.map_, s.un)
	}
	if anyValid {
		fmt.Fprintf(&sb, ";u=%d", unplaced)
	} else {
		sb.WriteString(";u=-")
	}
	return sb.String()
}

func safeStats(im c04Impl) (s string, panicked bool) {
	o := guard(func() { s = statsText(im) })
	return s, o.panicked
}

// ---------------------------------------------------------------------------
// the harness's own reader/writer of the three formats (written from the SAM/tabix/CSI format
// descriptions), used to produce "foreign" encodings of the same index.

type fBin struct {
	bin     uint32
	left    uint64 // csi
	records uint64 // csi v2
	chunks  [][2]uint64
}
type fRef struct {
	bins      []fBin
	stats     *[4]uint64
	intervals []uint64 // bai/tbx
}
type fIndex struct {
	kind     string
	head     []byte // everything before the per-reference data (magic, counts, headers)
	version  byte
	dummy    uint32
	refs     []fRef
	unmapped *uint64
}

type fReader struct {
	b   []byte
	bad bool
}

func (r *fReader) take(n int) []byte {
	if n < 0 || len(r.b) < n {
		r.bad = true
		return make([]byte, n&0xffff)
	}
	x := r.b[:n]
	r.b = r.b[n:]
	return x
}
func (r *fReader) u32() uint32 { return binary.LittleEndian.Uint32(r.take(4)) }
func (r *fReader) u64() uint64 { return binary.LittleEndian.Uint64(r.take(8)) }

func fDecode(kind string, bs []byte) (*fIndex, bool) {
	r := &fReader{b: bs}
	f := &fIndex{kind: kind}
	var n int
	switch kind {
	case "bai":
		r.take(4)
		n = int(int32(r.u32()))
		f.dummy = 37450
	case "tbx":
		r.take(4)
		n = int(int32(r.u32()))
		r.take(24)
		ln := int(int32(r.u32()))
		r.take(ln)
		f.dummy = 37450
	case "csi":
		r.take(3)
		f.version = r.take(1)[0]
		r.u32()
		depth := r.u32()
		la := int(int32(r.u32()))
		r.take(la)
		n = int(int32(r.u32()))
		f.dummy = uint32(((uint64(1)<<((depth+1)*3))-1)/7) + 1
	}
	if r.bad || n < 0 || n > 1<<20 {
		return nil, false
	}
	f.head = bs[:len(bs)-len(r.b)]
	for i := 0; i < n && !r.bad; i++ {
		var ref fRef
		nb := int(int32(r.u32()))
		for j := 0; j < nb && !r.bad; j++ {
			var b fBin
			b.bin = r.u32()
			if kind == "csi" {
				b.left = r.u64()
				if f.version == 2 {
					b.records = r.u64()
				}
			}
			nc := int(int32(r.u32()))
			if b.bin == f.dummy {
				if nc != 2 {
					return nil, false
				}
				ref.stats = &[4]uint64{r.u64(), r.u64(), r.u64(), r.u64()}
				continue
			}
			for k := 0; k < nc && !r.bad; k++ {
				b.chunks = append(b.chunks, [2]uint64{r.u64(), r.u64()})
			}
			ref.bins = append(ref.bins, b)
		}
		if kind != "csi" {
			ni := int(int32(r.u32()))
			for k := 0; k < ni && !r.bad; k++ {
				ref.intervals = append(ref.intervals, r.u64())
			}
		}
		f.refs = append(f.refs, ref)
	}
	if len(r.b) >= 8 {
		u := r.u64()
		f.unmapped = &u
	}
	if r.bad || len(r.b) != 0 {
		return nil, false
	}
	return f, true
}

func (f *fIndex) encode(statsFirst bool) []byte {
	var w bytes.Buffer
	p32 := func(x uint32) { binary.Write(&w, binary.LittleEndian, x) }
	p64 := func(x uint64) { binary.Write(&w, binary.LittleEndian, x) }
	w.Write(f.head)
	for _, ref := range f.refs {
		n := len(ref.bins)
		if ref.stats != nil {
			n++
		}
		p32(uint32(n))
		putStats := func() {
			if ref.stats == nil {
				return
			}
			p32(f.dummy)
			if f.kind == "csi" {
				p64(0)
				if f.version == 2 {
					p64(0)
				}
			}
			p32(2)
			for _, x := range ref.stats {
				p64(x)
			}
		}
		if statsFirst {
			putStats()
		}
		for _, b := range ref.bins {
			p32(b.bin)
			if f.kind == "csi" {
				p64(b.left)
				if f.version == 2 {
					p64(b.records)
				}
			}
			p32(uint32(len(b.chunks)))
			for _, c := range b.chunks {
				p64(c[0])
				p64(c[1])
			}
		}
		if !statsFirst {
			putStats()
		}
		if f.kind != "csi" {
			p32(uint32(len(ref.intervals)))
			for _, x := range ref.intervals {
				p64(x)
			}
		}
	}
	if f.unmapped != nil {
		p64(*f.unmapped)
	}
	return w.Bytes()
}

// statsText renders the statistics stored in the file in the format of statsText(c04Impl).
func (f *fIndex) statsText() string {
	var sb strings.Builder
	fmt.Fprintf(&sb, "n=%d", len(f.refs))
	for _, r := range f.refs {
		if r.stats == nil {
			sb.WriteString(";-")
			continue
		}
		fmt.Fprintf(&sb, ";%d-%d,%d,%d", int64(r.stats[0]), int64(r.stats[1]), r.stats[2], r.stats[3])
	}
	if f.unmapped != nil {
		fmt.Fprintf(&sb, ";u=%d", *f.unmapped)
	} else {
		sb.WriteString(";u=-")
	}
	return sb.String()
}

// variants returns structure-preserving re-encodings: what another writer of the same format may
// legitimately produce for the same index.
func (f *fIndex) variants(rnd *Rand) map[string][]byte {
	out := map[string][]byte{}
	clone := func() *fIndex {
		g := *f
		g.refs = nil
		for _, r := range f.refs {
			nr := fRef{stats: r.stats, intervals: append([]uint64{}, r.intervals...)}
			for _, b := range r.bins {
				nb := b
				nb.chunks = append([][2]uint64{}, b.chunks...)
				nr.bins = append(nr.bins, nb)
			}
			g.refs = append(g.refs, nr)
		}
		return &g
	}
	{ // bins and chunks in reverse order, pseudo-bin first
		g := clone()
		for i := range g.refs {
			b := g.refs[i].bins
			for l, r := 0, len(b)-1; l < r; l, r = l+1, r-1 {
				b[l], b[r] = b[r], b[l]
			}
			for _, bb := range b {
				c := bb.chunks
				for l, r := 0, len(c)-1; l < r; l, r = l+1, r-1 {
					c[l], c[r] = c[r], c[l]
				}
			}
		}
		out["reversed-statsfirst"] = g.encode(true)
	}
	{ // no statistics, no trailer
		g := clone()
		for i := range g.refs {
			g.refs[i].stats = nil
		}
		g.unmapped = nil
		out["nostats-notrailer"] = g.encode(false)
	}
	{ // trailer dropped only
		g := clone()
		g.unmapped = nil
		out["notrailer"] = g.encode(false)
	}
	{ // references whose ONLY bin is the statistics pseudo-bin (no ordinary bin, no tile): cannot be built
		// through Add, but is a legitimate file of another writer
		g := clone()
		for i := range g.refs {
			g.refs[i].bins = nil
			g.refs[i].intervals = nil
			if g.refs[i].stats == nil {
				g.refs[i].stats = &[4]uint64{100, 200, 3, 1}
			}
		}
		out["statsonly"] = g.encode(false)
	}
	{ // random shuffle of bins
		g := clone()
		for i := range g.refs {
			b := g.refs[i].bins
			for k := len(b) - 1; k > 0; k-- {
				j := rnd.intn(k + 1)
				b[k], b[j] = b[j], b[k]
			}
		}
		out["shuffled"] = g.encode(rnd.coin(1, 2))
	}
	return out
}

// ---------------------------------------------------------------------------

func (cs *c04Case) c15Run(c *ctx, d *Driver, impl *[]string) {
	r := c.res
	c04Current = cs
	cfg, recs, qs := cs.cfgText(), cs.recsText(), cs.queriesText()
	in := c15Input{Case: cs}
	run := cs.build(newResult("C15", "x", 0), false)
	if run.panicked {
		r.hist("skipped.add-panics")
		return
	}
	anyValid := false
	for i, rec := range cs.Recs {
		_ = i
		if cs.validPos(rec.Start) && cs.validPos(rec.End) {
			anyValid = true
		}
	}
	r.hist(fmt.Sprintf("case.%s.recs%s", cs.Kind, sizeClass(len(cs.Recs))))
	// statistics of the built index against the true counts
	st1, p := safeStats(run.im)
	if p {
		r.fail(cs.Kind+".stats.panic", "an accessor panics on the built index", in)
		return
	}
	d.add("c15.stats %s %s %s", cs.Kind, cfg, recs)
	*impl = append(*impl, st1)
	if cs.Sorted {
		if want := cs.trueStats(run.accepted, anyValid); want != st1 {
			r.fail(cs.Kind+".stats.not-true", fmt.Sprintf("statistics %q, true counts %q", st1, want), in)
		}
	}
	pre := cs.answers(newResult("C15", "x", 0), run.im, "pre", run.accepted, false)
	w1, err := run.im.write()
	if err != nil {
		r.fail(cs.Kind+".write.error", "writing the index failed: "+err.Error(), in)
		return
	}
	nrefs := run.im.numRefs()
	class := "refs>0"
	if nrefs == 0 {
		class = "refs=0"
	}
	r.hist("rt." + cs.Kind + "." + class)
	var im2 c04Impl
	o := guard(func() { im2, err = run.im.reread(w1) })
	d.add("c15.rt %s %s %s %s", cs.Kind, cfg, recs, qs)
	switch {
	case o.panicked:
		r.fail(cs.Kind+".reread.panic", "reading back the written index panics: "+o.panicVal, in)
		*impl = append(*impl, "panic")
		return
	case err != nil:
		r.fail(cs.Kind+".reread.error", "the written index is rejected by the reader: "+err.Error(), in)
		*impl = append(*impl, "err")
		return
	case im2 == nil:
		r.fail(cs.Kind+".reread.nil-index."+class, "the written index reads back as a nil index with a nil error", in)
		*impl = append(*impl, "nil")
		return
	}
	w2, err := im2.write()
	if err != nil {
		r.fail(cs.Kind+".rewrite.error", "writing the re-read index failed: "+err.Error(), in)
		return
	}
	st2, p := safeStats(im2)
	if p {
		r.fail(cs.Kind+".stats.panic", "an accessor panics on the re-read index", in)
		return
	}
	rt := cs.answers(newResult("C15", "x", 0), im2, "rt", run.accepted, false)
	*impl = append(*impl, bytesDigest(w2)+" "+st2+" "+rt)
	if !bytes.Equal(w1, w2) {
		r.fail(cs.Kind+".rt.bytes-differ", fmt.Sprintf("write(read(write(i))) differs from write(i): %d vs %d bytes", len(w2), len(w1)), in)
	}
	if st1 != st2 {
		r.fail(cs.Kind+".rt.stats-differ", fmt.Sprintf("statistics before %q, after write∘read %q", st1, st2), in)
	}
	if rt != pre {
		r.fail(cs.Kind+".rt.answers-differ", "Chunks answers differ after write∘read", in)
	}
	// the exposed header values survive the round trip
	if msg := c15HeaderDiff(run.im, im2); msg != "" {
		r.fail(cs.Kind+".rt.header-field", "a header field changes through write∘read: "+msg, in)
	}
	// readers that deliver fewer bytes than asked (io.Reader allows it) must give the same index. A reader
	// that loses its place can ask for gigabytes, so this runs in a child process with its own memory limit;
	// to keep the number of process starts small it is done for every CSI case with auxiliary data and for
	// every 6th case otherwise.
	c15Seq++
	if (cs.Kind == "csi" && cs.Aux != "" && cs.Aux != "-") || c15Seq%6 == 0 {
		for _, mode := range []string{"onebyte", "half"} {
			out, crashed := c15RereadChild(cs.Kind, mode, w1)
			switch {
			case crashed:
				r.fail(cs.Kind+".reread.shortreads.crash", "reading through a "+mode+" reader crashes, hangs or exhausts memory: "+out, in)
			case strings.HasPrefix(out, "err"):
				r.fail(cs.Kind+".reread.shortreads.error", "the written index is rejected when read through a "+mode+" reader: "+out, in)
			case out != fmt.Sprintf("ok %d", fnv64(w2)):
				r.fail(cs.Kind+".reread.shortreads.differs", "the index read through a "+mode+" reader re-serialises differently", in)
			}
			r.hist("rt.shortreads." + cs.Kind)
		}
	}
	// previously read indexes: foreign encodings of the same index
	if len(w1) > 6000 {
		return
	}
	f, ok := fDecode(cs.Kind, w1)
	if !ok {
		r.fail(cs.Kind+".format", "the written bytes do not parse under the harness's reading of the format", in)
		return
	}
	if !bytes.Equal(f.encode(false), w1) {
		r.fail(cs.Kind+".format.canonical", "the written bytes are not in the canonical layout (bins, pseudo-bin last, tiles, trailer)", in)
		return
	}
	vs := f.variants(c.rnd)
	for _, name := range []string{"reversed-statsfirst", "nostats-notrailer", "notrailer", "shuffled", "statsonly"} {
		cs.c15Foreign(c, d, impl, name, vs[name])
	}
}

// tbxNameQueries: a re-read tabix index is queried by the names stored in the file.
func (cs *c04Case) foreignAnswers(im c04Impl) string {
	return cs.answers(newResult("C15", "x", 0), im, "rt", make([]bool, len(cs.Recs)), false)
}

func (cs *c04Case) c15Foreign(c *ctx, d *Driver, impl *[]string, variant string, v []byte) {
	r := c.res
	in := c15Input{Kind: cs.Kind, Bytes: hexs(v), Variant: variant, Case: cs}
	r.hist("foreign." + cs.Kind + "." + variant)
	r.eval(fmt.Sprintf("f|%s|%016x", cs.Kind, fnv64(v)), len(v) > 40)
	base := newImpl(cs)
	var imv c04Impl
	var err error
	o := guard(func() { imv, err = base.reread(v) })
	pool := "-"
	if cs.Kind == "bai" {
		pool = cs.cfgText() // the query-time MergeStrategy, or "-"
	}
	if cs.Kind == "tbx" {
		// "n" followed by "/<hex>" per name, so that the list [""] ("n/-") differs from the empty list ("n")
		ns := []string{"n"}
		for _, n := range cs.Names {
			ns = append(ns, hexs([]byte(n)))
		}
		pool = strings.Join(ns, "/")
	}
	d.add("c15.rd %s %s %s %s", cs.Kind, pool, hexs(v), cs.queriesText())
	switch {
	case o.panicked:
		r.fail(cs.Kind+".foreign.panic", "reading a well-formed index panics: "+o.panicVal, in)
		*impl = append(*impl, "panic")
		return
	case err != nil:
		r.fail(cs.Kind+".foreign.error."+variant, "a well-formed index is rejected: "+err.Error(), in)
		*impl = append(*impl, "err")
		return
	case imv == nil:
		*impl = append(*impl, "nil")
		if len(v) > 16 {
			r.fail(cs.Kind+".foreign.nil-index", "a well-formed index reads as nil", in)
		}
		return
	}
	wv, err := imv.write()
	if err != nil {
		r.fail(cs.Kind+".foreign.write.error", err.Error(), in)
		return
	}
	stv, _ := safeStats(imv)
	if f2, ok := fDecode(cs.Kind, v); ok {
		// the statistics the harness's own reading of the format finds in the bytes
		if want := f2.statsText(); want != stv {
			r.fail(cs.Kind+".foreign.stats-lost."+variant, fmt.Sprintf("accessors report %q, the file says %q", stv, want), in)
		}
	}
	av := cs.foreignAnswers(imv)
	*impl = append(*impl, bytesDigest(wv)+" "+stv+" "+av)
	var imv2 c04Impl
	o = guard(func() { imv2, err = imv.reread(wv) })
	if o.panicked || err != nil || imv2 == nil {
		r.fail(cs.Kind+".foreign.reread."+variant, "write(read(v)) is not readable", in)
		return
	}
	wv2, _ := imv2.write()
	stv2, _ := safeStats(imv2)
	av2 := cs.foreignAnswers(imv2)
	if !bytes.Equal(wv, wv2) {
		r.fail(cs.Kind+".foreign.bytes-differ."+variant, "write is not stable on a previously read index", in)
	}
	if stv != stv2 {
		r.fail(cs.Kind+".foreign.stats-differ."+variant, fmt.Sprintf("%q vs %q", stv, stv2), in)
	}
	if av != av2 {
		r.fail(cs.Kind+".foreign.answers-differ."+variant, "Chunks answers differ after write∘read of a previously read index", in)
	}
}

// c15Special: structural cases of the formats that the C04 generator does not produce by itself.
func (g *c04Gen) c15Special(kind string, k int) *c04Case {
	cs := g.sortedCase(kind, false)
	switch k % 4 {
	case 0: // no record at all
		cs.Recs = nil
	case 1: // unplaced records only: zero references, a trailer
		var rs []c04Rec
		for i := 0; i < g.rnd.rng(1, 3); i++ {
			rs = append(rs, g.unplaced(cs))
		}
		cs.Recs = rs
		g.layout(cs.Recs)
	case 2: // one record on a late reference: the earlier references are empty
		if len(cs.Recs) > 0 {
			r := cs.Recs[0]
			if kind != "tbx" {
				r.Rid = g.rnd.rng(1, 4)
			}
			cs.Recs = []c04Rec{r}
		}
	case 3: // only placed-unmapped records on a reference
		for i := range cs.Recs {
			cs.Recs[i].Mapped = false
		}
	}
	cs.normalise()
	return cs
}

// c15Saturated: a CSI case on a small geometry whose records use EVERY reachable bin of the geometry on each
// reference: one record per bin of every level (a leaf bin: one base at its left edge; an inner bin: two bases
// straddling its first two children), coordinate sorted.  With minShift >= 2 that is every bin, so that with the
// statistics pseudo-bin nBins = binLimit + 1, the largest count readBins accepts (csi_built_bin_count); with
// minShift 1 the last leaf bin cannot be used (its only intervals end beyond the last valid position).
func (g *c04Gen) c15Saturated(ms, depth int) (*c04Case, int) {
	rnd := g.rnd
	cs := &c04Case{Kind: "csi", MinShift: ms, Depth: depth, Version: 2, Sorted: true, Strategy: g.strategy()}
	if rnd.coin(1, 3) {
		cs.Version = 1
	}
	if rnd.coin(1, 3) {
		cs.Aux = hexs(rnd.bytes(rnd.rng(1, 8)))
	}
	limit := 1<<uint(ms+3*depth) - 2 // the largest valid Start and End
	used := 0
	rid := 0
	if rnd.coin(1, 4) {
		rid = 1 // reference 0 has no record
	}
	for n := rnd.rng(1, 2); n > 0; n-- {
		var recs []c04Rec
		for l := 0; l <= depth; l++ {
			w := 1 << uint(ms+3*(depth-l)) // width of a bin of level l
			for x := 0; x < 1<<uint(3*l); x++ {
				s, e := x*w, x*w+1
				if l < depth {
					cw := w >> 3
					s, e = x*w+cw-1, x*w+cw+1
				}
				if e > limit {
					continue
				}
				recs = append(recs, c04Rec{Rid: rid, Start: s, End: e, Placed: true, Mapped: !rnd.coin(1, 6)})
			}
		}
		sort.SliceStable(recs, func(i, j int) bool { return recs[i].Start < recs[j].Start })
		used = len(recs)
		cs.Recs = append(cs.Recs, recs...)
		cs.Queries = append(cs.Queries, c04Query{rid, 0, limit}, c04Query{rid, limit - 1, limit},
			c04Query{rid, rnd.rng(0, limit-1), limit}, c04Query{rid, 0, 1})
		rid++
	}
	if rnd.coin(1, 2) {
		cs.Recs = append(cs.Recs, g.unplaced(cs))
	}
	g.layout(cs.Recs)
	return cs, used
}

func checkC15(c *ctx) {
	r := c.res
	c04MemGuard(r)
	r.Rule = "cases: the C04 generator (bai through bam.Index, csi with 12 geometries / v1,v2 / aux bytes, tbx with header fields and shuffled name pools) plus structural cases " +
		"(no record, unplaced only = zero references, late reference = empty earlier references, unmapped only) and saturated small CSI geometries ((1,1) (2,1) (1,2) (2,2) (3,1) (5,1) (2,3): one record per reachable bin of every level on each reference, i.e. nBins = binLimit+1 for minShift >= 2). Each case: statistics vs true counts, write, read, write again, accessor values and all Chunks answers before/after; " +
		"for serialisations up to 6000 bytes additionally 4 foreign encodings of the same index made by the harness's own format codec (reversed order + pseudo-bin first, statistics and trailer dropped, trailer dropped, shuffled bins) " +
		"are read, written, read and written again. An evaluation is one (case) or (foreign encoding); non-trivial = the index has at least one reference with a record (case) / more than 40 bytes (foreign)."
	if c.replay != "" {
		var in c15Input
		if err := loadReplay(c.replay, &in); err != nil {
			r.note("replay: %v", err)
			return
		}
		d := c.drv()
		var impl []string
		if in.Case != nil {
			in.Case.c15Run(c, d, &impl)
		}
		r.eval("replay", true)
		return
	}
	g := &c04Gen{rnd: c.rnd}
	d := c.drv()
	var impl []string
	nCases := 70
	if c.thorough() {
		nCases = 700
	}
	count := func(cs *c04Case) {
		nt := false
		for _, rec := range cs.Recs {
			if rec.Placed {
				nt = true
			}
		}
		r.eval(fmt.Sprintf("%s|%016x", cs.Kind, fnv64([]byte(cs.cfgText()+"|"+cs.recsText()))), nt)
	}
	kinds := []string{"bai", "csi", "tbx"}
	// corpus: a CSI reference that uses EVERY bin of its geometry (bins 0..8 of (4,1)) plus the
	// statistics pseudo-bin: nBins = binLimit + 1 (fixes/C15-1)
	{
		cs := &c04Case{Kind: "csi", MinShift: 4, Depth: 1, Version: 2, Sorted: true, Strategy: "adjacent"}
		off := int64(100)
		for _, iv := range [][2]int{{0, 5}, {10, 20}, {16, 21}, {32, 37}, {48, 53}, {64, 69}, {80, 85}, {96, 101}, {112, 117}} {
			cs.Recs = append(cs.Recs, c04Rec{Rid: 0, Start: iv[0], End: iv[1], Placed: true, Mapped: true, CB: off, CE: off + 10})
			off += 10
		}
		cs.Queries = []c04Query{{0, 0, 126}, {0, 112, 113}, {0, 15, 16}}
		cs.c15Run(c, d, &impl)
		count(cs)
		r.hist("corpus.csi-all-bins")
	}
	// corpus: the C04 corpus (incl. the "second use" histories of fixes/C15-3) and a depth-10 CSI index whose only
	// record falls into leaf bin 613566757, the number the 32-bit bin-limit expression gave the pseudo-bin (fixes/C15-2)
	for _, cs := range c04Corpus() {
		cs.c15Run(c, d, &impl)
		count(cs)
		r.hist("corpus.c04")
	}
	for _, ver := range []int{1, 2} {
		cs := &c04Case{Kind: "csi", MinShift: 2, Depth: 10, Version: ver, Sorted: true, Strategy: "adjacent"}
		cs.Recs = []c04Rec{
			{Rid: 0, Start: 5, End: 9, Placed: true, Mapped: true, CB: 10, CE: 100},
			{Rid: 0, Start: 1840700272, End: 1840700273, Placed: true, Mapped: true, CB: 100, CE: 200},
		}
		cs.Queries = []c04Query{{0, 1840700272, 1840700273}, {0, 0, 10}}
		cs.c15Run(c, d, &impl)
		count(cs)
		r.hist("corpus.csi-depth10")
	}
	// corpus: tabix name lists with an EMPTY reference name (encoded as a lone terminator in the name block):
	// alone, first, in the middle, last
	for _, names := range [][]string{{""}, {"", "chr1"}, {"chrA", "", "chrB"}, {"chrA", ""}} {
		cs := &c04Case{Kind: "tbx", Format: 2, ZeroBased: true, NameCol: 1, BegCol: 2, EndCol: 3, Meta: '#', Skip: 7,
			Names: names, Sorted: true, Strategy: "adjacent"}
		off := int64(1)
		for i := range names {
			for k := 0; k < 2; k++ {
				cs.Recs = append(cs.Recs, c04Rec{Rid: i, Start: 1000 + 19000*k, End: 1100 + 19000*k, Placed: true, Mapped: true, CB: off, CE: off + 100})
				off += 100
			}
			cs.Queries = append(cs.Queries, c04Query{i, 0, 30000}, c04Query{i, 20000, 20050})
		}
		cs.c15Run(c, d, &impl)
		count(cs)
		r.hist("corpus.tbx-empty-name")
	}
	// saturated small CSI geometries: every reachable bin of the geometry used on a reference
	for _, gm := range [][2]int{{1, 1}, {2, 1}, {1, 2}, {2, 2}, {3, 1}, {5, 1}, {2, 3}} {
		reps := 2
		if c.thorough() {
			reps = 6
		}
		for k := 0; k < reps; k++ {
			cs, used := g.c15Saturated(gm[0], gm[1])
			cs.c15Run(c, d, &impl)
			count(cs)
			total := (1<<uint(3*(gm[1]+1)) - 1) / 7
			if used == total {
				r.hist("saturated.csi.all-bins")
			} else {
				r.hist(fmt.Sprintf("saturated.csi.all-but-%d", total-used))
			}
		}
	}
	// depths 11..20: accepted by New/Add/WriteTo/ReadFrom although the uint32 bin numbers wrap (recorded
	// finding csi.reread.error.depth>10, theorem Hts.Props.C15.csi_built_read_write_witness)
	for _, gm := range [][3]int{{1, 11, 1227133516}, {2, 11, 2454267032}, {14, 11, 1227133516 << 13}} {
		func() {
			idx := csi.New(gm[0], gm[1])
			var w bytes.Buffer
			var err error
			o := guard(func() {
				if err = idx.Add(csiRec{0, gm[2], gm[2] + 1}, mkChunk(1<<16, 2<<16), true, true); err != nil {
					return
				}
				if err = csi.WriteTo(&w, idx); err != nil {
					return
				}
				_, err = csi.ReadFrom(bytes.NewReader(w.Bytes()))
			})
			r.eval(fmt.Sprintf("csi.depth11.%d.%d", gm[0], gm[1]), true)
			r.hist("csi.depth>10")
			if o.panicked || err != nil {
				r.fail("csi.reread.error.depth>10", fmt.Sprintf("csi.New(%d,%d) with one placed record [%d,%d): Add, WriteTo, ReadFrom gives %v %s", gm[0], gm[1], gm[2], gm[2]+1, err, o.panicVal),
					c15Input{Kind: "csi-depth11", Variant: fmt.Sprint(gm)})
			}
		}()
	}
	for i := 0; i < 8; i++ {
		for _, k := range kinds {
			cs := g.c15Special(k, i)
			cs.c15Run(c, d, &impl)
			count(cs)
			r.hist(fmt.Sprintf("special.%d", i%4))
		}
	}
	for i := 0; i < nCases; i++ {
		for _, k := range kinds {
			cs := g.sortedCase(k, false)
			cs.c15Run(c, d, &impl)
			count(cs)
			if i == 1 {
				r.sample(c15Input{Case: cs})
			}
		}
	}
	d.compare(r, "C15", impl)
}

var c15Seq int

func init() { checks["C15-reread"] = c15RereadWorker }

// c15RereadWorker is the child-process side of c15RereadChild: index bytes on stdin, kind and reader
// mode in the environment; prints "ok <fnv64 of the re-serialised index>" or "err <message>".
func c15RereadWorker(c *ctx) {
	var lim syscall.Rlimit
	lim.Cur, lim.Max = 2<<30, 2<<30
	syscall.Setrlimit(syscall.RLIMIT_AS, &lim)
	bs, _ := io.ReadAll(os.Stdin)
	var rd io.Reader = bytes.NewReader(bs)
	if os.Getenv("C15_MODE") == "onebyte" {
		rd = iotest.OneByteReader(rd)
	} else {
		rd = iotest.HalfReader(rd)
	}
	w, err := c15RereadVia(os.Getenv("C15_KIND"), rd)
	if err != nil {
		fmt.Println("err " + err.Error())
	} else {
		fmt.Printf("ok %d\n", fnv64(w))
	}
	os.Exit(0)
}

// c15RereadChild runs c15RereadWorker in a child process under a watchdog.
func c15RereadChild(kind, mode string, bs []byte) (out string, crashed bool) {
	ctx, cancel := context.WithTimeout(context.Background(), 20*time.Second)
	defer cancel()
	cmd := exec.CommandContext(ctx, os.Args[0], "C15-reread")
	cmd.Env = append(os.Environ(), "C15_KIND="+kind, "C15_MODE="+mode)
	cmd.Stdin = bytes.NewReader(bs)
	b, err := cmd.Output()
	line := strings.TrimSpace(string(b))
	if err != nil || line == "" {
		msg := "no answer"
		if err != nil {
			msg = err.Error()
		}
		return msg, true
	}
	return line, false
}

// c15RereadVia reads an index of the given kind from an arbitrary reader and re-serialises it.
func c15RereadVia(kind string, rd io.Reader) ([]byte, error) {
	var buf bytes.Buffer
	switch kind {
	case "bai":
		idx, err := bam.ReadIndex(rd)
		if err != nil {
			return nil, err
		}
		err = bam.WriteIndex(&buf, idx)
		return buf.Bytes(), err
	case "csi":
		idx, err := csi.ReadFrom(rd)
		if err != nil {
			return nil, err
		}
		err = csi.WriteTo(&buf, idx)
		return buf.Bytes(), err
	}
	idx, err := tabix.ReadFrom(rd)
	if err != nil {
		return nil, err
	}
	err = tabix.WriteTo(&buf, idx)
	return buf.Bytes(), err
}

// c15HeaderDiff compares the exposed header values of an index and its re-read form.
func c15HeaderDiff(a, b c04Impl) string {
	switch x := a.(type) {
	case *tbxImpl:
		y, ok := b.(*tbxImpl)
		if !ok {
			return "kind"
		}
		p, q := x.idx, y.idx
		switch {
		case p.Format != q.Format:
			return fmt.Sprintf("Format %d -> %d", p.Format, q.Format)
		case p.ZeroBased != q.ZeroBased:
			return fmt.Sprintf("ZeroBased %v -> %v (Format %d)", p.ZeroBased, q.ZeroBased, p.Format)
		case p.NameColumn != q.NameColumn || p.BeginColumn != q.BeginColumn || p.EndColumn != q.EndColumn:
			return "columns"
		case p.MetaChar != q.MetaChar:
			return "MetaChar"
		case p.Skip != q.Skip:
			return "Skip"
		}
		pn, qn := p.Names(), q.Names()
		if len(pn) != len(qn) {
			return fmt.Sprintf("number of names %d -> %d", len(pn), len(qn))
		}
		for i := range pn {
			if pn[i] != qn[i] {
				return fmt.Sprintf("name %d: %q -> %q", i, pn[i], qn[i])
			}
		}
	case *csiImpl:
		y, ok := b.(*csiImpl)
		if !ok {
			return "kind"
		}
		if x.idx.Version != y.idx.Version {
			return fmt.Sprintf("Version %d -> %d", x.idx.Version, y.idx.Version)
		}
		if !bytes.Equal(x.idx.Auxilliary, y.idx.Auxilliary) {
			return "auxiliary data"
		}
	}
	return ""
}
