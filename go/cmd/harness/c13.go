package main

// C13 — record chunks are replayable; ChunkReader returns exactly the chunk bytes.
//
// BAM part: the uncompressed BAM stream is produced by the library's bam.Writer (small synthetic header and
// records), then cut into BGZF blocks with the library's bgzf.Writer (Write+Flush) at cut points chosen
// against the record ends: exactly on / one before / one after a record end, after the next size field, in
// the middle of a record (spanning), in the header; empty blocks may be spliced in at cuts.  One reader per
// (file, rd): sequential pass noting LastChunk, then SetChunk([Begin_i, End_j]) for all (or sampled) i<=j,
// SetChunk(nil), and Iterators over random chunk lists in any order.
// ChunkReader part: the files of C02 with ordered non-overlapping chunks at arbitrary byte boundaries in
// any valid offset representation, random buffer-size patterns.
// Oracles use only the flat copy, the record table and the block table.

import (
	"bytes"
	"encoding/binary"
	"encoding/hex"
	"fmt"
	"io"
	"sort"
	"strings"
	"time"

	"github.com/biogo/hts/bam"
	"github.com/biogo/hts/bgzf"
	"github.com/biogo/hts/bgzf/index"
	"github.com/biogo/hts/sam"
)

func init() { checks["C13"] = checkC13 }

// ---------------------------------------------------------------------------
// BAM files

type c13Rec struct {
	NameLen int `json:"name"`
	SeqLen  int `json:"seq"`
	Ref     int `json:"ref"` // -1 = unplaced
}

type c13Bam struct {
	Refs    []int    `json:"refs"` // name lengths of the references
	Recs    []c13Rec `json:"recs"`
	Cuts    []int    `json:"cuts"`     // logical positions where a new block starts (sorted, inside (0,total))
	EmptyAt []int    `json:"empty_at"` // indexes into the block sequence before which an empty block is spliced
	Marker  bool     `json:"marker"`
	Trunc   int      `json:"trunc,omitempty"` // > 0: the uncompressed stream is cut to this many bytes (inside the records)

	// derived
	f        *c02File
	flat     []byte
	hdrReads []int
	recStart []int // logical start of each record (its size field)
	recEnd   []int
	names    map[string]int
	id       int
}

func c13Name(i, n int) string {
	s := fmt.Sprintf("r%d", i)
	for len(s) < n {
		s += "x"
	}
	return s
}

// flatStream writes header and records with the library's bam.Writer and returns the uncompressed stream.
func (b *c13Bam) flatStream() ([]byte, error) {
	var refs []*sam.Reference
	for i, nl := range b.Refs {
		name := fmt.Sprintf("c%d", i)
		for len(name) < nl {
			name += "y"
		}
		ref, err := sam.NewReference(name, "", "", 100000+i, nil, nil)
		if err != nil {
			return nil, err
		}
		refs = append(refs, ref)
	}
	h, err := sam.NewHeader(nil, refs)
	if err != nil {
		return nil, err
	}
	var buf bytes.Buffer
	var werr error
	o := guardTimeout(30*time.Second, func() {
		w, err := bam.NewWriter(&buf, h, 1)
		if err != nil {
			werr = err
			return
		}
		for i, rc := range b.Recs {
			seq := make([]byte, rc.SeqLen)
			for j := range seq {
				seq[j] = "ACGT"[(i+j)%4]
			}
			var ref *sam.Reference
			pos := -1
			var cig []sam.CigarOp
			if rc.Ref >= 0 && rc.Ref < len(refs) {
				ref = refs[rc.Ref]
				pos = 10 * i
				if rc.SeqLen > 0 {
					cig = []sam.CigarOp{sam.NewCigarOp(sam.CigarMatch, rc.SeqLen)}
				}
			}
			rec, err := sam.NewRecord(c13Name(i, rc.NameLen), ref, nil, pos, -1, 0, byte(i), cig, seq, nil, nil)
			if err != nil {
				werr = err
				return
			}
			if ref == nil {
				rec.Flags |= sam.Unmapped
			}
			if err := w.Write(rec); err != nil {
				werr = err
				return
			}
		}
		werr = w.Close()
	})
	if o.timedOut || o.panicked {
		return nil, fmt.Errorf("bam writer: timeout=%v panic=%v", o.timedOut, o.panicVal)
	}
	if werr != nil {
		return nil, werr
	}
	var flat []byte
	o = guardTimeout(30*time.Second, func() {
		r, err := bgzf.NewReader(bytes.NewReader(buf.Bytes()), 1)
		if err != nil {
			werr = err
			return
		}
		flat, werr = io.ReadAll(r)
	})
	if o.timedOut || o.panicked {
		return nil, fmt.Errorf("bgzf read back: timeout=%v panic=%v", o.timedOut, o.panicVal)
	}
	return flat, werr
}

// parseFlat is the harness's own reading of the BAM layout (SAM spec 4.2): header sizes, record frames.
func (b *c13Bam) parseFlat() error {
	fl := b.flat
	if len(fl) < 12 || string(fl[:4]) != "BAM\x01" {
		return fmt.Errorf("no BAM magic")
	}
	lText := int(int32(binary.LittleEndian.Uint32(fl[4:8])))
	p := 8 + lText
	nRef := int(int32(binary.LittleEndian.Uint32(fl[p : p+4])))
	b.hdrReads = []int{4, 4, lText, 4}
	p += 4
	for i := 0; i < nRef; i++ {
		lName := int(int32(binary.LittleEndian.Uint32(fl[p : p+4])))
		b.hdrReads = append(b.hdrReads, 4, lName, 4)
		p += 4 + lName + 4
	}
	b.recStart, b.recEnd, b.names = nil, nil, map[string]int{}
	for i := 0; p < len(fl); i++ {
		size := int(int32(binary.LittleEndian.Uint32(fl[p : p+4])))
		if size < 32 || p+4+size > len(fl) {
			return fmt.Errorf("bad record frame at %d", p)
		}
		b.recStart = append(b.recStart, p)
		b.recEnd = append(b.recEnd, p+4+size)
		lName := int(fl[p+4+8])
		b.names[string(fl[p+4+32:p+4+32+lName-1])] = i
		p += 4 + size
	}
	if len(b.recStart) != len(b.Recs) {
		return fmt.Errorf("%d record frames for %d records", len(b.recStart), len(b.Recs))
	}
	return nil
}

// build cuts the flat stream into blocks with the library's bgzf.Writer.
func (b *c13Bam) build() error {
	var err error
	if b.flat == nil {
		if b.flat, err = b.flatStream(); err != nil {
			return err
		}
		if err = b.parseFlat(); err != nil {
			return err
		}
		if b.Trunc > 0 && b.Trunc < len(b.flat) {
			b.flat = b.flat[:b.Trunc]
		}
	}
	cuts := append([]int{}, b.Cuts...)
	sort.Ints(cuts)
	var pieces [][]byte
	prev := 0
	for _, c := range cuts {
		if c <= prev || c >= len(b.flat) {
			continue
		}
		pieces = append(pieces, b.flat[prev:c])
		prev = c
	}
	pieces = append(pieces, b.flat[prev:])
	var buf bytes.Buffer
	var werr error
	o := guardTimeout(30*time.Second, func() {
		w := bgzf.NewWriter(&buf, 1)
		for _, p := range pieces {
			for len(p) > 0 { // a piece longer than a block is split by the writer itself; keep the table exact
				n := len(p)
				if n > bgzf.BlockSize {
					n = bgzf.BlockSize
				}
				if _, err := w.Write(p[:n]); err != nil {
					werr = err
					return
				}
				if err := w.Flush(); err != nil {
					werr = err
					return
				}
				p = p[n:]
			}
		}
		werr = w.Close()
	})
	if o.timedOut || o.panicked {
		return fmt.Errorf("bgzf writer: timeout=%v panic=%v", o.timedOut, o.panicVal)
	}
	if werr != nil {
		return werr
	}
	ms, err := splitMembers(buf.Bytes())
	if err != nil {
		return err
	}
	var payloads [][]byte
	for _, p := range pieces {
		for len(p) > 0 {
			n := len(p)
			if n > bgzf.BlockSize {
				n = bgzf.BlockSize
			}
			payloads = append(payloads, p[:n])
			p = p[n:]
		}
	}
	if len(ms) != len(payloads)+2 {
		return fmt.Errorf("writer produced %d members for %d pieces", len(ms), len(payloads))
	}
	emptyM, markerM := ms[len(payloads)], ms[len(payloads)+1]
	f := &c02File{}
	add := func(m, payload []byte, kind string) {
		f.Blocks = append(f.Blocks, c02Block{Kind: kind, Len: len(payload)})
		f.base = append(f.base, int64(len(f.raw)))
		f.csize = append(f.csize, len(m))
		f.start = append(f.start, len(f.flat))
		f.blen = append(f.blen, len(payload))
		f.raw = append(f.raw, m...)
		f.flat = append(f.flat, payload...)
	}
	for i, p := range payloads {
		for _, e := range b.EmptyAt {
			if e == i {
				add(emptyM, nil, "empty")
			}
		}
		add(ms[i], p, "data")
	}
	for _, e := range b.EmptyAt {
		if e >= len(payloads) {
			add(emptyM, nil, "empty")
		}
	}
	if b.Marker {
		add(markerM, nil, "marker")
	}
	f.total = len(f.flat)
	f.length = int64(len(f.raw))
	b.f = f
	return nil
}

func (b *c13Bam) modelBlocks() string {
	var sb strings.Builder
	f := b.f
	for i := range f.base {
		if i > 0 {
			sb.WriteByte(',')
		}
		sb.WriteString("x")
		sb.WriteString(hex.EncodeToString(f.flat[f.start[i] : f.start[i]+f.blen[i]]))
		fmt.Fprintf(&sb, ":%d", f.csize[i])
	}
	return sb.String()
}

func genC13Bam(rnd *Rand) *c13Bam {
	b := &c13Bam{}
	for i, n := 0, rnd.rng(0, 3); i < n; i++ {
		b.Refs = append(b.Refs, rnd.rng(2, 12))
	}
	nrec := rnd.pick([]int{0, 1, 2, 3, 4, 5, 6, 8, 10, 14})
	for i := 0; i < nrec; i++ {
		rc := c13Rec{NameLen: rnd.rng(2, 20), SeqLen: rnd.rng(1, 60), Ref: rnd.rng(-1, len(b.Refs)-1)}
		if rnd.coin(1, 25) {
			rc.SeqLen = rnd.rng(3000, 9000) // body larger than the reader's 4 KiB buffer
		}
		b.Recs = append(b.Recs, rc)
	}
	return b
}

// chooseCuts picks block boundaries against the record ends.
func (b *c13Bam) chooseCuts(rnd *Rand, r *Result) {
	b.Cuts, b.EmptyAt = nil, nil
	total := len(b.flat)
	for k, e := range b.recEnd {
		if !rnd.coin(3, 5) {
			continue
		}
		var c int
		switch x := rnd.intn(10); {
		case x < 3:
			c = e
			r.hist("cut.on-record-end")
		case x < 5:
			c = e - 1
			r.hist("cut.record-end-1")
		case x < 7:
			c = e + 1
			r.hist("cut.record-end+1")
		case x < 8:
			c = e + 4
			r.hist("cut.after-next-size-field")
		case x < 9:
			c = e + rnd.rng(2, 3)
			r.hist("cut.inside-size-field")
		default:
			c = (b.recStart[k] + e) / 2
			r.hist("cut.mid-record")
		}
		b.Cuts = append(b.Cuts, c)
	}
	if rnd.coin(1, 3) && len(b.recStart) > 0 {
		b.Cuts = append(b.Cuts, rnd.rng(1, b.recStart[0])) // inside / at the end of the header
		r.hist("cut.header")
	}
	for i, n := 0, rnd.intn(3); i < n; i++ {
		b.Cuts = append(b.Cuts, rnd.rng(1, total))
		r.hist("cut.random")
	}
	for i, n := 0, rnd.pick([]int{0, 0, 0, 1, 2}); i < n; i++ {
		b.EmptyAt = append(b.EmptyAt, rnd.intn(len(b.Cuts)+3))
		r.hist("cut.empty-block-spliced")
	}
	b.Marker = !rnd.coin(1, 4)
}

// ---------------------------------------------------------------------------

type c13Input struct {
	Kind string   `json:"kind"` // bam | chunkreader
	Bam  *c13Bam  `json:"bam,omitempty"`
	Ops  []string `json:"ops,omitempty"`
	Rd   int      `json:"rd"`
	// chunkreader
	File    *c02File `json:"file,omitempty"`
	Chunks  string   `json:"chunks,omitempty"`
	Pattern []int    `json:"pattern,omitempty"`
}

func vOff(o bgzf.Offset) int64 { return o.File<<16 | int64(o.Block) }

func showOff(o bgzf.Offset) string { return fmt.Sprintf("%d.%d", o.File, o.Block) }

func showChunk(c bgzf.Chunk) string { return showOff(c.Begin) + "-" + showOff(c.End) }

const c13Timeout = 10 * time.Second

type c13Run struct {
	c    *ctx
	b    *c13Bam
	rd   int
	br   *bam.Reader
	ops  []string // model ops performed so far
	out  []string // implementation answers
	dead bool
}

func (x *c13Run) input() c13Input {
	return c13Input{Kind: "bam", Bam: x.b, Ops: append([]string{}, x.ops...), Rd: x.rd}
}

func (x *c13Run) fail(sig, what string) { x.c.res.fail(sig, what, x.input()) }

// guarded runs f under the watchdog; false when the reader must be abandoned.
func (x *c13Run) guarded(what string, f func()) bool {
	o := guardTimeout(c13Timeout, f)
	if o.timedOut {
		x.fail(fmt.Sprintf("c13.hang.%s.rd%d", strings.Fields(what)[0], x.rd), what+" did not return")
		x.dead = true
		return false
	}
	if o.panicked {
		x.fail("panic:"+topRepoFrame(o.stack), what+": "+o.panicVal)
		x.dead = true
		return false
	}
	return true
}

func (x *c13Run) recString(rec *sam.Record, ch bgzf.Chunk) (int, string) {
	i, ok := x.b.names[rec.Name]
	if !ok {
		return -1, "unknown-record"
	}
	body := x.b.flat[x.b.recStart[i]+4 : x.b.recEnd[i]]
	return i, fmt.Sprintf("%d.%d.%s.%s", len(body), c02Hash(body), showOff(ch.Begin), showOff(ch.End))
}

// readAll: Read until an error; returns the record indexes, chunks and the final error.
func (x *c13Run) readAll() (idx []int, chunks []bgzf.Chunk, ferr error, ok bool) {
	var parts []string
	limit := len(x.b.Recs)*8 + 50
	for n := 0; ; n++ {
		if n > limit {
			x.fail("c13.read.no-end", "Read keeps returning records")
			x.dead = true
			return nil, nil, nil, false
		}
		var rec *sam.Record
		var err error
		if !x.guarded("Read", func() { rec, err = x.br.Read() }) {
			return nil, nil, nil, false
		}
		if err != nil {
			ferr = err
			parts = append(parts, c02ErrClass(err))
			break
		}
		ch := x.br.LastChunk()
		i, s := x.recString(rec, ch)
		idx = append(idx, i)
		chunks = append(chunks, ch)
		parts = append(parts, s)
	}
	x.ops = append(x.ops, "A")
	x.out = append(x.out, strings.Join(parts, "|"))
	return idx, chunks, ferr, true
}

func (x *c13Run) setChunk(c *bgzf.Chunk) bool {
	var err error
	if !x.guarded("SetChunk", func() { err = x.br.SetChunk(c) }) {
		return false
	}
	if c == nil {
		x.ops = append(x.ops, "N")
	} else {
		x.ops = append(x.ops, "C"+showChunk(*c))
	}
	x.out = append(x.out, c02ErrClass(err))
	if err != nil {
		x.fail("c13.setchunk.error", fmt.Sprintf("SetChunk(%v): %v", c, err))
		return false
	}
	return true
}

// seek: bam.Reader.Seek
func (x *c13Run) seek(off bgzf.Offset) bool {
	var err error
	if !x.guarded("Seek", func() { err = x.br.Seek(off) }) {
		return false
	}
	x.ops = append(x.ops, "S"+showOff(off))
	x.out = append(x.out, c02ErrClass(err))
	if err != nil {
		x.fail("c13.seek.error", fmt.Sprintf("Seek(%v): %v", off, err))
		return false
	}
	return true
}

func sameInts(a, b []int) bool {
	if len(a) != len(b) {
		return false
	}
	for i := range a {
		if a[i] != b[i] {
			return false
		}
	}
	return true
}

func seqInts(i, j int) []int {
	var s []int
	for k := i; k <= j; k++ {
		s = append(s, k)
	}
	return s
}

// boundaryClass says how the end of record j lies relative to block ends (for signatures/histogram).
func (b *c13Bam) boundaryClass(pos int) string {
	f := b.f
	for i := range f.start {
		e := f.start[i] + f.blen[i]
		if f.blen[i] == 0 {
			continue
		}
		switch pos {
		case e:
			return "on-block-end"
		case e - 1:
			return "block-end-1"
		case e + 1:
			return "block-end+1"
		}
	}
	return "inside"
}

func runC13Bam(c *ctx, b *c13Bam, rd int, replayOps []string) (ops, out []string) {
	r := c.res
	x := &c13Run{c: c, b: b, rd: rd}
	var err error
	if !x.guarded("NewReader", func() { x.br, err = bam.NewReader(bytes.NewReader(b.f.raw), rd) }) {
		return nil, nil
	}
	if err != nil {
		x.fail("c13.newreader.error", err.Error())
		return nil, nil
	}
	defer func() {
		if !x.dead {
			x.guarded("Close", func() { x.br.Close() })
		}
	}()
	n := len(b.Recs)
	nf0 := r.NFailures
	// 1. sequential pass
	idx, chunks, ferr, ok := x.readAll()
	if !ok {
		return x.ops, x.out
	}
	if !sameInts(idx, seqInts(0, n-1)) || ferr != io.EOF {
		x.fail("c13.sequential", fmt.Sprintf("sequential pass returned records %v then %v, expected 0..%d then EOF", idx, ferr, n-1))
		return x.ops, x.out
	}
	for i, ch := range chunks {
		if p, ok := b.f.translate(ch.Begin); !ok || p != b.recStart[i] {
			x.fail("c13.chunk.begin", fmt.Sprintf("record %d: Begin %v translates to %d (valid %v), record starts at %d", i, ch.Begin, p, ok, b.recStart[i]))
		}
		if p, ok := b.f.translate(ch.End); !ok || p != b.recEnd[i] {
			x.fail("c13.chunk.end", fmt.Sprintf("record %d: End %v translates to %d (valid %v), record ends at %d", i, ch.End, p, ok, b.recEnd[i]))
		}
		if vOff(ch.Begin) >= vOff(ch.End) {
			x.fail("c13.chunk.monotone.begin-end", fmt.Sprintf("record %d: chunk %v", i, ch))
		}
		if i > 0 && vOff(chunks[i-1].End) > vOff(ch.Begin) {
			x.fail("c13.chunk.monotone.end-nextbegin", fmt.Sprintf("record %d: previous End %v > Begin %v", i, chunks[i-1].End, ch.Begin))
		}
		r.hist("record-end." + b.boundaryClass(b.recEnd[i]))
	}
	if r.NFailures > nf0 {
		return x.ops, x.out
	}
	curNext := n // the sequential pass ended at the end of the data
	// 2. chunk replay for i <= j
	type pair struct{ i, j int }
	var pairs []pair
	for i := 0; i < n; i++ {
		for j := i; j < n; j++ {
			pairs = append(pairs, pair{i, j})
		}
	}
	if len(pairs) > 40 && replayOps == nil {
		for k := range pairs {
			l := k + c.rnd.intn(len(pairs)-k)
			pairs[k], pairs[l] = pairs[l], pairs[k]
		}
		pairs = pairs[:40]
	}
	for _, p := range pairs {
		ch := bgzf.Chunk{Begin: chunks[p.i].Begin, End: chunks[p.j].End}
		if !x.setChunk(&ch) {
			return x.ops, x.out
		}
		idx, _, ferr, ok := x.readAll()
		if !ok {
			return x.ops, x.out
		}
		if !sameInts(idx, seqInts(p.i, p.j)) || ferr != io.EOF {
			x.fail("c13.replay."+b.boundaryClass(b.recEnd[p.j]),
				fmt.Sprintf("SetChunk([Begin of %d, End of %d] = %v) returned records %v then %v", p.i, p.j, ch, idx, ferr))
		}
		curNext = p.j + 1
		r.eval(fmt.Sprintf("bam%d|%d|%d|%d", b.id, rd, p.i, p.j), p.i < p.j || b.boundaryClass(b.recEnd[p.j]) != "inside")
	}
	// 3. SetChunk(nil): the limit is lifted and reading continues after the last record read
	if len(pairs) > 0 {
		last := pairs[len(pairs)-1].j
		if !x.setChunk(nil) {
			return x.ops, x.out
		}
		idx, _, ferr, ok := x.readAll()
		if !ok {
			return x.ops, x.out
		}
		if !sameInts(idx, seqInts(last+1, n-1)) || ferr != io.EOF {
			x.fail("c13.setchunk-nil", fmt.Sprintf("after SetChunk(nil) records %v then %v, expected %d..%d then EOF", idx, ferr, last+1, n-1))
		}
		curNext = n
	}
	// 3b. repositioning without a Read in between (the reader's own idea of "where I am" must not be trusted):
	// read records 0..k through a chunk, then (a) SetChunk to another chunk that is never read, or (b) Reader.Seek
	// elsewhere, then SetChunk to the chunk that begins exactly at the End noted for record k.
	var ks []int
	for _, k := range []int{0, n - 2, (n - 2) / 2} {
		if k >= 0 && k <= n-2 && (len(ks) == 0 || ks[len(ks)-1] != k) && !(len(ks) > 1 && ks[0] == k) {
			ks = append(ks, k)
		}
	}
	for vi, k := range ks {
		for variant := 0; variant < 2; variant++ {
			j := n - 1
			if (vi+variant)%2 == 1 {
				j = k + 1
			}
			first := bgzf.Chunk{Begin: chunks[0].Begin, End: chunks[k].End}
			if !x.setChunk(&first) {
				return x.ops, x.out
			}
			idx, _, ferr, ok := x.readAll()
			if !ok {
				return x.ops, x.out
			}
			if !sameInts(idx, seqInts(0, k)) || ferr != io.EOF {
				x.fail("c13.replay."+b.boundaryClass(b.recEnd[k]), fmt.Sprintf("SetChunk(%v) returned records %v then %v", first, idx, ferr))
				return x.ops, x.out
			}
			what := "setchunk-unread"
			if variant == 0 {
				other := bgzf.Chunk{Begin: chunks[0].Begin, End: chunks[0].End}
				if !x.setChunk(&other) {
					return x.ops, x.out
				}
			} else {
				what = "reader-seek"
				if !x.seek(chunks[0].Begin) {
					return x.ops, x.out
				}
			}
			next := bgzf.Chunk{Begin: chunks[k].End, End: chunks[j].End}
			if !x.setChunk(&next) {
				return x.ops, x.out
			}
			idx, _, ferr, ok = x.readAll()
			if !ok {
				return x.ops, x.out
			}
			if !sameInts(idx, seqInts(k+1, j)) || ferr != io.EOF {
				x.fail("c13.replay.after-"+what, fmt.Sprintf("records 0..%d read, then %s, then SetChunk([End of %d, End of %d] = %v) returned records %v then %v", k, what, k, j, next, idx, ferr))
			}
			curNext = j + 1
			r.eval(fmt.Sprintf("bam%d|%d|reposition|%d|%d|%d", b.id, rd, k, j, variant), true)
			r.hist("reposition." + what)
		}
	}
	if len(ks) > 0 && !x.setChunk(nil) { // lift the limit again for what follows
		return x.ops, x.out
	}
	// 4. iterators over chunk lists in any order
	for it := 0; it < 3 && n > 0; it++ {
		var cl []bgzf.Chunk
		var exp []int
		for k, m := 0, c.rnd.rng(0, 5); k < m; k++ {
			i := c.rnd.intn(n)
			j := i + c.rnd.intn(n-i)
			if c.rnd.coin(1, 2) {
				j = i
			}
			cl = append(cl, bgzf.Chunk{Begin: chunks[i].Begin, End: chunks[j].End})
			exp = append(exp, seqInts(i, j)...)
			curNext = j + 1
		}
		var iter *bam.Iterator
		var err error
		if !x.guarded("NewIterator", func() { iter, err = bam.NewIterator(x.br, cl) }) {
			return x.ops, x.out
		}
		cs := make([]string, len(cl))
		for k := range cl {
			cs[k] = showChunk(cl[k])
		}
		op := "I" + strings.Join(cs, "+")
		if len(cl) == 0 {
			op = "I-"
		}
		x.ops = append(x.ops, op)
		if err != nil {
			x.out = append(x.out, "new:"+c02ErrClass(err))
			x.fail("c13.iterator.new", err.Error())
			return x.ops, x.out
		}
		var got []int
		var parts []string
		limit := len(exp) + n + 50
		for cnt := 0; ; cnt++ {
			if cnt > limit {
				x.fail("c13.iterator.no-end", "Next keeps returning true")
				x.dead = true
				return x.ops, x.out
			}
			var more bool
			if !x.guarded("Next", func() { more = iter.Next() }) {
				return x.ops, x.out
			}
			if !more {
				break
			}
			i, s := x.recString(iter.Record(), x.br.LastChunk())
			got = append(got, i)
			parts = append(parts, s)
		}
		ierr := iter.Error()
		parts = append(parts, c02ErrClass(ierr))
		x.out = append(x.out, strings.Join(parts, "|"))
		var cerr error
		if !x.guarded("Iterator.Close", func() { cerr = iter.Close() }) {
			return x.ops, x.out
		}
		if len(cl) == 0 {
			// no chunks = no restriction: the iterator reads on from the current position to the end
			exp = seqInts(curNext, n-1)
			curNext = n
		}
		if !sameInts(got, exp) || ierr != nil || cerr != nil {
			x.fail("c13.iterator", fmt.Sprintf("chunks %v: records %v error %v close %v, expected records %v", cl, got, ierr, cerr, exp))
		}
		r.eval(fmt.Sprintf("bam%d|%d|it%d", b.id, rd, it), len(cl) > 1)
		r.hist(fmt.Sprintf("iterator.chunks.%d", len(cl)))
	}
	return x.ops, x.out
}

// runC13Trunc: a BAM whose record stream is cut at b.Trunc.  The sequential pass returns the whole records before
// the cut and then io.EOF only when the cut is a record boundary, io.ErrUnexpectedEOF otherwise (also when
// exactly the size field is present: bam/reader.go newBuffer).  An iterator over [the cut record, record 0]
// stops at the cut record with that error and does not go on to the next chunk.
func runC13Trunc(c *ctx, b *c13Bam, rd int) (ops, out []string) {
	r := c.res
	x := &c13Run{c: c, b: b, rd: rd}
	var err error
	if !x.guarded("NewReader", func() { x.br, err = bam.NewReader(bytes.NewReader(b.f.raw), rd) }) {
		return nil, nil
	}
	if err != nil {
		x.fail("c13.newreader.error", err.Error())
		return nil, nil
	}
	defer func() {
		if !x.dead {
			x.guarded("Close", func() { x.br.Close() })
		}
	}()
	nFull, cut := 0, -1 // whole records; the record the cut falls into (-1: record boundary)
	for i := range b.recStart {
		if b.recEnd[i] <= b.Trunc {
			nFull++
		} else if b.recStart[i] < b.Trunc {
			cut = i
		}
	}
	class := "boundary"
	expErr := io.EOF
	if cut >= 0 {
		expErr = io.ErrUnexpectedEOF
		switch d := b.Trunc - b.recStart[cut]; {
		case d < 4:
			class = "inside-size-field"
		case d == 4:
			class = "size-field-only"
		default:
			class = "inside-body"
		}
	}
	r.hist("trunc." + class)
	idx, chunks, ferr, ok := x.readAll()
	if !ok {
		return x.ops, x.out
	}
	if !sameInts(idx, seqInts(0, nFull-1)) || ferr != expErr {
		x.fail("c13.trunc.sequential."+class, fmt.Sprintf("stream cut at %d (%s): records %v then %v, expected 0..%d then %v", b.Trunc, class, idx, ferr, nFull-1, expErr))
		return x.ops, x.out
	}
	// iterator over [chunk from the cut point's record to the end of the file, chunk of record 0]
	p := b.Trunc
	if cut >= 0 {
		p = b.recStart[cut]
	}
	reps := b.f.offsetReps(p, false)
	if len(reps) == 0 {
		r.eval(fmt.Sprintf("trunc%d|%d", b.id, rd), true)
		return x.ops, x.out
	}
	begin := reps[0]
	if o, ok := b.f.offsetOf(p); ok {
		begin = o
	}
	cl := []bgzf.Chunk{{Begin: begin, End: bgzf.Offset{File: b.f.length + 1000}}}
	exp := []int{}
	if nFull > 0 {
		cl = append(cl, chunks[0])
		if cut < 0 {
			exp = []int{0}
		}
	}
	var iter *bam.Iterator
	if !x.guarded("NewIterator", func() { iter, err = bam.NewIterator(x.br, cl) }) {
		return x.ops, x.out
	}
	cs := make([]string, len(cl))
	for k := range cl {
		cs[k] = showChunk(cl[k])
	}
	x.ops = append(x.ops, "I"+strings.Join(cs, "+"))
	if err != nil {
		x.out = append(x.out, "new:"+c02ErrClass(err))
		x.fail("c13.iterator.new", err.Error())
		return x.ops, x.out
	}
	var got []int
	var parts []string
	for cnt := 0; ; cnt++ {
		if cnt > len(b.Recs)+50 {
			x.fail("c13.iterator.no-end", "Next keeps returning true")
			x.dead = true
			return x.ops, x.out
		}
		var more bool
		if !x.guarded("Next", func() { more = iter.Next() }) {
			return x.ops, x.out
		}
		if !more {
			break
		}
		i, s := x.recString(iter.Record(), x.br.LastChunk())
		got = append(got, i)
		parts = append(parts, s)
	}
	ierr := iter.Error()
	parts = append(parts, c02ErrClass(ierr))
	x.out = append(x.out, strings.Join(parts, "|"))
	if !x.guarded("Iterator.Close", func() { iter.Close() }) {
		return x.ops, x.out
	}
	wantErr := error(nil)
	if cut >= 0 {
		wantErr = io.ErrUnexpectedEOF
	}
	if !sameInts(got, exp) || ierr != wantErr {
		x.fail("c13.trunc.iterator."+class, fmt.Sprintf("stream cut at %d (%s), chunks %v: records %v error %v, expected records %v error %v", b.Trunc, class, cl, got, ierr, exp, wantErr))
	}
	r.eval(fmt.Sprintf("trunc%d|%d", b.id, rd), true)
	return x.ops, x.out
}

// ---------------------------------------------------------------------------
// ChunkReader

// offsetReps lists every virtual offset that names logical position p (asEnd also allows (fileLen,0)).
func (f *c02File) offsetReps(p int, asEnd bool) []bgzf.Offset {
	var out []bgzf.Offset
	for i := range f.start {
		if f.start[i] <= p && p <= f.start[i]+f.blen[i] && p-f.start[i] <= 0xffff { // the end of a 65536-byte block has no in-block representation
			out = append(out, bgzf.Offset{File: f.base[i], Block: uint16(p - f.start[i])})
		}
	}
	if asEnd && p == f.total {
		out = append(out, bgzf.Offset{File: f.length})
	}
	return out
}

func runC13ChunkReader(c *ctx, f *c02File, chunks []bgzf.Chunk, logical [][2]int, pattern []int, rd int, hasEmpty bool) (int, []string) {
	r := c.res
	cs := make([]string, len(chunks))
	for i := range chunks {
		cs[i] = showChunk(chunks[i])
	}
	in := c13Input{Kind: "chunkreader", File: &c02File{Blocks: f.Blocks}, Chunks: strings.Join(cs, "+"), Pattern: pattern, Rd: rd}
	var bg *bgzf.Reader
	var cr *index.ChunkReader
	var err error
	o := guardTimeout(c13Timeout, func() {
		bg, err = bgzf.NewReader(bytes.NewReader(f.raw), rd)
		if err == nil {
			cr, err = index.NewChunkReader(bg, chunks)
		}
	})
	if o.timedOut || o.panicked {
		r.fail("c13.chunkreader.new.hang-or-panic", o.panicVal, in)
		return 0, nil
	}
	if err != nil {
		r.fail("c13.chunkreader.new.error", err.Error(), in)
		return 0, nil
	}
	var exp []byte
	for _, l := range logical {
		exp = append(exp, f.flat[l[0]:l[1]]...)
	}
	sig := "c13.chunkreader"
	if hasEmpty {
		sig = "c13.chunkreader.emptychunk"
	}
	var got []byte
	var out []string
	limit := len(exp) + 70000*len(chunks) + 100
	maxp := 0
	for _, p := range pattern {
		if p > maxp {
			maxp = p
		}
	}
	buf := make([]byte, maxp)
	sawEOF := false
	var failSig, failWhat string
	var stack string
	// the whole client loop runs under one watchdog (a goroutine per Read would dominate the run time)
	o = guardTimeout(3*c13Timeout, func() {
		for k := 0; k < limit; k++ {
			p := buf[:pattern[k%len(pattern)]]
			n, e := cr.Read(p)
			if n < 0 || n > len(p) {
				failSig, failWhat = sig+".count", fmt.Sprintf("Read #%d returned n=%d for a %d byte buffer", k, n, len(p))
				return
			}
			got = append(got, p[:n]...)
			out = append(out, fmt.Sprintf("%d:%s:%d", n, c02ErrClass(e), c02Hash(p[:n])))
			if e == io.EOF {
				sawEOF = true
				return
			}
			if e != nil {
				failSig, failWhat = sig+".error", fmt.Sprintf("Read #%d: %v", k, e)
				return
			}
		}
	})
	_ = stack
	if o.timedOut {
		r.fail(sig+".hang", "the Read loop did not finish within the watchdog time", in)
		return 0, nil
	}
	if o.panicked {
		r.fail("panic:"+topRepoFrame(o.stack), o.panicVal, in)
		return len(out), out
	}
	if failSig != "" {
		r.fail(failSig, failWhat, in)
		return len(out), out
	}
	guardTimeout(c13Timeout, func() { cr.Close(); bg.Close() })
	switch {
	case !sawEOF:
		r.fail(sig+".no-eof", fmt.Sprintf("no io.EOF after %d reads (%d of %d bytes delivered)", limit, len(got), len(exp)), in)
	case !bytes.Equal(got, exp):
		what := "different bytes"
		if len(got) < len(exp) && bytes.Equal(got, exp[:len(got)]) {
			what = "stops early"
		} else if len(got) > len(exp) && bytes.Equal(got[:len(exp)], exp) {
			what = "reads past the chunk end"
		}
		r.fail(sig+".bytes", fmt.Sprintf("chunks %s (logical %v): returned %d bytes, expected %d: %s", in.Chunks, logical, len(got), len(exp), what), in)
	}
	return len(out), out
}

func genChunkList(rnd *Rand, f *c02File, allowEmpty bool) (chunks []bgzf.Chunk, logical [][2]int, hasEmpty bool) {
	n := rnd.pick([]int{0, 1, 1, 2, 2, 3, 3, 4})
	if f.total == 0 {
		n = 0
	}
	// 2n sorted logical positions, biased to block boundaries
	var ps []int
	for i := 0; i < 2*n; i++ {
		var p int
		switch x := rnd.intn(10); {
		case x < 4:
			j := rnd.intn(len(f.start))
			p = f.start[j] + rnd.pick([]int{0, 0, 1, f.blen[j], f.blen[j], f.blen[j] - 1})
		case x < 5:
			p = f.total
		case x < 6:
			p = 0
		default:
			p = rnd.intn(f.total + 1)
		}
		if p < 0 {
			p = 0
		}
		if p > f.total {
			p = f.total
		}
		ps = append(ps, p)
	}
	sort.Ints(ps)
	for i := 0; i < n; i++ {
		p, q := ps[2*i], ps[2*i+1]
		if p == q {
			if !allowEmpty {
				continue
			}
			hasEmpty = true
		}
		bs := f.offsetReps(p, false)
		es := f.offsetReps(q, true)
		if len(bs) == 0 || len(es) == 0 {
			continue
		}
		b := bs[rnd.intn(len(bs))]
		e := es[rnd.intn(len(es))]
		if p == q && vOff(b) > vOff(e) {
			b, e = e, b
			if b.File == f.length { // not a seek target
				continue
			}
		}
		chunks = append(chunks, bgzf.Chunk{Begin: b, End: e})
		logical = append(logical, [2]int{p, q})
	}
	return
}

// c13GridShapes: files in which a member holds the legal maximum of 65536 payload bytes.
var c13GridShapes = [][]c02Block{
	{{Kind: "data", Len: 7, Seed: 70}, {Kind: "hand", Len: 65536, Seed: 77}, {Kind: "data", Len: 1, Seed: 106}},
	{{Kind: "hand", Len: 65536, Seed: 5}, {Kind: "data", Len: 5, Seed: 9}, {Kind: "marker"}},
	{{Kind: "hand", Len: 65536, Seed: 200}, {Kind: "empty"}, {Kind: "data", Len: 3, Seed: 1}},
}

func genPattern(rnd *Rand) []int {
	n := rnd.rng(1, 4)
	p := make([]int, n)
	for i := range p {
		p[i] = rnd.pick([]int{1, 1, 2, 3, 7, 16, 100, 1000, 4096, 65280, 70000})
	}
	if rnd.coin(1, 8) {
		p = append(p, 0) // a zero-length buffer among the others
	}
	return p
}

// smaller blocks than C02's generator, so that byte-wise patterns stay cheap
func genC13File(rnd *Rand) *c02File {
	f := genC02File(rnd)
	big := false
	for i := range f.Blocks {
		b := &f.Blocks[i]
		if b.Kind == "data" && b.Len > 3000 {
			if !big && rnd.coin(1, 6) {
				big = true
				continue
			}
			b.Len = rnd.pick([]int{1, 2, 5, 300, 2999})
		}
	}
	return f
}

// ---------------------------------------------------------------------------

func checkC13(c *ctx) {
	r := c.res
	r.Rule = "BAM: header with 0..3 references and 0..14 records (bodies 34..130 bytes, some > 4 KiB) written by bam.Writer, re-cut into blocks by bgzf.Writer " +
		"at cuts chosen against record ends (on / -1 / +1 / after or inside the next size field / mid-record / header / random), empty blocks spliced in, with and without marker; " +
		"per (file, rd in 1..3): sequential pass, SetChunk([Begin_i,End_j]) for all i<=j (<= 40 sampled beyond), SetChunk(nil), 3 iterators over 0..5 chunks in any order. " +
		"Truncated record streams (same number again): the uncompressed stream cut at a record boundary / inside a size field / right after a size field / inside a body; sequential pass, then an iterator over [cut record .. beyond the file, record 0] which must stop at the cut record with io.ErrUnexpectedEOF. " +
		"A replay case (file, rd, i, j) is non-trivial when i<j or record j ends on/next to a block end; an iterator case when it has >= 2 chunks. " +
		"ChunkReader: C02-style files (blocks <= 3000 bytes, sometimes one full block), 0..4 ordered non-overlapping chunks with boundaries biased to block ends in any valid offset representation, " +
		"cyclic buffer-size patterns from {0,1,2,3,7,16,100,1000,4096,65280,70000}, rd 1..3; non-trivial when a chunk spans a block end."
	if c.replay != "" {
		var in c13Input
		if err := loadReplay(c.replay, &in); err != nil {
			r.note("replay: %v", err)
			return
		}
		switch in.Kind {
		case "bam":
			if err := in.Bam.build(); err != nil {
				r.note("replay: %v", err)
				return
			}
			if in.Bam.Trunc > 0 {
				runC13Trunc(c, in.Bam, in.Rd)
			} else {
				runC13Bam(c, in.Bam, in.Rd, append([]string{"replay"}, in.Ops...))
			}
		case "chunkreader":
			f := in.File
			if err := f.build(); err != nil {
				r.note("replay: %v", err)
				return
			}
			var chunks []bgzf.Chunk
			var logical [][2]int
			hasEmpty := false
			for _, s := range strings.Split(in.Chunks, "+") {
				var ch bgzf.Chunk
				var bb, eb int
				if _, err := fmt.Sscanf(s, "%d.%d-%d.%d", &ch.Begin.File, &bb, &ch.End.File, &eb); err != nil {
					continue
				}
				ch.Begin.Block, ch.End.Block = uint16(bb), uint16(eb)
				p, _ := f.translate(ch.Begin)
				q, _ := f.translate(ch.End)
				if p == q {
					hasEmpty = true
				}
				chunks = append(chunks, ch)
				logical = append(logical, [2]int{p, q})
			}
			runC13ChunkReader(c, f, chunks, logical, in.Pattern, in.Rd, hasEmpty)
		}
		r.eval("replay", true)
		return
	}
	d := c.drv()
	type run struct {
		line   int
		stream string
		impl   []string
	}
	var runs []run
	nBam, nCR := 60, 500
	if c.thorough() {
		nBam, nCR = 600, 8000
	}
	for k := 0; k < nBam; k++ {
		b := genC13Bam(c.rnd)
		var err error
		if b.flat, err = b.flatStream(); err == nil {
			err = b.parseFlat()
		}
		if err != nil {
			r.fail("c13.build", err.Error(), c13Input{Kind: "bam", Bam: b})
			continue
		}
		for variant := 0; variant < 3; variant++ {
			b := &c13Bam{Refs: b.Refs, Recs: b.Recs, flat: b.flat, hdrReads: b.hdrReads, recStart: b.recStart, recEnd: b.recEnd, names: b.names, id: 3*k + variant}
			b.chooseCuts(c.rnd, r)
			if err := b.build(); err != nil {
				r.fail("c13.build", err.Error(), c13Input{Kind: "bam", Bam: b})
				continue
			}
			r.hist(fmt.Sprintf("bam.records.%d", len(b.Recs)))
			r.hist(fmt.Sprintf("bam.blocks.%d", len(b.f.base)))
			hs := make([]string, len(b.hdrReads))
			for i, h := range b.hdrReads {
				hs[i] = fmt.Sprint(h)
			}
			rd := 1 + (k+variant)%3
			ops, out := runC13Bam(c, b, rd, nil)
			if ops != nil {
				li := d.add("c13.bam %s %s %s", b.modelBlocks(), strings.Join(hs, ","), strings.Join(ops, ","))
				runs = append(runs, run{li, fmt.Sprintf("C13.bam.rd%d", rd), out})
			}
			if k < 2 && variant == 0 {
				r.sample(c13Input{Kind: "bam", Bam: b, Rd: rd, Ops: ops})
			}
		}
	}
	// truncated record streams (audit L-11): the stream ends inside / right after a size field or inside a body
	for k := 0; k < nBam; k++ {
		b := genC13Bam(c.rnd)
		if len(b.Recs) == 0 {
			b.Recs = append(b.Recs, c13Rec{NameLen: 3, SeqLen: 5, Ref: -1})
		}
		var err error
		if b.flat, err = b.flatStream(); err == nil {
			err = b.parseFlat()
		}
		if err != nil {
			r.fail("c13.build", err.Error(), c13Input{Kind: "bam", Bam: b})
			continue
		}
		i := c.rnd.intn(len(b.Recs))
		var t int
		switch k % 4 {
		case 0:
			t = b.recStart[i] + 4
		case 1:
			t = b.recStart[i] + c.rnd.rng(1, 3)
		case 2:
			t = b.recStart[i] + 4 + c.rnd.rng(1, b.recEnd[i]-b.recStart[i]-5)
		default:
			t = b.recStart[i]
			if i == 0 {
				t = b.recStart[i] + 4
			}
		}
		b.chooseCuts(c.rnd, r)
		b.Trunc, b.id = t, 3*nBam+k
		b.flat = b.flat[:t]
		if err := b.build(); err != nil {
			r.fail("c13.build", err.Error(), c13Input{Kind: "bam", Bam: b})
			continue
		}
		hs := make([]string, len(b.hdrReads))
		for i, h := range b.hdrReads {
			hs[i] = fmt.Sprint(h)
		}
		rd := 1 + k%3
		ops, out := runC13Trunc(c, b, rd)
		if ops != nil {
			li := d.add("c13.bam %s %s %s", b.modelBlocks(), strings.Join(hs, ","), strings.Join(ops, ","))
			runs = append(runs, run{li, fmt.Sprintf("C13.bam.trunc.rd%d", rd), out})
		}
	}
	for k := 0; k < nCR; k++ {
		f := genC13File(c.rnd)
		grid := -1
		if k%10 == 9 {
			f = genC02ExtremeFile(c.rnd, true) // hand-framed members at the limits of the format
			r.hist("chunkreader.extreme-file")
			if g := k / 10; g < 2*len(c13GridShapes) {
				// corpus first: a member of 65536 payload bytes entered at its start, by a chunk that ends at
				// (base of a later member, 0)
				grid = g
				f = &c02File{Blocks: append([]c02Block{}, c13GridShapes[g%len(c13GridShapes)]...)}
				r.hist("chunkreader.extreme-grid")
			}
		}
		if err := f.build(); err != nil {
			r.fail("c13.build", err.Error(), c13Input{Kind: "chunkreader", File: f})
			continue
		}
		allowEmpty := k%5 == 4
		chunks, logical, hasEmpty := genChunkList(c.rnd, f, allowEmpty)
		if grid >= 0 {
			big, last := 0, len(f.base)-1
			for j := range f.blen {
				if f.blen[j] == 65536 {
					big = j
				}
			}
			for f.blen[last] == 0 {
				last--
			}
			from := 0
			if grid >= len(c13GridShapes) {
				from = big
			}
			chunks = []bgzf.Chunk{{Begin: bgzf.Offset{File: f.base[from]}, End: bgzf.Offset{File: f.base[last]}}}
			logical, hasEmpty = [][2]int{{f.start[from], f.start[last]}}, false
		}
		pattern := genPattern(c.rnd)
		rd := 1 + k%3
		spans := false
		for i, l := range logical {
			for j := range f.start {
				e := f.start[j] + f.blen[j]
				if f.blen[j] > 0 && l[0] < e && e <= l[1] {
					spans = true
				}
			}
			switch {
			case l[0] == l[1]:
				r.hist("chunk.empty")
			case chunks[i].End.Block == 0:
				r.hist("chunk.end-block-offset-zero")
			case chunks[i].Begin.File == chunks[i].End.File:
				r.hist("chunk.within-one-block")
			default:
				r.hist("chunk.across-blocks")
			}
		}
		r.hist(fmt.Sprintf("chunkreader.chunks.%d", len(chunks)))
		nreads, out := runC13ChunkReader(c, f, chunks, logical, pattern, rd, hasEmpty)
		cs := make([]string, len(chunks))
		for i := range chunks {
			cs[i] = showChunk(chunks[i])
		}
		csS := strings.Join(cs, "+")
		if len(cs) == 0 {
			csS = "-"
		}
		r.eval(fmt.Sprintf("cr|%s|%s|%v|%d", f.modelBlocks(), csS, pattern, rd), spans)
		if f.has64k() {
			// a member of 65536 payload bytes is outside the Lean model's domain (WF: payload < 65536): the repaired
			// txOffset reports the position behind its last byte as (NextBase, 0), the model still wraps to (base, 0)
			// and sees io.EOF one call later; these runs are judged by the oracle (exact bytes) alone
			r.hist("chunkreader.model-comparison.skipped.payload65536")
		} else if out != nil && nreads > 0 {
			sizes := make([]string, nreads)
			for i := range sizes {
				sizes[i] = fmt.Sprint(pattern[i%len(pattern)])
			}
			li := d.add("c13.cr %s %s %s", f.modelBlocks(), csS, strings.Join(sizes, ","))
			runs = append(runs, run{li, fmt.Sprintf("C13.chunkreader.rd%d", rd), out})
		}
		if k < 2 {
			r.sample(c13Input{Kind: "chunkreader", File: &c02File{Blocks: f.Blocks}, Chunks: csS, Pattern: pattern, Rd: rd})
		}
	}
	model, err := d.run()
	if err != nil {
		r.disagree("C13", "(driver failure)", "", err.Error())
		return
	}
	for _, ru := range runs {
		r.ModelOps += len(ru.impl)
		line := d.lines[ru.line]
		if len(line) > 4000 {
			line = line[:4000] + "…"
		}
		c02Compare(r, ru.stream, line, ru.impl, model[ru.line], false)
	}
}
