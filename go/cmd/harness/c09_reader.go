package main

import "time"

type rInput struct{}

func rRunAndJudge(c *ctx, in rInput, d *Driver, impl *[]string) {}

func checkC09Reader(c *ctx, n int, budget time.Duration) {}
