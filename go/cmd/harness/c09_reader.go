package main

// C09, reader part: a valid BGZF file read through a source that starts failing at some point.

import (
	"bytes"
	"encoding/binary"
	"errors"
	"fmt"
	"io"
	"runtime"
	"strings"
	"sync/atomic"
	"time"

	"github.com/biogo/hts/bgzf"
)

type rOp struct {
	K string `json:"k"`           // r (Read n bytes) | b (ReadByte) | s (Seek to member M, offset O) | c (Close)
	N int    `json:"n,omitempty"` // read size
	M int    `json:"m,omitempty"` // seek: member index
	O int    `json:"o,omitempty"` // seek: offset within the member's data
}

type rInput struct {
	Blocks      []int  `json:"blocks"` // payload size of each data block written (Flush after each); Close adds an empty block and the EOF marker
	RD          int    `json:"rd"`
	Ops         []rOp  `json:"ops"`
	Kind        string `json:"kind"`          // err | eof (premature io.EOF = truncated source)
	ReadFaultAt int    `json:"read_fault_at"` // index of the first failing Read call of the source (-1: none)
	ByteFaultAt int    `json:"byte_fault_at"` // byte offset at which the source starts failing (-1: none)
	SeekFaultAt int    `json:"seek_fault_at"` // index of the first failing Seek call of the source (-1: none)
	Partial     bool   `json:"partial"`       // the first failing Read delivers some bytes together with the error
	Chunk       int    `json:"chunk"`         // the source returns at most this many bytes per Read (0: unlimited)
	Seekable    bool   `json:"seekable"`
	Procs       int    `json:"gomaxprocs"`
	DelayUs     int    `json:"delay_us"` // random delay (0..DelayUs) in every source call
	DelaySeed   uint64 `json:"delay_seed"`
	DataSeed    uint64 `json:"data_seed"`
	pingPong    bool   // generator hint: put the fault into the member that follows the first Seek target
}

var errInjectedRead = errors.New("verif: injected read fault")
var errInjectedSeek = errors.New("verif: injected seek fault")

// faultSource serves file through Read (and Seek) and starts failing at the configured point; once it has
// failed every later Read fails in the same way.
type faultSource struct {
	file     []byte
	pos      int
	in       *rInput
	nread    int
	nseek    int
	failing  bool
	failedAt int // source offset at which the first failing Read was made (after its partial bytes), -1 before
	delays   *Rand
	inCall   int32
	reached  bool
}

func (s *faultSource) pause() {
	if s.in.DelayUs > 0 {
		if d := s.delays.intn(s.in.DelayUs + 1); d > 0 {
			time.Sleep(time.Duration(d) * time.Microsecond)
			return
		}
	}
	runtime.Gosched()
}

func (s *faultSource) fail() error {
	if s.in.Kind == "eof" {
		return io.EOF
	}
	return errInjectedRead
}

// Read is called by one goroutine at a time (the reader serialises access with its head token).
// Kind "err": from the fault point on every Read fails (the device has gone).
// Kind "eof": the file is truncated at the fault point T: reads below T succeed, reads at or beyond T report
// io.EOF (also after a Seek), exactly like a shorter file.
func (s *faultSource) Read(p []byte) (int, error) {
	atomic.AddInt32(&s.inCall, 1)
	defer atomic.AddInt32(&s.inCall, -1)
	s.pause()
	idx := s.nread
	s.nread++
	if len(p) == 0 {
		return 0, nil
	}
	if s.failing && s.in.Kind != "eof" {
		return 0, s.fail()
	}
	limit := len(s.file)
	if s.failing { // truncated at failedAt
		limit = s.failedAt
		if s.pos >= limit {
			return 0, io.EOF
		}
	}
	byteFault := false
	if !s.failing && s.in.ByteFaultAt >= 0 && s.in.ByteFaultAt < limit && (s.in.ByteFaultAt >= s.pos || s.in.Kind == "eof") {
		limit = s.in.ByteFaultAt
		byteFault = true
		if s.pos > limit { // a truncated file read beyond its end
			s.failing = true
			s.reached = true
			s.failedAt = limit
			return 0, io.EOF
		}
	}
	n := len(p)
	if s.in.Chunk > 0 && n > s.in.Chunk {
		n = s.in.Chunk
	}
	if n > limit-s.pos {
		n = limit - s.pos
	}
	callFault := !s.failing && s.in.ReadFaultAt >= 0 && idx >= s.in.ReadFaultAt
	if callFault || (byteFault && s.pos == limit) {
		s.failing = true
		s.reached = true
		k := 0
		if s.in.Partial && callFault && n > 1 {
			k = n / 2
			copy(p, s.file[s.pos:s.pos+k])
			s.pos += k
		}
		s.failedAt = s.pos
		return k, s.fail()
	}
	if n == 0 {
		return 0, io.EOF // the true end of the file (or of the truncated file)
	}
	copy(p, s.file[s.pos:s.pos+n])
	s.pos += n
	if byteFault && s.pos == limit && s.in.Partial {
		// error after partial data: the bytes up to the fault point come with the error
		s.failing = true
		s.reached = true
		s.failedAt = s.pos
		return n, s.fail()
	}
	return n, nil
}

func (s *faultSource) Seek(off int64, whence int) (int64, error) {
	atomic.AddInt32(&s.inCall, 1)
	defer atomic.AddInt32(&s.inCall, -1)
	s.pause()
	idx := s.nseek
	s.nseek++
	if s.in.SeekFaultAt >= 0 && idx >= s.in.SeekFaultAt {
		s.reached = true
		return 0, errInjectedSeek
	}
	switch whence {
	case io.SeekStart:
	case io.SeekCurrent:
		off += int64(s.pos)
	case io.SeekEnd:
		off += int64(len(s.file))
	}
	if off < 0 {
		return 0, errors.New("negative seek")
	}
	s.pos = int(off)
	if s.pos > len(s.file) {
		s.pos = len(s.file)
	}
	return off, nil
}

// readOnly hides Seek.
type readOnly struct{ r io.Reader }

func (r readOnly) Read(p []byte) (int, error) { return r.r.Read(p) }

type rMember struct {
	off, size int // position and size of the member in the file
	dataOff   int // position of its payload in the flat data
	n         int // payload size
}

// rMembers parses the file into members (own framing parser).
func rMembers(file []byte) ([]rMember, []byte) {
	var ms []rMember
	var flat []byte
	off := 0
	for off < len(file) {
		xlen := int(binary.LittleEndian.Uint16(file[off+10:]))
		bsize := -1
		for x := file[off+12 : off+12+xlen]; len(x) >= 4; {
			l := int(binary.LittleEndian.Uint16(x[2:]))
			if x[0] == 'B' && x[1] == 'C' && l == 2 {
				bsize = int(binary.LittleEndian.Uint16(x[4:]))
			}
			x = x[4+l:]
		}
		if bsize < 0 {
			panic("rMembers: no BC field")
		}
		payloads, err := wParseMembers(file[off : off+bsize+1])
		if err != nil || len(payloads) != 1 {
			panic(fmt.Sprint("rMembers: ", err))
		}
		ms = append(ms, rMember{off: off, size: bsize + 1, dataOff: len(flat), n: len(payloads[0])})
		flat = append(flat, payloads[0]...)
		off += bsize + 1
	}
	return ms, flat
}

func rBuildFile(in *rInput) []byte {
	var buf bytes.Buffer
	w := bgzf.NewWriter(&buf, 1)
	total := 0
	for _, n := range in.Blocks {
		total += n
	}
	data := wData(in.DataSeed, total)
	p := 0
	for _, n := range in.Blocks {
		w.Write(data[p : p+n])
		p += n
		w.Flush()
	}
	if err := w.Close(); err != nil {
		panic(err)
	}
	return buf.Bytes()
}

var rHangs int32

// rRunAndJudge runs one reader history, applies the oracle, and (for pure sequential histories) queues the
// model line.
func rRunAndJudge(c *ctx, in rInput, d *Driver, impl *[]string) (reached bool) {
	res := c.res
	file := rBuildFile(&in)
	ms, flat := rMembers(file)
	src := &faultSource{file: file, in: &in, delays: &Rand{in.DelaySeed}, failedAt: -1}
	old := runtime.GOMAXPROCS(in.Procs)
	defer runtime.GOMAXPROCS(old)
	before := len(libGoroutines(allStacks(), "github.com/biogo/hts/bgzf.", false))
	busy := func() bool { return atomic.LoadInt32(&src.inCall) > 0 }
	input := c09Input{Kind: "reader", Reader: &in}
	cfgs := fmt.Sprintf("rd%d", in.RD)
	truncated := ""
	if in.Kind == "eof" {
		truncated = ".truncated-source"
	}

	var under io.Reader = src
	if !in.Seekable {
		under = readOnly{src}
	}
	var bg *bgzf.Reader
	var err error
	oc, hg := apiCall(wAPILimit, busy, func() { bg, err = bgzf.NewReader(under, in.RD) })
	if hg != nil {
		atomic.AddInt32(&rHangs, 1)
		res.fail("reader.hang.newreader."+cfgs, fmt.Sprintf("NewReader did not return (dead-lock: %v), parked in %s", hg.Deadlock, hg.APIFrame), input)
		return src.reached
	}
	if oc.panicked {
		res.fail("reader.panic:"+topRepoFrame(oc.stack), "NewReader: "+oc.panicVal, input)
		return src.reached
	}
	lpos := 0        // logical position of the next byte the reader should deliver
	posKnown := true // false after a failed Seek (the position is then unspecified until the next successful Seek)
	sequential := true
	total := 0
	end := ""
	closed := false
	judgeEOF := func(what string) {
		if lpos == len(flat) {
			return
		}
		// a source truncated at T: positioned on a member boundary at or beyond T the reader sees exactly what it
		// would see at the end of a shorter file
		if in.Kind == "eof" && src.failing {
			for _, m := range ms {
				if m.off >= src.failedAt && m.dataOff == lpos {
					return
				}
			}
		}
		res.fail("reader.clean-eof.before-true-end"+truncated, fmt.Sprintf("%s reported io.EOF at logical offset %d of %d (source failing: %v, first failing source offset %d, kind %s)",
			what, lpos, len(flat), src.failing, src.failedAt, in.Kind), input)
	}
	if err != nil {
		if err == io.EOF {
			judgeEOF("NewReader")
		}
		end = "err"
		if err == io.EOF {
			end = "eof"
		}
		if isSequential(in.Ops) && d != nil && in.SeekFaultAt < 0 {
			rQueueModel(d, impl, ms, &in, src, 0, end)
		}
		return src.reached
	}
	for i, op := range in.Ops {
		var n int
		var buf []byte
		var bt byte
		var f func()
		switch op.K {
		case "r":
			buf = make([]byte, op.N)
			f = func() { n, err = bg.Read(buf) }
		case "b":
			f = func() { bt, err = bg.ReadByte(); n = 1; buf = []byte{bt} }
		case "s":
			sequential = false
			if !in.Seekable {
				continue
			}
			m := ms[op.M%len(ms)]
			o := op.O
			if o > m.n {
				o = m.n
			}
			f = func() { err = bg.Seek(bgzf.Offset{File: int64(m.off), Block: uint16(o)}) }
		case "c":
			f = func() { err = bg.Close() }
			closed = true
		}
		oc, hg := apiCall(wAPILimit, busy, f)
		name := map[string]string{"r": "read", "b": "readbyte", "s": "seek", "c": "close"}[op.K]
		if hg != nil {
			atomic.AddInt32(&rHangs, 1)
			res.fail(fmt.Sprintf("reader.hang.%s.%s", name, cfgs), fmt.Sprintf("op %d (%s) did not return (dead-lock by goroutine dump: %v), API goroutine parked in %s; library goroutines: %s", i, name, hg.Deadlock, hg.APIFrame, libSummary(hg.Dump)), input)
			return src.reached
		}
		if oc.panicked {
			res.fail("reader.panic:"+topRepoFrame(oc.stack), fmt.Sprintf("op %d (%s): %s", i, name, oc.panicVal), input)
			return src.reached
		}
		switch op.K {
		case "r", "b":
			if op.K == "b" && err != nil && err != io.EOF {
				n = 0
			}
			if op.K == "b" && err == io.EOF {
				// ReadByte returns the last byte of a block together with io.EOF only in Blocked mode
				n = 0
			}
			if posKnown && n > 0 {
				if lpos+n > len(flat) || !bytes.Equal(buf[:n], flat[lpos:lpos+n]) {
					res.fail("reader.wrong-bytes", fmt.Sprintf("op %d (%s) returned %d bytes that differ from the data at logical offset %d", i, name, n, lpos), input)
					return src.reached
				}
			}
			lpos += n
			total += n
			if err == io.EOF && posKnown {
				judgeEOF(fmt.Sprintf("op %d (%s)", i, name))
			}
			if err != nil && end == "" {
				end = "err"
				if err == io.EOF {
					end = "eof"
				}
			}
		case "s":
			if err == nil {
				m := ms[op.M%len(ms)]
				o := op.O
				if o > m.n {
					o = m.n
				}
				lpos = m.dataOff + o
				posKnown = true
			} else {
				posKnown = false
			}
		case "c":
		}
		if closed {
			break
		}
	}
	if !closed {
		oc, hg := apiCall(wAPILimit, busy, func() { err = bg.Close() })
		if hg != nil {
			atomic.AddInt32(&rHangs, 1)
			res.fail("reader.hang.close."+cfgs, fmt.Sprintf("Close did not return (dead-lock by goroutine dump: %v), API goroutine parked in %s", hg.Deadlock, hg.APIFrame), input)
			return src.reached
		}
		if oc.panicked {
			res.fail("reader.panic:"+topRepoFrame(oc.stack), "Close: "+oc.panicVal, input)
			return src.reached
		}
	}
	var after []string
	for try := 0; try < 100; try++ {
		after = libGoroutines(allStacks(), "github.com/biogo/hts/bgzf.", false)
		if len(after) <= before {
			break
		}
		time.Sleep(2 * time.Millisecond)
	}
	if len(after) > before {
		res.fail("reader.leak.after-close."+cfgs, fmt.Sprintf("%d goroutine(s) with bgzf frames remain after Close (before: %d); last: %s", len(after), before, firstLines(after[len(after)-1], 8)), input)
	}
	if sequential && isSequential(in.Ops) && d != nil && in.SeekFaultAt < 0 && end != "" {
		rQueueModel(d, impl, ms, &in, src, total, end)
	}
	return src.reached
}

// isSequential: only reads, reading on until an error or the end (so the outcome is determined by the file
// and the fault point alone).
func isSequential(ops []rOp) bool {
	for _, o := range ops {
		if o.K == "s" || o.K == "c" {
			return false
		}
	}
	return true
}

func rQueueModel(d *Driver, impl *[]string, ms []rMember, in *rInput, src *faultSource, total int, end string) {
	parts := make([]string, len(ms))
	for i, m := range ms {
		parts[i] = fmt.Sprintf("%d:%d", m.size, m.n)
	}
	cut := "-"
	if src.failing {
		cut = fmt.Sprint(src.failedAt)
	}
	d.add("c09.read %s %s %s", strings.Join(parts, ","), in.Kind, cut)
	*impl = append(*impl, fmt.Sprintf("n=%d end=%s", total, end))
}

func rGenInput(rnd *Rand) rInput {
	in := rInput{
		RD:          rnd.pick([]int{1, 1, 2, 2, 4}),
		Kind:        "err",
		ReadFaultAt: -1, ByteFaultAt: -1, SeekFaultAt: -1,
		Procs:     rnd.pick([]int{1, 2, 16}),
		DelaySeed: rnd.u64(),
		DataSeed:  rnd.u64() >> 8,
		Seekable:  rnd.coin(2, 3),
	}
	nb := rnd.rng(1, 6)
	for i := 0; i < nb; i++ {
		switch rnd.intn(16) {
		case 0, 1:
			in.Blocks = append(in.Blocks, 1)
		case 2:
			in.Blocks = append(in.Blocks, wBlockSize)
		case 3, 4:
			in.Blocks = append(in.Blocks, rnd.rng(4000, 9000))
		default:
			in.Blocks = append(in.Blocks, rnd.rng(1, 600))
		}
	}
	if rnd.coin(1, 2) {
		in.Chunk = rnd.pick([]int{1, 7, 18, 100, 4096})
	}
	if rnd.coin(1, 3) && (in.Chunk == 0 || in.Chunk >= 4096) {
		// delays only with large source reads: a 64 KiB member read one byte at a time is 65 536 calls
		in.DelayUs = rnd.pick([]int{20, 100, 300})
	}
	if rnd.coin(1, 5) {
		in.Kind = "eof"
	}
	in.Partial = rnd.coin(1, 3)
	total := 0
	for _, b := range in.Blocks {
		total += b
	}
	// history
	seq := rnd.coin(1, 2)
	nops := rnd.rng(3, 25)
	for i := 0; i < nops; i++ {
		k := rnd.intn(10)
		switch {
		case seq || k < 6:
			sz := rnd.pick([]int{1, 2, 10, 100, 500, 5000, wBlockSize, 2 * wBlockSize})
			if rnd.coin(1, 3) {
				sz = rnd.rng(1, 3000)
			}
			in.Ops = append(in.Ops, rOp{K: "r", N: sz})
		case k < 7:
			in.Ops = append(in.Ops, rOp{K: "b"})
		default:
			in.Ops = append(in.Ops, rOp{K: "s", M: rnd.intn(nb + 2), O: rnd.pick([]int{0, 0, 1, rnd.rng(0, 600)})})
		}
	}
	if !seq && in.Seekable && rnd.coin(1, 3) {
		// seek ping-pong, then read forward: read-ahead is still heading for an older target when the reader
		// moves on (the shape that strands Read when that older target fails)
		in.Ops = nil
		in.pingPong = true
		if in.RD == 1 {
			in.RD = rnd.pick([]int{2, 4})
		}
		for j := rnd.rng(1, 3); j > 0; j-- {
			in.Ops = append(in.Ops, rOp{K: "s", M: rnd.rng(1, nb+1), O: 0})
			if rnd.coin(1, 2) {
				in.Ops = append(in.Ops, rOp{K: "r", N: rnd.pick([]int{1, 10, 500})})
			}
		}
		in.Ops = append(in.Ops, rOp{K: "s", M: 0, O: rnd.pick([]int{0, 1 << 20})})
		for left := total; left > 0; left -= 30000 {
			in.Ops = append(in.Ops, rOp{K: "r", N: 30000})
		}
		in.Ops = append(in.Ops, rOp{K: "r", N: 10})
	}
	if seq {
		// read to the end
		for left := total; left > 0; left -= 30000 {
			in.Ops = append(in.Ops, rOp{K: "r", N: 30000})
		}
		in.Ops = append(in.Ops, rOp{K: "r", N: 10}, rOp{K: "r", N: 10})
	} else if rnd.coin(1, 4) {
		in.Ops = append(in.Ops, rOp{K: "c"})
	}
	return in
}

// rPlaceFault chooses the fault point, boundary biased, knowing the file layout.
func rPlaceFault(rnd *Rand, in *rInput) {
	file := rBuildFile(in)
	ms, _ := rMembers(file)
	if in.pingPong && rnd.coin(2, 3) {
		// the member read-ahead is sent to by the first Seek fails; the device is gone from then on
		x := (in.Ops[0].M%len(ms) + 1) % len(ms)
		in.Kind = "err"
		in.ByteFaultAt = ms[x].off + rnd.pick([]int{0, 9, 18, ms[x].size - 1})
		return
	}
	switch rnd.intn(10) {
	case 0, 1, 2:
		in.ReadFaultAt = rnd.pick([]int{0, 1, 2, 3, rnd.rng(0, 12), rnd.rng(0, 40)})
	case 3:
		if in.Seekable {
			in.SeekFaultAt = rnd.pick([]int{0, 0, 1, 2})
		} else {
			in.ReadFaultAt = rnd.rng(0, 6)
		}
	default:
		m := ms[rnd.intn(len(ms))]
		in.ByteFaultAt = m.off + rnd.pick([]int{0, 1, 9, 10, 11, 12, 16, 17, 18, 19, m.size / 2, m.size - 9, m.size - 8, m.size - 1})
		if in.ByteFaultAt < 0 {
			in.ByteFaultAt = 0
		}
		if rnd.coin(1, 8) {
			in.ByteFaultAt = rnd.intn(len(file) + 1)
		}
	}
}

func checkC09Reader(c *ctx, n int, budget time.Duration) {
	res := c.res
	d := c.drv()
	var impl []string
	start := time.Now()
	for i := 0; i < n; i++ {
		if time.Since(start) > budget {
			res.note("reader: time budget reached after %d cases", i)
			break
		}
		in := rGenInput(c.rnd)
		rPlaceFault(c.rnd, &in)
		noteCase(c09Input{Kind: "reader", Reader: &in})
		reached := rRunAndJudge(c, in, d, &impl)
		res.hist(fmt.Sprintf("reader-rd=%d", in.RD))
		res.hist("reader-kind=" + in.Kind)
		switch {
		case in.ReadFaultAt >= 0:
			res.hist("reader-fault=read-call")
		case in.SeekFaultAt >= 0:
			res.hist("reader-fault=seek-call")
		default:
			res.hist("reader-fault=byte-offset")
		}
		if reached {
			res.hist("reader-fault=reached")
		} else {
			res.hist("reader-fault=not-reached")
		}
		if in.Seekable {
			res.hist("reader-seekable")
		}
		js := fmt.Sprintf("%+v", in)
		res.eval("r|"+js, reached)
		if i%500 == 0 {
			res.sample(c09Input{Kind: "reader", Reader: &in})
		}
		if atomic.LoadInt32(&rHangs) >= c09MaxHangs {
			res.note("reader: stopping after %d hung readers (their parked goroutines are abandoned, bounded)", atomic.LoadInt32(&rHangs))
			break
		}
	}
	before := res.NDisagreements
	d.compare(res, "c09.read", impl)
	if res.NDisagreements > before {
		res.note("reader: %d sequential outcomes differ from the sequential fault model", res.NDisagreements-before)
	}
	res.TracesValidated += len(impl)

	// histories of Read/ReadByte/Seek under faults vs the operational model (c09_reader_model.go)
	nh := 400
	if c.thorough() {
		nh = 6000
	}
	checkC09ReaderModel(c, nh)
}

// libSummary lists, for every goroutine with bgzf frames, its state and its innermost bgzf frame with line.
func libSummary(dump string) string {
	var out []string
	for _, sec := range strings.Split(dump, "\n\n") {
		if !strings.Contains(sec, "github.com/biogo/hts/bgzf.") {
			continue
		}
		lines := strings.Split(sec, "\n")
		for i, l := range lines {
			if strings.HasPrefix(l, "github.com/biogo/hts/bgzf.") && i+1 < len(lines) {
				loc := strings.TrimSpace(lines[i+1])
				if j := strings.LastIndex(loc, "/"); j >= 0 {
					loc = loc[j+1:]
				}
				if j := strings.Index(loc, " "); j >= 0 {
					loc = loc[:j]
				}
				fn := strings.TrimPrefix(l, "github.com/biogo/hts/bgzf.")
				if j := strings.LastIndex(fn, "("); j > 0 {
					fn = fn[:j]
				}
				out = append(out, fmt.Sprintf("[%s] %s %s", goroutineState(sec), fn, loc))
				break
			}
		}
	}
	return strings.Join(out, "; ")
}
