package main

// C11 tie (a): the panic-site inventory is regenerated from the repository on every run
// (`extract -panics`) and compared with lean/expectations/C11.json.  A site that is new, a site whose
// enclosing function changed (hash of the printed declaration), or a site without a justification is
// a broken obligation and is reported as a disagreement of the stream "inventory".
//
// Justifications: "lemma: <theorem>[, <theorem>] [(note)]": each theorem must be an obligation of
// Props/C11.lean AND be registered in Hts/Tie/C11.lean (`citations`, whose names Lean resolves on every
// build) for the Go function of the site, at least one of them with kind "ops" (its model contains the
// partial operations of that function); "model: <theorem> (guard)": the theorem is registered for the
// function with kind "guards" (a value-level model of another property, in which the site is represented
// by its dominating guard only; the guard is named in the note); "guarded-by: <dominating check>"
// (reviewed by hand against the function text with that hash), "safe: <reason>" (cannot panic for a
// reason local to the expression), "corpus-only" (covered by the search only).
//
// C11_UPDATE_EXPECTATIONS=1 rewrites the expectations file from the fresh inventory, keeping every
// existing justification whose site still exists and marking new sites UNREVIEWED (which the
// comparison treats as unmapped).

import (
	"encoding/json"
	"fmt"
	"os"
	"os/exec"
	"path/filepath"
	"regexp"
	"sort"
	"strings"
)

type c11InvSite struct {
	Func string `json:"func"`
	Kind string `json:"kind"`
	Expr string `json:"expr"`
	Occ  int    `json:"occ"`
	Line int    `json:"line"`
}

func (s c11InvSite) key() string { return fmt.Sprintf("%s|%s|%s|%d", s.Func, s.Kind, s.Expr, s.Occ) }

type c11InvFunc struct {
	File  string `json:"file"`
	Hash  string `json:"hash"`
	Sites int    `json:"sites"`
}

type c11Inv struct {
	Files     []string              `json:"files"`
	Functions map[string]c11InvFunc `json:"functions"`
	Sites     []c11InvSite          `json:"sites"`
	Stats     map[string]int        `json:"stats"`
	Errors    []string              `json:"errors"`
}

type c11Expect struct {
	Comment   string            `json:"_comment"`
	Functions map[string]string `json:"functions"` // function -> hash of the reviewed declaration
	Sites     map[string]string `json:"sites"`     // site key -> justification
}

var c11TheoremRe = regexp.MustCompile(`(?m)^\s*theorem\s+(\S+)`)

// one row of `citations` in Hts/Tie/C11.lean: (“Name, "ops"|"guards", ["go.func", ...])
var c11CitationRe = regexp.MustCompile("(?s)\\(``(\\S+?),\\s*\"(ops|guards)\",\\s*\\[(.*?)\\]\\)")
var c11QuotedRe = regexp.MustCompile(`"([^"]+)"`)

// c11Citations reads the registry: theorem -> function -> set of kinds.
func c11Citations(root string) map[string]map[string]map[string]bool {
	reg := map[string]map[string]map[string]bool{}
	b, err := os.ReadFile(filepath.Join(root, "lean", "Hts", "Tie", "C11.lean"))
	if err != nil {
		return reg
	}
	for _, m := range c11CitationRe.FindAllStringSubmatch(string(b), -1) {
		if reg[m[1]] == nil {
			reg[m[1]] = map[string]map[string]bool{}
		}
		for _, q := range c11QuotedRe.FindAllStringSubmatch(m[3], -1) {
			if reg[m[1]][q[1]] == nil {
				reg[m[1]][q[1]] = map[string]bool{}
			}
			reg[m[1]][q[1]][m[2]] = true
		}
	}
	return reg
}

func c11Inventory(c *ctx, repo string) {
	res := c.res
	root := c11VerifRoot()
	exe, _ := os.Executable()
	extract := filepath.Join(filepath.Dir(exe), "extract")
	out := filepath.Join(root, ".work", "panics_C11.json")
	os.Remove(out)
	cmd := exec.Command(extract, "-repo", repo, "-panics", out)
	cmd.Env = append(os.Environ(), "GOFLAGS=-mod=mod", "GOPROXY=off", "GOSUMDB=off", "GOTOOLCHAIN=local")
	if b, err := cmd.CombinedOutput(); err != nil {
		res.disagree("inventory", "extract -panics", "failed: "+err.Error()+" "+firstLine(string(b)), "an inventory")
		return
	}
	var inv c11Inv
	if b, err := os.ReadFile(out); err != nil || json.Unmarshal(b, &inv) != nil {
		res.disagree("inventory", "extract -panics", "unreadable inventory", "an inventory")
		return
	}
	for _, e := range inv.Errors {
		res.disagree("inventory", "extract -panics", e, "clean load")
	}
	expPath := filepath.Join(root, "lean", "expectations", "C11.json")
	var exp c11Expect
	if b, err := os.ReadFile(expPath); err == nil {
		if err := json.Unmarshal(b, &exp); err != nil {
			res.disagree("inventory", expPath, "unparsable: "+err.Error(), "expectations")
			return
		}
	} else if os.Getenv("C11_UPDATE_EXPECTATIONS") == "" {
		res.disagree("inventory", expPath, "missing", "expectations")
		return
	}
	if exp.Functions == nil {
		exp.Functions = map[string]string{}
	}
	if exp.Sites == nil {
		exp.Sites = map[string]string{}
	}
	if os.Getenv("C11_UPDATE_EXPECTATIONS") != "" {
		c11UpdateExpectations(expPath, &inv, &exp)
	}

	// theorem names available as lemma justifications
	theorems := map[string]bool{}
	for _, f := range []string{"Props/C11.lean", "Props/C20.lean", "Props/C16.lean"} {
		if b, err := os.ReadFile(filepath.Join(root, "lean", "Hts", f)); err == nil {
			ns := "Hts.Props." + strings.TrimSuffix(filepath.Base(f), ".lean") + "."
			for _, m := range c11TheoremRe.FindAllStringSubmatch(string(b), -1) {
				theorems[ns+m[1]] = true
			}
		}
	}

	registry := c11Citations(root)
	if len(registry) == 0 {
		res.disagree("inventory", "Hts/Tie/C11.lean", "no citation registry found", "a `citations` table")
	}
	broken := 0
	report := func(site, impl, model string) {
		broken++
		res.disagree("inventory", site, impl, model)
	}
	seen := map[string]bool{}
	changedFuncs := map[string]bool{}
	for fn, f := range inv.Functions {
		if f.Sites == 0 {
			continue
		}
		h, ok := exp.Functions[fn]
		switch {
		case !ok:
			changedFuncs[fn] = true
			report(fn, "function with "+fmt.Sprint(f.Sites)+" potential panic sites present in source ("+f.File+")", "no expectation")
		case h != f.Hash:
			changedFuncs[fn] = true
			report(fn, "function body changed (hash "+f.Hash+")", "reviewed hash "+h)
		}
	}
	for _, s := range inv.Sites {
		k := s.key()
		seen[k] = true
		res.hist("inventory:kind:" + s.Kind)
		why, ok := exp.Sites[k]
		switch {
		case !ok || strings.HasPrefix(why, "UNREVIEWED"):
			res.hist("inventory:unmapped")
			if !changedFuncs[s.Func] {
				report(k, "present in source", "no expectation")
			}
		case strings.HasPrefix(why, "lemma: "), strings.HasPrefix(why, "model: "):
			// "<kind>: <theorem>[, <theorem>...] [(free-text note)]"
			kind := why[:strings.IndexByte(why, ':')]
			res.hist("inventory:by-" + kind)
			names := strings.SplitN(why[len(kind)+2:], " (", 2)[0]
			hasOps := false
			for _, name := range strings.Split(names, ", ") {
				name = strings.TrimSpace(name)
				if !theorems[name] {
					report(k, "present in source", "justified by a theorem that does not exist: "+name)
					continue
				}
				kinds := registry[name][s.Func]
				if len(kinds) == 0 {
					report(k, "present in source", "theorem "+name+" is not registered (Hts/Tie/C11.lean) as mirroring "+s.Func)
				}
				if kinds["ops"] {
					hasOps = true
				}
			}
			if kind == "lemma" && !hasOps {
				report(k, "present in source", "`lemma:` needs a theorem whose model contains the partial operations of "+s.Func+" (kind ops)")
			}
		case strings.HasPrefix(why, "guarded-by: "):
			res.hist("inventory:guarded-by")
		case strings.HasPrefix(why, "safe: "):
			res.hist("inventory:safe-local")
		case why == "corpus-only" || strings.HasPrefix(why, "corpus-only"):
			res.hist("inventory:corpus-only")
		default:
			report(k, "present in source", "unrecognised justification: "+why)
		}
	}
	stale := 0
	for k := range exp.Sites {
		if !seen[k] {
			stale++
		}
	}
	res.Histogram["inventory:sites"] = len(inv.Sites)
	res.Histogram["inventory:functions-with-sites"] = len(exp.Functions)
	res.Histogram["inventory:stale-expectations"] = stale
	res.Histogram["inventory:broken-obligations"] = broken
	if stale > 0 {
		res.note("inventory: %d expectation entries no longer match a site (harmless; remove them when updating)", stale)
	}
	res.note("inventory: %d potential panic sites in %d functions of %d files; %d broken obligations", len(inv.Sites), len(inv.Functions), len(inv.Files), broken)
}

func jstr(s string) []byte {
	var b strings.Builder
	e := json.NewEncoder(&b)
	e.SetEscapeHTML(false)
	e.Encode(s)
	return []byte(strings.TrimSpace(b.String()))
}

func c11UpdateExpectations(path string, inv *c11Inv, exp *c11Expect) {
	out := c11Expect{
		Comment: "C11 panic-site expectations: site key = function|kind|expression|occurrence. Justification = 'lemma: <theorem>[, <theorem>]', " +
			"'guarded-by: <dominating check>', 'safe: <local reason>' or 'corpus-only'. 'functions' records the hash of the declaration that was reviewed.",
		Functions: map[string]string{}, Sites: map[string]string{}}
	for fn, f := range inv.Functions {
		if f.Sites > 0 {
			out.Functions[fn] = f.Hash
		}
	}
	for _, s := range inv.Sites {
		k := s.key()
		if why, ok := exp.Sites[k]; ok {
			out.Sites[k] = why
		} else {
			out.Sites[k] = "UNREVIEWED"
		}
	}
	// stable, diff-friendly rendering
	var sb strings.Builder
	sb.WriteString("{\n \"_comment\": ")
	b := jstr(out.Comment)
	sb.Write(b)
	sb.WriteString(",\n \"functions\": {\n")
	fns := make([]string, 0, len(out.Functions))
	for k := range out.Functions {
		fns = append(fns, k)
	}
	sort.Strings(fns)
	for i, k := range fns {
		kb := jstr(k)
		vb := jstr(out.Functions[k])
		fmt.Fprintf(&sb, "  %s: %s", kb, vb)
		if i+1 < len(fns) {
			sb.WriteString(",")
		}
		sb.WriteString("\n")
	}
	sb.WriteString(" },\n \"sites\": {\n")
	ks := make([]string, 0, len(out.Sites))
	for k := range out.Sites {
		ks = append(ks, k)
	}
	sort.Strings(ks)
	for i, k := range ks {
		kb := jstr(k)
		vb := jstr(out.Sites[k])
		fmt.Fprintf(&sb, "  %s: %s", kb, vb)
		if i+1 < len(ks) {
			sb.WriteString(",")
		}
		sb.WriteString("\n")
	}
	sb.WriteString(" }\n}\n")
	os.MkdirAll(filepath.Dir(path), 0o755)
	os.WriteFile(path, []byte(sb.String()), 0o644)
	*exp = out
}
