package main

import (
	"fmt"
	"strings"

	"github.com/biogo/hts/bam"
	"github.com/biogo/hts/csi"
	"github.com/biogo/hts/sam"
)

func init() { checks["C16"] = checkC16 }

type c16Input struct {
	Kind     string `json:"kind"` // record | baipair | csipair | binlist
	Unmapped bool   `json:"unmapped,omitempty"`
	MateUnm  bool   `json:"mate_unmapped,omitempty"`
	Pos      int    `json:"pos,omitempty"`
	Cigar    string `json:"cigar,omitempty"`
	SeqLen   int    `json:"seqlen,omitempty"`
	B1       int64  `json:"b1,omitempty"`
	E1       int64  `json:"e1,omitempty"`
	B2       int64  `json:"b2,omitempty"`
	E2       int64  `json:"e2,omitempty"`
	MinShift uint32 `json:"min_shift,omitempty"`
	Depth    uint32 `json:"depth,omitempty"`
}

type c16Op struct{ t, n int }

func c16CigarText(ops []c16Op) string {
	if len(ops) == 0 {
		return "-"
	}
	p := make([]string, len(ops))
	for i, o := range ops {
		p[i] = fmt.Sprintf("%d:%d", o.t, o.n)
	}
	return strings.Join(p, ",")
}

func c16ParseCigar(s string) []c16Op {
	if s == "-" || s == "" {
		return nil
	}
	var ops []c16Op
	for _, p := range strings.Split(s, ",") {
		var o c16Op
		fmt.Sscanf(p, "%d:%d", &o.t, &o.n)
		ops = append(ops, o)
	}
	return ops
}

func c16Cigar(ops []c16Op) sam.Cigar {
	var c sam.Cigar
	for _, o := range ops {
		c = append(c, sam.CigarOp(uint32(o.t)|uint32(o.n)<<4))
	}
	return c
}

// SAM specification section 1.4.6: which operations consume query / reference.
var c16SpecQuery = map[int]bool{0: true, 1: true, 4: true, 7: true, 8: true}
var c16SpecRef = map[int]bool{0: true, 2: true, 3: true, 7: true, 8: true}

// spec end: pos + reference length; with the B (back) extension the highest coordinate reached.
func c16SpecEnd(pos int, ops []c16Op) (end int, refLen int, queryLen int, hasB bool) {
	p := pos
	end = pos
	for _, o := range ops {
		if c16SpecRef[o.t] {
			p += o.n
			refLen += o.n
		}
		if o.t == 9 {
			p -= o.n
			hasB = true
		}
		if c16SpecQuery[o.t] {
			queryLen += o.n
		}
		if p > end {
			end = p
		}
	}
	return
}

// SAM specification section 5.3, written as the closed form: the deepest level whose bin contains [beg,end).
func c16SpecReg2bin(beg, end int64, minShift, depth uint32) uint32 {
	end--
	for l := int(depth); l >= 0; l-- {
		s := uint(minShift) + 3*uint(int(depth)-l)
		if beg>>s == end>>s {
			return uint32((pow8(l)-1)/7 + beg>>s)
		}
	}
	return 0
}

func pow8(l int) int64 { return int64(1) << (3 * uint(l)) }

func c16SpecReg2bins(beg, end int64, minShift, depth uint32) map[uint32]bool {
	end--
	m := map[uint32]bool{}
	for l := 0; l <= int(depth); l++ {
		s := uint(minShift) + 3*uint(int(depth)-l)
		for k := beg >> s; k <= end>>s; k++ {
			m[uint32((pow8(l)-1)/7+k)] = true
		}
	}
	return m
}

func c16ShowBins(l []uint32) string {
	if len(l) <= 48 {
		if len(l) == 0 {
			return "-"
		}
		p := make([]string, len(l))
		for i, v := range l {
			p[i] = fmt.Sprint(v)
		}
		return strings.Join(p, ",")
	}
	var sum uint64
	for _, v := range l {
		sum += uint64(v)
	}
	return fmt.Sprintf("#%d:%d:%d:%d", len(l), sum, l[0], l[len(l)-1])
}

func c16B2i(b bool) int {
	if b {
		return 1
	}
	return 0
}

// c16Record: End/Len/Lengths/IsValid/Bin of one record against the spec (oracle) and the model.
func c16Record(c *ctx, in c16Input, d *Driver, impl *[]string) {
	r := c.res
	ops := c16ParseCigar(in.Cigar)
	std := true // only the nine standard ops and B
	for _, o := range ops {
		if o.t > 9 {
			std = false
		}
	}
	rec := &sam.Record{Pos: in.Pos, Cigar: c16Cigar(ops)}
	if in.Unmapped {
		rec.Flags |= sam.Unmapped
	}
	if in.MateUnm {
		rec.Flags |= sam.MateUnmapped
	}
	call := func(f func() string) string {
		var s string
		o := guard(func() { s = f() })
		if o.panicked {
			return "panic"
		}
		return s
	}
	endS := call(func() string { return fmt.Sprint(rec.End()) })
	lenS := call(func() string { return fmt.Sprint(rec.Len()) })
	lengthsS := call(func() string { a, b := rec.Cigar.Lengths(); return fmt.Sprintf("%d %d", a, b) })
	validS := call(func() string { return fmt.Sprint(rec.Cigar.IsValid(in.SeqLen)) })
	binS := call(func() string { return fmt.Sprint(rec.Bin()) })
	if std {
		specEnd, refLen, queryLen, hasB := c16SpecEnd(in.Pos, ops)
		if in.Unmapped || len(ops) == 0 {
			specEnd = in.Pos + 1
		}
		if endS != fmt.Sprint(specEnd) {
			r.fail("c16.end", fmt.Sprintf("End()=%s, specification %d", endS, specEnd), in)
		}
		if lenS != fmt.Sprint(specEnd-in.Pos) {
			r.fail("c16.len", fmt.Sprintf("Len()=%s, specification %d", lenS, specEnd-in.Pos), in)
		}
		if lengthsS != fmt.Sprintf("%d %d", refLen, queryLen) {
			r.fail("c16.lengths", fmt.Sprintf("Lengths()=%s, specification %d %d", lengthsS, refLen, queryLen), in)
		}
		// validity: query length must match; H only at the ends; S only at the ends or next to a terminal-side H
		wantValid := c16SpecValid(ops, in.SeqLen)
		if validS != fmt.Sprint(wantValid) {
			sig := "c16.isvalid"
			if hasB {
				sig = "c16.isvalid.back"
			}
			r.fail(sig, fmt.Sprintf("IsValid(%d)=%s, specification %v", in.SeqLen, validS, wantValid), in)
		}
		// bin (SAM v1 §4.2.1): reg2bin(pos, end) with an alignment length of 0 wrapped to 1; unmapped reads
		// as length one, so that an unplaced read (pos -1) has reg2bin(-1, 0) = 4680
		binEnd := specEnd
		if binEnd == in.Pos {
			binEnd++
		}
		placedOK := in.Pos >= 0 || (in.Pos == -1 && (in.Unmapped || len(ops) == 0))
		if placedOK && binEnd > in.Pos && binEnd <= 1<<29 {
			want := c16SpecReg2bin(int64(in.Pos), int64(binEnd), 14, 5)
			if binS != fmt.Sprint(want) {
				cls := "mapped"
				if in.Unmapped && in.MateUnm {
					cls = "bothunmapped"
				} else if in.Unmapped {
					cls = "unmapped"
				}
				r.fail("c16.bin."+cls, fmt.Sprintf("Bin()=%s, specification reg2bin(%d,%d)=%d", binS, in.Pos, binEnd, want), in)
			}
			r.hist("record.bin.judged")
			if specEnd == in.Pos {
				r.hist("record.bin.judged.zero-reference-length")
			}
			if in.Pos == -1 {
				r.hist("record.bin.judged.unplaced")
			}
		} else {
			r.hist("record.bin.notjudged")
		}
		r.hist("record.std")
	} else {
		r.hist("record.nonstd-op")
	}
	if d != nil {
		u := c16B2i(in.Unmapped)
		d.add("c16.end %d %d %s", u, in.Pos, in.Cigar)
		*impl = append(*impl, endS)
		d.add("c16.len %d %d %s", u, in.Pos, in.Cigar)
		*impl = append(*impl, lenS)
		d.add("c16.lengths %s", in.Cigar)
		*impl = append(*impl, lengthsS)
		d.add("c16.isvalid %d %s", in.SeqLen, in.Cigar)
		*impl = append(*impl, validS)
		d.add("c16.bin %d %d %d %s", u, c16B2i(in.MateUnm), in.Pos, in.Cigar)
		*impl = append(*impl, binS)
	}
}

// c16SpecValid: SAM spec: sum of M/I/S/=/X lengths equals the sequence length; H only first or last;
// S only first/last or with only H between it and an end; and, for the B (back) extension as the library
// documents it, no query-consuming operation may start left of the alignment start.
func c16SpecValid(ops []c16Op, seqLen int) bool {
	q := 0
	pos := 0
	for i, o := range ops {
		if o.t == 5 && i != 0 && i != len(ops)-1 {
			return false
		}
		if o.t == 4 && i != 0 && i != len(ops)-1 {
			if !(ops[i-1].t == 5 && i-1 == 0) && !(ops[i+1].t == 5 && i+1 == len(ops)-1) {
				return false
			}
		}
		if pos < 0 && c16SpecQuery[o.t] {
			return false
		}
		if c16SpecQuery[o.t] {
			q += o.n
		}
		if c16SpecRef[o.t] {
			pos += o.n
		}
		if o.t == 9 {
			pos -= o.n
		}
	}
	return q == seqLen
}

// c16BaiPair: bin of interval 1 must be listed for every overlapping interval 2 (BAI scheme).
func c16BaiPair(c *ctx, in c16Input, d *Driver, impl *[]string) {
	r := c.res
	bin := bam.VerifBinFor(int(in.B1), int(in.E1))
	bins := bam.VerifOverlappingBinsFor(int(in.B2), int(in.E2))
	if want := c16SpecReg2bin(in.B1, in.E1, 14, 5); bin != want {
		r.fail("c16.binfor.spec", fmt.Sprintf("BinFor(%d,%d)=%d, specification %d", in.B1, in.E1, bin, want), in)
	}
	found := false
	for _, b := range bins {
		if b == bin {
			found = true
		}
	}
	if !found {
		r.fail("c16.bai.binnotlisted", fmt.Sprintf("BinFor(%d,%d)=%d not in OverlappingBinsFor(%d,%d)", in.B1, in.E1, bin, in.B2, in.E2), in)
	}
	spec := c16SpecReg2bins(in.B2, in.E2, 14, 5)
	if len(spec) != len(bins) {
		r.fail("c16.bai.binlist", fmt.Sprintf("OverlappingBinsFor(%d,%d) has %d bins, specification %d", in.B2, in.E2, len(bins), len(spec)), in)
	} else {
		for _, b := range bins {
			if !spec[b] {
				r.fail("c16.bai.binlist", fmt.Sprintf("OverlappingBinsFor(%d,%d) lists %d, not in the specification's list", in.B2, in.E2, b), in)
				break
			}
		}
	}
	if d != nil {
		d.add("c16.binfor %d %d", in.B1, in.E1)
		*impl = append(*impl, fmt.Sprint(bin))
		d.add("c16.bins %d %d", in.B2, in.E2)
		*impl = append(*impl, c16ShowBins(bins))
	}
}

func c16CsiPair(c *ctx, in c16Input, d *Driver, impl *[]string) {
	r := c.res
	bin := csi.VerifReg2bin(in.B1, in.E1, in.MinShift, in.Depth)
	bins := csi.VerifReg2bins(in.B2, in.E2, in.MinShift, in.Depth)
	if want := c16SpecReg2bin(in.B1, in.E1, in.MinShift, in.Depth); bin != want {
		r.fail("c16.csi.reg2bin.spec", fmt.Sprintf("reg2bin(%d,%d,%d,%d)=%d, specification %d", in.B1, in.E1, in.MinShift, in.Depth, bin, want), in)
	}
	found := false
	for _, b := range bins {
		if b == bin {
			found = true
		}
	}
	if !found {
		r.fail("c16.csi.binnotlisted", fmt.Sprintf("reg2bin(%d,%d)=%d not in reg2bins(%d,%d) for minShift=%d depth=%d", in.B1, in.E1, bin, in.B2, in.E2, in.MinShift, in.Depth), in)
	}
	spec := c16SpecReg2bins(in.B2, in.E2, in.MinShift, in.Depth)
	if len(spec) != len(bins) {
		r.fail("c16.csi.binlist", fmt.Sprintf("reg2bins(%d,%d) has %d bins, specification %d", in.B2, in.E2, len(bins), len(spec)), in)
	}
	if d != nil {
		d.add("c16.reg2bin %d %d %d %d", in.B1, in.E1, in.MinShift, in.Depth)
		*impl = append(*impl, fmt.Sprint(bin))
		d.add("c16.reg2bins %d %d %d %d", in.B2, in.E2, in.MinShift, in.Depth)
		*impl = append(*impl, c16ShowBins(bins))
	}
}

func c16One(c *ctx, in c16Input, d *Driver, impl *[]string) {
	switch in.Kind {
	case "record":
		c16Record(c, in, d, impl)
	case "baipair":
		c16BaiPair(c, in, d, impl)
	case "csipair":
		c16CsiPair(c, in, d, impl)
	case "csianyquery":
		q := c16Query{in.B2, in.E2, in.MinShift, in.Depth}
		c16JudgeCsiAny(c.res, q, c16Probe([]c16Query{q})[q.key()])
	case "baianyquery":
		q := c16Query{in.B2, in.E2, c16BaiQuery, 0}
		a := c16Probe([]c16Query{q})[q.key()]
		spec := c16SpecReg2bins(q.Beg, minI64(q.End, 1<<29), 14, 5)
		keys := make([]uint32, 0, len(spec))
		for b := range spec {
			keys = append(keys, b)
		}
		sortU32(keys)
		if a != c16ShowBins(keys) {
			c.res.fail("c16.bai.anyquery.spec", fmt.Sprintf("OverlappingBinsFor(%d,%d) = %.80s, specification %.80s", in.B2, in.E2, a, c16ShowBins(keys)), in)
		}
	}
}

// edge-biased position in [0, limit)
func c16Pos(rnd *Rand, limit int64) int64 {
	var p int64
	switch rnd.intn(4) {
	case 0: // tile / level edge +-1
		sh := uint(rnd.pick([]int{14, 17, 20, 23, 26, 29}))
		p = int64(rnd.intn(1<<(29-14)))<<14>>(sh-14)<<(sh-14) + int64(rnd.rng(-2, 2))
		if rnd.coin(1, 2) {
			p = int64(1)<<sh*int64(rnd.intn(int((limit>>sh)+1))) + int64(rnd.rng(-2, 2))
		}
	case 1:
		p = int64(rnd.intn(70000))
	case 2:
		p = limit - 1 - int64(rnd.intn(40000))
	default:
		p = int64(rnd.u64() % uint64(limit))
	}
	if p < 0 {
		p = 0
	}
	if p >= limit {
		p = limit - 1
	}
	return p
}

func checkC16(c *ctx) {
	r := c.res
	r.Rule = "records: CIGARs of 0..8 ops over the nine standard ops and B with lengths from {0,1,2,small,2^14±1,2^28-1} at edge-biased positions (tile and bin-level edges ±2, ends of the 2^29 range), mapped/unmapped/mate-unmapped, including CIGARs that consume no reference placed exactly on tile and bin-level boundaries and unplaced reads (pos -1); a separate stream with op types 10..15 (compared with the model only). " +
		"Queries of any extent (empty, reversed, negative begin, end up to MaxInt64; CSI calls in a child process with a deadline and a memory limit, BAI in-process): bin lists against the model with Go loop semantics and against the specification of the query cut to the indexable range. BAI: edge-biased overlapping interval pairs; CSI: every overlapping interval pair of small geometries (exhaustive) and edge-biased pairs of large ones, including geometries whose range exceeds 2^32 up to minShift+3·depth = 62. Non-trivial: CIGAR non-empty / intervals longer than 1; distinct = distinct case text."
	if c.replay != "" {
		var in c16Input
		if err := loadReplay(c.replay, &in); err != nil {
			r.note("replay: %v", err)
			return
		}
		c16One(c, in, nil, nil)
		r.eval("replay", true)
		return
	}
	d := c.drv()
	var impl []string
	rnd := c.rnd
	lens := []int{0, 1, 2, 3, 16383, 16384, 16385, 1<<28 - 1}
	nRec := 6000
	if c.thorough() {
		nRec = 200000
	}
	for i := 0; i < nRec; i++ {
		n := rnd.intn(9)
		if rnd.coin(1, 10) {
			n = 0
		}
		ops := make([]c16Op, n)
		nonstd := rnd.coin(1, 25)
		for j := range ops {
			t := rnd.intn(10)
			if rnd.coin(3, 4) {
				t = rnd.pick([]int{0, 0, 1, 2, 3, 4, 5, 7, 8})
			}
			if nonstd && rnd.coin(1, 3) {
				t = rnd.rng(10, 15)
			}
			l := rnd.pick(lens)
			if rnd.coin(2, 3) {
				l = rnd.intn(300)
			}
			ops[j] = c16Op{t, l}
		}
		// clipping at the ends, sometimes
		if n >= 2 && rnd.coin(1, 3) {
			ops[0].t = rnd.pick([]int{4, 5})
			ops[n-1].t = rnd.pick([]int{4, 5})
			if n >= 4 && rnd.coin(1, 2) {
				ops[0].t, ops[1].t = 5, 4
			}
		}
		// a CIGAR that consumes no reference (insertions, clips, padding only): End() = Pos
		zeroRef := n > 0 && rnd.coin(1, 10)
		if zeroRef {
			for j := range ops {
				ops[j].t = rnd.pick([]int{1, 1, 4, 5, 6})
			}
		}
		in := c16Input{Kind: "record", Pos: int(c16Pos(rnd, 1<<29)), Cigar: c16CigarText(ops)}
		if zeroRef && rnd.coin(1, 2) {
			// exactly on a tile / bin-level boundary, where reg2bin(pos, pos) and reg2bin(pos, pos+1) differ
			sh := uint(rnd.pick([]int{14, 14, 17, 20, 23, 26}))
			in.Pos = int(int64(rnd.intn(1<<(29-int(sh)))) << sh)
		}
		if rnd.coin(1, 40) {
			in.Pos = -1
		}
		in.Unmapped = rnd.coin(1, 6)
		in.MateUnm = rnd.coin(1, 6)
		_, _, q, _ := c16SpecEnd(0, ops)
		in.SeqLen = q
		if rnd.coin(1, 5) {
			in.SeqLen = q + rnd.rng(-1, 1)
		}
		c16Record(c, in, d, &impl)
		r.eval("rec:"+fmt.Sprint(in), n > 0)
		if i < 2 {
			r.sample(in)
		}
	}
	// BAI pairs
	nPair := 8000
	if c.thorough() {
		nPair = 300000
	}
	for i := 0; i < nPair; i++ {
		b2 := c16Pos(rnd, 1<<29)
		var e2 int64
		switch rnd.intn(4) {
		case 0:
			e2 = b2 + 1
		case 1:
			e2 = b2 + int64(rnd.intn(40000)) + 1
		case 2:
			e2 = b2 + 1 + int64(rnd.intn(1<<26))
		default:
			e2 = b2 + int64(1)<<uint(rnd.pick([]int{14, 17, 20, 23, 26})) + int64(rnd.rng(-2, 2))
		}
		if e2 <= b2 {
			e2 = b2 + 1
		}
		if e2 > 1<<29 {
			e2 = 1 << 29
		}
		// interval 1 overlapping interval 2
		b1 := b2 + int64(rnd.u64()%uint64(e2-b2))
		if rnd.coin(1, 3) && b2 > 0 {
			b1 = b2 - int64(rnd.u64()%uint64(minI64(b2, 70000))) // starts before, must reach into it
		}
		e1 := b1 + 1 + int64(rnd.intn(3))
		if rnd.coin(1, 2) {
			e1 = b1 + 1 + int64(rnd.u64()%uint64(1<<uint(rnd.pick([]int{4, 14, 15, 18, 27}))))
		}
		if e1 <= b2 {
			e1 = b2 + 1
		}
		if e1 > 1<<29 {
			e1 = 1 << 29
		}
		in := c16Input{Kind: "baipair", B1: b1, E1: e1, B2: b2, E2: e2}
		var dd *Driver
		if i%4 == 0 {
			dd = d
		}
		c16BaiPair(c, in, dd, &impl)
		r.eval(fmt.Sprint("bai:", b1, e1, b2, e2), e1-b1 > 1 || e2-b2 > 1)
		r.hist("baipair")
		if i == 0 {
			r.sample(in)
		}
	}
	// CSI: small geometries exhaustively (all overlapping pairs), large ones sampled
	type geo struct{ ms, d uint32 }
	small := []geo{{0, 0}, {0, 1}, {1, 1}, {2, 1}, {0, 2}}
	if c.thorough() {
		small = append(small, geo{1, 2}, geo{3, 1})
	}
	for _, g := range small {
		n := int64(1) << (g.ms + 3*g.d)
		cnt := 0
		for b1 := int64(0); b1 < n; b1++ {
			for e1 := b1 + 1; e1 <= n; e1++ {
				for b2 := int64(0); b2 < n; b2++ {
					for e2 := b2 + 1; e2 <= n; e2++ {
						if b1 < e2 && b2 < e1 {
							in := c16Input{Kind: "csipair", B1: b1, E1: e1, B2: b2, E2: e2, MinShift: g.ms, Depth: g.d}
							var dd *Driver
							if cnt%97 == 0 {
								dd = d
							}
							c16CsiPair(c, in, dd, &impl)
							r.Evaluations++
							cnt++
						}
					}
				}
			}
		}
		r.Distinct += cnt
		r.Histogram[fmt.Sprintf("csipair.exhaustive.ms%d.d%d", g.ms, g.d)] = cnt
	}
	big := []geo{{14, 5}, {14, 5}, {14, 5}, {14, 6}, {12, 5}, {16, 4}, {10, 7}, {5, 3}, {14, 0}, {20, 1}, {0, 9},
		// ranges beyond 2^32 (coordinates that do not fit a uint32) up to the largest geometry the library accepts
		{14, 7}, {12, 8}, {20, 5}, {14, 9}, {2, 10}, {3, 10}, {30, 10}, {32, 10}, {40, 7}}
	nCsi := 30000
	if c.thorough() {
		nCsi = 600000
	}
	for i := 0; i < nCsi; i++ {
		g := big[rnd.intn(len(big))]
		limit := int64(1) << (g.ms + 3*g.d)
		// every end point is drawn near a bin boundary of a random level (k*2^shift + {-2..2}) half of the time
		edge := func() int64 {
			p := int64(rnd.u64() % uint64(limit))
			if rnd.coin(1, 2) {
				sh := g.ms + 3*uint32(rnd.intn(int(g.d)+1))
				p = (p>>sh)<<sh + int64(rnd.rng(-2, 2))
			}
			if p < 0 {
				p = 0
			}
			if p >= limit {
				p = limit - 1
			}
			return p
		}
		b2 := edge()
		// keep the deepest level's bin count of interval 2 below 2^12 (lists are materialised)
		maxLen := int64(1) << (g.ms + 12)
		e2 := edge() + 1
		if e2 <= b2 || e2-b2 > maxLen {
			e2 = b2 + 1 + int64(rnd.u64()%uint64(minI64(limit-b2, maxLen)))
		}
		// interval 1 overlaps interval 2: its begin is before e2, its end after b2
		b1 := edge()
		if b1 >= e2 {
			b1 = b2 + int64(rnd.u64()%uint64(e2-b2))
		}
		e1 := edge() + 1
		if e1 <= b1 || e1 <= b2 {
			e1 = maxI64(b1, b2) + 1 + int64(rnd.u64()%uint64(minI64(limit-maxI64(b1, b2), int64(1)<<uint(rnd.rng(0, 30)))))
		}
		if e1 > limit {
			e1 = limit
		}
		in := c16Input{Kind: "csipair", B1: b1, E1: e1, B2: b2, E2: e2, MinShift: g.ms, Depth: g.d}
		var dd *Driver
		if i%3 == 0 {
			dd = d
		}
		c16CsiPair(c, in, dd, &impl)
		r.eval(fmt.Sprint("csi:", in), true)
		r.hist(fmt.Sprintf("csipair.sampled.ms%d.d%d", g.ms, g.d))
		if i == 0 {
			r.sample(in)
		}
	}
	// out-of-range and degenerate arguments: model correspondence only
	for _, p := range [][2]int64{{-1, 0}, {0, 0}, {5, 5}, {5, 3}, {-1, 5}, {1 << 29, 1<<29 + 5}, {100, 1 << 30}} {
		d.add("c16.binfor %d %d", p[0], p[1])
		impl = append(impl, fmt.Sprint(bam.VerifBinFor(int(p[0]), int(p[1]))))
		d.add("c16.bins %d %d", p[0], p[1])
		impl = append(impl, c16ShowBins(bam.VerifOverlappingBinsFor(int(p[0]), int(p[1]))))
		d.add("c16.reg2bin %d %d 14 5", p[0], p[1])
		impl = append(impl, fmt.Sprint(csi.VerifReg2bin(p[0], p[1], 14, 5)))
		if p[0] >= 0 && p[1] > 0 {
			// the other ones are called in a child process (c16AnyQueries): csi.reg2bins(-1, 0, ..) did not
			// return before repair C04-6
			d.add("c16.reg2bins %d %d 14 5", p[0], p[1])
			impl = append(impl, c16ShowBins(csi.VerifReg2bins(p[0], p[1], 14, 5)))
		}
		r.hist("degenerate")
	}
	c16AnyQueries(c, d, &impl)
	for _, i := range []int{-2, -1, 0, 1<<29 - 2, 1<<29 - 1, 1 << 29} {
		d.add("c16.valid %d", i)
		impl = append(impl, fmt.Sprint(bam.VerifIsValidIndexPos(i)))
		for _, g := range []geo{{14, 5}, {0, 0}, {10, 7}} {
			d.add("c16.csivalid %d %d %d", i, g.ms, g.d)
			impl = append(impl, fmt.Sprint(csi.VerifValidIndexPos(i, g.ms, g.d)))
		}
	}
	d.compare(r, "C16", impl)
}

func maxI64(a, b int64) int64 {
	if a > b {
		return a
	}
	return b
}

func minI64(a, b int64) int64 {
	if a < b {
		return a
	}
	return b
}
