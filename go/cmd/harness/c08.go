package main

// C08 — BGZF output is spec-conformant, gzip-compatible, deterministic across wc and EOF-marked
// iff Close returned nil.  Uses the runner, generators and the independent framing parser of c01.go.

import (
	"bytes"
	"compress/flate"
	"compress/gzip"
	"fmt"
	"hash/crc32"
	"io"
	"strings"

	"github.com/biogo/hts/bgzf"
)

func init() { checks["C08"] = checkC08 }

func flateOf(level int, p []byte) []byte {
	var b bytes.Buffer
	w, err := flate.NewWriter(&b, level)
	if err != nil {
		panic(err)
	}
	w.Write(p)
	w.Close()
	return b.Bytes()
}

func xflOf(level int) int {
	switch level {
	case 9:
		return 2
	case 1:
		return 4
	}
	return 0
}

func deflateBound(n int) int { return n + n>>12 + n>>14 + n>>25 + 13 }

// ---------------------------------------------------------------------------
// header generator: values are assembled from the format's own magic byte strings (dictionary bias),
// because a framing bug is most likely where header content collides with framing constants.

var bgzfDict = [][]byte{{0x1f, 0x8b, 0x08}, []byte("BC\x02\x00"), []byte("BC\x02\x00"), []byte("BC"), {0x00}, {0xff}, {0x1b, 0x00},
	{0x03, 0x00}, {0x06, 0x00}, {0x04}, {0x02, 0x00}}

// dictWindow returns n bytes cut at a random offset out of a random concatenation of dictionary
// tokens and random bytes.
func dictWindow(r *Rand, n int) []byte {
	var s []byte
	for len(s) < 3*n+8 {
		if r.coin(1, 4) {
			s = append(s, byte(r.u64()))
		} else {
			s = append(s, bgzfDict[r.intn(len(bgzfDict))]...)
		}
	}
	off := r.intn(len(s) - n + 1)
	return s[off : off+n]
}

func genRunes(r *Rand, n int, latin bool) []int {
	rs := make([]int, n)
	for i := range rs {
		if latin && r.coin(1, 3) {
			rs[i] = r.rng(128, 255)
		} else {
			rs[i] = r.rng(1, 127)
		}
	}
	return rs
}

func genSubfields(r *Rand, total int) []byte {
	// `total` < 0: 1..3 small sub-fields; otherwise one sub-field sized so that the extra is `total` bytes
	var b []byte
	if total >= 4 {
		b = append(b, 'X', 'Y', byte(total-4), byte((total-4)>>8))
		b = append(b, make([]byte, total-4)...)
		for i := 4; i < len(b); i++ {
			b[i] = byte(r.u64())
		}
		return b
	}
	k := 1 + r.intn(3)
	for i := 0; i < k; i++ {
		id := []byte{byte(r.rng(65, 90)), byte(r.rng(65, 90))}
		var dat []byte
		switch r.intn(8) {
		case 0:
			dat = nil
		case 1:
			dat = append([]byte{}, dictWindow(r, 2+r.intn(8))...)
		case 2:
			id = []byte("BC") // a second BC sub-field (still well-formed)
			dat = []byte{byte(r.u64()), byte(r.u64())}
		default:
			dat = r.bytes(r.intn(40))
		}
		b = append(b, id...)
		b = append(b, byte(len(dat)), byte(len(dat)>>8))
		b = append(b, dat...)
	}
	return b
}

func genHeader(r *Rand, allowBig bool) (h bgzfHeader, class string) {
	var cl []string
	// ModTime
	switch k := r.intn(20); {
	case k < 6:
	case k < 9:
		h.MTime = int64(uint32(r.u64()))
		cl = append(cl, "mtime.rand")
	case k < 11:
		h.MTime = int64(1 + r.intn(1000))
		cl = append(cl, "mtime.small")
	case k < 18:
		w := dictWindow(r, 4)
		h.MTime = int64(uint32(w[0]) | uint32(w[1])<<8 | uint32(w[2])<<16 | uint32(w[3])<<24)
		cl = append(cl, "mtime.dict")
	case k < 19:
		h.MTime = int64(1)<<32 + int64(uint32(r.u64()))
		cl = append(cl, "mtime.>2^32")
	default:
		h.MTime = -int64(1 + r.intn(100000))
		cl = append(cl, "mtime.negative")
	}
	// OS
	if r.coin(1, 2) {
		h.SetOS = true
		h.OS = r.pick([]int{0, 0, 3, 255, 0x42, 0x43, 2, r.intn(256)})
		cl = append(cl, "os.set")
	}
	// Name, Comment
	str := func(what string) []int {
		switch k := r.intn(40); {
		case k < 22:
			return nil
		case k < 30:
			cl = append(cl, what+".ascii")
			return genRunes(r, 1+r.intn(20), false)
		case k < 34:
			cl = append(cl, what+".latin1")
			return genRunes(r, 1+r.intn(20), true)
		case k < 36:
			cl = append(cl, what+".dict")
			var rs []int
			for _, b := range dictWindow(r, 8) {
				if b != 0 {
					rs = append(rs, int(b))
				}
			}
			return rs
		case k < 37:
			cl = append(cl, what+".len511")
			return genRunes(r, 511, false)
		case k < 38:
			cl = append(cl, what+".len>=512")
			return genRunes(r, 512+r.intn(100), false)
		case !allowBig: // invalid strings make every block fail: only with single-write scripts (a failed block among several can hang Close: C09)
			cl = append(cl, what+".ascii")
			return genRunes(r, 1+r.intn(5), false)
		case k < 39:
			cl = append(cl, what+".invalid-nul")
			rs := genRunes(r, 1+r.intn(6), false)
			rs[r.intn(len(rs))] = 0
			return rs
		default:
			cl = append(cl, what+".invalid-rune")
			rs := genRunes(r, 1+r.intn(6), false)
			rs[r.intn(len(rs))] = r.pick([]int{256, 0x20ac, 0x1f600})
			return rs
		}
	}
	h.Name = str("name")
	h.Comment = str("comment")
	// Extra
	switch k := r.intn(40); {
	case k < 18:
	case k < 32:
		h.Extra = hexs(genSubfields(r, -1))
		cl = append(cl, "extra.subfields")
	case k < 34:
		h.Extra = hexs(r.bytes(1 + r.intn(12))) // not sub-field structured: outside the property's quantifier, tie only
		cl = append(cl, "extra.malformed")
	case k < 36:
		h.Extra = hexs(dictWindow(r, 4+r.intn(10)))
		cl = append(cl, "extra.dict")
	default:
		if allowBig {
			switch r.intn(3) {
			case 0: // around the gzip limit len(Extra)+6 <= 65535
				h.Extra = hexs(genSubfields(r, 65535-6+r.pick([]int{-1, 0, 1, 2})))
				cl = append(cl, "extra.gziplimit")
			case 1: // around the point where an (almost) empty member reaches 64 KiB
				h.Extra = hexs(genSubfields(r, 65536-18-10-r.intn(12)))
				cl = append(cl, "extra.memberlimit")
			default:
				h.Extra = hexs(genSubfields(r, 20000+r.intn(45000)))
				cl = append(cl, "extra.large")
			}
		} else {
			h.Extra = hexs(genSubfields(r, 100+r.intn(80)))
			cl = append(cl, "extra.medium")
		}
	}
	if len(cl) == 0 {
		return h, "hdr.default"
	}
	return h, "hdr." + strings.Join(cl, "+")
}

func validRunes(rs []int) bool {
	for _, v := range rs {
		if v == 0 || v > 0xff || (v >= 0xd800 && v <= 0xdfff) {
			return false
		}
	}
	return true
}

func subfieldsOK(b []byte) bool {
	for q := 0; q < len(b); {
		if q+4 > len(b) {
			return false
		}
		sl := int(b[q+2]) | int(b[q+3])<<8
		if q+4+sl > len(b) {
			return false
		}
		q += 4 + sl
	}
	return true
}

// expectedHeaderLen = length of the gzip header the settings must produce (independent of model and library).
func (h bgzfHeader) expectedHeaderLen() int {
	n := 10 + 2 + 6 + len(h.extraBytes())
	if len(h.Name) > 0 {
		n += len(h.Name) + 1
	}
	if len(h.Comment) > 0 {
		n += len(h.Comment) + 1
	}
	return n
}

// ---------------------------------------------------------------------------

func c08One(c *ctx, inp *bgzfInput, d *Driver, impl *[]string) {
	r := c.res
	in := *inp
	kinds, lens, total, err := parseWOps(in.Ops)
	if err != nil {
		r.note("bad input: %v", err)
		return
	}
	data := scriptData(in.Data, in.DataSeed, total)
	want := data[:acceptedLen(kinds, lens)]
	h := in.Header
	extra := h.extraBytes()

	// what must happen, judged without model or library
	expect := "ok"
	switch {
	case 6+len(extra) > 0xffff || !validRunes(h.Name) || !validRunes(h.Comment):
		expect = "gzip"
	}
	single := len(kinds) == 2 && kinds[0] == 'w' && kinds[1] == 'c' && lens[0] <= bgzfBS
	if expect != "ok" || h.expectedHeaderLen() > 300 || single {
		// failing settings are only generated with single-write scripts (one block of <= BlockSize bytes, then the
		// empty block); for every single-write script the 64 KiB test is predicted exactly
		if !single {
			r.note("generator error: large header with a multi-block script")
			return
		}
		if expect == "ok" && (h.expectedHeaderLen()+len(flateOf(in.Level, want))+8 > bgzfMaxBS ||
			(lens[0] == bgzfBS && h.expectedHeaderLen()+len(flateOf(in.Level, nil))+8 > bgzfMaxBS)) {
			expect = "overflow"
		}
	}
	r.hist("expect." + expect)

	wr := runWriter(c, in, in.WC, data)
	if wr.hang != "" {
		r.fail("c08.hang.writer.expect-"+expect, "writer call did not return: "+wr.hang, in)
		return
	}
	if wr.panicked != nil {
		if wr.panicked.timedOut {
			r.fail("c08.hang.writer", "NewWriterLevel did not return", in)
		} else {
			r.fail("c08.panic:"+topRepoFrame(wr.panicked.stack), wr.panicked.panicVal, in)
		}
		return
	}
	out := wr.out

	// --- determinism across wc (oracle; correspondence only, the sequential model has no wc)
	for _, wc := range in.AltWC {
		w2 := runWriter(c, in, wc, data)
		if w2.hang != "" || w2.panicked != nil {
			r.fail("c08.hang.writer.expect-"+expect, fmt.Sprintf("wc=%d: writer call did not return or panicked: %s", wc, w2.hang), in)
			return
		}
		if !bytes.Equal(w2.out, out) {
			r.fail("c08.nondeterministic.wc", fmt.Sprintf("output with wc=%d differs from wc=%d at byte %d (lengths %d, %d)", wc, in.WC, firstDiff(w2.out, out), len(w2.out), len(out)), in)
			return
		}
		if (w2.closeErr == nil) != (wr.closeErr == nil) {
			r.fail("c08.nondeterministic.close", fmt.Sprintf("Close with wc=%d: %v, with wc=%d: %v", wc, w2.closeErr, in.WC, wr.closeErr), in)
			return
		}
	}

	// --- Close result
	closeClass := "ok"
	switch {
	case wr.closeErr == nil:
	case wr.closeErr == bgzf.ErrBlockOverflow:
		closeClass = "overflow"
	case strings.HasPrefix(wr.closeErr.Error(), "gzip"):
		closeClass = "gzip"
	default:
		closeClass = "err:" + wr.closeErr.Error()
	}
	if closeClass != expect {
		r.fail("c08.close.expect-"+expect+".got-"+strings.SplitN(closeClass, ":", 2)[0],
			fmt.Sprintf("Close returned %v; the settings call for %s (header %d bytes)", wr.closeErr, expect, h.expectedHeaderLen()), in)
		return
	}
	if expect == "ok" {
		closedSeen := false
		for i, k := range kinds {
			exp := "ok0"
			if k == 'w' {
				exp = fmt.Sprintf("ok%d", lens[i])
			}
			if closedSeen && (k == 'w' || k == 'f') {
				exp = "closed"
			}
			if k == 'c' {
				closedSeen = true
			}
			if wr.results[i] != exp {
				r.fail("c08.write.result", fmt.Sprintf("op %d (%s) returned %s, expected %s", i, in.Ops[i], wr.results[i], exp), in)
				return
			}
		}
	}

	// --- EOF marker iff clean close, HasEOF agrees
	marked := endsWithMarker(out)
	var has bool
	o := guard(func() { has, _ = bgzf.HasEOF(bytes.NewReader(out)) })
	if o.panicked {
		r.fail("c08.panic:"+topRepoFrame(o.stack), o.panicVal, in)
		return
	}
	if has != marked {
		r.fail("c08.haseof.disagrees", fmt.Sprintf("HasEOF=%v but the last 28 bytes equal the marker: %v", has, marked), in)
		return
	}
	if !wr.closed {
		// never closed: no marker, HasEOF false (theorem open_stream)
		if marked || has {
			r.fail("c08.eof.unclosed-marked", fmt.Sprintf("the writer was never closed but the output ends with the EOF marker (HasEOF=%v)", has), in)
			return
		}
	} else if wr.closeErr == nil && !marked {
		r.fail("c08.eof.missing", "Close returned nil but the output does not end with the EOF marker", in)
		return
	}
	if wr.closeErr != nil && marked {
		r.fail("c08.eof.spurious", "Close returned an error but the output ends with the EOF marker", in)
		return
	}

	// --- conformance of every member (independent parser)
	ms, perr, poff := parseGzStream(out)
	if perr != nil {
		sig := "c08.member.unparsable." + perr.Error()
		if poff+12 <= len(out) && bytes.Contains(out[poff+4:poff+12], []byte("BC\x02\x00")) {
			sig += ".bc-in-fixed-header"
		}
		r.fail(sig, fmt.Sprintf("independent gzip parser: %v at offset %d of %d", perr, poff, len(out)), in)
		return
	}
	var flat []byte
	wellFormedExtra := subfieldsOK(extra)
	for i, m := range ms {
		flat = append(flat, m.Payload...)
		cls := bgzfConformance(m)
		if cls == "extra-not-subfields" && !wellFormedExtra {
			r.hist("member.extra-not-subfields(user extra malformed; not judged)")
			cls = ""
			// the BC sub-field still comes first: judge BSIZE by position
			if len(m.Extra) >= 6 && (int(m.Extra[4])|int(m.Extra[5])<<8) != m.Size-1 {
				cls = "bsize"
			}
		}
		if cls != "" {
			raw := out[m.Off : m.Off+m.Size]
			sig := "c08.member." + cls
			if bytes.Contains(raw[4:12], []byte("BC\x02\x00")) {
				sig += ".bc-in-fixed-header"
			}
			r.fail(sig, fmt.Sprintf("member %d at offset %d (size %d, BSIZE field %d, payload %d): %s; header bytes %x",
				i, m.Off, m.Size, m.BSize, len(m.Payload), cls, raw[:18]), in)
			return
		}
		if m.DeflateLen > deflateBound(len(m.Payload)) {
			r.disagree("C08.codec-law.bound", fmt.Sprintf("payload %d level %d", len(m.Payload), in.Level), fmt.Sprint(m.DeflateLen), fmt.Sprint(deflateBound(len(m.Payload))))
		}
	}
	if !wr.closed {
		// at rest the delivered members decode to the accepted data minus what the active block still holds
		if !bytes.HasPrefix(want, flat) || len(flat)+wr.lastNext != len(want) {
			r.fail("c08.open.data", fmt.Sprintf("unclosed writer at rest: members decode to %d bytes, Next()=%d, %d bytes were accepted", len(flat), wr.lastNext, len(want)), in)
			return
		}
	} else if expect == "ok" && !bytes.Equal(flat, want) {
		r.fail("c08.output.data", fmt.Sprintf("members decode to %d bytes, %d were written; first difference at %d", len(flat), len(want), firstDiff(flat, want)), in)
		return
	}
	if expect != "ok" && !bytes.HasPrefix(want, flat) {
		r.fail("c08.output.data", "members written before the failure do not decode to a prefix of the data", in)
		return
	}

	// --- gzip compatibility: compress/gzip in multi-member mode (its readString rejects strings >= 512 bytes)
	if len(h.Name) < 512 && len(h.Comment) < 512 {
		if len(out) > 0 {
			zr, e := gzip.NewReader(bytes.NewReader(out))
			var got []byte
			if e == nil {
				got, e = io.ReadAll(zr)
			}
			if e != nil {
				r.fail("c08.gunzip.error", "compress/gzip on the output: "+e.Error(), in)
				return
			}
			if !bytes.Equal(got, flat) {
				r.fail("c08.gunzip.data", fmt.Sprintf("compress/gzip expands the output to %d bytes, expected %d", len(got), len(flat)), in)
				return
			}
		}
	} else {
		r.hist("gunzip.skipped(header string >= 512 bytes: compress/gzip cannot read it; own parser only)")
	}

	// --- correspondence with the model
	if d == nil {
		return
	}
	// the reader half of C01's round trip on every header class (incl. strings >= 512 bytes, which gzip.Reader and
	// the model both refuse): Member.readStream = the library reader on the produced bytes
	nearLimit := false
	for _, m := range ms {
		if m.Size >= bgzfMaxBS-2 {
			nearLimit = true // BSIZE 0xfffd..0xffff: always run the reader-side tie
		}
	}
	if len(out) > 0 && (len(out)+len(flat) <= 24000 || nearLimit || c.rnd.coin(1, 10)) {
		readStreamTie(c, "c08", in, out, ms, 1+c.rnd.intn(3), d, impl)
	}
	hargs := h.drvArgs()
	xfl := xflOf(in.Level)
	var pairs []string
	var sizes []int
	nmem := len(ms)
	hasMarker := nmem > 0 && isMarker(out[ms[nmem-1].Off:]) && wr.closeErr == nil
	for i, m := range ms {
		sizes = append(sizes, m.Size)
		if hasMarker && i == nmem-1 {
			continue
		}
		pairs = append(pairs, fmt.Sprintf("%d:%d", len(m.Payload), m.DeflateLen))
		// member bytes = model's writeBlock on (header, independent DEFLATE of the payload, CRC)
		if m.Size <= 4096 || c.rnd.coin(1, 6) || !h.isDefault() && c.rnd.coin(1, 2) {
			d.add("c08.member %s %d %d %d %s", hargs, xfl, len(m.Payload), crc32.ChecksumIEEE(m.Payload), hexs(flateOf(in.Level, m.Payload)))
			*impl = append(*impl, "ok "+hexs(out[m.Off:m.Off+m.Size]))
		}
	}
	if expect == "ok" {
		var plens []int
		for i, m := range ms {
			if hasMarker && i == nmem-1 {
				continue
			}
			plens = append(plens, len(m.Payload))
		}
		d.add("c01.write %s", strings.Join(in.Ops, ","))
		*impl = append(*impl, fmt.Sprintf("%s|%s|%d", strings.Join(wr.results, ","), intsJoin(plens), wr.lastNext))
		// the script abstraction of the writer LTS (WriterCompose.absScript in Model/WriterAbs.lean, what the byte-determinism theorems compose
		// with) against (i) the Go re-implementation `wSim` the C12/C09 harness builds its abstract scripts with,
		// (ii) the implementation itself: Writer.Next() != 0 before every Flush, and the number of data members written
		{
			sim := &wSim{}
			var abs []string
			flags := ""
			closedSeen := false
			for i, k := range kinds {
				switch k {
				case 'w':
					if closedSeen {
						abs = append(abs, "w0")
					} else {
						abs = append(abs, fmt.Sprintf("w%d", sim.write(lens[i])))
					}
				case 'f':
					f := !closedSeen && sim.flush()
					if f {
						abs = append(abs, "f1")
					} else {
						abs = append(abs, "f0")
					}
					if wr.nexts[i] > 0 {
						flags += "1"
					} else {
						flags += "0"
					}
				case 't':
					abs = append(abs, "wt")
				case 'c':
					closedSeen = true
					abs = append(abs, "c")
				}
			}
			if flags == "" {
				flags = "-"
			}
			d.add("c08.abs %s", strings.Join(in.Ops, ","))
			*impl = append(*impl, fmt.Sprintf("%s|%s|%d", strings.Join(abs, ","), flags, len(plens)))
		}
	} else {
		// the block that was refused: the single write's payload (or the empty block when it is absent)
		d.add("c08.member %s %d %d %d %s", hargs, xfl, len(want), crc32.ChecksumIEEE(want), hexs(flateOf(in.Level, want)))
		*impl = append(*impl, closeClass)
		pairs = append(pairs, fmt.Sprintf("%d:%d", len(want), len(flateOf(in.Level, want))))
	}
	if !wr.closed {
		d.add("c08.open %s %d %s", hargs, xfl, joinOrDash(pairs))
		*impl = append(*impl, fmt.Sprintf("open %d %v %s", len(out), has, intsJoin(sizes)))
		return
	}
	d.add("c08.close %s %d %s", hargs, xfl, strings.Join(pairs, ","))
	*impl = append(*impl, fmt.Sprintf("%s %d %v %s", closeClass, len(out), has, intsJoin(sizes)))
}

func joinOrDash(xs []string) string {
	if len(xs) == 0 {
		return "-"
	}
	return strings.Join(xs, ",")
}

func checkC08(c *ctx) {
	r := c.res
	r.Rule = "write scripts as in C01 (shorter payloads) x gzip header settings: ModTime {zero, random, small, 4-byte windows over the format's magic strings, >2^32, negative}, " +
		"OS, Name/Comment {empty, ASCII, Latin-1, dictionary, 511, 512+, invalid}, Extra {none, 1-3 well-formed sub-fields incl. a second BC, malformed, dictionary, " +
		"and with single-write scripts: at the gzip XLEN limit, at the 64 KiB member limit, large}; level -1..9; each script under 3 values of wc (0..5); " +
		"1/8 of the multi-op scripts never close the writer (judged at rest after Wait: conformant members, no marker, HasEOF false). " +
		"A case is non-trivial when a byte is written or a header field is set; distinct = distinct (ops, level, wc, data kind, header)."
	// fixed facts assumed of DEFLATE/CRC-32 by the model's Codec laws
	if fr, e := io.ReadAll(flate.NewReader(bytes.NewReader([]byte{3, 0}))); e != nil || len(fr) != 0 || crc32.ChecksumIEEE(nil) != 0 {
		r.disagree("C08.codec-law.marker", "inflate(03 00) / crc32(empty)", fmt.Sprintf("%v %v %d", fr, e, crc32.ChecksumIEEE(nil)), "[] nil 0")
	}
	if c.replay != "" {
		var in bgzfInput
		if err := loadReplay(c.replay, &in); err != nil {
			r.note("replay: %v", err)
			return
		}
		c08One(c, &in, nil, nil)
		r.eval("replay", true)
		return
	}
	d := c.drv()
	var impl []string
	d.add("c08.bound %d", bgzf.BlockSize)
	impl = append(impl, fmt.Sprint(deflateBound(bgzf.BlockSize)+26))
	n := 400
	if c.thorough() {
		n = 12000
	}
	for i := 0; i < n; i++ {
		rnd := c.rnd.fork()
		in := bgzfInput{
			Level:    rnd.rng(-1, 9),
			WC:       rnd.intn(6),
			Data:     rnd.pickS([]string{"rand", "rand", "text", "text", "zero", "mixed"}),
			DataSeed: rnd.u64(),
			Delay:    rnd.coin(1, 4),
		}
		for len(in.AltWC) < 2 {
			w := rnd.intn(6)
			if w != in.WC {
				in.AltWC = append(in.AltWC, w)
			}
		}
		single := rnd.coin(1, 3)
		var hclass string
		if i%5 == 0 {
			hclass = "hdr.default"
		} else {
			in.Header, hclass = genHeader(rnd, single)
		}
		if single || in.Header.expectedHeaderLen() > 300 || !validRunes(in.Header.Name) || !validRunes(in.Header.Comment) {
			in.Ops = []string{fmt.Sprintf("w%d", rnd.pick([]int{0, 1, 5, 100, 1 + rnd.intn(3000), bgzfBS - 1, bgzfBS, 1 + rnd.intn(bgzfBS)})), "c"}
			if i%5 != 0 && rnd.coin(1, 3) && validRunes(in.Header.Name) && validRunes(in.Header.Comment) {
				// aim the MEMBER size at the 64 KiB limit: Extra sized so that the member is 65534..65538 bytes
				n := rnd.pick([]int{0, 1, 100, 1 + rnd.intn(3000), 1 + rnd.intn(40000), bgzfBS, bgzfBS}) // incl. full (often incompressible) blocks
				in.Ops = []string{fmt.Sprintf("w%d", n), "c"}
				fl := len(flateOf(in.Level, scriptData(in.Data, in.DataSeed, n)))
				in.Header.Extra = ""
				target := 65536 + rnd.pick([]int{-2, -1, 0, 0, 1, 1, 2})
				xl := target - in.Header.expectedHeaderLen() - fl - 8
				if xl >= 4 && xl <= 65529 {
					in.Header.Extra = hexs(genSubfields(rnd, xl))
					hclass += "+extra.member-at-64KiB"
				}
			}
		} else {
			in.Ops = genWriteScript(rnd, 6, rnd.coin(1, 6))
			if rnd.coin(1, 8) {
				// a writer that is never closed (Flush/Wait only): everything from the first Close on is dropped
				for j, o := range in.Ops {
					if o == "c" {
						in.Ops = in.Ops[:j]
						break
					}
				}
				if len(in.Ops) == 0 {
					in.Ops = []string{"w7", "f"}
				}
				hclass += "+script.unclosed"
			}
		}
		_, lens, total, _ := parseWOps(in.Ops)
		for j, o := range in.Ops {
			if o[0] == 'w' {
				r.hist("write.len." + lenClass(lens[j]))
			}
		}
		for _, cl := range strings.Split(strings.TrimPrefix(hclass, "hdr."), "+") {
			r.hist("hdr." + cl)
		}
		r.hist(fmt.Sprintf("level.%d", in.Level))
		r.hist(fmt.Sprintf("wc.%d", in.WC))
		c08One(c, &in, d, &impl)
		key := fmt.Sprintf("%v/%d/%d/%s/%+v", in.Ops, in.Level, in.WC, in.Data, in.Header)
		r.eval(key, total > 0 || !in.Header.isDefault())
		if i == 1 || i == 2 || i == 7 {
			s := in
			if len(s.Header.Extra) > 80 {
				s.Header.Extra = s.Header.Extra[:80] + "..."
			}
			if len(s.Header.Name) > 20 {
				s.Header.Name = s.Header.Name[:20]
			}
			if len(s.Header.Comment) > 20 {
				s.Header.Comment = s.Header.Comment[:20]
			}
			r.sample(s)
		}
	}
	d.compare(r, "C08", impl)
}
