package main

// C06 — SAM text round trip; SAM and BAM views of a record agree; the SAM reader returns every line.
//
// Correspondence (implementation vs Lean model Hts.Model.SamText):
//   c06.fmt    Record.MarshalSAM(flagfmt)             vs formatRecord
//   c06.spec   independent Go formatter (from the spec) vs Hts.Spec.SamLine.samLine ∘ toSpec, and the
//              harness's expressible() vs the decidable Lean predicate Expressible
//   c06.parse  Record.UnmarshalSAM(h, line)            vs parseRecord   (valid and malformed lines)
//   c06.cigar  sam.ParseCigar                          vs parseCigar
//   c06.aux    sam.ParseAux                            vs parseAux
//   c06.read   sam.NewReader + Read until error/EOF    vs splitHeader + readAll / readAllNoHeader
// Property oracle (implementation only): for every expressible record and both parseable flag formats (against the
// header AND with a nil header, where references are placeholders with id -1),
// format → parse → format is the identity on the line, the fields are equal, and the line equals the
// independent formatter's; a record written to BAM and read back formats to the same line; the reader
// returns one record per line for LF/CRLF input with or without final newline.

import (
	"bytes"
	"encoding/binary"
	"encoding/hex"
	"fmt"
	"io"
	"math"
	"math/big"
	"regexp"
	"strconv"
	"strings"
	"time"

	"github.com/biogo/hts/bam"
	"github.com/biogo/hts/bgzf"
	"github.com/biogo/hts/sam"
)

func init() { checks["C06"] = checkC06 }

type c06Ref struct {
	Name string `json:"name_hex"`
	Len  int    `json:"len"`
}

// c06Rec describes a record independently of the sam package's types.
type c06Rec struct {
	Name    string   `json:"name_hex"`
	Flags   uint16   `json:"flags"`
	Ref     int      `json:"ref"` // index into the header, -1 = nil
	Pos     int      `json:"pos"`
	MapQ    byte     `json:"mapq"`
	Cigar   string   `json:"cigar"` // typ:len,typ:len or -
	Mate    int      `json:"mate"`
	MatePos int      `json:"mate_pos"`
	TLen    int      `json:"tlen"`
	Seq     string   `json:"seq"`  // one hex digit per base (4-bit code) or -
	Qual    string   `json:"qual"` // nil, - (empty, not nil) or hex
	Aux     []string `json:"aux"`  // raw sam.Aux bytes, hex
}

type c06Input struct {
	Kind     string   `json:"kind"` // record | line | aux | cigar | reader | bam
	Header   []c06Ref `json:"header,omitempty"`
	NoHeader bool     `json:"no_header,omitempty"`
	FlagFmt  int      `json:"flagfmt,omitempty"`
	Rec      *c06Rec  `json:"rec,omitempty"`
	Recs     []c06Rec `json:"recs,omitempty"`
	Lines    []string `json:"lines_hex,omitempty"`
	Text     string   `json:"text_hex,omitempty"`
	Valid    bool     `json:"valid,omitempty"` // reader input made only of lines of expressible records
}

func unhex(s string) []byte {
	if s == "-" || s == "" {
		return nil
	}
	b, _ := hex.DecodeString(s)
	return b
}

// ---------------------------------------------------------------------------
// building implementation values from descriptions

func c06MakeHeader(hd []c06Ref) (*sam.Header, []*sam.Reference, error) {
	refs := make([]*sam.Reference, len(hd))
	for i, r := range hd {
		ref, err := sam.NewReference(string(unhex(r.Name)), "", "", r.Len, nil, nil)
		if err != nil {
			return nil, nil, err
		}
		refs[i] = ref
	}
	h, err := sam.NewHeader(nil, refs)
	return h, refs, err
}

func c06Build(refs []*sam.Reference, rr c06Rec) *sam.Record {
	r := &sam.Record{Name: string(unhex(rr.Name)), Flags: sam.Flags(rr.Flags), Pos: rr.Pos, MapQ: rr.MapQ,
		MatePos: rr.MatePos, TempLen: rr.TLen}
	if rr.Ref >= 0 {
		r.Ref = refs[rr.Ref]
	}
	if rr.Mate >= 0 {
		r.MateRef = refs[rr.Mate]
	}
	r.Cigar = c16Cigar(c16ParseCigar(rr.Cigar))
	if rr.Seq != "-" && rr.Seq != "" {
		n := len(rr.Seq)
		ds := make([]sam.Doublet, (n+1)/2)
		for i := 0; i < n; i++ {
			v, _ := strconv.ParseUint(rr.Seq[i:i+1], 16, 8)
			if i&1 == 0 {
				ds[i/2] |= sam.Doublet(v << 4)
			} else {
				ds[i/2] |= sam.Doublet(v)
			}
		}
		r.Seq = sam.Seq{Length: n, Seq: ds}
	}
	switch rr.Qual {
	case "nil":
	case "-":
		r.Qual = []byte{}
	default:
		r.Qual = unhex(rr.Qual)
	}
	for _, a := range rr.Aux {
		r.AuxFields = append(r.AuxFields, sam.Aux(unhex(a)))
	}
	return r
}

// ---------------------------------------------------------------------------
// own decoder of the raw aux layout (BAM section 4.2.4 / sam.Aux: tag, type, little-endian data)

type c06Aux struct {
	tag    [2]byte
	typ    byte // A c C s S i I f Z H B
	sub    byte // element type of B
	ints   []int64
	floats []uint32
	data   []byte
}

func c06IntSize(t byte) int {
	switch t {
	case 'c', 'C':
		return 1
	case 's', 'S':
		return 2
	case 'i', 'I', 'f':
		return 4
	}
	return 0
}

func c06ReadInt(t byte, b []byte) int64 {
	switch t {
	case 'c':
		return int64(int8(b[0]))
	case 'C':
		return int64(b[0])
	case 's':
		return int64(int16(binary.LittleEndian.Uint16(b)))
	case 'S':
		return int64(binary.LittleEndian.Uint16(b))
	case 'i':
		return int64(int32(binary.LittleEndian.Uint32(b)))
	case 'I':
		return int64(binary.LittleEndian.Uint32(b))
	}
	return 0
}

func c06DecodeAux(a []byte) (x c06Aux, ok bool) {
	if len(a) < 3 {
		return x, false
	}
	x.tag = [2]byte{a[0], a[1]}
	x.typ = a[2]
	d := a[3:]
	switch x.typ {
	case 'A':
		if len(d) != 1 {
			return x, false
		}
		x.data = d
	case 'c', 'C', 's', 'S', 'i', 'I':
		if len(d) != c06IntSize(x.typ) {
			return x, false
		}
		x.ints = []int64{c06ReadInt(x.typ, d)}
	case 'f':
		if len(d) != 4 {
			return x, false
		}
		x.floats = []uint32{binary.LittleEndian.Uint32(d)}
	case 'Z', 'H':
		x.data = d
	case 'B':
		if len(d) < 5 {
			return x, false
		}
		x.sub = d[0]
		n := int(binary.LittleEndian.Uint32(d[1:5]))
		sz := c06IntSize(x.sub)
		if sz == 0 || len(d) != 5+n*sz {
			return x, false
		}
		for i := 0; i < n; i++ {
			e := d[5+i*sz : 5+(i+1)*sz]
			if x.sub == 'f' {
				x.floats = append(x.floats, binary.LittleEndian.Uint32(e))
			} else {
				x.ints = append(x.ints, c06ReadInt(x.sub, e))
			}
		}
	default:
		return x, false
	}
	return x, true
}

func c06EncodeInt(t byte, v int64) []byte {
	switch c06IntSize(t) {
	case 1:
		return []byte{byte(v)}
	case 2:
		b := make([]byte, 2)
		binary.LittleEndian.PutUint16(b, uint16(v))
		return b
	}
	b := make([]byte, 4)
	binary.LittleEndian.PutUint32(b, uint32(v))
	return b
}

// c06AuxItem: one aux in the driver's syntax; view=true replaces the integer type by "int" (field equality
// up to narrowing) and every NaN by one token.
func c06AuxItem(a []byte, view bool) string {
	x, ok := c06DecodeAux(a)
	if !ok {
		return "??" + hexs(a)
	}
	tag := hex.EncodeToString(x.tag[:])
	fl := func(b uint32) string {
		if view && b&0x7f800000 == 0x7f800000 && b&0x7fffff != 0 {
			return "nan"
		}
		return fmt.Sprintf("%08x", b)
	}
	switch x.typ {
	case 'A':
		return tag + ":A:" + hexs(x.data)
	case 'f':
		return tag + ":f:" + fl(x.floats[0])
	case 'Z', 'H':
		return tag + ":" + string(x.typ) + ":" + hexs(x.data)
	case 'B':
		var p []string
		if x.sub == 'f' {
			for _, f := range x.floats {
				p = append(p, fl(f))
			}
		} else {
			for _, v := range x.ints {
				p = append(p, strconv.FormatInt(v, 10))
			}
		}
		s := "-"
		if len(p) > 0 {
			s = strings.Join(p, ",")
		}
		return tag + ":B" + string(x.sub) + ":" + s
	}
	code := string(x.typ)
	if view {
		code = "int"
	}
	return tag + ":" + code + ":" + strconv.FormatInt(x.ints[0], 10)
}

func c06RefTok(r *sam.Reference) string {
	if r == nil {
		return "*"
	}
	return fmt.Sprintf("%d:%s:%d", r.ID(), hexs([]byte(r.Name())), r.Len())
}

func c06CigarTok(c sam.Cigar) string {
	if len(c) == 0 {
		return "-"
	}
	if len(c) <= 64 {
		p := make([]string, len(c))
		for i, co := range c {
			p[i] = fmt.Sprintf("%d:%d", int(co.Type()), co.Len())
		}
		return strings.Join(p, ",")
	}
	sum := 0
	for _, co := range c {
		sum += co.Len()
	}
	return fmt.Sprintf("#%d:%d:%d:%d", len(c), sum, int(c[0].Type()), c[len(c)-1].Len())
}

// c06Dump: the 12 tokens of a record in the driver's syntax.
func c06Dump(r *sam.Record, view bool) []string {
	t := make([]string, 12)
	t[0] = hexs([]byte(r.Name))
	t[1] = strconv.Itoa(int(r.Flags))
	t[2] = c06RefTok(r.Ref)
	t[3] = strconv.Itoa(r.Pos)
	t[4] = strconv.Itoa(int(r.MapQ))
	t[5] = c06CigarTok(r.Cigar)
	t[6] = c06RefTok(r.MateRef)
	t[7] = strconv.Itoa(r.MatePos)
	t[8] = strconv.Itoa(r.TempLen)
	if r.Seq.Length == 0 {
		t[9] = "-"
	} else {
		var sb strings.Builder
		for i := 0; i < r.Seq.Length; i++ {
			if i/2 >= len(r.Seq.Seq) {
				sb.WriteByte('?')
				continue
			}
			d := byte(r.Seq.Seq[i/2])
			if i&1 == 0 {
				d >>= 4
			}
			sb.WriteByte("0123456789abcdef"[d&0xf])
		}
		t[9] = sb.String()
	}
	switch {
	case view:
		// absent qualities (nil, or only 0xff) are one value
		absent := true
		for _, q := range r.Qual {
			if q != 0xff {
				absent = false
			}
		}
		if absent {
			t[10] = "absent"
		} else {
			t[10] = hexs(r.Qual)
		}
	case r.Qual == nil:
		t[10] = "nil"
	default:
		t[10] = hexs(r.Qual)
	}
	if len(r.AuxFields) == 0 {
		t[11] = "-"
	} else {
		p := make([]string, len(r.AuxFields))
		for i, a := range r.AuxFields {
			p[i] = c06AuxItem(a, view)
		}
		t[11] = strings.Join(p, ";")
	}
	return t
}

// c06Mem: what the BAM writer reads from a record: name, reference ids, CIGAR words, Doublets, qualities, raw aux.
func c06Mem(r *sam.Record) string {
	ref := func(x *sam.Reference) string {
		if x == nil {
			return "*"
		}
		return strconv.Itoa(x.ID())
	}
	cg := "-"
	if len(r.Cigar) > 0 {
		p := make([]string, len(r.Cigar))
		for i, co := range r.Cigar {
			p[i] = strconv.FormatUint(uint64(uint32(co)), 10)
		}
		cg = strings.Join(p, ",")
	}
	ds := make([]byte, len(r.Seq.Seq))
	for i, d := range r.Seq.Seq {
		ds[i] = byte(d)
	}
	q := "nil"
	if r.Qual != nil {
		q = hexs(r.Qual)
	}
	ax := "-"
	if len(r.AuxFields) > 0 {
		p := make([]string, len(r.AuxFields))
		for i, a := range r.AuxFields {
			p[i] = hexs(a)
		}
		ax = strings.Join(p, ";")
	}
	return strings.Join([]string{hexs([]byte(r.Name)), ref(r.Ref), ref(r.MateRef), cg, strconv.Itoa(r.Seq.Length), hexs(ds), q, ax}, " ")
}

var c06FieldNames = []string{"qname", "flag", "rname", "pos", "mapq", "cigar", "rnext", "pnext", "tlen", "seq", "qual", "aux"}

func c06HeaderTok(hd []c06Ref, nilHeader bool) string {
	if nilHeader {
		return "nil"
	}
	if len(hd) == 0 {
		return "-"
	}
	p := make([]string, len(hd))
	for i, r := range hd {
		n := r.Name
		if n == "" {
			n = "-"
		}
		p[i] = fmt.Sprintf("%s:%d", n, r.Len)
	}
	return strings.Join(p, ",")
}

// float tables: the trusted parameter FloatText, evaluated by the real fmt / strconv
func c06FmtTable(auxs [][]byte) string {
	seen := map[uint32]bool{}
	var p []string
	for _, a := range auxs {
		x, ok := c06DecodeAux(a)
		if !ok {
			continue
		}
		for _, b := range x.floats {
			if !seen[b] {
				seen[b] = true
				p = append(p, fmt.Sprintf("%08x=%s", b, hexs([]byte(fmt.Sprintf("%v", math.Float32frombits(b))))))
			}
		}
	}
	if len(p) == 0 {
		return "-"
	}
	return strings.Join(p, ",")
}

func c06FloatTexts(field []byte) [][]byte {
	if len(field) < 5 {
		return nil
	}
	switch field[3] {
	case 'f':
		return [][]byte{field[5:]}
	case 'B':
		if len(field) >= 7 && field[5] == 'f' && field[6] == ',' {
			return bytes.Split(field[7:], []byte{','})
		}
	}
	return nil
}

func c06ParseTable(fields [][]byte) string {
	seen := map[string]bool{}
	var p []string
	for _, f := range fields {
		for _, t := range c06FloatTexts(f) {
			if seen[string(t)] || len(p) > 400 {
				continue
			}
			seen[string(t)] = true
			v, err := strconv.ParseFloat(string(t), 32)
			if err == nil {
				p = append(p, fmt.Sprintf("%08x=%s", math.Float32bits(float32(v)), hexs(t)))
			}
		}
	}
	if len(p) == 0 {
		return "-"
	}
	return strings.Join(p, ",")
}

func c06LineParseTable(line []byte) string {
	f := bytes.Split(line, []byte{'\t'})
	if len(f) <= 11 {
		return "-"
	}
	return c06ParseTable(f[11:])
}

// ---------------------------------------------------------------------------
// independent formatter, written from SAMv1 sections 1.4 and 1.5 over the description

const c06CigarLetters = "MIDNSHP=X"
const c06BaseLetters = "=ACMGRSVTWYHKDBN"

func c06SpecFloat(b uint32) string {
	return strconv.FormatFloat(float64(math.Float32frombits(b)), 'g', -1, 32)
}

func c06SpecAux(a []byte) (string, bool) {
	x, ok := c06DecodeAux(a)
	if !ok {
		return "", false
	}
	tag := string(x.tag[:])
	switch x.typ {
	case 'A':
		return tag + ":A:" + string(x.data), true
	case 'c', 'C', 's', 'S', 'i', 'I':
		return tag + ":i:" + strconv.FormatInt(x.ints[0], 10), true
	case 'f':
		return tag + ":f:" + c06SpecFloat(x.floats[0]), true
	case 'Z':
		return tag + ":Z:" + string(x.data), true
	case 'H':
		return tag + ":H:" + strings.ToUpper(hex.EncodeToString(x.data)), true
	case 'B':
		s := tag + ":B:" + string(x.sub)
		if x.sub == 'f' {
			for _, f := range x.floats {
				s += "," + c06SpecFloat(f)
			}
		} else {
			for _, v := range x.ints {
				s += "," + strconv.FormatInt(v, 10)
			}
		}
		return s, true
	}
	return "", false
}

// POS and PNEXT are 1-based in SAM (no wrap-around: the specification's integers are not Go ints)
func c06Plus1(v int) string {
	return new(big.Int).Add(big.NewInt(int64(v)), big.NewInt(1)).String()
}

func c06SpecLine(hd []c06Ref, rr c06Rec, hexFlags bool) ([]byte, bool) {
	var f []string
	f = append(f, string(unhex(rr.Name)))
	if hexFlags {
		f = append(f, "0x"+strconv.FormatUint(uint64(rr.Flags), 16))
	} else {
		f = append(f, strconv.FormatUint(uint64(rr.Flags), 10))
	}
	name := func(i int) string {
		if i < 0 {
			return "*"
		}
		return string(unhex(hd[i].Name))
	}
	f = append(f, name(rr.Ref), c06Plus1(rr.Pos), strconv.Itoa(int(rr.MapQ)))
	ops := c16ParseCigar(rr.Cigar)
	if len(ops) == 0 {
		f = append(f, "*")
	} else {
		s := ""
		for _, o := range ops {
			if o.t >= len(c06CigarLetters) {
				return nil, false
			}
			s += strconv.Itoa(o.n) + c06CigarLetters[o.t:o.t+1]
		}
		f = append(f, s)
	}
	switch {
	case rr.Mate < 0:
		f = append(f, "*")
	case rr.Mate == rr.Ref:
		f = append(f, "=")
	default:
		f = append(f, name(rr.Mate))
	}
	f = append(f, c06Plus1(rr.MatePos), strconv.Itoa(rr.TLen))
	if rr.Seq == "-" || rr.Seq == "" {
		f = append(f, "*")
	} else {
		s := make([]byte, len(rr.Seq))
		for i := range s {
			v, _ := strconv.ParseUint(rr.Seq[i:i+1], 16, 8)
			s[i] = c06BaseLetters[v]
		}
		f = append(f, string(s))
	}
	q := unhex(rr.Qual)
	absent := true
	for _, v := range q {
		if v != 0xff {
			absent = false
		}
	}
	if rr.Qual == "nil" || absent {
		f = append(f, "*")
	} else {
		s := make([]byte, len(q))
		for i, v := range q {
			s[i] = v + 33
		}
		f = append(f, string(s))
	}
	for _, a := range rr.Aux {
		s, ok := c06SpecAux(unhex(a))
		if !ok {
			return nil, false
		}
		f = append(f, s)
	}
	return []byte(strings.Join(f, "\t")), true
}

// ---------------------------------------------------------------------------
// the class of records the property is about, judged on the description (mirrors Lean's Expressible,
// and is compared with it through the driver)

func c06RNameChar(c byte) bool {
	return c >= 33 && c <= 126 && !strings.ContainsRune("\"'(),<>[\\]`{}", rune(c))
}

func c06RNameOK(n []byte) bool {
	if len(n) == 0 || n[0] == '*' || n[0] == '=' {
		return false
	}
	for _, c := range n {
		if !c06RNameChar(c) {
			return false
		}
	}
	return true
}

func c06HeaderOK(hd []c06Ref) bool {
	seen := map[string]bool{}
	for _, r := range hd {
		if !c06RNameOK(unhex(r.Name)) || seen[r.Name] {
			return false
		}
		seen[r.Name] = true
	}
	return true
}

func c06IsAlpha(c byte) bool { return c >= 'A' && c <= 'Z' || c >= 'a' && c <= 'z' }

func c06Expressible(hd []c06Ref, rr c06Rec) bool {
	name := unhex(rr.Name)
	if len(name) < 1 || len(name) > 254 {
		return false
	}
	for _, c := range name {
		if !(c >= 33 && c <= 63 || c >= 65 && c <= 126) {
			return false
		}
	}
	if rr.Ref >= len(hd) || rr.Mate >= len(hd) {
		return false
	}
	// Go int fields: Pos+1, MatePos+1 must not overflow
	if rr.Pos == math.MaxInt64 || rr.MatePos == math.MaxInt64 {
		return false
	}
	ops := c16ParseCigar(rr.Cigar)
	for _, o := range ops {
		if o.t > 8 || o.n >= 1<<28 {
			return false
		}
	}
	seqLen := len(rr.Seq)
	if rr.Seq == "-" {
		seqLen = 0
	}
	if len(ops) > 0 && seqLen > 0 && !c16SpecValid(ops, seqLen) {
		return false
	}
	if rr.Qual != "nil" {
		q := unhex(rr.Qual)
		if len(q) != seqLen {
			return false
		}
		all255, phred := true, true
		for _, v := range q {
			if v != 0xff {
				all255 = false
			}
			if v > 93 {
				phred = false
			}
		}
		if !all255 && !(phred && !(len(q) == 1 && q[0] == 9)) {
			return false
		}
	}
	for _, a := range rr.Aux {
		x, ok := c06DecodeAux(unhex(a))
		if !ok {
			return false
		}
		if !c06IsAlpha(x.tag[0]) || !(c06IsAlpha(x.tag[1]) || x.tag[1] >= '0' && x.tag[1] <= '9') {
			return false
		}
		switch x.typ {
		case 'A':
			if x.data[0] < 33 || x.data[0] > 126 {
				return false
			}
		case 'Z':
			for _, c := range x.data {
				if c < 32 || c > 126 {
					return false
				}
			}
		}
	}
	return true
}

// ---------------------------------------------------------------------------
// implementation runners

func c06ErrClass(err error) string {
	m := err.Error()
	for _, p := range [][2]string{
		{"missing SAM fields", "fields"}, {"failed to parse flags", "flag"}, {"failed to assign reference", "rname"},
		{"failed to parse position", "pos"}, {"map quality", "mapq"}, {"cigar", "cigar"}, {"integer overflow", "cigar"},
		{"mate reference", "rnext"}, {"mate position", "pnext"}, {"template length", "tlen"},
		{"sequence/CIGAR", "seqcigar"}, {"sequence/quality", "seqqual"}, {"aux tag", "aux"}} {
		if strings.Contains(m, p[0]) {
			return p[1]
		}
	}
	return "other"
}

func c06Marshal(r *sam.Record, f int) (line []byte, res string, o callOutcome) {
	var err error
	o = guard(func() { line, err = r.MarshalSAM(f) })
	switch {
	case o.panicked:
		return nil, "panic", o
	case err != nil:
		return nil, "err", o
	}
	return line, "ok " + hexs(line), o
}

func c06Unmarshal(h *sam.Header, line []byte) (r *sam.Record, res string, err error, o callOutcome) {
	r = &sam.Record{}
	o = guard(func() { err = r.UnmarshalSAM(h, append([]byte(nil), line...)) })
	switch {
	case o.panicked:
		return nil, "panic", nil, o
	case err != nil:
		return nil, "err", err, o
	}
	return r, "ok " + strings.Join(c06Dump(r, false), " "), nil, o
}

// c06AuxClass names the aux field that stops a line from parsing: type letter, ".empty" for an empty value.
func c06AuxClass(line []byte) string {
	f := bytes.Split(line, []byte{'\t'})
	for _, a := range f[min(11, len(f)):] {
		var err error
		o := guard(func() { _, err = sam.ParseAux(a) })
		if o.panicked || err != nil {
			cls := "short"
			if len(a) >= 4 {
				cls = string(a[3])
				if len(a) <= 5 || (a[3] == 'B' && len(a) <= 6) {
					cls += ".empty"
				}
			}
			return cls
		}
	}
	return "none"
}

func c06FirstDiffField(a, b []byte) string {
	fa, fb := bytes.Split(a, []byte{'\t'}), bytes.Split(b, []byte{'\t'})
	for i := 0; i < len(fa) || i < len(fb); i++ {
		if i >= len(fa) || i >= len(fb) || !bytes.Equal(fa[i], fb[i]) {
			if i < 11 {
				return c06FieldNames[i]
			}
			var x []byte
			if i < len(fb) {
				x = fb[i]
			} else {
				x = fa[i]
			}
			if len(x) >= 4 {
				cls := "aux." + string(x[3])
				if len(x) <= 5 || (x[3] == 'B' && len(x) <= 6) {
					cls += ".empty"
				}
				return cls
			}
			return "aux"
		}
	}
	return "none"
}

var c06FloatGrammar = regexp.MustCompile(`^[-+]?[0-9]*\.?[0-9]+([eE][-+]?[0-9]+)?$`)

var c06FlagNames = []string{"dec", "hex", "str"}

// c06RecordOracle: the property itself on one expressible record and one parseable flag format.
func c06RecordOracle(c *ctx, hd []c06Ref, rr c06Rec, h *sam.Header, refs []*sam.Reference, f int) {
	res := c.res
	in := c06Input{Kind: "record", Header: hd, Rec: &rr, FlagFmt: f}
	fn := c06FlagNames[f]
	r := c06Build(refs, rr)
	line, st, o := c06Marshal(r, f)
	if st == "panic" {
		res.fail("c06.marshal.panic:"+topRepoFrame(o.stack), "MarshalSAM panics on an expressible record: "+o.panicVal, in)
		return
	}
	if st == "err" {
		res.fail("c06.marshal.err", "MarshalSAM fails on an expressible record", in)
		return
	}
	if spec, ok := c06SpecLine(hd, rr, f == 1); ok && !bytes.Equal(spec, line) {
		fld := c06FirstDiffField(line, spec)
		res.fail("c06.spec."+fn+"."+fld, fmt.Sprintf("MarshalSAM line differs from the specification's at %s: got %q want %q", fld, line, spec), in)
	}
	r2, st2, err, o2 := c06Unmarshal(h, line)
	if st2 == "panic" {
		res.fail("c06.reparse.panic:"+topRepoFrame(o2.stack)+":"+c06AuxClass(line), fmt.Sprintf("UnmarshalSAM panics on the library's own line %q: %s", line, o2.panicVal), in)
		return
	}
	if st2 == "err" {
		cls := c06ErrClass(err)
		if cls == "aux" {
			cls += "." + c06AuxClass(line)
		}
		res.fail("c06.reparse."+fn+"."+cls, fmt.Sprintf("the library's own line %q does not parse back: %v", line, err), in)
		return
	}
	line2, st3, _ := c06Marshal(r2, f)
	if st3[:2] != "ok" || !bytes.Equal(line, line2) {
		fld := c06FirstDiffField(line, line2)
		res.fail("c06.reformat."+fn+"."+fld, fmt.Sprintf("format(parse(line)) differs at %s: %q then %q", fld, line, line2), in)
	}
	a, b := c06Dump(r, true), c06Dump(r2, true)
	for i := range a {
		if a[i] != b[i] {
			res.fail("c06.fields."+fn+"."+c06FieldNames[i], fmt.Sprintf("field %s differs after format+parse of %q: %s then %s", c06FieldNames[i], line, a[i], b[i]), in)
			break
		}
	}
	if r2.Ref != r.Ref || r2.MateRef != r.MateRef {
		res.fail("c06.fields."+fn+".refptr", "reference pointers differ after format+parse", in)
	}
}

// c06NilHeaderOracle: the line of an expressible record parsed WITHOUT a header (placeholder references that all
// have id -1 and differ only by pointer and name) formats to the identical line again, which is also the
// independent formatter's line.  Returns the re-parsed record for the model comparison.
func c06NilHeaderOracle(c *ctx, hd []c06Ref, rr c06Rec, refs []*sam.Reference, f int) *sam.Record {
	res := c.res
	in := c06Input{Kind: "record-nilheader", Header: hd, Rec: &rr, FlagFmt: f}
	fn := c06FlagNames[f]
	line, st, _ := c06Marshal(c06Build(refs, rr), f)
	if st == "panic" || st == "err" {
		return nil // reported by c06RecordOracle
	}
	r2, st2, err, o2 := c06Unmarshal(nil, line)
	if st2 == "panic" {
		res.fail("c06.nilheader.reparse.panic:"+topRepoFrame(o2.stack), fmt.Sprintf("UnmarshalSAM(nil, %q) panics: %s", line, o2.panicVal), in)
		return nil
	}
	if st2 == "err" {
		res.fail("c06.nilheader.reparse."+fn+"."+c06ErrClass(err), fmt.Sprintf("the library's own line %q does not parse with a nil header: %v", line, err), in)
		return nil
	}
	line2, st3, _ := c06Marshal(r2, f)
	if st3[:2] != "ok" || !bytes.Equal(line, line2) {
		fld := c06FirstDiffField(line, line2)
		res.fail("c06.nilheader.reformat."+fn+"."+fld, fmt.Sprintf("format(parse(line)) with a nil header differs at %s: %q then %q", fld, line, line2), in)
	}
	if spec, ok := c06SpecLine(hd, rr, f == 1); ok && st3[:2] == "ok" && !bytes.Equal(spec, line2) {
		fld := c06FirstDiffField(line2, spec)
		res.fail("c06.nilheader.spec."+fn+"."+fld, fmt.Sprintf("the line of the record parsed with a nil header differs from the specification's at %s: got %q want %q", fld, line2, spec), in)
	}
	return r2
}

// c06BamTrip writes the records to BAM in memory and reads them back: "" when every record formats to
// the same SAM line, else a failure class and a description.
func c06BamTrip(hd []c06Ref, recs []c06Rec) (cls, what string, bamBytes []byte) {
	h, refs, err := c06MakeHeader(hd)
	if err != nil {
		return "", "", nil
	}
	var want [][]byte
	var got [][]byte
	var held []*sam.Record
	var werr, rerr error
	o := guardTimeout(20*time.Second, func() {
		var buf bytes.Buffer
		bw, err := bam.NewWriter(&buf, h, 1)
		if err != nil {
			werr = err
			return
		}
		for _, rr := range recs {
			r := c06Build(refs, rr)
			line, err := r.MarshalSAM(0)
			if err != nil {
				werr = err
				return
			}
			if err := bw.Write(r); err != nil {
				werr = err
				return
			}
			want = append(want, line)
		}
		if err := bw.Close(); err != nil {
			werr = err
			return
		}
		bamBytes = append([]byte(nil), buf.Bytes()...)
		br, err := bam.NewReader(bytes.NewReader(buf.Bytes()), 1)
		if err != nil {
			rerr = err
			return
		}
		defer br.Close()
		for {
			r, err := br.Read()
			if err == io.EOF {
				break
			}
			if err != nil {
				rerr = err
				return
			}
			held = append(held, r)
		}
		// every record is kept until the whole file has been read, and only then formatted: a record must not
		// change when the Reader goes on (records alias nothing of the Reader's buffer)
		for _, r := range held {
			line, err := r.MarshalSAM(0)
			if err != nil {
				rerr = err
				return
			}
			got = append(got, line)
		}
	})
	switch {
	case o.timedOut:
		return "hang", "BAM write+read of expressible records does not return", nil
	case o.panicked:
		return "panic:" + topRepoFrame(o.stack), "BAM write+read panics: " + o.panicVal, nil
	case werr != nil:
		return "writeerr", "BAM write fails: " + werr.Error(), nil
	}
	for i := range want {
		if i >= len(got) || !bytes.Equal(want[i], got[i]) {
			g := []byte("(none)")
			if i < len(got) {
				g = got[i]
			}
			fld := c06FirstDiffField(want[i], g)
			what := fmt.Sprintf("record %d read back from BAM formats differently at %s: wrote %q, read %q", i, fld, want[i], g)
			if rerr != nil {
				return "readerr", what + " (read error: " + rerr.Error() + ")", bamBytes
			}
			return "line." + fld, what, bamBytes
		}
	}
	if rerr != nil {
		return "readerr", "BAM read fails: " + rerr.Error(), bamBytes
	} else if len(got) != len(want) {
		return "count", fmt.Sprintf("wrote %d records, read %d", len(want), len(got)), bamBytes
	}
	return "", "", bamBytes
}

// c06ConformantAux: the aux block of a BAM record written from SAMv1 section 4.2.4 over the description:
// little-endian numbers, `Z` the text and a NUL, `H` the upper-case hex digits of the bytes and a NUL, `B` the
// element type, a 32-bit count and the elements.  One byte string per field.
func c06ConformantAux(rr c06Rec) (fields [][]byte, types []string) {
	for _, a := range rr.Aux {
		raw := unhex(a)
		x, ok := c06DecodeAux(raw)
		if !ok {
			continue
		}
		f := []byte{x.tag[0], x.tag[1], x.typ}
		t := string(x.typ)
		switch x.typ {
		case 'A':
			f = append(f, x.data...)
		case 'c', 'C', 's', 'S', 'i', 'I':
			f = append(f, c06EncodeInt(x.typ, x.ints[0])...)
		case 'f':
			f = append(f, c06EncodeInt('I', int64(x.floats[0]))...)
		case 'Z':
			f = append(append(f, x.data...), 0)
		case 'H':
			f = append(append(f, strings.ToUpper(hex.EncodeToString(x.data))...), 0)
		case 'B':
			t += string(x.sub)
			n := len(x.ints) + len(x.floats)
			f = append(f, x.sub, byte(n), byte(n>>8), byte(n>>16), byte(n>>24))
			for _, v := range x.ints {
				f = append(f, c06EncodeInt(x.sub, v)...)
			}
			for _, v := range x.floats {
				f = append(f, c06EncodeInt('I', int64(v))...)
			}
		}
		fields = append(fields, f)
		types = append(types, t)
	}
	return
}

// c06BamAuxBlocks: the aux blocks of the records of a BAM file, located with an own reading of the layout
// (BGZF is only inflated by the library's reader): magic, l_text, text, n_ref, references, then per record
// block_size and the 32 fixed bytes, read name, CIGAR, packed sequence, qualities; the rest is the aux block.
func c06BamAuxBlocks(bamBytes []byte) (blocks [][]byte, sizes []int, err error) {
	br, err := bgzf.NewReader(bytes.NewReader(bamBytes), 1)
	if err != nil {
		return nil, nil, err
	}
	defer br.Close()
	b, err := io.ReadAll(br)
	if err != nil {
		return nil, nil, err
	}
	le32 := func(off int) int { return int(int32(binary.LittleEndian.Uint32(b[off:]))) }
	if len(b) < 12 || string(b[:4]) != "BAM\x01" {
		return nil, nil, fmt.Errorf("no BAM magic")
	}
	off := 8 + le32(4)
	if off+4 > len(b) {
		return nil, nil, fmt.Errorf("short header")
	}
	nref := le32(off)
	off += 4
	for i := 0; i < nref; i++ {
		if off+4 > len(b) {
			return nil, nil, fmt.Errorf("short reference list")
		}
		off += 4 + le32(off) + 4
	}
	for off < len(b) {
		if off+36 > len(b) {
			return nil, nil, fmt.Errorf("short record")
		}
		size := le32(off)
		body := off + 4
		if size < 32 || body+size > len(b) {
			return nil, nil, fmt.Errorf("bad block size %d", size)
		}
		lName := int(b[body+8])
		nCigar := int(binary.LittleEndian.Uint16(b[body+12:]))
		lSeq := le32(body + 16)
		aux := body + 32 + lName + 4*nCigar + (lSeq+1)/2 + lSeq
		if aux > body+size {
			return nil, nil, fmt.Errorf("fields longer than the block")
		}
		blocks = append(blocks, b[aux:body+size])
		sizes = append(sizes, size)
		off = body + size
	}
	return blocks, sizes, nil
}

// c06BamLayoutCheck: the aux block the library wrote for each record against the conformant encoder's.
func c06BamLayoutCheck(recs []c06Rec, bamBytes []byte) (cls, what string, culprit *c06Rec) {
	blocks, sizes, err := c06BamAuxBlocks(bamBytes)
	if err != nil || len(blocks) != len(recs) {
		return "records", fmt.Sprintf("the written BAM does not parse as %d records by the layout of SAMv1 section 4.2: %v (%d found)", len(recs), err, len(blocks)), nil
	}
	for i, rr := range recs {
		if want := c06BlockSize(rr); sizes[i] != want {
			one := rr
			return "blocksize", fmt.Sprintf("record %d: block_size %d, SAMv1 section 4.2 says %d", i, sizes[i], want), &one
		}
		fields, types := c06ConformantAux(rr)
		got := blocks[i]
		off := 0
		for j, f := range fields {
			if off+len(f) > len(got) || !bytes.Equal(got[off:off+len(f)], f) {
				end := off + len(f)
				if end > len(got) {
					end = len(got)
				}
				one := rr
				one.Aux = []string{rr.Aux[j]}
				return "aux." + types[j], fmt.Sprintf("record %d aux field %d (type %s): BAM bytes % x, SAMv1 section 4.2.4 says % x", i, j, types[j], got[off:end], f), &one
			}
			off += len(f)
		}
		if off != len(got) {
			return "aux.trailing", fmt.Sprintf("record %d: %d bytes after the last aux field", i, len(got)-off), nil
		}
	}
	return "", "", nil
}

// c06BamOracle: (1) records written to BAM and read back format to the same SAM lines; a failing batch is
// narrowed to one record and, where one aux field alone reproduces it, to that field: signature
// c06.bam.roundtrip.aux.<type> (".zero" when an H value contains a zero byte).  (2) Independently of the
// library's reader: the aux block of every written record equals the one an encoder written from the
// specification produces (signature c06.bam.layout.aux.<type>).
func c06BamOracle(c *ctx, hd []c06Ref, recs []c06Rec) {
	cls, what, bamBytes := c06BamTrip(hd, recs)
	if bamBytes != nil {
		if lc, lw, one := c06BamLayoutCheck(recs, bamBytes); lc != "" {
			in := c06Input{Kind: "bam", Header: hd, Recs: recs}
			if one != nil {
				in.Recs = []c06Rec{*one}
			}
			c.res.fail("c06.bam.layout."+lc, lw, in)
		}
	}
	if cls == "" {
		return
	}
	in := c06Input{Kind: "bam", Header: hd, Recs: recs}
	alone := false
	for _, rr := range recs {
		if c1, _, _ := c06BamTrip(hd, []c06Rec{rr}); c1 != "" {
			alone = true
		}
	}
	if !alone && strings.HasPrefix(cls, "line.") {
		// no record fails when it is the only one in the file: the record changed while later records were read
		cls = "held"
		what += " (each record alone round-trips: a record held across later Reads changed)"
	}
	for _, rr := range recs {
		if c1, w1, _ := c06BamTrip(hd, []c06Rec{rr}); c1 != "" {
			cls, what, in.Recs = c1, w1, []c06Rec{rr}
			for _, a := range rr.Aux {
				one := rr
				one.Aux = []string{a}
				if c2, w2, _ := c06BamTrip(hd, []c06Rec{one}); c2 != "" {
					x, _ := c06DecodeAux(unhex(a))
					t := string(x.typ)
					if x.typ == 'B' {
						t += string(x.sub)
					}
					if x.typ == 'H' && bytes.IndexByte(x.data, 0) >= 0 {
						t += ".zero"
					}
					cls, what, in.Recs = "aux."+t, w2, []c06Rec{one}
					break
				}
			}
			break
		}
	}
	c.res.fail("c06.bam.roundtrip."+cls, what, in)
}

// c06RunReader: successive Read results, in the driver's syntax.
func c06RunReader(input []byte, limit int) (out string, hdrTok string, lines [][]byte, o callOutcome) {
	var parts []string
	o = guardTimeout(20*time.Second, func() {
		sr, err := sam.NewReader(bytes.NewReader(input))
		if err != nil {
			parts = []string{"newreader-err"}
			return
		}
		var hd []c06Ref
		for _, r := range sr.Header().Refs() {
			hd = append(hd, c06Ref{hexs([]byte(r.Name())), r.Len()})
		}
		hdrTok = c06HeaderTok(hd, false)
		for i := 0; i < limit; i++ {
			rec, err := sr.Read()
			if err == io.EOF {
				parts = append(parts, "eof")
				return
			}
			if err != nil {
				parts = append(parts, "err")
				return
			}
			parts = append(parts, "ok "+strings.Join(c06Dump(rec, false), " "))
			if l, err := rec.MarshalSAM(0); err == nil {
				lines = append(lines, l)
			} else {
				lines = append(lines, nil)
			}
		}
		parts = append(parts, "toolong")
	})
	if o.panicked {
		parts = append(parts, "panic")
	}
	if o.timedOut {
		parts = append(parts, "hang")
	}
	return strings.Join(parts, " | "), hdrTok, lines, o
}

// c06ReaderOracle: input made of the lines of expressible records (decimal flags): one record per line.
func c06ReaderOracle(c *ctx, in c06Input, out string, got [][]byte, o callOutcome) {
	res := c.res
	if o.timedOut {
		res.fail("c06.reader.hang", "sam.Reader does not return", in)
		return
	}
	input := unhex(in.Text)
	final := len(input) > 0 && input[len(input)-1] == '\n'
	if o.panicked {
		res.fail("c06.reader.panic:"+topRepoFrame(o.stack), "sam.Reader panics on a well-formed input: "+o.panicVal, in)
		return
	}
	if len(in.Lines) == 0 {
		return // header-only or empty input: no record line to return
	}
	if len(got) != len(in.Lines) || !strings.HasSuffix(out, "eof") {
		sig := "c06.reader.count"
		if len(got) == len(in.Lines)-1 && !final && strings.HasSuffix(out, "eof") {
			sig = "c06.reader.lastline.dropped"
		}
		res.fail(sig, fmt.Sprintf("input has %d record lines (final newline: %v), the reader returned %d records then %q", len(in.Lines), final, len(got), out[strings.LastIndex(out, "|")+1:]), in)
		return
	}
	for i, l := range in.Lines {
		if !bytes.Equal(unhex(l), got[i]) {
			res.fail("c06.reader.record", fmt.Sprintf("record %d formats as %q, its line was %q", i, got[i], unhex(l)), in)
			return
		}
	}
}

// ---------------------------------------------------------------------------
// generators

func c06GenRName(rnd *Rand) string {
	const first = "0123456789ABCDEFGHIJKLMNOPQRSTUVWXYZabcdefghijklmnopqrstuvwxyz!#$%&+./:;?@^_|~-"
	const rest = first + "*="
	n := rnd.rng(1, 6)
	if rnd.coin(1, 10) {
		n = rnd.rng(7, 40)
	}
	b := make([]byte, n)
	b[0] = first[rnd.intn(len(first))]
	for i := 1; i < n; i++ {
		b[i] = rest[rnd.intn(len(rest))]
	}
	if rnd.coin(1, 3) {
		copy(b, "chr")
		b = b[:min(n, 3)]
		b = append(b, byte('1'+rnd.intn(9)))
	}
	return string(b)
}

func c06GenHeader(rnd *Rand) []c06Ref {
	n := rnd.intn(5)
	seen := map[string]bool{}
	var hd []c06Ref
	for len(hd) < n {
		nm := c06GenRName(rnd)
		if seen[nm] {
			continue
		}
		seen[nm] = true
		l := rnd.pick([]int{1, 1000, 1 << 29, 1<<31 - 1})
		if rnd.coin(1, 2) {
			l = rnd.rng(1, 300000000)
		}
		hd = append(hd, c06Ref{hexs([]byte(nm)), l})
	}
	return hd
}

func c06GenQName(rnd *Rand) []byte {
	n := rnd.rng(1, 12)
	switch rnd.intn(20) {
	case 0:
		n = 254
	case 1:
		n = 1
	case 2:
		n = rnd.rng(200, 254)
	}
	b := make([]byte, n)
	for i := range b {
		for {
			c := byte(rnd.rng(33, 126))
			if c != '@' {
				b[i] = c
				break
			}
		}
	}
	if n == 1 && rnd.coin(1, 3) {
		b[0] = '*'
	}
	return b
}

func c06BoundaryInt(rnd *Rand, lo, hi int64) int64 {
	switch rnd.intn(8) {
	case 0:
		return lo
	case 1:
		return hi
	case 2:
		if lo < 0 {
			return -1
		}
		return lo + 1
	case 3:
		return 0
	case 4:
		return hi - 1
	case 5:
		if lo < 0 {
			return lo + 1
		}
		return 1
	}
	span := uint64(hi - lo)
	return lo + int64(rnd.u64()%(span+1))
}

var c06IntRanges = map[byte][2]int64{'c': {-128, 127}, 'C': {0, 255}, 's': {-32768, 32767}, 'S': {0, 65535},
	'i': {-2147483648, 2147483647}, 'I': {0, 4294967295}}

var c06FloatSpecials = []uint32{0, 0x80000000, 0x7f800000, 0xff800000, 0x7fc00000, 0x7fc00001, 0xffc00000, 0x7f800001,
	1, 0x007fffff, 0x00800000, 0x7f7fffff, 0xff7fffff, 0x3f800000, 0x4048f5c3, 0x49742400, 0x497423f0, 0x47c35000,
	0x38d1b717, 0x3727c5ac, 0x5a0e1bca, 0x3dcccccd, 0x4b800000, 0x501502f9}

func c06GenFloat(rnd *Rand) uint32 {
	if rnd.coin(1, 2) {
		return c06FloatSpecials[rnd.intn(len(c06FloatSpecials))]
	}
	if rnd.coin(1, 3) {
		return math.Float32bits(float32(rnd.rng(-1000, 1000)) / float32(rnd.pick([]int{1, 2, 4, 10, 100, 1000})))
	}
	return uint32(rnd.u64())
}

func c06GenTag(rnd *Rand) [2]byte {
	const al = "ABCDEFGHIJKLMNOPQRSTUVWXYZabcdefghijklmnopqrstuvwxyz"
	const an = al + "0123456789"
	return [2]byte{al[rnd.intn(len(al))], an[rnd.intn(len(an))]}
}

// c06GenAux: one well-formed aux of a random type with boundary-biased values.
func c06GenAux(rnd *Rand) []byte {
	tag := c06GenTag(rnd)
	a := []byte{tag[0], tag[1]}
	ints := "cCsSiI"
	switch rnd.intn(9) {
	case 0:
		return append(a, 'A', byte(rnd.rng(33, 126)))
	case 1, 2:
		t := ints[rnd.intn(6)]
		rg := c06IntRanges[t]
		return append(append(a, t), c06EncodeInt(t, c06BoundaryInt(rnd, rg[0], rg[1]))...)
	case 3:
		return append(append(a, 'f'), c06EncodeInt('i', int64(c06GenFloat(rnd)))...)
	case 4:
		n := rnd.pick([]int{0, 0, 1, 2, 5, 20, 100})
		z := make([]byte, n)
		for i := range z {
			z[i] = byte(rnd.rng(32, 126))
		}
		return append(append(a, 'Z'), z...)
	case 5:
		n := rnd.pick([]int{0, 0, 1, 2, 3, 8, 33})
		hb := rnd.bytes(n)
		if n > 0 && rnd.coin(1, 3) {
			hb[rnd.intn(n)] = 0
		}
		return append(append(a, 'H'), hb...)
	case 6, 7:
		t := ints[rnd.intn(6)]
		rg := c06IntRanges[t]
		n := rnd.pick([]int{0, 0, 1, 1, 2, 3, 7, 40})
		a = append(a, 'B', t, 0, 0, 0, 0)
		binary.LittleEndian.PutUint32(a[4:8], uint32(n))
		for i := 0; i < n; i++ {
			a = append(a, c06EncodeInt(t, c06BoundaryInt(rnd, rg[0], rg[1]))...)
		}
		return a
	default:
		n := rnd.pick([]int{0, 1, 1, 2, 5})
		a = append(a, 'B', 'f', 0, 0, 0, 0)
		binary.LittleEndian.PutUint32(a[4:8], uint32(n))
		for i := 0; i < n; i++ {
			a = append(a, c06EncodeInt('i', int64(c06GenFloat(rnd)))...)
		}
		return a
	}
}

// c06GenCigar: a CIGAR valid for a sequence of length seqLen (clipping at the ends only).
func c06GenCigar(rnd *Rand, seqLen int) []c16Op {
	if rnd.coin(1, 8) {
		return nil
	}
	var ops []c16Op
	refLen := func() int {
		if rnd.coin(1, 12) {
			return rnd.pick([]int{0, 1<<28 - 1, 1<<28 - 2, 65536})
		}
		return rnd.rng(1, 3000)
	}
	if rnd.coin(1, 5) {
		ops = append(ops, c16Op{5, rnd.rng(1, 50)})
	}
	rem := seqLen
	if rem > 0 && rnd.coin(1, 4) {
		k := rnd.rng(1, rem)
		ops = append(ops, c16Op{4, k})
		rem -= k
	}
	tailS := 0
	if rem > 0 && rnd.coin(1, 4) {
		tailS = rnd.rng(1, rem)
		rem -= tailS
	}
	for rem > 0 {
		k := rnd.rng(1, rem)
		if rnd.coin(1, 2) {
			k = rem
		}
		ops = append(ops, c16Op{rnd.pick([]int{0, 0, 0, 1, 7, 8}), k})
		rem -= k
		if rem > 0 && rnd.coin(1, 2) {
			ops = append(ops, c16Op{rnd.pick([]int{2, 3, 6}), refLen()})
		}
	}
	if seqLen == 0 || rnd.coin(1, 6) {
		ops = append(ops, c16Op{rnd.pick([]int{2, 3, 6, 0}), 0})
		if ops[len(ops)-1].t != 0 {
			ops[len(ops)-1].n = refLen()
		}
	}
	if tailS > 0 {
		ops = append(ops, c16Op{4, tailS})
	}
	if rnd.coin(1, 5) {
		ops = append(ops, c16Op{5, rnd.rng(1, 50)})
	}
	return ops
}

func c06GenPos(rnd *Rand) int {
	switch rnd.intn(10) {
	case 0:
		return 0
	case 1:
		return 1<<31 - 2
	case 2:
		return 1<<29 - 1
	case 3:
		return rnd.pick([]int{-1, 1 << 29, 1<<31 - 1, 1 << 40, math.MaxInt64 - 1, -2, math.MinInt64})
	}
	return rnd.intn(300000000)
}

// c06GenRecord: an expressible record (boundary-biased); weird=true applies one mutation that may take it
// outside the expressible class (those are compared with the model, and judged only if still expressible).
func c06GenRecord(rnd *Rand, hd []c06Ref, weird bool) c06Rec {
	var rr c06Rec
	rr.Name = hexs(c06GenQName(rnd))
	rr.Flags = uint16(rnd.pick([]int{0, 4, 16, 99, 147, 83, 163, 2048, 0xffff, 0xfff, 1, 77, 141, 256, 1024}))
	if rnd.coin(1, 3) {
		rr.Flags = uint16(rnd.u64())
	}
	rr.Ref, rr.Mate = -1, -1
	rr.Pos, rr.MatePos = -1, -1
	if len(hd) > 0 && rnd.coin(5, 6) {
		rr.Ref = rnd.intn(len(hd))
		rr.Pos = c06GenPos(rnd)
	}
	if len(hd) > 0 && rnd.coin(2, 3) {
		rr.Mate = rnd.intn(len(hd))
		if rnd.coin(1, 2) && rr.Ref >= 0 {
			rr.Mate = rr.Ref
		}
		rr.MatePos = c06GenPos(rnd)
	}
	if rnd.coin(1, 30) {
		rr.Pos = c06GenPos(rnd) // placed without reference: still text-expressible
	}
	rr.MapQ = byte(rnd.pick([]int{0, 255, 60, 30, 1, 254}))
	if rnd.coin(1, 3) {
		rr.MapQ = byte(rnd.u64())
	}
	rr.TLen = int(c06BoundaryInt(rnd, -(1 << 31), 1<<31-1))
	if rnd.coin(1, 2) {
		rr.TLen = rnd.rng(-1000, 1000)
	}
	if rnd.coin(1, 40) {
		rr.TLen = rnd.pick([]int{math.MaxInt64, math.MinInt64, 1 << 31, -(1 << 31) - 1})
	}
	n := rnd.rng(0, 40)
	switch rnd.intn(12) {
	case 0:
		n = 0
	case 1:
		n = 1
	case 2:
		n = rnd.rng(100, 600)
	case 3:
		if rnd.coin(1, 3) {
			// a long read: its SAM line does not fit a 4096-byte line buffer
			n = rnd.pick([]int{2040, 2047, 2048, 2100, 4095, 4096, 4097, 5000, 9000})
		}
	}
	if n > 0 {
		s := make([]byte, n)
		for i := range s {
			if rnd.coin(3, 4) {
				s[i] = "1248"[rnd.intn(4)]
			} else {
				s[i] = "0123456789abcdef"[rnd.intn(16)]
			}
		}
		rr.Seq = string(s)
	} else {
		rr.Seq = "-"
	}
	rr.Cigar = c16CigarText(c06GenCigar(rnd, n))
	switch rnd.intn(6) {
	case 0:
		rr.Qual = "nil"
	case 1:
		rr.Qual = hexs(bytes.Repeat([]byte{0xff}, n))
	default:
		q := make([]byte, n)
		for i := range q {
			q[i] = byte(rnd.rng(0, 93))
			if rnd.coin(1, 8) {
				q[i] = byte(rnd.pick([]int{0, 93, 9, 92, 1}))
			}
		}
		if n == 1 && q[0] == 9 && !weird {
			q[0] = 10
		}
		rr.Qual = hexs(q)
	}
	na := rnd.pick([]int{0, 0, 1, 1, 2, 3, 5, 9})
	for i := 0; i < na; i++ {
		rr.Aux = append(rr.Aux, hexs(c06GenAux(rnd)))
	}
	if !weird {
		return rr
	}
	switch rnd.intn(16) {
	case 0:
		nm := unhex(rr.Name)
		nm[rnd.intn(len(nm))] = byte(rnd.pick([]int{9, 32, 64, 0, 127, 200, 10}))
		rr.Name = hexs(nm)
	case 1:
		rr.Name = "-"
	case 2:
		rr.Name = hexs(bytes.Repeat([]byte{'n'}, 255))
	case 3: // qualities outside 0..93, possibly producing a TAB or wrapping
		if n > 0 {
			q := make([]byte, n)
			for i := range q {
				q[i] = byte(rnd.pick([]int{94, 200, 232, 255, 222, 0, 50, 223, 233}))
			}
			rr.Qual = hexs(q)
		}
	case 4: // length mismatch: MarshalSAM refuses
		rr.Qual = hexs(rnd.bytes(n + 1))
	case 5:
		rr.Qual = "-"
	case 6: // operation types outside the SAM set
		ops := c16ParseCigar(rr.Cigar)
		if len(ops) > 0 {
			ops[rnd.intn(len(ops))].t = rnd.rng(9, 15)
			rr.Cigar = c16CigarText(ops)
		}
	case 7: // CIGAR inconsistent with the sequence
		ops := c16ParseCigar(rr.Cigar)
		ops = append(ops, c16Op{rnd.pick([]int{0, 4, 5, 1}), rnd.rng(1, 9)})
		if rnd.coin(1, 2) {
			ops = append(ops, c16Op{0, 3})
		}
		rr.Cigar = c16CigarText(ops)
	case 8:
		rr.Aux = append(rr.Aux, hexs([]byte{'X', 'A', 'A', byte(rnd.pick([]int{9, 32, 127, 128, 200, 255, 0}))}))
	case 9:
		z := []byte("a\tb")
		if rnd.coin(1, 2) {
			z = rnd.bytes(rnd.rng(1, 6))
		}
		rr.Aux = append(rr.Aux, hexs(append([]byte{'X', 'Z', 'Z'}, z...)))
	case 10:
		a := c06GenAux(rnd)
		a[rnd.intn(2)] = byte(rnd.pick([]int{'1', ':', 9, ' ', 200}))
		rr.Aux = append(rr.Aux, hexs(a))
	case 11:
		if n == 1 {
			rr.Qual = "09"
		}
	case 12:
		rr.Pos, rr.MatePos = math.MaxInt64, math.MinInt64
	}
	return rr
}

// ---------------------------------------------------------------------------
// line generators for the parse direction

var c06IntTexts = []string{"0", "1", "-1", "+1", "007", "-0", "+0", "127", "128", "-128", "-129", "255", "256", "32767", "32768",
	"-32768", "-32769", "65535", "65536", "2147483647", "2147483648", "-2147483648", "-2147483649", "4294967295", "4294967296",
	"9223372036854775807", "9223372036854775808", "-9223372036854775808", "-9223372036854775809", "", "+", "-", "1_0", "0x10",
	"1e3", " 1", "1 ", "12a", "١"}

var c06ElemTexts = []string{"0", "1", "-1", "+5", "0x7f", "0X80", "-0x80", "0b101", "0o17", "017", "08", "1_000", "_1", "1_", "0_1",
	"0x_1f", "0x1_f", "1__0", "127", "128", "-128", "-129", "255", "256", "65535", "65536", "-32768", "32767", "2147483647",
	"-2147483648", "4294967295", "4294967296", "", "x", "0x", "0b", "-", "+", "1.5", "0xg", "0b2", "0o8"}

var c06FloatStrs = []string{"0", "-0", "1", "3.14", "1e3", "1E-3", ".5", "5.", "+Inf", "-Inf", "inf", "Infinity", "NaN", "nan",
	"1e38", "3.4028235e38", "3.4028236e38", "1e39", "1e-45", "1e-46", "0x1p-2", "1_0", "", "1e", "abc", "1.5.2", "+1.5", "1e+06"}

var c06FlagTexts = []string{"0", "99", "65535", "65536", "0x63", "0X63", "0xffff", "0x10000", "0143", "0b11", "0o17", "08", "1_0",
	"", "-1", "+1", "0x", "0x_1", "0_7", "_7", "7_", "ff", " 1"}

var c06CigarTexts = []string{"*", "", "10M", "0M", "M", "10", "10M5", "5", "55", "10M2I3D4N5S6H7P8=9X", "10B", "3Z", "3m", "*M", "**",
	"268435455M", "268435456M", "536870910M", "536870911M", "1000000000N", "9999999999999M", "10000000000000M", "00000000000010M",
	"1M1", "268435455M5", "1M*", "-1M", "+1M", "1 M", "12?", "4294967296M"}

func c06PickS(rnd *Rand, xs []string) string { return xs[rnd.intn(len(xs))] }

// c06GenAuxText: aux text, mostly well-formed per type, boundary values, and a share of malformed ones.
func c06GenAuxText(rnd *Rand, validBias int) string {
	if rnd.coin(validBias, 10) {
		return c06LibAuxText(rnd)
	}
	tag := c06GenTag(rnd)
	t := string(tag[:])
	joinN := func(xs []string, n int) string {
		p := make([]string, n)
		for i := range p {
			p[i] = c06PickS(rnd, xs)
		}
		return strings.Join(p, ",")
	}
	switch rnd.intn(16) {
	case 0:
		return t + ":A:" + string(byte(rnd.rng(33, 126)))
	case 1:
		return t + ":A:" + c06PickS(rnd, []string{"", "ab", "\xff", " "})
	case 2, 3:
		return t + ":i:" + c06PickS(rnd, c06IntTexts)
	case 4:
		return t + ":i:" + strconv.FormatInt(c06BoundaryInt(rnd, -5000000000, 5000000000), 10)
	case 5:
		return t + ":f:" + c06PickS(rnd, c06FloatStrs)
	case 6:
		return t + ":Z:" + c06PickS(rnd, []string{"", "x", "hello world", "a:b,c;d", " ", "ref,29,-,6H5M,17,0;"})
	case 7:
		return t + ":H:" + c06PickS(rnd, []string{"", "00", "1AE301", "1ae301", "1", "1aE", "GG", "0g", "ff00ff", "A", "abc"})
	case 8, 9:
		ty := string("cCsSiI"[rnd.intn(6)])
		n := rnd.pick([]int{0, 1, 1, 2, 4})
		if n == 0 {
			return t + ":B:" + ty + c06PickS(rnd, []string{"", "", ","})
		}
		return t + ":B:" + ty + "," + joinN(c06ElemTexts, n)
	case 10:
		n := rnd.pick([]int{0, 1, 2, 3})
		if n == 0 {
			return t + ":B:f"
		}
		return t + ":B:f," + joinN(c06FloatStrs, n)
	case 11:
		return t + ":B:" + c06PickS(rnd, []string{"", "x", "x,1", "c1", "c;1", "cc,1", "f1", "Z,1", "A"})
	case 12:
		return t + ":" + c06PickS(rnd, []string{"c:1", "C:1", "s:1", "S:1", "I:1", "x:1", "a:b", "::", "i", "i:", ""})
	case 13:
		return c06PickS(rnd, []string{"", "X", "XY", "XY:", "XY:i", "XY:i:", "XYi:1:", "XY:i;1", "XY;i:1", "X:i:12", "XYZ:i:1", ":::::"})
	}
	return c06LibAuxText(rnd)
}

// the text of a generated well-formed aux, as the library itself prints it
func c06LibAuxText(rnd *Rand) string {
	r := &sam.Record{Name: "q", AuxFields: sam.AuxFields{sam.Aux(c06GenAux(rnd))}}
	line, _, _ := c06Marshal(r, 0)
	f := bytes.Split(line, []byte{'\t'})
	if len(f) > 11 {
		return string(f[11])
	}
	return "XX:i:1"
}

// c06GenLine: a SAM line assembled field by field (mostly valid values, boundary texts), optionally mutated.
func c06GenLine(rnd *Rand, hd []c06Ref) []byte {
	name := func() string {
		if len(hd) == 0 || rnd.coin(1, 8) {
			return c06PickS(rnd, []string{"*", "*", "*", "*", "*", "=", "nosuch", ""})
		}
		return string(unhex(hd[rnd.intn(len(hd))].Name))
	}
	intText := func() string {
		if rnd.coin(1, 10) {
			return c06PickS(rnd, c06IntTexts)
		}
		return strconv.Itoa(c06GenPos(rnd))
	}
	seqLen := rnd.rng(0, 12)
	const letters = "ACGTNacgtn=.MRSVWYHKDBXZ*01239"
	seq := make([]byte, seqLen)
	for i := range seq {
		seq[i] = "ACGT"[rnd.intn(4)]
		if rnd.coin(1, 5) {
			seq[i] = letters[rnd.intn(len(letters))]
		}
	}
	seqT := string(seq)
	if seqLen == 0 {
		seqT = c06PickS(rnd, []string{"*", "*", ""})
	}
	cig := "*"
	switch rnd.intn(8) {
	case 0:
		cig = c06PickS(rnd, c06CigarTexts)
	case 1, 2:
		if seqLen > 0 {
			cig = fmt.Sprintf("%dM", seqLen)
			if rnd.coin(1, 2) && seqLen > 2 {
				k := rnd.rng(1, seqLen-1)
				cig = fmt.Sprintf("%d%s%d%s%dM", k, c06PickS(rnd, []string{"S", "M", "I", "=", "X", "H"}), rnd.rng(0, 300000000), c06PickS(rnd, []string{"D", "N", "P", "B", "H", "S"}), seqLen-k)
			}
		}
	case 3, 4, 5:
		ops := c06GenCigar(rnd, seqLen)
		if len(ops) > 0 {
			cig = ""
			for _, o := range ops {
				cig += strconv.Itoa(o.n) + c06CigarLetters[o.t:o.t+1]
			}
		}
	}
	qual := "*"
	switch rnd.intn(5) {
	case 0, 1:
		q := make([]byte, seqLen)
		for i := range q {
			q[i] = byte(rnd.rng(33, 126))
		}
		qual = string(q)
		if seqLen == 0 {
			qual = c06PickS(rnd, []string{"", "*", "!"})
		}
	case 2:
		qual = c06PickS(rnd, []string{"*", "", "!", "**", "\x01\x20", "~~~"})
	}
	flag := strconv.Itoa(rnd.intn(65536))
	if rnd.coin(1, 6) {
		flag = c06PickS(rnd, c06FlagTexts)
	}
	mapq := strconv.Itoa(rnd.intn(256))
	if rnd.coin(1, 10) {
		mapq = c06PickS(rnd, []string{"0", "255", "256", "-1", "+1", "0x1", "01", "", "1_0"})
	}
	rn := name()
	mn := name()
	if rnd.coin(1, 3) {
		mn = c06PickS(rnd, []string{"=", rn, "*"})
	}
	f := []string{string(c06GenQName(rnd)), flag, rn, intText(), mapq, cig, mn, intText(), intText(), seqT, qual}
	na := rnd.pick([]int{0, 0, 1, 2, 4})
	for i := 0; i < na; i++ {
		f = append(f, c06GenAuxText(rnd, 7))
	}
	line := []byte(strings.Join(f, "\t"))
	if rnd.coin(1, 6) {
		line = c06Mutate(rnd, line)
	}
	return line
}

func c06Mutate(rnd *Rand, line []byte) []byte {
	line = append([]byte(nil), line...)
	switch rnd.intn(6) {
	case 0: // drop a field
		f := bytes.Split(line, []byte{'\t'})
		i := rnd.intn(len(f))
		f = append(f[:i], f[i+1:]...)
		return bytes.Join(f, []byte{'\t'})
	case 1: // truncate
		if len(line) > 0 {
			return line[:rnd.intn(len(line))]
		}
	case 2: // replace a byte
		if len(line) > 0 {
			line[rnd.intn(len(line))] = byte(rnd.pick([]int{9, 32, '*', '=', '0', ':', ',', 0, 255, 'M', '-', '_', 'x'}))
		}
	case 3: // insert a byte
		i := rnd.intn(len(line) + 1)
		return append(line[:i], append([]byte{byte(rnd.pick([]int{9, 32, '*', '0', ':', ',', '-', '_', 13}))}, line[i:]...)...)
	case 4: // double a tab
		if i := bytes.IndexByte(line, '\t'); i >= 0 {
			return append(line[:i], append([]byte{'\t'}, line[i:]...)...)
		}
	case 5:
		return nil
	}
	return line
}

// ---------------------------------------------------------------------------
// one case of each kind (used by generation and by replay)

type c06Run struct {
	c    *ctx
	d    *Driver
	impl []string
}

func (x *c06Run) model(implAns string, format string, a ...interface{}) {
	if x.d == nil {
		return
	}
	x.d.add(format, a...)
	x.impl = append(x.impl, implAns)
}

func (x *c06Run) recordCase(hd []c06Ref, rr c06Rec, judge bool) {
	c := x.c
	h, refs, err := c06MakeHeader(hd)
	if err != nil {
		c.res.note("header: %v", err)
		return
	}
	auxs := make([][]byte, len(rr.Aux))
	for i, a := range rr.Aux {
		auxs[i] = unhex(a)
	}
	tab := c06FmtTable(auxs)
	r := c06Build(refs, rr)
	toks := strings.Join(c06Dump(r, false), " ")
	for f := 0; f <= 2; f++ {
		_, st, _ := c06Marshal(r, f)
		x.model(st, "c06.fmt %d %s %s", f, tab, toks)
	}
	// the memory form the BAM codec sees (tie of Hts.Model.SamBam.toBam): only for well-formed aux and 4-bit op types
	memOK := true
	for _, a := range auxs {
		if _, ok := c06DecodeAux(a); !ok {
			memOK = false
		}
	}
	if memOK {
		x.model("ok "+c06Mem(r), "c06.mem %s", toks)
	}
	expr := c06HeaderOK(hd) && c06Expressible(hd, rr)
	if spec, ok := c06SpecLine(hd, rr, false); ok {
		x.model("ok "+hexs(spec)+" "+fmt.Sprint(expr), "c06.spec %s %s %s", c06HeaderTok(hd, false), tab, toks)
	}
	if expr && judge {
		c06RecordOracle(c, hd, rr, h, refs, 0)
		c06RecordOracle(c, hd, rr, h, refs, 1)
		// the nil-header path (UnmarshalSAM(nil, ...), UnmarshalText): references are placeholders with id -1
		for f := 0; f <= 1; f++ {
			if r2 := c06NilHeaderOracle(c, hd, rr, refs, f); r2 != nil {
				_, st, _ := c06Marshal(r2, f)
				auxs2 := make([][]byte, len(r2.AuxFields))
				for i, a := range r2.AuxFields {
					auxs2[i] = a
				}
				x.model(st, "c06.fmt %d %s %s", f, c06FmtTable(auxs2), strings.Join(c06Dump(r2, false), " "))
			}
		}
		if rr.Ref >= 0 && rr.Mate >= 0 && rr.Ref != rr.Mate {
			c.res.hist("record.nilheader.mate-on-other-reference")
		}
		c.res.hist("record.expressible")
	} else {
		c.res.hist("record.not-expressible")
	}
	// the assumed laws of the float parameter, sampled on this record's floats
	for _, a := range auxs {
		if xa, ok := c06DecodeAux(a); ok {
			for _, b := range xa.floats {
				txt := fmt.Sprintf("%v", math.Float32frombits(b))
				v, err := strconv.ParseFloat(txt, 32)
				back := math.Float32bits(float32(v))
				nan := b&0x7f800000 == 0x7f800000 && b&0x7fffff != 0
				if err != nil || strings.ContainsAny(txt, "\t,\n") || (!nan && back != b) || (nan && !(back&0x7f800000 == 0x7f800000 && back&0x7fffff != 0)) {
					c.res.disagree("C06.floatlaw", fmt.Sprintf("%08x", b), txt, "parse(fmt b) = b, no TAB/comma")
				}
				c.res.hist("floatlaw.sampled")
				// the SAM grammar of a float value; NaN and the infinities have no SAM text at all (the grammar has
				// digits only), the library prints them as Go does (NaN, +Inf, -Inf) and reads them back
				if b&0x7f800000 == 0x7f800000 {
					c.res.hist("float.nonfinite.no-sam-text")
				} else if !c06FloatGrammar.MatchString(txt) {
					c.res.fail("c06.spec.float.grammar", fmt.Sprintf("float32 %08x prints as %q, not in [-+]?[0-9]*\\.?[0-9]+([eE][-+]?[0-9]+)?", b, txt),
						c06Input{Kind: "record", Header: hd, Rec: &rr})
				}
			}
		}
	}
}

func (x *c06Run) lineCase(hd []c06Ref, nilHeader bool, line []byte) {
	var h *sam.Header
	if !nilHeader {
		var err error
		h, _, err = c06MakeHeader(hd)
		if err != nil {
			return
		}
	}
	_, st, _, _ := c06Unmarshal(h, line)
	x.model(st, "c06.parse %s %s %s", c06HeaderTok(hd, nilHeader), c06LineParseTable(line), hexs(line))
	x.c.res.hist("line." + strings.SplitN(st, " ", 2)[0])
}

func (x *c06Run) auxCase(text []byte) {
	var a sam.Aux
	var err error
	o := guard(func() { a, err = sam.ParseAux(append([]byte(nil), text...)) })
	st := ""
	switch {
	case o.panicked:
		st = "panic"
	case err != nil:
		st = "err"
	default:
		st = "ok " + c06AuxItem(a, false)
	}
	x.model(st, "c06.aux %s %s", c06ParseTable([][]byte{text}), hexs(text))
	x.c.res.hist("auxtext." + strings.SplitN(st, " ", 2)[0])
}

func (x *c06Run) cigarCase(text []byte) {
	var cg sam.Cigar
	var err error
	o := guard(func() { cg, err = sam.ParseCigar(append([]byte(nil), text...)) })
	st := ""
	switch {
	case o.panicked:
		st = "panic"
	case err != nil:
		st = "err"
	default:
		st = "ok " + c06CigarTok(cg)
	}
	x.model(st, "c06.cigar %s", hexs(text))
	x.c.res.hist("cigartext." + strings.SplitN(st, " ", 2)[0])
}

func (x *c06Run) readerCase(in c06Input) {
	input := unhex(in.Text)
	out, hdrTok, got, o := c06RunReader(input, bytes.Count(input, []byte{'\n'})+3)
	if hdrTok == "" {
		hdrTok = "-"
	}
	var fields [][]byte
	for _, l := range bytes.Split(input, []byte{'\n'}) {
		if f := bytes.Split(bytes.TrimSuffix(l, []byte{'\r'}), []byte{'\t'}); len(f) > 11 {
			fields = append(fields, f[11:]...)
		}
	}
	x.model(out, "c06.read %s %s %s", hdrTok, c06ParseTable(fields), hexs(input))
	if in.Valid {
		c06ReaderOracle(x.c, in, out, got, o)
	}
}

func c06HeaderText(hd []c06Ref) []byte {
	var b bytes.Buffer
	b.WriteString("@HD\tVN:1.6\tSO:unknown\n")
	for _, r := range hd {
		fmt.Fprintf(&b, "@SQ\tSN:%s\tLN:%d\n", unhex(r.Name), r.Len)
	}
	return b.Bytes()
}

// c06GenReaderInput: header lines (or none) and the lines of expressible records with LF/CRLF ends.
func c06GenReaderInput(rnd *Rand, valid bool) c06Input {
	hd := c06GenHeader(rnd)
	in := c06Input{Kind: "reader", Header: hd, NoHeader: rnd.coin(1, 3), Valid: valid}
	_, refs, err := c06MakeHeader(hd)
	if err != nil {
		return in
	}
	var input []byte
	if !in.NoHeader {
		input = append(input, c06HeaderText(hd)...)
	}
	k := rnd.pick([]int{0, 1, 1, 2, 3, 6})
	style := rnd.intn(3) // LF, CRLF, mixed
	final := rnd.coin(1, 2)
	for i := 0; i < k; i++ {
		var line []byte
		for {
			rr := c06GenRecord(rnd, hd, false)
			if !c06Expressible(hd, rr) {
				continue
			}
			r := c06Build(refs, rr)
			l, st, _ := c06Marshal(r, 0)
			if st[:2] == "ok" && l[0] != '@' {
				line = l
				break
			}
		}
		if !valid && rnd.coin(1, 3) {
			line = c06PickLine(rnd, line)
		}
		in.Lines = append(in.Lines, hexs(line))
		input = append(input, line...)
		if i == k-1 && !final {
			break
		}
		if style == 1 || (style == 2 && rnd.coin(1, 2)) {
			input = append(input, '\r')
		}
		input = append(input, '\n')
	}
	if !valid && rnd.coin(1, 4) {
		input = append(input, c06PickS(rnd, []string{"\n", "\r\n", "\r", "\n\n", "x"})...)
	}
	if !valid && !in.NoHeader && rnd.coin(1, 6) && k == 0 {
		input = bytes.TrimSuffix(input, []byte{'\n'}) // header without final newline
	}
	in.Text = hexs(input)
	return in
}

// c06GenWriterInput: the bytes sam.Writer produces for a header and expressible records (flag format
// decimal or hexadecimal), to be read back by sam.Reader.
func c06GenWriterInput(rnd *Rand) (c06Input, bool) {
	hd := c06GenHeader(rnd)
	in := c06Input{Kind: "reader", Header: hd, Valid: true, FlagFmt: rnd.intn(2)}
	h, refs, err := c06MakeHeader(hd)
	if err != nil {
		return in, false
	}
	var buf bytes.Buffer
	ok := true
	o := guard(func() {
		w, err := sam.NewWriter(&buf, h, in.FlagFmt)
		if err != nil {
			ok = false
			return
		}
		k := rnd.pick([]int{1, 1, 2, 3, 6})
		for i := 0; i < k; {
			rr := c06GenRecord(rnd, hd, false)
			if !c06Expressible(hd, rr) {
				continue
			}
			r := c06Build(refs, rr)
			if err := w.Write(r); err != nil {
				ok = false
				return
			}
			l, _, _ := c06Marshal(r, 0)
			in.Lines = append(in.Lines, hexs(l))
			i++
		}
	})
	in.Text = hexs(buf.Bytes())
	return in, ok && !o.panicked
}

func c06PickLine(rnd *Rand, line []byte) []byte {
	switch rnd.intn(4) {
	case 0:
		return nil
	case 1:
		return c06Mutate(rnd, line)
	case 2:
		return append(line, '\r')
	}
	return []byte("\r")
}

// c06BlockSize: block_size of the BAM record of a description (SAMv1 section 4.2: 32 fixed bytes, name and NUL,
// CIGAR words, packed sequence, qualities, conformant aux block).
func c06BlockSize(rr c06Rec) int {
	n := len(rr.Seq)
	if rr.Seq == "-" {
		n = 0
	}
	size := 32 + len(unhex(rr.Name)) + 1 + 4*len(c16ParseCigar(rr.Cigar)) + (n+1)/2 + n
	fields, _ := c06ConformantAux(rr)
	for _, f := range fields {
		size += len(f)
	}
	return size
}

// c06TuneBlockSize pads a record with one Z aux so that its BAM block_size is exactly target (the Reader's
// internal buffer is 4096 bytes: 4095, 4096, 4097 and sizes above it take different paths).
func c06TuneBlockSize(rnd *Rand, rr c06Rec, target int) (c06Rec, bool) {
	size := c06BlockSize(rr)
	pad := target - size - 4 // tag, type, NUL
	if pad < 0 {
		return rr, false
	}
	z := make([]byte, pad)
	for i := range z {
		z[i] = byte(rnd.rng(33, 126))
	}
	out := rr
	out.Aux = append(append([]string(nil), rr.Aux...), hexs(append([]byte{'X', 'p', 'Z'}, z...)))
	return out, c06BlockSize(out) == target
}

func c06BamEncodable(rr c06Rec) bool {
	in32 := func(v int) bool { return v >= math.MinInt32 && v <= math.MaxInt32 }
	return in32(rr.Pos) && in32(rr.MatePos) && in32(rr.TLen) && len(c16ParseCigar(rr.Cigar)) < 65536
}

// the witnesses of the defects known on the unchanged tree (DESIGN section 6 #9, #11, #33, #34, #35), run first
func c06Corpus() (recs []c06Rec, readers []c06Input) {
	base := c06Rec{Name: hexs([]byte("r001")), Flags: 99, Ref: -1, Pos: -1, Mate: -1, MatePos: -1, Cigar: "-", Seq: "-", Qual: "nil"}
	for _, a := range [][]byte{{'X', 'B', 'Z'}, {'X', 'A', 'H'}, {'X', 'Y', 'B', 'c', 0, 0, 0, 0}, {'X', 'F', 'B', 'f', 0, 0, 0, 0}, {'X', 'H', 'H', 0x1a, 0xe3, 0x01}} {
		r := base
		r.Aux = []string{hexs(a)}
		recs = append(recs, r)
	}
	line := "r001\t99\t*\t0\t0\t*\t*\t0\t0\t*\t*"
	for _, t := range []string{line, line + "\n" + line, line + "\r\n" + line} {
		ls := []string{hexs([]byte(line))}
		if len(t) > len(line) {
			ls = append(ls, ls[0])
		}
		readers = append(readers, c06Input{Kind: "reader", NoHeader: true, Valid: true, Lines: ls, Text: hexs([]byte(t))})
	}
	return
}

func checkC06(c *ctx) {
	r := c.res
	r.Rule = "records: generated against a header of 0..4 references (valid RNAMEs), QNAME 1..254 printable bytes, flags/MAPQ/POS/PNEXT/TLEN boundary-biased " +
		"(0, 2^29, 2^31-2, int64 extremes), CIGAR built to be consistent with a sequence of 0..600 bases (clipping at the ends, lengths up to 2^28-1), " +
		"qualities nil / all 0xff / 0..93, 0..9 aux fields over all types A c C s S i I f Z H B[cCsSiIf] with type-boundary integers, special floats " +
		"(±0, ±Inf, NaNs, denormals, exponent-format boundaries), empty and non-empty strings, hex values and arrays; one record in six gets a mutation that may " +
		"leave the expressible class (TAB in name/Z, qualities > 93, op types 9..15, inconsistent CIGAR, ...): those are compared with the model only. " +
		"lines: assembled field by field from valid and boundary texts (hex/octal/binary/underscore integers, long CIGAR ops, = and * mates) with one in six mutated " +
		"(dropped field, truncation, byte edits); aux and CIGAR texts also go to ParseAux/ParseCigar directly. reader: inputs of 0..6 lines of expressible records, " +
		"LF/CRLF/mixed, with/without final newline, with header lines or without; a second stream adds empty, malformed and CR-only lines. " +
		"BAM: batches of expressible records with 32-bit fields written and read back (same lines), the aux block of each written record compared with an independent conformant encoder (SAMv1 4.2.4), and the memory form of every record compared with the model's toBam. Non-trivial: a record with a CIGAR, a sequence or an aux field / a line that parses / " +
		"a reader input with at least one line; distinct = distinct case text."
	x := &c06Run{c: c}
	if c.replay != "" {
		var in c06Input
		if err := loadReplay(c.replay, &in); err != nil {
			r.note("replay: %v", err)
			return
		}
		switch in.Kind {
		case "record":
			h, refs, err := c06MakeHeader(in.Header)
			if err == nil && in.Rec != nil {
				c06RecordOracle(c, in.Header, *in.Rec, h, refs, in.FlagFmt)
			}
		case "record-nilheader":
			_, refs, err := c06MakeHeader(in.Header)
			if err == nil && in.Rec != nil {
				c06NilHeaderOracle(c, in.Header, *in.Rec, refs, in.FlagFmt)
			}
		case "bam":
			c06BamOracle(c, in.Header, in.Recs)
		case "reader":
			input := unhex(in.Text)
			out, _, got, o := c06RunReader(input, bytes.Count(input, []byte{'\n'})+3)
			c06ReaderOracle(c, in, out, got, o)
		}
		r.eval("replay", true)
		return
	}
	x.d = c.drv()
	rnd := c.rnd

	// corpus first
	crecs, creaders := c06Corpus()
	for _, rr := range crecs {
		x.recordCase(nil, rr, true)
		r.eval("corpus:"+fmt.Sprint(rr), true)
		r.hist("corpus.record")
	}
	for _, in := range creaders {
		x.readerCase(in)
		r.eval("corpus:"+in.Text, true)
		r.hist("corpus.reader")
	}

	nRec, nLine, nAux, nCig, nReader, nBam := 2500, 5000, 4000, 1500, 700, 60
	if c.thorough() {
		nRec, nLine, nAux, nCig, nReader, nBam = 60000, 120000, 80000, 20000, 12000, 1500
	}
	var hd []c06Ref
	for i := 0; i < nRec; i++ {
		if i%8 == 0 {
			hd = c06GenHeader(rnd)
		}
		weird := rnd.coin(1, 6)
		rr := c06GenRecord(rnd, hd, weird)
		x.recordCase(hd, rr, true)
		r.eval("rec:"+fmt.Sprint(hd, rr), rr.Cigar != "-" || rr.Seq != "-" || len(rr.Aux) > 0)
		for _, a := range rr.Aux {
			if xa, ok := c06DecodeAux(unhex(a)); ok {
				k := "aux." + string(xa.typ)
				if xa.typ == 'B' {
					k += string(xa.sub)
					if len(xa.ints)+len(xa.floats) == 0 {
						k += ".empty"
					}
				} else if (xa.typ == 'Z' || xa.typ == 'H') && len(xa.data) == 0 {
					k += ".empty"
				}
				r.hist(k)
			}
		}
		if i < 3 {
			r.sample(c06Input{Kind: "record", Header: hd, Rec: &rr})
		}
	}
	// lines: the library's own lines of generated records (both flag formats, with and without header) ...
	for i := 0; i < nLine; i++ {
		if i%8 == 0 {
			hd = c06GenHeader(rnd)
		}
		var line []byte
		nilHeader := rnd.coin(1, 4)
		if i%3 == 0 {
			rr := c06GenRecord(rnd, hd, rnd.coin(1, 6))
			if _, refs, err := c06MakeHeader(hd); err == nil {
				line, _, _ = c06Marshal(c06Build(refs, rr), rnd.intn(2))
			}
			if rnd.coin(1, 8) {
				line = c06Mutate(rnd, line)
			}
		} else { // ... and lines assembled from boundary texts
			line = c06GenLine(rnd, hd)
		}
		x.lineCase(hd, nilHeader, line)
		r.eval("line:"+c06HeaderTok(hd, nilHeader)+string(line), len(bytes.Split(line, []byte{'\t'})) >= 11)
		if i < 2 {
			r.sample(c06Input{Kind: "line", Header: hd, NoHeader: nilHeader, Text: hexs(line)})
		}
	}
	for i := 0; i < nAux; i++ {
		t := c06GenAuxText(rnd, 2)
		x.auxCase([]byte(t))
		r.eval("aux:"+t, len(t) >= 5)
	}
	for i := 0; i < nCig; i++ {
		t := c06PickS(rnd, c06CigarTexts)
		if rnd.coin(2, 3) {
			n := rnd.rng(0, 5)
			t = ""
			for j := 0; j < n; j++ {
				t += strconv.Itoa(rnd.pick([]int{0, 1, 10, 1<<28 - 1, 1 << 28, 1<<29 - 2, 1<<29 - 1, 999999999999})) + c06PickS(rnd, []string{"M", "I", "D", "N", "S", "H", "P", "=", "X", "B", "?", "m", ""})
			}
			if rnd.coin(1, 2) {
				t = string(c06Mutate(rnd, []byte(t)))
			}
		}
		x.cigarCase([]byte(t))
		r.eval("cigar:"+t, t != "" && t != "*")
	}
	for i := 0; i < nReader; i++ {
		in := c06GenReaderInput(rnd, i%3 != 0)
		x.readerCase(in)
		r.eval("reader:"+in.Text, len(in.Lines) > 0)
		k := "reader.valid"
		if !in.Valid {
			k = "reader.withbadlines"
		}
		if in.NoHeader {
			k += ".noheader"
		}
		r.hist(k)
		if t := unhex(in.Text); len(t) > 0 && t[len(t)-1] != '\n' {
			r.hist("reader.nofinalnewline")
		}
		if i == 1 {
			r.sample(in)
		}
	}
	for i := 0; i < nReader/4; i++ {
		in, ok := c06GenWriterInput(rnd)
		if !ok {
			r.hist("writer.failed")
			continue
		}
		x.readerCase(in)
		r.eval("writer:"+in.Text, true)
		r.hist(fmt.Sprintf("writer.flagfmt%d", in.FlagFmt))
	}
	for i := 0; i < nBam; i++ {
		hd = c06GenHeader(rnd)
		var recs []c06Rec
		for len(recs) < rnd.rng(2, 8) {
			rr := c06GenRecord(rnd, hd, false)
			if c06Expressible(hd, rr) && c06BamEncodable(rr) {
				recs = append(recs, rr)
			}
		}
		// one record per batch (never the last one: later Reads follow it) gets a block_size at the edge of the
		// Reader's 4096-byte buffer, or well above it
		target := []int{4096, 4095, 4097, 4096, 8192, 4096, 70000}[i%7]
		k := rnd.intn(len(recs) - 1)
		if t, ok := c06TuneBlockSize(rnd, recs[k], target); ok && c06Expressible(hd, t) {
			recs[k] = t
			r.hist(fmt.Sprintf("bam.blocksize.%d", target))
		}
		c06BamOracle(c, hd, recs)
		r.eval("bam:"+fmt.Sprint(hd, recs), true)
		r.hist("bam.batch")
	}
	x.d.compare(r, "C06", x.impl)
}
