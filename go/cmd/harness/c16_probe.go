package main

// Queries of any extent (repairs C04-5, C04-6): empty, reversed, negative, beyond the indexable range.
//
// csi.reg2bins did not return for an empty query at the origin (uint32 loop bound 2^32-1, appending for
// ever); a call that may diverge cannot be made in-process (an abandoned goroutine eats the address
// space), so the degenerate CSI calls run in a child process (`harness C16-probe`, queries in the
// environment) with its own RLIMIT_AS and a deadline.  A query without an answer line "diverges".

import (
	"bufio"
	"bytes"
	"context"
	"fmt"
	"math"
	"os"
	"os/exec"
	"strconv"
	"strings"
	"syscall"
	"time"

	"github.com/biogo/hts/bam"
	"github.com/biogo/hts/csi"
)

type c16Query struct {
	Beg, End        int64
	MinShift, Depth uint32
}

// c16BaiQuery as MinShift marks a call of internal.OverlappingBinsFor in the probe
const c16BaiQuery = 999

func (q c16Query) key() string { return fmt.Sprintf("%d,%d,%d,%d", q.Beg, q.End, q.MinShift, q.Depth) }

func init() { checks["C16-probe"] = c16ProbeMain }

// c16ProbeMain is the child: answers `key=<bins>` per query, flushing after each.
func c16ProbeMain(c *ctx) {
	lim := syscall.Rlimit{Cur: 3 << 29, Max: 3 << 29}
	_ = syscall.Setrlimit(syscall.RLIMIT_AS, &lim)
	w := bufio.NewWriter(os.Stdout)
	for _, f := range strings.Fields(os.Getenv("VERIF_C16_PROBE")) {
		p := strings.Split(f, ",")
		if len(p) != 4 {
			continue
		}
		b, _ := strconv.ParseInt(p[0], 10, 64)
		e, _ := strconv.ParseInt(p[1], 10, 64)
		ms, _ := strconv.ParseUint(p[2], 10, 32)
		d, _ := strconv.ParseUint(p[3], 10, 32)
		var bins []uint32
		o := guard(func() {
			if ms == c16BaiQuery {
				bins = bam.VerifOverlappingBinsFor(int(b), int(e))
			} else {
				bins = csi.VerifReg2bins(b, e, uint32(ms), uint32(d))
			}
		})
		if o.panicked {
			fmt.Fprintf(w, "%s=panic\n", f)
		} else {
			fmt.Fprintf(w, "%s=%s\n", f, c16ShowBins(bins))
		}
		w.Flush()
	}
	os.Exit(0)
}

// c16ProbeRun starts one child for the queries and returns its answer lines in order.
func c16ProbeRun(keys []string, deadline time.Duration) [][2]string {
	cx, cancel := context.WithTimeout(context.Background(), deadline)
	defer cancel()
	cmd := exec.CommandContext(cx, os.Args[0], "C16-probe")
	cmd.Env = append(os.Environ(), "VERIF_C16_PROBE="+strings.Join(keys, " "), "GOMEMLIMIT=off")
	var out bytes.Buffer
	cmd.Stdout = &out
	_ = cmd.Run()
	var lines [][2]string
	for _, l := range strings.Split(out.String(), "\n") {
		if i := strings.IndexByte(l, '='); i > 0 {
			lines = append(lines, [2]string{l[:i], l[i+1:]})
		}
	}
	return lines
}

// c16Probe runs the queries in child processes; the answer of a query the child did not survive is "diverges".
// A diverging call of the functions probed here allocates without end, so the child dies of its address-space
// limit within seconds; the deadlines are generous (a loaded machine must not turn a slow child into a verdict),
// and a query is only called diverging when a second child, given that query alone, does not answer it either.
func c16Probe(qs []c16Query) map[string]string {
	ans := map[string]string{}
	rest := qs
	ndiv := 0
	for len(rest) > 0 {
		var keys []string
		for _, q := range rest {
			keys = append(keys, q.key())
		}
		lines := c16ProbeRun(keys, 90*time.Second)
		for _, l := range lines {
			ans[l[0]] = l[1]
		}
		n := len(lines)
		if n >= len(rest) {
			break
		}
		bad := rest[n]
		rest = rest[n+1:]
		if again := c16ProbeRun([]string{bad.key()}, 60*time.Second); len(again) == 1 {
			ans[bad.key()] = again[0][1] // the first child died of something else
			continue
		}
		ans[bad.key()] = "diverges"
		if ndiv++; ndiv >= 6 {
			// enough evidence; every further diverging call costs up to the deadline
			for _, q := range rest {
				ans[q.key()] = "skipped"
			}
			break
		}
	}
	return ans
}

// c16AnyQueries: the bin lists of queries of any extent against the model (which has Go's loop
// semantics: `diverges`), and the property oracle: a query that overlaps an in-range interval lists
// that interval's bin, an empty or reversed query lists nothing (CSI), every call returns.
func c16AnyQueries(c *ctx, d *Driver, impl *[]string) {
	r := c.res
	rnd := c.rnd
	type geo struct{ ms, d uint32 }
	geos := []geo{{14, 5}, {0, 1}, {1, 1}, {2, 3}, {14, 6}, {10, 10}, {32, 10}, {0, 0}}
	huge := []int64{math.MaxInt64, math.MaxInt64 - 1, 1 << 62, 1 << 46, 1<<46 + 4681<<14, 1 << 40, 1<<32 + 5, 1 << 31, 1<<29 + 1, 1<<29 + 2}
	var qs []c16Query
	for _, g := range geos {
		s := uint(g.ms + 3*g.d)
		lim := int64(1) << s
		cand := [][2]int64{{0, 0}, {-1, 0}, {-5, 0}, {5, 5}, {7, 3}, {-3, 2}, {-1, 1}, {math.MinInt64, 0}, {math.MinInt64, 1},
			{lim - 1, lim}, {lim, lim + 1}, {lim - 1, lim + 1}, {0, lim + 1}, {lim + 5, lim + 9}, {-9, -4}, {0, -1}}
		for _, h := range huge {
			cand = append(cand, [2]int64{0, h}, [2]int64{lim - 1, h}, [2]int64{int64(rnd.intn(int(minI64(lim, 1<<30)))), h})
		}
		for _, p := range cand {
			e := p[1]
			if w := minI64(e, lim) - maxI64(p[0], 0); w > 0 && w>>g.ms > 40000 {
				// keep the finest level of the list below 40000 bins (the whole range of (14,5) has 32768)
				p[0] = minI64(e, lim) - 4096<<g.ms
			}
			qs = append(qs, c16Query{p[0], e, g.ms, g.d})
		}
	}
	ans := c16Probe(qs)
	for _, q := range qs {
		a := ans[q.key()]
		if a == "skipped" {
			r.hist("anyquery.skipped-after-6-diverging")
			continue
		}
		d.add("c16.reg2bins %d %d %d %d", q.Beg, q.End, q.MinShift, q.Depth)
		*impl = append(*impl, a)
		r.eval("anyq:"+q.key(), true)
		r.hist("anyquery.csi")
		c16JudgeCsiAny(r, q, a)
	}
	// BAI: OverlappingBinsFor returns for every query; a huge end must not lose the finer levels (in the child
	// as well: before repair C04-5 an end between 2^32 and 2^46 listed hundreds of millions of bins)
	var bq []c16Query
	for _, h := range append(huge, 1<<29, 1<<29-1) {
		for _, b := range []int{0, 100, 1 << 20, 1<<29 - 1, rnd.intn(1 << 29)} {
			if int64(b) >= h {
				continue
			}
			bq = append(bq, c16Query{int64(b), h, c16BaiQuery, 0})
		}
	}
	bans := c16Probe(bq)
	for _, q := range bq {
		a := bans[q.key()]
		if a == "skipped" {
			r.hist("anyquery.skipped-after-6-diverging")
			continue
		}
		d.add("c16.bins %d %d", q.Beg, q.End)
		*impl = append(*impl, a)
		r.eval("anyq:bai:"+q.key(), true)
		r.hist("anyquery.bai")
		in := c16Input{Kind: "baianyquery", B2: q.Beg, E2: q.End}
		if a == "diverges" || a == "" || a == "panic" {
			r.fail("c16.bai.anyquery."+map[bool]string{true: "panic", false: "diverges"}[a == "panic"],
				fmt.Sprintf("OverlappingBinsFor(%d,%d) does not return within the deadline and memory limit of the child process (or panics: %q)", q.Beg, q.End, a), in)
			continue
		}
		// specification: the bins of the query cut to [0, 2^29)
		spec := c16SpecReg2bins(q.Beg, minI64(q.End, 1<<29), 14, 5)
		keys := make([]uint32, 0, len(spec))
		for b := range spec {
			keys = append(keys, b)
		}
		sortU32(keys)
		if want := c16ShowBins(keys); a != want {
			r.fail("c16.bai.anyquery.spec", fmt.Sprintf("OverlappingBinsFor(%d,%d) = %.80s, specification for the query cut to the range %.80s", q.Beg, q.End, a, want), in)
		}
	}
}

// c16JudgeCsiAny is the oracle for one CSI query of any extent with the probe's answer a.
func c16JudgeCsiAny(r *Result, q c16Query, a string) {
	in := c16Input{Kind: "csianyquery", B2: q.Beg, E2: q.End, MinShift: q.MinShift, Depth: q.Depth}
	switch {
	case a == "diverges" || a == "":
		r.fail("c16.csi.reg2bins.diverges", fmt.Sprintf("csi reg2bins(%d,%d,%d,%d) does not return (child process killed at its deadline or memory limit)", q.Beg, q.End, q.MinShift, q.Depth), in)
		return
	case a == "panic":
		r.fail("c16.csi.reg2bins.panic", fmt.Sprintf("csi reg2bins(%d,%d,%d,%d) panics", q.Beg, q.End, q.MinShift, q.Depth), in)
		return
	}
	if q.End <= q.Beg || q.End <= 0 {
		if a != "-" && a != "" && a != "[]" && a != c16ShowBins(nil) {
			r.fail("c16.csi.reg2bins.empty-query-lists-bins", fmt.Sprintf("csi reg2bins(%d,%d,%d,%d) of an empty query = %s", q.Beg, q.End, q.MinShift, q.Depth, a), in)
		}
		return
	}
	// specification: the bins of the query cut to [0, 2^s)
	s := uint(q.MinShift + 3*q.Depth)
	cb, ce := maxI64(q.Beg, 0), minI64(q.End, int64(1)<<s)
	if cb >= ce {
		if a != c16ShowBins(nil) {
			r.fail("c16.csi.reg2bins.beyond-range-lists-bins", fmt.Sprintf("csi reg2bins(%d,%d,%d,%d) of a query beyond the range = %.60s", q.Beg, q.End, q.MinShift, q.Depth, a), in)
		}
		return
	}
	spec := c16SpecReg2bins(cb, ce, q.MinShift, q.Depth)
	keys := make([]uint32, 0, len(spec))
	for b := range spec {
		keys = append(keys, b)
	}
	sortU32(keys)
	if want := c16ShowBins(keys); a != want {
		r.fail("c16.csi.reg2bins.anyquery.spec", fmt.Sprintf("csi reg2bins(%d,%d,%d,%d) = %.80s, specification for the query cut to the range %.80s", q.Beg, q.End, q.MinShift, q.Depth, a, want), in)
	}
}

func sortU32(a []uint32) {
	for i := 1; i < len(a); i++ {
		for j := i; j > 0 && a[j-1] > a[j]; j-- {
			a[j-1], a[j] = a[j], a[j-1]
		}
	}
}
