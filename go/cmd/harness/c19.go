package main

// C19 — FAI index and File return exactly the requested subsequence.
//
// Inputs are *structured* FASTA files (records with name, optional description, bases, line width,
// line terminator, final-newline flag and blank lines after the record).  The generator renders them to
// bytes itself and knows, from its own rendering, where every base is; that knowledge (and plain slices of
// the generator's base strings) is the oracle.  The Lean model never takes part in a `fail`.
//
// Correspondence streams (implementation vs Lean model on the same operation):
//   c19.render   Lean Spec rendering of the structured file      vs  the generator's bytes
//   c19.true     Lean Spec "true" index records                   vs  the generator's bookkeeping
//   c19.index    Model newIndex on the bytes                      vs  fai.NewIndex (records or error class)
//   c19.write    Model writeTo on the implementation's index      vs  fai.WriteTo bytes
//   c19.readfrom Model readFrom on those bytes                    vs  fai.ReadFrom (records or error class)
//   c19.pos      Model Position                                   vs  Record.Position (incl. panics)
//   c19.reads    Model Seq/SeqRange + Read loop                   vs  File.Seq/SeqRange + Read calls
// plus malformed FASTA bytes (c19.index) and malformed .fai text (c19.readfrom) on error class.

import (
	"bufio"
	"bytes"
	"encoding/csv"
	"encoding/hex"
	"errors"
	"fmt"
	"io"
	"reflect"
	"sort"
	"strings"
	"time"

	"github.com/biogo/hts/fai"
)

func init() { checks["C19"] = checkC19 }

type c19Rec struct {
	Name   string   `json:"name"`
	Desc   *string  `json:"desc,omitempty"` // separator (space or tab) followed by the text
	Bases  string   `json:"bases"`
	Width  int      `json:"width"`
	CRLF   bool     `json:"crlf"`
	Fin    bool     `json:"final_newline"`
	Blanks []string `json:"blanks,omitempty"` // whitespace content of each blank line after the record (LF is added)
	// Gap makes the file MALFORMED: a blank line is inserted after line Gap of the record (0 = the header line)
	// when a sequence line follows. Such files are only used by c19GapFile (NewIndex must reject them).
	Gap *int `json:"gap_after_line,omitempty"`
}

type c19File struct {
	Leading []string `json:"leading_blanks,omitempty"` // whitespace content of blank lines before the first record
	Recs    []c19Rec `json:"recs"`
}

type c19Input struct {
	Kind  string   `json:"kind"` // file | fasta-bytes | fai-text
	File  *c19File `json:"file,omitempty"`
	Raw   string   `json:"raw,omitempty"` // hex, for the malformed streams
	Rec   int      `json:"rec"`
	Start int      `json:"start"`
	End   int      `json:"end"`
	Whole bool     `json:"whole"`
	Sizes []int    `json:"sizes,omitempty"`
	Eager bool     `json:"eager_eof_readerat,omitempty"` // read over the ReaderAt that reports io.EOF with the last bytes
}

// truth is what the generator knows about one record from having rendered it.
type c19Truth struct {
	name                       string
	length                     int
	start                      int64
	basesPerLine, bytesPerLine int
}

func (r c19Rec) eol() string {
	if r.CRLF {
		return "\r\n"
	}
	return "\n"
}

// render writes the file and records, for each record, where its first base is and how its first line looks.
func (f c19File) render() ([]byte, []c19Truth) {
	var out bytes.Buffer
	var tr []c19Truth
	for _, b := range f.Leading {
		out.WriteString(b)
		out.WriteByte('\n')
	}
	for _, r := range f.Recs {
		var lines []string
		h := ">" + r.Name
		if r.Desc != nil {
			h += *r.Desc
		}
		lines = append(lines, h)
		for i := 0; i < len(r.Bases); i += r.Width {
			j := i + r.Width
			if j > len(r.Bases) {
				j = len(r.Bases)
			}
			lines = append(lines, r.Bases[i:j])
		}
		t := c19Truth{name: r.Name, length: len(r.Bases)}
		for i, l := range lines {
			if i == 1 {
				t.start = int64(out.Len())
				t.basesPerLine = len(l)
			}
			out.WriteString(l)
			if i < len(lines)-1 || r.Fin {
				out.WriteString(r.eol())
			}
			if i == 1 {
				t.bytesPerLine = out.Len() - int(t.start)
			}
			if r.Gap != nil && *r.Gap == i && i < len(lines)-1 {
				out.WriteString(r.eol())
			}
		}
		if len(lines) == 1 {
			t.start = int64(out.Len())
		}
		for _, b := range r.Blanks {
			out.WriteString(b)
			out.WriteByte('\n')
		}
		tr = append(tr, t)
	}
	return out.Bytes(), tr
}

func c19Hex(s string) string { return hexs([]byte(s)) }

// encode is the driver's one-token form of a structured file.
func (f c19File) encode() string {
	var rs []string
	for _, r := range f.Recs {
		desc := "n"
		if r.Desc != nil {
			desc = c19Hex(*r.Desc)
		}
		bl := "n"
		if len(r.Blanks) > 0 {
			var bs []string
			for _, b := range r.Blanks {
				bs = append(bs, c19Hex(b))
			}
			bl = strings.Join(bs, ".")
		}
		eol, fin := "L", "0"
		if r.CRLF {
			eol = "C"
		}
		if r.Fin {
			fin = "1"
		}
		rs = append(rs, strings.Join([]string{c19Hex(r.Name), desc, c19Hex(r.Bases), fmt.Sprint(r.Width), eol, fin, bl}, ","))
	}
	lead := "n"
	if len(f.Leading) > 0 {
		var bs []string
		for _, b := range f.Leading {
			bs = append(bs, c19Hex(b))
		}
		lead = strings.Join(bs, ".")
	}
	return lead + "/" + strings.Join(rs, ";")
}

func c19RecStr(name string, length int, start int64, bpl, bytesPl int) string {
	return fmt.Sprintf("%s:%d:%d:%d:%d", c19Hex(name), length, start, bpl, bytesPl)
}

func c19IndexStr(idx fai.Index, byName bool) string {
	recs := make([]fai.Record, 0, len(idx))
	for _, r := range idx {
		recs = append(recs, r)
	}
	sort.Slice(recs, func(i, j int) bool {
		if !byName && recs[i].Start != recs[j].Start {
			return recs[i].Start < recs[j].Start
		}
		return recs[i].Name < recs[j].Name
	})
	if len(recs) == 0 {
		return "ok -"
	}
	var ss []string
	for _, r := range recs {
		ss = append(ss, c19RecStr(r.Name, r.Length, r.Start, r.BasesPerLine, r.BytesPerLine))
	}
	return "ok " + strings.Join(ss, "|")
}

func c19NewIndexClass(err error) string {
	switch {
	case err == nil:
		return "ok"
	case errors.Is(err, bufio.ErrTooLong):
		return "err:toolong"
	case strings.Contains(err.Error(), "missing sequence name"):
		return "err:noname"
	case strings.Contains(err.Error(), "duplicate sequence identifier"):
		return "err:dup"
	case strings.Contains(err.Error(), "unexpected short line"):
		return "err:short"
	case strings.Contains(err.Error(), "unexpected long line"):
		return "err:long"
	}
	return "err:other"
}

// ---------------------------------------------------------------------------------------------------------
// running the implementation

type c19Read struct {
	data    []byte
	counts  []int
	errs    []string // per call: "" nil, "e" io.EOF, "x" other
	outcome string   // "", "panic", "hang", "err" (Seq/SeqRange refused)
	frame   string
	errText string // text of the non-EOF error that ended the run, if any
	again   []byte // everything read after Reset (one big buffer per call)
	againOK bool   // the second pass ended with io.EOF
}

func (r c19Read) String() string {
	if r.outcome != "" {
		return r.outcome
	}
	var cs []string
	for i, n := range r.counts {
		cs = append(cs, fmt.Sprintf("%d%s", n, r.errs[i]))
	}
	return hexs(r.data) + "|" + strings.Join(cs, ".")
}

// c19EagerReaderAt uses the one freedom the io.ReaderAt contract leaves for a read that ends exactly at the end
// of the input: "ReadAt may return either err == EOF or err == nil". bytes.Reader and os.File return nil there;
// this wrapper returns io.EOF together with the (complete) last bytes. Every other behaviour is that of
// bytes.Reader (n < len(p) only with io.EOF; no short reads with a nil error: the contract forbids them).
type c19EagerReaderAt struct{ data []byte }

func (r c19EagerReaderAt) ReadAt(p []byte, off int64) (int, error) {
	if off < 0 {
		return 0, errors.New("negative offset")
	}
	if off >= int64(len(r.data)) {
		return 0, io.EOF
	}
	n := copy(p, r.data[off:])
	if n < len(p) || off+int64(n) == int64(len(r.data)) {
		return n, io.EOF
	}
	return n, nil
}

// c19DoRead opens the range and calls Read with the buffer sizes taken cyclically from sizes until an
// error is returned (io.EOF normally).
func c19DoRead(data []byte, idx fai.Index, name string, whole bool, start, end int, sizes []int, eager bool) c19Read {
	var res c19Read
	limit := end - start + 8
	if whole {
		limit = idx[name].Length + 8
	}
	if limit < 8 {
		limit = 8
	}
	o := guardTimeout(20*time.Second, func() {
		var local c19Read
		defer func() { res = local }()
		var ra io.ReaderAt = bytes.NewReader(data)
		if eager {
			ra = c19EagerReaderAt{data}
		}
		f := fai.NewFile(ra, idx)
		var s *fai.Seq
		var err error
		if whole {
			s, err = f.Seq(name)
		} else {
			s, err = f.SeqRange(name, start, end)
		}
		if err != nil {
			local.outcome = "err"
			return
		}
		for i := 0; i < limit; i++ {
			buf := make([]byte, sizes[i%len(sizes)])
			n, err := s.Read(buf)
			local.data = append(local.data, buf[:n]...)
			local.counts = append(local.counts, n)
			switch err {
			case nil:
				local.errs = append(local.errs, "")
			case io.EOF:
				local.errs = append(local.errs, "e")
				// Reset and read the segment again
				s.Reset()
				big := make([]byte, 1<<16)
				for j := 0; j < limit; j++ {
					n, err := s.Read(big)
					local.again = append(local.again, big[:n]...)
					if err == io.EOF {
						local.againOK = true
						break
					}
					if err != nil {
						break
					}
				}
				return
			default:
				local.errs = append(local.errs, "x")
				local.errText = err.Error()
				return
			}
		}
		local.outcome = "hang" // more calls than bases without an end of stream
	})
	if o.timedOut {
		return c19Read{outcome: "hang"}
	}
	if o.panicked {
		return c19Read{outcome: "panic", frame: topRepoFrame(o.stack)}
	}
	return res
}

func c19Ranges(ranges [][3]int) string {
	var ss []string
	for _, r := range ranges {
		if r[2] == 1 {
			ss = append(ss, "w")
		} else {
			ss = append(ss, fmt.Sprintf("%d:%d", r[0], r[1]))
		}
	}
	return strings.Join(ss, ",")
}

func c19Sizes(sizes []int) string {
	var ss []string
	for _, s := range sizes {
		ss = append(ss, fmt.Sprint(s))
	}
	return strings.Join(ss, ",")
}

// ---------------------------------------------------------------------------------------------------------
// one structured file: oracle + correspondence lines

type c19Opts struct {
	allRanges  bool
	nRandom    int
	sizeLists  [][]int
	noPosModel bool
}

// class of a record for signatures / histogram: features that the offset arithmetic depends on
func c19RecClass(f c19File, i int) string {
	r := f.Recs[i]
	var cls []string
	blankBefore := len(f.Leading) > 0
	for j := 0; j < i; j++ {
		if len(f.Recs[j].Blanks) > 0 {
			blankBefore = true
		}
	}
	if blankBefore {
		cls = append(cls, "after-blank")
	}
	if len(r.Bases) == 0 {
		cls = append(cls, "empty")
	}
	return strings.Join(cls, ".")
}

func c19File1(c *ctx, f c19File, opt c19Opts, d *Driver, impl *[]string) {
	r := c.res
	data, truth := f.render()
	in := func() c19Input { return c19Input{Kind: "file", File: &f} }
	add := func(implLine string, format string, a ...interface{}) {
		if d != nil {
			d.add(format, a...)
			*impl = append(*impl, implLine)
		}
	}
	enc := f.encode()
	add(hexs(data), "c19.render %s", enc)
	{
		var ss []string
		for _, t := range truth {
			ss = append(ss, c19RecStr(t.name, t.length, t.start, t.basesPerLine, t.bytesPerLine))
		}
		add("ok "+strings.Join(ss, "|"), "c19.true %s", enc)
	}

	// --- NewIndex
	var idx fai.Index
	var err error
	o := guard(func() { idx, err = fai.NewIndex(bytes.NewReader(data)) })
	if o.panicked {
		r.fail("fai.newindex.panic:"+topRepoFrame(o.stack), o.panicVal, in())
		return
	}
	if err != nil {
		add(c19NewIndexClass(err), "c19.index %s", hexs(data))
		sig := "fai.newindex." + strings.TrimPrefix(c19NewIndexClass(err), "err:")
		r.fail(sig, fmt.Sprintf("NewIndex rejects a well-formed file: %v", err), in())
		return
	}
	add(c19IndexStr(idx, false), "c19.index %s", hexs(data))
	// the index must not depend on how the source delivers its bytes (io.Reader contract: any chunking, and
	// the last bytes may come together with io.EOF, as gzip/flate readers and iotest.DataErrReader do)
	for _, pat := range []string{"data-with-eof", "one-byte", "chunks-with-eof", "chunks"} {
		var idx2 fai.Index
		var err2 error
		src := &c19ChunkReader{data: data, pat: pat, rnd: newRand(int64(len(data))*31 + int64(len(pat)))}
		o2 := guard(func() { idx2, err2 = fai.NewIndex(src) })
		r.hist("newindex.source." + pat)
		switch {
		case o2.panicked:
			r.fail("fai.newindex.source-dependent."+pat+".panic", "NewIndex panics on a source delivering "+pat+": "+o2.panicVal, in())
		case err2 != nil:
			r.fail("fai.newindex.source-dependent."+pat+".error", fmt.Sprintf("NewIndex accepts the file from a bytes.Reader and rejects it from a source delivering %s: %v", pat, err2), in())
		case c19IndexStr(idx2, false) != c19IndexStr(idx, false):
			r.fail("fai.newindex.source-dependent."+pat, fmt.Sprintf("NewIndex over a source delivering %s gives %s, over a bytes.Reader %s", pat, c19IndexStr(idx2, false), c19IndexStr(idx, false)), in())
		}
	}
	if len(idx) != len(truth) {
		r.fail("fai.index.count", fmt.Sprintf("%d records indexed, file has %d", len(idx), len(truth)), in())
	}
	usable := make([]bool, len(truth))
	for i, t := range truth {
		rec, ok := idx[t.name]
		cls := c19RecClass(f, i)
		if cls != "" {
			cls = "." + cls
		}
		if !ok {
			r.fail("fai.index.missing", "record "+t.name+" not indexed", in())
			continue
		}
		good := true
		if rec.Name != t.name {
			r.fail("fai.index.name", fmt.Sprintf("record %q stored with Name %q", t.name, rec.Name), in())
			good = false
		}
		if rec.Length != t.length {
			r.fail("fai.index.length"+cls, fmt.Sprintf("%s: Length %d, true %d", t.name, rec.Length, t.length), in())
			good = false
		}
		if rec.Start != t.start {
			r.fail("fai.index.start"+cls, fmt.Sprintf("%s: Start %d, true offset of the first base %d", t.name, rec.Start, t.start), in())
			good = false
		}
		if rec.BasesPerLine != t.basesPerLine || rec.BytesPerLine != t.bytesPerLine {
			r.fail("fai.index.layout"+cls, fmt.Sprintf("%s: BasesPerLine/BytesPerLine %d/%d, first line has %d/%d", t.name,
				rec.BasesPerLine, rec.BytesPerLine, t.basesPerLine, t.bytesPerLine), in())
			good = false
		}
		usable[i] = good
		// position: the byte at Position(p) is base p (all p for short records, a sample otherwise)
		if good {
			bases := f.Recs[i].Bases
			var ps []int
			if len(bases) <= 64 {
				for p := 0; p < len(bases); p++ {
					ps = append(ps, p)
				}
			} else {
				ps = append(ps, 0, 1, len(bases)-1, len(bases)-2, rec.BasesPerLine-1, rec.BasesPerLine, rec.BasesPerLine+1)
				for k := 0; k < 12; k++ {
					ps = append(ps, c.rnd.intn(len(bases)))
				}
			}
			var pstr, pimpl []string
			for _, p := range ps {
				var off int64
				po := guard(func() { off = rec.Position(p) })
				if po.panicked {
					r.fail("fai.position.panic", fmt.Sprintf("%s: Position(%d) panics: %s", t.name, p, po.panicVal), in())
					pimpl = append(pimpl, "panic")
				} else {
					pimpl = append(pimpl, fmt.Sprint(off))
					if off < 0 || off >= int64(len(data)) || data[off] != bases[p] {
						r.fail("fai.position.byte"+cls, fmt.Sprintf("%s: byte at Position(%d)=%d is not base %d", t.name, p, off, p), in())
					}
				}
				pstr = append(pstr, fmt.Sprint(p))
			}
			// out-of-range positions must panic (documented)
			for _, p := range []int{-1, len(bases), len(bases) + 1} {
				po := guard(func() { rec.Position(p) })
				if po.panicked {
					pimpl = append(pimpl, "panic")
				} else {
					pimpl = append(pimpl, "nopanic")
				}
				pstr = append(pstr, fmt.Sprint(p))
			}
			if !opt.noPosModel {
				add(strings.Join(pimpl, ","), "c19.pos %s %s", c19RecStr(rec.Name, rec.Length, rec.Start, rec.BasesPerLine, rec.BytesPerLine), strings.Join(pstr, ","))
			}
		}
	}

	// --- WriteTo / ReadFrom round trip
	var wbuf bytes.Buffer
	var werr error
	o = guard(func() { werr = fai.WriteTo(&wbuf, idx) })
	if o.panicked || werr != nil {
		r.fail("fai.writeto.error", fmt.Sprintf("WriteTo: panic=%v err=%v", o.panicked, werr), in())
	} else {
		add(hexs(wbuf.Bytes()), "c19.write %s", strings.TrimPrefix(c19IndexStr(idx, false), "ok "))
		var back fai.Index
		var rerr error
		o = guard(func() { back, rerr = fai.ReadFrom(bytes.NewReader(wbuf.Bytes())) })
		switch {
		case o.panicked:
			r.fail("fai.roundtrip.panic", o.panicVal, in())
		case rerr != nil:
			// The recorded finding is exactly: a name contains a double quote, encoding/csv reports a quoting
			// error (bare quote, unterminated quoted field, or the field count a swallowed line produces), and the
			// SAME index with the quotes replaced by 'q' survives the round trip. Anything else keeps the
			// unlisted signature fai.roundtrip.error.
			sig := "fai.roundtrip.error"
			if c19QuoteFinding(idx, rerr) {
				sig += ".quote-in-name"
			}
			r.fail(sig, fmt.Sprintf("ReadFrom(WriteTo(idx)): %v", rerr), in())
		case !reflect.DeepEqual(back, idx):
			r.fail("fai.roundtrip.differs", fmt.Sprintf("ReadFrom(WriteTo(idx)) = %v, idx = %v", back, idx), in())
		}
		if !o.panicked && !c19HasQuotedField(wbuf.Bytes()) {
			add(c19ReadFromStr(back, rerr), "c19.readfrom %s", hexs(wbuf.Bytes()))
		}
	}

	// --- range reads
	for i, t := range truth {
		if !usable[i] {
			continue
		}
		bases := f.Recs[i].Bases
		rec := idx[t.name]
		cls := c19RecClass(f, i)
		if cls != "" {
			cls = "." + cls
		}
		var ranges [][3]int
		ranges = append(ranges, [3]int{0, len(bases), 1})
		if opt.allRanges {
			for s := 0; s <= len(bases); s++ {
				for e := s; e <= len(bases); e++ {
					ranges = append(ranges, [3]int{s, e, 0})
				}
			}
		} else {
			w := rec.BasesPerLine
			if w == 0 {
				w = 1
			}
			L := len(bases)
			cand := []int{0, 1, w - 1, w, w + 1, 2*w - 1, 2 * w, 2*w + 1, L - w - 1, L - w, L - 1, L, L / w * w, L/w*w - 1}
			ranges = append(ranges, [3]int{0, L, 0}, [3]int{0, 0, 0}, [3]int{L, L, 0})
			for k := 0; k < opt.nRandom; k++ {
				var s, e int
				if c.rnd.coin(1, 2) {
					s, e = cand[c.rnd.intn(len(cand))], cand[c.rnd.intn(len(cand))]
				} else {
					s, e = c.rnd.intn(L+1), c.rnd.intn(L+1)
				}
				if s < 0 || e < 0 || s > L || e > L {
					continue
				}
				if s > e {
					s, e = e, s
				}
				ranges = append(ranges, [3]int{s, e, 0})
			}
		}
		for _, sizes := range opt.sizeLists {
			// every read twice: over bytes.Reader, and over a ReaderAt that reports io.EOF together with a complete
			// read ending at the end of the file (the only freedom the io.ReaderAt contract leaves)
			for _, eager := range []bool{false, true} {
				var implRes []string
				rcls, cmd, key := cls, "c19.reads", ""
				if eager {
					rcls, cmd, key = cls+".eager-eof-readerat", "c19.readsE", "/eager"
				}
				for _, rg := range ranges {
					s, e, whole := rg[0], rg[1], rg[2] == 1
					want := bases[s:e]
					got := c19DoRead(data, idx, t.name, whole, s, e, sizes, eager)
					implRes = append(implRes, got.String())
					ri := c19Input{Kind: "file", File: &f, Rec: i, Start: s, End: e, Whole: whole, Sizes: sizes, Eager: eager}
					nt := e > s
					r.eval(fmt.Sprintf("%s/%d/%d:%d/%v%s", enc, i, s, e, sizes, key), nt)
					c19JudgeRead(r, got, want, rcls, ri)
					if eager && e == len(bases) && e > s && i == len(truth)-1 && !f.Recs[i].Fin {
						r.hist("read.eager-readerat.range-ends-at-unterminated-end-of-file")
					}
				}
				add(strings.Join(implRes, ";"), cmd+" %s %s %s %s", hexs(data),
					c19RecStr(rec.Name, rec.Length, rec.Start, rec.BasesPerLine, rec.BytesPerLine), c19Sizes(sizes), c19Ranges(ranges))
			}
		}
		// refused ranges (error class only)
		bad := [][3]int{{-1, 0, 0}, {0, -1, 0}, {1, 0, 0}, {0, len(bases) + 1, 0}, {len(bases) + 1, len(bases) + 1, 0}}
		var implRes []string
		for _, rg := range bad {
			got := c19DoRead(data, idx, t.name, false, rg[0], rg[1], []int{4}, false)
			implRes = append(implRes, got.String())
			if got.outcome != "err" {
				r.fail("fai.seqrange.accepts-bad-range", fmt.Sprintf("SeqRange(%s,%d,%d) accepted with length %d", t.name, rg[0], rg[1], len(bases)), in())
			}
		}
		add(strings.Join(implRes, ";"), "c19.reads %s %s %s %s", hexs(data),
			c19RecStr(rec.Name, rec.Length, rec.Start, rec.BasesPerLine, rec.BytesPerLine), "4", c19Ranges(bad))
	}
}

// c19GapFile: a file that is well formed except for one blank line inside a record (between the header and
// the sequence, or between two sequence lines). An FAI record cannot describe it, so NewIndex must reject it;
// accepting it and handing out wrong bases is the failure (judged with the generator's own bases).
func c19GapFile(c *ctx, f c19File, d *Driver, impl *[]string) {
	r := c.res
	data, _ := f.render()
	in := c19Input{Kind: "gap-file", File: &f}
	var idx fai.Index
	var err error
	o := guard(func() { idx, err = fai.NewIndex(bytes.NewReader(data)) })
	if o.panicked {
		r.fail("fai.newindex.panic:"+topRepoFrame(o.stack), o.panicVal, in)
		return
	}
	r.eval("gap:"+hexs(data), true)
	r.hist("gap-file." + c19NewIndexClass(err))
	line := c19NewIndexClass(err)
	if err == nil {
		line = c19IndexStr(idx, false)
		for i, rec := range f.Recs {
			if rec.Gap == nil {
				continue
			}
			got := c19DoRead(data, idx, rec.Name, true, 0, 0, []int{4096}, false)
			if got.outcome != "" || string(got.data) != rec.Bases {
				ri := in
				ri.Rec = i
				r.fail("fai.newindex.accepts-blank-inside-record", fmt.Sprintf("NewIndex accepts a blank line inside record %s and Seq reads %q (outcome %q), bases are %q",
					rec.Name, c19Trunc(string(got.data)), got.outcome, c19Trunc(rec.Bases)), ri)
			}
		}
	}
	if d != nil {
		d.add("c19.index %s", hexs(data))
		*impl = append(*impl, line)
	}
}

// c19JudgeRead is the property oracle for one range read: exactly the bases, then io.EOF.
func c19JudgeRead(r *Result, got c19Read, want string, cls string, ri c19Input) {
	switch {
	case got.outcome == "panic":
		r.fail("fai.read.panic:"+got.frame+cls, "Read panics", ri)
	case got.outcome == "hang":
		r.fail("fai.read.hang"+cls, "Read never returns io.EOF", ri)
	case got.outcome == "err":
		r.fail("fai.read.refused"+cls, "Seq/SeqRange refuses a valid range", ri)
	default:
		if string(got.data) != want {
			r.fail("fai.read.bytes"+cls, fmt.Sprintf("read %q, want %q", c19Trunc(string(got.data)), c19Trunc(want)), ri)
		}
		if n := len(got.errs); n > 0 && got.errs[n-1] == "x" {
			r.fail("fai.read.error"+cls, fmt.Sprintf("the read sequence ends with the error %q instead of io.EOF (after %d of %d bytes)", got.errText, len(got.data), len(want)), ri)
		} else if n == 0 || got.errs[n-1] != "e" {
			r.fail("fai.read.noeof"+cls, "the read sequence does not end with io.EOF", ri)
		}
		if len(got.errs) > 0 && got.errs[len(got.errs)-1] == "e" && (string(got.again) != want || !got.againOK) {
			r.fail("fai.reset"+cls, fmt.Sprintf("after Reset read %q (EOF %v), want %q", c19Trunc(string(got.again)), got.againOK, c19Trunc(want)), ri)
		}
		for i, n := range got.counts {
			if n == 0 && got.errs[i] == "" {
				r.fail("fai.read.zero-nil"+cls, "Read returned 0, nil for a non-empty buffer", ri)
			}
		}
	}
}

func c19Trunc(s string) string {
	if len(s) > 80 {
		return s[:80] + "..."
	}
	return s
}

// c19QuoteFinding decides whether a failed WriteTo/ReadFrom round trip is the recorded quote-in-name finding
// and nothing else: (1) some name contains '"', (2) the error is a *csv.ParseError about quoting, (3) with
// every '"' in the names replaced by 'q' (names staying distinct) the round trip of the same records succeeds.
func c19QuoteFinding(idx fai.Index, rerr error) bool {
	hasQuote := false
	for name := range idx {
		if strings.Contains(name, "\"") {
			hasQuote = true
		}
	}
	if !hasQuote {
		return false
	}
	var pe *csv.ParseError
	if !errors.As(rerr, &pe) || !(pe.Err == csv.ErrBareQuote || pe.Err == csv.ErrQuote || pe.Err == csv.ErrFieldCount) {
		return false
	}
	clean := fai.Index{}
	for name, rec := range idx {
		n := strings.ReplaceAll(name, "\"", "q")
		if _, dup := clean[n]; dup {
			return false // cannot build the control; do not mask
		}
		rec.Name = n
		clean[n] = rec
	}
	var w bytes.Buffer
	if err := fai.WriteTo(&w, clean); err != nil {
		return false
	}
	back, err := fai.ReadFrom(bytes.NewReader(w.Bytes()))
	return err == nil && reflect.DeepEqual(back, clean)
}

func c19HasQuotedField(text []byte) bool {
	for _, l := range bytes.Split(text, []byte{'\n'}) {
		for _, f := range bytes.Split(l, []byte{'\t'}) {
			if len(f) > 0 && f[0] == '"' {
				return true
			}
		}
	}
	return false
}

func c19ReadFromStr(idx fai.Index, err error) string {
	if err != nil {
		return "err"
	}
	for _, r := range idx {
		if r.Length < 0 || r.Start < 0 || r.BasesPerLine < 0 || r.BytesPerLine < 0 {
			return "neg"
		}
	}
	return c19IndexStr(idx, true)
}

// ---------------------------------------------------------------------------------------------------------
// generators

const c19Alphabet = "ACGTNacgtn*-RYKM"

func c19Bases(rnd *Rand, n int) string {
	b := make([]byte, n)
	for i := range b {
		b[i] = c19Alphabet[rnd.intn(len(c19Alphabet))]
	}
	return string(b)
}

// distinct bases make an off-by-one visible (neighbouring bases always differ)
func c19SeqBases(n int, salt int) string {
	const a = "ACGTRYKMSWBDHVN"
	b := make([]byte, n)
	for i := range b {
		b[i] = a[(i+salt)%len(a)]
	}
	return string(b)
}

func c19Name(rnd *Rand, i int, quote bool) string {
	const chars = "abcXYZ019_.|:>#"
	n := rnd.rng(1, 6)
	b := make([]byte, n)
	for k := range b {
		b[k] = chars[rnd.intn(len(chars))]
	}
	s := fmt.Sprintf("%s%d", b, i) // the index makes names distinct
	if quote {
		p := rnd.intn(len(s) + 1)
		s = s[:p] + "\"" + s[p:]
	}
	return s
}

func c19Desc(rnd *Rand) *string {
	switch rnd.intn(5) {
	case 0, 1:
		return nil
	case 2:
		s := " transposase [Burkholderia sp. 604]"
		return &s
	case 3:
		s := "\tlen=12 > x\t "
		return &s
	}
	s := " "
	return &s
}

func c19Blanks(rnd *Rand, crlf bool) []string {
	if !rnd.coin(1, 3) {
		return nil
	}
	n := rnd.rng(1, 3)
	var bs []string
	for i := 0; i < n; i++ {
		s := ""
		switch rnd.intn(6) {
		case 0:
			s = " "
		case 1:
			s = "\t \v"
		}
		if crlf {
			s += "\r"
		}
		bs = append(bs, s)
	}
	return bs
}

func c19RandomFile(rnd *Rand, long bool) c19File {
	n := rnd.rng(1, 5)
	var f c19File
	widths := []int{1, 2, 3, 4, 5, 6, 7, 8, 60}
	for i := 0; i < n; i++ {
		w := widths[rnd.intn(len(widths))]
		var L int
		switch rnd.intn(8) {
		case 0:
			L = 0
		case 1:
			L = w
		case 2:
			L = w * rnd.rng(1, 4)
		case 3:
			L = w*rnd.rng(1, 4) + rnd.rng(1, w)
		case 4:
			L = rnd.rng(1, w)
		case 5:
			L = w*rnd.rng(1, 3) - 1
		case 6:
			L = w*rnd.rng(1, 3) + 1
		default:
			L = rnd.rng(0, 3*w+2)
		}
		if long && w == 60 {
			L = rnd.rng(100, 1500)
		}
		if !long && L > 40 && w < 60 {
			L = 40
		}
		r := c19Rec{Name: c19Name(rnd, i, false), Desc: c19Desc(rnd), Bases: c19Bases(rnd, L), Width: w,
			CRLF: rnd.coin(1, 3), Fin: true}
		if i < n-1 || rnd.coin(1, 2) {
			r.Blanks = c19Blanks(rnd, r.CRLF)
		}
		if i == n-1 && len(r.Blanks) == 0 && rnd.coin(1, 3) {
			r.Fin = false
		}
		f.Recs = append(f.Recs, r)
	}
	if rnd.coin(1, 6) {
		f.Leading = c19Blanks(rnd, f.Recs[0].CRLF)
		if len(f.Leading) == 0 {
			f.Leading = []string{""}
		}
	}
	return f
}

func c19Hist(r *Result, f c19File) {
	r.hist(fmt.Sprintf("file.records=%d", len(f.Recs)))
	if len(f.Leading) > 0 {
		r.hist("file.blank-lines-before-first-record")
	}
	for i, rec := range f.Recs {
		L, w := len(rec.Bases), rec.Width
		switch {
		case w <= 8:
			r.hist(fmt.Sprintf("rec.width=%d", w))
		case w == 60:
			r.hist("rec.width=60")
		default:
			r.hist("rec.width>60")
		}
		switch {
		case L == 0:
			r.hist("rec.len=0")
		case L < w:
			r.hist("rec.len<width")
		case L == w:
			r.hist("rec.len=width")
		case L%w == 0:
			r.hist("rec.len=k*width")
		default:
			r.hist("rec.len=k*width+r")
		}
		if rec.CRLF {
			r.hist("rec.eol=crlf")
		} else {
			r.hist("rec.eol=lf")
		}
		if !rec.Fin {
			r.hist("rec.no-final-newline")
		}
		if rec.Desc != nil {
			r.hist("rec.desc")
		}
		if len(rec.Blanks) > 0 {
			if i < len(f.Recs)-1 {
				r.hist("rec.blank-lines-before-next-record")
			} else {
				r.hist("rec.blank-lines-at-end")
			}
		}
	}
}

// ---------------------------------------------------------------------------------------------------------
// malformed streams (correspondence on error class / accepted records; no property oracle: the property
// quantifies over well-formed files only — but a panic or hang is still reported)

func c19Malformed(c *ctx, d *Driver, impl *[]string, n int) {
	r := c.res
	inserts := []byte{'>', ' ', '\t', '\n', '\r', 'A', 'c', '\v', '"'}
	for k := 0; k < n; k++ {
		f := c19RandomFile(c.rnd, false)
		data, _ := f.render()
		data = append([]byte{}, data...)
		muts := c.rnd.rng(1, 3)
		kind := ""
		for m := 0; m < muts; m++ {
			lines := bytes.SplitAfter(data, []byte{'\n'})
			switch op := c.rnd.intn(9); op {
			case 0: // insert a byte
				p := c.rnd.intn(len(data) + 1)
				data = append(data[:p:p], append([]byte{inserts[c.rnd.intn(len(inserts))]}, data[p:]...)...)
				kind += "ins."
			case 1: // delete a byte
				if len(data) > 0 {
					p := c.rnd.intn(len(data))
					data = append(data[:p:p], data[p+1:]...)
				}
				kind += "del."
			case 2: // duplicate a line
				i := c.rnd.intn(len(lines))
				var nb []byte
				for j, l := range lines {
					nb = append(nb, l...)
					if j == i {
						nb = append(nb, l...)
					}
				}
				data = nb
				kind += "dupline."
			case 3: // drop a line
				i := c.rnd.intn(len(lines))
				var nb []byte
				for j, l := range lines {
					if j != i {
						nb = append(nb, l...)
					}
				}
				data = nb
				kind += "dropline."
			case 4: // header without a name
				hs := [][]byte{[]byte(">\n"), []byte("> desc only\n"), []byte(" > \r\n"), []byte(">\tx\n")}
				i := c.rnd.intn(len(lines) + 1)
				var nb []byte
				for j, l := range lines {
					if j == i {
						nb = append(nb, hs[c.rnd.intn(len(hs))]...)
					}
					nb = append(nb, l...)
				}
				if i == len(lines) {
					nb = append(nb, hs[c.rnd.intn(len(hs))]...)
				}
				data = nb
				kind += "noname."
			case 5: // repeat the first header at the end (duplicate identifier)
				if len(lines) > 0 {
					data = append(data, '\n')
					data = append(data, lines[0]...)
					data = append(data, []byte("ACGT\n")...)
				}
				kind += "dupname."
			case 6: // swap two lines
				if len(lines) > 1 {
					i, j := c.rnd.intn(len(lines)), c.rnd.intn(len(lines))
					lines[i], lines[j] = lines[j], lines[i]
					data = bytes.Join(lines, nil)
				}
				kind += "swap."
			case 7: // leading / trailing blanks on a line
				i := c.rnd.intn(len(lines))
				var nb []byte
				for j, l := range lines {
					if j == i {
						if c.rnd.coin(1, 2) {
							nb = append(nb, ' ', '\t')
							nb = append(nb, l...)
						} else {
							t := bytes.TrimRight(l, "\r\n")
							nb = append(nb, t...)
							nb = append(nb, ' ', ' ')
							nb = append(nb, l[len(t):]...)
						}
					} else {
						nb = append(nb, l...)
					}
				}
				data = nb
				kind += "pad."
			case 8: // truncate
				if len(data) > 0 {
					data = data[:c.rnd.intn(len(data))]
				}
				kind += "trunc."
			}
		}
		var idx fai.Index
		var err error
		o := guard(func() { idx, err = fai.NewIndex(bytes.NewReader(data)) })
		in := c19Input{Kind: "fasta-bytes", Raw: hexs(data)}
		if o.panicked {
			r.fail("fai.newindex.panic:"+topRepoFrame(o.stack), o.panicVal, in)
			continue
		}
		cls := c19NewIndexClass(err)
		r.hist("malformed-fasta." + cls)
		r.eval("mf:"+hexs(data), true)
		line := cls
		if err == nil {
			line = c19IndexStr(idx, false)
		}
		d.add("c19.index %s", hexs(data))
		*impl = append(*impl, line)
		_ = kind
	}
}

func c19MalformedFai(c *ctx, d *Driver, impl *[]string, n int) {
	r := c.res
	subs := []string{"x", "-", "+", " ", "\t", "\n", "\r", "\r\n", "\"", "0", "9", "99999999999999999999", "_", "\n\n", "1e3", "0x1f"}
	// records at the edges of Record.isValid (ReadFrom's validation): no bases per line, fewer bytes than bases
	// per line, negative fields, last-line offset at / beyond int64 (Go's truncating division)
	fixed := []string{
		"a\t10\t0\t0\t0\n", "a\t0\t0\t0\t0\n", "a\t0\t7\t0\t3\n", "a\t10\t0\t5\t0\n", "a\t10\t0\t5\t4\n", "a\t10\t0\t5\t5\n",
		"a\t10\t0\t5\t-9\n", "a\t-1\t0\t5\t6\n", "a\t1\t-1\t5\t6\n", "a\t1\t0\t-5\t6\n", "a\t-0\t+3\t5\t6\n",
		"a\t10\t9223372036854775800\t5\t6\n", "a\t4\t9223372036854775800\t5\t6\n", "a\t4\t9223372036854775805\t5\t6\n",
		"a\t5\t9223372036854775805\t5\t6\n", "a\t9\t9223372036854775796\t5\t6\n", "a\t10\t9223372036854775796\t5\t6\n",
		"a\t10\t9223372036854775797\t5\t6\n", "a\t9223372036854775807\t0\t1\t1\n", "a\t9223372036854775807\t1\t1\t1\n",
		"a\t9223372036854775807\t0\t1\t2\n", "a\t6\t3\t4\t5\nb\t10\t0\t0\t0\n",
	}
	for k := 0; k < n+len(fixed); k++ {
		if k < len(fixed) {
			text := []byte(fixed[k])
			var back fai.Index
			var rerr error
			o := guard(func() { back, rerr = fai.ReadFrom(bytes.NewReader(text)) })
			if o.panicked {
				r.fail("fai.readfrom.panic:"+topRepoFrame(o.stack), o.panicVal, c19Input{Kind: "fai-text", Raw: hexs(text)})
				continue
			}
			line := c19ReadFromStr(back, rerr)
			r.hist("fai-validation." + strings.SplitN(line, " ", 2)[0])
			r.eval("mi:"+hexs(text), true)
			d.add("c19.readfrom %s", hexs(text))
			*impl = append(*impl, line)
			continue
		}
		f := c19RandomFile(c.rnd, false)
		data, _ := f.render()
		idx, err := fai.NewIndex(bytes.NewReader(data))
		if err != nil {
			continue
		}
		var w bytes.Buffer
		fai.WriteTo(&w, idx)
		text := append([]byte{}, w.Bytes()...)
		for m := c.rnd.rng(0, 2); m >= 0; m-- {
			switch c.rnd.intn(6) {
			case 0, 1:
				p := c.rnd.intn(len(text) + 1)
				s := subs[c.rnd.intn(len(subs))]
				text = append(text[:p:p], append([]byte(s), text[p:]...)...)
			case 2:
				if len(text) > 0 {
					p := c.rnd.intn(len(text))
					text = append(text[:p:p], text[p+1:]...)
				}
			case 3: // duplicate the first line at the end
				if i := bytes.IndexByte(text, '\n'); i >= 0 {
					text = append(text, text[:i+1]...)
				}
			case 4: // CRLF everywhere
				text = bytes.ReplaceAll(text, []byte("\n"), []byte("\r\n"))
			case 5: // drop the final newline (and maybe leave a CR)
				text = bytes.TrimRight(text, "\n")
				if c.rnd.coin(1, 3) {
					text = append(text, '\r')
				}
			}
		}
		if c19HasQuotedField(text) {
			r.hist("malformed-fai.quoted-field(not modelled)")
			continue
		}
		var back fai.Index
		var rerr error
		o := guard(func() { back, rerr = fai.ReadFrom(bytes.NewReader(text)) })
		in := c19Input{Kind: "fai-text", Raw: hexs(text)}
		if o.panicked {
			r.fail("fai.readfrom.panic:"+topRepoFrame(o.stack), o.panicVal, in)
			continue
		}
		line := c19ReadFromStr(back, rerr)
		r.hist("malformed-fai." + strings.SplitN(line, " ", 2)[0])
		r.eval("mi:"+hexs(text), true)
		d.add("c19.readfrom %s", hexs(text))
		*impl = append(*impl, line)
	}
}

// ---------------------------------------------------------------------------------------------------------

var c19SizeAlphabet = []int{1, 2, 3, 7, 64, 4096}

func c19SizeLists(rnd *Rand, n int) [][]int {
	var out [][]int
	for i := 0; i < n; i++ {
		k := rnd.rng(1, 4)
		var s []int
		for j := 0; j < k; j++ {
			s = append(s, c19SizeAlphabet[rnd.intn(len(c19SizeAlphabet))])
		}
		out = append(out, s)
	}
	return out
}

func checkC19(c *ctx) {
	r := c.res
	r.Rule = "structured FASTA files rendered by the generator: (a) a grid of all 1-record files with width 1..4, length 0..2*width+1, LF/CRLF, " +
		"with/without final newline, with/without description, and all 2-record files over a smaller grid with 0..2 blank lines between the records; " +
		"(b) random files of 1..5 records, widths {1..8,60}, lengths 0 / <width / =width / k*width / k*width+r, LF or CRLF per record, optional " +
		"description, blank (whitespace-only) lines before the first and after any record, last record with or without final newline; (c) a few files with lines longer than 64 KiB. " +
		"Every (record,start,end) with 0<=start<=end<=length for records up to 12 bases (else whole + boundary-biased random ranges), " +
		"each read with buffer-size sequences over {1,2,3,7,64,4096} used cyclically, once over bytes.Reader and once over a ReaderAt that returns io.EOF together with a complete read ending at the end of the file. One evaluation = one range read with one size sequence; " +
		"non-trivial = non-empty range; distinct = distinct (file,record,range,sizes). Files with one blank line inside a record (gap files) must be rejected by NewIndex (oracle: if accepted, the gapped record must still read as its bases). Malformed FASTA bytes and malformed .fai text are compared " +
		"with the model on error class / accepted records only."
	if c.replay != "" {
		var in c19Input
		if err := loadReplay(c.replay, &in); err != nil {
			r.note("replay: %v", err)
			return
		}
		c19Replay(c, in)
		return
	}
	d := c.drv()
	var impl []string
	str := func(s string) *string { return &s }

	// (a0) the hand-written corner files
	corner := []c19File{
		{Recs: []c19Rec{{Name: "a", Bases: "ACGTAC", Width: 4, Fin: true, Blanks: []string{""}}, {Name: "b", Bases: "GGGGTT", Width: 4, Fin: true}}},
		{Recs: []c19Rec{{Name: "a", Bases: "", Width: 4, Fin: true}, {Name: "b", Bases: "GGGGTT", Width: 4, Fin: true}}},
		{Recs: []c19Rec{{Name: "a", Bases: "ACGT", Width: 4, Fin: false}}},
		{Leading: []string{""}, Recs: []c19Rec{{Name: "a", Bases: "ACGTA", Width: 4, Fin: true}}},
		{Leading: []string{" \t", "\r"}, Recs: []c19Rec{{Name: "a", Bases: "ACGTACGT", Width: 4, CRLF: true, Fin: false}}},
		{Recs: []c19Rec{{Name: "a", Bases: "", Width: 1, Fin: false}}},
		{Recs: []c19Rec{{Name: "a\"b", Bases: "ACGTA", Width: 2, Fin: true}}},
		{Recs: []c19Rec{{Name: "\"ab", Bases: "ACGTA", Width: 2, Fin: true}}},
		{Recs: []c19Rec{{Name: "x", Desc: str("\t"), Bases: "ACGTACGTA", Width: 3, CRLF: true, Fin: true, Blanks: []string{"\r", " \r"}},
			{Name: "y", Desc: str(" y"), Bases: "TTTTTTT", Width: 7, CRLF: true, Fin: false}}},
	}
	allSizes := [][]int{{1}, {2}, {3}, {7}, {64}, {4096}, {1, 7}, {3, 1, 64}}
	for _, f := range corner {
		c19Hist(r, f)
		c19File1(c, f, c19Opts{allRanges: true, sizeLists: allSizes}, d, &impl)
		r.sample(c19Input{Kind: "file", File: &f})
	}

	// (a) grid of one-record files
	for w := 1; w <= 4; w++ {
		for L := 0; L <= 2*w+1; L++ {
			for _, crlf := range []bool{false, true} {
				for _, fin := range []bool{true, false} {
					for _, desc := range []*string{nil, str(" d e")} {
						f := c19File{Recs: []c19Rec{{Name: "s", Desc: desc, Bases: c19SeqBases(L, w), Width: w, CRLF: crlf, Fin: fin}}}
						c19Hist(r, f)
						c19File1(c, f, c19Opts{allRanges: true, sizeLists: [][]int{{1}, {2}, {3}, {4096}}}, d, &impl)
					}
				}
			}
		}
	}
	// (a') grid of two-record files, blank lines between
	for w := 1; w <= 3; w++ {
		for _, L1 := range []int{0, 1, w, w + 1, 2 * w, 2*w + 1} {
			for nb := 0; nb <= 2; nb++ {
				for _, crlf := range []bool{false, true} {
					for _, L2 := range []int{0, w, 2*w - 1, 2*w + 1} {
						for _, fin := range []bool{true, false} {
							var bl []string
							for i := 0; i < nb; i++ {
								if crlf {
									bl = append(bl, "\r")
								} else {
									bl = append(bl, "")
								}
							}
							f := c19File{Recs: []c19Rec{
								{Name: "a", Bases: c19SeqBases(L1, 0), Width: w, CRLF: crlf, Fin: true, Blanks: bl},
								{Name: "b", Desc: str("\tb"), Bases: c19SeqBases(L2, 5), Width: w + 1, CRLF: crlf, Fin: fin}}}
							c19Hist(r, f)
							c19File1(c, f, c19Opts{allRanges: true, sizeLists: [][]int{{1}, {7}, {2, 3}}}, d, &impl)
						}
					}
				}
			}
		}
	}

	// (b) random files
	nSmall, nLong := 250, 40
	if c.thorough() {
		nSmall, nLong = 30000, 1200
	}
	for i := 0; i < nSmall; i++ {
		f := c19RandomFile(c.rnd, false)
		if i%25 == 7 { // a name with a double quote (the .fai text is read back through encoding/csv)
			k := c.rnd.intn(len(f.Recs))
			f.Recs[k].Name = c19Name(c.rnd, k, true)
		}
		c19Hist(r, f)
		small := true
		for _, rec := range f.Recs {
			if len(rec.Bases) > 12 {
				small = false
			}
		}
		c19File1(c, f, c19Opts{allRanges: small, nRandom: 12, sizeLists: append(c19SizeLists(c.rnd, 2), []int{1})}, d, &impl)
		if i < 3 {
			r.sample(c19Input{Kind: "file", File: &f})
		}
	}
	for i := 0; i < nLong; i++ {
		f := c19RandomFile(c.rnd, true)
		c19Hist(r, f)
		c19File1(c, f, c19Opts{nRandom: 10, sizeLists: c19SizeLists(c.rnd, 2)}, d, &impl)
	}
	// (b') the same kind of files with one blank line INSIDE a record: must be rejected
	nGap := 150
	if c.thorough() {
		nGap = 4000
	}
	for _, bases := range []string{"ACGTACGTAC", "ACGT", "ACGTACGT"} {
		for g := 0; g <= 2; g++ {
			for _, crlf := range []bool{false, true} {
				g := g
				f := c19File{Recs: []c19Rec{{Name: "a", Bases: bases, Width: 4, CRLF: crlf, Fin: true, Gap: &g},
					{Name: "b", Bases: "GGG", Width: 4, CRLF: crlf, Fin: true}}}
				if nl := (len(bases) + 3) / 4; g < nl {
					c19GapFile(c, f, d, &impl)
				}
			}
		}
	}
	for i := 0; i < nGap; i++ {
		f := c19RandomFile(c.rnd, false)
		k := c.rnd.intn(len(f.Recs))
		rec := &f.Recs[k]
		nl := (len(rec.Bases) + rec.Width - 1) / rec.Width
		if nl == 0 {
			continue
		}
		g := c.rnd.intn(nl) // 0 = after the header, j = after sequence line j
		rec.Gap = &g
		c19GapFile(c, f, d, &impl)
		if i == 0 {
			r.sample(c19Input{Kind: "gap-file", File: &f})
		}
	}
	// (c) lines longer than bufio.Scanner's default 64 KiB token limit
	for _, w := range []int{65535, 65536, 70001} {
		f := c19File{Recs: []c19Rec{
			{Name: "long", Bases: c19SeqBases(w+w/2, 1), Width: w, Fin: true},
			{Name: "tail", Bases: "ACGTACGTAC", Width: 4, Fin: w%2 == 0}}}
		c19Hist(r, f)
		c19File1(c, f, c19Opts{nRandom: 3, sizeLists: [][]int{{4096}}, noPosModel: false}, d, &impl)
	}

	// malformed streams
	nm := 1500
	if c.thorough() {
		nm = 200000
	}
	c19Malformed(c, d, &impl, nm)
	c19MalformedFai(c, d, &impl, nm)

	d.compare(r, "C19", impl)
}

func c19Replay(c *ctx, in c19Input) {
	r := c.res
	switch in.Kind {
	case "file":
		if in.File == nil {
			r.note("replay: no file")
			return
		}
		sizes := in.Sizes
		if len(sizes) == 0 {
			sizes = []int{1}
		}
		small := true
		for _, rec := range in.File.Recs {
			if len(rec.Bases) > 64 {
				small = false
			}
		}
		c19File1(c, *in.File, c19Opts{allRanges: small, nRandom: 20, sizeLists: [][]int{sizes, {1}, {4096}}}, nil, nil)
	case "gap-file":
		if in.File != nil {
			c19GapFile(c, *in.File, nil, nil)
		}
	case "fasta-bytes":
		data, _ := hex.DecodeString(strings.TrimPrefix(in.Raw, "-"))
		o := guard(func() { fai.NewIndex(bytes.NewReader(data)) })
		if o.panicked {
			r.fail("fai.newindex.panic:"+topRepoFrame(o.stack), o.panicVal, in)
		}
	case "fai-text":
		data, _ := hex.DecodeString(strings.TrimPrefix(in.Raw, "-"))
		o := guard(func() { fai.ReadFrom(bytes.NewReader(data)) })
		if o.panicked {
			r.fail("fai.readfrom.panic:"+topRepoFrame(o.stack), o.panicVal, in)
		}
	}
	r.eval("replay", true)
}

// c19ChunkReader delivers data in a pattern the io.Reader contract allows: the whole rest or the last chunk
// together with io.EOF, one byte per call, random chunk sizes.
type c19ChunkReader struct {
	data []byte
	pat  string
	rnd  *Rand
	off  int
}

func (c *c19ChunkReader) Read(p []byte) (int, error) {
	if c.off >= len(c.data) {
		return 0, io.EOF
	}
	n := len(p)
	switch c.pat {
	case "one-byte":
		n = 1
	case "chunks", "chunks-with-eof":
		n = c.rnd.rng(1, 7)
		if c.rnd.coin(1, 4) {
			n = c.rnd.rng(1, 5000)
		}
	}
	if n > len(p) {
		n = len(p)
	}
	if n > len(c.data)-c.off {
		n = len(c.data) - c.off
	}
	copy(p, c.data[c.off:c.off+n])
	c.off += n
	if c.off == len(c.data) && (c.pat == "data-with-eof" || c.pat == "chunks-with-eof") {
		return n, io.EOF
	}
	return n, nil
}
