// Command harness runs the correspondence check (implementation vs Lean model driver) and the
// property oracle (implementation judged directly) for one property.
package main

import (
	"encoding/json"
	"flag"
	"fmt"
	"os"
)

type ctx struct {
	tier   string
	seed   int64
	driver string
	replay string
	res    *Result
	rnd    *Rand
}

func (c *ctx) thorough() bool { return c.tier == "thorough" }
func (c *ctx) drv() *Driver   { return &Driver{path: c.driver} }

var checks = map[string]func(*ctx){}

func main() {
	if len(os.Args) < 2 {
		fmt.Fprintln(os.Stderr, "usage: harness <property> [-tier quick|thorough] [-seed N] -driver PATH [-out FILE] [-replay FILE]")
		os.Exit(2)
	}
	prop := os.Args[1]
	fs := flag.NewFlagSet("harness", flag.ExitOnError)
	tier := fs.String("tier", "quick", "quick or thorough")
	seed := fs.Int64("seed", 1, "PRNG seed")
	driver := fs.String("driver", "", "path of the Lean model driver")
	out := fs.String("out", "-", "result file")
	replay := fs.String("replay", "", "replay file")
	fs.Parse(os.Args[2:])
	f, ok := checks[prop]
	if !ok {
		fmt.Fprintln(os.Stderr, "harness: unknown property", prop)
		os.Exit(2)
	}
	c := &ctx{tier: *tier, seed: *seed, driver: *driver, replay: *replay}
	c.res = newResult(prop, *tier, *seed)
	c.rnd = newRand(*seed)
	f(c)
	c.res.write(*out)
}

// loadReplay reads the "input" member of a replay file into v.
func loadReplay(path string, v interface{}) error {
	b, err := os.ReadFile(path)
	if err != nil {
		return err
	}
	var doc struct {
		Input json.RawMessage `json:"input"`
	}
	if err := json.Unmarshal(b, &doc); err != nil {
		return err
	}
	return json.Unmarshal(doc.Input, v)
}
