package main

// C11, worker side: one driver per decoder of the library, `bytes -> outcome`, and for every value
// that was returned without an error the accessor sweep the property names.  Everything in this
// file runs inside a worker child process (see c11.go) under recover, a watchdog and RLIMIT_AS.

import (
	"bytes"
	"compress/gzip"
	"encoding/hex"
	"errors"
	"fmt"
	"io"
	"runtime/debug"
	"sort"
	"strings"

	"github.com/biogo/hts/bam"
	"github.com/biogo/hts/bgzf"
	"github.com/biogo/hts/bgzf/index"
	"github.com/biogo/hts/cram"
	"github.com/biogo/hts/cram/encoding/itf8"
	"github.com/biogo/hts/cram/encoding/ltf8"
	"github.com/biogo/hts/csi"
	"github.com/biogo/hts/fai"
	"github.com/biogo/hts/sam"
	"github.com/biogo/hts/tabix"
)

// c11Val is what a decoder driver hands to the accessor sweep.
type c11Val struct {
	canon string // canonical rendering of the decoded value (correspondence), may be empty
	sweep func() // the accessor sweep over the decoded value(s); nil when nothing was decoded
	nvals int    // number of values decoded without error
}

type c11Decoder struct {
	name   string
	decode func(in []byte) (c11Val, error)
}

var c11Decoders = map[string]*c11Decoder{}

func c11Register(name string, f func(in []byte) (c11Val, error)) {
	c11Decoders[name] = &c11Decoder{name: name, decode: f}
}

// c11Caught collects the panics of the individual accessor calls of one sweep, so that one panicking
// accessor does not hide the others.
type c11CaughtPanic struct{ site, msg string }

var c11Caught []c11CaughtPanic

// c11SweepCanon is set by a sweep that has a canonical value of its own to report (correspondence).
var c11SweepCanon string

func try(f func()) {
	defer func() {
		if v := recover(); v != nil {
			if len(c11Caught) < 16 {
				site := c11Site(string(debug.Stack()))
				if sw, ok := v.(c11Swallowed); ok {
					site = "fmt-swallowed:" + strings.SplitN(string(sw), ":", 2)[0]
				}
				c11Caught = append(c11Caught, c11CaughtPanic{site, fmt.Sprint(v)})
			}
		}
	}()
	f()
}

const c11MaxRecords = 64 // records decoded per stream before the driver stops

// ---------------------------------------------------------------------------
// accessor sweeps

var c11QueryTags = []sam.Tag{{'N', 'M'}, {'R', 'G'}, {'P', 'G'}, {'X', 'Y'}}

func c11SweepAux(a sam.Aux) {
	_ = a.Tag()
	_ = a.Type()
	_ = a.Kind()
	_ = a.Value()
	_ = a.String()
}

// c11MarshalChecked formats r as SAM.  fmt recovers panics of String methods and prints
// "%!v(PANIC=String method: ...)" instead: a swallowed panic is still a panic of the formatter.
func c11MarshalChecked(r *sam.Record) {
	for f := sam.FlagDecimal; f <= sam.FlagString; f++ {
		b, _ := r.MarshalSAM(f)
		if i := bytes.Index(b, []byte("(PANIC=")); i >= 0 {
			end := i + 120
			if end > len(b) {
				end = len(b)
			}
			panic(c11Swallowed("sam.(*Record).MarshalSAM: fmt swallowed " + string(b[i:end])))
		}
	}
	_, _ = r.MarshalText()
	s := r.String()
	if i := strings.Index(s, "(PANIC="); i >= 0 {
		end := i + 120
		if end > len(s) {
			end = len(s)
		}
		panic(c11Swallowed("sam.(*Record).String: fmt swallowed " + s[i:end]))
	}
}

// c11Swallowed is the panic value of the swallowed-panic oracle.
type c11Swallowed string

func c11SweepCigar(c sam.Cigar, n int) {
	_ = c.IsValid(n)
	_, _ = c.Lengths()
	_ = c.String()
	for _, co := range c {
		_ = co.Type().Consumes()
		_ = co.Type().String()
		_ = co.String()
		_ = co.Len()
	}
}

// c11SweepRecord passes a decoded record to the library's accessors, formatters, writers and index
// builders.  bw/sw may be nil.
func c11SweepRecord(h *sam.Header, r *sam.Record, bw *bam.Writer, sw *sam.Writer) {
	try(func() { _ = r.End() })
	try(func() { _ = r.Bin() })
	try(func() { _ = r.Len() })
	try(func() { _, _, _ = r.Start(), r.RefID(), r.Strand() })
	try(func() { c11SweepCigar(r.Cigar, r.Seq.Length) })
	for _, a := range r.AuxFields {
		a := a
		try(func() { _ = a.Tag() })
		try(func() { _ = a.Type() })
		try(func() { _ = a.Kind() })
		try(func() { _ = a.Value() })
		try(func() { _ = a.String() })
	}
	try(func() {
		for _, t := range c11QueryTags {
			_ = r.AuxFields.Get(t)
			_, _ = r.Tag(t[:])
		}
	})
	try(func() { _ = sam.IsValidRecord(r) })
	try(func() { _ = r.Seq.Expand() })
	try(func() {
		if r.Seq.Length > 0 {
			_ = r.Seq.At(0)
			_ = r.Seq.At(r.Seq.Length - 1)
		}
	})
	try(func() { c11MarshalChecked(r) })
	try(func() { _, _ = r.LessByName(r), r.LessByCoordinate(r) })
	if bw != nil {
		try(func() { c11WriteBAM(bw, r) })
	}
	if sw != nil {
		try(func() { _ = sw.Write(r) })
	}
	// index builders: a fresh index per record (sequences of Adds are the subject of C04)
	try(func() {
		var bai bam.Index
		_ = bai.Add(r, bgzf.Chunk{Begin: bgzf.Offset{File: 10, Block: 1}, End: bgzf.Offset{File: 10, Block: 99}})
		_, _ = bai.Chunks(r.Ref, 0, 1000)
		_ = bam.WriteIndex(io.Discard, &bai)
	})
	try(func() {
		ci := csi.New(0, 0)
		_ = ci.Add(r, bgzf.Chunk{Begin: bgzf.Offset{File: 10, Block: 1}, End: bgzf.Offset{File: 10, Block: 99}}, r.Flags&sam.Unmapped == 0, r.Ref != nil && r.Pos != -1)
		_ = csi.WriteTo(io.Discard, ci)
	})
	try(func() { _ = h.Validate(r) })
}

func c11SweepHeader(h *sam.Header) {
	try(func() { _, _ = h.MarshalText() })
	try(func() { _, _ = h.MarshalBinary() })
	try(func() {
		c := h.Clone()
		_, _ = c.MarshalText()
	})
	h.Tags(func(t sam.Tag, v string) {})
	for _, t := range c11QueryTags {
		_ = h.Get(t)
	}
	_ = h.Get(sam.NewTag("VN"))
	_ = h.Get(sam.NewTag("SO"))
	_ = h.Get(sam.NewTag("GO"))
	for _, r := range h.Refs() {
		_ = r.String()
		_ = r.ID()
		_ = r.Name()
		_ = r.Len()
		_ = r.MD5()
		_ = r.URI()
		_ = r.AssemblyID()
		_ = r.Species()
		r.Tags(func(t sam.Tag, v string) {})
		for _, t := range c11QueryTags {
			_ = r.Get(t)
		}
		_ = r.Clone()
	}
	for _, g := range h.RGs() {
		_ = g.String()
		_ = g.ID()
		_ = g.Name()
		_ = g.Library()
		_ = g.PlatformUnit()
		_ = g.Time()
		g.Tags(func(t sam.Tag, v string) {})
		for _, t := range c11QueryTags {
			_ = g.Get(t)
		}
		_ = g.Clone()
	}
	for _, p := range h.Progs() {
		_ = p.String()
		_ = p.ID()
		_ = p.UID()
		_ = p.Name()
		_ = p.Command()
		_ = p.Previous()
		_ = p.Version()
		p.Tags(func(t sam.Tag, v string) {})
		for _, t := range c11QueryTags {
			_ = p.Get(t)
		}
		_ = p.Clone()
	}
	// writers start from the header
	var buf bytes.Buffer
	if w, err := sam.NewWriter(&buf, h, sam.FlagDecimal); err == nil {
		_ = w
	}
}

var c11Intervals = [][2]int{{0, 1}, {0, 1 << 14}, {100, 200}, {16000, 17000}, {1 << 20, 1<<20 + 5}, {0, 1 << 29}, {1<<29 - 2, 1<<29 - 1}}

// a CSI query lists (end-beg)>>minShift bins by design, and minShift comes from the file: short intervals only
var c11ShortIntervals = [][2]int{{0, 1}, {100, 200}, {16000, 17000}, {1 << 20, 1<<20 + 5}, {1<<29 - 2, 1<<29 - 1}}

var c11Strategies = []index.MergeStrategy{index.Identity, index.Adjacent, index.Squash, index.CompressorStrategy(1 << 16)}

type c11IdxRec struct {
	id, beg, end int
	name         string
}

func (r c11IdxRec) RefID() int      { return r.id }
func (r c11IdxRec) Start() int      { return r.beg }
func (r c11IdxRec) End() int        { return r.end }
func (r c11IdxRec) RefName() string { return r.name }

var c11Chunk = bgzf.Chunk{Begin: bgzf.Offset{File: 1 << 20, Block: 1}, End: bgzf.Offset{File: 1 << 20, Block: 99}}

func c11RefsFor(n int) []*sam.Reference {
	if n > 40 {
		n = 40
	}
	var refs []*sam.Reference
	for i := 0; i < n; i++ {
		r, err := sam.NewReference(fmt.Sprintf("r%d", i), "", "", 1<<29-1, nil, nil)
		if err != nil {
			panic(err)
		}
		refs = append(refs, r)
	}
	h, err := sam.NewHeader(nil, refs)
	if err != nil {
		panic(err)
	}
	return h.Refs()
}

func c11SweepBAI(idx *bam.Index) {
	n := idx.NumRefs()
	_, _ = idx.Unmapped()
	for id := 0; id < n && id < 40; id++ {
		_, _ = idx.ReferenceStats(id)
	}
	refs := c11RefsFor(n + 1)
	for _, ref := range refs {
		for _, iv := range c11Intervals {
			_, _ = idx.Chunks(ref, iv[0], iv[1])
		}
	}
	_ = bam.WriteIndex(io.Discard, idx)
	for _, s := range c11Strategies {
		idx.MergeChunks(s)
		if len(refs) > 0 {
			_, _ = idx.Chunks(refs[0], 0, 1<<20)
		}
	}
	_ = bam.WriteIndex(io.Discard, idx)
	// index builder on top of the decoded index
	for _, ref := range refs {
		r := &sam.Record{Name: "q", Ref: ref, Pos: 1000, MatePos: -1, Cigar: sam.Cigar{sam.NewCigarOp(sam.CigarMatch, 50)}}
		_ = idx.Add(r, c11Chunk)
	}
	_ = bam.WriteIndex(io.Discard, idx)
}

func c11SweepCSI(idx *csi.Index) {
	n := idx.NumRefs()
	_, _ = idx.Unmapped()
	for id := 0; id < n && id < 40; id++ {
		_, _ = idx.ReferenceStats(id)
	}
	for id := 0; id <= n && id < 40; id++ {
		for _, iv := range c11ShortIntervals {
			_ = idx.Chunks(id, iv[0], iv[1])
		}
	}
	_ = csi.WriteTo(io.Discard, idx)
	for _, s := range c11Strategies {
		idx.MergeChunks(s)
		_ = idx.Chunks(0, 0, 1<<10)
	}
	_ = csi.WriteTo(io.Discard, idx)
	_ = idx.Add(c11IdxRec{id: n, beg: 1000, end: 1050}, c11Chunk, true, true)
	_ = idx.Add(c11IdxRec{id: n - 1, beg: 1000, end: 1050}, c11Chunk, true, true)
	_ = csi.WriteTo(io.Discard, idx)
}

func c11SweepTabix(idx *tabix.Index) {
	n := idx.NumRefs()
	_, _ = idx.Unmapped()
	_ = idx.IDs()
	for id := 0; id < n && id < 40; id++ {
		_, _ = idx.ReferenceStats(id)
	}
	names := idx.Names()
	for i, name := range names {
		if i >= 40 {
			break
		}
		for _, iv := range c11Intervals {
			_, _ = idx.Chunks(name, iv[0], iv[1])
		}
	}
	_, _ = idx.Chunks("no-such-name", 0, 100)
	_ = tabix.WriteTo(io.Discard, idx)
	for _, s := range c11Strategies {
		idx.MergeChunks(s)
	}
	_ = tabix.WriteTo(io.Discard, idx)
	_ = idx.Add(c11IdxRec{name: "zz-new", beg: 1000, end: 1050}, c11Chunk, true, true)
	if len(names) > 0 {
		_ = idx.Add(c11IdxRec{name: names[len(names)-1], beg: 1000, end: 1050}, c11Chunk, true, true)
	}
	_ = tabix.WriteTo(io.Discard, idx)
}

var c11Fasta = []byte(">a desc\nACGTACGTAC\nACGTACGTAC\nACG\n>b\nGGGGCCCC\nTT\n")

func c11SweepFAI(idx fai.Index) {
	_ = fai.WriteTo(io.Discard, idx)
	names := make([]string, 0, len(idx))
	for k := range idx {
		names = append(names, k)
	}
	sort.Strings(names)
	f := fai.NewFile(bytes.NewReader(c11Fasta), idx)
	buf := make([]byte, 16)
	for i, name := range names {
		if i >= 40 {
			break
		}
		rec := idx[name]
		if rec.Length > 0 {
			_ = rec.Position(0)
			_ = rec.Position(rec.Length - 1)
			_ = rec.Position(rec.Length / 2)
		}
		if s, err := f.Seq(name); err == nil {
			for k := 0; k < 8; k++ {
				if _, err := s.Read(buf); err != nil {
					break
				}
			}
			s.Reset()
		}
		hi := rec.Length
		if hi > 5 {
			hi = 5
		}
		if s, err := f.SeqRange(name, 0, hi); err == nil {
			_, _ = s.Read(buf)
		}
		if rec.Length > 2 {
			if s, err := f.SeqRange(name, rec.Length-2, rec.Length); err == nil {
				_, _ = s.Read(buf)
			}
		}
	}
}

// ---------------------------------------------------------------------------
// canonical renderings used by the correspondence check

func c11CanonCigar(c sam.Cigar) string {
	if len(c) == 0 {
		return "-"
	}
	var sb strings.Builder
	for i, co := range c {
		if i > 0 {
			sb.WriteByte(',')
		}
		fmt.Fprintf(&sb, "%d:%d", uint32(co)&0xf, uint32(co)>>4)
	}
	return sb.String()
}

func c11CanonAuxes(aa []sam.Aux) string {
	if len(aa) == 0 {
		return "-"
	}
	parts := make([]string, len(aa))
	for i, a := range aa {
		parts[i] = hexs([]byte(a))
		if len(a) == 0 {
			parts[i] = "e"
		}
	}
	return strings.Join(parts, ",")
}

// ---------------------------------------------------------------------------
// decoder drivers

func c11ReadRecords(h *sam.Header, read func() (*sam.Record, error)) ([]*sam.Record, error) {
	var recs []*sam.Record
	for len(recs) < c11MaxRecords {
		r, err := read()
		if err != nil {
			return recs, err
		}
		// bam.Reader reuses its buffer: keep an independent copy of everything the record points into
		cp := *r
		cp.Cigar = append(sam.Cigar(nil), r.Cigar...)
		cp.Seq.Seq = append([]sam.Doublet(nil), r.Seq.Seq...)
		if r.Qual != nil {
			cp.Qual = append([]byte{}, r.Qual...)
		}
		if r.AuxFields != nil {
			cp.AuxFields = make(sam.AuxFields, len(r.AuxFields))
			for i, a := range r.AuxFields {
				b := make([]byte, len(a))
				copy(b, a)
				cp.AuxFields[i] = sam.Aux(b[:len(b):len(b)])
			}
		}
		recs = append(recs, &cp)
	}
	return recs, nil
}

// One BAM writer per worker process (constructing a bgzf.Writer costs ~1 MB of cleared memory): records
// decoded from any stream are written to it.  It is dropped after a panic inside the sweep.
var c11SharedBAMWriter *bam.Writer

type c11Discard struct{ n int }

func (d *c11Discard) Write(p []byte) (int, error) { d.n += len(p); return len(p), nil }

// c11WriteBAM writes r; the shared writer is dropped when Write panics (its buffer may be half written).
func c11WriteBAM(bw *bam.Writer, r *sam.Record) {
	defer func() {
		if e := recover(); e != nil {
			c11SharedBAMWriter = nil
			panic(e)
		}
	}()
	_ = bw.Write(r)
}

func c11BAMWriter() *bam.Writer {
	if c11SharedBAMWriter == nil {
		h, err := sam.NewHeader([]byte(c11HeaderText), nil)
		if err != nil {
			panic("harness: seed header does not parse: " + err.Error())
		}
		bw, err := bam.NewWriterLevel(&c11Discard{}, h, gzip.BestSpeed, 1)
		if err != nil {
			panic("harness: bam.NewWriter: " + err.Error())
		}
		c11SharedBAMWriter = bw
	}
	return c11SharedBAMWriter
}

func c11RecordsVal(h *sam.Header, recs []*sam.Record, tail error, withAuxCanon bool) c11Val {
	v := c11Val{nvals: 1 + len(recs)}
	if withAuxCanon {
		var parts []string
		for _, r := range recs {
			parts = append(parts, c11CanonAuxes(r.AuxFields))
		}
		v.canon = strings.Join(parts, ";") + " " + errClass(c11EOFIsOK(tail))
	}
	v.sweep = func() {
		c11SweepHeader(h)
		bw := c11BAMWriter()
		var sout bytes.Buffer
		sw, err := sam.NewWriter(&sout, h, sam.FlagDecimal)
		if err != nil {
			sw = nil
		}
		for _, r := range recs {
			c11SweepRecord(h, r, bw, sw)
		}
	}
	return v
}

func c11EOFIsOK(err error) error {
	if err == io.EOF {
		return nil
	}
	return err
}

func init() {
	// --- self-test of the out-of-memory classification (not decoders of the library)
	c11Register("selftest.runaway", func(in []byte) (c11Val, error) {
		var keep [][]byte
		for {
			keep = append(keep, make([]byte, 4096))
		}
	})
	c11Register("selftest.hostile", func(in []byte) (c11Val, error) {
		a := make([]byte, 230<<20)
		a[0], a[len(a)-1] = 1, 1
		b := make([]byte, 2000<<20)
		return c11Val{nvals: len(a) + len(b)}, nil
	})
	// --- BGZF
	for _, rd := range []int{1, 2} {
		rd := rd
		c11Register(fmt.Sprintf("bgzf.Reader/rd%d", rd), func(in []byte) (c11Val, error) {
			r, err := bgzf.NewReader(bytes.NewReader(in), rd)
			if err != nil {
				return c11Val{}, err
			}
			defer r.Close()
			buf := make([]byte, 4096)
			total := 0
			for total < 1<<22 {
				n, err := r.Read(buf)
				total += n
				if err != nil {
					if err == io.EOF {
						break
					}
					return c11Val{}, err
				}
			}
			_ = r.LastChunk()
			_ = r.BlockLen()
			_, _ = bgzf.HasEOF(bytes.NewReader(in))
			return c11Val{nvals: 1}, nil
		})
	}
	// --- BAM stream (BGZF bytes)
	bamStream := func(in []byte, omit int, auxCanon bool) (c11Val, error) {
		br, err := bam.NewReader(bytes.NewReader(in), 1)
		if err != nil {
			return c11Val{}, err
		}
		defer br.Close()
		br.Omit(omit)
		h := br.Header()
		recs, tail := c11ReadRecords(h, br.Read)
		_ = br.LastChunk()
		return c11RecordsVal(h, recs, tail, auxCanon), nil
	}
	c11Register("bam.Reader", func(in []byte) (c11Val, error) { return bamStream(in, bam.None, false) })
	c11Register("bam.Reader/omitAux", func(in []byte) (c11Val, error) { return bamStream(in, bam.AuxTags, false) })
	c11Register("bam.Reader/omitAll", func(in []byte) (c11Val, error) { return bamStream(in, bam.AllVariableLengthData, false) })
	// bam.parseAux reached through a one-record stream; canonical value = the aux fields returned
	c11Register("bam.parseAux", func(in []byte) (c11Val, error) { return bamStream(in, bam.None, true) })

	// --- binary header
	c11Register("sam.Header.DecodeBinary", func(in []byte) (c11Val, error) {
		h, _ := sam.NewHeader(nil, nil)
		err := h.UnmarshalBinary(in)
		if err != nil {
			return c11Val{}, err
		}
		return c11Val{nvals: 1, sweep: func() { c11SweepHeader(h) }}, nil
	})
	// --- header text
	c11Register("sam.Header.UnmarshalText", func(in []byte) (c11Val, error) {
		h, err := sam.NewHeader(in, nil)
		if err != nil {
			return c11Val{}, err
		}
		canon := fmt.Sprintf("%d %d %d %d", len(h.Refs()), len(h.RGs()), len(h.Progs()), len(h.Comments))
		return c11Val{nvals: 1, canon: canon, sweep: func() { c11SweepHeader(h) }}, nil
	})
	// --- SAM stream
	c11Register("sam.Reader", func(in []byte) (c11Val, error) {
		sr, err := sam.NewReader(bytes.NewReader(in))
		if err != nil {
			return c11Val{}, err
		}
		h := sr.Header()
		recs, tail := c11ReadRecords(h, sr.Read)
		return c11RecordsVal(h, recs, tail, false), nil
	})
	// --- one SAM line, with and without a header
	c11Register("sam.Record.UnmarshalSAM/nil", func(in []byte) (c11Val, error) {
		var r sam.Record
		err := r.UnmarshalSAM(nil, in)
		if err != nil {
			return c11Val{}, err
		}
		h, _ := sam.NewHeader(nil, nil)
		return c11RecordsVal(h, []*sam.Record{&r}, nil, false), nil
	})
	c11Register("sam.Record.UnmarshalSAM/hdr", func(in []byte) (c11Val, error) {
		h, err := sam.NewHeader([]byte(c11HeaderText), nil)
		if err != nil {
			panic("harness: seed header does not parse: " + err.Error())
		}
		var r sam.Record
		err = r.UnmarshalSAM(h, in)
		if err != nil {
			return c11Val{}, err
		}
		return c11RecordsVal(h, []*sam.Record{&r}, nil, false), nil
	})
	// --- aux text
	c11Register("sam.ParseAux", func(in []byte) (c11Val, error) {
		a, err := sam.ParseAux(in)
		if err != nil {
			return c11Val{}, err
		}
		return c11Val{nvals: 1, canon: hexs([]byte(a)), sweep: func() {
			c11SweepAux(a)
			r := &sam.Record{Name: "q", Pos: -1, MatePos: -1, AuxFields: sam.AuxFields{a}}
			try(func() { c11MarshalChecked(r) })
			c11WriteBAM(c11BAMWriter(), r)
		}}, nil
	})
	// --- CIGAR text
	c11Register("sam.ParseCigar", func(in []byte) (c11Val, error) {
		c, err := sam.ParseCigar(in)
		if err != nil {
			return c11Val{}, err
		}
		return c11Val{nvals: 1, canon: c11CanonCigar(c), sweep: func() {
			_, q := c.Lengths()
			c11SweepCigar(c, q)
			c11SweepCigar(c, 0)
			ref := c11RefsFor(1)[0]
			r := &sam.Record{Name: "q", Ref: ref, Pos: 100, MatePos: -1, Cigar: c}
			_ = r.End()
			_ = r.Bin()
			_ = r.Len()
			_ = r.String()
			_, _ = r.MarshalSAM(sam.FlagDecimal)
		}}, nil
	})
	// --- accessors on raw CIGAR words and raw aux bytes (values a BAM record can carry)
	c11Register("sam.Cigar/raw", func(in []byte) (c11Val, error) {
		if len(in)%4 != 0 {
			return c11Val{}, errors.New("harness: not a multiple of 4")
		}
		c := make(sam.Cigar, len(in)/4)
		for i := range c {
			c[i] = sam.CigarOp(uint32(in[4*i]) | uint32(in[4*i+1])<<8 | uint32(in[4*i+2])<<16 | uint32(in[4*i+3])<<24)
		}
		return c11Val{nvals: 1, canon: c11CanonCigar(c), sweep: func() {
			r := &sam.Record{Name: "q", Ref: c11RefsFor(1)[0], Pos: 100, MatePos: -1, Cigar: c}
			valid := c.IsValid(10)
			end := r.End()
			ref, read := c.Lengths()
			var str []byte
			for _, co := range c {
				str = append(str, co.Type().String()...)
			}
			_ = r.Bin()
			_ = r.Len()
			_ = c.String()
			c11SweepCanon = fmt.Sprintf("valid=%v end=%d lens=%d,%d str=%s", valid, end, ref, read, hexs(str))
		}}, nil
	})
	// --- indexes
	c11Register("bam.ReadIndex", func(in []byte) (c11Val, error) {
		idx, err := bam.ReadIndex(bytes.NewReader(in))
		if err != nil {
			return c11Val{}, err
		}
		if idx == nil {
			return c11Val{nvals: 1, canon: "nil"}, nil
		}
		var w c11Discard
		_ = bam.WriteIndex(&w, idx)
		return c11Val{nvals: 1, canon: fmt.Sprintf("%d %d", idx.NumRefs(), w.n), sweep: func() { c11SweepBAI(idx) }}, nil
	})
	c11Register("csi.ReadFrom", func(in []byte) (c11Val, error) {
		idx, err := csi.ReadFrom(bytes.NewReader(in))
		if err != nil {
			return c11Val{}, err
		}
		if idx == nil {
			return c11Val{nvals: 1, canon: "nil"}, nil
		}
		return c11Val{nvals: 1, canon: fmt.Sprint(idx.NumRefs()), sweep: func() { c11SweepCSI(idx) }}, nil
	})
	c11Register("tabix.ReadFrom", func(in []byte) (c11Val, error) {
		idx, err := tabix.ReadFrom(bytes.NewReader(in))
		if err != nil {
			return c11Val{}, err
		}
		if idx == nil {
			return c11Val{nvals: 1, canon: "nil"}, nil
		}
		var w c11Discard
		_ = tabix.WriteTo(&w, idx)
		return c11Val{nvals: 1, canon: fmt.Sprintf("%d %d", idx.NumRefs(), w.n), sweep: func() { c11SweepTabix(idx) }}, nil
	})
	// --- FAI
	c11Register("fai.ReadFrom", func(in []byte) (c11Val, error) {
		idx, err := fai.ReadFrom(bytes.NewReader(in))
		if err != nil {
			return c11Val{}, err
		}
		return c11Val{nvals: 1, canon: fmt.Sprint(len(idx)), sweep: func() { c11SweepFAI(idx) }}, nil
	})
	c11Register("fai.NewIndex", func(in []byte) (c11Val, error) {
		idx, err := fai.NewIndex(bytes.NewReader(in))
		if err != nil {
			return c11Val{}, err
		}
		return c11Val{nvals: 1, canon: fmt.Sprint(len(idx)), sweep: func() {
			_ = fai.WriteTo(io.Discard, idx)
			f := fai.NewFile(bytes.NewReader(in), idx)
			buf := make([]byte, 64)
			n := 0
			for name, rec := range idx {
				if n++; n > 40 {
					break
				}
				if rec.Length > 0 {
					_ = rec.Position(0)
					_ = rec.Position(rec.Length - 1)
				}
				if s, err := f.Seq(name); err == nil {
					for k := 0; k < 64; k++ {
						if _, err := s.Read(buf); err != nil {
							break
						}
					}
				}
			}
		}}, nil
	})
	// --- CRAM
	c11Register("cram.Reader", func(in []byte) (c11Val, error) {
		cr, err := cram.NewReader(bytes.NewReader(in))
		if err != nil {
			return c11Val{}, err
		}
		var blocks []*cram.Block
		nc := 0
		for cr.Next() && nc < 16 {
			nc++
			c := cr.Container()
			for c.Next() && len(blocks) < 64 {
				blocks = append(blocks, c.Block())
			}
			_ = c.Err()
		}
		tail := cr.Err()
		_, _ = cram.HasEOF(bytes.NewReader(in))
		v := c11Val{nvals: 1 + nc + len(blocks), canon: fmt.Sprintf("%d %d %s", nc, len(blocks), errClass(tail))}
		v.sweep = func() {
			for _, b := range blocks {
				x, err := b.Value()
				if err != nil {
					continue
				}
				if h, ok := x.(*sam.Header); ok {
					c11SweepHeader(h)
				}
				// Value is documented to be callable again on the (possibly expanded) block
				_, _ = b.Value()
			}
		}
		return v, nil
	})
	// --- ITF-8 / LTF-8
	c11Register("itf8.Decode", func(in []byte) (c11Val, error) {
		v, n, ok := itf8.Decode(in)
		if !ok {
			return c11Val{}, errors.New("short")
		}
		if n > len(in) || n < 1 {
			panic(fmt.Sprintf("harness oracle: itf8.Decode reports %d bytes read of %d", n, len(in)))
		}
		return c11Val{nvals: 1, canon: fmt.Sprintf("%d %d", v, n)}, nil
	})
	c11Register("ltf8.Decode", func(in []byte) (c11Val, error) {
		v, n, ok := ltf8.Decode(in)
		if !ok {
			return c11Val{}, errors.New("short")
		}
		if n > len(in) || n < 1 {
			panic(fmt.Sprintf("harness oracle: ltf8.Decode reports %d bytes read of %d", n, len(in)))
		}
		return c11Val{nvals: 1, canon: fmt.Sprintf("%d %d", v, n)}, nil
	})
	// --- accessors on raw aux bytes (exact capacity, like the fields bam.parseAux hands out)
	c11Register("sam.Aux/raw", func(in []byte) (c11Val, error) {
		b := make([]byte, len(in))
		copy(b, in)
		a := sam.Aux(b[:len(b):len(b)])
		return c11Val{nvals: 1, canon: hex.EncodeToString(in), sweep: func() {
			c11SweepAux(a)
			r := &sam.Record{Name: "q", Pos: -1, MatePos: -1, AuxFields: sam.AuxFields{a}}
			c11MarshalChecked(r)
		}}, nil
	})
}

// c11HeaderText is the header the SAM line decoder is given.
const c11HeaderText = "@HD\tVN:1.6\tSO:coordinate\n@SQ\tSN:chr1\tLN:1000000\n@SQ\tSN:chr2\tLN:5000\n@RG\tID:g1\tPL:ILLUMINA\tPU:u1\tLB:l1\n@PG\tID:p1\tPN:prog\n"
