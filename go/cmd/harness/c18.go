package main

// C18 — bam.Merger is a loss-free, ordered merge re-linked to the merged header.
//
// One case = k in-memory BAM inputs (written with bam.Writer), a declared sort order, an optional custom
// less, and for some inputs a failure point.  The implementation is run on it (in a child process when
// the case can overflow the stack on an unrepaired tree) and judged directly by the oracle
// (multiset, order, per-input stability, error reporting, reference ownership and names); the same
// case is given to the Lean model (command c18.merge) and the exact output sequence is compared.

import (
	"bufio"
	"bytes"
	"compress/gzip"
	"context"
	"encoding/binary"
	"encoding/hex"
	"encoding/json"
	"errors"
	"fmt"
	"io"
	"net/url"
	"os"
	"os/exec"
	"runtime"
	"runtime/debug"
	"sort"
	"strings"
	"sync"
	"time"

	"github.com/biogo/hts/bam"
	"github.com/biogo/hts/bgzf"
	"github.com/biogo/hts/sam"
)

func init() { checks["C18"] = checkC18 }

type c18Rec struct {
	Name    string `json:"n"`
	Ref     int    `json:"r"` // index into the input's reference list, -1 = unplaced
	Pos     int    `json:"p"`
	Mate    int    `json:"m"` // index into the input's reference list, -1 = no mate reference
	MatePos int    `json:"mp"`
}

type c18Input struct {
	SO   string   `json:"so"` // unknown | unsorted | queryname | coordinate
	Refs []string `json:"refs"`
	UR   bool     `json:"ur,omitempty"` // references carry a UR: field
	Recs []c18Rec `json:"recs"`
	// Fail: "" (clean), "inject" (the stream delivers Recs[:FailAt] and then the underlying reader returns an
	// error), "cuterr"/"cuteof" (the byte stream is cut FailAt bytes after the header block and the underlying
	// reader then returns an error / io.EOF).
	Fail   string `json:"fail,omitempty"`
	FailAt int    `json:"fail_at,omitempty"`
	// Bad: indices of Recs that are written as a malformed record (odd input: reference id out of range, even
	// input: read name length 0): bam.Reader.Read returns an error for it and the NEXT Read returns the
	// following record (a record-level error is not sticky).
	Bad []int `json:"bad,omitempty"`
	// LenDelta is added to the length of every reference (a reference of the same name and another length
	// makes sam.MergeHeaders, and so NewMerger, fail).
	LenDelta int `json:"len_delta,omitempty"`
}

type c18Case struct {
	Less   string     `json:"less"` // nil | pos | namedesc | matepos  (used by the implementation only for sort order unknown)
	RD     int        `json:"rd"`
	Inputs []c18Input `json:"inputs"`
}

type c18Fail struct {
	Sig  string `json:"sig"`
	What string `json:"what"`
}

type c18Outcome struct {
	Skip      string    `json:"skip,omitempty"`
	Impl      string    `json:"impl"`
	Model     string    `json:"model"` // arguments of the model line
	Fails     []c18Fail `json:"fails,omitempty"`
	NOut      int       `json:"n_out"`
	Created   bool      `json:"created"`
	PreOK     bool      `json:"pre_ok"` // every input is sorted in the declared order w.r.t. the merged header
	NonMono   bool      `json:"non_mono"`
	AnyFail   bool      `json:"any_fail"`
	NonSticky bool      `json:"non_sticky"`
	Relation  string    `json:"relation"`
}

func (o *c18Outcome) fail(sig, format string, a ...interface{}) {
	for _, f := range o.Fails {
		if f.Sig == sig {
			return
		}
	}
	o.Fails = append(o.Fails, c18Fail{sig, fmt.Sprintf(format, a...)})
}

// c18Fault is the error injected into the byte stream of input Input.
type c18Fault struct{ Input int }

func (f *c18Fault) Error() string {
	return fmt.Sprintf("c18: injected read error in input %d", f.Input)
}

type c18Reader struct {
	data  []byte
	off   int
	limit int
	err   error
}

func (r *c18Reader) Read(p []byte) (int, error) {
	if r.off >= r.limit {
		return 0, r.err
	}
	n := copy(p, r.data[r.off:r.limit])
	r.off += n
	return n, nil
}

var c18Orders = map[string]sam.SortOrder{"unknown": sam.UnknownOrder, "unsorted": sam.Unsorted, "queryname": sam.QueryName, "coordinate": sam.Coordinate}

func c18RefLen(name string) int {
	n := 1000
	for _, b := range []byte(name) {
		n += int(b)
	}
	return n
}

type c18Stream struct {
	data  []byte
	limit int
	err   error
}

func (s c18Stream) open() io.Reader { return &c18Reader{data: s.data, limit: s.limit, err: s.err} }

const c18EOFLen = 28

// compression level of the generated inputs (irrelevant to the merger; the default level costs ~1 MB of
// compressor state per writer)
var c18Level = gzip.NoCompression

func c18Build(in c18Input, idx int) (c18Stream, error) {
	var refs []*sam.Reference
	for _, n := range in.Refs {
		var u *url.URL
		if in.UR {
			u, _ = url.Parse("http://example.org/" + n)
		}
		r, err := sam.NewReference(n, "", "", c18RefLen(n)+in.LenDelta, nil, u)
		if err != nil {
			return c18Stream{}, err
		}
		refs = append(refs, r)
	}
	h, err := sam.NewHeader(nil, refs)
	if err != nil {
		return c18Stream{}, err
	}
	h.Version = "1.6"
	so, ok := c18Orders[in.SO]
	if !ok {
		return c18Stream{}, fmt.Errorf("bad sort order %q", in.SO)
	}
	h.SortOrder = so
	var buf bytes.Buffer
	// bam.NewWriterLevel uses a *bgzf.Writer it is given as it is, so malformed records can be written
	// between the records bam.Writer writes
	bg, err := bgzf.NewWriterLevel(&buf, c18Level, 1)
	if err != nil {
		return c18Stream{}, err
	}
	w, err := bam.NewWriterLevel(bg, h, c18Level, 1)
	if err != nil {
		return c18Stream{}, err
	}
	hdrEnd := buf.Len()
	bad := map[int]bool{}
	for _, j := range in.Bad {
		bad[j] = true
	}
	recs := in.Recs
	if in.Fail == "inject" && in.FailAt >= 0 && in.FailAt < len(recs) {
		recs = recs[:in.FailAt]
	}
	ref := func(i int) *sam.Reference {
		if i < 0 || i >= len(refs) {
			return nil
		}
		return refs[i]
	}
	for j, r := range recs {
		if bad[j] {
			if _, err := bg.Write(c18BadRecord(idx)); err != nil {
				return c18Stream{}, err
			}
			continue
		}
		rec := &sam.Record{Name: r.Name, Ref: ref(r.Ref), Pos: r.Pos, MateRef: ref(r.Mate), MatePos: r.MatePos, TempLen: idx*1000 + j + 1}
		if err := w.Write(rec); err != nil {
			return c18Stream{}, err
		}
	}
	if err := w.Close(); err != nil {
		return c18Stream{}, err
	}
	s := c18Stream{data: buf.Bytes(), limit: buf.Len(), err: io.EOF}
	switch in.Fail {
	case "inject":
		s.limit = len(s.data) - c18EOFLen
		s.err = &c18Fault{idx}
	case "cuterr", "cuteof":
		s.limit = hdrEnd + in.FailAt
		if s.limit > len(s.data) {
			s.limit = len(s.data)
		}
		if in.Fail == "cuterr" {
			s.err = &c18Fault{idx}
		}
	}
	return s, nil
}

// c18BadRecord is a BAM record that is well framed (block size, 32 fixed bytes, name) but does not decode:
// reference id 1000 (odd input: "reference id out of range") or l_read_name 0 (even input: "invalid read name
// length"); the two texts tell the harness whose error the merger returned.
func c18BadRecord(j int) []byte {
	name := "bad"
	b := make([]byte, 4+32+len(name)+1)
	le := binary.LittleEndian
	le.PutUint32(b[0:], uint32(32+len(name)+1))
	le.PutUint32(b[4:], 0xffffffff) // refID -1
	le.PutUint32(b[8:], 0xffffffff) // pos -1
	b[12] = byte(len(name) + 1)
	le.PutUint16(b[14:], 4680)
	le.PutUint32(b[24:], 0xffffffff) // next refID
	le.PutUint32(b[28:], 0xffffffff) // next pos
	copy(b[36:], name)
	if j%2 == 1 {
		le.PutUint32(b[4:], 1000)
	} else {
		b[12] = 0
	}
	return b
}

// c18Seg is a run of records a plain reader delivers followed by an error (or io.EOF).
type c18Seg struct {
	recs []c18Got
	err  error
}

// c18ReadPlain reads a stream with a plain bam.Reader to its end.  After an error it reads on: a
// record-level error is a fresh error value every time and the reader continues with the next record,
// a sticky error (bgzf's stored error, io.EOF) is returned again as the same value.
func c18ReadPlain(s c18Stream, rd int) (segs []c18Seg, openErr error, hdr *sam.Header) {
	r, err := bam.NewReader(s.open(), rd)
	if err != nil {
		return nil, err, nil
	}
	defer r.Close()
	cur := c18Seg{}
	var prev error
	for n := 0; n < 100000; n++ {
		rec, err := r.Read()
		if err == nil {
			cur.recs = append(cur.recs, c18Plain(rec))
			prev = nil
			continue
		}
		if prev != nil && err == prev {
			return segs, nil, r.Header() // the same error value again: sticky
		}
		cur.err = err
		segs = append(segs, cur)
		if err == io.EOF {
			return segs, nil, r.Header()
		}
		cur, prev = c18Seg{}, err
	}
	return segs, errors.New("plain reader does not end"), nil
}

// c18ModelInput renders what input i delivers for the model: segments separated by "+".
func c18ModelInput(i int, segs []c18Seg) string {
	var ss []string
	for _, sg := range segs {
		parts := []string{"e"}
		if sg.err != io.EOF {
			parts[0] = fmt.Sprintf("f%d", i)
		}
		for _, g := range sg.recs {
			parts = append(parts, fmt.Sprintf("%s:%d:%d:%d:%d:%d", hex.EncodeToString([]byte(g.name)), g.refID, g.pos, g.mateID, g.matePos, g.uid%1000-1))
		}
		ss = append(ss, strings.Join(parts, ";"))
	}
	return strings.Join(ss, "+")
}

// c18Got is one record as a plain reader of the input delivers it.
type c18Got struct {
	uid     int
	name    string
	refID   int
	ref     string
	pos     int
	mateID  int
	mate    string
	matePos int
}

func c18Plain(r *sam.Record) c18Got {
	return c18Got{uid: r.TempLen, name: r.Name, refID: r.Ref.ID(), ref: r.Ref.Name(), pos: r.Pos, mateID: r.MateRef.ID(), mate: r.MateRef.Name(), matePos: r.MatePos}
}

func c18Less(name string) func(a, b *sam.Record) bool {
	switch name {
	case "pos":
		return func(a, b *sam.Record) bool { return a.Pos < b.Pos }
	case "namedesc":
		return func(a, b *sam.Record) bool { return a.Name > b.Name }
	case "matepos":
		return func(a, b *sam.Record) bool { return a.MatePos < b.MatePos }
	}
	return nil
}

// c18Mode returns the order the merger is expected to apply: "cat", "queryname", "coordinate" or a custom less name.
func c18Mode(cs c18Case) string {
	if len(cs.Inputs) == 0 {
		return "cat"
	}
	switch cs.Inputs[0].SO {
	case "unsorted":
		return "cat"
	case "queryname", "coordinate":
		return cs.Inputs[0].SO
	}
	if c18Less(cs.Less) == nil {
		return "cat"
	}
	return cs.Less
}

func c18ErrInput(err error, solo [][]error) string {
	if err == io.EOF {
		return "eof"
	}
	var f *c18Fault
	if errors.As(err, &f) {
		return fmt.Sprintf("err:%d", f.Input)
	}
	hit := -1
	for i, es := range solo {
		for _, e := range es {
			if e != nil && e != io.EOF && e.Error() == err.Error() {
				if hit >= 0 && hit != i {
					return "err:x"
				}
				hit = i
			}
		}
	}
	if hit >= 0 {
		return fmt.Sprintf("err:%d", hit)
	}
	return "err:x"
}

// c18Eval runs one case on the implementation, judges it, and prepares the model line.
func c18Eval(cs c18Case) (out c18Outcome) {
	k := len(cs.Inputs)
	streams := make([]c18Stream, k)
	for i, in := range cs.Inputs {
		s, err := c18Build(in, i)
		if err != nil {
			out.Skip = "build: " + err.Error()
			return
		}
		streams[i] = s
	}
	rd := cs.RD
	if rd < 1 {
		rd = 1
	}
	// what a plain reader delivers for each input: runs of records separated by errors, and how it ends
	segs := make([][]c18Seg, k)
	solo := make([]map[int]c18Got, k) // every record the input delivers at all, by uid
	first := make([][]c18Got, k)      // the records in front of the input's first error
	soloErr := make([]error, k)       // the first error (io.EOF for a clean input)
	var allErrs [][]error
	hdrs := make([]*sam.Header, k)
	for i := range streams {
		sg, err, h := c18ReadPlain(streams[i], rd)
		if err != nil {
			out.Skip = "open: " + err.Error()
			return
		}
		segs[i], hdrs[i] = sg, h
		solo[i] = map[int]c18Got{}
		var errs []error
		for n, g := range sg {
			for _, rec := range g.recs {
				solo[i][rec.uid] = rec
			}
			if n == 0 {
				first[i] = g.recs
				soloErr[i] = g.err
			}
			errs = append(errs, g.err)
		}
		allErrs = append(allErrs, errs)
		if soloErr[i] != io.EOF {
			out.AnyFail = true
		}
		if len(sg) > 1 {
			out.NonSticky = true
		}
	}

	// the model's inputs
	var sos, ins []string
	for i, in := range cs.Inputs {
		sos = append(sos, in.SO[:1])
		if in.SO == "unsorted" {
			sos[i] = "n"
		}
		ins = append(ins, c18ModelInput(i, segs[i]))
	}
	if k == 0 {
		sos, ins = []string{"-"}, []string{"-"}
	}
	// does sam.MergeHeaders accept the headers?  (its result is given data for the model)
	hdrErr := false
	if k >= 2 {
		same := true
		for _, in := range cs.Inputs {
			if in.SO != cs.Inputs[0].SO {
				same = false
			}
		}
		if same {
			if _, _, err := sam.MergeHeaders(hdrs); err != nil {
				hdrErr = true
			}
		}
	}

	readers := make([]*bam.Reader, k)
	for i := range streams {
		r, err := bam.NewReader(streams[i].open(), rd)
		if err != nil {
			out.Skip = "open: " + err.Error()
			return
		}
		readers[i] = r
		defer r.Close()
	}
	var m *bam.Merger
	var nerr error
	o := guard(func() { m, nerr = bam.NewMerger(c18Less(cs.Less), readers...) })
	if o.panicked {
		out.fail("panic:"+topRepoFrame(o.stack), "NewMerger panicked: %s", o.panicVal)
		out.Impl = "panic"
		out.Model = fmt.Sprintf("%s %s %s %s", strings.Join(sos, ""), cs.Less, c18GuessLinks(cs), strings.Join(ins, "/"))
		return
	}
	if nerr != nil {
		switch {
		case nerr == io.EOF:
			out.Impl = "newerr:eof"
		case strings.Contains(nerr.Error(), "sort order mismatch"):
			out.Impl = "newerr:mismatch"
		case hdrErr:
			out.Impl = "newerr:hdr"
		default:
			out.Impl = "newerr:other"
			out.Skip = "NewMerger: " + nerr.Error()
			return
		}
		lk := "x"
		if hdrErr {
			lk = "E"
		}
		out.Model = fmt.Sprintf("%s %s %s %s", strings.Join(sos, ""), cs.Less, lk, strings.Join(ins, "/"))
		return
	}
	if hdrErr {
		out.fail("c18.newmerger.header-error-dropped", "sam.MergeHeaders rejects the headers but NewMerger succeeded")
	}
	out.Created = true
	hrefs := m.Header().Refs()
	byName := map[string]int{}
	for i, r := range hrefs {
		if _, dup := byName[r.Name()]; dup {
			out.fail("c18.header.duplicate-name", "merged header lists %q twice", r.Name())
		}
		byName[r.Name()] = i
	}
	if m.Header().SortOrder != c18Orders[cs.Inputs[0].SO] {
		out.fail("c18.header.sortorder", "merged header sort order %v, inputs declare %s", m.Header().SortOrder, cs.Inputs[0].SO)
	}
	// links by name: source reference index -> merged reference index
	var links []string
	for i, in := range cs.Inputs {
		var l []string
		last := -1
		for _, n := range in.Refs {
			j, ok := byName[n]
			if !ok {
				out.fail("c18.header.missingref", "reference %q of input %d is not in the merged header", n, i)
				j = 999999
			}
			if j <= last {
				out.NonMono = true
			}
			last = j
			l = append(l, fmt.Sprint(j))
		}
		if len(l) == 0 {
			links = append(links, "-")
		} else {
			links = append(links, strings.Join(l, ","))
		}
	}
	out.Model = fmt.Sprintf("%s %s %s %s", strings.Join(sos, ""), cs.Less, strings.Join(links, "/"), strings.Join(ins, "/"))

	// drain
	total := 0
	for i := range solo {
		total += len(solo[i])
	}
	var got []*sam.Record
	var final error
	o = guard(func() {
		for n := 0; n < total+3; n++ {
			rec, err := m.Read()
			if err != nil {
				final = err
				if rec != nil {
					out.fail("c18.read.record-with-error", "Read returned a record together with error %v", err)
				}
				return
			}
			if rec == nil {
				out.fail("c18.read.nil-nil", "Read returned nil, nil")
				return
			}
			got = append(got, rec)
		}
	})
	out.NOut = len(got)
	if o.panicked {
		out.fail("panic:"+topRepoFrame(o.stack), "Read panicked after %d records: %s", len(got), o.panicVal)
	}

	// implementation line
	refIdx := func(r *sam.Reference) string {
		if r == nil {
			return "-"
		}
		for i, hr := range hrefs {
			if hr == r {
				return fmt.Sprint(i)
			}
		}
		return "x"
	}
	var seq []string
	for _, r := range got {
		uid := r.TempLen
		seq = append(seq, fmt.Sprintf("%d.%d:%s:%s", uid/1000, uid%1000-1, refIdx(r.Ref), refIdx(r.MateRef)))
	}
	fin := "more"
	switch {
	case o.panicked:
		fin = "panic"
	case final != nil:
		fin = c18ErrInput(final, allErrs)
	}
	// after the final error: two more calls must return an error again and no record
	again := "-"
	if !o.panicked && final != nil {
		var cls []string
		o2 := guard(func() {
			for n := 0; n < 2; n++ {
				rec, err := m.Read()
				switch {
				case rec != nil:
					cls = append(cls, "rec")
					out.fail("c18.read.after-final", "Read returned a record after it had returned the error %v", final)
				case err == nil:
					cls = append(cls, "nil")
					out.fail("c18.read.nil-nil", "Read returned nil, nil")
				default:
					cls = append(cls, c18ErrInput(err, allErrs))
				}
			}
		})
		if o2.panicked {
			out.fail("panic:"+topRepoFrame(o2.stack), "Read after the final error panicked: %s", o2.panicVal)
			cls = append(cls, "panic")
		}
		again = strings.Join(cls, ",")
	}
	out.Impl = strings.Join(seq, ",") + "|" + fin + "|" + again

	// ---------------- oracle
	mode := c18Mode(cs)
	seen := map[int]bool{}
	lastIdx := make([]int, k)
	for i := range lastIdx {
		lastIdx[i] = -1
	}
	var plain []c18Got // outputs as source records (for the order check)
	for _, r := range got {
		uid := r.TempLen
		i, j := uid/1000, uid%1000-1
		if i < 0 || i >= k {
			out.fail("c18.foreign-record", "output record with TLEN %d is not a record any input delivers", uid)
			continue
		}
		src, known := solo[i][uid]
		if !known {
			out.fail("c18.foreign-record", "output record with TLEN %d is not a record any input delivers", uid)
			continue
		}
		if seen[uid] {
			out.fail("c18.duplicate", "record %d of input %d returned twice", j, i)
		}
		seen[uid] = true
		if j <= lastIdx[i] {
			out.fail("c18.unstable", "record %d of input %d returned after record %d of the same input", j, i, lastIdx[i])
		}
		lastIdx[i] = j
		if r.Name != src.name || r.Pos != src.pos || r.MatePos != src.matePos {
			out.fail("c18.record.changed", "record %d of input %d changed: %s/%d/%d, source %s/%d/%d", j, i, r.Name, r.Pos, r.MatePos, src.name, src.pos, src.matePos)
		}
		check := func(what string, ref *sam.Reference, srcName string) {
			if ref == nil {
				if srcName != "*" {
					out.fail("c18."+what+".dropped", "record %d of input %d lost its %s %q", j, i, what, srcName)
				}
				return
			}
			if ref.Name() != srcName {
				out.fail("c18."+what+".name", "record %d of input %d: %s is named %q, in its source %q", j, i, what, ref.Name(), srcName)
			}
			id := ref.ID()
			if id >= 0 && id < len(hrefs) && hrefs[id] == ref {
				return
			}
			if refIdx(ref) != "x" {
				out.fail("c18."+what+".badid", "record %d of input %d: %s %q is listed by the merged header but reports ID %d", j, i, what, ref.Name(), id)
			} else {
				out.fail("c18."+what+".foreign", "record %d of input %d: %s %q (ID %d) does not belong to the merged header", j, i, what, ref.Name(), id)
			}
		}
		check("ref", r.Ref, src.ref)
		check("materef", r.MateRef, src.mate)
		plain = append(plain, src)
	}
	switch {
	case o.panicked:
	case final == nil:
		out.fail("c18.noterminate", "%d reads for %d input records and still no error", total+3, total)
	case final == io.EOF:
		if out.AnyFail {
			for i, e := range soloErr {
				if e != io.EOF {
					out.fail("c18.error.dropped", "input %d returns %q after %d records but the merged stream ends with io.EOF", i, e, len(first[i]))
					break
				}
			}
		} else if len(seen) != total {
			out.fail("c18.lost", "%d of %d records returned before io.EOF", len(seen), total)
		}
	default:
		if !out.AnyFail {
			out.fail("c18.error.spurious", "all inputs end cleanly but the merged stream ends with %q", final)
		} else if fin == "err:x" {
			out.fail("c18.error.other", "merged stream ends with %q which no input reported", final)
		}
	}
	// order
	key := func(g c18Got) (int, int) {
		if g.ref == "*" {
			return 1 << 30, 0
		}
		return byName[g.ref], g.pos
	}
	var less func(a, b c18Got) bool
	switch mode {
	case "cat":
		less = func(a, b c18Got) bool { return a.uid < b.uid }
	case "queryname":
		less = func(a, b c18Got) bool { return a.name < b.name }
	case "coordinate":
		less = func(a, b c18Got) bool {
			ar, ap := key(a)
			br, bp := key(b)
			return ar < br || (ar == br && ap < bp)
		}
	case "pos":
		less = func(a, b c18Got) bool { return a.pos < b.pos }
	case "namedesc":
		less = func(a, b c18Got) bool { return a.name > b.name }
	case "matepos":
		less = func(a, b c18Got) bool { return a.matePos < b.matePos }
	}
	out.PreOK = true
	for i := range first {
		for j := 1; j < len(first[i]); j++ {
			if less(first[i][j], first[i][j-1]) {
				out.PreOK = false
			}
		}
	}
	if out.PreOK {
		for t := 1; t < len(plain); t++ {
			if less(plain[t], plain[t-1]) {
				a, b := plain[t-1], plain[t]
				out.fail("c18."+c18ModeClass(mode)+".unsorted", "every input is sorted (%s, merged header %v) but output %d.%d (%s %s:%d) precedes %d.%d (%s %s:%d)", mode, c18Names(hrefs),
					a.uid/1000, a.uid%1000-1, a.name, a.ref, a.pos, b.uid/1000, b.uid%1000-1, b.name, b.ref, b.pos)
				break
			}
		}
	}
	return
}

func c18ModeClass(mode string) string {
	switch mode {
	case "cat", "queryname", "coordinate":
		return mode
	}
	return "custom"
}

func c18Names(refs []*sam.Reference) []string {
	var n []string
	for _, r := range refs {
		n = append(n, r.Name())
	}
	return n
}

// c18GuessLinks computes the links the merged header would have (first occurrence order of names),
// used only for the model line of a case in which NewMerger panicked.
func c18GuessLinks(cs c18Case) string {
	idx := map[string]int{}
	var links []string
	for _, in := range cs.Inputs {
		var l []string
		for _, n := range in.Refs {
			if _, ok := idx[n]; !ok {
				idx[n] = len(idx)
			}
			l = append(l, fmt.Sprint(idx[n]))
		}
		if len(l) == 0 {
			links = append(links, "-")
		} else {
			links = append(links, strings.Join(l, ","))
		}
	}
	if len(links) == 0 {
		return "x"
	}
	return strings.Join(links, "/")
}

// c18Risky: on a tree without the repair of the concatenation mode, a non-EOF read error makes
// Merger.Read recurse without bound, which is a fatal (unrecoverable) stack overflow: such cases are
// evaluated in a child process.
func c18Risky(cs c18Case) bool {
	if c18Mode(cs) != "cat" {
		return false
	}
	for _, in := range cs.Inputs {
		if in.Fail != "" || len(in.Bad) > 0 {
			return true
		}
	}
	return false
}

func c18EvalGuarded(cs c18Case) c18Outcome {
	var out c18Outcome
	o := guardTimeout(30*time.Second, func() { out = c18Eval(cs) })
	if o.timedOut {
		return c18Outcome{Impl: "hang", Fails: []c18Fail{{"c18.hang", "the merge did not finish in 30 s"}}}
	}
	if o.panicked {
		return c18Outcome{Impl: "panic", Fails: []c18Fail{{"panic:" + topRepoFrame(o.stack), o.panicVal}}}
	}
	return out
}

// c18Child is the child-process loop: one case per input line, one outcome per output line.
func c18Child() {
	runtime.GOMAXPROCS(1) // see checkC18
	debug.SetMaxStack(1 << 20)
	in := bufio.NewScanner(os.Stdin)
	in.Buffer(make([]byte, 1<<20), 1<<26)
	w := bufio.NewWriter(os.Stdout)
	for in.Scan() {
		var cs c18Case
		if err := json.Unmarshal(in.Bytes(), &cs); err != nil {
			fmt.Fprintln(os.Stderr, "c18 child:", err)
			os.Exit(3)
		}
		out := c18EvalGuarded(cs)
		js, _ := json.Marshal(out)
		w.Write(js)
		w.WriteByte('\n')
		w.Flush()
	}
	os.Exit(0)
}

// c18InChild evaluates the cases in child processes; a crash is attributed to the first case without an answer.
func c18InChild(cases []c18Case) []c18Outcome {
	outs := make([]c18Outcome, 0, len(cases))
	crashes := 0
	for len(outs) < len(cases) {
		rest := cases[len(outs):]
		if crashes >= 4 {
			// this tree dies on the class; the failing inputs are recorded, the remaining cases are not evaluated
			for range rest {
				outs = append(outs, c18Outcome{Skip: "not evaluated: the child process crashed 4 times on this class of cases"})
			}
			break
		}
		var in bytes.Buffer
		for _, cs := range rest {
			js, _ := json.Marshal(cs)
			in.Write(js)
			in.WriteByte('\n')
		}
		ctx, cancel := context.WithTimeout(context.Background(), 120*time.Second)
		cmd := exec.CommandContext(ctx, os.Args[0], "C18")
		cmd.Env = append(os.Environ(), "C18_CHILD=1")
		cmd.Stdin = &in
		var stdout, stderr bytes.Buffer
		cmd.Stdout = &stdout
		cmd.Stderr = &stderr
		err := cmd.Run()
		cancel()
		n := 0
		sc := bufio.NewScanner(&stdout)
		sc.Buffer(make([]byte, 1<<20), 1<<26)
		for sc.Scan() {
			var o c18Outcome
			if json.Unmarshal(sc.Bytes(), &o) != nil {
				break
			}
			outs = append(outs, o)
			n++
		}
		if n == len(rest) {
			break
		}
		// the case after the last answer killed the child
		msg := stderr.String()
		if len(msg) > 300 {
			msg = msg[:300]
		}
		o := c18Outcome{Impl: "crash"}
		switch {
		case strings.Contains(msg, "stack exceeds"):
			o.fail("c18.cat.readerror.recursion", "Merger.Read recursed until the goroutine stack limit was exceeded (fatal): %s", strings.SplitN(msg, "\n", 2)[0])
		case ctx.Err() != nil:
			o.fail("c18.hang", "child process did not finish in 120 s")
		default:
			o.fail("c18.crash", "child process died (%v): %s", err, msg)
		}
		// the model line for it: computed without running the merger
		o.Model = c18ModelOnly(rest[n])
		outs = append(outs, o)
		crashes++
	}
	return outs
}

// c18ModelOnly prepares the model line of a case without running the merger (links guessed by name order).
func c18ModelOnly(cs c18Case) string {
	var sos, ins []string
	for i, in := range cs.Inputs {
		so := in.SO[:1]
		if in.SO == "unsorted" {
			so = "n"
		}
		sos = append(sos, so)
		s, err := c18Build(in, i)
		if err != nil {
			return ""
		}
		segs, err, _ := c18ReadPlain(s, 1)
		if err != nil {
			return ""
		}
		ins = append(ins, c18ModelInput(i, segs))
	}
	return fmt.Sprintf("%s %s %s %s", strings.Join(sos, ""), cs.Less, c18GuessLinks(cs), strings.Join(ins, "/"))
}

// ---------------------------------------------------------------------------
// generators

var c18NamePool = []string{"a", "b", "ab", "b0", "B", "r", "aa"}
var c18RefPool = []string{"a", "b", "c", "z", "chr1", "chr10", "chr2", "M"}

func c18SortInput(in *c18Input, mode string) {
	var less func(a, b c18Rec) bool
	switch mode {
	case "queryname":
		less = func(a, b c18Rec) bool { return a.Name < b.Name }
	case "coordinate":
		less = func(a, b c18Rec) bool {
			ar, br := a.Ref, b.Ref
			if ar < 0 {
				ar = 1 << 30
			}
			if br < 0 {
				br = 1 << 30
			}
			return ar < br || (ar == br && ar != 1<<30 && a.Pos < b.Pos)
		}
	case "pos":
		less = func(a, b c18Rec) bool { return a.Pos < b.Pos }
	case "namedesc":
		less = func(a, b c18Rec) bool { return a.Name > b.Name }
	case "matepos":
		less = func(a, b c18Rec) bool { return a.MatePos < b.MatePos }
	default:
		return
	}
	sort.SliceStable(in.Recs, func(i, j int) bool { return less(in.Recs[i], in.Recs[j]) })
}

// c18GenPos: positions 0..3 (ties are frequent), and the boundaries of the BAM position field: -1 (a record
// that has a reference but no position, SAM POS 0 — legal, written and read back unchanged, and the smallest
// position of its reference), 2^30 and 2^31-1.
func c18GenPos(rnd *Rand) int {
	switch rnd.intn(12) {
	case 0, 1:
		return -1
	case 2:
		return []int{1 << 30, 1<<31 - 1, 1<<31 - 2}[rnd.intn(3)]
	}
	return rnd.intn(4)
}

func c18Gen(rnd *Rand, thorough bool) (c18Case, string) {
	var cs c18Case
	cs.RD = 1
	if rnd.coin(1, 10) {
		cs.RD = 2
	}
	k := []int{1, 2, 2, 2, 2, 3, 3, 3, 4, 4}[rnd.intn(10)]
	if thorough && rnd.coin(1, 20) {
		k = rnd.rng(5, 7)
	}
	if rnd.coin(1, 200) {
		k = 0
	}
	so := []string{"unknown", "unknown", "unknown", "unsorted", "queryname", "queryname", "coordinate", "coordinate", "coordinate"}[rnd.intn(9)]
	cs.Less = "nil"
	if so == "unknown" && rnd.coin(3, 4) || rnd.coin(1, 10) {
		cs.Less = []string{"pos", "namedesc", "matepos"}[rnd.intn(3)]
	}
	// reference lists
	relation := []string{"equal", "equal", "disjoint", "overlap", "overlap", "shuffled", "none"}[rnd.intn(7)]
	perm := rnd.intn(2) == 0
	universe := append([]string(nil), c18RefPool...)
	if perm {
		for i := len(universe) - 1; i > 0; i-- {
			j := rnd.intn(i + 1)
			universe[i], universe[j] = universe[j], universe[i]
		}
	}
	nu := rnd.rng(1, 4)
	universe = universe[:nu+rnd.intn(3)]
	ur := rnd.coin(1, 25)
	for i := 0; i < k; i++ {
		in := c18Input{SO: so, UR: ur}
		switch relation {
		case "equal":
			in.Refs = append([]string(nil), universe[:nu]...)
		case "disjoint":
			for j, n := range universe {
				if j%k == i {
					in.Refs = append(in.Refs, n)
				}
			}
		case "overlap":
			for _, n := range universe {
				if rnd.coin(2, 3) {
					in.Refs = append(in.Refs, n)
				}
			}
		case "shuffled":
			for _, n := range universe {
				if rnd.coin(3, 4) {
					in.Refs = append(in.Refs, n)
				}
			}
			for a := len(in.Refs) - 1; a > 0; a-- {
				b := rnd.intn(a + 1)
				in.Refs[a], in.Refs[b] = in.Refs[b], in.Refs[a]
			}
		}
		n := []int{0, 0, 1, 1, 2, 2, 3, 4, 5, 6}[rnd.intn(10)]
		if thorough && rnd.coin(1, 30) {
			n = rnd.rng(7, 40)
		}
		for j := 0; j < n; j++ {
			r := c18Rec{Name: c18NamePool[rnd.intn(len(c18NamePool))], Ref: -1, Pos: -1, Mate: -1, MatePos: -1}
			if len(in.Refs) > 0 && !rnd.coin(1, 5) {
				r.Ref = rnd.intn(len(in.Refs))
				r.Pos = c18GenPos(rnd)
			}
			if len(in.Refs) > 0 && rnd.coin(3, 5) {
				r.Mate = rnd.intn(len(in.Refs))
				if rnd.coin(1, 3) && r.Ref >= 0 {
					r.Mate = r.Ref
				}
				r.MatePos = c18GenPos(rnd)
			}
			in.Recs = append(in.Recs, r)
		}
		cs.Inputs = append(cs.Inputs, in)
	}
	mode := c18Mode(cs)
	if !rnd.coin(1, 12) {
		for i := range cs.Inputs {
			c18SortInput(&cs.Inputs[i], mode)
		}
	}
	if k > 1 && rnd.coin(1, 40) {
		cs.Inputs[rnd.intn(k)].SO = []string{"unknown", "unsorted", "queryname", "coordinate"}[rnd.intn(4)]
	}
	// malformed records: the reader returns an error for them and then goes on with the next record
	if k > 0 && rnd.coin(1, 6) {
		parity := map[int]bool{}
		for f := 0; f < 1+rnd.intn(2); f++ {
			i := rnd.intn(k)
			in := &cs.Inputs[i]
			if parity[i%2] || len(in.Recs) == 0 {
				continue
			}
			parity[i%2] = true
			j := rnd.intn(len(in.Recs))
			in.Bad = []int{j}
			if rnd.coin(1, 3) && j+1 < len(in.Recs) {
				in.Bad = append(in.Bad, j+1+rnd.intn(len(in.Recs)-j-1))
			}
		}
	}
	// a reference of another length under the same name: sam.MergeHeaders fails
	if k > 1 && rnd.coin(1, 40) {
		cs.Inputs[1+rnd.intn(k-1)].LenDelta = 1
	}
	// failing inputs
	if k > 0 && rnd.coin(1, 4) {
		nf := 1
		if rnd.coin(1, 4) {
			nf = 2
		}
		cutUsed := false
		for f := 0; f < nf; f++ {
			in := &cs.Inputs[rnd.intn(k)]
			switch {
			case rnd.coin(3, 4) || cutUsed:
				in.Fail = "inject"
				in.FailAt = rnd.intn(len(in.Recs) + 1)
			default:
				in.Fail = []string{"cuterr", "cuteof"}[rnd.intn(2)]
				in.FailAt = rnd.intn(60 + 20*len(in.Recs))
				cutUsed = true
			}
		}
	}
	return cs, relation
}

// c18Witnesses are the minimal inputs of the defects found on the unrepaired tree (run first, every run).
func c18Witnesses() []c18Case {
	rec := func(n string, r, p, m, mp int) c18Rec { return c18Rec{n, r, p, m, mp} }
	in := func(so string, refs []string, recs ...c18Rec) c18Input {
		return c18Input{SO: so, Refs: refs, Recs: recs}
	}
	ab := []string{"a", "b"}
	za := []string{"z", "a"}
	failing := in("unsorted", ab, rec("a", 0, 1, -1, -1), rec("b", 0, 2, -1, -1))
	failing.Fail, failing.FailAt = "inject", 1
	failingQ := in("queryname", ab, rec("a", 0, 1, -1, -1), rec("b", 0, 2, -1, -1))
	failingQ.Fail, failingQ.FailAt = "inject", 1
	ur := in("queryname", ab, rec("a", 0, 1, 1, 2))
	ur.UR = true
	badMid := in("unsorted", ab, rec("a", 0, 1, -1, -1), rec("b", 0, 2, -1, -1), rec("c", 0, 3, -1, -1))
	badMid.Bad = []int{1}
	badMidQ := in("queryname", ab, rec("a", 0, 1, -1, -1), rec("b", 0, 2, -1, -1), rec("c", 0, 3, -1, -1))
	badMidQ.Bad = []int{1}
	otherLen := in("queryname", ab, rec("b", 0, 1, -1, -1))
	otherLen.LenDelta = 1
	return []c18Case{
		// mate on another reference, two inputs with different reference lists
		{Less: "nil", RD: 1, Inputs: []c18Input{in("queryname", ab, rec("a", 0, 1, 1, 2)), in("queryname", []string{"b", "c"}, rec("b", 0, 1, 1, 3))}},
		// an empty input among two sorted inputs
		{Less: "nil", RD: 1, Inputs: []c18Input{in("queryname", ab, rec("a", 0, 1, -1, -1)), in("queryname", ab)}},
		// an input failing after its first record, sorted merge
		{Less: "nil", RD: 1, Inputs: []c18Input{failingQ, in("queryname", ab, rec("c", 0, 1, -1, -1))}},
		// the same in concatenation mode
		{Less: "nil", RD: 1, Inputs: []c18Input{failing, in("unsorted", ab, rec("c", 0, 1, -1, -1))}},
		// header order z,a: coordinate order is z before a
		{Less: "nil", RD: 1, Inputs: []c18Input{
			in("coordinate", za, rec("r", 0, 5, -1, -1), rec("r", 1, 5, -1, -1)),
			in("coordinate", za, rec("r", 0, 6, -1, -1), rec("r", 1, 6, -1, -1))}},
		// identical headers whose references carry UR:
		{Less: "nil", RD: 1, Inputs: []c18Input{ur, ur}},
		// a malformed record in the middle of the first of two concatenated inputs (record-level error, not sticky)
		{Less: "nil", RD: 1, Inputs: []c18Input{badMid, in("unsorted", ab, rec("d", 0, 1, -1, -1))}},
		// the same, sorted
		{Less: "nil", RD: 1, Inputs: []c18Input{badMidQ, in("queryname", ab, rec("bb", 0, 1, -1, -1))}},
		// a placed record without a position (Pos -1, mate likewise) at the head of one coordinate-sorted input,
		// the other input holding positions >= 0 (and the largest position) on the same reference
		{Less: "nil", RD: 1, Inputs: []c18Input{
			in("coordinate", ab, rec("p", 0, -1, 1, -1), rec("q", 0, 2, -1, -1), rec("r", 1, -1, 0, -1), rec("s", 1, 0, -1, -1), rec("t", -1, -1, -1, -1)),
			in("coordinate", ab, rec("u", 0, 0, -1, -1), rec("v", 0, 1, -1, -1), rec("w", 0, 1<<31-1, -1, -1), rec("x", 1, 5, -1, -1), rec("y", -1, -1, -1, -1)),
			in("coordinate", ab)}},
		// reference a with two lengths
		{Less: "nil", RD: 1, Inputs: []c18Input{in("queryname", ab, rec("a", 0, 1, -1, -1)), otherLen}},
	}
}

// c18Grid is the systematic family: two inputs, every list of 0..2 records over a three-record alphabet
// (placed on the first / second reference with a mate on the other, unplaced), sorted in the declared order,
// x four modes x two header pairs ([z a]/[z a] and [z a]/[a c]), without and (fail) with the second input
// failing right after its last record.
func c18Grid(fail bool) []c18Case {
	alpha := []c18Rec{{"b", 0, 1, 1, 0}, {"a", 1, 0, 0, 2}, {"ab", -1, -1, -1, -1}}
	var lists [][]c18Rec
	lists = append(lists, nil)
	for _, a := range alpha {
		lists = append(lists, []c18Rec{a})
		for _, b := range alpha {
			lists = append(lists, []c18Rec{a, b})
		}
	}
	type mode struct{ so, less string }
	modes := []mode{{"unsorted", "nil"}, {"queryname", "nil"}, {"coordinate", "nil"}, {"unknown", "pos"}}
	if fail {
		modes = modes[:2]
	}
	headers := [][2][]string{{{"z", "a"}, {"z", "a"}}, {{"z", "a"}, {"a", "c"}}}
	var out []c18Case
	for _, md := range modes {
		for _, hp := range headers {
			for _, l0 := range lists {
				for _, l1 := range lists {
					cs := c18Case{Less: md.less, RD: 1, Inputs: []c18Input{
						{SO: md.so, Refs: hp[0], Recs: append([]c18Rec(nil), l0...)},
						{SO: md.so, Refs: hp[1], Recs: append([]c18Rec(nil), l1...)}}}
					for i := range cs.Inputs {
						c18SortInput(&cs.Inputs[i], c18Mode(cs))
					}
					if fail {
						cs.Inputs[1].Fail, cs.Inputs[1].FailAt = "inject", len(l1)
					}
					out = append(out, cs)
				}
			}
		}
	}
	return out
}

func c18Key(cs c18Case) string { js, _ := json.Marshal(cs); return string(js) }

func checkC18(c *ctx) {
	if os.Getenv("C18_CHILD") != "" {
		c18Child()
		return
	}
	// Every generated input allocates a compress/flate writer (a ~650 kB object whose type has a GC program).
	// go1.23's sweeper reads mspan.largeType of such an object after it has released the span
	// (runtime/mgcsweep.go, "mheap_.freeSpan(s)" followed by "s.largeType"), so with several Ps allocating at this
	// rate the harness itself dies with SIGSEGV in runtime.(*mheap).freeManual (seen 3 out of 3 times in 60 000-case
	// runs).  With a single P nothing can reuse the span inside that window.
	runtime.GOMAXPROCS(1)
	debug.SetMemoryLimit(3 << 30)
	r := c.res
	r.Rule = "cases = witnesses of the recorded defects; the grid (2 inputs x every list of 0..2 records over {placed on ref 0 with mate on ref 1, placed on ref 1 with mate on ref 0, unplaced} x {unsorted, queryname, coordinate, custom less} x headers [z a]/[z a] and [z a]/[a c], and again with the second input failing after its last record for unsorted and queryname); then random: k = 0..4 (thorough ..7) BAM inputs written with bam.Writer (0..6 records each, thorough ..40; names over a 7-word pool with prefixes/case, positions 0..3 so ties are frequent plus the boundaries -1 (placed record without position), 2^30, 2^31-1 for Pos and MatePos, unplaced records, mates on other references), " +
		"sort order unknown(nil or custom less pos/namedesc/matepos)/unsorted/queryname/coordinate (occasionally mismatching), reference lists equal/disjoint/overlapping/shuffled (name order != header order, non-monotone links)/none, occasionally with UR:, inputs sorted in the declared order (11/12 of cases), " +
		"1/4 of cases with one or two failing inputs (read error after record n, or the byte stream cut at an arbitrary offset with an error or a bare EOF). " +
		"Non-trivial = merger created, k >= 2 and at least 2 records delivered by the inputs; distinct = distinct case."
	if c.replay != "" {
		var cs c18Case
		if err := loadReplay(c.replay, &cs); err != nil {
			r.note("replay: %v", err)
			return
		}
		out := c18InChild([]c18Case{cs})[0]
		for _, f := range out.Fails {
			r.fail(f.Sig, f.What, cs)
		}
		r.eval("replay", true)
		r.note("implementation: %s", out.Impl)
		return
	}
	n := 4000
	if c.thorough() {
		n = 60000
	}
	if v := os.Getenv("C18_N"); v != "" { // number of random cases (used for the mutation runs)
		fmt.Sscan(v, &n)
	}
	var cases []c18Case
	var rel []string
	for _, w := range c18Witnesses() {
		cases = append(cases, w)
		rel = append(rel, "witness")
	}
	for _, g := range c18Grid(false) {
		cases = append(cases, g)
		rel = append(rel, "grid")
	}
	for _, g := range c18Grid(true) {
		cases = append(cases, g)
		rel = append(rel, "grid-failing")
	}
	// lib.go's newRand(seed) starts the splitmix64 counter at seed*gamma+c, so the streams of neighbouring
	// seeds are shifts of each other; fork() re-seeds from a mixed output and decorrelates them.
	rnd := c.rnd.fork()
	for i := 0; i < n; i++ {
		cs, relation := c18Gen(rnd, c.thorough())
		cases = append(cases, cs)
		rel = append(rel, relation)
	}
	outs := make([]c18Outcome, len(cases))
	var risky []int
	var riskyCases []c18Case
	work := make(chan int, 64)
	var wg sync.WaitGroup
	for w := 0; w < 4; w++ {
		wg.Add(1)
		go func() {
			defer wg.Done()
			for i := range work {
				outs[i] = c18EvalGuarded(cases[i])
			}
		}()
	}
	for i, cs := range cases {
		if c18Risky(cs) {
			risky = append(risky, i)
			riskyCases = append(riskyCases, cs)
			continue
		}
		work <- i
	}
	close(work)
	wg.Wait()
	for j, o := range c18InChild(riskyCases) {
		outs[risky[j]] = o
	}
	d := c.drv()
	var impl []string
	for i, cs := range cases {
		o := outs[i]
		for _, f := range o.Fails {
			r.fail(f.Sig, f.What, cs)
		}
		total := 0
		for _, in := range cs.Inputs {
			total += len(in.Recs)
		}
		r.eval(c18Key(cs), o.Skip == "" && o.Created && len(cs.Inputs) >= 2 && total >= 2)
		mode := c18Mode(cs)
		r.hist(fmt.Sprintf("k%d", minInt(len(cs.Inputs), 5)))
		r.hist("mode." + c18ModeClass(mode))
		r.hist("refs." + rel[i])
		if o.Skip != "" {
			r.hist("skipped")
			if len(r.Notes) < 5 {
				r.note("skipped: %s", o.Skip)
			}
			continue
		}
		if !o.Created {
			r.hist("newmerger." + o.Impl)
		}
		if o.AnyFail {
			r.hist("input-fails")
		}
		if o.NonSticky {
			r.hist("input-error-not-sticky")
		}
		if o.NonMono {
			r.hist("links.non-monotone")
		}
		if o.Created && o.PreOK {
			r.hist("inputs-sorted")
		} else if o.Created {
			r.hist("inputs-not-sorted")
		}
		empty, unpl, mateOther := false, false, false
		for _, in := range cs.Inputs {
			if len(in.Recs) == 0 {
				empty = true
			}
			for _, rc := range in.Recs {
				if rc.Ref < 0 {
					unpl = true
				}
				if rc.Mate >= 0 && rc.Mate != rc.Ref {
					mateOther = true
				}
			}
			if in.Fail != "" {
				r.hist("fail." + in.Fail)
			}
			if in.UR {
				r.hist("refs-with-UR")
			}
		}
		if empty {
			r.hist("has-empty-input")
		}
		if unpl {
			r.hist("has-unplaced")
		}
		if mateOther {
			r.hist("has-mate-on-other-ref")
		}
		r.hist(fmt.Sprintf("out%d", minInt(o.NOut/4*4, 16)))
		if i >= len(c18Witnesses()) && i < len(c18Witnesses())+4 {
			r.sample(map[string]interface{}{"case": cs, "implementation": o.Impl})
		}
		if o.Model != "" {
			d.add("c18.merge %s", o.Model)
			impl = append(impl, o.Impl)
		}
	}
	d.compare(r, "C18", impl)
}
