package main

// Panic-site inventory for property C11 (decoders are total).
//
// For every function declared in the decoder source files listed in panicFiles this walks the
// go/ast + go/types representation and lists every expression that can panic at run time:
//
//	index      x[i] on a slice, string or array, unless the bound is discharged by the types alone
//	           (constant index into an array; array of length >= 256 indexed by a byte, ...)
//	slice      x[a:b:c] with at least one bound that is not the literal 0
//	make       make(T, n...) with a non-constant size
//	assert     x.(T) without the comma-ok form (type switches are not sites)
//	div        integer / or % (and /=, %=) with a non-constant divisor
//	shift      << or >> with a signed, non-constant count
//	panic      an explicit panic(...) call
//	deref      *p in expression position, and field selection through a pointer that is not a plain
//	           identifier (p.q.f with q of pointer type)
//	mapassign  m[k] = v (panics when m is nil)
//	stdcall    calls into the standard library that panic on bad arguments: reflect.Value methods,
//	           encoding/hex.Decode, encoding/binary ByteOrder accessors, strings/bytes.Repeat
//
// Each site carries its enclosing function, the source text of the expression and its occurrence
// index among textually identical sites of that function; each function carries a hash of its
// printed declaration (positions and comments stripped), so any edit of the function changes it.
// The harness compares this inventory with lean/expectations/C11.json on every run.

import (
	"bytes"
	"crypto/sha256"
	"encoding/hex"
	"encoding/json"
	"fmt"
	"go/ast"
	"go/constant"
	"go/printer"
	"go/token"
	"go/types"
	"os"
	"path/filepath"
	"sort"
	"strings"

	"golang.org/x/tools/go/packages"
)

// panicFiles are the decoder sources (property anchors plus the files their decoders continue in).
var panicFiles = []string{
	"bam/reader.go",
	"bam/index.go",
	"sam/parse_header.go",
	"sam/auxtags.go",
	"sam/sam.go",
	"sam/record.go",
	"sam/cigar.go",
	"internal/index_read.go",
	"csi/csi_read.go",
	"tabix/tabix.go",
	"fai/fai.go",
	"cram/cram.go",
	"cram/encoding/itf8/itf.go",
	"cram/encoding/ltf8/ltf.go",
	"bgzf/reader.go",
}

// panicOnly restricts a file to the named functions (the encoders living next to the ITF-8/LTF-8
// decoders are not decoders).
var panicOnly = map[string]map[string]bool{
	"cram/encoding/itf8/itf.go": {"Decode": true},
	"cram/encoding/ltf8/ltf.go": {"Decode": true},
}

type panicSite struct {
	Func string `json:"func"` // pkg.Func or pkg.Recv.Method
	Kind string `json:"kind"`
	Expr string `json:"expr"`
	Occ  int    `json:"occ"`
	Line int    `json:"line"` // informational only; not part of the identity
}

func (s panicSite) Key() string { return fmt.Sprintf("%s|%s|%s|%d", s.Func, s.Kind, s.Expr, s.Occ) }

type panicFunc struct {
	File  string `json:"file"`
	Hash  string `json:"hash"`
	Sites int    `json:"sites"`
}

type panicInventory struct {
	Files     []string             `json:"files"`
	Functions map[string]panicFunc `json:"functions"`
	Sites     []panicSite          `json:"sites"`
	Stats     map[string]int       `json:"stats"`
	Errors    []string             `json:"errors,omitempty"`
}

func writePanicInventory(repo, out string) error {
	inv := panicInventory{Files: panicFiles, Functions: map[string]panicFunc{}, Stats: map[string]int{}}
	dirs := map[string]bool{}
	for _, f := range panicFiles {
		dirs["./"+filepath.Dir(f)] = true
	}
	var pats []string
	for d := range dirs {
		pats = append(pats, d)
	}
	sort.Strings(pats)
	cfg := &packages.Config{Mode: packages.NeedName | packages.NeedFiles | packages.NeedSyntax | packages.NeedTypes | packages.NeedTypesInfo | packages.NeedImports | packages.NeedDeps, Dir: repo}
	pkgs, err := packages.Load(cfg, pats...)
	if err != nil {
		return err
	}
	want := map[string]bool{}
	for _, f := range panicFiles {
		want[filepath.Join(repo, f)] = true
	}
	seenFile := map[string]bool{}
	for _, p := range pkgs {
		for _, e := range p.Errors {
			inv.Errors = append(inv.Errors, e.Error())
		}
		short := strings.TrimPrefix(p.PkgPath, modPath)
		for _, file := range p.Syntax {
			name := p.Fset.Position(file.Pos()).Filename
			if !want[name] {
				continue
			}
			seenFile[name] = true
			rel, _ := filepath.Rel(repo, name)
			for _, d := range file.Decls {
				fd, ok := d.(*ast.FuncDecl)
				if !ok || fd.Body == nil {
					continue
				}
				if only := panicOnly[rel]; only != nil && !only[funcName(fd)] {
					continue
				}
				fn := short + "." + funcName(fd)
				w := &panicWalker{p: p, fn: fn, occ: map[string]int{}}
				w.walk(fd.Body)
				inv.Functions[fn] = panicFunc{File: rel, Hash: funcHash(p.Fset, fd), Sites: len(w.sites)}
				inv.Sites = append(inv.Sites, w.sites...)
			}
		}
	}
	for f := range want {
		if !seenFile[f] {
			inv.Errors = append(inv.Errors, "file not found in any loaded package: "+f)
		}
	}
	sort.SliceStable(inv.Sites, func(i, j int) bool { return inv.Sites[i].Key() < inv.Sites[j].Key() })
	for _, s := range inv.Sites {
		inv.Stats["kind:"+s.Kind]++
		inv.Stats["pkg:"+s.Func[:strings.IndexByte(s.Func, '.')]]++
	}
	inv.Stats["sites"] = len(inv.Sites)
	inv.Stats["functions"] = len(inv.Functions)
	js, err := json.MarshalIndent(inv, "", " ")
	if err != nil {
		return err
	}
	return os.WriteFile(out, js, 0o644)
}

func funcName(fd *ast.FuncDecl) string {
	if fd.Recv == nil || len(fd.Recv.List) == 0 {
		return fd.Name.Name
	}
	t := fd.Recv.List[0].Type
	for {
		switch x := t.(type) {
		case *ast.StarExpr:
			t = x.X
			continue
		case *ast.ParenExpr:
			t = x.X
			continue
		case *ast.IndexExpr:
			t = x.X
			continue
		}
		break
	}
	if id, ok := t.(*ast.Ident); ok {
		return id.Name + "." + fd.Name.Name
	}
	return "?." + fd.Name.Name
}

// funcHash hashes the printed declaration without its doc comment; go/printer given a bare node
// prints no interior comments and no positions.
func funcHash(fset *token.FileSet, fd *ast.FuncDecl) string {
	cp := *fd
	cp.Doc = nil
	var b bytes.Buffer
	cfg := printer.Config{Mode: printer.RawFormat}
	if err := cfg.Fprint(&b, token.NewFileSet(), stripPos(&cp)); err != nil {
		// fall back to printing with the original positions (still deterministic for one source text)
		b.Reset()
		printer.Fprint(&b, fset, &cp)
	}
	h := sha256.Sum256(b.Bytes())
	return hex.EncodeToString(h[:8])
}

// stripPos returns the node itself: printing with a fresh FileSet makes the printer ignore line
// information (every position is "unknown"), so the text depends on the tokens only.
func stripPos(n ast.Node) ast.Node { return n }

type panicWalker struct {
	p     *packages.Package
	fn    string
	occ   map[string]int
	sites []panicSite
	// expressions that are the X of a comma-ok assertion or the target of a map assignment
	okAssert map[ast.Expr]bool
}

func (w *panicWalker) text(e ast.Node) string {
	var b bytes.Buffer
	printer.Fprint(&b, token.NewFileSet(), e)
	s := strings.Join(strings.Fields(b.String()), " ")
	if len(s) > 160 {
		s = s[:160] + "…"
	}
	return s
}

func (w *panicWalker) add(kind string, e ast.Node) {
	txt := w.text(e)
	k := kind + "|" + txt
	n := w.occ[k]
	w.occ[k]++
	w.sites = append(w.sites, panicSite{Func: w.fn, Kind: kind, Expr: txt, Occ: n, Line: w.p.Fset.Position(e.Pos()).Line})
}

func (w *panicWalker) typeOf(e ast.Expr) types.Type {
	if tv, ok := w.p.TypesInfo.Types[e]; ok {
		return tv.Type
	}
	return nil
}

func (w *panicWalker) constVal(e ast.Expr) constant.Value {
	if e == nil {
		return nil
	}
	if tv, ok := w.p.TypesInfo.Types[e]; ok {
		return tv.Value
	}
	return nil
}

func isInteger(t types.Type) bool {
	if t == nil {
		return false
	}
	b, ok := t.Underlying().(*types.Basic)
	return ok && b.Info()&types.IsInteger != 0
}

func isSigned(t types.Type) bool {
	b, ok := t.Underlying().(*types.Basic)
	return ok && b.Info()&types.IsInteger != 0 && b.Info()&types.IsUnsigned == 0
}

// maxOfUnsigned returns the largest value of an unsigned basic type of at most 16 bits, else -1.
func maxOfUnsigned(t types.Type) int64 {
	b, ok := t.Underlying().(*types.Basic)
	if !ok {
		return -1
	}
	switch b.Kind() {
	case types.Uint8:
		return 255
	case types.Uint16:
		return 65535
	}
	return -1
}

func (w *panicWalker) walk(body ast.Node) {
	w.okAssert = map[ast.Expr]bool{}
	mapAssign := map[ast.Expr]bool{}
	ast.Inspect(body, func(n ast.Node) bool {
		switch x := n.(type) {
		case *ast.AssignStmt:
			if len(x.Lhs) == 2 && len(x.Rhs) == 1 {
				if ta, ok := x.Rhs[0].(*ast.TypeAssertExpr); ok {
					w.okAssert[ta] = true
				}
			}
			for _, l := range x.Lhs {
				if ix, ok := l.(*ast.IndexExpr); ok {
					if _, isMap := typeUnder(w.typeOf(ix.X)).(*types.Map); isMap {
						mapAssign[ix] = true
					}
				}
			}
			if (x.Tok == token.QUO_ASSIGN || x.Tok == token.REM_ASSIGN) && len(x.Rhs) == 1 {
				if isInteger(w.typeOf(x.Lhs[0])) && w.constVal(x.Rhs[0]) == nil {
					w.add("div", x)
				}
			}
			if (x.Tok == token.SHL_ASSIGN || x.Tok == token.SHR_ASSIGN) && len(x.Rhs) == 1 {
				if t := w.typeOf(x.Rhs[0]); t != nil && isSigned(t) && w.constVal(x.Rhs[0]) == nil {
					w.add("shift", x)
				}
			}
		case *ast.ValueSpec:
			if len(x.Names) == 2 && len(x.Values) == 1 {
				if ta, ok := x.Values[0].(*ast.TypeAssertExpr); ok {
					w.okAssert[ta] = true
				}
			}
		}
		return true
	})
	ast.Inspect(body, func(n ast.Node) bool {
		switch x := n.(type) {
		case *ast.FuncLit:
			return true
		case *ast.IndexExpr:
			t := typeUnder(w.typeOf(x.X))
			switch tt := t.(type) {
			case *types.Map:
				if mapAssign[x] {
					w.add("mapassign", x)
				}
			case *types.Slice:
				w.add("index", x)
			case *types.Basic:
				if tt.Info()&types.IsString != 0 {
					w.add("index", x)
				}
			case *types.Array:
				if !w.arrayIndexSafe(tt.Len(), x.Index) {
					w.add("index", x)
				}
			case *types.Pointer:
				if at, ok := typeUnder(tt.Elem()).(*types.Array); ok {
					if !w.arrayIndexSafe(at.Len(), x.Index) {
						w.add("index", x)
					}
				}
			}
		case *ast.SliceExpr:
			zero := func(e ast.Expr) bool {
				if e == nil {
					return true
				}
				v := w.constVal(e)
				return v != nil && v.Kind() == constant.Int && constant.Sign(v) == 0
			}
			if !(zero(x.Low) && zero(x.High) && zero(x.Max)) || (x.High != nil && !zero(x.High)) {
				if !w.sliceSafe(x) {
					w.add("slice", x)
				}
			}
		case *ast.CallExpr:
			if id, ok := x.Fun.(*ast.Ident); ok {
				if _, isBuiltin := w.p.TypesInfo.Uses[id].(*types.Builtin); isBuiltin {
					switch id.Name {
					case "make":
						for _, a := range x.Args[1:] {
							if w.constVal(a) == nil {
								w.add("make", x)
								break
							}
						}
					case "panic":
						w.add("panic", x)
					}
				}
			}
			if sel, ok := x.Fun.(*ast.SelectorExpr); ok {
				if fn, ok := w.p.TypesInfo.Uses[sel.Sel].(*types.Func); ok && fn.Pkg() != nil {
					if stdPanics(fn) {
						w.add("stdcall", x)
					}
				}
			}
		case *ast.TypeAssertExpr:
			if x.Type != nil && !w.okAssert[x] {
				w.add("assert", x)
			}
		case *ast.BinaryExpr:
			switch x.Op {
			case token.QUO, token.REM:
				if isInteger(w.typeOf(x)) && w.constVal(x.Y) == nil {
					w.add("div", x)
				}
			case token.SHL, token.SHR:
				if t := w.typeOf(x.Y); t != nil && isSigned(t) && w.constVal(x.Y) == nil {
					w.add("shift", x)
				}
			}
		case *ast.StarExpr:
			// expression position only (a type has no value entry with IsValue)
			if tv, ok := w.p.TypesInfo.Types[x]; ok && tv.IsValue() {
				w.add("deref", x)
			}
		case *ast.SelectorExpr:
			if sel, ok := w.p.TypesInfo.Selections[x]; ok && sel.Kind() == types.FieldVal {
				if _, isPtr := typeUnder(w.typeOf(x.X)).(*types.Pointer); isPtr {
					if _, plain := x.X.(*ast.Ident); !plain {
						w.add("deref", x)
					}
				}
			}
		}
		return true
	})
}

func typeUnder(t types.Type) types.Type {
	if t == nil {
		return nil
	}
	return t.Underlying()
}

// arrayIndexSafe: the index is a constant (checked by the compiler) or of an unsigned type whose
// largest value is below the array length.
func (w *panicWalker) arrayIndexSafe(n int64, idx ast.Expr) bool {
	if w.constVal(idx) != nil {
		return true
	}
	if t := w.typeOf(idx); t != nil {
		if m := maxOfUnsigned(t); m >= 0 && m < n {
			return true
		}
	}
	return false
}

// sliceSafe: constant bounds on an array (or pointer to array) are checked by the compiler.
func (w *panicWalker) sliceSafe(x *ast.SliceExpr) bool {
	t := typeUnder(w.typeOf(x.X))
	if p, ok := t.(*types.Pointer); ok {
		t = typeUnder(p.Elem())
	}
	if _, ok := t.(*types.Array); !ok {
		return false
	}
	for _, e := range []ast.Expr{x.Low, x.High, x.Max} {
		if e != nil && w.constVal(e) == nil {
			return false
		}
	}
	return true
}

// stdPanics: standard-library entry points that panic on bad arguments rather than returning an error.
func stdPanics(fn *types.Func) bool {
	pkg := fn.Pkg().Path()
	name := fn.Name()
	switch pkg {
	case "reflect":
		if sig, ok := fn.Type().(*types.Signature); ok && sig.Recv() != nil {
			switch name {
			case "Kind", "Type", "IsValid", "String", "CanInterface":
				return false
			}
			return true
		}
		return false
	case "encoding/hex":
		return name == "Decode"
	case "encoding/binary":
		if sig, ok := fn.Type().(*types.Signature); ok && sig.Recv() != nil {
			return strings.HasPrefix(name, "Uint") || strings.HasPrefix(name, "PutUint")
		}
		return false
	case "strings", "bytes":
		return name == "Repeat"
	}
	return false
}
