// Command extract regenerates Lean definitions from the Go sources of /repo.
//
// It is deliberately small: it translates (a) constants and constant tables and
// (b) straight-line integer functions (if/switch chains of comparisons, shifts,
// masks, conversions, byte-slice stores) into BitVec definitions under
// lean/Hts/Gen. Loops, pointers, interfaces and goroutines are not translated.
// A function that can no longer be translated is emitted as a comment, so the
// Tie theorem that mentions it stops elaborating (a broken obligation).
package main

import (
	"bytes"
	"encoding/json"
	"flag"
	"fmt"
	"go/ast"
	"go/constant"
	"go/token"
	"go/types"
	"math/big"
	"os"
	"path/filepath"
	"sort"
	"strings"

	"golang.org/x/tools/go/packages"
)

type fnSpec struct {
	pkg, name, lean string
}

type constSpec struct {
	pkg, name, lean string
}

type genFile struct {
	module string // e.g. Itf8 -> Hts/Gen/Itf8.lean
	fns    []fnSpec
	consts []constSpec
}

const modPath = "github.com/biogo/hts/"

var plan = []genFile{
	{module: "Itf8", fns: []fnSpec{
		{"cram/encoding/itf8", "Len", "len"},
		{"cram/encoding/itf8", "Encode", "encode"},
		{"cram/encoding/itf8", "Decode", "decode"},
	}},
	{module: "Ltf8", fns: []fnSpec{
		{"cram/encoding/ltf8", "Len", "len"},
		{"cram/encoding/ltf8", "Encode", "encode"},
		{"cram/encoding/ltf8", "Decode", "decode"},
	}},
	{module: "Index", fns: []fnSpec{
		{"internal", "BinFor", "binFor"},
		{"internal", "IsValidIndexPos", "isValidIndexPos"},
		{"internal", "vOffset", "vOffset"},
		{"internal", "makeOffset", "makeOffset"},
		{"csi", "validIndexPos", "csiValidIndexPos"},
		{"bgzf/index", "vOffset", "idxVOffset"},
		{"sam", "CigarOp.Type", "cigarOpType"},
		{"sam", "CigarOp.Len", "cigarOpLen"},
	}, consts: []constSpec{
		{"internal", "TileWidth", "tileWidth"},
		{"internal", "Levels", "levels"},
		{"internal", "BinLimit", "binLimit"},
		{"internal", "StatsDummyBin", "statsDummyBin"},
		{"internal", "indexWordBits", "indexWordBits"},
		{"internal", "nextBinShift", "nextBinShift"},
		{"internal", "level0", "level0"},
		{"internal", "level1", "level1"},
		{"internal", "level2", "level2"},
		{"internal", "level3", "level3"},
		{"internal", "level4", "level4"},
		{"internal", "level5", "level5"},
		{"internal", "level0Shift", "level0Shift"},
		{"internal", "level1Shift", "level1Shift"},
		{"internal", "level2Shift", "level2Shift"},
		{"internal", "level3Shift", "level3Shift"},
		{"internal", "level4Shift", "level4Shift"},
		{"internal", "level5Shift", "level5Shift"},
		{"csi", "DefaultShift", "csiDefaultShift"},
		{"csi", "DefaultDepth", "csiDefaultDepth"},
		{"csi", "nextBinShift", "csiNextBinShift"},
	}},
	{module: "Bgzf", fns: []fnSpec{
		{"bgzf", "compressBound", "compressBound"},
	}, consts: []constSpec{
		{"bgzf", "BlockSize", "blockSize"},
		{"bgzf", "MaxBlockSize", "maxBlockSize"},
		{"bgzf", "bgzfExtra", "bgzfExtra"},
		{"bgzf", "minFrame", "minFrame"},
		{"bgzf", "magicBlock", "magicBlock"},
	}},
	{module: "Fai", fns: []fnSpec{
		{"fai", "Record.position", "position"},
		{"fai", "Record.endOfLineOffset", "endOfLineOffset"},
		{"fai", "Record.isValid", "isValid"},
		{"fai", "min", "min"},
	}, consts: []constSpec{
		{"fai", "nameField", "nameField"},
		{"fai", "lengthField", "lengthField"},
		{"fai", "startField", "startField"},
		{"fai", "basesField", "basesField"},
		{"fai", "bytesField", "bytesField"},
	}},
	{module: "Sam", consts: []constSpec{
		{"sam", "consume", "consume"},
		{"sam", "cigarOps", "cigarOps"},
		{"sam", "n16TableRev", "n16TableRev"},
		{"sam", "n16Table", "n16Table"},
		{"bam", "jumps", "jumps"},
		{"sam", "powers", "powers"},
	}},
}

func main() {
	repo := flag.String("repo", "/repo", "repository root")
	out := flag.String("out", "", "output directory for Hts/Gen (required)")
	facts := flag.String("facts", "", "facts.json output path")
	panics := flag.String("panics", "", "panic-site inventory output path (C11); with no -out, only the inventory is written")
	fhashes := flag.String("funchashes", "", "function-hash list output path; with no -out, only this is written")
	flag.Parse()
	if *fhashes != "" {
		if err := writeFuncHashes(*repo, *fhashes); err != nil {
			fmt.Fprintln(os.Stderr, "extract: function hashes:", err)
			os.Exit(2)
		}
		if *out == "" && *panics == "" {
			return
		}
	}
	if *panics != "" {
		if err := writePanicInventory(*repo, *panics); err != nil {
			fmt.Fprintln(os.Stderr, "extract: panic inventory:", err)
			os.Exit(2)
		}
		if *out == "" {
			return
		}
	}
	if *out == "" {
		fmt.Fprintln(os.Stderr, "extract: -out required")
		os.Exit(2)
	}
	pkgSet := map[string]bool{}
	for _, g := range plan {
		for _, f := range g.fns {
			pkgSet[f.pkg] = true
		}
		for _, c := range g.consts {
			pkgSet[c.pkg] = true
		}
	}
	var pats []string
	for p := range pkgSet {
		pats = append(pats, "./"+p)
	}
	sort.Strings(pats)
	cfg := &packages.Config{Mode: packages.NeedName | packages.NeedFiles | packages.NeedSyntax | packages.NeedTypes | packages.NeedTypesInfo | packages.NeedImports | packages.NeedDeps, Dir: *repo}
	pkgs, err := packages.Load(cfg, pats...)
	if err != nil {
		fmt.Fprintln(os.Stderr, "extract: load:", err)
		os.Exit(2)
	}
	byPath := map[string]*packages.Package{}
	for _, p := range pkgs {
		byPath[strings.TrimPrefix(p.PkgPath, modPath)] = p
		for _, e := range p.Errors {
			fmt.Fprintln(os.Stderr, "extract: package error:", e)
		}
	}
	os.RemoveAll(*out)
	if err := os.MkdirAll(*out, 0o755); err != nil {
		panic(err)
	}
	report := map[string]interface{}{}
	failed := []string{}
	for _, g := range plan {
		var b bytes.Buffer
		fmt.Fprintf(&b, "-- GENERATED by /verif/go/cmd/extract from /repo; do not edit.\nimport Hts.Model.GoPrim\nset_option maxRecDepth 4096\nset_option linter.unusedVariables false\nnamespace Hts.Gen.%s\nopen Hts.GoPrim\n\n", g.module)
		for _, c := range g.consts {
			p := byPath[c.pkg]
			if p == nil {
				fmt.Fprintf(&b, "-- MISSING package %s\n", c.pkg)
				failed = append(failed, c.pkg+"."+c.name)
				continue
			}
			s, err := emitConst(p, c)
			if err != nil {
				fmt.Fprintf(&b, "-- UNTRANSLATED const %s.%s: %v\n", c.pkg, c.name, err)
				failed = append(failed, c.pkg+"."+c.name)
				continue
			}
			b.WriteString(s)
		}
		for _, f := range g.fns {
			p := byPath[f.pkg]
			if p == nil {
				fmt.Fprintf(&b, "-- MISSING package %s\n", f.pkg)
				failed = append(failed, f.pkg+"."+f.name)
				continue
			}
			s, err := emitFunc(p, f)
			if err != nil {
				fmt.Fprintf(&b, "-- UNTRANSLATED func %s.%s: %v\n", f.pkg, f.name, err)
				failed = append(failed, f.pkg+"."+f.name)
				continue
			}
			b.WriteString(s)
		}
		fmt.Fprintf(&b, "end Hts.Gen.%s\n", g.module)
		if err := os.WriteFile(filepath.Join(*out, g.module+".lean"), b.Bytes(), 0o644); err != nil {
			panic(err)
		}
	}
	if err := writeLocks(*repo, *out); err != nil {
		fmt.Fprintln(os.Stderr, "extract: cache lock shape:", err)
		failed = append(failed, "bgzf/cache lock shape")
	}
	report["untranslated"] = failed
	if *facts != "" {
		js, _ := json.MarshalIndent(report, "", " ")
		os.WriteFile(*facts, js, 0o644)
	}
	if len(failed) > 0 {
		fmt.Fprintln(os.Stderr, "extract: untranslated:", failed)
	}
}

// ---------------------------------------------------------------------------
// constants and tables

func emitConst(p *packages.Package, c constSpec) (string, error) {
	obj := p.Types.Scope().Lookup(c.name)
	if obj == nil {
		return "", fmt.Errorf("not found")
	}
	switch o := obj.(type) {
	case *types.Const:
		v := o.Val()
		switch v.Kind() {
		case constant.Int:
			return fmt.Sprintf("def %s : Int := %s\n", c.lean, leanInt(v)), nil
		case constant.String:
			s := constant.StringVal(v)
			return fmt.Sprintf("def %s : List Nat := %s\n", c.lean, natList([]byte(s))), nil
		}
		return "", fmt.Errorf("unsupported const kind")
	case *types.Var:
		// find the declaration and evaluate a composite literal of constants
		for _, f := range p.Syntax {
			for _, d := range f.Decls {
				gd, ok := d.(*ast.GenDecl)
				if !ok || gd.Tok != token.VAR {
					continue
				}
				for _, sp := range gd.Specs {
					vs := sp.(*ast.ValueSpec)
					for i, n := range vs.Names {
						if n.Name != c.name || i >= len(vs.Values) {
							continue
						}
						return emitTable(p, c, vs.Values[i])
					}
				}
			}
		}
		return "", fmt.Errorf("var declaration not found")
	}
	return "", fmt.Errorf("unsupported object")
}

func leanInt(v constant.Value) string {
	s := v.ExactString()
	if strings.HasPrefix(s, "-") {
		return "(" + s + ")"
	}
	return s
}

func natList(b []byte) string {
	parts := make([]string, len(b))
	for i, x := range b {
		parts[i] = fmt.Sprint(x)
	}
	return "[" + strings.Join(parts, ", ") + "]"
}

// emitTable handles array/slice composite literals whose elements are integer
// constants (optionally keyed), or structs of integer constants.
func emitTable(p *packages.Package, c constSpec, e ast.Expr) (string, error) {
	cl, ok := e.(*ast.CompositeLit)
	if !ok {
		// []byte("...") conversions
		if call, ok := e.(*ast.CallExpr); ok && len(call.Args) == 1 {
			if tv, ok := p.TypesInfo.Types[call.Args[0]]; ok && tv.Value != nil && tv.Value.Kind() == constant.String {
				return fmt.Sprintf("def %s : List Nat := %s\n", c.lean, natList([]byte(constant.StringVal(tv.Value)))), nil
			}
		}
		return "", fmt.Errorf("not a composite literal")
	}
	t := p.TypesInfo.TypeOf(cl)
	length := -1
	if at, ok := t.Underlying().(*types.Array); ok {
		length = int(at.Len())
	}
	type ent struct {
		idx int
		val string
	}
	var ents []ent
	next := 0
	maxIdx := -1
	for _, el := range cl.Elts {
		idx := next
		val := el
		if kv, ok := el.(*ast.KeyValueExpr); ok {
			tv := p.TypesInfo.Types[kv.Key]
			if tv.Value == nil {
				return "", fmt.Errorf("non-constant key")
			}
			k, _ := constant.Int64Val(tv.Value)
			idx = int(k)
			val = kv.Value
		}
		s, err := tableElem(p, val)
		if err != nil {
			return "", err
		}
		ents = append(ents, ent{idx, s})
		if idx > maxIdx {
			maxIdx = idx
		}
		next = idx + 1
	}
	if length < 0 {
		length = maxIdx + 1
	}
	zero := "0"
	if len(ents) > 0 && strings.HasPrefix(ents[0].val, "[") {
		n := strings.Count(ents[0].val, ",") + 1
		zs := make([]string, n)
		for i := range zs {
			zs[i] = "0"
		}
		zero = "[" + strings.Join(zs, ", ") + "]"
	}
	vals := make([]string, length)
	for i := range vals {
		vals[i] = zero
	}
	for _, en := range ents {
		vals[en.idx] = en.val
	}
	ty := "List Int"
	if strings.HasPrefix(zero, "[") {
		ty = "List (List Int)"
	}
	// split long tables over lines
	var b strings.Builder
	fmt.Fprintf(&b, "def %s : %s := [", c.lean, ty)
	for i, v := range vals {
		if i > 0 {
			b.WriteString(", ")
			if i%16 == 0 {
				b.WriteString("\n  ")
			}
		}
		b.WriteString(v)
	}
	b.WriteString("]\n")
	return b.String(), nil
}

func tableElem(p *packages.Package, e ast.Expr) (string, error) {
	if tv, ok := p.TypesInfo.Types[e]; ok && tv.Value != nil {
		switch tv.Value.Kind() {
		case constant.Int:
			return leanInt(tv.Value), nil
		case constant.String:
			// single character strings / bytes
			s := constant.StringVal(tv.Value)
			if len(s) == 1 {
				return fmt.Sprint(s[0]), nil
			}
		}
		return "", fmt.Errorf("unsupported element constant")
	}
	if cl, ok := e.(*ast.CompositeLit); ok {
		st, ok := p.TypesInfo.TypeOf(cl).Underlying().(*types.Struct)
		if !ok {
			return "", fmt.Errorf("unsupported nested literal")
		}
		vals := make([]string, st.NumFields())
		for i := range vals {
			vals[i] = "0"
		}
		for i, el := range cl.Elts {
			idx := i
			val := el
			if kv, ok := el.(*ast.KeyValueExpr); ok {
				name := kv.Key.(*ast.Ident).Name
				idx = -1
				for j := 0; j < st.NumFields(); j++ {
					if st.Field(j).Name() == name {
						idx = j
					}
				}
				if idx < 0 {
					return "", fmt.Errorf("unknown field %s", name)
				}
				val = kv.Value
			}
			tv := p.TypesInfo.Types[val]
			if tv.Value == nil || tv.Value.Kind() != constant.Int {
				return "", fmt.Errorf("non-constant struct field")
			}
			vals[idx] = leanInt(tv.Value)
		}
		return "[" + strings.Join(vals, ", ") + "]", nil
	}
	return "", fmt.Errorf("unsupported table element")
}

// ---------------------------------------------------------------------------
// straight-line functions

type gty struct {
	w      int
	signed bool
	isBool bool
	isInt  bool     // Go int: modelled as an unbounded Lean Int (no-overflow assumption, see DESIGN §4)
	bytes  bool     // []byte
	fields []string // struct: flattened field names
	ftys   []gty
}

func (t gty) lean() string {
	switch {
	case t.isBool:
		return "Bool"
	case t.isInt:
		return "Int"
	case t.bytes:
		return "List (BitVec 8)"
	case t.fields != nil:
		parts := make([]string, len(t.ftys))
		for i, f := range t.ftys {
			parts[i] = f.lean()
		}
		return "(" + strings.Join(parts, " × ") + ")"
	}
	return fmt.Sprintf("BitVec %d", t.w)
}

func goType(t types.Type) (gty, error) {
	switch u := t.Underlying().(type) {
	case *types.Basic:
		switch u.Kind() {
		case types.Bool, types.UntypedBool:
			return gty{isBool: true}, nil
		case types.Int8:
			return gty{w: 8, signed: true}, nil
		case types.Int16:
			return gty{w: 16, signed: true}, nil
		case types.Int32, types.UntypedRune:
			return gty{w: 32, signed: true}, nil
		case types.Int, types.UntypedInt:
			return gty{isInt: true, signed: true}, nil
		case types.Int64:
			return gty{w: 64, signed: true}, nil
		case types.Uint8:
			return gty{w: 8}, nil
		case types.Uint16:
			return gty{w: 16}, nil
		case types.Uint32:
			return gty{w: 32}, nil
		case types.Uint64, types.Uint, types.Uintptr:
			return gty{w: 64}, nil
		}
	case *types.Slice:
		if b, ok := u.Elem().Underlying().(*types.Basic); ok && b.Kind() == types.Uint8 {
			return gty{bytes: true}, nil
		}
	case *types.Struct:
		g := gty{}
		for i := 0; i < u.NumFields(); i++ {
			ft, err := goType(u.Field(i).Type())
			if err != nil || ft.fields != nil || ft.bytes {
				// fields that are not plain numbers (strings, nested structs, slices) are left out;
				// a function that reads one of them cannot be translated (unknown identifier)
				continue
			}
			g.fields = append(g.fields, u.Field(i).Name())
			g.ftys = append(g.ftys, ft)
		}
		if len(g.fields) == 0 {
			return gty{}, fmt.Errorf("struct without numeric fields")
		}
		return g, nil
	}
	return gty{}, fmt.Errorf("unsupported type %s", t)
}

type tr struct {
	p       *packages.Package
	results []string // named results (or synthetic)
	resTys  []gty
	structs map[string]gty // param name -> struct type (flattened into name_Field)
}

func emitFunc(p *packages.Package, f fnSpec) (string, error) {
	var fd *ast.FuncDecl
	for _, file := range p.Syntax {
		for _, d := range file.Decls {
			x, ok := d.(*ast.FuncDecl)
			if !ok {
				continue
			}
			if x.Recv == nil && x.Name.Name == f.name {
				fd = x
			}
			// methods are named "Type.Method"; the receiver becomes the first parameter
			if x.Recv != nil && len(x.Recv.List) == 1 {
				rt := x.Recv.List[0].Type
				if st, ok := rt.(*ast.StarExpr); ok {
					rt = st.X
				}
				if id, ok := rt.(*ast.Ident); ok && id.Name+"."+x.Name.Name == f.name {
					fd = x
				}
			}
		}
	}
	if fd == nil || fd.Body == nil {
		return "", fmt.Errorf("function not found")
	}
	t := &tr{p: p, structs: map[string]gty{}}
	var params []string
	plist := fd.Type.Params.List
	if fd.Recv != nil {
		plist = append(append([]*ast.Field{}, fd.Recv.List...), plist...)
	}
	for _, fl := range plist {
		ty, err := goType(p.TypesInfo.TypeOf(fl.Type))
		if err != nil {
			return "", err
		}
		for _, n := range fl.Names {
			if ty.fields != nil {
				t.structs[n.Name] = ty
				for i, fn := range ty.fields {
					params = append(params, fmt.Sprintf("(%s_%s : %s)", n.Name, fn, ty.ftys[i].lean()))
				}
				continue
			}
			params = append(params, fmt.Sprintf("(%s : %s)", lid(n.Name), ty.lean()))
		}
	}
	var resTy []string
	var pre strings.Builder
	hasBytes := false
	for _, fl := range fd.Type.Params.List {
		if ty, _ := goType(p.TypesInfo.TypeOf(fl.Type)); ty.bytes {
			hasBytes = true
		}
	}
	_ = hasBytes
	if fd.Type.Results != nil {
		for i, fl := range fd.Type.Results.List {
			ty, err := goType(p.TypesInfo.TypeOf(fl.Type))
			if err != nil {
				return "", err
			}
			if len(fl.Names) == 0 {
				t.results = append(t.results, fmt.Sprintf("_r%d", i))
				t.resTys = append(t.resTys, ty)
				resTy = append(resTy, ty.lean())
				continue
			}
			for _, n := range fl.Names {
				t.results = append(t.results, n.Name)
				t.resTys = append(t.resTys, ty)
				resTy = append(resTy, ty.lean())
				// named results start at zero
				fmt.Fprintf(&pre, "  let %s : %s := %s\n", n.Name, ty.lean(), zeroOf(ty))
			}
		}
	}
	// functions that store into a []byte parameter also return the buffer
	stores := storedParams(fd)
	for _, s := range stores {
		resTy = append([]string{"List (BitVec 8)"}, resTy...)
		_ = s
	}
	body, err := t.stmts(fd.Body.List, stores, 1)
	if err != nil {
		return "", err
	}
	var b strings.Builder
	fmt.Fprintf(&b, "/-- from %s.%s -/\ndef %s %s : %s :=\n%s%s\n\n", f.pkg, f.name, f.lean, strings.Join(params, " "), strings.Join(resTy, " × "), pre.String(), body)
	return b.String(), nil
}

func zeroOf(t gty) string {
	if t.isBool {
		return "false"
	}
	if t.isInt {
		return "(0 : Int)"
	}
	return fmt.Sprintf("0#%d", t.w)
}

func storedParams(fd *ast.FuncDecl) []string {
	seen := map[string]bool{}
	var out []string
	ast.Inspect(fd.Body, func(n ast.Node) bool {
		if as, ok := n.(*ast.AssignStmt); ok {
			for _, l := range as.Lhs {
				if ix, ok := l.(*ast.IndexExpr); ok {
					if id, ok := ix.X.(*ast.Ident); ok && !seen[id.Name] {
						seen[id.Name] = true
						out = append(out, id.Name)
					}
				}
			}
		}
		return true
	})
	return out
}

var leanKw = map[string]bool{"end": true, "at": true, "from": true, "have": true, "show": true, "open": true, "in": true, "do": true, "then": true, "else": true, "fun": true, "let": true, "by": true, "with": true, "match": true, "where": true, "mut": true, "deriving": true, "instance": true, "local": true, "prefix": true, "infix": true, "section": true, "namespace": true, "universe": true, "variable": true, "example": true, "theorem": true, "def": true, "abbrev": true, "structure": true, "class": true, "inductive": true, "extends": true, "using": true, "calc": true, "suffices": true, "obtain": true, "nomatch": true, "private": true, "protected": true}

// lid makes a Go identifier usable as a Lean identifier.
func lid(s string) string {
	if leanKw[s] {
		return s + "_"
	}
	return s
}

func ind(n int) string { return strings.Repeat("  ", n) }

// scopedDeclLive reports an error when a branch of the if/switch statement s declares a name (":=", var)
// that the statements after s mention: in Go that declaration ends with its block, in the translation the
// continuation is appended inside the branch and would see it.
func scopedDeclLive(s ast.Stmt, rest []ast.Stmt) error {
	declared := map[string]bool{}
	ast.Inspect(s, func(n ast.Node) bool {
		switch n := n.(type) {
		case *ast.AssignStmt:
			if n.Tok == token.DEFINE {
				for _, l := range n.Lhs {
					if id, ok := l.(*ast.Ident); ok && id.Name != "_" {
						declared[id.Name] = true
					}
				}
			}
		case *ast.DeclStmt:
			if gd, ok := n.Decl.(*ast.GenDecl); ok {
				for _, sp := range gd.Specs {
					if vs, ok := sp.(*ast.ValueSpec); ok {
						for _, id := range vs.Names {
							declared[id.Name] = true
						}
					}
				}
			}
		}
		return true
	})
	if len(declared) == 0 {
		return nil
	}
	var bad string
	for _, r := range rest {
		ast.Inspect(r, func(n ast.Node) bool {
			if id, ok := n.(*ast.Ident); ok && declared[id.Name] && bad == "" {
				bad = id.Name
			}
			return bad == ""
		})
	}
	if bad != "" {
		return fmt.Errorf("name %q is declared inside a branch and mentioned after it (block scoping not translated)", bad)
	}
	return nil
}

// stmts translates a statement list in continuation-passing style: the
// statements after an if/switch are duplicated into every branch that does
// not return.
func (t *tr) stmts(list []ast.Stmt, stores []string, d int) (string, error) {
	if len(list) == 0 {
		return "", fmt.Errorf("control reaches end of function without return")
	}
	s, rest := list[0], list[1:]
	switch s := s.(type) {
	case *ast.ReturnStmt:
		var vals []string
		for _, st := range stores {
			vals = append(vals, st)
		}
		if len(s.Results) == 0 {
			vals = append(vals, t.results...)
		} else {
			if len(s.Results) != len(t.resTys) {
				return "", fmt.Errorf("multi-value return call unsupported")
			}
			for i, r := range s.Results {
				e, err := t.exprAs(r, t.resTys[i])
				if err != nil {
					return "", err
				}
				vals = append(vals, e)
			}
		}
		return ind(d) + "(" + strings.Join(vals, ", ") + ")", nil
	case *ast.AssignStmt:
		if len(s.Lhs) != len(s.Rhs) {
			return "", fmt.Errorf("unsupported assignment")
		}
		var b strings.Builder
		for i := range s.Lhs {
			l, r := s.Lhs[i], s.Rhs[i]
			if id, ok := l.(*ast.Ident); ok && id.Name == "_" {
				continue // bounds-check hint
			}
			if ix, ok := l.(*ast.IndexExpr); ok {
				id, ok := ix.X.(*ast.Ident)
				if !ok {
					return "", fmt.Errorf("unsupported store")
				}
				idx, err := t.natIndex(ix.Index)
				if err != nil {
					return "", err
				}
				e, err := t.exprAs(r, gty{w: 8})
				if err != nil {
					return "", err
				}
				fmt.Fprintf(&b, "%slet %s := %s.set %s %s\n", ind(d), id.Name, id.Name, idx, e)
				continue
			}
			id, ok := l.(*ast.Ident)
			if !ok {
				return "", fmt.Errorf("unsupported assignment target")
			}
			lt, err := goType(t.p.TypesInfo.TypeOf(l))
			if err != nil {
				return "", err
			}
			var e string
			switch s.Tok {
			case token.ASSIGN, token.DEFINE:
				e, err = t.exprAs(r, lt)
			default:
				op := strings.TrimSuffix(s.Tok.String(), "=")
				e, err = t.binary(l, r, op, lt)
			}
			if err != nil {
				return "", err
			}
			fmt.Fprintf(&b, "%slet %s : %s := %s\n", ind(d), lid(id.Name), lt.lean(), e)
		}
		r, err := t.stmts(rest, stores, d)
		if err != nil {
			return "", err
		}
		return b.String() + r, nil
	case *ast.IncDecStmt:
		id, ok := s.X.(*ast.Ident)
		if !ok {
			return "", fmt.Errorf("unsupported inc/dec")
		}
		lt, err := goType(t.p.TypesInfo.TypeOf(s.X))
		if err != nil {
			return "", err
		}
		op := "+"
		if s.Tok == token.DEC {
			op = "-"
		}
		r, err := t.stmts(rest, stores, d)
		if err != nil {
			return "", err
		}
		one := fmt.Sprintf("1#%d", lt.w)
		if lt.isInt {
			one = "1"
		}
		return fmt.Sprintf("%slet %s : %s := %s %s %s\n", ind(d), lid(id.Name), lt.lean(), lid(id.Name), op, one) + r, nil
	case *ast.IfStmt:
		if s.Init != nil {
			return "", fmt.Errorf("if with init unsupported")
		}
		// The continuation is duplicated into both branches, so a name DECLARED inside a branch (":=" or
		// var: a new, block-scoped variable in Go) would wrongly stay visible in the continuation.
		if err := scopedDeclLive(s, rest); err != nil {
			return "", err
		}
		c, err := t.expr(s.Cond)
		if err != nil {
			return "", err
		}
		thenS, err := t.stmts(append(append([]ast.Stmt{}, s.Body.List...), rest...), stores, d+1)
		if err != nil {
			return "", err
		}
		var elseList []ast.Stmt
		switch e := s.Else.(type) {
		case nil:
		case *ast.BlockStmt:
			elseList = e.List
		case *ast.IfStmt:
			elseList = []ast.Stmt{e}
		}
		elseS, err := t.stmts(append(append([]ast.Stmt{}, elseList...), rest...), stores, d+1)
		if err != nil {
			return "", err
		}
		return fmt.Sprintf("%sif %s then\n%s\n%selse\n%s", ind(d), c, thenS, ind(d), elseS), nil
	case *ast.SwitchStmt:
		if s.Init != nil {
			return "", fmt.Errorf("switch with init unsupported")
		}
		if err := scopedDeclLive(s, rest); err != nil {
			return "", err
		}
		var tag string
		if s.Tag != nil {
			var err error
			tag, err = t.expr(s.Tag)
			if err != nil {
				return "", err
			}
		}
		type arm struct {
			cond string
			body []ast.Stmt
		}
		var arms []arm
		var def []ast.Stmt
		hasDef := false
		for _, cc := range s.Body.List {
			cl := cc.(*ast.CaseClause)
			for _, st := range cl.Body {
				if br, ok := st.(*ast.BranchStmt); ok && br.Tok == token.FALLTHROUGH {
					return "", fmt.Errorf("fallthrough unsupported")
				}
			}
			if cl.List == nil {
				def = cl.Body
				hasDef = true
				continue
			}
			var conds []string
			for _, ce := range cl.List {
				var c string
				var err error
				if s.Tag != nil {
					tt, err2 := goType(t.p.TypesInfo.TypeOf(s.Tag))
					if err2 != nil {
						return "", err2
					}
					v, err2 := t.exprAs(ce, tt)
					if err2 != nil {
						return "", err2
					}
					c = fmt.Sprintf("(%s == %s)", tag, v)
				} else {
					c, err = t.expr(ce)
					if err != nil {
						return "", err
					}
				}
				conds = append(conds, c)
			}
			arms = append(arms, arm{strings.Join(conds, " || "), cl.Body})
		}
		_ = hasDef
		var b strings.Builder
		for i, a := range arms {
			body, err := t.stmts(append(append([]ast.Stmt{}, a.body...), rest...), stores, d+1)
			if err != nil {
				return "", err
			}
			kw := "if"
			if i > 0 {
				kw = "else if"
			}
			fmt.Fprintf(&b, "%s%s %s then\n%s\n", ind(d), kw, a.cond, body)
		}
		body, err := t.stmts(append(append([]ast.Stmt{}, def...), rest...), stores, d+1)
		if err != nil {
			return "", err
		}
		if len(arms) == 0 {
			return body, nil
		}
		fmt.Fprintf(&b, "%selse\n%s", ind(d), body)
		return b.String(), nil
	case *ast.DeclStmt:
		if gd, ok := s.Decl.(*ast.GenDecl); ok && gd.Tok == token.CONST {
			return t.stmts(rest, stores, d) // uses are folded as constants by go/types
		}
		return "", fmt.Errorf("unsupported declaration")
	case *ast.BlockStmt:
		return t.stmts(append(append([]ast.Stmt{}, s.List...), rest...), stores, d)
	}
	return "", fmt.Errorf("unsupported statement %T", s)
}

func (t *tr) natIndex(e ast.Expr) (string, error) {
	if tv, ok := t.p.TypesInfo.Types[e]; ok && tv.Value != nil {
		return tv.Value.ExactString(), nil
	}
	s, err := t.expr(e)
	if err != nil {
		return "", err
	}
	return "(" + s + ").toNat", nil
}

// exprAs translates e, giving untyped constants the type want.
func (t *tr) exprAs(e ast.Expr, want gty) (string, error) {
	if tv, ok := t.p.TypesInfo.Types[e]; ok && tv.Value != nil {
		return constLit(tv.Value, want)
	}
	return t.expr(e)
}

func constLit(v constant.Value, ty gty) (string, error) {
	if ty.isBool {
		if v.Kind() != constant.Bool {
			return "", fmt.Errorf("bool constant expected")
		}
		if constant.BoolVal(v) {
			return "true", nil
		}
		return "false", nil
	}
	if v.Kind() != constant.Int {
		return "", fmt.Errorf("unsupported constant %s", v)
	}
	n, ok := new(big.Int).SetString(v.ExactString(), 10)
	if !ok {
		return "", fmt.Errorf("bad int constant")
	}
	if ty.isInt {
		return "(" + n.String() + " : Int)", nil
	}
	if n.Sign() < 0 {
		m := new(big.Int).Lsh(big.NewInt(1), uint(ty.w))
		n.Add(n, m)
	}
	return fmt.Sprintf("%s#%d", n.String(), ty.w), nil
}

func (t *tr) typeOf(e ast.Expr) (gty, error) {
	return goType(t.p.TypesInfo.TypeOf(e))
}

func (t *tr) expr(e ast.Expr) (string, error) {
	if tv, ok := t.p.TypesInfo.Types[e]; ok && tv.Value != nil {
		ty, err := goType(tv.Type)
		if err != nil {
			return "", err
		}
		return constLit(tv.Value, ty)
	}
	switch e := e.(type) {
	case *ast.ParenExpr:
		s, err := t.expr(e.X)
		return "(" + s + ")", err
	case *ast.Ident:
		return lid(e.Name), nil
	case *ast.SelectorExpr:
		if id, ok := e.X.(*ast.Ident); ok {
			if st, ok := t.structs[id.Name]; ok {
				for _, fn := range st.fields {
					if fn == e.Sel.Name {
						return id.Name + "_" + e.Sel.Name, nil
					}
				}
				return "", fmt.Errorf("field %s is not a plain number", e.Sel.Name)
			}
		}
		return "", fmt.Errorf("unsupported selector %s", e.Sel.Name)
	case *ast.IndexExpr:
		id, ok := e.X.(*ast.Ident)
		if !ok {
			return "", fmt.Errorf("unsupported index base")
		}
		bt, err := t.typeOf(e.X)
		if err != nil || !bt.bytes {
			return "", fmt.Errorf("index into non-[]byte")
		}
		idx, err := t.natIndex(e.Index)
		if err != nil {
			return "", err
		}
		return fmt.Sprintf("(%s.getD %s 0#8)", id.Name, idx), nil
	case *ast.UnaryExpr:
		x, err := t.expr(e.X)
		if err != nil {
			return "", err
		}
		switch e.Op {
		case token.XOR:
			return "(~~~" + x + ")", nil
		case token.SUB:
			return "(-" + x + ")", nil
		case token.NOT:
			return "(!" + x + ")", nil
		}
		return "", fmt.Errorf("unsupported unary %s", e.Op)
	case *ast.BinaryExpr:
		ty, err := t.typeOf(e)
		if err != nil {
			return "", err
		}
		return t.binary(e.X, e.Y, e.Op.String(), ty)
	case *ast.CompositeLit:
		st, err := t.typeOf(e)
		if err != nil || st.fields == nil {
			return "", fmt.Errorf("unsupported composite literal")
		}
		vals := make([]string, len(st.fields))
		for i := range vals {
			vals[i] = zeroOf(st.ftys[i])
		}
		for i, el := range e.Elts {
			idx, val := i, el
			if kv, ok := el.(*ast.KeyValueExpr); ok {
				name := kv.Key.(*ast.Ident).Name
				idx = -1
				for j, fn := range st.fields {
					if fn == name {
						idx = j
					}
				}
				if idx < 0 {
					return "", fmt.Errorf("unknown field")
				}
				val = kv.Value
			}
			s, err := t.exprAs(val, st.ftys[idx])
			if err != nil {
				return "", err
			}
			vals[idx] = s
		}
		return "(" + strings.Join(vals, ", ") + ")", nil
	case *ast.CallExpr:
		// conversion?
		if tv, ok := t.p.TypesInfo.Types[e.Fun]; ok && tv.IsType() && len(e.Args) == 1 {
			to, err := goType(tv.Type)
			if err != nil {
				return "", err
			}
			from, err := t.typeOf(e.Args[0])
			if err != nil {
				return "", err
			}
			x, err := t.expr(e.Args[0])
			if err != nil {
				return "", err
			}
			if from.isBool || to.isBool || from.bytes || to.bytes || from.fields != nil {
				return "", fmt.Errorf("unsupported conversion")
			}
			switch {
			case to.isInt && from.isInt:
				return x, nil
			case to.isInt && from.signed:
				return fmt.Sprintf("(BitVec.toInt %s)", x), nil
			case to.isInt:
				return fmt.Sprintf("(Int.ofNat (BitVec.toNat %s))", x), nil
			case from.isInt:
				return fmt.Sprintf("(BitVec.ofInt %d %s)", to.w, x), nil
			case to.w == from.w:
				return x, nil
			case to.w < from.w || !from.signed:
				return fmt.Sprintf("(BitVec.setWidth %d %s)", to.w, x), nil
			default:
				return fmt.Sprintf("(BitVec.signExtend %d %s)", to.w, x), nil
			}
		}
		name := ""
		switch f := e.Fun.(type) {
		case *ast.Ident:
			name = f.Name
		case *ast.SelectorExpr:
			if id, ok := f.X.(*ast.Ident); ok {
				name = id.Name + "." + f.Sel.Name
			}
		}
		switch name {
		case "len":
			x, err := t.expr(e.Args[0])
			if err != nil {
				return "", err
			}
			return fmt.Sprintf("(Int.ofNat %s.length)", x), nil
		case "bits.LeadingZeros8":
			x, err := t.expr(e.Args[0])
			if err != nil {
				return "", err
			}
			return fmt.Sprintf("(clz8 %s)", x), nil
		}
		return "", fmt.Errorf("unsupported call %s", name)
	}
	return "", fmt.Errorf("unsupported expression %T", e)
}

func (t *tr) binary(x, y ast.Expr, op string, resTy gty) (string, error) {
	xt, err := t.typeOf(x)
	if err != nil {
		return "", err
	}
	switch op {
	case "<<", ">>":
		xs, err := t.exprAs(x, resTy)
		if err != nil {
			return "", err
		}
		if tv, ok := t.p.TypesInfo.Types[x]; ok && tv.Value != nil {
			xt = resTy
		}
		var cnt string
		if tv, ok := t.p.TypesInfo.Types[y]; ok && tv.Value != nil {
			cnt = tv.Value.ExactString()
		} else {
			ys, err := t.expr(y)
			if err != nil {
				return "", err
			}
			cnt = "(" + ys + ").toNat"
		}
		switch {
		case xt.isInt && op == "<<":
			return fmt.Sprintf("(%s * 2 ^ %s)", xs, cnt), nil
		case xt.isInt:
			return fmt.Sprintf("(%s >>> %s)", xs, cnt), nil
		case op == "<<":
			return fmt.Sprintf("(%s <<< %s)", xs, cnt), nil
		case xt.signed:
			return fmt.Sprintf("(BitVec.sshiftRight %s %s)", xs, cnt), nil
		default:
			return fmt.Sprintf("(%s >>> %s)", xs, cnt), nil
		}
	case "&&", "||":
		xs, err := t.expr(x)
		if err != nil {
			return "", err
		}
		ys, err := t.expr(y)
		if err != nil {
			return "", err
		}
		return fmt.Sprintf("(%s %s %s)", xs, op, ys), nil
	}
	// operand type: the typed one of the two
	ot := xt
	if tv, ok := t.p.TypesInfo.Types[x]; ok && tv.Value != nil {
		yt, err := t.typeOf(y)
		if err != nil {
			return "", err
		}
		ot = yt
	}
	xs, err := t.exprAs(x, ot)
	if err != nil {
		return "", err
	}
	ys, err := t.exprAs(y, ot)
	if err != nil {
		return "", err
	}
	if ot.isInt && (op == "&" || op == "|" || op == "^" || op == "&^") {
		return "", fmt.Errorf("bitwise operator on int unsupported")
	}
	switch op {
	case "+", "-", "*":
		return fmt.Sprintf("(%s %s %s)", xs, op, ys), nil
	case "/":
		if ot.isInt {
			return fmt.Sprintf("(Int.tdiv %s %s)", xs, ys), nil
		}
		if ot.signed {
			return fmt.Sprintf("(BitVec.sdiv %s %s)", xs, ys), nil
		}
		return fmt.Sprintf("(%s / %s)", xs, ys), nil
	case "%":
		if ot.isInt {
			return fmt.Sprintf("(Int.tmod %s %s)", xs, ys), nil
		}
		if ot.signed {
			return fmt.Sprintf("(BitVec.srem %s %s)", xs, ys), nil
		}
		return fmt.Sprintf("(%s %% %s)", xs, ys), nil
	case "&":
		return fmt.Sprintf("(%s &&& %s)", xs, ys), nil
	case "|":
		return fmt.Sprintf("(%s ||| %s)", xs, ys), nil
	case "^":
		return fmt.Sprintf("(%s ^^^ %s)", xs, ys), nil
	case "&^":
		return fmt.Sprintf("(%s &&& ~~~%s)", xs, ys), nil
	case "==":
		return fmt.Sprintf("(%s == %s)", xs, ys), nil
	case "!=":
		return fmt.Sprintf("(%s != %s)", xs, ys), nil
	case "<", "<=", ">", ">=":
		if ot.isInt {
			return fmt.Sprintf("(decide (%s %s %s))", xs, op, ys), nil
		}
		fn := map[string]string{"<": "lt", "<=": "le", ">": "lt", ">=": "le"}[op]
		pre := "BitVec.u"
		if ot.signed {
			pre = "BitVec.s"
		}
		if op == ">" || op == ">=" {
			xs, ys = ys, xs
		}
		return fmt.Sprintf("(%s%s %s %s)", pre, fn, xs, ys), nil
	}
	return "", fmt.Errorf("unsupported operator %s", op)
}
