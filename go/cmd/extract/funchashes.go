package main

import (
	"encoding/json"
	"go/ast"
	"go/parser"
	"go/token"
	"os"
	"path/filepath"
	"strings"
)

// writeFuncHashes writes {"<file>:<func>": hash} for every function declaration of every non-test Go file
// of the repository (the verif-tagged hook files excluded).  The hash is funcHash: the printed declaration
// without comments and positions, so reformatting and comment edits do not change it.  bin/check compares
// the functions of a property's anchor files with the reviewed list (lean/expectations/mirrors.json) and
// searches harder (more seeds) when the code under a hand-written model has changed.
func writeFuncHashes(repo, out string) error {
	res := map[string]string{}
	fset := token.NewFileSet()
	err := filepath.Walk(repo, func(path string, info os.FileInfo, err error) error {
		if err != nil {
			return err
		}
		if info.IsDir() {
			if n := info.Name(); n == ".git" || n == "testdata" || n == "paper" {
				return filepath.SkipDir
			}
			return nil
		}
		n := info.Name()
		if !strings.HasSuffix(n, ".go") || strings.HasSuffix(n, "_test.go") || n == "verif_hooks.go" {
			return nil
		}
		f, err := parser.ParseFile(fset, path, nil, parser.SkipObjectResolution)
		if err != nil {
			rel, _ := filepath.Rel(repo, path)
			res[rel+":<parse-error>"] = err.Error()
			return nil
		}
		rel, _ := filepath.Rel(repo, path)
		occ := map[string]int{}
		for _, d := range f.Decls {
			fd, ok := d.(*ast.FuncDecl)
			if !ok {
				continue
			}
			name := funcName(fd)
			occ[name]++
			key := rel + ":" + name
			if occ[name] > 1 { // init functions may repeat
				key += "#" + string(rune('0'+occ[name]))
			}
			res[key] = funcHash(fset, fd)
		}
		return nil
	})
	if err != nil {
		return err
	}
	js, err := json.MarshalIndent(res, "", " ")
	if err != nil {
		return err
	}
	return os.WriteFile(out, js, 0o644)
}
