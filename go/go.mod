module verifharness

go 1.22.0

toolchain go1.23.5

require (
	github.com/biogo/hts v0.0.0
	github.com/ulikunitz/xz v0.5.10
	golang.org/x/tools v0.29.0
)

require (
	golang.org/x/mod v0.22.0 // indirect
	golang.org/x/sync v0.10.0 // indirect
)

replace github.com/biogo/hts => /repo
