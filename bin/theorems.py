#!/usr/bin/env python3
"""bin/theorems.py [--update]

Inventory of the property and tie theorems with a hash of each STATEMENT (the text between `theorem <name>`
and the `:=` that starts its proof, whitespace-normalised), of every definition made inside a Props/Tie file
(`#def:<name>`: predicates such as `Standard` or `WF` that theorem statements use — the whole declaration) and of
every specification file the property's Props file imports, directly or not (`#spec:<file>`: comment-stripped,
whitespace-normalised), so that a statement cannot be weakened through the definitions it is made of either.  `lean/expectations/theorems.json` is committed;
bin/check compares it with the sources on every run, so a theorem that is deleted, renamed or whose statement
is edited shows up as a broken obligation until the inventory is deliberately updated with --update
(which is a reviewed change in git, like any other)."""
import hashlib, json, os, re, sys
V = os.path.dirname(os.path.dirname(os.path.abspath(__file__)))
EXP = os.path.join(V, "lean", "expectations", "theorems.json")


sys.path.insert(0, os.path.dirname(os.path.abspath(__file__)))
from leansrc import strip_comments  # noqa: E402

DECL = r"(?:@\[[^\]]*\]\s*)?(?:private\s+|protected\s+|noncomputable\s+)*"


def statements(path):
    """{name: hash} for every theorem of a Lean file."""
    if not os.path.exists(path):
        return {}
    src = strip_comments(open(path).read())
    out = {}
    ns = []
    pos = 0
    for m in re.finditer(r"^\s*(?:namespace\s+(\S+)|end\s+(\S+)|(?:@\[[^\]]*\]\s*)?(?:private\s+|protected\s+)?theorem\s+([^\s(:{\[]+))", src, flags=re.M):
        if m.group(1):
            ns.append(m.group(1))
        elif m.group(2):
            if ns and ns[-1] == m.group(2):
                ns.pop()
        else:
            name = ".".join(ns + [m.group(3)])
            rest = src[m.end():]
            # the statement ends at the first ":=" at bracket depth 0 (or at a "|" pattern-matching definition)
            depth = 0
            end = len(rest)
            i = 0
            while i < len(rest):
                ch = rest[i]
                if ch in "([{⟨":
                    depth += 1
                elif ch in ")]}⟩":
                    depth -= 1
                elif depth == 0 and rest.startswith(":=", i):
                    end = i
                    break
                elif depth == 0 and rest.startswith("\n  |", i):
                    end = i
                    break
                i += 1
            stmt = " ".join(rest[:end].split())
            out[name] = hashlib.sha1(stmt.encode()).hexdigest()[:16]
    return out


TOP = re.compile(r"^(?:@\[[^\]]*\]\s*)?(?:private\s+|protected\s+|noncomputable\s+)*"
                 r"(theorem|def|abbrev|structure|inductive|instance|example|namespace|end|open|section|"
                 r"set_option|import|variable|mutual|class|attribute|deriving)\b", re.M)


def definitions(path):
    """{'#def:<name>': hash} for every def/abbrev/structure/inductive/class of a Props/Tie file."""
    if not os.path.exists(path):
        return {}
    src = strip_comments(open(path).read())
    marks = [m for m in TOP.finditer(src)]
    out = {}
    for k, m in enumerate(marks):
        if m.group(1) not in ("def", "abbrev", "structure", "inductive", "class"):
            continue
        end = marks[k + 1].start() if k + 1 < len(marks) else len(src)
        body = " ".join(src[m.start():end].split())
        nm = re.match(r".*?\b(?:def|abbrev|structure|inductive|class)\s+([^\s(:{\[]+)", body)
        out["#def:" + (nm.group(1) if nm else "?%d" % k)] = hashlib.sha1(body.encode()).hexdigest()[:16]
    return out


def spec_imports(path, seen=None):
    """Hts/Spec/*.lean files reachable through `import Hts.…` from a Lean file"""
    seen = set() if seen is None else seen
    specs = set()
    if not os.path.exists(path):
        return specs
    for m in re.finditer(r"^import\s+(Hts(?:\.\w+)+)", strip_comments(open(path).read()), flags=re.M):
        mod = m.group(1)
        if mod in seen:
            continue
        seen.add(mod)
        f = os.path.join(V, "lean", *mod.split(".")) + ".lean"
        if mod.startswith("Hts.Spec."):
            specs.add(f)
        specs |= spec_imports(f, seen)
    return specs


def current():
    inv = {}
    for d in ("Props", "Tie"):
        base = os.path.join(V, "lean", "Hts", d)
        for f in sorted(os.listdir(base)):
            if f.endswith(".lean"):
                pid = f[:-5]
                path = os.path.join(base, f)
                inv.setdefault(pid, {}).update(statements(path))
                inv[pid].update(definitions(path))
                for sp in sorted(spec_imports(path)):
                    body = " ".join(strip_comments(open(sp).read()).split())
                    inv[pid]["#spec:" + os.path.relpath(sp, os.path.join(V, "lean"))] = \
                        hashlib.sha1(body.encode()).hexdigest()[:16]
    return inv


def what(n):
    if n.startswith("#def:"):
        return "definition %s used by the property statements" % n[5:]
    if n.startswith("#spec:"):
        return "specification file %s" % n[6:]
    return "statement of theorem %s" % n


def diff(pid):
    """list of problems for one property (empty when the inventory matches)"""
    if not os.path.exists(EXP):
        return ["theorem inventory lean/expectations/theorems.json is missing"]
    exp = json.load(open(EXP)).get(pid, {})
    cur = current().get(pid, {})
    probs = []
    for n, h in exp.items():
        if n not in cur:
            probs.append("%s of the inventory is missing from the sources" % what(n))
        elif cur[n] != h:
            probs.append("%s differs from the reviewed inventory" % what(n))
    for n in cur:
        if n not in exp:
            probs.append("%s is not in the reviewed inventory (run bin/theorems.py --update and commit)" % what(n))
    return probs


if __name__ == "__main__":
    if "--update" in sys.argv:
        inv = current()
        os.makedirs(os.path.dirname(EXP), exist_ok=True)
        json.dump(inv, open(EXP, "w"), indent=1, sort_keys=True)
        print("inventory:", sum(1 for v in inv.values() for k in v if not k.startswith("#")), "theorems,",
              sum(1 for v in inv.values() for k in v if k.startswith("#def:")), "definitions,",
              len(set(k for v in inv.values() for k in v if k.startswith("#spec:"))), "specification files in",
              len(inv), "properties")
    else:
        bad = 0
        for pid in sorted(current()):
            for p in diff(pid):
                print(pid, p)
                bad += 1
        sys.exit(1 if bad else 0)
