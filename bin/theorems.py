#!/usr/bin/env python3
"""bin/theorems.py [--update]

Inventory of the property and tie theorems with a hash of each STATEMENT (the text between `theorem <name>`
and the `:=` that starts its proof, whitespace-normalised).  `lean/expectations/theorems.json` is committed;
bin/check compares it with the sources on every run, so a theorem that is deleted, renamed or whose statement
is edited shows up as a broken obligation until the inventory is deliberately updated with --update
(which is a reviewed change in git, like any other)."""
import hashlib, json, os, re, sys
V = os.path.dirname(os.path.dirname(os.path.abspath(__file__)))
EXP = os.path.join(V, "lean", "expectations", "theorems.json")


def strip_comments(src):
    src = re.sub(r"/-.*?-/", lambda m: "\n" * m.group(0).count("\n"), src, flags=re.S)
    return "\n".join(l.split("--")[0] for l in src.split("\n"))


def statements(path):
    """{name: hash} for every theorem of a Lean file."""
    if not os.path.exists(path):
        return {}
    src = strip_comments(open(path).read())
    out = {}
    ns = []
    pos = 0
    for m in re.finditer(r"^\s*(?:namespace\s+(\S+)|end\s+(\S+)|(?:@\[[^\]]*\]\s*)?(?:private\s+|protected\s+)?theorem\s+(\S+))", src, flags=re.M):
        if m.group(1):
            ns.append(m.group(1))
        elif m.group(2):
            if ns and ns[-1] == m.group(2):
                ns.pop()
        else:
            name = ".".join(ns + [m.group(3)])
            rest = src[m.end():]
            # the statement ends at the first ":=" at bracket depth 0 (or at a "|" pattern-matching definition)
            depth = 0
            end = len(rest)
            i = 0
            while i < len(rest):
                ch = rest[i]
                if ch in "([{⟨":
                    depth += 1
                elif ch in ")]}⟩":
                    depth -= 1
                elif depth == 0 and rest.startswith(":=", i):
                    end = i
                    break
                elif depth == 0 and rest.startswith("\n  |", i):
                    end = i
                    break
                i += 1
            stmt = " ".join(rest[:end].split())
            out[name] = hashlib.sha1(stmt.encode()).hexdigest()[:16]
    return out


def current():
    inv = {}
    for d in ("Props", "Tie"):
        base = os.path.join(V, "lean", "Hts", d)
        for f in sorted(os.listdir(base)):
            if f.endswith(".lean"):
                pid = f[:-5]
                inv.setdefault(pid, {}).update(statements(os.path.join(base, f)))
    return inv


def diff(pid):
    """list of problems for one property (empty when the inventory matches)"""
    if not os.path.exists(EXP):
        return ["theorem inventory lean/expectations/theorems.json is missing"]
    exp = json.load(open(EXP)).get(pid, {})
    cur = current().get(pid, {})
    probs = []
    for n, h in exp.items():
        if n not in cur:
            probs.append("theorem %s of the inventory is missing from the sources" % n)
        elif cur[n] != h:
            probs.append("statement of theorem %s differs from the reviewed inventory" % n)
    for n in cur:
        if n not in exp:
            probs.append("theorem %s is not in the reviewed inventory (run bin/theorems.py --update and commit)" % n)
    return probs


if __name__ == "__main__":
    if "--update" in sys.argv:
        inv = current()
        os.makedirs(os.path.dirname(EXP), exist_ok=True)
        json.dump(inv, open(EXP, "w"), indent=1, sort_keys=True)
        print("inventory:", sum(len(v) for v in inv.values()), "theorems in", len(inv), "properties")
    else:
        bad = 0
        for pid in sorted(current()):
            for p in diff(pid):
                print(pid, p)
                bad += 1
        sys.exit(1 if bad else 0)
