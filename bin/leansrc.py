"""Lexical helpers for Lean sources shared by bin/check and bin/theorems.py."""


def strip_comments(src):
    """Lean source with comments blanked (newlines kept, so line numbers are stable).
    Handles nested /- -/ block comments, -- line comments, and does not look inside string or char literals
    (a "--" or "/-" in a string hides nothing)."""
    out = []
    i, n = 0, len(src)
    depth = 0
    while i < n:
        ch = src[i]
        if depth > 0:
            if src.startswith("/-", i):
                depth += 1
                i += 2
            elif src.startswith("-/", i):
                depth -= 1
                i += 2
            else:
                if ch == "\n":
                    out.append("\n")
                i += 1
            continue
        if src.startswith("/-", i):
            depth = 1
            i += 2
            continue
        if src.startswith("--", i):
            while i < n and src[i] != "\n":
                i += 1
            continue
        if ch == '"':
            j = i + 1
            while j < n and src[j] != '"':
                j += 2 if src[j] == "\\" else 1
            out.append(src[i:j + 1])
            i = j + 1
            continue
        if ch == "'" and i + 2 < n and (src[i + 2] == "'" or (src[i + 1] == "\\" and "'" in src[i + 2:i + 8])):
            # char literal 'x' or '\n' / '\x41' / '\u....' (an identifier's prime never starts a token)
            if i > 0 and (src[i - 1].isalnum() or src[i - 1] in "_'!?"):
                out.append(ch)
                i += 1
                continue
            j = src.index("'", i + 2 if src[i + 1] != "\\" else i + 3)
            out.append(src[i:j + 1])
            i = j + 1
            continue
        out.append(ch)
        i += 1
    return "".join(out)
