#!/usr/bin/env python3
"""bin/mirrors.py [--update]

lean/expectations/mirrors.json: for each property, the Go functions of its anchor files (properties.jsonl,
anchors.files) with a hash of each function's token text, as they were when the hand-written model of that
property was last reviewed against them.  bin/check compares this with the current tree on every run.  A
difference is NOT a verdict (the correspondence run is the tie, and a harmless rewrite must not raise an
alarm): it is recorded in the evidence (`code_changed_since_model_review`) and makes the quick tier search
harder — the harness is run on additional seeds — because a changed body is exactly where a hand model can
have fallen behind the code."""
import json, os, subprocess, sys
V = os.path.dirname(os.path.dirname(os.path.abspath(__file__)))
EXP = os.path.join(V, "lean", "expectations", "mirrors.json")


def anchor_files():
    out = {}
    for l in open(os.path.join(V, "properties.jsonl")):
        l = l.strip()
        if l:
            p = json.loads(l)
            out[p["id"]] = sorted(set(p.get("anchors", {}).get("files", [])))
    return out


def current(hashes_path):
    h = json.load(open(hashes_path))
    inv = {}
    for pid, files in anchor_files().items():
        inv[pid] = {k: v for k, v in sorted(h.items()) if k.split(":")[0] in files}
    return inv


def changed(pid, hashes_path):
    """names of functions of the property's anchor files that differ from the reviewed list"""
    if not os.path.exists(EXP) or not os.path.exists(hashes_path):
        return []
    exp = json.load(open(EXP)).get(pid, {})
    cur = current(hashes_path).get(pid, {})
    return sorted(k for k in set(exp) | set(cur) if exp.get(k) != cur.get(k))


if __name__ == "__main__":
    hp = os.path.join(V, ".work", "funchashes.json")
    repo = os.environ.get("VERIF_REPO", "/repo")
    subprocess.check_call([os.path.join(V, ".work", "bin", "extract"), "-repo", repo, "-funchashes", hp])
    if "--update" in sys.argv:
        inv = current(hp)
        json.dump(inv, open(EXP, "w"), indent=1, sort_keys=True)
        print("mirrors:", sum(len(v) for v in inv.values()), "function entries for", len(inv), "properties")
    else:
        bad = 0
        for pid in sorted(anchor_files()):
            for n in changed(pid, hp):
                print(pid, "changed since review:", n)
                bad += 1
        sys.exit(1 if bad else 0)
