#!/usr/bin/env python3
"""Regenerates MANIFEST.json from bin/claims.json (per-property texts) and properties.jsonl."""
import json, os
V = os.path.dirname(os.path.dirname(os.path.abspath(__file__)))
props = [json.loads(l) for l in open(os.path.join(V, "properties.jsonl"))]
claims = json.load(open(os.path.join(V, "bin", "claims.json")))
m = {
    "version": 1,
    "setup_cmd": "bin/setup",
    "hooks": {"guard": "verif",
              "enable": "go build -tags verif (the harness module /verif/go replaces github.com/biogo/hts by /repo)",
              "baseline_off_cmd": "cd /repo && GOFLAGS=-mod=mod GOPROXY=off go test -vet=off -count=1 ./...",
              "source_commits": claims["hook_commits"], "add_only": True},
    "engines": [{"name": "lean-proof+correspondence", "path": "bin/check",
                 "serves_properties": sorted(claims["checks"].keys()),
                 "kind_free_text": "Lean 4 theorems over executable models; models tied to /repo by a Go-AST translator "
                                   "(Hts/Gen + Hts/Tie) and by a differential correspondence harness driving the compiled Lean model"}],
    "checks": [],
    "notes": "See DESIGN.md. Every check: regenerate Hts/Gen from /repo, build+audit theorems, build harness with -tags verif, "
             "correspondence + oracle on the implementation, evidence. known-findings.txt lists recorded findings and repaired defects.",
    "not_applicable": [],
}
for p in props:
    pid = p["id"]
    if pid in claims["checks"]:
        c = claims["checks"][pid]
        m["checks"].append({
            "property_id": pid, "quick_cmd": "bin/check %s quick" % pid, "thorough_cmd": "bin/check %s thorough" % pid,
            "evidence_file": "evidence/%s.json" % pid, "replay_cmd_template": "bin/check %s --replay {path}" % pid,
            "engine": "lean-proof+correspondence",
            "level_claimed": {"category": "proof", "text": c["text"], "design_ref": "DESIGN.md §5 " + pid},
            "level_note": c["note"], "technique": c["technique"]})
    else:
        reason = claims.get("not_applicable", {}).get(pid)
        if pid in claims.get("pending", {}):
            reason = ("check built (Lean model, theorems, harness are in the tree) but temporarily withdrawn: its model is being "
                      "brought in line with repairs made for other properties; not a claim that the technique cannot apply")
        reason = reason or (
            "check not built yet (planned: Lean model + theorems + correspondence, DESIGN.md §5 %s); "
            "not a claim that the technique cannot apply" % pid)
        m["not_applicable"].append({"property_id": pid, "reason": reason})
json.dump(m, open(os.path.join(V, "MANIFEST.json"), "w"), indent=1)
print("checks:", [c["property_id"] for c in m["checks"]])
