/-
Tie for C19: the record arithmetic of fai/fai.go (`Record.position`, `Record.endOfLineOffset`, `Record.isValid`), regenerated from
the Go AST, equals the model's on every record whose file offsets fit an int64.
-/
import Hts.Model.Fai
import Hts.Gen.Fai
import Hts.Lemmas.FaiSane
import Hts.Lemmas.FaiSample
namespace Hts.Tie.C19
open Hts.Model.Fai

theorem tdiv_nat (a b : Nat) : Int.tdiv (a : Int) (b : Int) = ((a / b : Nat) : Int) := by
  rw [Int.tdiv_eq_ediv_of_nonneg (by omega)]
  norm_cast

theorem tmod_nat (a b : Nat) : Int.tmod (a : Int) (b : Int) = ((a % b : Nat) : Int) := by
  rw [Int.tmod_eq_emod_of_nonneg (by omega)]
  norm_cast

theorem add_ofNat_toNat (a b : Nat) (h : a + b < 2 ^ 63) :
    (BitVec.ofNat 64 a + BitVec.ofInt 64 (b : Int)).toNat = a + b := by
  rw [BitVec.ofInt_natCast, BitVec.toNat_add, BitVec.toNat_ofNat, BitVec.toNat_ofNat]
  omega

/-- `Record.position` (int64 result) for offsets below 2^63 -/
theorem tie_position (r : Record) (p : Nat) (h : r.position p < 2 ^ 63) :
    (Hts.Gen.Fai.position r.length (BitVec.ofNat 64 r.start) r.basesPerLine r.bytesPerLine p).toNat =
      r.position p := by
  unfold Hts.Gen.Fai.position
  unfold Record.position at h ⊢
  by_cases hb : r.basesPerLine = 0
  · have hb' : ((r.basesPerLine : Int) == 0) = true := by simp [hb]
    rw [if_pos hb] at h
    rw [if_pos hb, if_pos hb', BitVec.toNat_ofNat]
    omega
  · have hb' : ((r.basesPerLine : Int) == 0) = false := by
      simp only [beq_eq_false_iff_ne, ne_eq]; omega
    rw [if_neg hb] at h
    rw [if_neg hb, hb']
    simp only [Bool.false_eq_true, if_false, tdiv_nat, tmod_nat]
    have e : ((p / r.basesPerLine : Nat) : Int) * (r.bytesPerLine : Int) + ((p % r.basesPerLine : Nat) : Int)
        = ((p / r.basesPerLine * r.bytesPerLine + p % r.basesPerLine : Nat) : Int) := by norm_cast
    rw [e]
    exact add_ofNat_toNat _ _ h

/-- `Record.endOfLineOffset` inside the sequence (`p ≤ Length`, `BasesPerLine > 0`).

The two hypotheses are exactly what the only caller, the loop of `Seq.Read`, establishes:
* `0 < BasesPerLine`: Go divides by `r.BasesPerLine` here and panics when it is 0, whereas the generated
  `Int.tdiv x 0` is 0 — so the equation is stated only where Go does not panic.  The model's `Seq.read` tests
  `basesPerLine = 0` before entering the loop (outcome `panicDiv`), and `Hts.Props.C19.read_never_divides_by_zero`
  proves that outcome unreachable for every index built by `NewIndex` (any input) or accepted by `ReadFrom`.
* `p ≤ Length`: the loop calls it at `p = s.cur < s.end`, and `File.Seq`/`File.SeqRange` only hand out
  `end ≤ Length` (`Hts.Lemmas.Fai.seqRange_bounds`, `seqWhole_bounds`).
`tie_readLoop` below packages this: the whole loop run with the regenerated functions equals the model's. -/
theorem tie_endOfLineOffset (r : Record) (s : BitVec 64) (p : Nat) (hp : p ≤ r.length) (hb : 0 < r.basesPerLine) :
    Hts.Gen.Fai.endOfLineOffset r.length s r.basesPerLine r.bytesPerLine p = (r.endOfLineOffset p : Int) := by
  unfold Hts.Gen.Fai.endOfLineOffset Record.endOfLineOffset
  simp only [tdiv_nat, tmod_nat]
  have hm : p % r.basesPerLine < r.basesPerLine := Nat.mod_lt _ hb
  by_cases hc : p / r.basesPerLine = r.length / r.basesPerLine
  · have hc' : (((p / r.basesPerLine : Nat) : Int) == ((r.length / r.basesPerLine : Nat) : Int)) = true := by
      simp [hc]
    rw [if_pos hc, hc']
    simp only [if_true]
    omega
  · have hc' : (((p / r.basesPerLine : Nat) : Int) == ((r.length / r.basesPerLine : Nat) : Int)) = false := by
      simp only [beq_eq_false_iff_ne, ne_eq]; omega
    rw [if_neg hc, hc']
    simp only [Bool.false_eq_true, if_false]
    omega

/-! ### the loop of `Seq.Read` with the regenerated arithmetic -/

/-- `min` of fai/file.go -/
theorem tie_min (a b : Nat) : Hts.Gen.Fai.min (a : Int) (b : Int) = ((min a b : Nat) : Int) := by
  unfold Hts.Gen.Fai.min
  by_cases h : a < b
  · have : ((a : Int) < (b : Int)) := by omega
    simp only [this, decide_true, if_true]
    omega
  · have : ¬ ((a : Int) < (b : Int)) := by omega
    simp only [this, decide_false, Bool.false_eq_true, if_false]
    omega

/-- the column order of the .fai text: the model's `parseRecord` pattern `[name, length, start, bases, bytes]` -/
theorem tie_field_order :
    [Hts.Gen.Fai.nameField, Hts.Gen.Fai.lengthField, Hts.Gen.Fai.startField, Hts.Gen.Fai.basesField,
      Hts.Gen.Fai.bytesField] = [0, 1, 2, 3, 4] := by decide

/-- `Record.position` and `Record.endOfLineOffset` as Go computes them (regenerated), as functions on naturals -/
def posGen (r : Record) (p : Nat) : Nat :=
  (Hts.Gen.Fai.position r.length (BitVec.ofNat 64 r.start) r.basesPerLine r.bytesPerLine p).toNat

def eolGen (r : Record) (p : Nat) : Nat :=
  (Hts.Gen.Fai.endOfLineOffset r.length (BitVec.ofNat 64 r.start) r.basesPerLine r.bytesPerLine p).toNat

/-- the number of bytes one iteration of the loop asks `ReadAt` for,
`min(min(r.endOfLineOffset(cur), end-int(cur)), len(b))`, with every operation regenerated -/
theorem tie_want (r : Record) (cur endPos k : Nat) (hp : cur ≤ r.length) (hb : 0 < r.basesPerLine)
    (hpos : r.position cur < 2 ^ 63) (hend : r.position cur ≤ endPos) :
    Hts.Gen.Fai.min
        (Hts.Gen.Fai.min
          (Hts.Gen.Fai.endOfLineOffset r.length (BitVec.ofNat 64 r.start) r.basesPerLine r.bytesPerLine cur)
          ((endPos : Int) - ((posGen r cur : Nat) : Int)))
        (k : Int) =
      ((min (min (r.endOfLineOffset cur) (endPos - r.position cur)) k : Nat) : Int) := by
  have e1 : posGen r cur = r.position cur := tie_position r cur hpos
  rw [tie_endOfLineOffset r _ cur hp hb, e1]
  have e2 : (endPos : Int) - (r.position cur : Int) = ((endPos - r.position cur : Nat) : Int) := by omega
  rw [e2, tie_min, tie_min]

/-- The loop of `Seq.Read` run with the regenerated `position`/`endOfLineOffset` is the model's loop, for every
file, buffer size and cursor, whenever the handle satisfies what `Seq.read` and `SeqRange` establish
(`BasesPerLine > 0`, `stop ≤ Length`) and the offsets fit an int64. -/
theorem tie_readLoop (file : Bytes) (r : Record) (endPos stop cur k : Nat) (acc : Bytes)
    (hb : 0 < r.basesPerLine) (hstop : stop ≤ r.length) (hsmall : ∀ p, p < stop → r.position p < 2 ^ 63) :
    readLoopG file (posGen r) (eolGen r) endPos stop cur k acc = readLoop file r endPos stop cur k acc := by
  unfold readLoop
  apply Hts.Lemmas.Fai.readLoopG_congr file _ _ _ _ endPos stop _ (stop - cur) cur k acc (Nat.le_refl _)
  intro p hp
  refine ⟨tie_position r p (hsmall p hp), ?_⟩
  unfold eolGen
  rw [tie_endOfLineOffset r _ p (by omega) hb]
  simp

/-- One `Read` call computed with the regenerated arithmetic (same control flow as `Seq.read`). -/
def readGen (file : Bytes) (s : Seq) (k : Nat) : RdRes :=
  if k = 0 then ⟨[], .nil, s.cur⟩
  else if s.stop ≤ s.cur then ⟨[], .eof, s.cur⟩
  else if s.rcd.basesPerLine = 0 then ⟨[], .panicDiv, s.cur⟩
  else readLoopG file (posGen s.rcd) (eolGen s.rcd) (posGen s.rcd s.stop) s.stop s.cur k []

theorem tie_read (file : Bytes) (s : Seq) (k : Nat) (hstop : s.stop ≤ s.rcd.length)
    (hsmall : ∀ p, p ≤ s.stop → s.rcd.position p < 2 ^ 63) : readGen file s k = s.read file k := by
  unfold readGen Seq.read
  by_cases hk : k = 0
  · simp [hk]
  · by_cases hc : s.stop ≤ s.cur
    · simp [hk, hc]
    · by_cases hb : s.rcd.basesPerLine = 0
      · simp [hk, hc, hb]
      · simp only [hk, hc, hb, if_false]
        have e : posGen s.rcd s.stop = s.rcd.position s.stop := tie_position _ _ (hsmall _ (Nat.le_refl _))
        rw [e]
        exact tie_readLoop file s.rcd _ s.stop s.cur k [] (by omega) hstop
          (fun p hp => hsmall p (by omega))

/-! ### `Record.isValid` (the validation `ReadFrom` applies), with its int64 arithmetic -/

theorem toInt_ofInt_small (x : Int) (h1 : -(2:Int)^63 ≤ x) (h2 : x < (2:Int)^63) : (BitVec.ofInt 64 x).toInt = x :=
  BitVec.toInt_ofInt_eq_self (by decide) (by simpa using h1) (by simpa using h2)

theorem toInt_maxInt : (9223372036854775807#64).toInt = 9223372036854775807 := by decide

theorem tdiv_bounds (a b : Int) (ha : 0 ≤ a) (hb : 0 < b) : 0 ≤ Int.tdiv a b ∧ Int.tdiv a b ≤ a := by
  rw [Int.tdiv_eq_ediv_of_nonneg ha]
  constructor
  · exact Int.ediv_nonneg ha (by omega)
  · exact Int.ediv_le_self b ha

theorem tie_isValid (name : Bytes) (l s b y : Int)
    (hl : l < 2^63) (hs1 : -(2:Int)^63 ≤ s) (hs2 : s < 2^63) (hb : b < 2^63) (hy : y < 2^63) :
    Hts.Gen.Fai.isValid l (BitVec.ofInt 64 s) b y = (RawRecord.mk name l s b y).isValid := by
  have e63 : (2:Int)^63 = 9223372036854775808 := by decide
  rw [e63] at hl hs1 hs2 hb hy
  unfold Hts.Gen.Fai.isValid RawRecord.isValid
  simp only [BitVec.slt_eq_decide, toInt_ofInt_small s (by omega) (by omega), BitVec.toInt_zero]
  by_cases h0 : l < 0 ∨ s < 0 ∨ b < 0 ∨ y < b
  · have : (decide (l < 0) || decide (s < 0) || decide (b < 0) || decide (y < b)) = true := by
      rcases h0 with h | h | h | h <;> simp [h]
    simp [this, h0]
  · have hn : (decide (l < 0) || decide (s < 0) || decide (b < 0) || decide (y < b)) = false := by
      simp only [not_or, Int.not_lt] at h0
      simp; omega
    simp only [hn, Bool.false_eq_true, if_false, h0]
    simp only [not_or, Int.not_lt] at h0
    obtain ⟨hl0, hs0, hb0, hyb⟩ := h0
    by_cases hbz : b = 0
    · subst hbz
      simp only [beq_self_eq_true, if_true]
      by_cases hl00 : l = 0 <;> simp [hl00]
    · have hbne : (b == 0) = false := by simp [hbz]
      simp only [hbne, Bool.false_eq_true, if_false, hbz]
      have hbpos : 0 < b := by omega
      have hypos : 0 < y := by omega
      have hq := tdiv_bounds l b hl0 hbpos
      -- the three int64 sub-expressions do not overflow
      have t1 : (BitVec.ofInt 64 (Int.tdiv l b)).toInt = Int.tdiv l b := toInt_ofInt_small _ (by omega) (by omega)
      have tb : (BitVec.ofInt 64 b).toInt = b := toInt_ofInt_small _ (by omega) (by omega)
      have ty : (BitVec.ofInt 64 y).toInt = y := toInt_ofInt_small _ (by omega) (by omega)
      have tS : (BitVec.ofInt 64 s).toInt = s := toInt_ofInt_small _ (by omega) (by omega)
      have t2 : (9223372036854775807#64 - BitVec.ofInt 64 s - BitVec.ofInt 64 b).toInt = 9223372036854775807 - s - b := by
        rw [BitVec.toInt_sub, BitVec.toInt_sub, toInt_maxInt, tS, tb]
        have e64 : (2:Int)^64 = 18446744073709551616 := by decide
        simp only [Int.bmod]
        omega
      have hne : (9223372036854775807#64 - BitVec.ofInt 64 s - BitVec.ofInt 64 b) ≠ BitVec.intMin 64 ∨ BitVec.ofInt 64 y ≠ -1#64 := by
        right
        intro h
        have := congrArg BitVec.toInt h
        rw [ty] at this
        have : (-1#64 : BitVec 64).toInt = -1 := by decide
        omega
      rw [BitVec.sle_eq_decide, t1, BitVec.toInt_sdiv_of_ne_or_ne _ _ hne, t2, ty]
      simp only [maxInt64]
      congr 1

/-! ### the hypotheses of the tie theorems are satisfiable: record `s1 8 11 4 6` of the sample file
(`Hts.Lemmas.Fai.sampleFile`: CRLF, two lines of 4 bases) -/

open Hts.Lemmas.Fai (exRec exRec_small)

example := tie_position exRec 5 (exRec_small 5 (by decide))
example := tie_endOfLineOffset exRec 0#64 5 (by decide) (by decide)
example := tie_want exRec 5 29 3 (by decide) (by decide) (exRec_small 5 (by decide)) (by decide)
example (file : Bytes) := tie_readLoop file exRec 23 8 2 3 [] (by decide) (by decide)
  (fun p hp => exRec_small p (by omega))
example (file : Bytes) := tie_read file ⟨exRec, 2, 2, 8⟩ 3 (by decide) (fun p hp => exRec_small p hp)
example := tie_isValid [115, 49] 8 11 4 6 (by decide) (by decide) (by decide) (by decide) (by decide)

end Hts.Tie.C19
