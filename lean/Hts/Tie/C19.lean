/-
Tie for C19: the record arithmetic of fai/fai.go (`Record.position`, `Record.endOfLineOffset`, `Record.isValid`), regenerated from
the Go AST, equals the model's on every record whose file offsets fit an int64.
-/
import Hts.Model.Fai
import Hts.Gen.Fai
namespace Hts.Tie.C19
open Hts.Model.Fai

theorem tdiv_nat (a b : Nat) : Int.tdiv (a : Int) (b : Int) = ((a / b : Nat) : Int) := by
  rw [Int.tdiv_eq_ediv_of_nonneg (by omega)]
  norm_cast

theorem tmod_nat (a b : Nat) : Int.tmod (a : Int) (b : Int) = ((a % b : Nat) : Int) := by
  rw [Int.tmod_eq_emod_of_nonneg (by omega)]
  norm_cast

theorem add_ofNat_toNat (a b : Nat) (h : a + b < 2 ^ 63) :
    (BitVec.ofNat 64 a + BitVec.ofInt 64 (b : Int)).toNat = a + b := by
  rw [BitVec.ofInt_natCast, BitVec.toNat_add, BitVec.toNat_ofNat, BitVec.toNat_ofNat]
  omega

/-- `Record.position` (int64 result) for offsets below 2^63 -/
theorem tie_position (r : Record) (p : Nat) (h : r.position p < 2 ^ 63) :
    (Hts.Gen.Fai.position r.length (BitVec.ofNat 64 r.start) r.basesPerLine r.bytesPerLine p).toNat =
      r.position p := by
  unfold Hts.Gen.Fai.position
  unfold Record.position at h ⊢
  by_cases hb : r.basesPerLine = 0
  · have hb' : ((r.basesPerLine : Int) == 0) = true := by simp [hb]
    rw [if_pos hb] at h
    rw [if_pos hb, if_pos hb', BitVec.toNat_ofNat]
    omega
  · have hb' : ((r.basesPerLine : Int) == 0) = false := by
      simp only [beq_eq_false_iff_ne, ne_eq]; omega
    rw [if_neg hb] at h
    rw [if_neg hb, hb']
    simp only [Bool.false_eq_true, if_false, tdiv_nat, tmod_nat]
    have e : ((p / r.basesPerLine : Nat) : Int) * (r.bytesPerLine : Int) + ((p % r.basesPerLine : Nat) : Int)
        = ((p / r.basesPerLine * r.bytesPerLine + p % r.basesPerLine : Nat) : Int) := by norm_cast
    rw [e]
    exact add_ofNat_toNat _ _ h

/-- `Record.endOfLineOffset` inside the sequence (`p ≤ Length`, `BasesPerLine > 0`) -/
theorem tie_endOfLineOffset (r : Record) (s : BitVec 64) (p : Nat) (hp : p ≤ r.length) (hb : 0 < r.basesPerLine) :
    Hts.Gen.Fai.endOfLineOffset r.length s r.basesPerLine r.bytesPerLine p = (r.endOfLineOffset p : Int) := by
  unfold Hts.Gen.Fai.endOfLineOffset Record.endOfLineOffset
  simp only [tdiv_nat, tmod_nat]
  have hm : p % r.basesPerLine < r.basesPerLine := Nat.mod_lt _ hb
  by_cases hc : p / r.basesPerLine = r.length / r.basesPerLine
  · have hc' : (((p / r.basesPerLine : Nat) : Int) == ((r.length / r.basesPerLine : Nat) : Int)) = true := by
      simp [hc]
    rw [if_pos hc, hc']
    simp only [if_true]
    omega
  · have hc' : (((p / r.basesPerLine : Nat) : Int) == ((r.length / r.basesPerLine : Nat) : Int)) = false := by
      simp only [beq_eq_false_iff_ne, ne_eq]; omega
    rw [if_neg hc, hc']
    simp only [Bool.false_eq_true, if_false]
    omega

/-! ### `Record.isValid` (the validation `ReadFrom` applies), with its int64 arithmetic -/

theorem toInt_ofInt_small (x : Int) (h1 : -(2:Int)^63 ≤ x) (h2 : x < (2:Int)^63) : (BitVec.ofInt 64 x).toInt = x :=
  BitVec.toInt_ofInt_eq_self (by decide) (by simpa using h1) (by simpa using h2)

theorem toInt_maxInt : (9223372036854775807#64).toInt = 9223372036854775807 := by decide

theorem tdiv_bounds (a b : Int) (ha : 0 ≤ a) (hb : 0 < b) : 0 ≤ Int.tdiv a b ∧ Int.tdiv a b ≤ a := by
  rw [Int.tdiv_eq_ediv_of_nonneg ha]
  constructor
  · exact Int.ediv_nonneg ha (by omega)
  · exact Int.ediv_le_self b ha

theorem tie_isValid (name : Bytes) (l s b y : Int)
    (hl : l < 2^63) (hs1 : -(2:Int)^63 ≤ s) (hs2 : s < 2^63) (hb : b < 2^63) (hy : y < 2^63) :
    Hts.Gen.Fai.isValid l (BitVec.ofInt 64 s) b y = (RawRecord.mk name l s b y).isValid := by
  have e63 : (2:Int)^63 = 9223372036854775808 := by decide
  rw [e63] at hl hs1 hs2 hb hy
  unfold Hts.Gen.Fai.isValid RawRecord.isValid
  simp only [BitVec.slt_eq_decide, toInt_ofInt_small s (by omega) (by omega), BitVec.toInt_zero]
  by_cases h0 : l < 0 ∨ s < 0 ∨ b < 0 ∨ y < b
  · have : (decide (l < 0) || decide (s < 0) || decide (b < 0) || decide (y < b)) = true := by
      rcases h0 with h | h | h | h <;> simp [h]
    simp [this, h0]
  · have hn : (decide (l < 0) || decide (s < 0) || decide (b < 0) || decide (y < b)) = false := by
      simp only [not_or, Int.not_lt] at h0
      simp; omega
    simp only [hn, Bool.false_eq_true, if_false, h0]
    simp only [not_or, Int.not_lt] at h0
    obtain ⟨hl0, hs0, hb0, hyb⟩ := h0
    by_cases hbz : b = 0
    · subst hbz
      simp only [beq_self_eq_true, if_true]
      by_cases hl00 : l = 0 <;> simp [hl00]
    · have hbne : (b == 0) = false := by simp [hbz]
      simp only [hbne, Bool.false_eq_true, if_false, hbz]
      have hbpos : 0 < b := by omega
      have hypos : 0 < y := by omega
      have hq := tdiv_bounds l b hl0 hbpos
      -- the three int64 sub-expressions do not overflow
      have t1 : (BitVec.ofInt 64 (Int.tdiv l b)).toInt = Int.tdiv l b := toInt_ofInt_small _ (by omega) (by omega)
      have tb : (BitVec.ofInt 64 b).toInt = b := toInt_ofInt_small _ (by omega) (by omega)
      have ty : (BitVec.ofInt 64 y).toInt = y := toInt_ofInt_small _ (by omega) (by omega)
      have tS : (BitVec.ofInt 64 s).toInt = s := toInt_ofInt_small _ (by omega) (by omega)
      have t2 : (9223372036854775807#64 - BitVec.ofInt 64 s - BitVec.ofInt 64 b).toInt = 9223372036854775807 - s - b := by
        rw [BitVec.toInt_sub, BitVec.toInt_sub, toInt_maxInt, tS, tb]
        have e64 : (2:Int)^64 = 18446744073709551616 := by decide
        simp only [Int.bmod]
        omega
      have hne : (9223372036854775807#64 - BitVec.ofInt 64 s - BitVec.ofInt 64 b) ≠ BitVec.intMin 64 ∨ BitVec.ofInt 64 y ≠ -1#64 := by
        right
        intro h
        have := congrArg BitVec.toInt h
        rw [ty] at this
        have : (-1#64 : BitVec 64).toInt = -1 := by decide
        omega
      rw [BitVec.sle_eq_decide, t1, BitVec.toInt_sdiv_of_ne_or_ne _ _ hne, t2, ty]
      simp only [maxInt64]
      congr 1

end Hts.Tie.C19
