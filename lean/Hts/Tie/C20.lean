/-
Tie for C20: the definitions regenerated from the Go AST (Hts.Gen.Itf8 / Hts.Gen.Ltf8) equal the
hand-written models the property theorems are about.  If the Go code changes, these stop checking.
-/
import Hts.Model.Itf8
import Hts.Model.Ltf8
import Hts.Gen.Itf8
import Hts.Gen.Ltf8
open Hts.GoPrim
namespace Hts.Tie.C20

theorem itf8_width_clz_fin : ∀ n : Fin 256,
    clz8 (~~~(BitVec.ofFin n &&& 0xf0#8)) + 1 = Hts.Model.Itf8.width (BitVec.ofFin n) := by
  decide +kernel
theorem itf8_width_clz (b0 : BitVec 8) : clz8 (~~~(b0 &&& 0xf0#8)) + 1 = Hts.Model.Itf8.width b0 := by
  simpa using itf8_width_clz_fin b0.toFin

theorem ltf8_width_clz_fin : ∀ n : Fin 256,
    clz8 (~~~(BitVec.ofFin n)) + 1 = Hts.Model.Ltf8.width (BitVec.ofFin n) := by
  decide +kernel
theorem ltf8_width_clz (b0 : BitVec 8) : clz8 (~~~b0) + 1 = Hts.Model.Ltf8.width b0 := by
  simpa using ltf8_width_clz_fin b0.toFin

theorem tie_itf8_len (v : BitVec 32) : Hts.Gen.Itf8.len v = Hts.Model.Itf8.len v := by
  unfold Hts.Gen.Itf8.len Hts.Model.Itf8.len; rfl

theorem tie_itf8_decode (b : List (BitVec 8)) : Hts.Gen.Itf8.decode b = Hts.Model.Itf8.decode b := by
  unfold Hts.Gen.Itf8.decode Hts.Model.Itf8.decode
  simp only [itf8_width_clz, Hts.Model.Itf8.z]
  cases b with
  | nil => rfl
  | cons a t =>
    simp
    (repeat' split) <;> first | rfl | omega | simp_all

/-- `Encode` writes exactly the model's bytes into the front of `b`, leaves the rest alone and returns
their number — whenever the buffer holds the encoding (`Len(v) ≤ len(b)`); on a shorter buffer Go panics
with an index error (C11's inventory covers that site), where the generated total function would do nothing. -/
theorem tie_itf8_encode (b : List (BitVec 8)) (v : BitVec 32) (h : Hts.Model.Itf8.len v ≤ (b.length : Int)) :
    (Hts.Gen.Itf8.encode b v).2 = Hts.Model.Itf8.len v ∧
    (Hts.Gen.Itf8.encode b v).1 = Hts.Model.Itf8.encode v ++ b.drop (Hts.Model.Itf8.encode v).length := by
  rcases b with _ | ⟨b0, _ | ⟨b1, _ | ⟨b2, _ | ⟨b3, _ | ⟨b4, rest⟩⟩⟩⟩⟩ <;>
  (unfold Hts.Gen.Itf8.encode Hts.Model.Itf8.encode
   unfold Hts.Model.Itf8.len at h ⊢
   (repeat' split) <;> first | (simp_all; done) | (simp_all; omega))

theorem tie_ltf8_len (v : BitVec 64) : Hts.Gen.Ltf8.len v = Hts.Model.Ltf8.len v := by
  unfold Hts.Gen.Ltf8.len Hts.Model.Ltf8.len; rfl

theorem tie_ltf8_decode (b : List (BitVec 8)) : Hts.Gen.Ltf8.decode b = Hts.Model.Ltf8.decode b := by
  unfold Hts.Gen.Ltf8.decode Hts.Model.Ltf8.decode
  simp only [ltf8_width_clz, Hts.Model.Ltf8.z]
  cases b with
  | nil => rfl
  | cons a t =>
    simp
    (repeat' split) <;> first | rfl | omega | simp_all

theorem tie_ltf8_encode (b : List (BitVec 8)) (v : BitVec 64) (h : Hts.Model.Ltf8.len v ≤ (b.length : Int)) :
    (Hts.Gen.Ltf8.encode b v).2 = Hts.Model.Ltf8.len v ∧
    (Hts.Gen.Ltf8.encode b v).1 = Hts.Model.Ltf8.encode v ++ b.drop (Hts.Model.Ltf8.encode v).length := by
  by_cases h0 : v.ult 128#64 = true
  · have hl : Hts.Model.Ltf8.len v = 1 := by simp [Hts.Model.Ltf8.len, h0]
    rw [hl] at h
    rcases b with _ | ⟨b0, rest⟩
    · simp at h; try omega
    unfold Hts.Gen.Ltf8.encode Hts.Model.Ltf8.len Hts.Model.Ltf8.encode
    simp [h0, List.set, List.drop]
  by_cases h1 : v.ult 16384#64 = true
  · have hl : Hts.Model.Ltf8.len v = 2 := by simp [Hts.Model.Ltf8.len, h0, h1]
    rw [hl] at h
    rcases b with _ | ⟨b0, _ | ⟨b1, rest⟩⟩
    · simp at h; try omega
    · simp at h; try omega
    unfold Hts.Gen.Ltf8.encode Hts.Model.Ltf8.len Hts.Model.Ltf8.encode
    simp [h0, h1, List.set, List.drop]
  by_cases h2 : v.ult 2097152#64 = true
  · have hl : Hts.Model.Ltf8.len v = 3 := by simp [Hts.Model.Ltf8.len, h0, h1, h2]
    rw [hl] at h
    rcases b with _ | ⟨b0, _ | ⟨b1, _ | ⟨b2, rest⟩⟩⟩
    · simp at h; try omega
    · simp at h; try omega
    · simp at h; try omega
    unfold Hts.Gen.Ltf8.encode Hts.Model.Ltf8.len Hts.Model.Ltf8.encode
    simp [h0, h1, h2, List.set, List.drop]
  by_cases h3 : v.ult 268435456#64 = true
  · have hl : Hts.Model.Ltf8.len v = 4 := by simp [Hts.Model.Ltf8.len, h0, h1, h2, h3]
    rw [hl] at h
    rcases b with _ | ⟨b0, _ | ⟨b1, _ | ⟨b2, _ | ⟨b3, rest⟩⟩⟩⟩
    · simp at h; try omega
    · simp at h; try omega
    · simp at h; try omega
    · simp at h; try omega
    unfold Hts.Gen.Ltf8.encode Hts.Model.Ltf8.len Hts.Model.Ltf8.encode
    simp [h0, h1, h2, h3, List.set, List.drop]
  by_cases h4 : v.ult 34359738368#64 = true
  · have hl : Hts.Model.Ltf8.len v = 5 := by simp [Hts.Model.Ltf8.len, h0, h1, h2, h3, h4]
    rw [hl] at h
    rcases b with _ | ⟨b0, _ | ⟨b1, _ | ⟨b2, _ | ⟨b3, _ | ⟨b4, rest⟩⟩⟩⟩⟩
    · simp at h; try omega
    · simp at h; try omega
    · simp at h; try omega
    · simp at h; try omega
    · simp at h; try omega
    unfold Hts.Gen.Ltf8.encode Hts.Model.Ltf8.len Hts.Model.Ltf8.encode
    simp [h0, h1, h2, h3, h4, List.set, List.drop]
  by_cases h5 : v.ult 4398046511104#64 = true
  · have hl : Hts.Model.Ltf8.len v = 6 := by simp [Hts.Model.Ltf8.len, h0, h1, h2, h3, h4, h5]
    rw [hl] at h
    rcases b with _ | ⟨b0, _ | ⟨b1, _ | ⟨b2, _ | ⟨b3, _ | ⟨b4, _ | ⟨b5, rest⟩⟩⟩⟩⟩⟩
    · simp at h; try omega
    · simp at h; try omega
    · simp at h; try omega
    · simp at h; try omega
    · simp at h; try omega
    · simp at h; try omega
    unfold Hts.Gen.Ltf8.encode Hts.Model.Ltf8.len Hts.Model.Ltf8.encode
    simp [h0, h1, h2, h3, h4, h5, List.set, List.drop]
  by_cases h6 : v.ult 562949953421312#64 = true
  · have hl : Hts.Model.Ltf8.len v = 7 := by simp [Hts.Model.Ltf8.len, h0, h1, h2, h3, h4, h5, h6]
    rw [hl] at h
    rcases b with _ | ⟨b0, _ | ⟨b1, _ | ⟨b2, _ | ⟨b3, _ | ⟨b4, _ | ⟨b5, _ | ⟨b6, rest⟩⟩⟩⟩⟩⟩⟩
    · simp at h; try omega
    · simp at h; try omega
    · simp at h; try omega
    · simp at h; try omega
    · simp at h; try omega
    · simp at h; try omega
    · simp at h; try omega
    unfold Hts.Gen.Ltf8.encode Hts.Model.Ltf8.len Hts.Model.Ltf8.encode
    simp [h0, h1, h2, h3, h4, h5, h6, List.set, List.drop]
  by_cases h7 : v.ult 72057594037927936#64 = true
  · have hl : Hts.Model.Ltf8.len v = 8 := by simp [Hts.Model.Ltf8.len, h0, h1, h2, h3, h4, h5, h6, h7]
    rw [hl] at h
    rcases b with _ | ⟨b0, _ | ⟨b1, _ | ⟨b2, _ | ⟨b3, _ | ⟨b4, _ | ⟨b5, _ | ⟨b6, _ | ⟨b7, rest⟩⟩⟩⟩⟩⟩⟩⟩
    · simp at h; try omega
    · simp at h; try omega
    · simp at h; try omega
    · simp at h; try omega
    · simp at h; try omega
    · simp at h; try omega
    · simp at h; try omega
    · simp at h; try omega
    unfold Hts.Gen.Ltf8.encode Hts.Model.Ltf8.len Hts.Model.Ltf8.encode
    simp [h0, h1, h2, h3, h4, h5, h6, h7, List.set, List.drop]
  have hl : Hts.Model.Ltf8.len v = 9 := by simp [Hts.Model.Ltf8.len, h0, h1, h2, h3, h4, h5, h6, h7]
  rw [hl] at h
  rcases b with _ | ⟨b0, _ | ⟨b1, _ | ⟨b2, _ | ⟨b3, _ | ⟨b4, _ | ⟨b5, _ | ⟨b6, _ | ⟨b7, _ | ⟨b8, rest⟩⟩⟩⟩⟩⟩⟩⟩⟩
  · simp at h; try omega
  · simp at h; try omega
  · simp at h; try omega
  · simp at h; try omega
  · simp at h; try omega
  · simp at h; try omega
  · simp at h; try omega
  · simp at h; try omega
  · simp at h; try omega
  unfold Hts.Gen.Ltf8.encode Hts.Model.Ltf8.len Hts.Model.Ltf8.encode
  simp [h0, h1, h2, h3, h4, h5, h6, h7, List.set, List.drop]

end Hts.Tie.C20
