/-
Tie for C01/C08: the constants and the `compressBound` kernel regenerated from bgzf/bgzf.go
(Hts.Gen.Bgzf) equal the ones the models and theorems use.  If the Go source changes, these stop
checking.
-/
import Hts.Model.BgzfWriter
import Hts.Model.Member
import Hts.Gen.Bgzf
namespace Hts.Tie.C01
open Hts.Model

theorem tie_blockSize : Hts.Gen.Bgzf.blockSize = (BgzfWriter.BlockSize : Int) := by decide
theorem tie_maxBlockSize : Hts.Gen.Bgzf.maxBlockSize = (BgzfWriter.MaxBlockSize : Int) := by decide
theorem tie_bgzfExtra : Hts.Gen.Bgzf.bgzfExtra = Member.bgzfExtra.map UInt8.toNat := by decide
theorem tie_bgzfExtraPrefix : Hts.Gen.Bgzf.bgzfExtra.take 4 = Member.bgzfExtraPrefix.map UInt8.toNat := by decide
theorem tie_magicBlock : Hts.Gen.Bgzf.magicBlock = Member.magicBlock.map UInt8.toNat := by decide
theorem tie_minFrame : Hts.Gen.Bgzf.minFrame = (Member.minFrame : Int) := by decide

/-- `bgzf.compressBound` (Go `int` arithmetic with `>>`) equals the model's bound for every non-negative
length. -/
theorem tie_compressBound (n : Nat) : Hts.Gen.Bgzf.compressBound (n : Int) = (Member.compressBound n : Int) := by
  simp only [Hts.Gen.Bgzf.compressBound, Member.compressBound, Member.minFrame, Member.bgzfExtra]
  simp only [Int.shiftRight_eq_div_pow]
  norm_cast

/-- the init() check of bgzf.go: a full block always fits into a 64 KiB member -/
theorem tie_compressBound_blockSize :
    Hts.Gen.Bgzf.compressBound Hts.Gen.Bgzf.blockSize ≤ Hts.Gen.Bgzf.maxBlockSize := by decide

/-- the model's bound is what `default_header_fits` uses: deflateBound + 26 bytes of framing -/
theorem compressBound_model (n : Nat) :
    Member.compressBound n = n + n / 4096 + n / 16384 + n / 33554432 + 13 + 26 := by
  simp [Member.compressBound, Member.minFrame, Member.bgzfExtra]

end Hts.Tie.C01
