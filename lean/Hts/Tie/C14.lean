/-
Tie for C14 (audit M-6): the lock shape `lock_linearizable` assumes — every operation is ONE bracket
`Lock|RLock; body; Unlock|RUnlock`, the body acquires nothing — is checked against the Go source.

`Hts.Gen.CacheLocks.fns` is regenerated from the AST of bgzf/cache/cache.go on every check
(go/cmd/extract/locks.go): per function the mutex events, the calls that could take a mutex and the
returns, in source order.  The theorems below are closed computations over that list; they stop checking
if a method gains a second bracket, an early return ahead of a non-deferred `Unlock`, a call to a locking
method under the lock (that is defect C14-1: `drop` calling `c.Len()`), a call into another `Cache`
under an LRU/FIFO/Random lock, or if a method the model treats as read-only takes the write lock (or the
reverse).

What this does NOT give: that the body between the brackets computes the model's function (that is the
differential harness), nor termination of the loops in the bodies.  "Resize/Drop/Free always return" is
therefore: statically, no method can block on its own mutex (this tie; it is what defect C14-1 violated);
dynamically, a watchdog observation of the harness (every history runs under one), not a theorem.
-/
import Hts.Gen.CacheLocks
import Hts.Lemmas.CacheLinInst
namespace Hts.Tie.C14
open Hts.Gen.CacheLocks

def find (recv name : String) : Option Fn := fns.find? (fun f => f.recv == recv && f.name == name)

/-- may a call of `recv.name` acquire a mutex?  Unknown functions and calls through the `Cache`
interface count as "yes"; `fuel` bounds the call depth (exhausted = "yes"). -/
def acquires : Nat → String → String → Bool
  | 0, _, _ => true
  | fuel + 1, recv, name =>
    match find recv name with
    | none => true
    | some f => f.evs.any (fun e => match e with
        | .lock | .rlock | .unlock | .runlock | .deferUnlock | .deferRUnlock => true
        | .call r n => r == "Cache" || r == "mu" || acquires fuel r n
        | .ret => false)

inductive Mode | write | read
deriving DecidableEq, Repr

/-- `Unlock` as the last mutex event, followed by returns only -/
def endsWith (u : Ev) (rest : List Ev) : Option (List Ev) :=
  match (rest.reverse.dropWhile (· == .ret)) with
  | e :: b => if e == u then some b.reverse else none
  | [] => none

/-- the one bracket of a function and the events inside it: either `Lock; defer Unlock; body` or
`Lock; body; Unlock` with no `return` inside the body (it would leave the mutex held) -/
def bracket (f : Fn) : Option (Mode × List Ev) :=
  match f.evs with
  | .lock :: .deferUnlock :: body => some (.write, body)
  | .rlock :: .deferRUnlock :: body => some (.read, body)
  | .lock :: rest => (endsWith .unlock rest).bind (fun b => if b.all (· != .ret) then some (.write, b) else none)
  | .rlock :: rest => (endsWith .runlock rest).bind (fun b => if b.all (· != .ret) then some (.read, b) else none)
  | _ => none

/-- nothing inside the bracket touches a mutex: only returns and calls of functions that acquire nothing -/
def quiet (body : List Ev) : Bool :=
  body.all (fun e => match e with
    | .ret => true
    | .call r n => !(r == "Cache" || r == "mu") && !acquires 4 r n
    | _ => false)

def oneBracket (recv name : String) (m : Mode) : Bool :=
  match (find recv name).bind bracket with
  | some (m', body) => m' == m && quiet body
  | none => false

/-- the lock mode the linearizability instances give each method (`Call.isRead`) -/
def modeOf (c : Hts.Spec.Lin.Call) : Mode := if c.isRead then .read else .write

def goName : Hts.Spec.Lin.Call → String
  | .put _ => "Put" | .get _ => "Get" | .peek _ => "Peek" | .len => "Len" | .cap => "Cap"
  | .drop _ => "Drop" | .resize _ => "Resize"

def methodModes : List (String × Mode) :=
  [("Put", .write), ("Get", .write), ("Peek", .read), ("Len", .read), ("Cap", .read), ("Drop", .write),
   ("Resize", .write)]

theorem methodModes_covers (c : Hts.Spec.Lin.Call) : (goName c, modeOf c) ∈ methodModes := by
  cases c <;> simp [goName, modeOf, methodModes, Hts.Spec.Lin.Call.isRead]

theorem methods_one_bracket_list :
    ∀ p ∈ methodModes, oneBracket "LRU" p.1 p.2 = true ∧ oneBracket "FIFO" p.1 p.2 = true ∧
      oneBracket "Random" p.1 p.2 = true := by
  decide

/-- Every method of LRU, FIFO and Random is one lock bracket of the mode `lObj`/`rObj` assume
(`Peek`/`Len`/`Cap` under `RLock`, the others under `Lock`), with no mutex operation, no call that can
acquire a mutex and no call into another cache inside the bracket. -/
theorem cache_methods_one_bracket (c : Hts.Spec.Lin.Call) :
    oneBracket "LRU" (goName c) (modeOf c) = true ∧
    oneBracket "FIFO" (goName c) (modeOf c) = true ∧
    oneBracket "Random" (goName c) (modeOf c) = true :=
  methods_one_bracket_list _ (methodModes_covers c)

/-- the unexported helpers called under the lock take no lock themselves -/
theorem cache_helpers_acquire_nothing :
    acquires 4 "LRU" "drop" = false ∧ acquires 4 "FIFO" "drop" = false ∧ acquires 4 "Random" "drop" = false ∧
    acquires 4 "" "remove" = false ∧ acquires 4 "" "insertAfter" = false := by
  decide

/-- StatsRecorder: `Stats`/`Reset` are one quiet bracket; `Get`/`Put` are one bracket of the recorder's
mutex whose body is exactly one call into the wrapped cache (a different mutex, always taken in the order
recorder → inner; the small steps of that body are the ones `recObj` uses). -/
theorem recorder_methods_one_bracket :
    oneBracket "StatsRecorder" "Stats" .read = true ∧ oneBracket "StatsRecorder" "Reset" .write = true ∧
    (find "StatsRecorder" "Get").bind bracket = some (.write, [.call "Cache" "Get"]) ∧
    (find "StatsRecorder" "Put").bind bracket = some (.write, [.call "Cache" "Put"]) ∧
    find "StatsRecorder" "Peek" = none := by
  decide

/-- `cache.Free` holds no lock of its own and is five separate acquisitions of the cache's mutex
(`Cap`, `Len`, then `Drop`, `Cap`, `Len`): it is NOT an atomic operation and is not an operation of the
linearizability instances. -/
theorem free_is_not_atomic :
    (find "" "Free").bind bracket = none ∧
    (find "" "Free").map (fun f => f.evs.filter (· != .ret)) =
      some [.call "Cache" "Cap", .call "Cache" "Len", .call "Cache" "Drop", .call "Cache" "Cap", .call "Cache" "Len"] := by
  decide

end Hts.Tie.C14
