/-
Tie for C16: kernels and tables regenerated from the Go AST equal the hand-written model.
-/
import Hts.Model.Coord
import Hts.Gen.Index
import Hts.Gen.Sam
namespace Hts.Tie.C16
open Hts.Model.Coord

/-- `sam.consume` (Query, Reference rows) -/
theorem tie_consume : Hts.Gen.Sam.consume = consumeTab.map (fun p => [p.1, p.2]) := by decide

/-- `sam.cigarOps` = "MIDNSHP=XB?" -/
theorem tie_cigarOps : Hts.Gen.Sam.cigarOps = [77, 73, 68, 78, 83, 72, 80, 61, 88, 66, 63] := by decide

theorem tie_consts :
    Hts.Gen.Index.tileWidth = 16384 ∧ Hts.Gen.Index.levels = 6 ∧ Hts.Gen.Index.indexWordBits = 29 ∧
    Hts.Gen.Index.nextBinShift = 3 ∧ Hts.Gen.Index.binLimit = 37449 ∧ Hts.Gen.Index.statsDummyBin = 37450 ∧
    Hts.Gen.Index.csiNextBinShift = 3 ∧ Hts.Gen.Index.csiDefaultShift = 14 ∧ Hts.Gen.Index.csiDefaultDepth = 5 ∧
    [Hts.Gen.Index.level0, Hts.Gen.Index.level1, Hts.Gen.Index.level2, Hts.Gen.Index.level3,
      Hts.Gen.Index.level4, Hts.Gen.Index.level5] = [0, 1, 9, 73, 585, 4681] ∧
    [Hts.Gen.Index.level0Shift, Hts.Gen.Index.level1Shift, Hts.Gen.Index.level2Shift, Hts.Gen.Index.level3Shift,
      Hts.Gen.Index.level4Shift, Hts.Gen.Index.level5Shift] = [29, 26, 23, 20, 17, 14] := by decide

theorem ofInt_add_toNat (k : Nat) (x : Int) (hk : k < 4294967296) :
    (BitVec.ofNat 32 k + BitVec.ofInt 32 x).toNat = u32 (k + x) := by
  rw [BitVec.toNat_add, BitVec.toNat_ofInt, BitVec.toNat_ofNat]
  unfold u32
  have h1 : k % 2 ^ 32 = k := Nat.mod_eq_of_lt hk
  rw [h1]
  omega

/-- `internal.BinFor` for every pair of Go ints -/
theorem tie_binFor (beg end_ : Int) : (Hts.Gen.Index.binFor beg end_).toNat = binFor beg end_ := by
  unfold Hts.Gen.Index.binFor binFor
  simp only [beq_iff_eq]
  repeat' split
  all_goals first | rfl | exact ofInt_add_toNat _ _ (by omega)

theorem tie_isValidIndexPos (i : Int) : Hts.Gen.Index.isValidIndexPos i = isValidIndexPos i := rfl

/-- `csi.validIndexPos` for every minShift/depth that fit a uint32 -/
theorem tie_csiValidIndexPos (i : Int) (ms d : Nat) (h : ms + d * 3 < 4294967296) (hd : d * 3 < 4294967296) :
    Hts.Gen.Index.csiValidIndexPos i (BitVec.ofNat 32 ms) (BitVec.ofNat 32 d) = csiValidIndexPos i ms d := by
  unfold Hts.Gen.Index.csiValidIndexPos csiValidIndexPos
  have e : (BitVec.ofNat 32 ms + BitVec.ofNat 32 d * 3#32).toNat = ms + d * 3 := by
    rw [BitVec.toNat_add, BitVec.toNat_mul]
    simp only [BitVec.toNat_ofNat]
    omega
  rw [e]
  simp

end Hts.Tie.C16
