/-
Tie for C11: the tables the decoder models use equal the ones regenerated from the Go AST.
(The panic-site inventory, the other half of the tie, is compared by the harness on every run:
go/cmd/extract/panics.go against lean/expectations/C11.json.)
-/
import Hts.Model.Decoders
import Hts.Props.C11
import Hts.Gen.Sam
set_option maxRecDepth 8192
namespace Hts.Tie.C11
open Hts.Model.Decoders

/-- `bam.jumps` (256 entries): the model's `jumpOf` on every byte -/
theorem tie_jumps : Hts.Gen.Sam.jumps = (List.range 256).map (fun i => jumpOf (UInt8.ofNat i)) := by decide

/-- `sam.powers`: the 13 powers of ten `atoi` indexes -/
theorem tie_powers : Hts.Gen.Sam.powers = powers := by decide

/-- `sam.cigarOps` = "MIDNSHP=XB?" as indexed by `CigarOpType.String` -/
theorem tie_cigarOps : Hts.Gen.Sam.cigarOps = cigarOpsTab.map (fun c => (c.toNat : Int)) := by decide

/-- `len(consume)`, the bound `CigarOpType.Consumes` tests against, and `lastCigar` -/
theorem tie_consume_length : Hts.Gen.Sam.consume.length = Hts.Model.Coord.consumeTab.length ∧
    Hts.Model.Coord.consumeTab.length = lastCigar + 1 := by decide

/-! ### registry of the theorems cited by lean/expectations/C11.json

For every theorem a `lemma:` / `model:` justification may cite: the Go functions its model mirrors.
`"ops"`: the model contains the partial operations of that function (index / slice / make / explicit
panic as `Outcome.panic` or a dedicated panic outcome), so the theorem discharges them.
`"guards"`: the model (another property's, value-level) represents those sites by the dominating guard
only (a pattern match on enough fields, an error branch for a negative count); the theorem shows that no
panic outcome is reachable in it, the site itself is justified by the guard named in the entry.
The double-backquoted names do not elaborate unless the theorem exists in the built environment
(this file is built by every `bin/check C11`); go/cmd/harness/c11_inventory.go reads the table and
rejects a citation whose theorem is not registered for the function of the site. -/
def citations : List (Lean.Name × String × List String) := [
  (``Hts.Props.C11.atoi_total, "ops", ["sam.atoi"]),
  (``Hts.Props.C11.parseCigar_total, "ops", ["sam.ParseCigar", "sam.NewCigarOp", "sam.atoi"]),
  (``Hts.Props.C11.consumes_total, "ops", ["sam.CigarOpType.Consumes"]),
  (``Hts.Props.C11.coord_accessors_total, "ops", ["sam.CigarOpType.Consumes"]),
  (``Hts.Props.C11.opString_total, "ops", ["sam.CigarOpType.String"]),
  (``Hts.Props.C11.isValid_total, "ops", ["sam.Cigar.IsValid"]),
  (``Hts.Props.C11.parseAux_total, "ops", ["sam.ParseAux"]),
  (``Hts.Props.C11.aux_accessors_safe, "ops",
    ["sam.Aux.Kind", "sam.Aux.Type", "sam.Aux.Tag", "sam.Aux.String", "sam.Aux.Value", "sam.samAux.String", "sam.Aux.matches"]),
  (``Hts.Props.C11.parseAux_accessors_safe, "ops",
    ["sam.Aux.Kind", "sam.Aux.Type", "sam.Aux.Tag", "sam.Aux.String", "sam.Aux.Value", "sam.samAux.String", "sam.Aux.matches"]),
  (``Hts.Props.C11.parseAuxBam_accessors_safe, "ops",
    ["sam.Aux.Kind", "sam.Aux.Type", "sam.Aux.Tag", "sam.Aux.String", "sam.Aux.Value", "sam.samAux.String", "sam.Aux.matches"]),
  (``Hts.Props.C11.parseAuxBam_total, "ops", ["bam.parseAux", "bam.decodeHex"]),
  (``Hts.Props.C11.decodeHex_total, "ops", ["bam.decodeHex"]),
  (``Hts.Props.C11.itf8_decode_total, "ops", ["cram/encoding/itf8.Decode"]),
  (``Hts.Props.C11.ltf8_decode_total, "ops", ["cram/encoding/ltf8.Decode"]),
  (``Hts.Props.C11.itf8_stream_total, "ops", ["cram.errorReader.itf8"]),
  (``Hts.Props.C11.ltf8_stream_total, "ops", ["cram.errorReader.ltf8"]),
  (``Hts.Props.C11.cramNum_total, "ops", ["cram.errorReader.itf8", "cram.errorReader.ltf8"]),
  (``Hts.Props.C11.cramItf8slice_total, "ops", ["cram.errorReader.itf8slice"]),
  (``Hts.Props.C11.cramItf8slice_make_bound, "ops", ["cram.errorReader.itf8slice"]),
  (``Hts.Props.C11.cramDefinition_total, "ops", ["cram.definition.readFrom"]),
  (``Hts.Props.C11.cramContainer_total, "ops", ["cram.Container.readFrom", "cram.errorReader.itf8slice"]),
  (``Hts.Props.C11.cramBlock_total, "ops", ["cram.Block.readFrom"]),
  (``Hts.Props.C11.cramBlock_make_bound, "ops", ["cram.Block.readFrom"]),
  (``Hts.Props.C11.cramSlice_total, "ops", ["cram.Slice.readFrom", "cram.errorReader.itf8slice"]),
  (``Hts.Props.C11.cramBlockValue_total, "ops", ["cram.Block.Value", "cram.Block.expandBlockdata", "cram.Slice.readFrom"]),
  (``Hts.Props.C11.cramBlockValue_total_all, "ops", ["cram.Block.Value", "cram.Block.expandBlockdata", "cram.Slice.readFrom"]),
  (``Hts.Props.C11.readBAI_total, "ops",
    ["internal.readBins", "internal.readChunks", "internal.readIndices", "internal.readIntervals"]),
  (``Hts.Props.C11.readTabix_total, "ops",
    ["internal.readBins", "internal.readChunks", "internal.readIndices", "internal.readIntervals", "tabix.readTabixHeader"]),
  (``Hts.Props.C11.headerTagLine_total, "ops",
    ["sam.headerLine", "sam.referenceLine", "sam.readGroupLine", "sam.programLine"]),
  (``Hts.Props.C11.headerDispatch_total, "ops", ["sam.commentLine", "sam.Header.UnmarshalText"]),
  (``Hts.Props.C11.headerMD5_total, "ops", ["sam.referenceLine"]),
  (``Hts.Props.C11.headerRefs_invariant, "ops", ["sam.referenceLine"]),
  (``Hts.Props.C11.headerText_total, "guards",
    ["sam.headerLine", "sam.referenceLine", "sam.readGroupLine", "sam.programLine", "sam.commentLine",
     "sam.Header.UnmarshalText"]),
  (``Hts.Props.C11.headerBinary_total, "guards", ["sam.Header.DecodeBinary", "sam.readRefRecords"]),
  (``Hts.Props.C11.bamRead_total, "ops",
    ["bam.Reader.Read", "bam.buffer.readInt32", "bam.buffer.readUint16", "bam.buffer.readUint8",
     "bam.buffer.unsafeBytes", "bam.readCigarOps"]),
  (``Hts.Props.C11.bamNewBuffer_total, "ops", ["bam.newBuffer"]),
  (``Hts.Props.C11.unmarshalSAM_total, "guards", ["sam.Record.UnmarshalSAM"]),
  (``Hts.Props.C11.samReaderLine_total, "ops", ["sam.Reader.Read"]),
  (``Hts.Props.C11.readCSI_total, "guards", ["csi.ReadFrom", "csi.readBins", "csi.readChunks", "csi.readIndices"]),
  (``Hts.Props.C11.fai_accessors_safe, "ops", ["fai.Record.endOfLineOffset"]),
  (``Hts.Props.C11.fai_accessors_safe, "guards", ["fai.Record.position"]),
  (``Hts.Props.C11.bgzfExpectedMemberSize_total, "ops", ["bgzf.expectedMemberSize"]),
  (``Hts.Props.C11.bgzfReadLimited_total, "ops", ["bgzf.buffer.readLimited"])]

end Hts.Tie.C11
