/-
Tie for C11: the tables the decoder models use equal the ones regenerated from the Go AST.
(The panic-site inventory, the other half of the tie, is compared by the harness on every run:
go/cmd/extract/panics.go against lean/expectations/C11.json.)
-/
import Hts.Model.Decoders
import Hts.Gen.Sam
set_option maxRecDepth 8192
namespace Hts.Tie.C11
open Hts.Model.Decoders

/-- `bam.jumps` (256 entries): the model's `jumpOf` on every byte -/
theorem tie_jumps : Hts.Gen.Sam.jumps = (List.range 256).map (fun i => jumpOf (UInt8.ofNat i)) := by decide

/-- `sam.powers`: the 13 powers of ten `atoi` indexes -/
theorem tie_powers : Hts.Gen.Sam.powers = powers := by decide

/-- `sam.cigarOps` = "MIDNSHP=XB?" as indexed by `CigarOpType.String` -/
theorem tie_cigarOps : Hts.Gen.Sam.cigarOps = cigarOpsTab.map (fun c => (c.toNat : Int)) := by decide

/-- `len(consume)`, the bound `CigarOpType.Consumes` tests against, and `lastCigar` -/
theorem tie_consume_length : Hts.Gen.Sam.consume.length = Hts.Model.Coord.consumeTab.length ∧
    Hts.Model.Coord.consumeTab.length = lastCigar + 1 := by decide

end Hts.Tie.C11
