/-
Tie for C05: the tables regenerated from the Go source on every run (Hts.Gen.Sam: `jumps`, `n16Table`, `n16TableRev`,
`consume`; Hts.Gen.Index: `binFor`) equal the ones the model is written with.  If the Go tables change, these stop
checking.
-/
import Hts.Model.BamRecord
import Hts.Lemmas.Bytes
import Hts.Gen.Sam
import Hts.Gen.Index
namespace Hts.Tie.C05
open Hts.Model.Bam

/-- `bam.jumps` (256 entries) is the model's `jumps` -/
theorem tie_jumps : ∀ t : BitVec 8, jumps t = Hts.Gen.Sam.jumps.getD t.toNat 0 :=
  Hts.Lemmas.byte_forall _ (by decide +kernel)

theorem tie_jumps_length : Hts.Gen.Sam.jumps.length = 256 := by decide +kernel

/-- `sam.n16Table` (256 entries) is the model's `n16` -/
theorem tie_n16Table : ∀ b : BitVec 8, (n16 b : Int) = Hts.Gen.Sam.n16Table.getD b.toNat 0 :=
  Hts.Lemmas.byte_forall _ (by decide +kernel)

theorem tie_n16Table_length : Hts.Gen.Sam.n16Table.length = 256 := by decide +kernel

/-- `sam.n16TableRev` -/
theorem tie_n16TableRev : n16TableRev.map (fun b => (b.toNat : Int)) = Hts.Gen.Sam.n16TableRev := by decide +kernel

/-- the Reference column of `sam.consume` (11 entries; `Consumes` returns the zero value for op codes 11..15) -/
theorem tie_consume : Hts.Gen.Sam.consume.map (fun p => p.getD 1 0) = consumeRef := by decide +kernel

/-- `internal.BinFor` -/
theorem tie_binFor (beg end_ : Int) : Hts.Gen.Index.binFor beg end_ = binFor beg end_ := rfl

end Hts.Tie.C05
