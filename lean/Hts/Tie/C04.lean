/-
Tie for C04/C15: constants and straight-line kernels regenerated from the Go AST (Hts.Gen.Index) equal
the ones the index models use.  A changed TileWidth, pseudo-bin number or validity bound breaks these.
-/
import Hts.Model.Index
import Hts.Model.Csi
import Hts.Gen.Index
namespace Hts.Tie.C04
open Hts.Model.Index

theorem tie_tileWidth : Hts.Gen.Index.tileWidth = (tileWidth : Int) := by decide

theorem tie_statsDummyBin : Hts.Gen.Index.statsDummyBin = (statsDummyBin : Int) := by decide

/-- `internal.IsValidIndexPos` -/
theorem tie_validPos (i : Int) : Hts.Gen.Index.isValidIndexPos i = validPos i := rfl

/-- `csi.validIndexPos` for geometries with `minShift + 3·depth ≤ 63`.  (Beyond that Go's 64-bit `int` shift
wraps — every position is invalid, see `Csi.posBound` — while the translator's `Int` is unbounded: the
regenerated kernel is only meaningful in this range.) -/
theorem tie_csiValidPos (i : Int) (ms d : Nat) (h : ms + 3 * d ≤ 63) :
    Hts.Gen.Index.csiValidIndexPos i (BitVec.ofNat 32 ms) (BitVec.ofNat 32 d) = Hts.Model.Csi.validPos ms d i := by
  unfold Hts.Gen.Index.csiValidIndexPos Hts.Model.Csi.validPos
  have e : (BitVec.ofNat 32 ms + BitVec.ofNat 32 d * 3#32).toNat = ms + 3 * d := by
    rw [BitVec.toNat_add, BitVec.toNat_mul, BitVec.toNat_ofNat, BitVec.toNat_ofNat]
    simp only [BitVec.toNat_ofNat]
    omega
  rw [e, Hts.Model.Csi.posBound_of_le h]
  congr 2
  have : ((1 : Int) * 2 ^ (ms + 3 * d) - 1 - 1) = (2 : Int) ^ (ms + 3 * d) - 2 := by omega
  rw [this]

/-- the CSI defaults used by `csi.New(0, 0)` -/
theorem tie_csiDefaults : Hts.Gen.Index.csiDefaultShift = 14 ∧ Hts.Gen.Index.csiDefaultDepth = 5 := by decide

end Hts.Tie.C04
