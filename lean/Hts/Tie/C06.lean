/-
Tie for C06: the tables of sam/record.go and sam/cigar.go regenerated from the Go AST equal the
hand-written model's.
-/
import Hts.Model.SamText
import Hts.Gen.Sam
namespace Hts.Tie.C06
open Hts.Model.SamText

/-- `n16TableRev` = "=ACMGRSVTWYHKDBN" (Expand / formatSeq) -/
theorem tie_n16TableRev : Hts.Gen.Sam.n16TableRev = n16TableRev.map (fun b => (b.toNat : Int)) := by decide

/-- `n16Table`: the 256-entry letter → base code table of NewSeq -/
theorem tie_n16Table : Hts.Gen.Sam.n16Table = n16Table.map Int.ofNat := by decide +kernel

/-- `cigarOps` = "MIDNSHP=XB?" (CigarOpType.String) -/
theorem tie_cigarOps : Hts.Gen.Sam.cigarOps = cigarLetters.map (fun b => (b.toNat : Int)) := by decide

end Hts.Tie.C06
