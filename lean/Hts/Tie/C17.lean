/-
Tie for C17: `vOffset` of bgzf/index (regenerated from the Go AST as a BitVec function) is the
arithmetic `file * 65536 + block` of the model for every non-negative file offset below 2^47
(BGZF files of up to 128 TiB), so the model's integer order on `vOff` is the code's int64 order.
-/
import Hts.Model.Merge
import Hts.Gen.Index
namespace Hts.Tie.C17
open Hts.Model.Merge

theorem tie_vOffset (f : BitVec 64) (b : BitVec 16) (hf : f.toNat < 2 ^ 47) :
    (Hts.Gen.Index.idxVOffset f b).toInt = vOff ⟨f.toNat, b.toNat⟩ := by
  have hb := b.isLt
  have h1 : (f <<< 16 ||| BitVec.setWidth 64 b).toNat = f.toNat * 65536 + b.toNat := by
    rw [BitVec.toNat_or, BitVec.toNat_shiftLeft, BitVec.toNat_setWidth]
    have e1 : f.toNat <<< 16 % 2 ^ 64 = f.toNat <<< 16 := by
      apply Nat.mod_eq_of_lt
      rw [Nat.shiftLeft_eq]; omega
    have e2 : b.toNat % 2 ^ 64 = b.toNat := Nat.mod_eq_of_lt (by omega)
    rw [e1, e2, ← Nat.shiftLeft_add_eq_or_of_lt (by omega), Nat.shiftLeft_eq]
  unfold Hts.Gen.Index.idxVOffset vOff
  rw [BitVec.toInt_eq_toNat_of_lt (by rw [h1]; omega), h1]
  simp

end Hts.Tie.C17
